(* C20: whole inbound histories of a conformant counterparty = sequences of episodes, each either one message in
   sequence or a message above the expected number followed by the burst that answers the ResendRequest.
   Induction over the episodes on top of C20.BurstProofs.  Proofs only. *)
From Coq Require Import NArith ZArith List Bool Lia.
From F8 Require Import Sess.Bytes Sess.Msg Sess.Persist Sess.Session Sess.SessLemmas C20.Peer C20.Classify C20.SessFacts C20.BurstProofs.
Import ListNotations.
Local Open Scope N_scope.

Inductive episode :=
| EpSeq (raw : bytes) (it : bitem)
| EpGap (rawg : bytes) (g : bitem) (q : N) (braws : list bytes) (burst : list bitem).

Definition ep_raws (ep : episode) : list bytes :=
  match ep with EpSeq raw _ => [raw] | EpGap rawg _ _ braws _ => rawg :: braws end.
Definition ep_dels (ep : episode) : list (bytes * N * bool) :=
  match ep with EpSeq _ it => item_dels [it] | EpGap _ _ _ _ burst => item_dels burst end.
Definition ep_rets (sc : schema) (ep : episode) : list Z :=
  match ep with EpSeq _ it => item_rets sc [it] | EpGap _ _ _ _ burst => 1%Z :: item_rets sc burst end.

Section History.
Variable sc : schema.
Variable decode : bytes -> decode_result.
Variable fl : bytes.
Variable now : Z.

(* the episode takes the stream from position pos to position past *)
Definition ep_ok (s : sess) (pos : N) (ep : episode) (past : N) : Prop :=
  match ep with
  | EpSeq raw it => is_item decode s raw it /\ tiles pos [it] past
  | EpGap rawg g q braws burst =>
    is_item decode s rawg g /\ reveals g q /\ pos < q /\ past = q + 1 /\
    Forall2 (is_item decode s) braws burst /\ tiles pos burst past /\
    forallb item_dup burst = true /\ has_gap burst = true
  end.

Fixpoint eps_ok (s : sess) (pos : N) (eps : list episode) (past : N) : Prop :=
  match eps with
  | [] => pos = past
  | ep :: r => exists mid, ep_ok s pos ep mid /\ eps_ok s mid r past
  end.

Lemma ep_ok_cfg : forall s s' pos ep past, cfg s s' -> ep_ok s pos ep past -> ep_ok s' pos ep past.
Proof.
  intros s s' pos ep past C H. destruct ep; cbn [ep_ok] in *.
  - destruct H as [H1 H2]. split; [eapply is_item_cfg; eassumption|exact H2].
  - destruct H as (H1 & H2 & H3 & H4 & H5 & H6). split; [eapply is_item_cfg; eassumption|].
    repeat (split; try assumption). eapply items_cfg; eassumption.
Qed.

Lemma eps_ok_cfg : forall eps s s' pos past, cfg s s' -> eps_ok s pos eps past -> eps_ok s' pos eps past.
Proof.
  induction eps as [|ep eps IH]; intros s s' pos past C H; [exact H|].
  destruct H as (mid & H1 & H2). exists mid. split; [eapply ep_ok_cfg; eassumption|eapply IH; eassumption].
Qed.

(* c20_gapfill_partial, stream form: as long as every gap is answered by a burst that contains a GapFill, the
   session stays alive, ends aligned with the counterparty, and every application message of the stream (in
   sequence or replayed) is delivered *)
Theorem history_recovers : forall eps l s evs pos past,
  good s -> aligned s pos -> eps_ok s pos eps past ->
  exists s' evs',
    reader_loop sc decode fl now (flat_map ep_raws eps ++ l) s evs = reader_loop sc decode fl now l s' (evs ++ evs')%list /\
    good s' /\ cfg s s' /\ aligned s' past /\
    dels evs' = flat_map ep_dels eps /\ retl evs' = flat_map (ep_rets sc) eps.
Proof.
  induction eps as [|ep eps IH]; intros l s evs pos past G A H.
  - cbn [eps_ok] in H. subst past. exists s, []. rewrite app_nil_r. cbn [flat_map app].
    repeat split; try apply G; try apply A.
  - destruct H as (mid & H1 & H2). cbn [flat_map]. rewrite <- app_assoc.
    assert (STEP : exists s1 e1,
              reader_loop sc decode fl now (ep_raws ep ++ flat_map ep_raws eps ++ l) s evs =
              reader_loop sc decode fl now (flat_map ep_raws eps ++ l) s1 (evs ++ e1)%list /\
              good s1 /\ cfg s s1 /\ aligned s1 mid /\ dels e1 = ep_dels ep /\ retl e1 = ep_rets sc ep).
    { destruct ep as [raw it|rawg g q braws burst]; cbn [ep_ok] in H1; cbn [ep_raws ep_dels ep_rets].
      - destruct H1 as [I T].
        destruct (run_aligned sc decode fl now [it] [raw] (flat_map ep_raws eps ++ l) s evs pos mid
                    (Forall2_cons _ _ I (Forall2_nil _)) T G A) as (s1 & e1 & RL & G1 & C1 & A1 & D1 & R1).
        exists s1, e1. repeat split; try assumption; try apply G1; try apply A1; try apply C1.
      - destruct H1 as (I & Rv & Q & E & F & T & DU & HG). subst mid.
        destruct (gap_and_burst sc decode fl now g rawg burst braws (flat_map ep_raws eps ++ l) s evs pos q
                    G A I Rv Q F T DU) as (s1 & e1 & RL & G1 & C1 & A1 & D1 & R1).
        rewrite HG in A1. exists s1, e1. cbn [app].
        repeat split; try assumption; try apply G1; try apply A1; try apply C1. }
    destruct STEP as (s1 & e1 & RL & G1 & C1 & A1 & D1 & R1).
    destruct (IH l s1 (evs ++ e1)%list mid past G1 A1 (eps_ok_cfg _ _ _ _ _ C1 H2)) as (s' & evs' & RL' & G' & C' & A' & D' & R').
    exists s', (e1 ++ evs')%list. rewrite RL, RL'. rewrite <- app_assoc.
    split; [reflexivity|]. split; [exact G'|]. split; [eapply cfg_trans; eassumption|]. split; [exact A'|].
    rewrite dels_app, retl_app, D1, R1, D', R'. split; reflexivity.
Qed.

(* c20_refuted, general form: ANY gap (any size, any position) answered by a burst WITHOUT a GapFill (in particular:
   replays only) leaves the session one ahead, and the counterparty's next new application message, correctly
   numbered q+1, ends the session (MsgSequenceTooLow) without being delivered *)
Theorem gap_without_gapfill_dies : forall g rawg burst braws t rawn l s evs pos q,
  good s -> aligned s pos -> is_item decode s rawg g -> reveals g q -> pos < q ->
  Forall2 (is_item decode s) braws burst -> tiles pos burst (q + 1) -> forallb item_dup burst = true ->
  has_gap burst = false ->
  is_item decode s rawn (BApp t (q + 1) false) ->
  exists s' evs',
    reader_loop sc decode fl now (rawg :: braws ++ rawn :: l) s evs = (s', evs ++ evs')%list /\
    s_shutdown s' = true /\ s_reader s' = false /\ s_next_recv s' = q + 2 /\
    dels evs' = item_dels burst /\ retl evs' = (1%Z :: item_rets sc burst ++ [0%Z])%list.
Proof.
  intros g rawg burst braws t rawn l s evs pos q G A I Rv Q F T DU NG IN.
  destruct (gap_and_burst sc decode fl now g rawg burst braws (rawn :: l) s evs pos q G A I Rv Q F T DU)
    as (s1 & e1 & RL & G1 & C1 & A1 & D1 & R1).
  rewrite NG in A1.
  destruct (ahead_dies sc decode fl now t rawn l s1 (evs ++ e1)%list (q + 1) G1 A1 (is_item_cfg _ _ _ _ _ C1 IN))
    as (s' & RL' & S1 & S2 & S3).
  exists s', (e1 ++ [ERet 0%Z])%list. rewrite RL, RL'. rewrite <- app_assoc.
  split; [reflexivity|]. split; [exact S1|]. split; [exact S2|]. split; [rewrite S3; lia|].
  rewrite dels_app, retl_app, D1, R1. cbn [dels retl flat_map app]. rewrite app_nil_r. split; reflexivity.
Qed.

End History.

(* ---- exactly once: the numbers of the deliveries owed for a tiling are strictly increasing ---------------------------- *)
Definition del_seq (d : bytes * N * bool) : N := snd (fst d).

Lemma item_dels_bounds : forall l pos past d, tiles pos l past -> In d (item_dels l) -> pos <= del_seq d < past.
Proof.
  induction l as [|it l IH]; intros pos past d T H; [destruct H|].
  rewrite item_dels_cons in H. apply in_app_or in H. apply tiles_cons in T. destruct T as [TH TN].
  pose proof (tiles_le _ _ _ TN) as LE.
  destruct H as [H|H].
  - destruct it; cbn in H; try contradiction. destruct H as [H|[]]. subst d. cbn in TH. subst q. cbn [del_seq fst snd tile_next] in *. lia.
  - specialize (IH _ _ d TN H). destruct it; cbn [tile_next tile_head] in *; lia.
Qed.

Theorem item_dels_nodup : forall l pos past, tiles pos l past -> NoDup (map del_seq (item_dels l)).
Proof.
  induction l as [|it l IH]; intros pos past T; [constructor|].
  rewrite item_dels_cons. apply tiles_cons in T. destruct T as [TH TN]. specialize (IH _ _ TN).
  destruct it; cbn [item_dels flat_map app]; try exact IH.
  cbn [map]. constructor; [|exact IH]. intro I. apply in_map_iff in I. destruct I as (d & E & I).
  pose proof (item_dels_bounds _ _ _ d TN I) as B. cbn in TH. subst q. cbn [del_seq fst snd tile_next] in *. lia.
Qed.

(* no losses: aligned throughout, the deliveries are the application messages of the stream, each once *)
Theorem nogap_exact :
  forall sc decode fl now items raws l s evs pos past,
  Forall2 (is_item decode s) raws items -> tiles pos items past -> good s -> aligned s pos ->
  (exists s' evs',
    reader_loop sc decode fl now (raws ++ l) s evs = reader_loop sc decode fl now l s' (evs ++ evs')%list /\
    good s' /\ cfg s s' /\ aligned s' past /\ dels evs' = item_dels items /\ retl evs' = item_rets sc items) /\
  NoDup (map del_seq (item_dels items)).
Proof.
  intros sc decode fl now items raws l s evs pos past F T G A.
  split; [apply (run_aligned sc decode fl now items raws l s evs pos past F T G A)|exact (item_dels_nodup items pos past T)].
Qed.
