(* C20: scenarios = what the counterparty (and the session's own side) does, in the order it happens.
   A scenario is the CASE LINE of the C20 suite.  Actions are separated by '|':

     START ... / RESTART / SEND <msgspec> / CLOCK <ns> / ...   an operation of the session's own side, passed through
                                                                verbatim to the session (syntax of coq/Sess/READY.md)
     P <n>                 the counterparty's next outbound number := n   (before its first message; default 1)
     LOGON                 the counterparty sends its Logon (98=0, 108=<hb of the START>)
     LOGON N / LOGON Y     the same with ResetSeqNumFlag (141) = N, explicitly / = Y (the counterparty then restarts its own
                           numbering at 1)
     M <type> [<tag>=<hex>,...]    the counterparty sends a message of this type with these body fields: it takes the
                                   counterparty's next number and arrives
                                   (any type: application, 0 Heartbeat, 1 TestRequest, 3 Reject, 5 Logout, 4 an unsolicited
                                   SequenceReset, and 2 = the counterparty's OWN ResendRequest [7=Begin,16=End] for the
                                   session's messages -- whether and when it asks is a choice of the scenario; the session
                                   then both requests and serves a resend if that message also reveals a gap)
     L <type> [<tag>=<hex>,...]    the same, but the message is LOST (sent while disconnected): it takes a number, the
                                   counterparty remembers it, the session never sees it
     X <bits>              decisions (0/1) consumed by the counterparty when it answers a ResendRequest:
                           one per remembered Reject in the range (1 = replay it, 0 = gap-fill it) and one per
                           continuation of a gap-fill run (1 = close the run and start a new SequenceReset here)

   Syntax only: no proofs, no semantics in this file. *)
From Coq Require Import NArith ZArith List Bool.
From F8 Require Import Sess.Bytes Sess.Msg Sess.Persist Sess.Session Sess.Wire.
Import ListNotations.
Local Open Scope N_scope.

Inductive act :=
| ASess (txt : bytes) (o : op)
| APeerNum (n : N)
| ALogon
| ALogonR (y : bool)
| AMsg (lost : bool) (t : bytes) (body : list (N * bytes))
| ADecide (l : list bool).

Definition parse_bits (l : bytes) : list bool := map (fun c => c =? 49) l.

Definition parse_pmsg (t : bytes) (lost : bool) (args : list bytes) : act :=
  match args with
  | ty :: rest =>
    match parse_fieldlist (match rest with f :: _ => split_on 44 f | [] => [] end) with
    | Some fl => AMsg lost ty fl
    | None => ASess t OBad
    end
  | [] => ASess t OBad
  end.

Definition parse_act (t : bytes) : act :=
  match words t with
  | name :: args =>
    if beq name [80] then                                        (* P *)
      match args with
      | a :: _ => match parse_num a with Some n => APeerNum n | None => ASess t OBad end
      | [] => ASess t OBad
      end
    else if beq name [76;79;71;79;78] then                       (* LOGON [N|Y] *)
      match args with
      | [] => ALogon
      | a :: _ => if beq a [89] then ALogonR true else if beq a [78] then ALogonR false else ASess t OBad
      end
    else if beq name [77] then parse_pmsg t false args           (* M *)
    else if beq name [76] then parse_pmsg t true args            (* L *)
    else if beq name [88] then ADecide (match args with a :: _ => parse_bits a | [] => [] end)   (* X *)
    else ASess t (parse_op t)
  | [] => ASess t OEmpty
  end.

Definition parse_scenario (line : bytes) : list act := map parse_act (split_on 124 line).
