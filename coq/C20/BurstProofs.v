(* C20: the inbound stream of a conformant counterparty through FIXReader's loop (Sess.Session.reader_loop).
   Induction over the stream with the invariant that relates the session's expected number to the position in
   the stream:
       aligned s pos :  state continuous,            next_recv = pos
       ahead   s pos :  state resend_request_sent OR continuous,   next_recv = pos + 1     (after a gap was detected;
                        the state is resend_request_sent unless the message that revealed the gap was the counterparty's
                        own ResendRequest, which the session also SERVES: resend_request_received -> continuous)
   A SequenceReset-GapFill turns `ahead` into `aligned`; nothing else does.
   For EVERY schema, decoder, session configuration, gap size and position.  Proofs only. *)
From Coq Require Import NArith ZArith List Bool Lia.
From F8 Require Import Sess.Bytes Sess.Msg Sess.Persist Sess.Session Sess.SessLemmas C20.Peer C20.Classify C20.SessFacts.
Import ListNotations.
Local Open Scope N_scope.

(* the items cover the numbers pos .. past-1 consecutively *)
Fixpoint tiles (pos : N) (l : list bitem) (past : N) : Prop :=
  match l with
  | [] => pos = past
  | BApp _ q _ :: r => q = pos /\ tiles (pos + 1) r past
  | BHb q _ :: r => q = pos /\ tiles (pos + 1) r past
  | BRej q :: r => q = pos /\ tiles (pos + 1) r past
  | BGap q n :: r => q = pos /\ pos < n /\ tiles n r past
  end.

Lemma tiles_le : forall l pos past, tiles pos l past -> pos <= past.
Proof.
  induction l as [|it l IH]; intros pos past H; cbn [tiles] in H; [lia|].
  destruct it; try (destruct H as [_ H]; apply IH in H; lia).
  destruct H as (_ & L & H). apply IH in H. lia.
Qed.

Section Burst.
Variable sc : schema.
Variable decode : bytes -> decode_result.
Variable fl : bytes.
Variable now : Z.

(* raw is this item for a session with the configuration of s *)
Definition is_item (s : sess) (raw : bytes) (it : bitem) : Prop :=
  match it with
  | BApp t q pd =>
    exists m, arrives decode raw q m /\ m_type m = t /\ is_session_type t = false /\ cid_ok s m = true /\
              possdup m = pd /\ (pd = true -> time_ok m = true)
  | BHb q pd =>
    exists m, arrives decode raw q m /\ m_type m = mt_heartbeat /\ cid_ok s m = true /\
              possdup m = pd /\ (pd = true -> time_ok m = true)
  | BRej q => exists m, arrives decode raw q m /\ m_type m = mt_reject
  | BGap q n =>
    exists m v, arrives decode raw q m /\ m_type m = mt_sequence_reset /\ cid_ok s m = true /\
                get_field T_NewSeqNo (m_body m) = Some v /\ atoi_u v 0 = n
  end.

Lemma cid_ok_cfg : forall s s' m, cfg s s' -> cid_ok s' m = cid_ok s m.
Proof. intros s s' m (_ & _ & _ & _ & A & B & C & _). unfold cid_ok. rewrite A, B, C. reflexivity. Qed.

Lemma is_item_cfg : forall s s' raw it, cfg s s' -> is_item s raw it -> is_item s' raw it.
Proof.
  intros s s' raw it C H. destruct it; cbn [is_item] in *.
  - destruct H as (m & H). exists m. rewrite (cid_ok_cfg _ _ _ C). exact H.
  - destruct H as (m & H). exists m. rewrite (cid_ok_cfg _ _ _ C). exact H.
  - exact H.
  - destruct H as (m & v & H). exists m, v. rewrite (cid_ok_cfg _ _ _ C). exact H.
Qed.

Lemma items_cfg : forall s s' raws items, cfg s s' -> Forall2 (is_item s) raws items -> Forall2 (is_item s') raws items.
Proof. intros s s' raws items C H. induction H; constructor; [eapply is_item_cfg; eassumption|assumption]. Qed.

Definition good (s : sess) : Prop := s_reader s = true /\ live s.
Definition aligned (s : sess) (pos : N) : Prop := s_state s = st_continuous /\ s_next_recv s = pos.
Definition ahead (s : sess) (pos : N) : Prop := running s /\ s_next_recv s = pos + 1.

Lemma good_not_shutdown : forall s, good s -> negb (s_reader s) || is_shutdown s = false.
Proof.
  intros s (R & _ & Sh & Ru). rewrite R. unfold is_shutdown. rewrite Sh.
  destruct Ru as [E|E]; rewrite E; reflexivity.
Qed.

Lemma good_last_recv : forall s, good s -> live (w_last_recv now s).
Proof. intros s (_ & A & B & C). repeat split; try assumption. Qed.

(* one turn of the reader loop on a message that leaves the session running *)
Lemma reader_step : forall raw l s evs r s1 e1 st nr,
  good s -> process sc decode fl now raw (w_last_recv now s) = (r, s1, e1) ->
  post (w_last_recv now s) s1 st nr -> st = st_continuous \/ st = st_resend_request_sent ->
  reader_loop sc decode fl now (raw :: l) s evs =
    reader_loop sc decode fl now l s1 (evs ++ e1 ++ [ERet (if r then 1 else 0)%Z])%list /\
  good s1 /\ cfg s s1.
Proof.
  intros raw l s evs r s1 e1 st nr G P (P1 & P2 & P3) St.
  cbn [reader_loop]. rewrite (good_not_shutdown s G). rewrite P.
  destruct P3 as (C1 & C2 & C3 & C4 & C5 & C6 & C7 & C8). cbn in C1, C2, C3, C4, C5, C6, C7, C8.
  destruct G as (R & A & Sh & Ru).
  assert (NS : is_shutdown s1 = false).
  { unfold is_shutdown. rewrite C3, Sh, P1. destruct St as [E|E]; rewrite E; reflexivity. }
  rewrite NS. split; [reflexivity|]. split.
  - split; [congruence|]. split; [congruence|]. split; [congruence|]. unfold running. rewrite P1. exact St.
  - repeat split; assumption.
Qed.

(* ---- per item: aligned stays aligned ---------------------------------------------------------------------------- *)
Lemma step_aligned : forall it raw l s evs pos,
  good s -> aligned s pos -> is_item s raw it ->
  match it with BApp _ q _ => q = pos | BHb q _ => q = pos | BRej q => q = pos | BGap q n => q = pos /\ pos < n end ->
  exists s1 e1,
    reader_loop sc decode fl now (raw :: l) s evs = reader_loop sc decode fl now l s1 (evs ++ e1)%list /\
    good s1 /\ cfg s s1 /\ dels e1 = item_dels [it] /\ retl e1 = item_rets sc [it] /\
    aligned s1 (match it with BGap _ n => n | _ => pos + 1 end).
Proof.
  intros it raw l s evs pos G (A1 & A2) I Q.
  pose proof (good_last_recv s G) as L.
  destruct it as [t q pd|q pd|q|q n]; cbn [is_item] in I.
  - destruct I as (m & Ar & Ty & NS & C & PD & TO). subst q t.
    destruct (process_app_ok sc decode fl now raw pos m (w_last_recv now s) Ar L NS C (or_introl (eq_sym A2))) as (s1 & P & Po).
    destruct (reader_step raw l s evs _ s1 _ _ _ G P Po (or_introl A1)) as (RL & G1 & C1).
    exists s1. eexists. split; [exact RL|]. split; [exact G1|]. split; [exact C1|].
    rewrite PD. split; [reflexivity|]. split; [reflexivity|].
    destruct Po as (P1 & P2 & _). cbn in P1, P2. split; congruence.
  - destruct I as (m & Ar & Ty & C & PD & TO). subst q.
    destruct (process_heartbeat_ok sc decode fl now raw pos m (w_last_recv now s) Ar L Ty C (or_introl (eq_sym A2))) as (s1 & P & Po).
    destruct (reader_step raw l s evs _ s1 _ _ _ G P Po (or_introl A1)) as (RL & G1 & C1).
    exists s1. eexists. split; [exact RL|]. split; [exact G1|]. split; [exact C1|].
    split; [reflexivity|]. split; [reflexivity|].
    destruct Po as (P1 & P2 & _). cbn in P1, P2. split; congruence.
  - destruct I as (m & Ar & Ty). subst q.
    destruct (process_reject sc decode fl now raw pos m (w_last_recv now s) Ar Ty) as (s1 & P & Po).
    destruct (reader_step raw l s evs _ s1 _ _ _ G P Po (or_introl A1)) as (RL & G1 & C1).
    exists s1. eexists. split; [exact RL|]. split; [exact G1|]. split; [exact C1|].
    split; [reflexivity|]. split; [reflexivity|].
    destruct Po as (P1 & P2 & _). cbn in P1, P2. split; congruence.
  - destruct I as (m & v & Ar & Ty & C & NSq & At). destruct Q as [Q1 Q2]. subst q.
    assert (LE : s_next_recv (w_last_recv now s) <= atoi_u v 0) by (cbn; lia).
    assert (PS : 0 < atoi_u v 0) by lia.
    destruct (process_gapfill sc decode fl now raw pos m (w_last_recv now s) v Ar L Ty C NSq LE PS) as (s1 & P & Po).
    destruct (reader_step raw l s evs _ s1 _ _ _ G P Po (or_introl eq_refl)) as (RL & G1 & C1).
    exists s1. eexists. split; [exact RL|]. split; [exact G1|]. split; [exact C1|].
    split; [reflexivity|]. split; [reflexivity|].
    destruct Po as (P1 & P2 & _). split; congruence.
Qed.

(* ---- per item: one ahead.  Retransmissions keep it one ahead; a GapFill re-aligns it ---------------------------- *)
Lemma step_ahead : forall it raw l s evs pos,
  good s -> ahead s pos -> is_item s raw it -> item_dup it = true ->
  match it with BApp _ q _ => q = pos | BHb q _ => q = pos | BRej q => q = pos | BGap q n => q = pos /\ pos < n end ->
  exists s1 e1,
    reader_loop sc decode fl now (raw :: l) s evs = reader_loop sc decode fl now l s1 (evs ++ e1)%list /\
    good s1 /\ cfg s s1 /\ dels e1 = item_dels [it] /\ retl e1 = item_rets sc [it] /\
    match it with BGap _ n => aligned s1 n | _ => ahead s1 (pos + 1) end.
Proof.
  intros it raw l s evs pos G (A1 & A2) I D Q.
  pose proof (good_last_recv s G) as L.
  destruct it as [t q pd|q pd|q|q n]; cbn [is_item] in I; cbn [item_dup] in D.
  - destruct I as (m & Ar & Ty & NS & C & PD & TO). subst q t pd.
    assert (LOW : pos = s_next_recv (w_last_recv now s) \/
                  (pos < s_next_recv (w_last_recv now s) /\ possdup m = true /\ time_ok m = true)).
    { right. cbn. split; [lia|]. split; [assumption|]. apply TO. assumption. }
    destruct (process_app_ok sc decode fl now raw pos m (w_last_recv now s) Ar L NS C LOW) as (s1 & P & Po).
    destruct (reader_step raw l s evs _ s1 _ _ _ G P Po A1) as (RL & G1 & C1).
    exists s1. eexists. split; [exact RL|]. split; [exact G1|]. split; [exact C1|].
    rewrite D. split; [reflexivity|]. split; [reflexivity|].
    destruct Po as (P1 & P2 & _). cbn in P1, P2. split; [unfold running; rewrite P1; exact A1|congruence].
  - destruct I as (m & Ar & Ty & C & PD & TO). subst q pd.
    assert (LOW : pos = s_next_recv (w_last_recv now s) \/
                  (pos < s_next_recv (w_last_recv now s) /\ possdup m = true /\ time_ok m = true)).
    { right. cbn. split; [lia|]. split; [assumption|]. apply TO. assumption. }
    destruct (process_heartbeat_ok sc decode fl now raw pos m (w_last_recv now s) Ar L Ty C LOW) as (s1 & P & Po).
    destruct (reader_step raw l s evs _ s1 _ _ _ G P Po A1) as (RL & G1 & C1).
    exists s1. eexists. split; [exact RL|]. split; [exact G1|]. split; [exact C1|].
    split; [reflexivity|]. split; [reflexivity|].
    destruct Po as (P1 & P2 & _). cbn in P1, P2. split; [unfold running; rewrite P1; exact A1|congruence].
  - destruct I as (m & Ar & Ty). subst q.
    destruct (process_reject sc decode fl now raw pos m (w_last_recv now s) Ar Ty) as (s1 & P & Po).
    destruct (reader_step raw l s evs _ s1 _ _ _ G P Po A1) as (RL & G1 & C1).
    exists s1. eexists. split; [exact RL|]. split; [exact G1|]. split; [exact C1|].
    split; [reflexivity|]. split; [reflexivity|].
    destruct Po as (P1 & P2 & _). cbn in P1, P2. split; [unfold running; rewrite P1; exact A1|congruence].
  - destruct I as (m & v & Ar & Ty & C & NSq & At). destruct Q as [Q1 Q2]. subst q.
    assert (LE : s_next_recv (w_last_recv now s) <= atoi_u v 0) by (cbn; lia).
    assert (PS : 0 < atoi_u v 0) by lia.
    destruct (process_gapfill sc decode fl now raw pos m (w_last_recv now s) v Ar L Ty C NSq LE PS) as (s1 & P & Po).
    destruct (reader_step raw l s evs _ s1 _ _ _ G P Po (or_introl eq_refl)) as (RL & G1 & C1).
    exists s1. eexists. split; [exact RL|]. split; [exact G1|]. split; [exact C1|].
    split; [reflexivity|]. split; [reflexivity|].
    destruct Po as (P1 & P2 & _). split; congruence.
Qed.


Lemma item_dels_cons : forall it l, item_dels (it :: l) = (item_dels [it] ++ item_dels l)%list.
Proof. intros. unfold item_dels. cbn [flat_map]. rewrite app_nil_r. reflexivity. Qed.
Lemma item_rets_cons : forall it l, item_rets sc (it :: l) = (item_rets sc [it] ++ item_rets sc l)%list.
Proof. reflexivity. Qed.

Definition tile_head (it : bitem) (pos : N) : Prop :=
  match it with BApp _ q _ => q = pos | BHb q _ => q = pos | BRej q => q = pos | BGap q n => q = pos /\ pos < n end.
Definition tile_next (it : bitem) (pos : N) : N := match it with BGap _ n => n | _ => pos + 1 end.
Lemma tiles_cons : forall it l pos past, tiles pos (it :: l) past -> tile_head it pos /\ tiles (tile_next it pos) l past.
Proof. clear. intros it l pos past H. destruct it; cbn [tiles tile_head tile_next] in H |- *; tauto. Qed.

(* ---- a stretch of the stream processed while aligned: stays aligned, every application message delivered ---- *)
Theorem run_aligned : forall items raws l s evs pos past,
  Forall2 (is_item s) raws items -> tiles pos items past -> good s -> aligned s pos ->
  exists s' evs',
    reader_loop sc decode fl now (raws ++ l) s evs = reader_loop sc decode fl now l s' (evs ++ evs')%list /\
    good s' /\ cfg s s' /\ aligned s' past /\ dels evs' = item_dels items /\ retl evs' = item_rets sc items.
Proof.
  induction items as [|it items IH]; intros raws l s evs pos past F T G A.
  - inversion F; subst. cbn [tiles] in T. subst past. exists s, []. rewrite app_nil_r. cbn [app].
    repeat split; try assumption; try apply G; try apply A. 
  - inversion F as [|raw it' raws' items' I F']; subst. apply tiles_cons in T. destruct T as [TH TN].
    destruct (step_aligned it raw (raws' ++ l) s evs pos G A I TH) as (s1 & e1 & RL & G1 & C1 & D1 & R1 & A1).
    assert (A1' : aligned s1 (tile_next it pos)) by (destruct it; exact A1).
    destruct (IH raws' l s1 (evs ++ e1)%list _ past (items_cfg _ _ _ _ C1 F') TN G1 A1')
      as (s' & evs' & RL' & G' & C' & A' & D' & R').
    exists s', (e1 ++ evs')%list. cbn [app]. rewrite RL, RL'. rewrite <- app_assoc.
    split; [reflexivity|]. split; [exact G'|]. split; [eapply cfg_trans; eassumption|]. split; [exact A'|].
    rewrite dels_app, retl_app, D1, R1, D', R'. rewrite (item_dels_cons _ items). split; reflexivity.
Qed.

(* the retransmissions up to the first GapFill carry PossDupFlag *)
Fixpoint dup_until_gap (l : list bitem) : Prop :=
  match l with
  | [] => True
  | BGap _ _ :: _ => True
  | it :: r => item_dup it = true /\ dup_until_gap r
  end.

Lemma all_dup_until_gap : forall l, forallb item_dup l = true -> dup_until_gap l.
Proof.
  induction l as [|it l IH]; intro H; [exact I|]. cbn [forallb] in H. apply andb_true_iff in H. destruct H as [H1 H2].
  destruct it; cbn [dup_until_gap]; try exact I; (split; [exact H1|apply IH; exact H2]).
Qed.

(* ---- a stretch processed while one ahead (the burst that answers the ResendRequest) ------------------------------ *)
Theorem run_ahead : forall items raws l s evs pos past,
  Forall2 (is_item s) raws items -> tiles pos items past -> good s -> ahead s pos -> dup_until_gap items ->
  exists s' evs',
    reader_loop sc decode fl now (raws ++ l) s evs = reader_loop sc decode fl now l s' (evs ++ evs')%list /\
    good s' /\ cfg s s' /\ (if has_gap items then aligned s' past else ahead s' past) /\
    dels evs' = item_dels items /\ retl evs' = item_rets sc items.
Proof.
  induction items as [|it items IH]; intros raws l s evs pos past F T G A DU.
  - inversion F; subst. cbn [tiles] in T. subst past. exists s, []. rewrite app_nil_r. cbn [app has_gap existsb].
    repeat split; try assumption; try apply G; try apply A.
  - inversion F as [|raw it' raws' items' I F']; subst. apply tiles_cons in T. destruct T as [TH TN].
    assert (DI : item_dup it = true) by (destruct it; cbn [dup_until_gap] in DU; try apply DU; reflexivity).
    destruct (step_ahead it raw (raws' ++ l) s evs pos G A I DI TH) as (s1 & e1 & RL & G1 & C1 & D1 & R1 & A1).
    destruct (item_is_gap it) eqn:IG.
    + (* a GapFill: aligned from here on *)
      destruct it; try discriminate. cbn [tile_next] in TN.
      destruct (run_aligned items raws' l s1 (evs ++ e1)%list _ past (items_cfg _ _ _ _ C1 F') TN G1 A1)
        as (s' & evs' & RL' & G' & C' & A' & D' & R').
      exists s', (e1 ++ evs')%list. cbn [app]. rewrite RL, RL'. rewrite <- app_assoc.
      split; [reflexivity|]. split; [exact G'|]. split; [eapply cfg_trans; eassumption|].
      cbn [has_gap existsb item_is_gap orb]. split; [exact A'|].
      rewrite dels_app, retl_app, D1, R1, D', R'. rewrite (item_dels_cons _ items). split; reflexivity.
    + assert (A1' : ahead s1 (pos + 1)) by (destruct it; try discriminate; exact A1).
      assert (TN' : tiles (pos + 1) items past) by (destruct it; try discriminate; exact TN).
      assert (DU' : dup_until_gap items) by (destruct it; try discriminate; apply DU).
      destruct (IH raws' l s1 (evs ++ e1)%list _ past (items_cfg _ _ _ _ C1 F') TN' G1 A1' DU')
        as (s' & evs' & RL' & G' & C' & A' & D' & R').
      exists s', (e1 ++ evs')%list. cbn [app]. rewrite RL, RL'. rewrite <- app_assoc.
      split; [reflexivity|]. split; [exact G'|]. split; [eapply cfg_trans; eassumption|].
      cbn [has_gap existsb]. rewrite IG. cbn [orb]. split; [exact A'|].
      rewrite dels_app, retl_app, D1, R1, D', R'. rewrite (item_dels_cons _ items). split; reflexivity.
Qed.

(* ---- the message that reveals a gap ------------------------------------------------------------------------------- *)
Definition reveals (g : bitem) (q : N) : Prop :=
  match g with BApp _ q' _ => q' = q | BHb q' _ => q' = q | _ => False end.

Lemma step_gap : forall g raw l s evs pos q,
  good s -> aligned s pos -> is_item s raw g -> reveals g q -> pos < q ->
  exists s1 e1,
    reader_loop sc decode fl now (raw :: l) s evs = reader_loop sc decode fl now l s1 (evs ++ e1)%list /\
    good s1 /\ cfg s s1 /\ ahead s1 pos /\ dels e1 = [] /\ retl e1 = [1%Z].
Proof.
  intros g raw l s evs pos q G (A1 & A2) I Rv Q.
  pose proof (good_last_recv s G) as L.
  destruct g as [t q' pd|q' pd| |]; cbn [reveals] in Rv; try contradiction; subst q'; cbn [is_item] in I.
  - destruct I as (m & Ar & Ty & NS & C & PD & TO). subst t.
    assert (HI : s_next_recv (w_last_recv now s) < q) by (cbn; lia).
    destruct (process_app_high sc decode fl now raw q m (w_last_recv now s) Ar L A1 NS C HI) as (s1 & e & P & (O1 & O2) & Po & _).
    destruct (reader_step raw l s evs _ s1 _ _ _ G P Po (or_intror eq_refl)) as (RL & G1 & C1).
    exists s1. eexists. split; [exact RL|]. split; [exact G1|]. split; [exact C1|].
    destruct Po as (P1 & P2 & _). cbn in P2. split; [split; [right; exact P1|congruence]|].
    rewrite dels_app, retl_app, O1, O2. split; reflexivity.
  - destruct I as (m & Ar & Ty & C & PD & TO).
    assert (HI : s_next_recv (w_last_recv now s) < q) by (cbn; lia).
    destruct (process_heartbeat_high sc decode fl now raw q m (w_last_recv now s) Ar L A1 Ty C HI) as (s1 & e & P & (O1 & O2) & Po).
    destruct (reader_step raw l s evs _ s1 _ _ _ G P Po (or_intror eq_refl)) as (RL & G1 & C1).
    exists s1. eexists. split; [exact RL|]. split; [exact G1|]. split; [exact C1|].
    destruct Po as (P1 & P2 & _). cbn in P2. split; [split; [right; exact P1|congruence]|].
    rewrite dels_app, retl_app, O1, O2. split; reflexivity.
Qed.

(* ---- gap + burst ----------------------------------------------------------------------------------------------------- *)
(* the session is aligned at pos; a message numbered q > pos arrives (pos .. q-1 were lost); the counterparty
   answers the ResendRequest with a burst covering pos .. q.  If the burst contains a GapFill the session ends
   aligned at q+1 = the counterparty's next number; if not it ends ONE AHEAD (expecting q+2).  Either way every
   application message of the burst is delivered. *)
Theorem gap_and_burst : forall g rawg burst braws l s evs pos q,
  good s -> aligned s pos -> is_item s rawg g -> reveals g q -> pos < q ->
  Forall2 (is_item s) braws burst -> tiles pos burst (q + 1) -> forallb item_dup burst = true ->
  exists s' evs',
    reader_loop sc decode fl now (rawg :: braws ++ l) s evs = reader_loop sc decode fl now l s' (evs ++ evs')%list /\
    good s' /\ cfg s s' /\ (if has_gap burst then aligned s' (q + 1) else ahead s' (q + 1)) /\
    dels evs' = item_dels burst /\ retl evs' = (1%Z :: item_rets sc burst).
Proof.
  intros g rawg burst braws l s evs pos q G A I Rv Q F T DU.
  destruct (step_gap g rawg (braws ++ l) s evs pos q G A I Rv Q) as (s1 & e1 & RL & G1 & C1 & A1 & D1 & R1).
  destruct (run_ahead burst braws l s1 (evs ++ e1)%list pos (q + 1) (items_cfg _ _ _ _ C1 F) T G1 A1 (all_dup_until_gap _ DU))
    as (s' & evs' & RL' & G' & C' & A' & D' & R').
  exists s', (e1 ++ evs')%list. rewrite RL, RL'. rewrite <- app_assoc.
  split; [reflexivity|]. split; [exact G'|]. split; [eapply cfg_trans; eassumption|]. split; [exact A'|].
  rewrite dels_app, retl_app, D1, R1, D', R'. split; reflexivity.
Qed.

(* ---- one ahead: the counterparty's next new message ends the session ------------------------------------------------ *)
Lemma reader_dead : forall l s evs, s_reader s = false ->
  exists s', reader_loop sc decode fl now l s evs = (s', evs) /\ s_shutdown s' = s_shutdown s /\
             s_next_recv s' = s_next_recv s /\ s_reader s' = false.
Proof.
  intros l s evs R. destruct l as [|raw l]; cbn [reader_loop].
  - exists s. repeat split; assumption.
  - rewrite R. cbn [negb orb]. eexists. split; [reflexivity|]. repeat split.
Qed.

Theorem ahead_dies : forall t rawn l s evs pos,
  good s -> ahead s pos -> is_item s rawn (BApp t pos false) ->
  exists s',
    reader_loop sc decode fl now (rawn :: l) s evs = (s', evs ++ [ERet 0%Z])%list /\
    s_shutdown s' = true /\ s_reader s' = false /\ s_next_recv s' = pos + 1.
Proof.
  intros t rawn l s evs pos G (A1 & A2) I. pose proof (good_last_recv s G) as L.
  cbn [is_item] in I. destruct I as (m & Ar & Ty & NS & C & PD & _). subst t.
  assert (LO : pos < s_next_recv (w_last_recv now s)) by (cbn; lia).
  destruct (process_app_toolow sc decode fl now rawn pos m (w_last_recv now s) Ar L NS C LO PD) as (s1 & P & Sh & Nr).
  cbn [reader_loop]. rewrite (good_not_shutdown s G). rewrite P.
  assert (IS : is_shutdown s1 = true) by (unfold is_shutdown; rewrite Sh; reflexivity). rewrite IS.
  destruct (reader_dead l (w_down (s_shutdown s1) (s_closed s1) false s1) (evs ++ [] ++ [ERet 0%Z])%list eq_refl)
    as (s' & RL & S1 & S2 & S3).
  exists s'. rewrite RL. cbn [app]. split; [reflexivity|]. cbn in S1, S2.
  split; [congruence|]. split; [exact S3|]. cbn in Nr. congruence.
Qed.

End Burst.
