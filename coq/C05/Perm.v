(* C05, model side: the exact condition under which permissive decoding (coq/Codec/Decode.v,
   dec_loop with permissive = true) yields the same known fields as strict decoding of the
   same byte string.  No proofs in this file.

   sdec_loop  = dec_loop specialised to permissive = false, returning in addition HOW the loop
                was left: None = at "break" / end of input, Some val_sz = through
                "goto unknown_field" out of the Length/data pairing (the token after a Length
                field, read with extract_element_fixed_width(val_sz), has an unknown tag).
                (PermProofs.sdec_erase: forgetting that component gives dec_loop false.)
   tail_unk   = from an offset on, every token extract_element finds has a tag that is not in
                the trait table (fast_atoi<unsigned short> of the tag, as decode computes it),
                up to the first failing extraction or the end of the string.
   c05_hyp    = for header, body and trailer in turn: the strict decoder stops somewhere, and
                from there on (in the way the permissive decoder continues) the part sees only
                unknown tags.  It holds for a conforming message with unknown tokens inserted when
                every inserted token sits after the last known token of the message and no
                inserted tag is congruent modulo 65536 to a tag of header, body or trailer (the
                suite compares that claim with c05_hyp on every such case); it speaks about ONE
                byte string, so it can also hold elsewhere, e.g. when both decoders lose the
                rest of a repeating group. *)
From Coq Require Import NArith ZArith List Bool.
From F8 Require Import Codec.Bytes Codec.Meta Codec.Extract Codec.Decode Codec.Encode.
Import ListNotations.
Local Open Scope N_scope.

Section Perm.
Variable c : ctx.
Variable cp : caps.
Variable from : list N.
Variable fsize : N.
Variable gfuel : nat.

Fixpoint tail_unk (k : nat) (fp : list trait) (off : N) : bool :=
  match k with O => false | S k' =>
  if off <=? fsize then
    match tok_at cp from fsize off with
    | XOOB _ => false
    | XFail _ _ => true
    | XOk tag val result =>
        match find_trait fp (fast_atoi_u16 tag) with
        | None => tail_unk k' fp (off + result)
        | Some _ => false
        end
    end
  else true
  end.

Definition sfinish (m : mbase) (off : N) (fw : option N) : res (mbase * N * option N) :=
  match find_missing (mb_fp m) with
  | Some f => Exc (EMissingMandatory f)
  | None => Ok (m, off, fw)
  end.

Fixpoint sdec_loop (fuel : nat) (m : mbase) (off pos : N) (tb : list N) {struct fuel}
  : res (mbase * N * option N) :=
  match fuel with O => Fuel | S fuel' =>
  if off <=? fsize then
    match tok_at cp from fsize off with
    | XOOB s => OOB s
    | XFail _ _ => sfinish m off None
    | XOk tag val result =>
      let tb1 := tagbuf_after tag tb in
      let tv := fast_atoi_u16 tag in
      match find_trait (mb_fp m) tv with
      | None => sfinish m off None
      | Some tr =>
        let off1 := off + result in
        if t_present tr then
          if t_auto tr then sdec_loop fuel' m off1 pos tb1 else Exc (EDuplicateField tv)
        else
          match find_be (c_fields c) tv with
          | None => Exc (EUnknownField tv)
          | Some _ =>
            let pos1 := (pos + 1) mod 4294967296 in
            let v := cstr val in
            let m1 := mark_present (add_field_decoder m tv pos1 v) tv in
            match opt_group c cp from fsize gfuel m1 tr tv v off1 with
            | Exc e => Exc e | OOB s => OOB s | Diverge => Diverge | Fuel => Fuel
            | Ok (m2, off2) =>
              if negb (t_ftype tr =? ft_Length) || (tv =? Common_BodyLength)
              then sdec_loop fuel' m2 off2 pos1 tb1
              else
                let val_sz := fast_atoi_u32 val in
                if MAX_FLD_LENGTH - 1 <? val_sz then Exc EValueTooLarge
                else match extract_element_fixed_width (skipN off2 from) (fsize - off2) val_sz
                                                       (cap_tag cp) (cap_val cp) with
                | XOOB s => OOB s
                | XFail _ _ => Exc EFixedWidth
                | XOk tag2 val2 result2 =>
                  let tb2 := tagbuf_after_fw tag2 tb1 in
                  match cstr_known tb2 with
                  | None => OOB site_uninit_tag
                  | Some tagstr =>
                    let tv2 := fast_atoi_u16 tagstr in
                    match find_trait (mb_fp m2) tv2 with
                    | None => sfinish m2 off2 (Some val_sz)
                    | Some tr2 =>
                        if negb (t_ftype tr2 =? ft_data) || negb (tv + 1 =? tv2)
                        then sdec_loop fuel' m2 off2 pos1 tb2
                        else
                          let off3 := off2 + result2 in
                          match find_be (c_fields c) tv2 with
                          | None => Exc (EUnknownField tv2)
                          | Some _ =>
                            let pos2 := (pos1 + 1) mod 4294967296 in
                            let v2 := cstr val2 in
                            let m3 := mark_present (add_field_decoder m2 tv2 pos2 v2) tv2 in
                            match opt_group c cp from fsize gfuel m3 tr2 tv2 v2 off3 with
                            | Exc e => Exc e | OOB s => OOB s | Diverge => Diverge | Fuel => Fuel
                            | Ok (m4, off4) => sdec_loop fuel' m4 off4 pos2 tb2
                            end
                          end
                    end
                  end
                end
            end
          end
      end
    end
  else sfinish m off None
  end.

(* where the permissive decoder continues after the point where the strict one stopped, and
   whether it sees only unknown tags from there *)
Definition tail_hyp (k : nat) (fp : list trait) (off : N) (fw : option N) : bool :=
  match fw with
  | None => tail_unk k fp off
  | Some val_sz =>
      match extract_element_fixed_width (skipN off from) (fsize - off) val_sz (cap_tag cp) (cap_val cp) with
      | XOk _ _ result2 => tail_unk k fp (off + result2)
      | _ => false
      end
  end.

End Perm.

Definition fsize_of (from : list N) (ignore : N) : N := (lenN from + 4294967296 - ignore) mod 4294967296.

(* MessageBase::decode(from, off, ignore, false), instrumented *)
Definition smbase_decode (c : ctx) (cp : caps) (from : list N) (m : mbase) (off ignore : N)
  : res (mbase * N * option N) :=
  sdec_loop c cp from (fsize_of from ignore) (dec_fuel from) (dec_fuel from) m off (lenN (mb_pos m)) [].

(* one part: strict decoding succeeds and the rest is unknown to this part *)
Definition part_hyp (c : ctx) (cp : caps) (from : list N) (m : mbase) (off ignore : N) : option N :=
  match smbase_decode c cp from m off ignore with
  | Ok (m', off', fw) =>
      if tail_hyp cp from (fsize_of from ignore) (dec_fuel from) (mb_fp m') off' fw then Some off' else None
  | _ => None
  end.

Definition c05_hyp (c : ctx) (cp : caps) (from : list N) : bool :=
  match extract_header from (cap_htag cp) (cap_hval cp) (cap_len cp) (cap_mtype cp) with
  | Ok (hlen, len, mtype) =>
      if hlen =? 0 then false
      else match find_msg (c_msgs c) (cstr mtype) with
      | None => false
      | Some md =>
          let msg := mk_message c md false in
          match part_hyp c cp from (m_hdr msg) hlen 0 with
          | None => false
          | Some o1 =>
              match part_hyp c cp from (m_body msg) o1 0 with
              | None => false
              | Some o2 =>
                  match part_hyp c cp from (m_trl msg) o2 7 with
                  | None => false
                  | Some _ => true
                  end
              end
          end
      end
  | _ => false
  end.

(* the known content of a message object: everything except the three _unknown strings *)
Definition strip_unknown (m : mbase) : mbase := with_unknown m [].
Definition msg_known (m : message) : message :=
  mkMsg (m_type m) (strip_unknown (m_hdr m)) (strip_unknown (m_body m)) (strip_unknown (m_trl m)).

(* the observable runs of the property on the model *)
Definition reenc_of (c : ctx) (from : list N) (permissive : bool) : option (list N) :=
  match factory c real_caps from false permissive with
  | Ok m => match Codec.Encode.msg_encode_str c real_caps m with Ok (b, _) => Some b | _ => None end
  | _ => None
  end.
