From Coq Require Import NArith ZArith List Bool Lia.
(* C05 proofs: the permissive run of MessageBase::decode's loop follows the strict run up to the
   point where the strict one stops, and from there on only collects unknown tokens. *)
From F8 Require Import Codec.Bytes Codec.Meta Codec.Extract Codec.Decode Codec.Encode C05.Spec_C05 C05.Obs C05.Perm C07.Chksum.
Import ListNotations.
Local Open Scope N_scope.

Section P.
Variable c : ctx. Variable cp : caps. Variable from : list N. Variable fsize : N. Variable gfuel : nat.

Lemma fp_with_unknown m u : mb_fp (with_unknown m u) = mb_fp m.
Proof. destruct m; reflexivity. Qed.
Lemma with_unknown_idem m u v : with_unknown (with_unknown m u) v = with_unknown m v.
Proof. destruct m; reflexivity. Qed.
Lemma with_unknown_self m : with_unknown m (mb_unknown m) = m.
Proof. destruct m; reflexivity. Qed.

Lemma perm_tail : forall n k m off pos lvo tb,
  tail_unk cp from fsize k (mb_fp m) off = true -> find_missing (mb_fp m) = None ->
  dec_loop c cp from fsize true gfuel n m off pos (Some pos) lvo tb = Fuel \/
  exists u, dec_loop c cp from fsize true gfuel n m off pos (Some pos) lvo tb = Ok (with_unknown m u, lvo).
Proof.
  induction n; intros k m off pos lvo tb H Hm.
  - left; reflexivity.
  - destruct k; [discriminate|]. cbn [tail_unk] in H. cbn [dec_loop].
    destruct (off <=? fsize) eqn:E1.
    + destruct (tok_at cp from fsize off) eqn:E2.
      * destruct (find_trait (mb_fp m) (fast_atoi_u16 tag)) eqn:E3; [discriminate|].
        destruct (IHn k (with_unknown m (mb_unknown m ++ raw_at from off consumed)) (off + consumed) pos lvo (tagbuf_after tag tb)) as [F|[u Hu]].
        { rewrite fp_with_unknown; exact H. }
        { rewrite fp_with_unknown; exact Hm. }
        { left; exact F. }
        { right; exists u. rewrite Hu, with_unknown_idem. reflexivity. }
      * unfold dec_finish. rewrite Hm. right. exists (mb_unknown m). rewrite with_unknown_self. cbn. rewrite N.eqb_refl. reflexivity.
      * discriminate.
    + unfold dec_finish. rewrite Hm. right. exists (mb_unknown m). rewrite with_unknown_self. cbn. rewrite N.eqb_refl. reflexivity.
Qed.

Ltac fin H := unfold sfinish in H;
  match type of H with context [find_missing ?x] => destruct (find_missing x) eqn:Hm; [discriminate|] end;
  inversion H; subst; clear H.

Lemma perm_prefix : forall n k m off pos tb m' off' fw,
  sdec_loop c cp from fsize gfuel n m off pos tb = Ok (m', off', fw) ->
  tail_hyp cp from fsize k (mb_fp m') off' fw = true ->
  dec_loop c cp from fsize true gfuel n m off pos None 0 tb = Fuel \/
  exists u, dec_loop c cp from fsize true gfuel n m off pos None 0 tb = Ok (with_unknown m' u, off').
Proof.
  induction n; intros k m off pos tb m' off' fw H T; [discriminate|].
  cbn [sdec_loop] in H. cbn [dec_loop].
  destruct (off <=? fsize) eqn:E1.
  2:{ fin H. unfold dec_finish. rewrite Hm. right. exists (mb_unknown m'). rewrite with_unknown_self. reflexivity. }
  destruct (tok_at cp from fsize off) as [tag val result| |] eqn:E2.
  3:{ discriminate. }
  2:{ fin H. unfold dec_finish. rewrite Hm. right. exists (mb_unknown m'). rewrite with_unknown_self. reflexivity. }
  destruct (find_trait (mb_fp m) (fast_atoi_u16 tag)) as [tr|] eqn:E3.
  2:{ fin H. cbn [tail_hyp] in T. destruct k; [discriminate|]. cbn [tail_unk] in T.
      rewrite E1, E2, E3 in T.
      destruct (perm_tail n k (with_unknown m' (mb_unknown m' ++ raw_at from off' result)) (off' + result) pos off' (tagbuf_after tag tb)) as [F|[u Hu]].
      { rewrite fp_with_unknown; exact T. }
      { rewrite fp_with_unknown; exact Hm. }
      { left; exact F. }
      { right; exists u. rewrite Hu, with_unknown_idem. reflexivity. } }
  destruct (t_present tr) eqn:E4.
  { destruct (t_auto tr) eqn:E4a; [|discriminate]. eapply IHn; eauto. }
  destruct (find_be (c_fields c) (fast_atoi_u16 tag)) eqn:E5; [|discriminate].
  destruct (opt_group c cp from fsize gfuel _ tr _ _ _) as [[m2 off2]| | | |] eqn:E6; try discriminate.
  destruct (negb (t_ftype tr =? ft_Length) || (fast_atoi_u16 tag =? Common_BodyLength)) eqn:E7.
  { eapply IHn; eauto. }
  destruct (MAX_FLD_LENGTH - 1 <? fast_atoi_u32 val) eqn:E8; [discriminate|].
  destruct (extract_element_fixed_width _ _ _ _ _) as [tag2 val2 result2| |] eqn:E9; try discriminate.
  destruct (cstr_known _) as [tagstr|] eqn:E10; [|discriminate].
  destruct (find_trait (mb_fp m2) (fast_atoi_u16 tagstr)) as [tr2|] eqn:E11.
  2:{ fin H. cbn [tail_hyp] in T. rewrite E9 in T.
      destruct (perm_tail n k (with_unknown m' (mb_unknown m' ++ raw_at from off' result2)) (off' + result2)
                 ((pos + 1) mod 4294967296) off' (tagbuf_after_fw tag2 (tagbuf_after tag tb))) as [F|[u Hu]].
      { rewrite fp_with_unknown; exact T. }
      { rewrite fp_with_unknown; exact Hm. }
      { left; exact F. }
      { right; exists u. rewrite Hu, with_unknown_idem. reflexivity. } }
  destruct (negb (t_ftype tr2 =? ft_data) || negb (fast_atoi_u16 tag + 1 =? fast_atoi_u16 tagstr)) eqn:E12.
  { eapply IHn; eauto. }
  destruct (find_be (c_fields c) (fast_atoi_u16 tagstr)) eqn:E13; [|discriminate].
  destruct (opt_group c cp from fsize gfuel _ tr2 _ _ _) as [[m4 off4]| | | |] eqn:E14; try discriminate.
  eapply IHn; eauto.
Qed.

Definition erase3 (r : res (mbase * N * option N)) : res (mbase * N) :=
  match r with Ok (m, o, _) => Ok (m, o) | Exc e => Exc e | OOB s => OOB s | Diverge => Diverge | Fuel => Fuel end.

Lemma sdec_erase : forall n m off pos lvp lvo tb,
  dec_loop c cp from fsize false gfuel n m off pos lvp lvo tb = erase3 (sdec_loop c cp from fsize gfuel n m off pos tb).
Proof.
  induction n; intros; [reflexivity|].
  cbn [sdec_loop dec_loop]. unfold dec_finish, sfinish.
  repeat (first [ rewrite IHn | reflexivity
    | match goal with |- context [match ?x with _ => _ end] =>
        lazymatch x with context [sdec_loop] => fail | _ => destruct x eqn:? end end ]; cbn [erase3 andb]).
Qed.
End P.

Lemma mbase_decode_strict c cp from m off ignore :
  mbase_decode c cp from m off ignore false = erase3 (smbase_decode c cp from m off ignore).
Proof. unfold mbase_decode, mb_decode, smbase_decode, fsize_of. apply sdec_erase. Qed.

Lemma part_perm c cp from m off ignore o' :
  part_hyp c cp from m off ignore = Some o' ->
  exists m', mbase_decode c cp from m off ignore false = Ok (m', o') /\
    (mbase_decode c cp from m off ignore true = Fuel \/
     exists u, mbase_decode c cp from m off ignore true = Ok (with_unknown m' u, o')).
Proof.
  unfold part_hyp. intros H.
  destruct (smbase_decode c cp from m off ignore) as [[[m' off'] fw]| | | |] eqn:E; try discriminate.
  destruct (tail_hyp _ _ _ _ _ _ _) eqn:T; [|discriminate]. inversion H; subst.
  exists m'. split.
  - rewrite mbase_decode_strict, E. reflexivity.
  - unfold mbase_decode, mb_decode. unfold smbase_decode in E. eapply perm_prefix; eauto.
Qed.

Lemma set_value_unknown m u f v : set_value (with_unknown m u) f v = with_unknown (set_value m f v) u.
Proof. destruct m; reflexivity. Qed.
Lemma strip_with_unknown m u : strip_unknown (with_unknown m u) = strip_unknown m.
Proof. destruct m; reflexivity. Qed.

Theorem c05_values_partial_lemma c cp from nock ms :
  c05_hyp c cp from = true ->
  factory c cp from nock false = Ok ms ->
  factory c cp from nock true = Fuel \/
  exists mp, factory c cp from nock true = Ok mp /\ msg_known mp = msg_known ms.
Proof.
  unfold c05_hyp, factory. intros H S.
  destruct (extract_header _ _ _ _ _) as [[[hlen len] mtype]| | | |]; try discriminate.
  cbn [bind] in *.
  destruct (hlen =? 0); [discriminate|].
  destruct (find_msg _ _) as [md|]; [|discriminate].
  destruct (part_hyp c cp from (m_hdr _) hlen 0) as [o1|] eqn:P1; [|discriminate].
  destruct (part_hyp c cp from (m_body _) o1 0) as [o2|] eqn:P2; [|discriminate].
  destruct (part_hyp c cp from (m_trl _) o2 7) as [o3|] eqn:P3; [|discriminate].
  apply part_perm in P1. destruct P1 as [h [S1 Q1]].
  apply part_perm in P2. destruct P2 as [b [S2 Q2]].
  apply part_perm in P3. destruct P3 as [t [S3 Q3]].
  unfold msg_decode in *. rewrite S1 in S. cbn [bind] in S. rewrite S2 in S. cbn [bind] in S.
  rewrite S3 in S. cbn [bind m_hdr m_body m_trl m_type] in S.
  destruct Q1 as [F1|[uh Q1]]; [left; rewrite F1; reflexivity|]. rewrite Q1. cbn [bind].
  destruct Q2 as [F2|[ub Q2]]; [left; rewrite F2; reflexivity|]. rewrite Q2. cbn [bind].
  destruct Q3 as [F3|[ut Q3]]; [left; rewrite F3; reflexivity|]. rewrite Q3. cbn [bind m_hdr m_body m_trl m_type].
  right.
  destruct (lenN from <? 7); [discriminate|].
  destruct (negb _ || negb _); [discriminate|].
  destruct nock.
  - inversion S; subst. eexists; split; [reflexivity|].
    unfold msg_known; cbn [m_hdr m_body m_trl m_type].
    rewrite !set_value_unknown, !strip_with_unknown. reflexivity.
  - destruct (calc_chksum _ _ _ _) as [[mchk x]|]; [|discriminate].
    destruct (_ =? _); [|discriminate].
    inversion S; subst. eexists; split; [reflexivity|].
    unfold msg_known; cbn [m_hdr m_body m_trl m_type].
    rewrite !set_value_unknown, !strip_with_unknown. reflexivity.
Qed.

(* ------------------------------------------------------------------ link to the spec *)

Lemma bytes_eqb_refl a : bytes_eqb a a = true.
Proof. induction a; cbn; [reflexivity|]. rewrite N.eqb_refl. exact IHa. Qed.
Lemma fields_eqb_refl a : fields_eqb a a = true.
Proof. induction a as [|[f v] r IH]; cbn; [reflexivity|]. rewrite N.eqb_refl, bytes_eqb_refl. exact IH. Qed.

Lemma node_eqb_refl : forall a, node_eqb a a = true.
Proof.
  fix IH 1. intros [f g u]. cbn [node_eqb]. rewrite fields_eqb_refl. cbn [andb].
  induction g as [|[k els] r IHg]; [reflexivity|].
  rewrite N.eqb_refl. cbn [andb].
  assert (E : (fix el (ea eb : list onode) {struct ea} : bool :=
                 match ea with
                 | [] => match eb with [] => true | _ :: _ => false end
                 | x :: xs => match eb with [] => false | y :: ys => node_eqb x y && el xs ys end
                 end) els els = true).
  { induction els as [|x xs IHx]; [reflexivity|]. rewrite IH. cbn [andb]. exact IHx. }
  rewrite E. cbn [andb]. exact IHg.
Qed.

Lemma node_eqb_unknown f g u u' : node_eqb (ON f g u) (ON f g u') = true.
Proof. exact (node_eqb_refl (ON f g u)). Qed.

Lemma obs_strip c a b f :
  strip_unknown a = strip_unknown b ->
  node_eqb (drop_field f (obs_of_mb c a)) (drop_field f (obs_of_mb c b)) = true /\
  node_eqb (obs_of_mb c a) (obs_of_mb c b) = true.
Proof.
  destruct a as [fp s fl p g u], b as [fp' s' fl' p' g' u']. unfold strip_unknown. cbn [with_unknown].
  intros H. injection H; intros; subst. split.
  - cbn [obs_of_mb drop_field]. apply node_eqb_unknown.
  - cbn [obs_of_mb]. apply node_eqb_unknown.
Qed.

Theorem c05_values_spec_lemma c from nock ms mp :
  c05_hyp c real_caps from = true ->
  factory c real_caps from nock false = Ok ms ->
  factory c real_caps from nock true = Ok mp ->
  c05_values_ok (obs_of_res c (Ok mp)) (obs_of_res c (Ok ms)) = true.
Proof.
  intros H S P. destruct (c05_values_partial_lemma c real_caps from nock ms H S) as [F|[mp' [P' K]]].
  - rewrite F in P; discriminate.
  - rewrite P' in P. inversion P; subst. unfold msg_known in K. injection K; intros Kt Kb Kh _.
    cbn [obs_of_res c05_values_ok]. unfold msg_known_eqb, obs_of_msg. cbn [o_hdr o_body o_trl].
    destruct (obs_strip c _ _ 9 Kh) as [E1 _]. destruct (obs_strip c _ _ 9 Kb) as [_ E2].
    destruct (obs_strip c _ _ 10 Kt) as [E3 _]. rewrite E1, E2, E3. reflexivity.
Qed.
