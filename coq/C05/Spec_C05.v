(* Property C05 -- "Permissive decoding passes unknown fields through unchanged", as an
   executable predicate on OBSERVATIONS (written from the property text; it does not call the
   codec model):

     clean   a schema-conforming message (bytes)
     toks    the unknown tag=value tokens (without SOH) that were inserted into it
     dirty   clean with the tokens inserted (BodyLength / CheckSum recomputed)
     perm    what Message::factory(dirty, permissive) returned: None = it threw / crashed,
             Some o = the decoded object, observed as a tree of (_fields, _groups, _unknown)
     strict  what Message::factory(clean, strict) returned
     reenc   the bytes produced by encoding the permissively decoded object (None = failure)

   c05_ok = accepted /\ every known field has its strict-mode value (no known field lost, none
   invented) /\ every unknown token is retained /\ the re-encoded message consists of exactly
   the known tokens of the clean message in their order plus the unknown tokens, each
   byte-for-byte and exactly once, framed by a correct BodyLength and CheckSum.
   No proofs in this file. *)
From Coq Require Import NArith List Bool.
From F8 Require Import Codec.Bytes.
Import ListNotations.
Local Open Scope N_scope.

(* ------------------------------------------------------------------ observations *)
(* one MessageBase: _fields (fnum -> printed value), _groups (fnum -> elements), _unknown *)
Inductive onode := ON (fields : list (N * list N)) (groups : list (N * list onode)) (unknown : list N).
Definition on_fields (o : onode) := match o with ON f _ _ => f end.
Definition on_groups (o : onode) := match o with ON _ g _ => g end.
Definition on_unknown (o : onode) := match o with ON _ _ u => u end.
Record omsg := mkO { o_hdr : onode; o_body : onode; o_trl : onode }.

Fixpoint bytes_eqb (a b : list N) : bool :=
  match a, b with
  | [], [] => true
  | x :: a', y :: b' => (x =? y) && bytes_eqb a' b'
  | _, _ => false
  end.
Fixpoint fields_eqb (a b : list (N * list N)) : bool :=
  match a, b with
  | [], [] => true
  | (f, v) :: a', (g, w) :: b' => (f =? g) && bytes_eqb v w && fields_eqb a' b'
  | _, _ => false
  end.

(* same known content: the same fields with the same values, the same groups with the same
   elements in the same order (recursively); _unknown is not compared *)
Fixpoint node_eqb (a b : onode) {struct a} : bool :=
  match a, b with
  | ON fa ga _, ON fb gb _ =>
    fields_eqb fa fb &&
    (fix gl (ga : list (N * list onode)) (gb : list (N * list onode)) {struct ga} : bool :=
       match ga, gb with
       | [], [] => true
       | (ka, ea) :: ra, (kb, eb) :: rb =>
           (ka =? kb) &&
           (fix el (ea : list onode) (eb : list onode) {struct ea} : bool :=
              match ea, eb with
              | [], [] => true
              | x :: xs, y :: ys => node_eqb x y && el xs ys
              | _, _ => false
              end) ea eb &&
           gl ra rb
       | _, _ => false
       end) ga gb
  end.

Definition drop_field (f : N) (o : onode) : onode :=
  match o with ON fs g u => ON (filter (fun p => negb (fst p =? f)) fs) g u end.

(* BodyLength (9) and CheckSum (10) are functions of the byte string, not of the message
   content: they legitimately differ between the clean and the dirty message *)
Definition msg_known_eqb (p s : omsg) : bool :=
  node_eqb (drop_field 9 (o_hdr p)) (drop_field 9 (o_hdr s)) &&
  node_eqb (o_body p) (o_body s) &&
  node_eqb (drop_field 10 (o_trl p)) (drop_field 10 (o_trl s)).

(* "is accepted, every known field decodes to the same value it has in strict mode,
    permissive mode never causes a known field to be lost" *)
Definition c05_values_ok (perm strict : option omsg) : bool :=
  match perm, strict with
  | Some p, Some s => msg_known_eqb p s
  | _, _ => false
  end.

(* ------------------------------------------------------------------ retention *)
Fixpoint is_prefix (p l : list N) : bool :=
  match p, l with
  | [], _ => true
  | x :: p', y :: l' => (x =? y) && is_prefix p' l'
  | _ :: _, [] => false
  end.
Fixpoint is_infix (p l : list N) : bool :=
  is_prefix p l || match l with [] => false | _ :: l' => is_infix p l' end.

(* "the unknown fields are retained": each token (with its SOH) is part of some _unknown *)
Definition c05_retained_ok (toks : list (list N)) (perm : option omsg) : bool :=
  match perm with
  | None => false
  | Some p =>
      let u := on_unknown (o_hdr p) ++ on_unknown (o_body p) ++ on_unknown (o_trl p) in
      forallb (fun t => is_infix (t ++ [SOH]) u) toks
  end.

(* ------------------------------------------------------------------ re-encoding *)
(* split into SOH-terminated tokens; None if the last byte is not SOH *)
Fixpoint split_soh (l : list N) (cur : list N) : option (list (list N)) :=
  match l with
  | [] => match cur with [] => Some [] | _ => None end
  | x :: r => if x =? SOH then
                match split_soh r [] with Some ts => Some (rev cur :: ts) | None => None end
              else split_soh r (x :: cur)
  end.

Fixpoint remove_first (t : list N) (l : list (list N)) : option (list (list N)) :=
  match l with
  | [] => None
  | x :: r => if bytes_eqb x t then Some r
              else match remove_first t r with Some r' => Some (x :: r') | None => None end
  end.
Fixpoint remove_each (ts : list (list N)) (l : list (list N)) : option (list (list N)) :=
  match ts with
  | [] => Some l
  | t :: r => match remove_first t l with Some l' => remove_each r l' | None => None end
  end.
Fixpoint toks_eqb (a b : list (list N)) : bool :=
  match a, b with
  | [], [] => true
  | x :: a', y :: b' => bytes_eqb x y && toks_eqb a' b'
  | _, _ => false
  end.

Definition sum_bytes (l : list N) : N := fold_left N.add l 0.
Definition three_digits (v : N) : list N := [48 + v / 100; 48 + (v / 10) mod 10; 48 + v mod 10].

(* 8=..|9=<len>|<len bytes>10=ddd|  with ddd = sum of everything before "10=" mod 256 *)
Definition frame_ok (bytes : list N) (ts : list (list N)) : bool :=
  match ts with
  | t0 :: t1 :: rest =>
      match rev rest with
      | tl :: _ =>
          let n := lenN bytes in
          let pre := lenN t0 + 1 + lenN t1 + 1 in
          (pre + 7 <=? n) &&
          bytes_eqb t1 ([57; EQC] ++ itoa_N (n - pre - 7)) &&
          bytes_eqb tl ([49; 48; EQC] ++ three_digits (sum_bytes (firstN (n - 7) bytes) mod 256))
      | [] => false
      end
  | _ => false
  end.
(* the message content: all tokens except the BodyLength token and the final CheckSum token *)
Definition content_toks (ts : list (list N)) : list (list N) :=
  match ts with
  | t0 :: _ :: rest => t0 :: removelast rest
  | _ => ts
  end.

(* "the unknown fields are retained and re-emitted byte-for-byte on re-encoding" (and nothing
   else changes: the known tokens are those of the clean message, in their order) *)
Definition c05_reenc_ok (clean : list N) (toks : list (list N)) (reenc : option (list N)) : bool :=
  match reenc with
  | None => false
  | Some bytes =>
      match split_soh bytes [], split_soh clean [] with
      | Some rt, Some ct =>
          frame_ok bytes rt &&
          match remove_each toks (content_toks rt) with
          | Some rest => toks_eqb rest (content_toks ct)
          | None => false
          end
      | _, _ => false
      end
  end.

Definition c05_ok (clean : list N) (toks : list (list N))
                  (perm strict : option omsg) (reenc : option (list N)) : bool :=
  c05_values_ok perm strict && c05_retained_ok toks perm && c05_reenc_ok clean toks reenc.
