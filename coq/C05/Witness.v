(* C05: computed witnesses on the example schema of coq/Codec/Example.v (vm_compute on concrete
   byte strings; the same byte strings are in known_findings.d/C05.json against the real code
   on the FIX42UTEST schema). *)
From Coq Require Import NArith ZArith List Bool String.
From F8 Require Import Codec.Bytes Codec.Meta Codec.Extract Codec.Decode Codec.Encode Codec.Render Codec.Example
                       C05.Spec_C05 C05.Obs C05.Perm.
Import ListNotations.
Local Open Scope N_scope.
Local Open Scope string_scope.

Definition fx : list N := bs "FIX.4.2".
(* the whole property evaluated on the model *)
Definition c05_run (c : ctx) (clean : list N) (toks : list (list N)) (dirty : list N) : bool :=
  c05_ok clean toks (obs_of_res c (factory c real_caps dirty false true))
         (obs_of_res c (factory c real_caps clean false false)) (reenc_of c dirty true).
Definition values_run (c : ctx) (clean dirty : list N) : bool :=
  c05_values_ok (obs_of_res c (factory c real_caps dirty false true))
                (obs_of_res c (factory c real_caps clean false false)).
Definition is_ok {A} (r : res A) : bool := match r with Ok _ => true | _ => false end.

(* Heartbeat 49=A 56=B 34=7 112=TEST *)
Definition hb_clean : list N := mkwire fx (map bs ["35=0"; "49=A"; "56=B"; "34=7"; "112=TEST"]).
Definition hb_end : list N := mkwire fx (map bs ["35=0"; "49=A"; "56=B"; "34=7"; "112=TEST"; "9999=x"; "70000=y=z"]).
(* "E" with the mandatory body field 66, an optional one and the trailer pair 93/89 *)
Definition e_toks : list string := ["35=E"; "49=A"; "56=B"; "34=7"; "66=L1"; "55=IBM"; "93=1"; "89=z"].
Definition e_clean : list N := mkwire fx (map bs e_toks).
Definition e_body : list N :=
  mkwire fx (map bs ["35=E"; "49=A"; "56=B"; "34=7"; "66=L1"; "9999=x"; "55=IBM"; "93=1"; "89=z"]).
Definition e_hdr : list N :=
  mkwire fx (map bs ["35=E"; "49=A"; "9999=x"; "56=B"; "34=7"; "66=L1"; "55=IBM"; "93=1"; "89=z"]).

(* re-encoding: refuted without any unknown token, and with one in the body *)
Lemma c05_reenc_refuted_lemma :
  is_ok (factory ex_ctx real_caps hb_clean false false) = true /\
  is_ok (factory ex_ctx real_caps hb_clean false true) = true /\
  c05_reenc_ok hb_clean [] (reenc_of ex_ctx hb_clean true) = false /\
  c05_reenc_ok e_clean [bs "9999=x"] (reenc_of ex_ctx e_body true) = false.
Proof. vm_compute. repeat split; reflexivity. Qed.

(* the header decoder keeps the rest of the message: its _unknown holds the body, and 10= *)
Lemma c05_header_swallows_lemma :
  match factory ex_ctx real_caps hb_clean false true with
  | Ok m => mb_unknown (m_hdr m) = bs "112=TEST|10=156|" /\ mb_unknown (m_body m) = bs "10=156|"
  | _ => False
  end.
Proof. vm_compute. split; reflexivity. Qed.

(* an unknown token in the body before a known body field: the trailer's known fields are lost *)
Lemma c05_body_refuted_lemma :
  is_ok (factory ex_ctx real_caps e_clean false false) = true /\
  is_ok (factory ex_ctx real_caps e_body false true) = true /\
  values_run ex_ctx e_clean e_body = false /\
  match factory ex_ctx real_caps e_body false true with
  | Ok m => mb_fields (m_trl m) = [(10, bs "222")] | _ => False end.
Proof. vm_compute. repeat split; reflexivity. Qed.

(* an unknown token in the header before a known header field: the body is not decoded *)
Lemma c05_header_refuted_lemma :
  is_ok (factory ex_ctx real_caps e_clean false false) = true /\
  factory ex_ctx real_caps e_hdr false true = Exc (EMissingMandatory 66).
Proof. vm_compute. split; reflexivity. Qed.

Lemma c05_refuted_lemma :
  exists c clean toks dirty,
    is_ok (factory c real_caps clean false false) = true /\ c05_run c clean toks dirty = false.
Proof. exists ex_ctx, e_clean, [bs "9999=x"], e_hdr. vm_compute. split; reflexivity. Qed.

(* non-vacuity of c05_values_partial: two unknown tokens (one with a tag >= 65536, one with '='
   in its value) after the last known token satisfy the hypothesis, both decoders accept, and
   the known fields are those of the clean message *)
Lemma c05_nonvacuous_lemma :
  c05_hyp ex_ctx real_caps hb_end = true /\
  is_ok (factory ex_ctx real_caps hb_end false false) = true /\
  is_ok (factory ex_ctx real_caps hb_end false true) = true /\
  values_run ex_ctx hb_clean hb_end = true /\
  c05_retained_ok [bs "9999=x"; bs "70000=y=z"] (obs_of_res ex_ctx (factory ex_ctx real_caps hb_end false true)) = true.
Proof. vm_compute. repeat split; reflexivity. Qed.
