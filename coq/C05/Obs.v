(* The observation of a model object, in the shape the harness dumps real objects
   (h_codec.cpp dump_mb: _fields with printed values, _groups, _unknown), and a helper that
   frames a token list into a wire message (for the witnesses of the refutation theorems).
   Shared by C05 and C06.  No proofs here. *)
From Coq Require Import NArith ZArith List Bool String Ascii.
From F8 Require Import Codec.Bytes Codec.Meta Codec.Extract Codec.Decode Codec.Encode C05.Spec_C05.
Import ListNotations.
Local Open Scope N_scope.

Definition printed (c : ctx) (fp : list trait) (f : N) (v : list N) : list N :=
  c_render c (ftype_of c f (match find_trait fp f with Some tr => t_ftype tr | None => ft_string end)) v.

Fixpoint obs_of_mb (c : ctx) (m : mbase) : onode :=
  match m with
  | MB fp _ fields _ groups unknown =>
    ON (map (fun p => (fst p, printed c fp (fst p) (snd p))) fields)
       ((fix gl (gs : list (N * list mbase)) : list (N * list onode) :=
           match gs with
           | [] => []
           | (f, els) :: r =>
               (f, (fix el (es : list mbase) : list onode :=
                      match es with [] => [] | e :: r' => obs_of_mb c e :: el r' end) els) :: gl r
           end) groups)
       unknown
  end.
Definition obs_of_msg (c : ctx) (m : message) : omsg :=
  mkO (obs_of_mb c (m_hdr m)) (obs_of_mb c (m_body m)) (obs_of_mb c (m_trl m)).
Definition obs_of_res (c : ctx) (r : res message) : option omsg :=
  match r with Ok m => Some (obs_of_msg c m) | _ => None end.

(* "abc" as bytes; "|" stands for SOH *)
Definition bs (s : string) : list N :=
  map (fun a => let n := N_of_ascii a in if n =? 124 then SOH else n) (list_ascii_of_string s).

(* 8=<begin>|9=<len>|<tokens, each followed by SOH>10=<sum mod 256, 3 digits>| *)
Definition mkwire (begin : list N) (toks : list (list N)) : list N :=
  let body := List.concat (map (fun t => t ++ [SOH]) toks) in
  let pre := [56; EQC] ++ begin ++ [SOH] ++ [57; EQC] ++ itoa_N (lenN body) ++ [SOH] in
  let s := pre ++ body in
  s ++ [49; 48; EQC] ++ three_digits (sum_bytes s mod 256) ++ [SOH].
