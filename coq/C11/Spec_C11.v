(* C11 oracle: "For every message, a clone encodes to the same bytes as the original; copying legal
   fields into an empty message of the same type transfers every field and group element, and moving
   them leaves the target equal to the original source."

   Written from the property text on OBSERVED objects (what harness/h_c11.cpp dumps of the real
   objects: _pos, _fields, _groups, _unknown, present/suppress bits, with printed values) and on the
   encoders' byte strings.  It does not use the model of copy_legal / move_legal / clone.

   content o     = every field of _fields (tag order) with its printed value, each group count field
                   followed by the content of every element of the group filed under its tag, as an
                   unambiguous token list (a group without its count field is unreachable for the
                   encoder and is not part of the content);
   same_content  = equal content (positions, present bits and empty pre-created groups do not count);
   count_fields  = number of fields at every level (what copy_legal returns: one per field copied,
                   nested elements included); top_fields = number of fields of the object itself
                   (what move_legal returns: the groups are handed over whole).

   The header and trailer of "an empty message of the same type" are not empty: their constructors
   own BeginString(8), BodyLength(9), MsgType(35) and CheckSum(10), which are therefore never
   transferred (already present in the target) and whose values Message::encode overwrites.  For the
   header and the trailer the comparison is made on the other fields (strip). *)
From Coq Require Import NArith List Bool.
Import ListNotations.
Local Open Scope N_scope.

Inductive obj := Obj (pos : list (N * (N * list N)))          (* _pos: key, fnum, printed value *)
                     (fields : list (N * option (list N)))    (* _fields: None = null pointer *)
                     (groups : list (N * option (list obj)))  (* _groups: None = null pointer *)
                     (unknown : list N) (present suppress : list N).
Definition o_pos (o : obj) := match o with Obj a _ _ _ _ _ => a end.
Definition o_fields (o : obj) := match o with Obj _ a _ _ _ _ => a end.
Definition o_groups (o : obj) := match o with Obj _ _ a _ _ _ => a end.
Definition o_unknown (o : obj) := match o with Obj _ _ _ a _ _ => a end.
Definition o_present (o : obj) := match o with Obj _ _ _ _ a _ => a end.

Record omsg := mkO { o_type : list N; o_hdr : obj; o_body : obj; o_trl : obj }.

Inductive ctok :=
| TF (f : N) (v : option (list N))   (* a field *)
| TG (f : N)                          (* start of the elements of group f *)
| TE                                  (* start of an element *)
| TEnd.                               (* end of an element / of a group *)

(* lookup in an association list (first match) *)
Fixpoint afind {A} (k : N) (l : list (N * A)) : option A :=
  match l with
  | [] => None
  | (k', v) :: r => if k =? k' then Some v else afind k r
  end.

(* every field of _fields in tag order; a field under whose tag a non-empty group is filed is
   followed by the content of each element *)
Fixpoint content (o : obj) : list ctok :=
  match o with
  | Obj _ fields groups _ _ _ =>
    let gtoks :=
      (fix gl (gs : list (N * option (list obj))) : list (N * list ctok) :=
         match gs with
         | [] => []
         | (f, g) :: r =>
           (f, match g with
               | Some els => (fix el (es : list obj) : list ctok :=
                                match es with
                                | [] => []
                                | e :: r' => TE :: content e ++ TEnd :: el r'
                                end) els
               | None => []
               end) :: gl r
         end) groups in
    flat_map (fun e => TF (fst e) (snd e) ::
                       match afind (fst e) gtoks with
                       | Some (x :: l) => TG (fst e) :: x :: l ++ [TEnd]
                       | _ => []
                       end) fields
  end.

Fixpoint bytes_eqb (a b : list N) : bool :=
  match a, b with
  | [], [] => true
  | x :: a', y :: b' => (x =? y) && bytes_eqb a' b'
  | _, _ => false
  end.
Definition oval_eqb (a b : option (list N)) : bool :=
  match a, b with
  | Some x, Some y => bytes_eqb x y
  | None, None => true
  | _, _ => false
  end.
Definition ctok_eqb (a b : ctok) : bool :=
  match a, b with
  | TF f v, TF g w => (f =? g) && oval_eqb v w
  | TG f, TG g => f =? g
  | TE, TE => true
  | TEnd, TEnd => true
  | _, _ => false
  end.
Fixpoint ctoks_eqb (a b : list ctok) : bool :=
  match a, b with
  | [], [] => true
  | x :: a', y :: b' => ctok_eqb x y && ctoks_eqb a' b'
  | _, _ => false
  end.

Definition same_content (a b : obj) : bool := ctoks_eqb (content a) (content b).
Definition count_fields (o : obj) : N :=
  N.of_nat (length (filter (fun t => match t with TF _ _ => true | _ => false end) (content o))).
Definition top_fields (o : obj) : N := N.of_nat (length (o_fields o)).

(* the fields owned by the header / trailer constructors and by Message::encode *)
Definition owned : list N := [8; 9; 10; 35].
Definition is_owned (f : N) : bool := existsb (N.eqb f) owned.
Definition strip (o : obj) : obj :=
  match o with
  | Obj p fields g u pr su => Obj p (filter (fun e => negb (is_owned (fst e))) fields) g u pr su
  end.

Definition same_msg_content (a b : omsg) : bool :=
  bytes_eqb (o_type a) (o_type b) &&
  same_content (strip (o_hdr a)) (strip (o_hdr b)) &&
  same_content (o_body a) (o_body b) &&
  same_content (strip (o_trl a)) (strip (o_trl b)).

(* the whole observed object: used for "copy_legal leaves the source as it was" *)
Fixpoint pos_eqb (a b : list (N * (N * list N))) : bool :=
  match a, b with
  | [], [] => true
  | (k, (f, v)) :: a', (k', (f', v')) :: b' => (k =? k') && (f =? f') && bytes_eqb v v' && pos_eqb a' b'
  | _, _ => false
  end.
Definition same_obj (a b : obj) : bool :=
  same_content a b && pos_eqb (o_pos a) (o_pos b) && bytes_eqb (o_present a) (o_present b) &&
  bytes_eqb (o_unknown a) (o_unknown b).
Definition same_msg (a b : omsg) : bool :=
  bytes_eqb (o_type a) (o_type b) && same_obj (o_hdr a) (o_hdr b) && same_obj (o_body a) (o_body b) &&
  same_obj (o_trl a) (o_trl b).

(* "encodes to the same bytes as the original": when the original encodes (Some bytes), the other
   object encodes to exactly those bytes; an original that cannot be encoded has no bytes to match *)
Definition same_bytes (orig other : option (list N)) : bool :=
  match orig with
  | Some b => match other with Some b' => bytes_eqb b b' | None => false end
  | None => true
  end.

Inductive c11_obs :=
| ObsClone (enc_src enc_clone : option (list N))
| ObsCopy (src src_after tgt : omsg) (nb nh nt : N)
| ObsMove (src tgt : omsg) (nb nh nt : N) (enc_ref enc_tgt : option (list N)).

Definition c11_ok (o : c11_obs) : bool :=
  match o with
  | ObsClone es ec => same_bytes es ec
  | ObsCopy src after tgt nb nh nt =>
      same_msg_content src tgt && same_msg src after &&
      (nb =? count_fields (o_body src)) && (nh =? count_fields (strip (o_hdr src))) &&
      (nt =? count_fields (strip (o_trl src)))
  | ObsMove src tgt nb nh nt er et =>
      same_msg_content src tgt && same_bytes er et &&
      (nb =? top_fields (o_body src)) && (nh =? top_fields (strip (o_hdr src))) &&
      (nt =? top_fields (strip (o_trl src)))
  end.
