(* C11: the oracle's count_fields (number of field tokens in the content of the observed object)
   equals nfields (number of present traits at every level) on a well-formed source, and
   same_content is reflexive on equal contents. *)
From Coq Require Import NArith ZArith List Bool Lia.
From F8 Require Import Codec.Bytes Codec.Meta Codec.Extract Codec.Decode Codec.Encode
                       C11.Copy C11.Spec_C11 C11.Hyp C11.ListLemmas C11.Unfold C11.EncRel C11.CopyProofs.
Import ListNotations.
Local Open Scope N_scope.

Definition isTF (t : ctok) : bool := match t with TF _ _ => true | _ => false end.
Definition tfc (l : list ctok) : N := N.of_nat (length (filter isTF l)).

Lemma tfc_app a b : tfc (a ++ b) = tfc a + tfc b.
Proof. unfold tfc. rewrite filter_app, app_length. lia. Qed.

Lemma count_fields_tfc o : count_fields o = tfc (content o).
Proof. reflexivity. Qed.

Lemma bytes_eqb_refl a : bytes_eqb a a = true.
Proof. induction a as [|x a IH]; cbn [bytes_eqb]; [reflexivity|rewrite N.eqb_refl, IH; reflexivity]. Qed.

Lemma ctoks_eqb_refl l : ctoks_eqb l l = true.
Proof.
  induction l as [|x l IH]; cbn [ctoks_eqb]; [reflexivity|]. rewrite IH, andb_true_r.
  destruct x as [f [v|]| | |]; cbn [ctok_eqb oval_eqb]; rewrite ?N.eqb_refl, ?bytes_eqb_refl; reflexivity.
Qed.

Lemma strictN_filter (p : N -> bool) l : strictN l = true -> strictN (filter p l) = true.
Proof.
  induction l as [|x l IH]; intros H; [reflexivity|]. apply strictN_cons in H. destruct H as [H1 H2].
  cbn [filter]. destruct (p x); [|apply IH; exact H2]. apply strictN_cons. split; [|apply IH; exact H2].
  intros y Hy. apply filter_In in Hy. apply H1. tauto.
Qed.

Lemma strictN_map_filter {A} (k : A -> N) (p : A -> bool) l : strictN (map k l) = true -> strictN (map k (filter p l)) = true.
Proof.
  induction l as [|x l IH]; intros H; [reflexivity|]. cbn [map] in H. apply strictN_cons in H. destruct H as [H1 H2].
  cbn [filter]. destruct (p x); [|apply IH; exact H2]. cbn [map]. apply strictN_cons. split; [|apply IH; exact H2].
  intros y Hy. apply in_map_iff in Hy. destruct Hy as [z [<- Hz]]. apply filter_In in Hz. apply H1. apply in_map. tauto.
Qed.

(* sum of h over the tags of the present traits = sum over the table *)
Lemma sum_filter_present (h : N -> N) fp :
  sumN (map h (map t_fnum (filter t_present fp))) =
  fold_right (fun tr acc => (if t_present tr then h (t_fnum tr) else 0) + acc) 0 fp.
Proof.
  induction fp as [|tr fp IH]; [reflexivity|]. cbn [filter fold_right]. destruct (t_present tr).
  - cbn [map sumN fold_right]. fold (sumN (map h (map t_fnum (filter t_present fp)))). rewrite IH. reflexivity.
  - rewrite IH. reflexivity.
Qed.

Lemma tfc_flat_map {A} (f : A -> list ctok) l : tfc (flat_map f l) = sumN (map (fun x => tfc (f x)) l).
Proof.
  induction l as [|x l IH]; [reflexivity|]. cbn [flat_map map sumN fold_right]. rewrite tfc_app, IH. reflexivity.
Qed.

Lemma sumN_ext_in {A} (f g : A -> N) l : (forall x, In x l -> f x = g x) -> sumN (map f l) = sumN (map g l).
Proof.
  induction l as [|x l IH]; intros H; [reflexivity|]. cbn [map sumN fold_right].
  fold (sumN (map f l)). fold (sumN (map g l)). rewrite (H x (or_introl eq_refl)), IH; [reflexivity|].
  intros y Hy. apply H. right. exact Hy.
Qed.

Lemma tfc_els_toks l : Forall (fun e => count_fields (obj_of e) = nfields e) l -> tfc (els_toks l) = nf_els l.
Proof.
  induction l as [|e l IH]; intros H; [reflexivity|]. inversion H as [|? ? He Hl]; subst.
  cbn [els_toks nf_els].
  change (TE :: content (obj_of e) ++ TEnd :: els_toks l) with ([TE] ++ content (obj_of e) ++ [TEnd] ++ els_toks l).
  rewrite !tfc_app, IH by exact Hl. rewrite <- count_fields_tfc, He. unfold tfc. cbn. lia.
Qed.

Theorem count_nfields : forall s t0, src_ok s t0 = true -> count_fields (obj_of s) = nfields s.
Proof.
  induction s as [fp subs fields pos groups unknown IH] using mbase_ind'. intros t0 H.
  rewrite src_ok_unfold in H. rewrite !andb_true_iff in H. destruct H as [[Hl Ht] Hg].
  set (s := MB fp subs fields pos groups unknown) in *.
  pose proof (local_ok_facts s t0 Hl) as LF.
  pose proof (pgroup_facts s t0 (group_ok_pgroup s t0 Ht Hg)) as GF.
  (* elements of a group of the source *)
  assert (HEl : forall f els, map_find f groups = Some els -> Forall (fun e => count_fields (obj_of e) = nfields e) els).
  { intros f els Hm. pose proof (map_find_In _ _ _ Hm) as Hin.
    rewrite Forall_forall in IH. specialize (IH _ Hin). cbn [snd] in IH. rewrite Forall_forall in IH.
    apply Forall_forall. intros e He. destruct (GF _ _ Hin) as [_ Hne].
    destruct Hne as (_ & _ & _ & sg & _ & Hok); [intros ->; destruct He|].
    rewrite Forall_forall in Hok. exact (IH e He _ (Hok e He)). }
  (* per-tag number of fields below *)
  set (g := fun f => match map_find f groups with Some els => nf_els els | None => 0 end).
  rewrite count_fields_tfc. subst s. rewrite content_obj_of, nfields_unfold, tfc_flat_map.
  set (s := MB fp subs fields pos groups unknown) in *.
  transitivity (sumN (map (fun f => 1 + g f) (map fst fields))).
  - rewrite map_map. apply sumN_ext_in. intros [f v] Hin. unfold field_toks. cbn [fst snd].
    change (TF f (Some v) :: ?l) with ([TF f (Some v)] ++ l). unfold g.
    destruct (map_find f groups) as [[|x l]|] eqn:Em.
    + unfold tfc. cbn. reflexivity.
    + change (TG f :: els_toks (x :: l) ++ [TEnd]) with ([TG f] ++ els_toks (x :: l) ++ [TEnd]).
      rewrite !tfc_app, (tfc_els_toks _ (HEl f _ Em)). unfold tfc. cbn [filter isTF length]. lia.
    + unfold tfc. cbn. reflexivity.
  - assert (Hk : map fst fields = map t_fnum (filter t_present fp)).
    { apply (strict_unique (fun x => x)).
      - rewrite map_id. exact (lf_fstrict _ _ LF).
      - rewrite map_id. apply strictN_map_filter. exact (lf_strict _ _ LF).
      - intros f. split; intros Hin.
        + apply in_map_iff in Hin. destruct Hin as [[f' v] [<- Hin]]. pose proof (lf_fpres _ _ LF _ Hin) as Hp.
          cbn [fst mb_fp s] in *. unfold present_in in Hp. destruct (find_trait fp f') as [tr|] eqn:Et; [|discriminate].
          destruct (find_trait_In _ _ _ Et) as [Hi Hf]. apply in_map_iff. exists tr. split; [exact Hf|].
          apply filter_In. split; assumption.
        + apply in_map_iff in Hin. destruct Hin as [tr [<- Hin]]. apply filter_In in Hin. destruct Hin as [Hi Hp].
          assert (Hpi : present_in (mb_fp s) (t_fnum tr) = true).
          { rewrite (present_in_find _ _ _ (In_find_trait _ _ (NoDup_fnums s t0 LF) Hi)). exact Hp. }
          destruct (present_value s t0 LF _ Hpi) as [v Hv]. apply map_find_In in Hv.
          apply in_map_iff. exists (t_fnum tr, v). split; [reflexivity|exact Hv]. }
    rewrite Hk, sum_filter_present.
    assert (Hpt : forall tr, In tr fp -> (if t_present tr then 1 + g (t_fnum tr) else 0) = nf_trait groups tr).
    { intros tr Hin. unfold nf_trait, g. destruct (t_present tr); [|reflexivity]. f_equal.
      destruct (t_group tr) eqn:Egr; [reflexivity|].
      destruct (map_find (t_fnum tr) groups) as [[|x l]|] eqn:Em; try reflexivity.
      exfalso. destruct (GF _ _ (map_find_In _ _ _ Em)) as [_ Hne].
      destruct Hne as (_ & Hgi & _); [discriminate|]. unfold group_in in Hgi. change (mb_fp s) with fp in Hgi.
      pose proof (NoDup_fnums s t0 LF) as Hnd. change (mb_fp s) with fp in Hnd.
      rewrite (In_find_trait _ _ Hnd Hin) in Hgi. congruence. }
    clear -Hpt. induction fp as [|tr fp IH]; [reflexivity|]. cbn [fold_right].
    rewrite (Hpt tr (or_introl eq_refl)), IH; [reflexivity|]. intros x Hx. apply Hpt. right. exact Hx.
Qed.

(* ------------------------------------------------------------------ copy_legal, in the oracle's terms *)
Theorem c11_copy_legal_lemma : forall s t0, src_ok s t0 = true ->
  exists t, copy_legal false s t0 = Ok (count_fields (obj_of s), t) /\
            same_content (obj_of s) (obj_of t) = true /\
            (forall c b, mb_encode c s = Ok b -> mb_encode c t = Ok b).
Proof.
  intros s t0 H. destruct (copy_spec s t0 H) as [t [Hc [He Hcont]]].
  exists t. rewrite (count_nfields s t0 H). split; [exact Hc|]. split; [|exact He].
  unfold same_content. rewrite Hcont. apply ctoks_eqb_refl.
Qed.
