(* C11: the per-field output state of a floating point field.  No proofs here.

   A C++ Field<fp_type, N> (Price, Qty, Amt, PriceOffset, Percentage) holds a double AND an output
   precision (_precision, default FIX8_DEFAULT_PRECISION = 2, chosen by the (value, precision)
   constructor or set_precision); print() is modp_dtoa(_value, to, _precision).  Field::copy()
   (used by copy_legal, hence clone) must carry both; move_legal moves the object itself.

   In the shared object model a field value is a text.  A float field built through the API with
   an explicit precision p (0..9) is represented by the text  '~' <digit p> '~' <decimal text>  :
   the field's state is the pair (p, decimal text), its double is fast_atof(decimal text).  A text
   without that prefix is a field made by the string constructor (create_field, the decoder):
   default precision, and as everywhere in the codec model canonical texts only (render = identity).
   copy_legal / move_legal / clone (Copy.v) transfer value texts unchanged, so the model says: the
   copy has the same (precision, value) state as the original -- which is what the theorems state
   through same_content / equality of _fields, for EVERY rendering function of the ctx.

   render_c11 is the rendering used by the C11 driver: C08's models of fast_atof and modp_dtoa for
   the marked float texts, Codec.Render.render_default otherwise. *)
From Coq Require Import NArith ZArith List Bool.
From F8 Require Import Codec.Bytes Codec.Meta Codec.Render C08.NumFloat.
Import ListNotations.
Local Open Scope N_scope.

Definition TILDE : N := 126.

(* (precision, decimal text) of an API-built float text *)
Definition prec_split (v : list N) : option (N * list N) :=
  match v with
  | a :: d :: b :: t =>
      if (a =? TILDE) && (b =? TILDE) && (48 <=? d) && (d <=? 57) then Some (d - 48, t) else None
  | _ => None
  end.

(* the state of a field object as far as its output is concerned *)
Definition field_state (v : list N) : N * list N :=
  match prec_split v with
  | Some (p, t) => (p, t)
  | None => (2, v)          (* FIX8_DEFAULT_PRECISION *)
  end.

(* Field<fp_type>(fast_atof(text), p).print(): modp_dtoa(value, to, p) *)
Definition render_float_at (p : N) (t : list N) : list N :=
  match modp_dtoa (fast_atof (map Z.of_N t)) (Z.of_N p) with
  | DT_text r => map Z.to_N r
  | _ => [63]               (* '?': sprintf("%e") / overflow paths, not generated *)
  end.

Definition render_c11 (ty : N) (v : list N) : list N :=
  if is_float_type ty then
    match prec_split v with
    | Some (p, t) => render_float_at p t
    | None => render_default ty v
    end
  else render_default ty v.
