(* C11: generic list facts: strictly increasing key lists, uniqueness of a strictly sorted list with
   a given membership, std::map / std::multimap insertion (Meta.map_insert / pos_insert_k), lookups. *)
From Coq Require Import NArith ZArith List Bool Lia.
From F8 Require Import Codec.Bytes Codec.Meta C11.Copy C11.Spec_C11 C11.Hyp.
Import ListNotations.
Local Open Scope N_scope.

Lemma strictN_cons x l : strictN (x :: l) = true <-> (forall y, In y l -> x < y) /\ strictN l = true.
Proof.
  cbn [strictN]. rewrite andb_true_iff, forallb_forall. split; intros [H1 H2]; split; try assumption.
  - intros y Hy. apply N.ltb_lt. apply H1; assumption.
  - intros y Hy. apply N.ltb_lt. apply H1; assumption.
Qed.

Lemma strictN_notin x l : strictN (x :: l) = true -> ~ In x l.
Proof. intros H Hin. apply strictN_cons in H. destruct H as [H _]. specialize (H x Hin). lia. Qed.

Lemma strictN_NoDup l : strictN l = true -> NoDup l.
Proof.
  induction l as [|x l IH]; intros H; constructor.
  - apply strictN_notin; assumption.
  - apply IH. apply strictN_cons in H. tauto.
Qed.

Lemma strictN_tail x l : strictN (x :: l) = true -> strictN l = true.
Proof. intros H. apply strictN_cons in H. tauto. Qed.

(* a strictly sorted list is determined by its elements *)
Lemma strict_unique {A} (key : A -> N) : forall l1 l2 : list A,
  strictN (map key l1) = true -> strictN (map key l2) = true ->
  (forall x, In x l1 <-> In x l2) -> l1 = l2.
Proof.
  induction l1 as [|a l1 IH]; intros [|b l2] H1 H2 Hin.
  - reflexivity.
  - exfalso. apply (proj2 (Hin b)). left; reflexivity.
  - exfalso. apply (proj1 (Hin a)). left; reflexivity.
  - cbn [map] in H1, H2. apply strictN_cons in H1. apply strictN_cons in H2.
    destruct H1 as [Ha S1]. destruct H2 as [Hb S2].
    assert (Eab : a = b).
    { destruct (proj1 (Hin a) (or_introl eq_refl)) as [E|Ia]; [symmetry; exact E|].
      destruct (proj2 (Hin b) (or_introl eq_refl)) as [E|Ib]; [exact E|].
      exfalso. specialize (Hb (key a) (in_map key _ _ Ia)). specialize (Ha (key b) (in_map key _ _ Ib)). lia. }
    subst b. f_equal. apply IH; try assumption.
    intros x. split; intros Hx.
    + destruct (proj1 (Hin x) (or_intror Hx)) as [E|I]; [|exact I].
      subst x. exfalso. specialize (Ha (key a) (in_map key _ _ Hx)). lia.
    + destruct (proj2 (Hin x) (or_intror Hx)) as [E|I]; [|exact I].
      subst x. exfalso. specialize (Hb (key a) (in_map key _ _ Hx)). lia.
Qed.

(* ------------------------------------------------------------------ multimap insert *)
Lemma pos_insert_k_In {A} p (x : A) l y : In y (pos_insert_k p x l) <-> y = (p, x) \/ In y l.
Proof.
  induction l as [|[q z] r IH]; cbn [pos_insert_k].
  - cbn. intuition.
  - destruct (p <? q); cbn [In].
    + intuition.
    + rewrite IH. intuition.
Qed.

Lemma pos_insert_k_strict {A} p (x : A) l :
  strictN (map fst l) = true -> ~ In p (map fst l) -> strictN (map fst (pos_insert_k p x l)) = true.
Proof.
  induction l as [|[q z] r IH]; intros S Hn; cbn [pos_insert_k].
  - reflexivity.
  - cbn [map fst] in S, Hn. destruct (p <? q) eqn:E.
    + change (strictN (p :: map fst ((q, z) :: r)) = true). apply strictN_cons. split; [|exact S].
      apply N.ltb_lt in E. intros y [<-|Hy]; [exact E|].
      apply strictN_cons in S. destruct S as [S _]. specialize (S y Hy). lia.
    + apply N.ltb_ge in E. cbn [map fst]. apply strictN_cons.
      assert (Hq : q <> p) by (intros ->; apply Hn; left; reflexivity).
      pose proof (proj1 (strictN_cons _ _) S) as [Sq Sr].
      split.
      * intros y Hy. apply in_map_iff in Hy. destruct Hy as [[k w] [<- Hy]]. apply pos_insert_k_In in Hy.
        destruct Hy as [Ey|Hy]; [injection Ey as -> ->; cbn; lia|].
        apply Sq. apply (in_map fst) in Hy. exact Hy.
      * apply IH; [exact Sr|]. intros Hp. apply Hn. right. exact Hp.
Qed.

(* ------------------------------------------------------------------ map insert / find *)
Lemma map_insert_In {A} k (v : A) l y :
  ~ In k (map fst l) -> (In y (map_insert k v l) <-> y = (k, v) \/ In y l).
Proof.
  induction l as [|[q z] r IH]; intros Hn; cbn [map_insert].
  - cbn. intuition.
  - cbn [map fst] in Hn. destruct (k <? q); cbn [In]; [intuition|].
    destruct (k =? q) eqn:E; [apply N.eqb_eq in E; subst q; exfalso; apply Hn; left; reflexivity|].
    cbn [In]. rewrite IH; [intuition|]. intros H. apply Hn. right. exact H.
Qed.

Lemma map_insert_strict {A} k (v : A) l :
  strictN (map fst l) = true -> ~ In k (map fst l) -> strictN (map fst (map_insert k v l)) = true.
Proof.
  induction l as [|[q z] r IH]; intros S Hn; cbn [map_insert].
  - reflexivity.
  - cbn [map fst] in S, Hn. destruct (k <? q) eqn:E.
    + change (strictN (k :: map fst ((q, z) :: r)) = true). apply strictN_cons. split; [|exact S].
      apply N.ltb_lt in E. intros y [<-|Hy]; [exact E|].
      apply strictN_cons in S. destruct S as [S _]. specialize (S y Hy). lia.
    + apply N.ltb_ge in E.
      destruct (k =? q) eqn:E2; [apply N.eqb_eq in E2; subst q; exfalso; apply Hn; left; reflexivity|].
      apply N.eqb_neq in E2. cbn [map fst]. apply strictN_cons.
      pose proof (proj1 (strictN_cons _ _) S) as [Sq Sr].
      split.
      * intros y Hy. apply in_map_iff in Hy. destruct Hy as [[k' w] [<- Hy]].
        apply map_insert_In in Hy; [|intros H0; apply Hn; right; exact H0].
        destruct Hy as [Ey|Hy]; [injection Ey as -> ->; cbn; lia|].
        apply Sq. apply (in_map fst) in Hy. exact Hy.
      * apply IH; [exact Sr|]. intros Hp. apply Hn. right. exact Hp.
Qed.

Lemma map_find_In {A} k (v : A) l : map_find k l = Some v -> In (k, v) l.
Proof.
  induction l as [|[q z] r IH]; cbn [map_find]; [discriminate|].
  destruct (k =? q) eqn:E.
  - apply N.eqb_eq in E. subst q. intros H. injection H as ->. left; reflexivity.
  - intros H. right. apply IH. exact H.
Qed.

Lemma In_map_find {A} k (v : A) l : NoDup (map fst l) -> In (k, v) l -> map_find k l = Some v.
Proof.
  induction l as [|[q z] r IH]; intros Hnd Hin; [destruct Hin|].
  cbn [map fst] in Hnd. inversion Hnd as [|? ? Hq Hr]; subst. cbn [map_find].
  destruct Hin as [E|Hin].
  - injection E as -> ->. rewrite N.eqb_refl. reflexivity.
  - destruct (k =? q) eqn:E.
    + apply N.eqb_eq in E. subst q. exfalso. apply Hq. apply (in_map fst) in Hin. exact Hin.
    + apply IH; assumption.
Qed.

Lemma map_find_None {A} k (l : list (N * A)) : map_find k l = None <-> ~ In k (map fst l).
Proof.
  induction l as [|[q z] r IH]; cbn [map_find map fst In]; [intuition|].
  destruct (k =? q) eqn:E.
  - apply N.eqb_eq in E. subst q. split; [discriminate|]. intros H. exfalso. apply H. left; reflexivity.
  - apply N.eqb_neq in E. rewrite IH. split; [intros H [H1|H1]; [apply E; symmetry; exact H1|exact (H H1)]|intuition].
Qed.

Lemma map_find_map_set {A} k g (v : A) l :
  map_find g (map_set k v l) = if g =? k then option_map (fun _ => v) (map_find k l) else map_find g l.
Proof.
  induction l as [|[q z] r IH]; cbn [map_set map_find].
  - destruct (g =? k); reflexivity.
  - destruct (k =? q) eqn:E.
    + apply N.eqb_eq in E. subst q. cbn [map_find]. destruct (g =? k) eqn:E2; reflexivity.
    + cbn [map_find]. destruct (g =? q) eqn:E3.
      * apply N.eqb_eq in E3. subst q. destruct (g =? k) eqn:E4; [|reflexivity].
        apply N.eqb_eq in E4. subst k. rewrite N.eqb_refl in E. discriminate.
      * exact IH.
Qed.

Lemma map_set_keys {A} k (v : A) l : map fst (map_set k v l) = map fst l.
Proof.
  induction l as [|[q z] r IH]; cbn [map_set map fst]; [reflexivity|].
  destruct (k =? q); cbn [map fst]; [reflexivity|rewrite IH; reflexivity].
Qed.

Lemma list_eqb_eq a b : list_eqb a b = true -> a = b.
Proof.
  revert b. induction a as [|x a IH]; intros [|y b]; cbn [list_eqb]; try discriminate; [reflexivity|].
  rewrite andb_true_iff. intros [E H]. apply N.eqb_eq in E. subst y. f_equal. apply IH. exact H.
Qed.

Lemma list_eqb_refl a : list_eqb a a = true.
Proof. induction a as [|x a IH]; cbn [list_eqb]; [reflexivity|rewrite N.eqb_refl, IH; reflexivity]. Qed.

(* ------------------------------------------------------------------ trait tables *)
Lemma trait_eqb_eq a b : trait_eqb a b = true -> a = b.
Proof.
  unfold trait_eqb. rewrite !andb_true_iff. intros [[[[[[[[[[H1 H2] H3] H4] H5] H6] H7] H8] H9] H10] H11].
  destruct a, b; cbn in *.
  apply N.eqb_eq in H1, H2, H3, H4. apply eqb_prop in H5, H6, H7, H8, H9, H10, H11. subst. reflexivity.
Qed.

Lemma traits_eqb_eq a b : traits_eqb a b = true -> a = b.
Proof.
  revert b. induction a as [|x a IH]; intros [|y b]; cbn [traits_eqb]; try discriminate; [reflexivity|].
  rewrite andb_true_iff. intros [E H]. apply trait_eqb_eq in E. subst y. f_equal. apply IH. exact H.
Qed.

Lemma find_trait_In ts f tr : find_trait ts f = Some tr -> In tr ts /\ t_fnum tr = f.
Proof.
  induction ts as [|x r IH]; cbn [find_trait]; [discriminate|].
  destruct (t_fnum x =? f) eqn:E.
  - intros H. injection H as <-. apply N.eqb_eq in E. split; [left; reflexivity|exact E].
  - intros H. destruct (IH H) as [H1 H2]. split; [right; exact H1|exact H2].
Qed.

Lemma In_find_trait ts tr : NoDup (map t_fnum ts) -> In tr ts -> find_trait ts (t_fnum tr) = Some tr.
Proof.
  induction ts as [|x r IH]; intros Hnd Hin; [destruct Hin|].
  cbn [map] in Hnd. inversion Hnd as [|? ? Hx Hr]; subst. cbn [find_trait].
  destruct Hin as [->|Hin]; [rewrite N.eqb_refl; reflexivity|].
  destruct (t_fnum x =? t_fnum tr) eqn:E.
  - apply N.eqb_eq in E. exfalso. apply Hx. rewrite E. apply in_map. exact Hin.
  - apply IH; assumption.
Qed.

Lemma find_trait_None ts f : find_trait ts f = None <-> ~ In f (map t_fnum ts).
Proof.
  induction ts as [|x r IH]; cbn [find_trait map In]; [intuition|].
  destruct (t_fnum x =? f) eqn:E.
  - apply N.eqb_eq in E. split; [discriminate|]. intros H. exfalso. apply H. left; exact E.
  - apply N.eqb_neq in E. rewrite IH. intuition.
Qed.

Lemma find_trait_mark ts f h :
  find_trait (upd_trait (set_present true) ts f) h =
  if h =? f then option_map (set_present true) (find_trait ts f) else find_trait ts h.
Proof.
  induction ts as [|x r IH]; cbn [upd_trait find_trait].
  - destruct (h =? f); reflexivity.
  - destruct (t_fnum x =? f) eqn:E.
    + apply N.eqb_eq in E. cbn [find_trait set_present t_fnum]. rewrite E.
      destruct (f =? h) eqn:E2.
      * apply N.eqb_eq in E2. subst h. rewrite N.eqb_refl. reflexivity.
      * rewrite N.eqb_sym, E2. reflexivity.
    + cbn [find_trait]. destruct (t_fnum x =? h) eqn:E2.
      * apply N.eqb_eq in E2. subst h. rewrite E. reflexivity.
      * exact IH.
Qed.

Lemma static_eq_find a b : static_eq a b = true -> forall f,
  match find_trait a f, find_trait b f with
  | Some x, Some y => set_present false x = set_present false y
  | None, None => True
  | _, _ => False
  end.
Proof.
  unfold static_eq. intros H. apply traits_eqb_eq in H. revert b H.
  induction a as [|x a IH]; intros [|y b] H f; cbn [map] in H; try discriminate; cbn [find_trait]; [exact I|].
  assert (Hxy := f_equal (@hd trait x) H). assert (Hab := f_equal (@tl trait) H). cbn [hd tl] in Hxy, Hab.
  assert (Ef : t_fnum x = t_fnum y) by (exact (f_equal t_fnum Hxy)).
  rewrite <- Ef. destruct (t_fnum x =? f); [exact Hxy|apply IH; exact Hab].
Qed.
