(* C11: the decidable hypotheses of the theorems, the model-side view of an object as the oracle's
   observed object, and small accessors.  No proofs here.

   src_ok s t0   (s = source object, t0 = the fresh target it is copied / moved into)
     local_ok    the source is consistent and IN SCHEMA ORDER:
                 - its trait table is the target's up to the present bits, tags strictly increasing
                   (FieldTrait tables are sorted by tag), positions below 2^16;
                 - every _pos entry names a present trait and carries the value of _fields[tag];
                 - the schema positions getPos(tag) of the _pos entries, in _pos order, are strictly
                   increasing  <-- "positions_schema": true of API-built objects (key = getPos) and of
                   objects decoded from in-order input (keys = arrival index), false for a message
                   decoded from shuffled input or holding two unpositioned fields in reverse order;
                 - every present trait has a _pos entry; _fields is sorted and holds exactly the
                   present tags; _groups is sorted; no pass-through bytes (_unknown empty);
     target_ok   the target is a fresh object of the same class: nothing present, no field, and every
                 group object it HAS is empty.  That covers a deep-constructed target (create_group g
                 true: all nested groups pre-created), a shallow one (create_group g false: no group
                 object at all) and anything between (FIX44 header: deep, but NoHops not pre-created);
                 the _groups map is sorted by tag (std::map); no group object is required to exist
                 (copy_legal creates a missing one, move_legal replaces an existing one and adds a
                 missing one);
     groups      the target's class knows the nested class of every group the source holds under a
                 group tag (create_nested_group; the group OBJECT need not exist in the target: since
                 /repo 198b3ea copy_legal creates it); every non-empty group of the source belongs to a
                 present group field, and every element is src_ok against a fresh deep element of the
                 nested class (recursively).
   part_ok s t0  the same for a header / trailer, whose fresh target t0 already holds the
                 constructor's fields (8, 9, 35 / 10): those must be present in the source as well. *)
From Coq Require Import NArith ZArith List Bool.
From F8 Require Import Codec.Bytes Codec.Meta Codec.Extract Codec.Decode Codec.Encode C11.Copy C11.Spec_C11.
Import ListNotations.
Local Open Scope N_scope.

(* ------------------------------------------------------------------ small helpers *)
Definition trait_eqb (a b : trait) : bool :=
  (t_fnum a =? t_fnum b) && (t_ftype a =? t_ftype b) && (t_pos a =? t_pos b) && (t_comp a =? t_comp b) &&
  Bool.eqb (t_mand a) (t_mand b) && Bool.eqb (t_present a) (t_present b) && Bool.eqb (t_haspos a) (t_haspos b) &&
  Bool.eqb (t_group a) (t_group b) && Bool.eqb (t_iscomp a) (t_iscomp b) && Bool.eqb (t_suppress a) (t_suppress b) &&
  Bool.eqb (t_auto a) (t_auto b).
Fixpoint traits_eqb (a b : list trait) : bool :=
  match a, b with
  | [], [] => true
  | x :: a', y :: b' => trait_eqb x y && traits_eqb a' b'
  | _, _ => false
  end.
(* same table up to the (dynamic) present bits *)
Definition static_eq (a b : list trait) : bool :=
  traits_eqb (map (set_present false) a) (map (set_present false) b).

(* head smaller than everything behind it, recursively *)
Fixpoint strictN (l : list N) : bool :=
  match l with
  | [] => true
  | x :: r => forallb (fun y => x <? y) r && strictN r
  end.
Definition is_nil {A} (l : list A) : bool := match l with [] => true | _ => false end.
Definition is_some {A} (o : option A) : bool := match o with Some _ => true | None => false end.

(* FieldTraits::getPos(fnum) / get(fnum, present) / is_group(fnum) on a table *)
Definition pos_of (fp : list trait) (f : N) : N :=
  match find_trait fp f with Some tr => getPos tr | None => 0 end.
Definition present_in (fp : list trait) (f : N) : bool :=
  match find_trait fp f with Some tr => t_present tr | None => false end.
Definition group_in (fp : list trait) (f : N) : bool :=
  match find_trait fp f with Some tr => t_group tr | None => false end.
Definition suppress_in (fp : list trait) (f : N) : bool :=
  match find_trait fp f with Some tr => t_suppress tr | None => false end.

Definition e_fnum (e : N * (N * list N)) : N := fst (snd e).
Definition e_val (e : N * (N * list N)) : list N := snd (snd e).

(* ------------------------------------------------------------------ the source *)
Definition entry_ok (fp : list trait) (fields : list (N * list N)) (e : N * (N * list N)) : bool :=
  present_in fp (e_fnum e) &&
  match map_find (e_fnum e) fields with Some w => list_eqb (e_val e) w | None => false end.
Definition covered (pos : list (N * (N * list N))) (tr : trait) : bool :=
  negb (t_present tr) || existsb (fun e => e_fnum e =? t_fnum tr) pos.

Definition local_ok (s t0 : mbase) : bool :=
  static_eq (mb_fp s) (mb_fp t0) &&
  strictN (map t_fnum (mb_fp s)) &&
  forallb (fun tr => getPos tr <? 65536) (mb_fp s) &&
  forallb (entry_ok (mb_fp s) (mb_fields s)) (mb_pos s) &&
  strictN (map (fun e => pos_of (mb_fp s) (e_fnum e)) (mb_pos s)) &&       (* schema order *)
  forallb (covered (mb_pos s)) (mb_fp s) &&
  strictN (map fst (mb_fields s)) &&
  forallb (fun e => present_in (mb_fp s) (fst e)) (mb_fields s) &&
  strictN (map fst (mb_groups s)) &&
  is_nil (mb_unknown s).

(* ------------------------------------------------------------------ the fresh target *)
Definition target_ok (t0 : mbase) : bool :=
  forallb (fun tr => negb (t_present tr)) (mb_fp t0) &&
  is_nil (mb_fields t0) && is_nil (mb_pos t0) &&
  forallb (fun g => is_nil (snd g)) (mb_groups t0) &&
  strictN (map fst (mb_groups t0)) &&
  is_nil (mb_unknown t0).

(* group f of the source is transferred: its count field is present and a group field *)
Definition group_owned (fp : list trait) (f : N) : bool := present_in fp f && group_in fp f.

Fixpoint src_ok (s : mbase) {struct s} : mbase -> bool :=
  match s with
  | MB fp _ _ _ groups _ =>
    let sub_ok :=
      (fix gl (gs : list (N * list mbase)) : list (N * list (mbase -> bool)) :=
         match gs with
         | [] => []
         | (f, els) :: r =>
           (f, (fix el (es : list mbase) : list (mbase -> bool) :=
                  match es with
                  | [] => []
                  | e :: r' => src_ok e :: el r'
                  end) els) :: gl r
         end) groups in
    fun t0 =>
      local_ok s t0 && target_ok t0 &&
      forallb (fun g =>
                 (negb (group_in fp (fst g)) || is_some (find_sub (mb_subs t0) (fst g))) &&
                 match snd g with
                 | [] => true
                 | oks =>
                   group_owned fp (fst g) &&
                   match find_sub (mb_subs t0) (fst g) with
                   | Some sg => forallb (fun ok => ok (create_group sg true)) oks
                   | None => false
                   end
                 end) sub_ok
  end.

(* ------------------------------------------------------------------ header / trailer *)
(* the fresh target holds the constructor's fields: consistent, and present in the source too *)
Definition init_entry_ok (s t0 : mbase) (e : N * (N * list N)) : bool :=
  present_in (mb_fp t0) (e_fnum e) && (fst e =? pos_of (mb_fp t0) (e_fnum e)) &&
  present_in (mb_fp s) (e_fnum e) && negb (group_in (mb_fp t0) (e_fnum e)) &&
  match map_find (e_fnum e) (mb_fields t0) with Some w => list_eqb (e_val e) w | None => false end.
Definition part_target_ok (s t0 : mbase) : bool :=
  forallb (init_entry_ok s t0) (mb_pos t0) &&
  strictN (map fst (mb_pos t0)) &&
  forallb (covered (mb_pos t0)) (mb_fp t0) &&
  strictN (map fst (mb_fields t0)) &&
  forallb (fun e => present_in (mb_fp t0) (fst e)) (mb_fields t0) &&
  forallb (fun g => is_nil (snd g)) (mb_groups t0) &&
  strictN (map fst (mb_groups t0)) &&
  is_nil (mb_unknown t0).

Definition part_ok (s t0 : mbase) : bool :=
  local_ok s t0 && part_target_ok s t0 &&
  forallb (fun g =>
             (negb (group_in (mb_fp s) (fst g)) || is_some (find_sub (mb_subs t0) (fst g))) &&
             match snd g with
             | [] => true
             | els =>
               group_owned (mb_fp s) (fst g) && negb (present_in (mb_fp t0) (fst g)) &&
               match find_sub (mb_subs t0) (fst g) with
               | Some sg => forallb (fun e => src_ok e (create_group sg true)) els
               | None => false
               end
             end) (mb_groups s).

(* ------------------------------------------------------------------ a whole message *)
(* the constructor-owned fields of the fresh target (8, 9, 35 / 10) are still suppressed in the source,
   i.e. the source has never been encoded (C02 finding F05: Message::encode clears the suppress bits for
   good) -- except MsgType in the header, which is not suppressed but overwritten by encode *)
Definition owned_ok (allow_msgtype : bool) (s t0 : mbase) : bool :=
  forallb (fun e => suppress_in (mb_fp s) (e_fnum e) || (allow_msgtype && (e_fnum e =? Common_MsgType))) (mb_pos t0).
Definition same_field (f : N) (a b : mbase) : bool :=
  match map_find f (mb_fields a), map_find f (mb_fields b) with
  | Some v, Some w => list_eqb v w
  | None, None => true
  | _, _ => false
  end.

Definition clone_ok (c : ctx) (md : msgdef) (m : message) : bool :=
  let t := mk_message c md true in
  src_ok (m_body m) (m_body t) &&
  part_ok (m_hdr m) (m_hdr t) && part_ok (m_trl m) (m_trl t) &&
  owned_ok true (m_hdr m) (m_hdr t) && owned_ok false (m_trl m) (m_trl t) &&
  same_field Common_BeginString (m_hdr m) (m_hdr t) &&
  list_eqb (m_type m) (md_type md).

(* ------------------------------------------------------------------ move_legal *)
(* no recursion: the group elements are handed over as they are.  Beyond local_ok / target_ok:
   every non-empty group belongs to a present group field (otherwise it stays behind).  (A present
   group field without _groups entry -- a message decoded from "NoX=0" -- is fine since /repo 1eb9e00.) *)
Definition move_ok (s t0 : mbase) : bool :=
  local_ok s t0 && target_ok t0 &&
  forallb (fun g => is_nil (snd g) || group_owned (mb_fp s) (fst g)) (mb_groups s).

(* ------------------------------------------------------------------ the observed object of a model object *)
Fixpoint obj_of (m : mbase) : obj :=
  match m with
  | MB fp _ fields pos groups unknown =>
    Obj pos (map (fun e => (fst e, Some (snd e))) fields)
        ((fix gl (gs : list (N * list mbase)) : list (N * option (list obj)) :=
            match gs with
            | [] => []
            | (f, els) :: r =>
              (f, Some ((fix el (es : list mbase) : list obj :=
                           match es with
                           | [] => []
                           | e :: r' => obj_of e :: el r'
                           end) els)) :: gl r
            end) groups)
        unknown
        (map t_fnum (filter t_present fp)) (map t_fnum (filter t_suppress fp))
  end.

(* number of present fields at every level (what copy_legal counts) *)
Fixpoint nfields (m : mbase) : N :=
  match m with
  | MB fp _ _ _ groups _ =>
    let gs :=
      (fix gl (gs : list (N * list mbase)) : list (N * N) :=
         match gs with
         | [] => []
         | (f, els) :: r =>
           (f, (fix el (es : list mbase) : N :=
                  match es with
                  | [] => 0
                  | e :: r' => nfields e + el r'
                  end) els) :: gl r
         end) groups in
    fold_right (fun tr acc =>
                  (if t_present tr
                   then 1 + (if t_group tr then match map_find (t_fnum tr) gs with Some k => k | None => 0 end else 0)
                   else 0) + acc) 0 fp
  end.
