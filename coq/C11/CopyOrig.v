(* C11: copy_legal / move_legal as they were BEFORE the two repairs that this check led to
   (/repo 6620c2f = 198b3ea "copy_legal creates the target's repeating group when the target has none",
    /repo 094581d = 1eb9e00 "move_legal tests whether the source holds a group object before moving it"),
   kept only for the ..._orig_refuted witnesses.  Same structure as Copy.v; the two differing places
   are marked.  No proofs here. *)
From Coq Require Import NArith ZArith List Bool.
From F8 Require Import Codec.Bytes Codec.Meta C11.Copy.
Import ListNotations.
Local Open Scope N_scope.

(* ORIGINAL: GroupBase *gb1(to->find_group(pp._fnum)); ... gb1->create_group(true) without a null test *)
Definition copy_group_orig (gcopy : list (N * list elem_copier)) (pp : trait) (st : N * mbase) : res (N * mbase) :=
  let f := t_fnum pp in
  if t_group pp then
    match map_find f gcopy with
    | None => Ok st
    | Some [] => Ok st                           (* no element: gb1 is never dereferenced *)
    | Some cs =>
        match map_find f (mb_groups (snd st)), find_sub (mb_subs (snd st)) f with
        | Some _, Some sg => copy_elems sg f cs st
        | _, _ => OOB site_target_group          (* gb1 == nullptr *)
        end
    end
  else Ok st.

Definition copy_step_orig (force : bool) (fields : list (N * list N)) (gcopy : list (N * list elem_copier))
                          (pp : trait) (st : N * mbase) : res (N * mbase) :=
  if wants force pp (snd st) then
    bind (copy_group_orig gcopy pp st) (fun st1 =>
    match map_find (t_fnum pp) fields with
    | None => OOB site_null_field
    | Some v => bind (put_field force (snd st1) (t_fnum pp) v) (fun to' => Ok (fst st1 + 1, to'))
    end)
  else Ok st.

Fixpoint copy_legal_orig (force : bool) (src : mbase) {struct src} : mbase -> res (N * mbase) :=
  match src with
  | MB fp _ fields _ groups _ =>
    let gcopy :=
      (fix gl (gs : list (N * list mbase)) : list (N * list elem_copier) :=
         match gs with
         | [] => []
         | (f, els) :: r =>
           (f, (fix el (es : list mbase) : list elem_copier :=
                  match es with
                  | [] => []
                  | e :: r' => copy_legal_orig force e :: el r'
                  end) els) :: gl r
         end) groups in
    fun to => fold_res (copy_step_orig force fields gcopy) fp (0, to)
  end.

Definition clone_orig (c : ctx) (m : message) : res message :=
  match find_msg (c_msgs c) (m_type m) with
  | None => OOB site_invalid_metadata
  | Some md =>
    let t := mk_message c md true in
    bind (copy_legal_orig false (m_body m) (m_body t)) (fun rb =>
    bind (copy_legal_orig false (m_hdr m) (m_hdr t)) (fun rh =>
    bind (copy_legal_orig false (m_trl m) (m_trl t)) (fun rt =>
    Ok (mkMsg (m_type t) (snd rh) (snd rb) (snd rt)))))
  end.

(* ORIGINAL: auto gitr(_groups.find(fnum)); ... gitr->second used without testing gitr against end() *)
Definition move_group_orig (pp : trait) (st : mstate) : res mstate :=
  let f := t_fnum pp in
  if t_group pp then
    match map_find f (ms_groups st) with
    | None => OOB site_groups_end                (* gitr == _groups.end() *)
    | Some None => OOB site_null_moved
    | Some (Some els) =>
        let to := ms_to st in
        let to1 := match map_find f (mb_groups to) with
                   | Some _ => with_groups to (map_set f els (mb_groups to))
                   | None => with_groups to (map_insert f els (mb_groups to))
                   end in
        Ok (mkMS (ms_moved st) to1 (ms_fields st) (map_set f None (ms_groups st)))
    end
  else Ok st.

Definition move_step_orig (force : bool) (pp : trait) (st : mstate) : res mstate :=
  let f := t_fnum pp in
  if wants force pp (ms_to st) then
    bind (move_group_orig pp st) (fun st1 =>
    match map_find f (ms_fields st1) with
    | None => OOB site_null_field
    | Some None => OOB site_null_field
    | Some (Some v) =>
        bind (put_field force (ms_to st1) f v) (fun to' =>
        Ok (mkMS (ms_moved st1 + 1) to' (map_set f None (ms_fields st1)) (ms_groups st1)))
    end)
  else Ok st.

Definition move_legal_orig (force : bool) (src to : mbase) : res (N * mbase * husk) :=
  let st0 := mkMS 0 to (map (fun e => (fst e, Some (snd e))) (mb_fields src))
                       (map (fun e => (fst e, Some (snd e))) (mb_groups src)) in
  bind (fold_res (move_step_orig force) (mb_fp src) st0) (fun st =>
  Ok (ms_moved st, ms_to st, HK (mb_fp src) (ms_fields st) (ms_groups st) (mb_unknown src))).

Definition move_msg_orig (c : ctx) (m : message) : res (N * N * N * message * (husk * husk * husk)) :=
  match find_msg (c_msgs c) (m_type m) with
  | None => OOB site_invalid_metadata
  | Some md =>
    let t := mk_message c md true in
    bind (move_legal_orig false (m_body m) (m_body t)) (fun '(nb, tb, kb) =>
    bind (move_legal_orig false (m_hdr m) (m_hdr t)) (fun '(nh, th, kh) =>
    bind (move_legal_orig false (m_trl m) (m_trl t)) (fun '(nt, ttr, kt) =>
    Ok (nb, nh, nt, mkMsg (m_type t) th tb ttr, (kh, kb, kt)))))
  end.
