(* C11: small examples for the non-vacuity and refutation theorems (on Codec/Example.v's schema
   ex_ctx, plus a variant with two unpositioned user fields as in FIX42UTEST).  No proofs here. *)
From Coq Require Import NArith ZArith List Bool.
From F8 Require Import Codec.Bytes Codec.Meta Codec.Extract Codec.Decode Codec.Encode Codec.Render Codec.Example
                       C11.Copy C11.Spec_C11 C11.Hyp.
Import ListNotations.
Local Open Scope N_scope.

(* the bytes of a successful encode, [] otherwise *)
Definition enc_of (c : ctx) (m : message) : list N :=
  match msg_encode c m with Ok (b, _) => b | _ => [] end.
Definition clone_enc (c : ctx) (m : message) : list N :=
  match clone c m with Ok t => enc_of c t | _ => [] end.

Definition md_hb : msgdef := mkMD [48] true ex_heartbeat.
Definition md_list : msgdef := mkMD [69] false ex_body.

(* 8=FIX.4.2|9=29|35=0|34=7|49=A|56=B|112=TEST|10=156|  -- ex_hb's bytes with 34 moved in front of
   49 and 56 (same byte sum, same length: BodyLength and CheckSum are those of ex_hb) *)
Definition hb_shuffled_bytes : list N :=
  [56; 61; 70; 73; 88; 46; 52; 46; 50; 1; 57; 61; 50; 57; 1; 51; 53; 61; 48; 1;
   51; 52; 61; 55; 1; 52; 57; 61; 65; 1; 53; 54; 61; 66; 1;
   49; 49; 50; 61; 84; 69; 83; 84; 1; 49; 48; 61; 49; 53; 54; 1].
(* the same in schema order = enc_of ex_ctx ex_hb *)
Definition hb_inorder_bytes : list N :=
  [56; 61; 70; 73; 88; 46; 52; 46; 50; 1; 57; 61; 50; 57; 1; 51; 53; 61; 48; 1;
   52; 57; 61; 65; 1; 53; 54; 61; 66; 1; 51; 52; 61; 55; 1;
   49; 49; 50; 61; 84; 69; 83; 84; 1; 49; 48; 61; 49; 53; 54; 1].
Definition decoded (c : ctx) (bytes : list N) : option message :=
  match factory c real_caps bytes false false with Ok m => Some m | _ => None end.

(* a schema whose Heartbeat carries two user fields without the `position' trait bit
   (getPos() = 0 for both), as FIX42UTEST's 9991 / 9999 *)
Definition upos (f p : N) : trait := mkT f 15 p 0 false false false false false false false.
Definition ex_heartbeat_u : gmeta :=
  GM [ tr 112 15 1 false false false false; upos 9991 2; upos 9999 3 ] [] true.
Definition md_hb_u : msgdef := mkMD [48] true ex_heartbeat_u.
Definition ex_ctx_u : ctx :=
  mkCtx ((9991, 15) :: (9999, 15) :: c_fields ex_ctx) [ md_hb_u; md_list ]
        (c_header ex_ctx) (c_trailer ex_ctx) (c_hdr_init ex_ctx) (c_trl_init ex_ctx) (c_begin ex_ctx) (c_render ex_ctx).
Definition hb_user (first second : N) : message :=
  let m := mk_message ex_ctx_u md_hb_u true in
  mkMsg (m_type m) (ex_hdr_fields (m_hdr m))
        (addf (addf (addf (m_body m) 112 [84]) first [97]) second [98]) (m_trl m).

(* pass-through bytes in the body (what a permissive decode leaves in _unknown) *)
Definition hb_unknown : message :=
  mkMsg (m_type ex_hb) (m_hdr ex_hb) (with_unknown (m_body ex_hb) [57; 57; 57; 57; 61; 120; 1]) (m_trl ex_hb).

(* 8=FIX.4.2|9=29|35=E|49=A|56=B|34=7|66=L1|73=0|10=000|  decoded without checksum test: the body is
   shallow, the group count 0 makes decode skip decode_group, so _groups has no entry for 73 *)
Definition list_zero_bytes : list N :=
  [56; 61; 70; 73; 88; 46; 52; 46; 50; 1; 57; 61; 50; 57; 1; 51; 53; 61; 69; 1;
   52; 57; 61; 65; 1; 53; 54; 61; 66; 1; 51; 52; 61; 55; 1;
   54; 54; 61; 76; 49; 1; 55; 51; 61; 48; 1; 49; 48; 61; 48; 48; 48; 1].
Definition decoded_nock (c : ctx) (bytes : list N) : option message :=
  match factory c real_caps bytes true false with Ok m => Some m | _ => None end.

(* a header whose deep constructor does NOT pre-create its repeating group (as FIX44's NoHops 627):
   gmeta's deep flag is false *)
Definition ex_hops : gmeta := GM [ tr 628 15 1 false false false false ] [] true.
Definition ex_header_h : gmeta := GM
  [ tr 8 15 1 false false true true; tr 9 1 2 false false true true; tr 34 1 6 true false false false;
    tr 35 15 3 false false false true; tr 49 15 4 true false false false; tr 56 15 5 true false false false;
    tr 627 5 7 false true false false ]
  [ (627, ex_hops) ] false.
Definition ex_ctx_h : ctx :=
  mkCtx ((627, 5) :: (628, 15) :: c_fields ex_ctx) (c_msgs ex_ctx)
        ex_header_h (c_trailer ex_ctx) (c_hdr_init ex_ctx) (c_trl_init ex_ctx) (c_begin ex_ctx) (c_render ex_ctx).
Definition hb_hops : message :=
  let m := mk_message ex_ctx_h md_hb true in
  let h := with_elems (addf (ex_hdr_fields (m_hdr m)) 627 [49]) 627 [addf (create_group ex_hops true) 628 [88]] in
  mkMsg (m_type m) h (addf (m_body m) 112 [84]) (m_trl m).
