(* C11: MessageBase::encode depends on an object only through the sequence of (tag, value) pairs of
   _pos, the static part of the trait table and the encodings of the groups' elements: two objects
   related in that way encode to the same bytes. *)
From Coq Require Import NArith ZArith List Bool Lia.
From F8 Require Import Codec.Bytes Codec.Meta Codec.Extract Codec.Decode Codec.Encode
                       C11.Copy C11.Spec_C11 C11.Hyp C11.ListLemmas C11.Unfold.
Import ListNotations.
Local Open Scope N_scope.

(* same traits up to the present bit, tag by tag *)
Definition same_static (fp1 fp2 : list trait) : Prop :=
  forall f, match find_trait fp1 f, find_trait fp2 f with
            | Some a, Some b => set_present false a = set_present false b
            | None, None => True
            | _, _ => False
            end.

Lemma same_static_refl fp : same_static fp fp.
Proof. intros f. destruct (find_trait fp f); [reflexivity|exact I]. Qed.

Lemma static_fields a b : set_present false a = set_present false b ->
  t_fnum a = t_fnum b /\ t_ftype a = t_ftype b /\ t_pos a = t_pos b /\ t_haspos a = t_haspos b /\
  t_group a = t_group b /\ t_suppress a = t_suppress b.
Proof. destruct a, b; cbn. intros H. injection H as -> -> -> -> -> -> -> -> -> ->. repeat split. Qed.

(* entries pair up: same tag, and same value unless the tag is `free' (free tags are suppressed) *)
Definition entry_rel (free : N -> bool) (a b : N * (N * list N)) : Prop :=
  e_fnum a = e_fnum b /\ (free (e_fnum a) = true \/ e_val a = e_val b).

Lemma enc_pos_rel c fp1 fp2 genc1 genc2 (free : N -> bool) :
  same_static fp1 fp2 ->
  (forall f, free f = true -> suppress_in fp1 f = true) ->
  forall p1 p2, Forall2 (entry_rel free) p1 p2 ->
  (forall f r, In f (map e_fnum p1) -> group_in fp1 f = true -> free f = false ->
               map_find f genc1 = Some (Ok r) -> map_find f genc2 = Some (Ok r)) ->
  forall b, enc_pos c fp1 genc1 p1 = Ok b -> enc_pos c fp2 genc2 p2 = Ok b.
Proof.
  intros Hs Hfree p1 p2 HF. induction HF as [|[k1 [f1 v1]] [k2 [f2 v2]] p1 p2 [Ef Ev] HF IH]; intros Hg b H.
  - exact H.
  - unfold e_fnum, e_val in Ef, Ev. cbn [fst snd] in Ef, Ev. subst f2.
    assert (Hg' : forall f r, In f (map e_fnum p1) -> group_in fp1 f = true -> free f = false ->
                  map_find f genc1 = Some (Ok r) -> map_find f genc2 = Some (Ok r))
      by (intros f r Hin; apply Hg; right; exact Hin).
    specialize (IH Hg').
    cbn [enc_pos] in *. specialize (Hs f1).
    destruct (find_trait fp1 f1) as [a|] eqn:E1; [|discriminate].
    destruct (find_trait fp2 f1) as [a2|] eqn:E2; [|destruct Hs].
    apply static_fields in Hs. destruct Hs as (_ & Ety & _ & _ & Egr & Esu).
    rewrite <- Esu, <- Egr, <- Ety.
    destruct (t_suppress a) eqn:Es; [apply IH; exact H|].
    assert (Hv : v1 = v2).
    { destruct Ev as [Ev|Ev]; [|exact Ev]. apply Hfree in Ev. unfold suppress_in in Ev. rewrite E1, Es in Ev. discriminate. }
    subst v2.
    assert (Hnf : free f1 = false).
    { destruct (free f1) eqn:Efr; [|reflexivity]. apply Hfree in Efr. unfold suppress_in in Efr. rewrite E1, Es in Efr. discriminate. }
    destruct (t_group a && has_group_count_c c f1 v1) eqn:Eg.
    + destruct (map_find f1 genc1) as [ge|] eqn:Em; [|discriminate].
      destruct ge as [gb| | | |]; try discriminate. cbn [bind] in H.
      destruct (enc_pos c fp1 genc1 p1) as [rb| | | |] eqn:Er; try discriminate. cbn [bind] in H.
      apply andb_true_iff in Eg. destruct Eg as [Eg _].
      rewrite (Hg f1 gb); [|left; reflexivity|unfold group_in; rewrite E1; exact Eg|exact Hnf|exact Em].
      cbn [bind]. rewrite (IH rb eq_refl). cbn [bind]. exact H.
    + destruct (enc_pos c fp1 genc1 p1) as [rb| | | |] eqn:Er; try discriminate. cbn [bind] in H.
      rewrite (IH rb eq_refl). cbn [bind]. exact H.
Qed.

(* the elements of a group *)
Definition enc_le (e e' : mbase) : Prop := forall c b, mb_encode c e = Ok b -> mb_encode c e' = Ok b.

Lemma enc_els_rel c els els' : Forall2 enc_le els els' ->
  forall r, enc_els c els = Ok r -> enc_els c els' = Ok r.
Proof.
  intros HF. induction HF as [|e e' els els' He HF IH]; intros r H; [exact H|].
  cbn [enc_els] in *. destruct (mb_encode c e) as [a| | | |] eqn:Ea; try discriminate. cbn [bind] in H.
  destruct (enc_els c els) as [b| | | |] eqn:Eb; try discriminate. cbn [bind] in H.
  rewrite (He c a Ea). cbn [bind]. rewrite (IH b eq_refl). cbn [bind]. exact H.
Qed.

(* building Forall2 from equal projections *)
Lemma Forall2_of_maps {A B C} (p1 : A -> C) (p2 : B -> C) (R : A -> B -> Prop) :
  forall l1 l2, map p1 l1 = map p2 l2 ->
  (forall a b, In a l1 -> In b l2 -> p1 a = p2 b -> R a b) -> Forall2 R l1 l2.
Proof.
  induction l1 as [|a l1 IH]; intros [|b l2] Hm HR; cbn [map] in Hm; try discriminate; constructor.
  - injection Hm as Hab _. apply HR; [left; reflexivity|left; reflexivity|exact Hab].
  - injection Hm as _ Hm. apply IH; [exact Hm|]. intros x y Hx Hy. apply HR; right; assumption.
Qed.

Lemma NoDup_map_inj {A B} (k : A -> B) l a b : NoDup (map k l) -> In a l -> In b l -> k a = k b -> a = b.
Proof.
  induction l as [|x l IH]; intros Hnd Ha Hb E; [destruct Ha|].
  cbn [map] in Hnd. inversion Hnd as [|? ? Hx Hl]; subst.
  destruct Ha as [->|Ha], Hb as [->|Hb].
  - reflexivity.
  - exfalso. apply Hx. rewrite E. apply in_map. exact Hb.
  - exfalso. apply Hx. rewrite <- E. apply in_map. exact Ha.
  - apply IH; assumption.
Qed.
