(* C11: Message::clone.  A clone of a message that satisfies clone_ok encodes to the bytes of the
   original (c11_clone_lemma). *)
From Coq Require Import NArith ZArith List Bool Lia.
From F8 Require Import Codec.Bytes Codec.Meta Codec.Extract Codec.Decode Codec.Encode C07.Chksum
                       C11.Copy C11.Spec_C11 C11.Hyp C11.ListLemmas C11.Unfold C11.EncRel C11.CopyProofs.
Import ListNotations.
Local Open Scope N_scope.

(* ------------------------------------------------------------------ set_value / clear_suppress *)
Lemma set_value_unfold fp subs fields pos groups unknown f v :
  set_value (MB fp subs fields pos groups unknown) f v = MB fp subs (map_set f v fields) (pos_set f v pos) groups unknown.
Proof. reflexivity. Qed.

Lemma set_value_acc m f v :
  mb_fp (set_value m f v) = mb_fp m /\ mb_fields (set_value m f v) = map_set f v (mb_fields m) /\
  mb_pos (set_value m f v) = pos_set f v (mb_pos m) /\ mb_groups (set_value m f v) = mb_groups m /\
  mb_unknown (set_value m f v) = mb_unknown m.
Proof. destruct m; cbn. repeat split. Qed.

Lemma clear_suppress_acc m g :
  mb_fp (clear_suppress m g) = upd_trait (set_suppress false) (mb_fp m) g /\ mb_fields (clear_suppress m g) = mb_fields m.
Proof. destruct m; cbn. split; reflexivity. Qed.

Lemma find_trait_upd_suppress v ts f h :
  find_trait (upd_trait (set_suppress v) ts f) h =
  if h =? f then option_map (set_suppress v) (find_trait ts f) else find_trait ts h.
Proof.
  induction ts as [|x r IH]; cbn [upd_trait find_trait].
  - destruct (h =? f); reflexivity.
  - destruct (t_fnum x =? f) eqn:E.
    + apply N.eqb_eq in E. cbn [find_trait set_suppress t_fnum]. rewrite E.
      destruct (f =? h) eqn:E2.
      * apply N.eqb_eq in E2. subst h. rewrite N.eqb_refl. reflexivity.
      * rewrite N.eqb_sym, E2. reflexivity.
    + cbn [find_trait]. destruct (t_fnum x =? h) eqn:E2.
      * apply N.eqb_eq in E2. subst h. rewrite E. reflexivity.
      * exact IH.
Qed.

Lemma same_static_clear a b g : same_static (mb_fp a) (mb_fp b) ->
  same_static (mb_fp (clear_suppress a g)) (mb_fp (clear_suppress b g)).
Proof.
  intros H h. destruct (clear_suppress_acc a g) as [-> _]. destruct (clear_suppress_acc b g) as [-> _].
  rewrite !find_trait_upd_suppress. specialize (H h). destruct (h =? g) eqn:E; [|exact H].
  apply N.eqb_eq in E. subst h.
  destruct (find_trait (mb_fp a) g) as [x|], (find_trait (mb_fp b) g) as [y|]; cbn [option_map]; try exact H.
  destruct x, y; cbn in *. injection H as -> -> -> -> -> -> -> -> -> ->. reflexivity.
Qed.

Lemma same_static_set_value a b f v w : same_static (mb_fp a) (mb_fp b) ->
  same_static (mb_fp (set_value a f v)) (mb_fp (set_value b f w)).
Proof. intros H. destruct (set_value_acc a f v) as [-> _]. destruct (set_value_acc b f w) as [-> _]. exact H. Qed.

Lemma part_type_static c a b f : same_static (mb_fp a) (mb_fp b) -> part_type c a f = part_type c b f.
Proof.
  intros H. unfold part_type. specialize (H f).
  destruct (find_trait (mb_fp a) f) as [x|], (find_trait (mb_fp b) f) as [y|]; [|destruct H|destruct H|reflexivity].
  apply static_fields in H. destruct H as (_ & -> & _). reflexivity.
Qed.

(* ------------------------------------------------------------------ pos_set keeps the pairing *)
Lemma entry_rel_weaken (free free' : N -> bool) : forall r1 r2,
  (forall a, In a r1 -> free (e_fnum a) = true -> free' (e_fnum a) = true) ->
  Forall2 (entry_rel free) r1 r2 -> Forall2 (entry_rel free') r1 r2.
Proof.
  intros r1 r2 H HF. induction HF as [|a b r1 r2 [Ef Ev] HF IH]; constructor.
  - split; [exact Ef|]. destruct Ev as [Ev|Ev]; [left; apply H; [left; reflexivity|exact Ev]|right; exact Ev].
  - apply IH. intros x Hx. apply H. right. exact Hx.
Qed.

Lemma pos_set_rel (free : N -> bool) g v : forall p1 p2,
  Forall2 (entry_rel free) p1 p2 -> NoDup (map e_fnum p1) ->
  Forall2 (entry_rel (fun f => free f && negb (f =? g))) (pos_set g v p1) (pos_set g v p2).
Proof.
  intros p1 p2 HF. induction HF as [|[k1 [f1 v1]] [k2 [f2 v2]] r1 r2 [Ef Ev] HF IH]; intros Hnd; [constructor|].
  unfold e_fnum, e_val in Ef, Ev. cbn [fst snd] in Ef, Ev. subst f2.
  cbn [map] in Hnd. inversion Hnd as [|? ? Hx Hr]; subst. unfold e_fnum at 1 in Hx. cbn [fst snd] in Hx.
  cbn [pos_set]. destruct (f1 =? g) eqn:E.
  - apply N.eqb_eq in E. subst g. constructor.
    + split; [reflexivity|right; reflexivity].
    + apply (entry_rel_weaken free); [|exact HF]. intros a Ha Hfa. rewrite Hfa. cbn [andb]. apply negb_true_iff.
      apply N.eqb_neq. intros Heq. apply Hx. rewrite <- Heq. apply in_map. exact Ha.
  - constructor.
    + split; [reflexivity|]. unfold e_fnum, e_val. cbn [fst snd]. destruct Ev as [Ev|Ev]; [left|right; exact Ev].
      rewrite Ev, E. reflexivity.
    + apply IH. exact Hr.
Qed.

Lemma pos_set_fnums g v p : map e_fnum (pos_set g v p) = map e_fnum p.
Proof.
  induction p as [|[k [f w]] r IH]; [reflexivity|]. cbn [pos_set]. destruct (f =? g); cbn [map]; [reflexivity|].
  rewrite IH. reflexivity.
Qed.

(* ------------------------------------------------------------------ header and trailer encode alike *)
Lemma owned_suppressed allow s t0 t : part_post s t0 t -> owned_ok allow s t0 = true ->
  forall f, present_in (mb_fp t0) f = true ->
  suppress_in (mb_fp s) f = true \/ (allow = true /\ f = Common_MsgType).
Proof.
  intros PP Ho f Hp. destruct (pp_owned _ _ _ PP f Hp) as [_ [e [He1 He2]]].
  unfold owned_ok in Ho. rewrite forallb_forall in Ho. specialize (Ho e He1). rewrite He2 in Ho.
  apply orb_true_iff in Ho. destruct Ho as [Ho|Ho]; [left; exact Ho|right].
  apply andb_true_iff in Ho. destruct Ho as [Ha Hb]. apply N.eqb_eq in Hb. split; assumption.
Qed.

Lemma trl_enc c s t0 t : part_post s t0 t -> owned_ok false s t0 = true ->
  forall b, mb_encode c s = Ok b -> mb_encode c t = Ok b.
Proof.
  intros PP Ho b. pose proof (pp_fp _ _ _ PP) as Hfp. pose proof (pp_pos _ _ _ PP) as Hpos.
  pose proof (pp_groups _ _ _ PP c) as Hg. pose proof (pp_unknown _ _ _ PP) as Hu.
  pose proof (pp_unknown_s _ _ _ PP) as Hus. pose proof (owned_suppressed false s t0 t PP Ho) as Hs.
  pose proof (pp_present _ _ _ PP) as Hpres.
  destruct s as [fp subs fields pos groups unknown]. destruct t as [fp' subs' fields' pos' groups' unknown'].
  cbn [mb_fp mb_pos mb_groups mb_unknown] in *. subst unknown unknown'.
  rewrite !mb_encode_unfold. intros H.
  destruct (enc_pos c fp (genc_of c groups) pos) as [bb| | | |] eqn:E; try discriminate.
  rewrite (enc_pos_rel c fp fp' (genc_of c groups) (genc_of c groups') (present_in (mb_fp t0)) Hfp) with (b := bb) (p1 := pos).
  - exact H.
  - intros f Hf. destruct (Hs f Hf) as [Hx|[Hx _]]; [exact Hx|discriminate].
  - exact Hpos.
  - intros f r Hin Hgi Hfr Hm. apply Hg; try assumption. apply Hpres. exact Hin.
  - exact E.
Qed.

Lemma hdr_enc c s t0 t ty : part_post s t0 t -> owned_ok true s t0 = true ->
  forall b, mb_encode c (set_value s Common_MsgType ty) = Ok b -> mb_encode c (set_value t Common_MsgType ty) = Ok b.
Proof.
  intros PP Ho b. pose proof (pp_fp _ _ _ PP) as Hfp. pose proof (pp_pos _ _ _ PP) as Hpos.
  pose proof (pp_groups _ _ _ PP c) as Hg. pose proof (pp_unknown _ _ _ PP) as Hu.
  pose proof (pp_unknown_s _ _ _ PP) as Hus. pose proof (owned_suppressed true s t0 t PP Ho) as Hs.
  pose proof (pp_nodup _ _ _ PP) as Hnd. pose proof (pp_owned _ _ _ PP) as Hown.
  pose proof (pp_present _ _ _ PP) as Hpres.
  destruct s as [fp subs fields pos groups unknown]. destruct t as [fp' subs' fields' pos' groups' unknown'].
  cbn [mb_fp mb_pos mb_groups mb_unknown] in *. subst unknown unknown'.
  rewrite !set_value_unfold, !mb_encode_unfold. intros H.
  destruct (enc_pos c fp (genc_of c groups) (pos_set Common_MsgType ty pos)) as [bb| | | |] eqn:E; try discriminate.
  rewrite (enc_pos_rel c fp fp' (genc_of c groups) (genc_of c groups')
             (fun f => present_in (mb_fp t0) f && negb (f =? Common_MsgType)) Hfp)
    with (b := bb) (p1 := pos_set Common_MsgType ty pos).
  - exact H.
  - intros f Hf. apply andb_true_iff in Hf. destruct Hf as [Hf1 Hf2]. apply negb_true_iff in Hf2. apply N.eqb_neq in Hf2.
    destruct (Hs f Hf1) as [Hx|[_ Hx]]; [exact Hx|contradiction].
  - apply pos_set_rel; assumption.
  - intros f r Hin Hgi Hfr Hm. apply Hg; [apply Hpres; rewrite <- (pos_set_fnums Common_MsgType ty); exact Hin|exact Hgi| |exact Hm].
    destruct (present_in (mb_fp t0) f) eqn:Ep; [|reflexivity].
    destruct (Hown f Ep) as [Hng _]. congruence.
  - exact E.
Qed.

(* ------------------------------------------------------------------ Message::encode depends on the parts only through ... *)
Lemma fields_after_set m f v g : g <> f -> map_find g (mb_fields (set_value m f v)) = map_find g (mb_fields m).
Proof.
  intros Hg. destruct (set_value_acc m f v) as (_ & -> & _). rewrite map_find_map_set.
  apply N.eqb_neq in Hg. rewrite Hg. reflexivity.
Qed.

Lemma msg_encode_parts_cong c m t :
  m_type t = m_type m ->
  (forall b, mb_encode c (set_value (m_hdr m) Common_MsgType (m_type m)) = Ok b ->
             mb_encode c (set_value (m_hdr t) Common_MsgType (m_type m)) = Ok b) ->
  (forall b, mb_encode c (m_body m) = Ok b -> mb_encode c (m_body t) = Ok b) ->
  (forall b, mb_encode c (m_trl m) = Ok b -> mb_encode c (m_trl t) = Ok b) ->
  same_static (mb_fp (m_hdr m)) (mb_fp (m_hdr t)) ->
  same_static (mb_fp (m_trl m)) (mb_fp (m_trl t)) ->
  map_find Common_BeginString (mb_fields (m_hdr m)) = map_find Common_BeginString (mb_fields (m_hdr t)) ->
  (map_find Common_BodyLength (mb_fields (m_hdr m)) <> None -> map_find Common_BodyLength (mb_fields (m_hdr t)) <> None) ->
  (map_find Common_CheckSum (mb_fields (m_trl m)) <> None -> map_find Common_CheckSum (mb_fields (m_trl t)) <> None) ->
  forall pre body cs m', msg_encode_parts c m = Ok (pre, body, cs, m') ->
  exists t', msg_encode_parts c t = Ok (pre, body, cs, t').
Proof.
  intros Hty Hh Hb Ht Sh St F8 F9 F10 pre body cs m' H.
  unfold msg_encode_parts in *. rewrite Hty.
  set (h0 := set_value (m_hdr m) Common_MsgType (m_type m)) in *.
  set (h0' := set_value (m_hdr t) Common_MsgType (m_type m)) in *.
  destruct (mb_encode c h0) as [hb| | | |] eqn:Eh; try discriminate. rewrite (Hh hb eq_refl). cbn [bind] in *.
  destruct (mb_encode c (m_body m)) as [bb| | | |] eqn:Eb; try discriminate. rewrite (Hb bb eq_refl). cbn [bind] in *.
  destruct (mb_encode c (m_trl m)) as [tb| | | |] eqn:Et; try discriminate. rewrite (Ht tb eq_refl). cbn [bind] in *.
  assert (S0 : same_static (mb_fp h0) (mb_fp h0')) by (apply same_static_set_value; exact Sh).
  assert (E8 : map_find Common_BeginString (mb_fields h0') = map_find Common_BeginString (mb_fields h0)).
  { unfold h0, h0'. rewrite !fields_after_set by discriminate. symmetry. exact F8. }
  rewrite E8. destruct (map_find Common_BeginString (mb_fields h0)) as [bsv|] eqn:Ebs; [|discriminate].
  set (h1 := clear_suppress h0 Common_BeginString) in *. set (h1' := clear_suppress h0' Common_BeginString) in *.
  assert (S1 : same_static (mb_fp h1) (mb_fp h1')) by (apply same_static_clear; exact S0).
  rewrite <- (part_type_static c h1 h1' Common_BeginString S1).
  assert (E9 : map_find Common_BodyLength (mb_fields h1) <> None -> map_find Common_BodyLength (mb_fields h1') <> None).
  { unfold h1, h1'. destruct (clear_suppress_acc h0 Common_BeginString) as [_ ->].
    destruct (clear_suppress_acc h0' Common_BeginString) as [_ ->].
    unfold h0, h0'. rewrite !fields_after_set by discriminate. exact F9. }
  destruct (map_find Common_BodyLength (mb_fields h1)) as [x9|] eqn:E9s; [|discriminate].
  destruct (map_find Common_BodyLength (mb_fields h1')) as [y9|] eqn:E9t; [|exfalso; apply E9; [discriminate|reflexivity]].
  set (h2 := clear_suppress h1 Common_BodyLength) in *. set (h2' := clear_suppress h1' Common_BodyLength) in *.
  assert (S2 : same_static (mb_fp h2) (mb_fp h2')) by (apply same_static_clear; exact S1).
  set (blv := itoa_Z (to_i32 (Z.of_N (lenN (hb ++ bb ++ tb))))) in *.
  assert (S3 : same_static (mb_fp (set_value h2 Common_BodyLength blv)) (mb_fp (set_value h2' Common_BodyLength blv)))
    by (apply same_static_set_value; exact S2).
  rewrite <- (part_type_static c _ _ Common_BodyLength S3).
  match type of H with (if ?X then _ else _) = _ => destruct X; [discriminate|] end.
  destruct (map_find Common_CheckSum (mb_fields (m_trl m))) as [x10|] eqn:E10s; [|discriminate].
  destruct (map_find Common_CheckSum (mb_fields (m_trl t))) as [y10|] eqn:E10t; [|exfalso; apply F10; [discriminate|reflexivity]].
  match type of H with match ?X with _ => _ end = _ => destruct X as [[ck rd]|]; [|discriminate] end.
  set (csv := fmt_chksum (Z.to_N ck)) in *.
  assert (S4 : same_static (mb_fp (clear_suppress (set_value (m_trl m) Common_CheckSum csv) Common_CheckSum))
                           (mb_fp (clear_suppress (set_value (m_trl t) Common_CheckSum csv) Common_CheckSum)))
    by (apply same_static_clear; apply same_static_set_value; exact St).
  rewrite <- (part_type_static c _ _ Common_CheckSum S4).
  injection H as <- <- <- _. eexists. reflexivity.
Qed.

(* ------------------------------------------------------------------ the theorem *)
Theorem c11_clone_lemma : forall c m md,
  find_msg (c_msgs c) (m_type m) = Some md -> clone_ok c md m = true ->
  forall b m1, msg_encode c m = Ok (b, m1) ->
  exists t m2, clone c m = Ok t /\ msg_encode c t = Ok (b, m2).
Proof.
  intros c m md Hfind Hok b m1 Henc.
  unfold clone_ok in Hok. rewrite !andb_true_iff in Hok.
  destruct Hok as [[[[[[Hb Hh] Ht] Hoh] Hot] H8] Hty].
  set (t0 := mk_message c md true) in *.
  destruct (copy_spec _ _ Hb) as [tb [Cb [EPb _]]].
  destruct (copy_part _ _ Hh) as (nh & th & Ch & PPh).
  destruct (copy_part _ _ Ht) as (nt & ttr & Ct & PPt).
  apply list_eqb_eq in Hty.
  unfold clone. rewrite Hfind. fold t0. rewrite Cb. cbn [bind]. rewrite Ch. cbn [bind]. rewrite Ct. cbn [bind snd].
  set (tm := mkMsg (m_type t0) th tb ttr).
  unfold msg_encode in *.
  destruct (msg_encode_parts c m) as [[[[pre body] cs] m']| | | |] eqn:Ep; try discriminate.
  cbn [bind] in Henc. injection Henc as <- <-.
  destruct (msg_encode_parts_cong c m tm) with (pre := pre) (body := body) (cs := cs) (m' := m') as [t' Ht'].
  - cbn [tm m_type]. unfold t0, mk_message. cbn [m_type]. symmetry. exact Hty.
  - cbn [tm m_hdr]. intros b0. apply (hdr_enc c _ _ _ _ PPh Hoh).
  - cbn [tm m_body]. intros b0. apply EPb.
  - cbn [tm m_trl]. intros b0. apply (trl_enc c _ _ _ PPt Hot).
  - exact (pp_fp _ _ _ PPh).
  - exact (pp_fp _ _ _ PPt).
  - cbn [tm m_hdr]. rewrite (pp_fields _ _ _ PPh). unfold same_field in H8.
    destruct (present_in (mb_fp (m_hdr t0)) Common_BeginString); [|reflexivity].
    destruct (map_find Common_BeginString (mb_fields (m_hdr m))) as [v|],
             (map_find Common_BeginString (mb_fields (m_hdr t0))) as [w|]; try discriminate; [|reflexivity].
    apply list_eqb_eq in H8. subst w. reflexivity.
  - exact (pp_has _ _ _ PPh Common_BodyLength).
  - exact (pp_has _ _ _ PPt Common_CheckSum).
  - exact Ep.
  - exists tm, t'. split; [reflexivity|]. rewrite Ht'. reflexivity.
Qed.
