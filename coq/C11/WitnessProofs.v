(* C11: kernel-checked witnesses (vm_compute on closed examples) for the refutation and
   non-vacuity theorems of Props/Properties_C11.v. *)
From Coq Require Import NArith ZArith List Bool.
From F8 Require Import Codec.Bytes Codec.Meta Codec.Extract Codec.Decode Codec.Encode Codec.Render Codec.Example
                       C11.Copy C11.CopyOrig C11.Spec_C11 C11.Hyp C11.Examples.
Import ListNotations.
Local Open Scope N_scope.

(* a message decoded from valid but out-of-schema-order input: the decoder files the fields under
   their ARRIVAL index, encode walks _pos, so the original re-encodes in arrival order; the clone is
   filed under the target's schema positions and encodes in schema order *)
Lemma c11_clone_arrival_order_refuted_lemma :
  exists c bytes m,
    decoded c bytes = Some m /\ enc_of c m = bytes /\ clone_enc c m <> [] /\ clone_enc c m <> enc_of c m.
Proof.
  exists ex_ctx, hb_shuffled_bytes.
  destruct (decoded ex_ctx hb_shuffled_bytes) as [m|] eqn:E; [|vm_compute in E; discriminate].
  exists m. split; [reflexivity|].
  vm_compute in E. injection E as <-.
  split; [vm_compute; reflexivity|]. split; vm_compute; discriminate.
Qed.

(* two fields whose traits lack the position bit share the _pos key 0: the original emits them in
   insertion order, the clone in trait-table order *)
Lemma c11_clone_equal_positions_refuted_lemma :
  exists c m, enc_of c m <> [] /\ clone_enc c m <> [] /\ clone_enc c m <> enc_of c m.
Proof. exists ex_ctx_u, (hb_user 9999 9991). repeat split; vm_compute; discriminate. Qed.

(* pass-through bytes (_unknown) are not transferred *)
Lemma c11_clone_unknown_refuted_lemma :
  exists c m, enc_of c m <> [] /\ clone_enc c m <> [] /\ clone_enc c m <> enc_of c m.
Proof. exists ex_ctx, hb_unknown. repeat split; vm_compute; discriminate. Qed.

(* repaired in /repo 1eb9e00 (found by this check: move_legal dereferenced _groups.find(fnum) == end()):
   a decoded message whose group count is 0 has no group object; it satisfies clone_ok, and moving
   it now succeeds and gives a target that encodes like the source *)
Lemma c11_move_zero_count_repaired_lemma :
  exists c bytes m md, decoded_nock c bytes = Some m /\ find_msg (c_msgs c) (m_type m) = Some md /\
                       clone_ok c md m = true /\ map_find 73 (mb_groups (m_body m)) = None /\
                       exists nb nh nt t k, move_msg c m = Ok (nb, nh, nt, t, k) /\
                                            enc_of c t = enc_of c m /\ enc_of c m <> [].
Proof.
  exists ex_ctx, list_zero_bytes.
  destruct (decoded_nock ex_ctx list_zero_bytes) as [m|] eqn:E; [|vm_compute in E; discriminate].
  exists m, md_list. split; [reflexivity|].
  vm_compute in E. injection E as <-. split; [vm_compute; reflexivity|]. split; [vm_compute; reflexivity|].
  split; [vm_compute; reflexivity|].
  match goal with |- exists nb nh nt t k, move_msg ?c ?m = _ /\ _ =>
    destruct (move_msg c m) as [[[[[nb nh] nt] t] k]| | | |] eqn:Em; try (vm_compute in Em; discriminate) end.
  exists nb, nh, nt, t, k. split; [reflexivity|]. vm_compute in Em. injection Em as <- <- <- <- <-.
  split; [vm_compute; reflexivity|vm_compute; discriminate].
Qed.

(* the hypotheses hold of a message with two group elements, the second with two nested elements,
   all fields inserted out of schema order through the API, and of a message decoded from in-order
   bytes; the clones encode to the originals' bytes *)
Lemma c11_nonvacuous_lemma :
  clone_ok ex_ctx md_list ex_list = true /\ clone_enc ex_ctx ex_list = enc_of ex_ctx ex_list /\
  enc_of ex_ctx ex_list <> [] /\
  exists m, decoded ex_ctx hb_inorder_bytes = Some m /\ clone_ok ex_ctx md_hb m = true /\
            clone_enc ex_ctx m = hb_inorder_bytes.
Proof.
  split; [vm_compute; reflexivity|]. split; [vm_compute; reflexivity|]. split; [vm_compute; discriminate|].
  destruct (decoded ex_ctx hb_inorder_bytes) as [m|] eqn:E; [|vm_compute in E; discriminate].
  exists m. split; [reflexivity|]. vm_compute in E. injection E as <-. split; vm_compute; reflexivity.
Qed.

(* the hypotheses of the copy_legal / move_legal theorems hold of the body of that message (two
   elements, the second with two nested elements) against a fresh deep object of its class *)
Lemma c11_nonvacuous_parts_lemma :
  src_ok (m_body ex_list) (create_group ex_body true) = true /\
  move_ok (m_body ex_list) (create_group ex_body true) = true /\
  count_fields (obj_of (m_body ex_list)) = 11.
Proof. repeat split; vm_compute; reflexivity. Qed.

(* repaired in /repo 198b3ea (found by this check: copy_legal dereferenced to->find_group(fnum) ==
   nullptr): the deep-constructed target header does not pre-create the group (FIX44 NoHops); the
   message satisfies clone_ok and its clone now encodes to the original's bytes *)
Lemma c11_clone_missing_target_group_lemma :
  clone_ok ex_ctx_h md_hb hb_hops = true /\
  mb_groups (m_hdr (mk_message ex_ctx_h md_hb true)) = [] /\
  clone_enc ex_ctx_h hb_hops = enc_of ex_ctx_h hb_hops /\ enc_of ex_ctx_h hb_hops <> [].
Proof. repeat split; vm_compute; (reflexivity || discriminate). Qed.

(* move_legal into a SHALLOW-constructed target (no group object for 73): the hypotheses hold, the
   source's group object is added to the target (the branch taken when to->find_group() is null) *)
Lemma c11_move_shallow_nonvacuous_lemma :
  move_ok (m_body ex_list) (create_group ex_body false) = true /\
  mb_groups (create_group ex_body false) = [] /\
  exists t k, move_legal false (m_body ex_list) (create_group ex_body false) = Ok (3, t, k) /\
              map_find 73 (mb_groups t) = map_find 73 (mb_groups (m_body ex_list)) /\
              map_find 73 (mb_groups (m_body ex_list)) = Some [ex_order1; ex_order2] /\
              mb_encode ex_ctx t = mb_encode ex_ctx (m_body ex_list).
Proof.
  split; [vm_compute; reflexivity|]. split; [reflexivity|].
  destruct (move_legal false (m_body ex_list) (create_group ex_body false)) as [[[n t] k]| | | |] eqn:E;
    try (vm_compute in E; discriminate).
  exists t, k. vm_compute in E. injection E as <- <- <-. repeat split; vm_compute; reflexivity.
Qed.

(* ------------------------------------------------------------------ the code before the repairs *)
(* ORIGINAL move_legal: _groups.find(fnum) == end() dereferenced for a decoded message whose group
   count is 0 (and which satisfies every hypothesis of the clone theorem) *)
Lemma c11_move_missing_group_orig_refuted_lemma :
  exists c bytes m md, decoded_nock c bytes = Some m /\ find_msg (c_msgs c) (m_type m) = Some md /\
                       clone_ok c md m = true /\ move_msg_orig c m = OOB site_groups_end.
Proof.
  exists ex_ctx, list_zero_bytes.
  destruct (decoded_nock ex_ctx list_zero_bytes) as [m|] eqn:E; [|vm_compute in E; discriminate].
  exists m, md_list. split; [reflexivity|].
  vm_compute in E. injection E as <-. repeat split; vm_compute; reflexivity.
Qed.

(* ORIGINAL copy_legal: to->find_group(fnum) == nullptr dereferenced when the deep-constructed target
   header does not pre-create the group; the original encodes fine, clone() crashed *)
Lemma c11_clone_target_group_orig_refuted_lemma :
  exists c m, enc_of c m <> [] /\ clone_orig c m = OOB site_target_group.
Proof. exists ex_ctx_h, hb_hops. split; [vm_compute; discriminate|vm_compute; reflexivity]. Qed.
