(* C11: move_legal into a fresh empty target.  The field part of the loop (trait bits, _fields,
   _pos of the target) is that of copy_legal on the source stripped of its groups: the two loops
   are run side by side (Sim), so the invariant of CopyProofs is reused; the group part and the
   emptied source are described by MI. *)
From Coq Require Import NArith ZArith List Bool Lia.
From F8 Require Import Codec.Bytes Codec.Meta Codec.Extract Codec.Decode Codec.Encode
                       C11.Copy C11.Spec_C11 C11.Hyp C11.ListLemmas C11.Unfold C11.EncRel C11.CopyProofs C11.CountProofs.
Import ListNotations.
Local Open Scope N_scope.

Lemma map_find_map_insert {A} k g (v : A) l : map_find k l = None ->
  map_find g (map_insert k v l) = if g =? k then Some v else map_find g l.
Proof.
  induction l as [|[q z] r IH]; intros Hn; cbn [map_insert map_find].
  - destruct (g =? k); reflexivity.
  - cbn [map_find] in Hn. destruct (k =? q) eqn:Ekq; [discriminate|].
    destruct (k <? q).
    + cbn [map_find]. destruct (g =? k); reflexivity.
    + cbn [map_find]. destruct (g =? q) eqn:Egq.
      * apply N.eqb_eq in Egq. subst q. destruct (g =? k) eqn:Egk; [|reflexivity].
        apply N.eqb_eq in Egk. subst k. rewrite N.eqb_refl in Ekq. discriminate.
      * apply IH. exact Hn.
Qed.

Lemma map_insert_keys_set {A} k (v : A) l : map fst (map_set k v l) = map fst l.
Proof. apply map_set_keys. Qed.

(* the parts of an object that add_field reads and writes *)
Definition core (t : mbase) := (mb_fp t, mb_subs t, mb_fields t, mb_pos t, mb_unknown t).

Lemma add_field_core a b f v a' : core a = core b -> add_field a f v = Ok a' ->
  exists b', add_field b f v = Ok b' /\ core a' = core b' /\ mb_groups b' = mb_groups b.
Proof.
  destruct a as [fp1 su1 fi1 po1 gr1 un1], b as [fp2 su2 fi2 po2 gr2 un2]. unfold core. cbn [mb_fp mb_subs mb_fields mb_pos mb_unknown].
  intros E. injection E as <- <- <- <- <-. unfold add_field. cbn [mb_fp].
  destruct (find_trait fp1 f) as [tr|]; [|discriminate].
  destruct (t_present tr).
  - intros H. injection H as <-. eexists. split; [reflexivity|]. unfold replace_field. cbn [mb_fields mb_pos].
    destruct (map_find _ fi1); [|split; reflexivity]. destruct (pos_remove _ po1) as [k0 l0]. split; reflexivity.
  - intros H. injection H as <-. eexists. split; [reflexivity|]. split; reflexivity.
Qed.

Section Move.
Variables s t0 : mbase.
Hypothesis LF : loc_facts s t0.
Hypothesis TF : tgt_facts s t0.
Hypothesis Hnp : forall f, present_in (mb_fp t0) f = false.
Hypothesis Hf0 : mb_fields t0 = [].
Hypothesis HG2 : forall f els, In (f, els) (mb_groups s) -> els = [] \/ (present_in (mb_fp s) f = true /\ group_in (mb_fp s) f = true).

(* the source without its groups: what copy_legal is run on *)
Definition s' : mbase := with_groups s [].

Lemma s'_acc : mb_fp s' = mb_fp s /\ mb_fields s' = mb_fields s /\ mb_pos s' = mb_pos s /\
               mb_groups s' = [] /\ mb_unknown s' = mb_unknown s.
Proof. unfold s'. destruct s; cbn. repeat split. Qed.

Lemma LF' : loc_facts s' t0.
Proof.
  destruct s'_acc as (E1 & E2 & E3 & E4 & E5). destruct LF.
  constructor; rewrite ?E1, ?E2, ?E3, ?E4, ?E5; try assumption. reflexivity.
Qed.

Lemma TF' : tgt_facts s' t0.
Proof.
  destruct s'_acc as (E1 & _). destruct TF. constructor; rewrite ?E1; assumption.
Qed.

Lemma GF' : grp_facts s' t0.
Proof. intros f els Hin. destruct s'_acc as (_ & _ & _ & E4 & _). rewrite E4 in Hin. destruct Hin. Qed.

Lemma HE' : forall f els, In (f, els) (mb_groups s') -> Forall elem_post els.
Proof. intros f els Hin. destruct s'_acc as (_ & _ & _ & E4 & _). rewrite E4 in Hin. destruct Hin. Qed.

Definition has_grp (f : N) : bool := is_some (map_find f (mb_groups s)).
Definition mg (done : list trait) (f : N) : bool := in_done done f && sel s' t0 f && group_in (mb_fp s) f && has_grp f.
Definition mf (done : list trait) (f : N) : bool := in_done done f && sel s' t0 f.

Definition Sim (cst : N * mbase) (mst : mstate) : Prop :=
  fst cst = ms_moved mst /\ core (snd cst) = core (ms_to mst).

Definition MI (done : list trait) (mst : mstate) : Prop :=
  (forall f, map_find f (mb_groups (ms_to mst)) =
             if mg done f then map_find f (mb_groups s) else map_find f (mb_groups t0)) /\
  (forall f, map_find f (ms_groups mst) =
             if mg done f then option_map (fun _ => None) (map_find f (mb_groups s))
             else option_map Some (map_find f (mb_groups s))) /\
  map fst (ms_groups mst) = map fst (mb_groups s) /\
  (forall f, map_find f (ms_fields mst) =
             if mf done f then option_map (fun _ => None) (map_find f (mb_fields s))
             else option_map Some (map_find f (mb_fields s))) /\
  map fst (ms_fields mst) = map fst (mb_fields s).

Lemma wants_sel done pp rest n t :
  mb_fp s = done ++ pp :: rest -> Inv s' t0 done (n, t) ->
  wants false pp t = sel s' t0 (t_fnum pp) /\ in_done done (t_fnum pp) = false /\
  find_trait (mb_fp s) (t_fnum pp) = Some pp.
Proof.
  intros Hfp (I1 & _). cbn [snd] in I1. destruct s'_acc as (E1 & _).
  set (f := t_fnum pp).
  assert (Hin : In pp (mb_fp s)) by (rewrite Hfp; apply in_or_app; right; left; reflexivity).
  pose proof (NoDup_fnums s t0 LF) as Hnd0.
  assert (Hfind : find_trait (mb_fp s) f = Some pp) by (apply In_find_trait; assumption).
  assert (Hnd : in_done done f = false).
  { pose proof Hnd0 as Hnd. rewrite Hfp, map_app in Hnd. cbn [map] in Hnd.
    apply NoDup_remove_2 in Hnd. unfold in_done. destruct (existsb _ done) eqn:E; [|reflexivity].
    exfalso. apply existsb_exists in E. destruct E as [x [Hx1 Hx2]]. apply N.eqb_eq in Hx2.
    apply Hnd. apply in_or_app. left. fold f. rewrite <- Hx2. apply in_map. exact Hx1. }
  destruct (same_static_some _ _ _ _ (lf_static _ _ LF) Hfind) as [y [Hy1 Hy2]].
  assert (Htf : find_trait (mb_fp t) f = Some y).
  { rewrite I1, Hy1. unfold cp. rewrite Hnd. reflexivity. }
  split; [|split; assumption].
  unfold wants, sel, legal_absent. fold f. rewrite Htf, E1.
  rewrite (present_in_find _ _ _ Hfind), (present_in_find _ _ _ Hy1). reflexivity.
Qed.

Lemma mg_app done pp g : in_done done (t_fnum pp) = false ->
  mg (done ++ [pp]) g = if g =? t_fnum pp then sel s' t0 g && group_in (mb_fp s) g && has_grp g else mg done g.
Proof.
  intros Hnd. unfold mg. rewrite in_done_app. destruct (g =? t_fnum pp) eqn:E.
  - apply N.eqb_eq in E. subst g. rewrite N.eqb_refl, orb_true_r. reflexivity.
  - rewrite N.eqb_sym, E, orb_false_r. reflexivity.
Qed.

Lemma mf_app done pp g : in_done done (t_fnum pp) = false ->
  mf (done ++ [pp]) g = if g =? t_fnum pp then sel s' t0 g else mf done g.
Proof.
  intros Hnd. unfold mf. rewrite in_done_app. destruct (g =? t_fnum pp) eqn:E.
  - apply N.eqb_eq in E. subst g. rewrite N.eqb_refl, orb_true_r. reflexivity.
  - rewrite N.eqb_sym, E, orb_false_r. reflexivity.
Qed.

Lemma sim_step done pp rest cst mst :
  mb_fp s = done ++ pp :: rest -> Inv s' t0 done cst -> Sim cst mst -> MI done mst ->
  exists cst' mst',
    copy_step false (mb_fields s') (gcopy_of false (mb_groups s')) pp cst = Ok cst' /\
    move_step false pp mst = Ok mst' /\
    Inv s' t0 (done ++ [pp]) cst' /\ Sim cst' mst' /\ MI (done ++ [pp]) mst'.
Proof.
  intros Hfp HI [Hs1 Hs2] (M1 & M2 & M3 & M4 & M5).
  destruct s'_acc as (E1 & E2 & E3 & E4 & E5).
  assert (Hfp' : mb_fp s' = done ++ pp :: rest) by (rewrite E1; exact Hfp).
  destruct (step_inv s' t0 LF' TF' GF' HE' done pp rest cst Hfp' HI) as [cst' [Hc HI']].
  destruct cst as [n t]. destruct (wants_sel done pp rest n t Hfp HI) as (Hw & Hnd & Hfind).
  set (f := t_fnum pp) in *. pose proof Hc as Hc0.
  exists cst'. unfold copy_step in Hc. cbn [snd] in Hc. rewrite Hw in Hc.
  unfold move_step. fold f.
  assert (Hwm : wants false pp (ms_to mst) = sel s' t0 f).
  { rewrite <- Hw. unfold wants, legal_absent. cbn [snd] in Hs2. unfold core in Hs2. injection Hs2 as Hfpe _ _ _ _. rewrite Hfpe. reflexivity. }
  rewrite Hwm.
  destruct (sel s' t0 f) eqn:Esel.
  2:{ (* nothing happens *)
    injection Hc as <-. exists mst. split; [exact Hc0|]. split; [reflexivity|]. split; [exact HI'|]. split; [split; assumption|].
    unfold MI. repeat split; try assumption.
    - intros g. rewrite mg_app by exact Hnd. fold f. destruct (g =? f) eqn:E; [|apply M1].
      apply N.eqb_eq in E. subst g. rewrite Esel. cbn [andb]. rewrite M1. unfold mg. rewrite Hnd. reflexivity.
    - intros g. rewrite mg_app by exact Hnd. fold f. destruct (g =? f) eqn:E; [|apply M2].
      apply N.eqb_eq in E. subst g. rewrite Esel. cbn [andb]. rewrite M2. unfold mg. rewrite Hnd. reflexivity.
    - intros g. rewrite mf_app by exact Hnd. fold f. destruct (g =? f) eqn:E; [|apply M4].
      apply N.eqb_eq in E. subst g. rewrite Esel. rewrite M4. unfold mf. rewrite Hnd. reflexivity. }
  (* the copy side: no group work, then the field *)
  rewrite E4 in Hc. unfold copy_group in Hc. cbn [gcopy_of map map_find] in Hc.
  replace (if t_group pp then Ok (n, t) else Ok (n, t)) with (@Ok (N * mbase) (n, t)) in Hc by (destruct (t_group pp); reflexivity).
  cbn [bind fst snd] in Hc. fold f in Hc. rewrite E2 in Hc.
  destruct (map_find f (mb_fields s)) as [v|] eqn:Ev; [|discriminate].
  unfold put_field in Hc. destruct (add_field t f v) as [t2| | | |] eqn:Ea; try discriminate.
  cbn [bind] in Hc. injection Hc as <-.
  assert (Hps : present_in (mb_fp s) f = true).
  { unfold sel in Esel. apply andb_true_iff in Esel. rewrite E1 in Esel. tauto. }
  assert (Hpp : t_present pp = true) by (rewrite <- (present_in_find _ _ _ Hfind); exact Hps).
  assert (Hin : In pp (mb_fp s)) by (rewrite Hfp; apply in_or_app; right; left; reflexivity).
  (* the move side: the group *)
  assert (Hmg : exists st1, move_group pp mst = Ok st1 /\ ms_moved st1 = ms_moved mst /\
                core (ms_to st1) = core (ms_to mst) /\ ms_fields st1 = ms_fields mst /\
                (forall g, map_find g (mb_groups (ms_to st1)) =
                           if (g =? f) && t_group pp && has_grp f then map_find f (mb_groups s) else map_find g (mb_groups (ms_to mst))) /\
                (forall g, map_find g (ms_groups st1) =
                           if (g =? f) && t_group pp && has_grp f then option_map (fun _ => None) (map_find f (mb_groups s))
                           else map_find g (ms_groups mst)) /\
                map fst (ms_groups st1) = map fst (ms_groups mst)).
  { unfold move_group. fold f. destruct (t_group pp) eqn:Egp.
    2:{ exists mst. repeat split; try reflexivity; intros g; rewrite andb_false_r; reflexivity. }
    unfold has_grp. destruct (map_find f (mb_groups s)) as [els|] eqn:Hels.
    2:{ (* no group object in the source: nothing is handed over *)
      rewrite M2. unfold mg. rewrite Hnd. cbn [andb]. rewrite Hels. cbn [option_map].
      exists mst. repeat split; try reflexivity; intros g; cbn [is_some]; rewrite andb_false_r; reflexivity. }
    rewrite M2. unfold mg. rewrite Hnd. cbn [andb]. rewrite Hels. cbn [option_map is_some].
    eexists. split; [reflexivity|]. cbn [ms_moved ms_to ms_fields ms_groups].
    split; [reflexivity|]. split.
    { destruct (map_find f (mb_groups (ms_to mst))); destruct (ms_to mst); reflexivity. }
    split; [reflexivity|]. split; [|split].
    - intros g. rewrite !andb_true_r.
      destruct (map_find f (mb_groups (ms_to mst))) as [x|] eqn:Ex.
      + destruct (with_groups_acc (ms_to mst) (map_set f els (mb_groups (ms_to mst)))) as (_ & _ & _ & _ & _ & ->).
        rewrite map_find_map_set, Ex. destruct (g =? f); reflexivity.
      + destruct (with_groups_acc (ms_to mst) (map_insert f els (mb_groups (ms_to mst)))) as (_ & _ & _ & _ & _ & ->).
        rewrite map_find_map_insert by exact Ex. destruct (g =? f); reflexivity.
    - intros g. rewrite !andb_true_r, map_find_map_set, M2. unfold mg. rewrite Hnd. cbn [andb]. rewrite Hels.
      destruct (g =? f); reflexivity.
    - apply map_set_keys. }
  destruct Hmg as (st1 & Hm1 & G1 & G2 & G3 & G4 & G5 & G6).
  rewrite Hm1. cbn [bind]. rewrite G3, M4. unfold mf. rewrite Hnd. cbn [andb]. rewrite Ev. cbn [option_map].
  assert (Hcore : core t = core (ms_to st1)) by (rewrite G2; exact Hs2).
  destruct (add_field_core t (ms_to st1) f v t2 Hcore Ea) as (b' & Hb1 & Hb2 & Hb3).
  unfold put_field. rewrite Hb1. cbn [bind].
  eexists. split; [exact Hc0|]. split; [reflexivity|]. split; [exact HI'|]. split.
  { split; cbn [fst snd ms_moved ms_to]; [rewrite G1; cbn [fst] in Hs1; rewrite Hs1; reflexivity|exact Hb2]. }
  unfold MI. cbn [ms_to ms_groups ms_fields]. rewrite Hb3.
  assert (Hgi : group_in (mb_fp s) f = t_group pp) by (unfold group_in; rewrite Hfind; reflexivity).
  repeat split.
  - intros g. rewrite G4, mg_app by exact Hnd. fold f. destruct (g =? f) eqn:E.
    + apply N.eqb_eq in E. subst g. rewrite Esel, Hgi. cbn [andb]. destruct (t_group pp && has_grp f); [reflexivity|].
      rewrite M1. unfold mg. rewrite Hnd. reflexivity.
    + cbn [andb]. apply M1.
  - intros g. rewrite G5, mg_app by exact Hnd. fold f. destruct (g =? f) eqn:E.
    + apply N.eqb_eq in E. subst g. rewrite Esel, Hgi. cbn [andb]. destruct (t_group pp && has_grp f); [reflexivity|].
      rewrite M2. unfold mg. rewrite Hnd. reflexivity.
    + cbn [andb]. apply M2.
  - rewrite G6. exact M3.
  - intros g. rewrite map_find_map_set, mf_app by exact Hnd. fold f. destruct (g =? f) eqn:E.
    + apply N.eqb_eq in E. subst g. rewrite Esel, M4. unfold mf. rewrite Hnd. cbn [andb]. rewrite Ev. reflexivity.
    + apply M4.
  - rewrite map_set_keys. exact M5.
Qed.

Lemma sim_fold : forall rest done cst mst,
  mb_fp s = done ++ rest -> Inv s' t0 done cst -> Sim cst mst -> MI done mst ->
  exists cst' mst',
    fold_res (move_step false) rest mst = Ok mst' /\
    Inv s' t0 (mb_fp s) cst' /\ Sim cst' mst' /\ MI (mb_fp s) mst'.
Proof.
  induction rest as [|pp rest IH]; intros done cst mst Hfp HI HS HM.
  - rewrite app_nil_r in Hfp. rewrite Hfp. exists cst, mst. split; [reflexivity|]. split; [exact HI|]. split; [exact HS|exact HM].
  - destruct (sim_step done pp rest cst mst Hfp HI HS HM) as (cst1 & mst1 & _ & Hm & HI1 & HS1 & HM1).
    cbn [fold_res]. rewrite Hm. cbn [bind]. apply (IH (done ++ [pp]) cst1 mst1); try assumption.
    rewrite <- app_assoc. exact Hfp.
Qed.

End Move.

(* ------------------------------------------------------------------ the theorem *)
Lemma fields_keys s t0 : loc_facts s t0 -> map fst (mb_fields s) = map t_fnum (filter t_present (mb_fp s)).
Proof.
  intros LF. apply (strict_unique (fun x => x)).
  - rewrite map_id. exact (lf_fstrict _ _ LF).
  - rewrite map_id. apply strictN_map_filter. exact (lf_strict _ _ LF).
  - intros f. split; intros Hin.
    + apply in_map_iff in Hin. destruct Hin as [[f' v] [<- Hin]]. pose proof (lf_fpres _ _ LF _ Hin) as Hp.
      cbn [fst] in *. unfold present_in in Hp. destruct (find_trait (mb_fp s) f') as [tr|] eqn:Et; [|discriminate].
      destruct (find_trait_In _ _ _ Et) as [Hi Hf]. apply in_map_iff. exists tr. split; [exact Hf|].
      apply filter_In. split; assumption.
    + apply in_map_iff in Hin. destruct Hin as [tr [<- Hin]]. apply filter_In in Hin. destruct Hin as [Hi Hp].
      assert (Hpi : present_in (mb_fp s) (t_fnum tr) = true).
      { rewrite (present_in_find _ _ _ (In_find_trait _ _ (NoDup_fnums s t0 LF) Hi)). exact Hp. }
      destruct (present_value s t0 LF _ Hpi) as [v Hv]. apply map_find_In in Hv.
      apply in_map_iff. exists (t_fnum tr, v). split; [reflexivity|exact Hv].
Qed.

Lemma map_find_map_some {A} f (l : list (N * A)) :
  map_find f (map (fun e => (fst e, Some (snd e))) l) = option_map Some (map_find f l).
Proof.
  induction l as [|[k v] r IH]; [reflexivity|]. cbn [map map_find fst snd]. destruct (f =? k); [reflexivity|exact IH].
Qed.

Lemma count_present fp :
  fold_right (fun tr acc => nf_trait [] tr + acc) 0 fp = N.of_nat (length (filter t_present fp)).
Proof.
  induction fp as [|tr fp IH]; [reflexivity|]. cbn [fold_right filter]. rewrite IH. unfold nf_trait.
  destruct (t_present tr); [|reflexivity]. cbn [map_find length]. destruct (t_group tr); lia.
Qed.

Theorem c11_move_legal_lemma : forall s t0, move_ok s t0 = true ->
  exists t k, move_legal false s t0 = Ok (top_fields (obj_of s), t, k) /\
    same_content (obj_of s) (obj_of t) = true /\
    (forall c b, mb_encode c s = Ok b -> mb_encode c t = Ok b) /\
    (* the moved-from source: present bits untouched, every _fields entry holds a null pointer,
       every group that belonged to a present group field too, _pos is empty (no component) *)
    hk_fp k = mb_fp s /\
    map fst (hk_fields k) = map fst (mb_fields s) /\
    (forall f, In f (map fst (mb_fields s)) -> map_find f (hk_fields k) = Some None) /\
    map fst (hk_groups k) = map fst (mb_groups s) /\
    (forall f els, map_find f (mb_groups s) = Some els ->
                   map_find f (hk_groups k) = Some (if group_owned (mb_fp s) f then None else Some els)).
Proof.
  intros s t0 H. unfold move_ok in H. rewrite !andb_true_iff in H. destruct H as [[Hl Ht] Hg2].
  pose proof (local_ok_facts s t0 Hl) as LF. pose proof (target_ok_tgt s t0 Ht) as TF.
  destruct (target_ok_facts t0 Ht) as (Hnp & Hf0 & Hp0 & Hgn & Hgs0 & Hu0).
  assert (HG2 : forall f els, In (f, els) (mb_groups s) -> els = [] \/ (present_in (mb_fp s) f = true /\ group_in (mb_fp s) f = true)).
  { intros f els Hin. rewrite forallb_forall in Hg2. specialize (Hg2 _ Hin). cbn [fst snd] in Hg2.
    apply orb_true_iff in Hg2. destruct Hg2 as [Hn|Ho]; [left; apply is_nil_eq; exact Hn|right].
    unfold group_owned in Ho. apply andb_true_iff in Ho. exact Ho. }
  destruct (s'_acc s t0 LF TF HG2) as (E1 & E2 & E3 & E4 & E5).
  set (mst0 := mkMS 0 t0 (map (fun e => (fst e, Some (snd e))) (mb_fields s)) (map (fun e => (fst e, Some (snd e))) (mb_groups s))).
  assert (HM0 : MI s t0 [] mst0).
  { unfold MI, mg, mf, in_done. cbn [existsb andb ms_to ms_groups ms_fields mst0]. repeat split.
    - intros f. apply map_find_map_some.
    - rewrite map_map. reflexivity.
    - intros f. apply map_find_map_some.
    - rewrite map_map. reflexivity. }
  assert (HS0 : Sim (0, t0) mst0) by (split; reflexivity).
  destruct (sim_fold s t0 LF TF HG2 (mb_fp s) [] (0, t0) mst0 eq_refl (inv_init (s' s) t0 (TF' s t0 LF TF HG2)) HS0 HM0)
    as ([n tc] & mst' & Hfold & HI & [Hs1 Hs2] & (M1 & M2 & M3 & M4 & M5)).
  cbn [fst snd] in Hs1, Hs2.
  pose proof (LF' s t0 LF TF HG2) as LFp. pose proof (TF' s t0 LF TF HG2) as TFp. pose proof (GF' s t0 LF TF HG2) as GFp.
  (* the copy twin: fields, table, positions *)
  assert (HI2 : Inv (s' s) t0 (mb_fp (s' s)) (n, tc)) by (rewrite E1; exact HI).
  pose proof (empty_fields (s' s) t0 LFp Hnp Hf0 n tc HI2) as Hfe. rewrite E2 in Hfe.
  pose proof (after_fp (s' s) t0 LFp n tc HI2) as Hfp. rewrite E1 in Hfp.
  pose proof (after_pos_rel (s' s) t0 LFp TFp n tc HI2) as Hpos. rewrite E3 in Hpos.
  pose proof (after_unknown (s' s) t0 TFp n tc HI2) as Hunk.
  pose proof (empty_count (s' s) t0 LFp TFp GFp Hnp n tc HI2) as Hcnt.
  set (t := ms_to mst') in *.
  unfold core in Hs2. injection Hs2 as C1 C2 C3 C4 C5.
  rewrite C1 in Hfp. rewrite C3 in Hfe. rewrite C4 in Hpos. rewrite C5 in Hunk. clear C1 C2 C3 C4 C5.
  (* which groups moved *)
  assert (Hmg : forall f, mg s t0 (mb_fp s) f = group_owned (mb_fp s) f && is_some (map_find f (mb_groups s))).
  { intros f. unfold mg, has_grp, group_owned, sel. rewrite E1, Hnp. cbn [negb]. rewrite andb_true_r. f_equal.
    destruct (present_in (mb_fp s) f) eqn:Ep; [|rewrite andb_false_r; reflexivity].
    rewrite andb_true_r. f_equal. unfold present_in in Ep.
    destruct (find_trait (mb_fp s) f) as [tr|] eqn:Et; [|discriminate]. destruct (find_trait_In _ _ _ Et) as [Hi Hf].
    unfold in_done. apply existsb_exists. exists tr. split; [exact Hi|apply N.eqb_eq; exact Hf]. }
  assert (Hmf : forall f, present_in (mb_fp s) f = true -> mf s t0 (mb_fp s) f = true).
  { intros f Ep. unfold mf, sel. rewrite E1, Hnp, Ep. cbn [negb andb]. rewrite andb_true_r. unfold present_in in Ep.
    destruct (find_trait (mb_fp s) f) as [tr|] eqn:Et; [|discriminate]. destruct (find_trait_In _ _ _ Et) as [Hi Hf].
    unfold in_done. apply existsb_exists. exists tr. split; [exact Hi|apply N.eqb_eq; exact Hf]. }
  exists t, (HK (mb_fp s) (ms_fields mst') (ms_groups mst') (mb_unknown s)).
  split; [|split; [|split; [|split; [|split; [|split; [|split]]]]]].
  - unfold move_legal. fold mst0. rewrite Hfold. cbn [bind]. f_equal. f_equal. f_equal.
    rewrite <- Hs1, Hcnt. unfold top_fields.
    destruct s as [fp subs fields pos groups unknown]. cbn [obj_of o_fields]. rewrite map_length.
    change (s' (MB fp subs fields pos groups unknown)) with (MB fp subs fields pos [] unknown).
    rewrite nfields_unfold, count_present.
    pose proof (fields_keys _ _ LF) as Hk. cbn [mb_fields mb_fp] in Hk.
    rewrite <- (map_length t_fnum), <- Hk, map_length. reflexivity.
  - (* content *)
    unfold same_content.
    assert (Hc : content (obj_of s) = content (obj_of t)); [|rewrite Hc; apply ctoks_eqb_refl].
    pose proof (lf_fpres _ _ LF) as Hfpres.
    destruct s as [fp subs fields pos groups unknown]. destruct t as [fp' subs' fields' pos' groups' unknown'] eqn:Et.
    cbn [mb_fp mb_fields mb_groups] in *. subst fields'. rewrite !content_obj_of.
    apply flat_map_ext_in. intros [f v] Hin. unfold field_toks. cbn [fst snd]. f_equal.
    specialize (M1 f). rewrite Hmg in M1. cbn [mb_groups] in M1. rewrite M1.
    specialize (Hfpres _ Hin). cbn [fst] in Hfpres. unfold group_owned. rewrite Hfpres. cbn [andb].
    assert (Ht0 : forall x l, map_find f (mb_groups t0) <> Some (x :: l)).
    { intros x l Hm. pose proof (Hgn _ (map_find_In _ _ _ Hm)) as Hn. discriminate. }
    destruct (group_in fp f) eqn:Eg.
    { destruct (map_find f groups) as [els|]; cbn [is_some andb]; [reflexivity|].
      destruct (map_find f (mb_groups t0)) as [[|y l']|]; try reflexivity. exfalso; eapply Ht0; reflexivity. }
    cbn [andb].
    assert (Hs0 : forall x l, map_find f groups <> Some (x :: l)).
    { intros x l Hm. destruct (HG2 _ _ (map_find_In _ _ _ Hm)) as [Hn|[_ Hn]]; [discriminate|congruence]. }
    destruct (map_find f groups) as [[|x l]|]; destruct (map_find f (mb_groups t0)) as [[|y l']|];
      try reflexivity; try (exfalso; eapply Hs0; reflexivity); try (exfalso; eapply Ht0; reflexivity).
  - (* encoding *)
    intros c b. pose proof (lf_unk _ _ LF) as Hus. pose proof (lf_entry _ _ LF) as Hent.
    destruct s as [fp subs fields pos groups unknown]. destruct t as [fp' subs' fields' pos' groups' unknown'] eqn:Et.
    cbn [mb_fp mb_pos mb_groups mb_unknown mb_fields] in *. subst unknown unknown'.
    rewrite !mb_encode_unfold. intros Henc.
    destruct (enc_pos c fp (genc_of c groups) pos) as [bb| | | |] eqn:E; try discriminate.
    rewrite (enc_pos_rel c fp fp' (genc_of c groups) (genc_of c groups') (present_in (mb_fp t0)) Hfp) with (b := bb) (p1 := pos).
    + exact Henc.
    + intros f Hf. rewrite Hnp in Hf. discriminate.
    + exact Hpos.
    + intros f r Hin Hgi _ Hm. rewrite map_find_genc in *. specialize (M1 f). rewrite Hmg in M1. cbn [mb_groups] in M1.
      rewrite M1. unfold group_owned. rewrite Hgi, andb_true_r.
      apply in_map_iff in Hin. destruct Hin as [e [He1 He2]]. destruct (Hent e He2) as [Hp _]. rewrite He1 in Hp.
      rewrite Hp. destruct (map_find f groups); [exact Hm|discriminate].
    + exact E.
  - reflexivity.
  - exact M5.
  - intros f Hin. cbn [hk_fields]. rewrite M4.
    apply in_map_iff in Hin. destruct Hin as [[f' v] [<- Hin]]. cbn [fst].
    pose proof (lf_fpres _ _ LF _ Hin) as Hp. cbn [fst] in Hp. rewrite (Hmf _ Hp).
    rewrite (In_map_find _ _ _ (strictN_NoDup _ (lf_fstrict _ _ LF)) Hin). reflexivity.
  - exact M3.
  - intros f els Hm. cbn [hk_groups]. rewrite M2, Hmg, Hm. cbn [is_some]. rewrite andb_true_r.
    destruct (group_owned (mb_fp s) f); reflexivity.
Qed.
