(* C11: the nested fixpoints (copy_legal, src_ok, mb_encode, obj_of / content, nfields) rewritten
   with List.map, and an induction principle for mbase that reaches the group elements. *)
From Coq Require Import NArith ZArith List Bool Lia.
From F8 Require Import Codec.Bytes Codec.Meta Codec.Extract Codec.Decode Codec.Encode
                       C11.Copy C11.Spec_C11 C11.Hyp C11.ListLemmas.
Import ListNotations.
Local Open Scope N_scope.

Lemma mbase_ind' (P : mbase -> Prop) :
  (forall fp subs fields pos groups unknown,
     Forall (fun g => Forall P (snd g)) groups -> P (MB fp subs fields pos groups unknown)) ->
  forall m, P m.
Proof.
  intros H. fix IH 1. intros [fp subs fields pos groups unknown]. apply H.
  induction groups as [|[f els] r IHr]; constructor; [|exact IHr].
  cbn [snd]. induction els as [|e els IHe]; constructor; [apply IH|exact IHe].
Qed.

(* ---- copy_legal *)
Definition gcopy_of (force : bool) (groups : list (N * list mbase)) : list (N * list elem_copier) :=
  map (fun g => (fst g, map (copy_legal force) (snd g))) groups.

Lemma copy_legal_unfold force fp subs fields pos groups unknown to :
  copy_legal force (MB fp subs fields pos groups unknown) to =
  fold_res (copy_step force fields (gcopy_of force groups)) fp (0, to).
Proof.
  cbn [copy_legal]. f_equal. f_equal.
  induction groups as [|[f els] r IH]; [reflexivity|].
  cbn [gcopy_of map fst snd]. f_equal. exact IH.
Qed.

Lemma map_find_gcopy force groups f :
  map_find f (gcopy_of force groups) = option_map (map (copy_legal force)) (map_find f groups).
Proof.
  induction groups as [|[g els] r IH]; [reflexivity|].
  cbn [gcopy_of map map_find fst snd]. destruct (f =? g); [reflexivity|exact IH].
Qed.

(* ---- src_ok *)
Definition group_ok (fp : list trait) (t0 : mbase) (g : N * list mbase) : bool :=
  (negb (group_in fp (fst g)) || is_some (find_sub (mb_subs t0) (fst g))) &&
  match snd g with
  | [] => true
  | els =>
    group_owned fp (fst g) &&
    match find_sub (mb_subs t0) (fst g) with
    | Some sg => forallb (fun e => src_ok e (create_group sg true)) els
    | None => false
    end
  end.

Lemma forallb_map {A B} (f : A -> B) (p : B -> bool) l : forallb p (map f l) = forallb (fun a => p (f a)) l.
Proof. induction l as [|x l IH]; [reflexivity|]. cbn [map forallb]. rewrite IH. reflexivity. Qed.

Lemma forallb_ext {A} (p q : A -> bool) l : (forall x, p x = q x) -> forallb p l = forallb q l.
Proof. intros H. induction l as [|x l IH]; [reflexivity|]. cbn [forallb]. rewrite H, IH. reflexivity. Qed.

Lemma src_ok_unfold fp subs fields pos groups unknown t0 :
  src_ok (MB fp subs fields pos groups unknown) t0 =
  local_ok (MB fp subs fields pos groups unknown) t0 && target_ok t0 && forallb (group_ok fp t0) groups.
Proof.
  cbn [src_ok]. f_equal.
  set (sub := (fix gl (gs : list (N * list mbase)) : list (N * list (mbase -> bool)) := _) groups).
  assert (Hs : sub = map (fun g => (fst g, map src_ok (snd g))) groups).
  { subst sub. induction groups as [|[f els] r IH]; [reflexivity|]. cbn [map fst snd]. f_equal. exact IH. }
  rewrite Hs. rewrite forallb_map. apply forallb_ext. intros [f els]. unfold group_ok. cbn [fst snd].
  f_equal. destruct els as [|e els]; [reflexivity|]. cbn [map]. f_equal.
  destruct (find_sub (mb_subs t0) f); [|reflexivity].
  change (src_ok e :: map src_ok els) with (map src_ok (e :: els)). rewrite forallb_map. reflexivity.
Qed.

(* ---- mb_encode *)
Fixpoint enc_els (c : ctx) (es : list mbase) : res (list N) :=
  match es with
  | [] => Ok []
  | e :: r => bind (mb_encode c e) (fun a => bind (enc_els c r) (fun b => Ok (a ++ b)))
  end.
Definition genc_of (c : ctx) (groups : list (N * list mbase)) : list (N * res (list N)) :=
  map (fun g => (fst g, enc_els c (snd g))) groups.

Lemma mb_encode_unfold c fp subs fields pos groups unknown :
  mb_encode c (MB fp subs fields pos groups unknown) =
  bind (enc_pos c fp (genc_of c groups) pos) (fun b => Ok (b ++ unknown)).
Proof.
  cbn [mb_encode]. f_equal. f_equal.
  induction groups as [|[f els] r IH]; [reflexivity|].
  cbn [genc_of map fst snd]. f_equal; [|exact IH]. f_equal.
  induction els as [|e els IHe]; [reflexivity|]. cbn [enc_els]. rewrite <- IHe. reflexivity.
Qed.

Lemma map_find_genc c groups f :
  map_find f (genc_of c groups) = option_map (enc_els c) (map_find f groups).
Proof.
  induction groups as [|[g els] r IH]; [reflexivity|].
  cbn [genc_of map map_find fst snd]. destruct (f =? g); [reflexivity|exact IH].
Qed.

(* ---- obj_of / content *)
Fixpoint els_toks (es : list mbase) : list ctok :=
  match es with
  | [] => []
  | e :: r => TE :: content (obj_of e) ++ TEnd :: els_toks r
  end.
Definition field_toks (groups : list (N * list mbase)) (e : N * list N) : list ctok :=
  TF (fst e) (Some (snd e)) ::
  match map_find (fst e) groups with
  | Some (x :: l) => TG (fst e) :: els_toks (x :: l) ++ [TEnd]
  | _ => []
  end.

Lemma content_obj_of fp subs fields pos groups unknown :
  content (obj_of (MB fp subs fields pos groups unknown)) = flat_map (field_toks groups) fields.
Proof.
  cbn [obj_of content].
  set (gt := (fix gl (gs : list (N * option (list obj))) : list (N * list ctok) := _) _).
  assert (Hg : forall f, afind f gt = option_map els_toks (map_find f groups)).
  { subst gt. intros f. induction groups as [|[g els] r IH]; [reflexivity|].
    cbn [afind map_find]. destruct (f =? g); [|exact IH]. cbn [option_map]. f_equal.
    induction els as [|e els IHe]; [reflexivity|]. cbn [els_toks]. rewrite <- IHe. reflexivity. }
  clearbody gt. induction fields as [|[f v] r IH]; [reflexivity|].
  cbn [map flat_map fst snd]. rewrite IH. f_equal. unfold field_toks. cbn [fst snd]. f_equal.
  rewrite Hg. destruct (map_find f groups) as [[|x l]|]; cbn [option_map els_toks]; try reflexivity.
Qed.

(* ---- nfields *)
Fixpoint nf_els (es : list mbase) : N :=
  match es with
  | [] => 0
  | e :: r => nfields e + nf_els r
  end.
Definition nf_trait (groups : list (N * list mbase)) (tr : trait) : N :=
  if t_present tr
  then 1 + (if t_group tr then match map_find (t_fnum tr) groups with Some els => nf_els els | None => 0 end else 0)
  else 0.

Lemma nfields_unfold fp subs fields pos groups unknown :
  nfields (MB fp subs fields pos groups unknown) = fold_right (fun tr acc => nf_trait groups tr + acc) 0 fp.
Proof.
  cbn [nfields].
  set (gs := (fix gl (gs : list (N * list mbase)) : list (N * N) := _) _).
  assert (Hg : forall f, map_find f gs = option_map nf_els (map_find f groups)).
  { subst gs. intros f. induction groups as [|[g els] r IH]; [reflexivity|].
    cbn [map_find]. destruct (f =? g); [|exact IH]. reflexivity. }
  clearbody gs. induction fp as [|tr r IH]; [reflexivity|].
  cbn [fold_right]. rewrite IH. f_equal. unfold nf_trait. rewrite Hg.
  destruct (map_find (t_fnum tr) groups); reflexivity.
Qed.
