(* C11: copy_legal into a fresh target.  The loop over the source's trait table is described by an
   invariant (Inv) on the part of the table already visited; the group elements are handled by
   induction over the group tree (mbase_ind').  Results:
     copy_post      what the target looks like afterwards (any fresh target, header/trailer included)
     copy_pos_rel   its _pos pairs up with the source's _pos, entry by entry
     copy_ep        into a fresh EMPTY target: same encoding, same content, count = nfields *)
From Coq Require Import NArith ZArith List Bool Lia.
From F8 Require Import Codec.Bytes Codec.Meta Codec.Extract Codec.Decode Codec.Encode
                       C11.Copy C11.Spec_C11 C11.Hyp C11.ListLemmas C11.Unfold C11.EncRel.
Import ListNotations.
Local Open Scope N_scope.

(* what is proved of every copied group element: it encodes alike and has the same content *)
Definition EP (e e' : mbase) : Prop := enc_le e e' /\ content (obj_of e) = content (obj_of e').

Definition elem_post (e : mbase) : Prop :=
  forall sg, src_ok e (create_group sg true) = true ->
  exists e', copy_legal false e (create_group sg true) = Ok (nfields e, e') /\ EP e e'.

(* ------------------------------------------------------------------ the hypotheses as propositions *)
Record loc_facts (s t0 : mbase) : Prop := {
  lf_static : same_static (mb_fp s) (mb_fp t0);
  lf_strict : strictN (map t_fnum (mb_fp s)) = true;
  lf_small : forall tr, In tr (mb_fp s) -> getPos tr < 65536;
  lf_entry : forall e, In e (mb_pos s) ->
             present_in (mb_fp s) (e_fnum e) = true /\ map_find (e_fnum e) (mb_fields s) = Some (e_val e);
  lf_order : strictN (map (fun e => pos_of (mb_fp s) (e_fnum e)) (mb_pos s)) = true;
  lf_cover : forall tr, In tr (mb_fp s) -> t_present tr = true -> exists e, In e (mb_pos s) /\ e_fnum e = t_fnum tr;
  lf_fstrict : strictN (map fst (mb_fields s)) = true;
  lf_fpres : forall e, In e (mb_fields s) -> present_in (mb_fp s) (fst e) = true;
  lf_gstrict : strictN (map fst (mb_groups s)) = true;
  lf_unk : mb_unknown s = []
}.

Lemma is_nil_eq {A} (l : list A) : is_nil l = true -> l = [].
Proof. destruct l; [reflexivity|discriminate]. Qed.

Lemma local_ok_facts s t0 : local_ok s t0 = true -> loc_facts s t0.
Proof.
  unfold local_ok. rewrite !andb_true_iff.
  intros [[[[[[[[[H1 H2] H3] H4] H5] H6] H7] H8] H9] H10].
  constructor; try assumption.
  - exact (static_eq_find _ _ H1).
  - intros tr Hin. rewrite forallb_forall in H3. apply N.ltb_lt. apply H3. exact Hin.
  - intros e Hin. rewrite forallb_forall in H4. specialize (H4 e Hin). unfold entry_ok in H4.
    apply andb_true_iff in H4. destruct H4 as [Ha Hb]. split; [exact Ha|].
    destruct (map_find (e_fnum e) (mb_fields s)) as [w|]; [|discriminate].
    apply list_eqb_eq in Hb. rewrite Hb. reflexivity.
  - intros tr Hin Hp. rewrite forallb_forall in H6. specialize (H6 tr Hin). unfold covered in H6.
    rewrite Hp in H6. cbn [negb orb] in H6. apply existsb_exists in H6. destruct H6 as [e [He1 He2]].
    exists e. split; [exact He1|]. apply N.eqb_eq. exact He2.
  - intros e Hin. rewrite forallb_forall in H8. apply H8. exact Hin.
  - apply is_nil_eq. exact H10.
Qed.

Record tgt_facts (s t0 : mbase) : Prop := {
  tf_entry : forall e, In e (mb_pos t0) ->
             present_in (mb_fp t0) (e_fnum e) = true /\ fst e = pos_of (mb_fp t0) (e_fnum e) /\
             present_in (mb_fp s) (e_fnum e) = true /\ group_in (mb_fp t0) (e_fnum e) = false /\
             map_find (e_fnum e) (mb_fields t0) = Some (e_val e);
  tf_pstrict : strictN (map fst (mb_pos t0)) = true;
  tf_cover : forall tr, In tr (mb_fp t0) -> t_present tr = true -> exists e, In e (mb_pos t0) /\ e_fnum e = t_fnum tr;
  tf_fstrict : strictN (map fst (mb_fields t0)) = true;
  tf_fpres : forall e, In e (mb_fields t0) -> present_in (mb_fp t0) (fst e) = true;
  tf_gnil : forall g, In g (mb_groups t0) -> snd g = [];
  tf_gstrict : strictN (map fst (mb_groups t0)) = true;
  tf_unk : mb_unknown t0 = []
}.

Lemma part_target_facts s t0 : part_target_ok s t0 = true -> tgt_facts s t0.
Proof.
  unfold part_target_ok. rewrite !andb_true_iff.
  intros [[[[[[[H1 H2] H3] H4] H5] H6] H6b] H7].
  constructor; try assumption.
  - intros e Hin. rewrite forallb_forall in H1. specialize (H1 e Hin). unfold init_entry_ok in H1.
    rewrite !andb_true_iff in H1. destruct H1 as [[[[Ha Hb] Hc] Hd] He].
    apply N.eqb_eq in Hb. apply negb_true_iff in Hd.
    destruct (map_find (e_fnum e) (mb_fields t0)) as [w|]; [|discriminate].
    apply list_eqb_eq in He. rewrite He. repeat split; assumption.
  - intros tr Hin Hp. rewrite forallb_forall in H3. specialize (H3 tr Hin). unfold covered in H3.
    rewrite Hp in H3. cbn [negb orb] in H3. apply existsb_exists in H3. destruct H3 as [e [He1 He2]].
    exists e. split; [exact He1|]. apply N.eqb_eq. exact He2.
  - intros e Hin. rewrite forallb_forall in H5. apply H5. exact Hin.
  - intros g Hin. rewrite forallb_forall in H6. apply is_nil_eq. apply H6. exact Hin.
  - apply is_nil_eq. exact H7.
Qed.

Definition pgroup_ok (s t0 : mbase) (g : N * list mbase) : bool :=
  (negb (group_in (mb_fp s) (fst g)) || is_some (find_sub (mb_subs t0) (fst g))) &&
  match snd g with
  | [] => true
  | els =>
    group_owned (mb_fp s) (fst g) && negb (present_in (mb_fp t0) (fst g)) &&
    match find_sub (mb_subs t0) (fst g) with
    | Some sg => forallb (fun e => src_ok e (create_group sg true)) els
    | None => false
    end
  end.

Lemma part_ok_unfold s t0 :
  part_ok s t0 = local_ok s t0 && part_target_ok s t0 && forallb (pgroup_ok s t0) (mb_groups s).
Proof. reflexivity. Qed.

Definition grp_facts (s t0 : mbase) : Prop :=
  forall f els, In (f, els) (mb_groups s) ->
    (group_in (mb_fp s) f = true -> exists sg, find_sub (mb_subs t0) f = Some sg) /\
    (els <> [] ->
     present_in (mb_fp s) f = true /\ group_in (mb_fp s) f = true /\ present_in (mb_fp t0) f = false /\
     exists sg, find_sub (mb_subs t0) f = Some sg /\
                Forall (fun e => src_ok e (create_group sg true) = true) els).

Lemma pgroup_facts s t0 : forallb (pgroup_ok s t0) (mb_groups s) = true -> grp_facts s t0.
Proof.
  intros H f els Hin. rewrite forallb_forall in H. specialize (H _ Hin). unfold pgroup_ok in H. cbn [fst snd] in H.
  apply andb_true_iff in H. destruct H as [Ha Hb]. split.
  - intros Hg. rewrite Hg in Ha. cbn [negb orb] in Ha.
    destruct (find_sub (mb_subs t0) f) as [x|]; [exists x; reflexivity|discriminate].
  - intros Hne. destruct els as [|e els]; [contradiction|].
    rewrite !andb_true_iff in Hb. destruct Hb as [[Ho Hp] Hm]. unfold group_owned in Ho.
    apply andb_true_iff in Ho. destruct Ho as [Ho1 Ho2]. apply negb_true_iff in Hp.
    destruct (find_sub (mb_subs t0) f) as [sg|]; [|discriminate].
    repeat split; try assumption. exists sg. split; [reflexivity|].
    apply Forall_forall. intros y Hy. rewrite forallb_forall in Hm. apply Hm. exact Hy.
Qed.

(* ------------------------------------------------------------------ trait lookups *)
Lemma present_in_find fp f tr : find_trait fp f = Some tr -> present_in fp f = t_present tr.
Proof. intros H. unfold present_in. rewrite H. reflexivity. Qed.

Lemma same_static_some fp1 fp2 f a : same_static fp1 fp2 -> find_trait fp1 f = Some a ->
  exists b, find_trait fp2 f = Some b /\ set_present false a = set_present false b.
Proof.
  intros Hs H. specialize (Hs f). rewrite H in Hs. destruct (find_trait fp2 f) as [b|]; [|destruct Hs].
  exists b. split; [reflexivity|exact Hs].
Qed.

Lemma same_static_pos_of fp1 fp2 f : same_static fp1 fp2 -> pos_of fp1 f = pos_of fp2 f.
Proof.
  intros Hs. specialize (Hs f). unfold pos_of.
  destruct (find_trait fp1 f) as [a|], (find_trait fp2 f) as [b|]; [|destruct Hs|destruct Hs|reflexivity].
  apply static_fields in Hs. unfold getPos. destruct Hs as (_ & _ & E1 & E2 & _). rewrite E1, E2. reflexivity.
Qed.

Lemma same_static_group_in fp1 fp2 f : same_static fp1 fp2 -> group_in fp1 f = group_in fp2 f.
Proof.
  intros Hs. specialize (Hs f). unfold group_in.
  destruct (find_trait fp1 f) as [a|], (find_trait fp2 f) as [b|]; [|destruct Hs|destruct Hs|reflexivity].
  apply static_fields in Hs. tauto.
Qed.

Lemma same_static_suppress_in fp1 fp2 f : same_static fp1 fp2 -> suppress_in fp1 f = suppress_in fp2 f.
Proof.
  intros Hs. specialize (Hs f). unfold suppress_in.
  destruct (find_trait fp1 f) as [a|], (find_trait fp2 f) as [b|]; [|destruct Hs|destruct Hs|reflexivity].
  apply static_fields in Hs. tauto.
Qed.

(* ------------------------------------------------------------------ the element loop *)
Lemma with_groups_acc t v :
  mb_fp (with_groups t v) = mb_fp t /\ mb_subs (with_groups t v) = mb_subs t /\
  mb_fields (with_groups t v) = mb_fields t /\ mb_pos (with_groups t v) = mb_pos t /\
  mb_unknown (with_groups t v) = mb_unknown t /\ mb_groups (with_groups t v) = v.
Proof. destruct t; cbn. repeat split. Qed.

Lemma copy_elems_ok sg f : forall els n t cur,
  Forall (fun e => exists e', copy_legal false e (create_group sg true) = Ok (nfields e, e') /\ EP e e') els ->
  map_find f (mb_groups t) = Some cur ->
  exists els' t', copy_elems sg f (map (copy_legal false) els) (n, t) = Ok (n + nf_els els, t') /\
     Forall2 EP els els' /\
     mb_fp t' = mb_fp t /\ mb_subs t' = mb_subs t /\ mb_fields t' = mb_fields t /\ mb_pos t' = mb_pos t /\
     mb_unknown t' = mb_unknown t /\ map fst (mb_groups t') = map fst (mb_groups t) /\
     (forall g, map_find g (mb_groups t') = if g =? f then Some (cur ++ els') else map_find g (mb_groups t)).
Proof.
  induction els as [|e els IH]; intros n t cur HF Hcur.
  - exists [], t. cbn [map copy_elems nf_els]. rewrite N.add_0_r, app_nil_r. repeat split; try constructor.
    intros g. destruct (g =? f) eqn:E; [apply N.eqb_eq in E; subst g; exact Hcur|reflexivity].
  - inversion HF as [|? ? [e' [He HEP]] HF']; subst.
    cbn [map copy_elems]. rewrite He. cbn [bind fst snd].
    unfold group_add at 1. rewrite Hcur.
    set (t1 := with_groups t (map_set f (cur ++ [e']) (mb_groups t))).
    destruct (with_groups_acc t (map_set f (cur ++ [e']) (mb_groups t))) as (A1 & A2 & A3 & A4 & A5 & A6).
    fold t1 in A1, A2, A3, A4, A5, A6.
    assert (Hc1 : map_find f (mb_groups t1) = Some (cur ++ [e'])).
    { rewrite A6, map_find_map_set, N.eqb_refl, Hcur. reflexivity. }
    destruct (IH (n + nfields e) t1 (cur ++ [e']) HF' Hc1) as (els'' & t' & Hr & HF2 & B1 & B2 & B3 & B4 & B5 & B5k & B6).
    exists (e' :: els''), t'. cbn [nf_els]. rewrite N.add_assoc. split; [exact Hr|].
    split; [constructor; assumption|].
    rewrite B1, B2, B3, B4, B5, B5k, A1, A2, A3, A4, A5, A6, map_set_keys. repeat split.
    intros g. rewrite B6. destruct (g =? f) eqn:E.
    + rewrite <- app_assoc. reflexivity.
    + rewrite A6, map_find_map_set, E. reflexivity.
Qed.

Lemma map_insert_present {A} k (v : A) l : strictN (map fst l) = true -> In k (map fst l) -> map_insert k v l = l.
Proof.
  induction l as [|[q z] r IH]; intros S Hin; [destruct Hin|]. cbn [map fst] in S, Hin. cbn [map_insert].
  pose proof (proj1 (strictN_cons _ _) S) as [Sq Sr].
  destruct (k <? q) eqn:E.
  - apply N.ltb_lt in E. destruct Hin as [->|Hin]; [lia|]. specialize (Sq k Hin). lia.
  - destruct (k =? q) eqn:E2; [reflexivity|]. apply N.eqb_neq in E2.
    destruct Hin as [Hq|Hin]; [congruence|]. rewrite (IH Sr Hin). reflexivity.
Qed.

(* to->find_add_group(fnum): the group object exists afterwards (created empty when missing) *)
Lemma find_add_group_ok t f sg : strictN (map fst (mb_groups t)) = true -> find_sub (mb_subs t) f = Some sg ->
  exists t', find_add_group t f = Ok (t', sg) /\
     mb_fp t' = mb_fp t /\ mb_subs t' = mb_subs t /\ mb_fields t' = mb_fields t /\ mb_pos t' = mb_pos t /\
     mb_unknown t' = mb_unknown t /\ strictN (map fst (mb_groups t')) = true /\
     (forall g, map_find g (mb_groups t') =
                if g =? f then Some (match map_find f (mb_groups t) with Some x => x | None => [] end)
                else map_find g (mb_groups t)).
Proof.
  intros S Hs. unfold find_add_group. rewrite Hs. eexists. split; [reflexivity|].
  destruct (with_groups_acc t (map_insert f [] (mb_groups t))) as (A1 & A2 & A3 & A4 & A5 & A6).
  rewrite A1, A2, A3, A4, A5, A6. repeat split.
  - destruct (map_find f (mb_groups t)) as [x|] eqn:E.
    + rewrite map_insert_present; [exact S|exact S|]. apply map_find_In in E. apply (in_map fst) in E. exact E.
    + apply map_insert_strict; [exact S|]. apply map_find_None. exact E.
  - intros g. destruct (map_find f (mb_groups t)) as [x|] eqn:E.
    + rewrite map_insert_present; [|exact S|apply map_find_In in E; apply (in_map fst) in E; exact E].
      destruct (g =? f) eqn:Eg; [apply N.eqb_eq in Eg; subst g; exact E|reflexivity].
    + revert E. clear. induction (mb_groups t) as [|[q z] r IH]; intros E; cbn [map_insert map_find].
      * destruct (g =? f); reflexivity.
      * cbn [map_find] in E. destruct (f =? q) eqn:Efq; [discriminate|]. destruct (f <? q).
        -- cbn [map_find]. destruct (g =? f); reflexivity.
        -- cbn [map_find]. destruct (g =? q) eqn:Egq.
           ++ apply N.eqb_eq in Egq. subst q. destruct (g =? f) eqn:Egf; [|reflexivity].
              apply N.eqb_eq in Egf. subst g. rewrite N.eqb_refl in Efq. discriminate.
           ++ apply IH. exact E.
Qed.

(* ------------------------------------------------------------------ the loop over the trait table *)
Definition sumN (l : list N) : N := fold_right N.add 0 l.
Lemma sumN_app a b : sumN (a ++ b) = sumN a + sumN b.
Proof. induction a as [|x a IH]; cbn [app sumN fold_right]; [reflexivity|]. fold (sumN (a ++ b)). rewrite IH. fold (sumN a). lia. Qed.

Section Fold.
Variables s t0 : mbase.
Hypothesis LF : loc_facts s t0.
Hypothesis TF : tgt_facts s t0.
Hypothesis GF : grp_facts s t0.
Hypothesis HE : forall f els, In (f, els) (mb_groups s) -> Forall elem_post els.

Definition sel (f : N) : bool := present_in (mb_fp s) f && negb (present_in (mb_fp t0) f).
Definition in_done (done : list trait) (f : N) : bool := existsb (fun tr => t_fnum tr =? f) done.
Definition cp (done : list trait) (f : N) : bool := in_done done f && sel f.
Definition gcount (tr : trait) : N :=
  if t_group tr then match map_find (t_fnum tr) (mb_groups s) with Some els => nf_els els | None => 0 end else 0.
Definition cnt (tr : trait) : N := if sel (t_fnum tr) then 1 + gcount tr else 0.

Definition GP (f : N) (t : mbase) : Prop :=
  match map_find f (mb_groups s) with
  | Some (e :: es) => exists els', map_find f (mb_groups t) = Some els' /\ Forall2 EP (e :: es) els'
  | Some [] => if sel f && group_in (mb_fp s) f then map_find f (mb_groups t) = Some []   (* created if missing *)
               else map_find f (mb_groups t) = map_find f (mb_groups t0)
  | None => map_find f (mb_groups t) = map_find f (mb_groups t0)
  end.

Definition Inv (done : list trait) (st : N * mbase) : Prop :=
  (forall f, find_trait (mb_fp (snd st)) f =
             option_map (fun tr => if cp done f then set_present true tr else tr) (find_trait (mb_fp t0) f)) /\
  (strictN (map fst (mb_fields (snd st))) = true /\
   forall f v, In (f, v) (mb_fields (snd st)) <->
               In (f, v) (mb_fields t0) \/ (cp done f = true /\ map_find f (mb_fields s) = Some v)) /\
  (strictN (map fst (mb_pos (snd st))) = true /\
   forall k f v, In (k, (f, v)) (mb_pos (snd st)) <->
                 In (k, (f, v)) (mb_pos t0) \/
                 (cp done f = true /\ k = pos_of (mb_fp s) f /\ map_find f (mb_fields s) = Some v)) /\
  ((forall f, if in_done done f then GP f (snd st)
              else map_find f (mb_groups (snd st)) = map_find f (mb_groups t0)) /\
   strictN (map fst (mb_groups (snd st))) = true) /\
  mb_subs (snd st) = mb_subs t0 /\ mb_unknown (snd st) = mb_unknown t0 /\
  fst st = sumN (map cnt done).

Lemma in_done_app done pp g : in_done (done ++ [pp]) g = in_done done g || (t_fnum pp =? g).
Proof. unfold in_done. rewrite existsb_app. cbn [existsb]. rewrite orb_false_r. reflexivity. Qed.

Lemma NoDup_fnums : NoDup (map t_fnum (mb_fp s)).
Proof. apply strictN_NoDup. exact (lf_strict _ _ LF). Qed.

(* a present tag of the source has a value *)
Lemma present_value f : present_in (mb_fp s) f = true -> exists v, map_find f (mb_fields s) = Some v.
Proof.
  intros Hp. unfold present_in in Hp. destruct (find_trait (mb_fp s) f) as [tr|] eqn:E; [|discriminate].
  destruct (find_trait_In _ _ _ E) as [Hin Hf].
  destruct (lf_cover _ _ LF tr Hin Hp) as [e [He1 He2]].
  destruct (lf_entry _ _ LF e He1) as [_ Hv]. exists (e_val e). rewrite <- Hf, <- He2. exact Hv.
Qed.

(* distinct present tags have distinct schema positions *)
Lemma pos_of_inj f g : present_in (mb_fp s) f = true -> present_in (mb_fp s) g = true ->
  pos_of (mb_fp s) f = pos_of (mb_fp s) g -> f = g.
Proof.
  intros Hf Hg E.
  assert (Hex : forall h, present_in (mb_fp s) h = true -> exists e, In e (mb_pos s) /\ e_fnum e = h).
  { intros h Hp. unfold present_in in Hp. destruct (find_trait (mb_fp s) h) as [tr|] eqn:Et; [|discriminate].
    destruct (find_trait_In _ _ _ Et) as [Hin Hh].
    destruct (lf_cover _ _ LF tr Hin Hp) as [e [He1 He2]]. exists e. split; [exact He1|congruence]. }
  destruct (Hex f Hf) as [ef [Hef1 Hef2]]. destruct (Hex g Hg) as [eg [Heg1 Heg2]].
  assert (ef = eg).
  { apply (NoDup_map_inj (fun e => pos_of (mb_fp s) (e_fnum e)) (mb_pos s)); try assumption.
    - apply strictN_NoDup. exact (lf_order _ _ LF).
    - cbn beta. rewrite Hef2, Heg2. exact E. }
  subst eg. congruence.
Qed.

Lemma t0_find_of_s f tr : find_trait (mb_fp s) f = Some tr ->
  exists y, find_trait (mb_fp t0) f = Some y /\ set_present false tr = set_present false y.
Proof. intros H. exact (same_static_some _ _ _ _ (lf_static _ _ LF) H). Qed.

Lemma pos_of_t0 f : pos_of (mb_fp t0) f = pos_of (mb_fp s) f.
Proof. symmetry. apply same_static_pos_of. exact (lf_static _ _ LF). Qed.

Lemma cp_ext done done' : (forall g, cp done' g = cp done g) -> forall st,
  (forall f, if in_done done' f then GP f (snd st) else map_find f (mb_groups (snd st)) = map_find f (mb_groups t0)) ->
  fst st = sumN (map cnt done') ->
  Inv done st -> Inv done' st.
Proof.
  intros Hc st Hg Hn (I1 & (I2a & I2b) & (I3a & I3b) & (I4 & I4s) & I5 & I6 & I7).
  unfold Inv. repeat split; try assumption.
  - intros f. rewrite Hc. apply I1.
  - intros H. apply I2b in H. rewrite Hc. exact H.
  - intros H. apply I2b. rewrite <- Hc. exact H.
  - intros H. apply I3b in H. rewrite Hc. exact H.
  - intros H. apply I3b. rewrite <- Hc. exact H.
Qed.

Lemma step_inv done pp rest st :
  mb_fp s = done ++ pp :: rest -> Inv done st ->
  exists st', copy_step false (mb_fields s) (gcopy_of false (mb_groups s)) pp st = Ok st' /\ Inv (done ++ [pp]) st'.
Proof.
  intros Hfp HI. destruct st as [n t].
  pose proof HI as (I1 & (I2a & I2b) & (I3a & I3b) & (I4 & I4s) & I5 & I6 & I7). cbn [fst snd] in *.
  set (f := t_fnum pp).
  assert (Hin : In pp (mb_fp s)) by (rewrite Hfp; apply in_or_app; right; left; reflexivity).
  assert (Hfind : find_trait (mb_fp s) f = Some pp) by (apply In_find_trait; [exact NoDup_fnums|exact Hin]).
  assert (Hnd : in_done done f = false).
  { pose proof NoDup_fnums as Hnd. rewrite Hfp, map_app in Hnd. cbn [map] in Hnd.
    apply NoDup_remove_2 in Hnd. unfold in_done. destruct (existsb _ done) eqn:E; [|reflexivity].
    exfalso. apply existsb_exists in E. destruct E as [x [Hx1 Hx2]]. apply N.eqb_eq in Hx2.
    apply Hnd. apply in_or_app. left. fold f. rewrite <- Hx2. apply in_map. exact Hx1. }
  destruct (t0_find_of_s f pp Hfind) as [y [Hy1 Hy2]].
  assert (Hcpf : cp done f = false) by (unfold cp; rewrite Hnd; reflexivity).
  assert (Htf : find_trait (mb_fp t) f = Some y) by (rewrite I1, Hy1, Hcpf; reflexivity).
  assert (Hps : present_in (mb_fp s) f = t_present pp) by (apply present_in_find; exact Hfind).
  assert (Hpt : present_in (mb_fp t0) f = t_present y) by (apply present_in_find; exact Hy1).
  assert (Hw : wants false pp t = sel f).
  { unfold wants, sel, legal_absent. fold f. rewrite Htf, Hps, Hpt. reflexivity. }
  assert (Hcp' : forall g, cp (done ++ [pp]) g = if g =? f then sel f else cp done g).
  { intros g. unfold cp. rewrite in_done_app. fold f. destruct (g =? f) eqn:E.
    - apply N.eqb_eq in E. subst g. rewrite N.eqb_refl, orb_true_r. reflexivity.
    - rewrite N.eqb_sym, E, orb_false_r. reflexivity. }
  unfold copy_step. cbn [snd]. rewrite Hw.
  destruct (sel f) eqn:Esel.
  2:{ (* not transferred *)
    exists (n, t). split; [reflexivity|].
    apply (cp_ext done); [| | |exact HI].
    - intros g. rewrite Hcp'. destruct (g =? f) eqn:E; [|reflexivity]. apply N.eqb_eq in E. subst g. rewrite Hcpf. reflexivity.
    - intros g. cbn [snd]. rewrite in_done_app. fold f. specialize (I4 g).
      destruct (in_done done g) eqn:Ed; [exact I4|]. cbn [orb].
      destruct (f =? g) eqn:E; [|exact I4]. apply N.eqb_eq in E. subst g.
      unfold GP. rewrite Esel. cbn [andb]. destruct (map_find f (mb_groups s)) as [[|e es]|] eqn:Eg; try exact I4.
      exfalso. apply map_find_In in Eg. destruct (GF _ _ Eg) as [_ Hne].
      destruct Hne as (Hp & _ & Hq & _); [discriminate|]. unfold sel in Esel. rewrite Hp, Hq in Esel. discriminate.
    - cbn [fst]. rewrite map_app, sumN_app, <- I7. cbn [map sumN fold_right]. unfold cnt. fold f. rewrite Esel. lia. }
  (* transferred: the group, then the field *)
  assert (Hsp : present_in (mb_fp s) f = true /\ present_in (mb_fp t0) f = false).
  { unfold sel in Esel. apply andb_true_iff in Esel. destruct Esel as [A B]. apply negb_true_iff in B. split; assumption. }
  destruct Hsp as [Hsp Htp].
  assert (Hgrp : exists t1,
     copy_group (gcopy_of false (mb_groups s)) pp (n, t) = Ok (n + gcount pp, t1) /\
     mb_fp t1 = mb_fp t /\ mb_subs t1 = mb_subs t /\ mb_fields t1 = mb_fields t /\ mb_pos t1 = mb_pos t /\
     mb_unknown t1 = mb_unknown t /\
     (forall g, g <> f -> map_find g (mb_groups t1) = map_find g (mb_groups t)) /\ GP f t1 /\
     strictN (map fst (mb_groups t1)) = true).
  { unfold copy_group, gcount. fold f. cbn [snd]. rewrite map_find_gcopy.
    specialize (I4 f). rewrite Hnd in I4.
    destruct (t_group pp) eqn:Egp.
    2:{ (* no group field *)
      exists t. rewrite N.add_0_r. split; [reflexivity|]. repeat split; try reflexivity; try exact I4s.
      unfold GP. assert (Hgi : group_in (mb_fp s) f = false) by (unfold group_in; rewrite Hfind; exact Egp).
      rewrite Hgi, andb_false_r.
      destruct (map_find f (mb_groups s)) as [[|e es]|] eqn:Eg; try exact I4.
      exfalso. destruct (GF _ _ (map_find_In _ _ _ Eg)) as [_ Hne].
      destruct Hne as (_ & Hgi2 & _); [discriminate|congruence]. }
    assert (Hgi : group_in (mb_fp s) f = true) by (unfold group_in; rewrite Hfind; exact Egp).
    destruct (map_find f (mb_groups s)) as [els|] eqn:Eg.
    2:{ (* the source has no such group *)
      exists t. cbn [option_map]. rewrite N.add_0_r. split; [reflexivity|].
      repeat split; try reflexivity; try exact I4s. unfold GP. rewrite Eg. exact I4. }
    pose proof (map_find_In _ _ _ Eg) as Hing. destruct (GF _ _ Hing) as [Hex Hne].
    destruct (Hex Hgi) as [sg Hsg]. cbn [option_map].
    assert (Hsg' : find_sub (mb_subs t) f = Some sg) by (rewrite I5; exact Hsg).
    destruct (find_add_group_ok t f sg I4s Hsg') as (ta & Hfa & F1 & F2 & F3 & F4 & F5 & F6 & F7).
    rewrite Hfa. cbn [bind fst snd].
    assert (Hcur : map_find f (mb_groups ta) = Some []).
    { rewrite F7, N.eqb_refl, I4. destruct (map_find f (mb_groups t0)) as [x|] eqn:Ex; [|reflexivity].
      pose proof (tf_gnil _ _ TF _ (map_find_In _ _ _ Ex)) as Hx0. cbn [snd] in Hx0. rewrite Hx0. reflexivity. }
    assert (HFe : Forall (fun e0 => exists e', copy_legal false e0 (create_group sg true) = Ok (nfields e0, e') /\ EP e0 e') els).
    { destruct els as [|e es]; [constructor|].
      destruct Hne as (_ & _ & _ & sg2 & Hsg2 & Hok); [discriminate|].
      assert (sg2 = sg) by congruence. subst sg2.
      pose proof (HE _ _ Hing) as Hpost. rewrite Forall_forall in Hpost, Hok. apply Forall_forall. intros e0 He0.
      exact (Hpost e0 He0 sg (Hok e0 He0)). }
    destruct (copy_elems_ok sg f els n ta [] HFe Hcur) as (els' & t' & Hr & HF2 & B1 & B2 & B3 & B4 & B5 & B5k & B6).
    exists t'. split; [exact Hr|]. split; [congruence|]. split; [congruence|]. split; [congruence|].
    split; [congruence|]. split; [congruence|]. split; [|split].
    - intros g Hg. rewrite B6. apply N.eqb_neq in Hg. rewrite Hg, F7, Hg. reflexivity.
    - unfold GP. rewrite Eg. destruct els as [|e es].
      + inversion HF2; subst. rewrite Esel, Hgi. cbn [andb]. rewrite B6, N.eqb_refl. reflexivity.
      + exists els'. split; [|exact HF2]. rewrite B6, N.eqb_refl. reflexivity.
    - rewrite B5k. exact F6. }
  destruct Hgrp as (t1 & Hcg & A1 & A2 & A3 & A4 & A5 & A6 & A7 & A8).
  rewrite Hcg. cbn [bind fst snd]. fold f.
  destruct (present_value f Hsp) as [v Hv]. rewrite Hv.
  assert (Hyp : t_present y = false) by (rewrite <- Hpt; exact Htp).
  unfold put_field, add_field. rewrite A1, Htf, Hyp. cbn [bind].
  eexists. split; [reflexivity|].
  set (t2 := mark_present (add_field_decoder t1 f (getPos y) v) f).
  assert (T2 : mb_fp t2 = upd_trait (set_present true) (mb_fp t) f /\ mb_subs t2 = mb_subs t /\
               mb_fields t2 = map_insert f v (mb_fields t) /\
               mb_pos t2 = pos_insert (getPos y) (f, v) (mb_pos t) /\
               mb_groups t2 = mb_groups t1 /\ mb_unknown t2 = mb_unknown t).
  { subst t2. rewrite <- A1, <- A2, <- A3, <- A4, <- A5. destruct t1; cbn. repeat split. }
  destruct T2 as (T2a & T2b & T2c & T2d & T2e & T2f).
  assert (Hgy : getPos y = pos_of (mb_fp s) f).
  { rewrite <- pos_of_t0. unfold pos_of. rewrite Hy1. reflexivity. }
  assert (Hsmall : pos_key (getPos y) = getPos y).
  { unfold pos_key. apply N.mod_small. rewrite Hgy. unfold pos_of. rewrite Hfind. exact (lf_small _ _ LF pp Hin). }
  unfold Inv. cbn [fst snd]. repeat split.
  - (* trait table *)
    intros g. rewrite T2a, find_trait_mark, Hcp'. destruct (g =? f) eqn:E.
    + apply N.eqb_eq in E. subst g. rewrite Htf, Hy1. reflexivity.
    + apply I1.
  - (* _fields strictly sorted *)
    rewrite T2c. apply map_insert_strict; [exact I2a|].
    intros Hk. apply in_map_iff in Hk. destruct Hk as [[k w] [Hk1 Hk2]]. cbn [fst] in Hk1. subst k.
    apply I2b in Hk2. destruct Hk2 as [Hk2|[Hk2 _]].
    * pose proof (tf_fpres _ _ TF _ Hk2) as Hp. cbn [fst] in Hp. congruence.
    * congruence.
  - rewrite T2c. intros Hi. apply map_insert_In in Hi.
    + destruct Hi as [Hi|Hi].
      * injection Hi as -> ->. right. rewrite Hcp', N.eqb_refl. split; [reflexivity|exact Hv].
      * apply I2b in Hi. destruct Hi as [Hi|[Hi1 Hi2]]; [left; exact Hi|]. right. rewrite Hcp'.
        destruct (f0 =? f) eqn:E; [apply N.eqb_eq in E; subst f0; congruence|]. split; assumption.
    + intros Hk. apply in_map_iff in Hk. destruct Hk as [[k w] [Hk1 Hk2]]. cbn [fst] in Hk1. subst k.
      apply I2b in Hk2. destruct Hk2 as [Hk2|[Hk2 _]].
      * pose proof (tf_fpres _ _ TF _ Hk2) as Hp. cbn [fst] in Hp. congruence.
      * congruence.
  - rewrite T2c. intros Hi. apply map_insert_In.
    + intros Hk. apply in_map_iff in Hk. destruct Hk as [[k w] [Hk1 Hk2]]. cbn [fst] in Hk1. subst k.
      apply I2b in Hk2. destruct Hk2 as [Hk2|[Hk2 _]].
      * pose proof (tf_fpres _ _ TF _ Hk2) as Hp. cbn [fst] in Hp. congruence.
      * congruence.
    + destruct Hi as [Hi|[Hi1 Hi2]].
      * right. apply I2b. left. exact Hi.
      * rewrite Hcp' in Hi1. destruct (f0 =? f) eqn:E.
        -- apply N.eqb_eq in E. subst f0. left. congruence.
        -- right. apply I2b. right. split; assumption.
  - (* _pos strictly sorted *)
    rewrite T2d. unfold pos_insert. rewrite Hsmall. apply pos_insert_k_strict; [exact I3a|].
    intros Hk. apply in_map_iff in Hk. destruct Hk as [[k [g w]] [Hk1 Hk2]]. cbn [fst] in Hk1. subst k.
    apply I3b in Hk2. destruct Hk2 as [Hk2|[Hk2 [Hk3 _]]].
    * destruct (tf_entry _ _ TF _ Hk2) as (P1 & P2 & P3 & _). unfold e_fnum in *. cbn [fst snd] in *.
      rewrite pos_of_t0, Hgy in P2. apply pos_of_inj in P2; [|exact Hsp|exact P3]. subst g. congruence.
    * unfold cp in Hk2. apply andb_true_iff in Hk2. destruct Hk2 as [Hd Hs]. unfold sel in Hs.
      apply andb_true_iff in Hs. destruct Hs as [Hs _]. rewrite Hgy in Hk3. apply pos_of_inj in Hk3; [|exact Hsp|exact Hs].
      subst g. congruence.
  - rewrite T2d. unfold pos_insert. rewrite Hsmall. intros Hi. apply pos_insert_k_In in Hi.
    destruct Hi as [Hi|Hi].
    + injection Hi as -> -> ->. right. rewrite Hcp', N.eqb_refl. repeat split; [exact Hgy|exact Hv].
    + apply I3b in Hi. destruct Hi as [Hi|(Hi1 & Hi2 & Hi3)]; [left; exact Hi|]. right. rewrite Hcp'.
      destruct (f0 =? f) eqn:E; [apply N.eqb_eq in E; subst f0; congruence|]. repeat split; assumption.
  - rewrite T2d. unfold pos_insert. rewrite Hsmall. intros Hi. apply pos_insert_k_In.
    destruct Hi as [Hi|(Hi1 & Hi2 & Hi3)].
    + right. apply I3b. left. exact Hi.
    + rewrite Hcp' in Hi1. destruct (f0 =? f) eqn:E.
      * apply N.eqb_eq in E. subst f0. left. rewrite Hgy. congruence.
      * right. apply I3b. right. repeat split; assumption.
  - (* groups *)
    intros g. rewrite in_done_app. fold f. destruct (f =? g) eqn:E.
    + apply N.eqb_eq in E. subst g. rewrite orb_true_r. unfold GP in *. rewrite T2e. exact A7.
    + rewrite orb_false_r. assert (Hgf : g <> f) by (intros ->; rewrite N.eqb_refl in E; discriminate).
      specialize (I4 g). unfold GP in *. rewrite T2e, (A6 g Hgf). exact I4.
  - rewrite T2e. exact A8.
  - rewrite T2b. exact I5.
  - rewrite T2f. exact I6.
  - rewrite map_app, sumN_app, <- I7. cbn [map sumN fold_right]. unfold cnt. fold f. rewrite Esel. lia.
Qed.

Lemma fold_inv : forall rest done st,
  mb_fp s = done ++ rest -> Inv done st ->
  exists st', fold_res (copy_step false (mb_fields s) (gcopy_of false (mb_groups s))) rest st = Ok st' /\
              Inv (mb_fp s) st'.
Proof.
  induction rest as [|pp rest IH]; intros done st Hfp HI.
  - exists st. split; [reflexivity|]. rewrite app_nil_r in Hfp. rewrite Hfp. exact HI.
  - destruct (step_inv done pp rest st Hfp HI) as [st1 [Hs1 HI1]].
    cbn [fold_res]. rewrite Hs1. cbn [bind]. apply (IH (done ++ [pp])); [|exact HI1].
    rewrite <- app_assoc. exact Hfp.
Qed.

Lemma inv_init : Inv [] (0, t0).
Proof.
  unfold Inv. cbn [fst snd map sumN fold_right]. repeat split.
  - intros f. unfold cp, in_done. cbn [existsb andb]. destruct (find_trait (mb_fp t0) f); reflexivity.
  - exact (tf_fstrict _ _ TF).
  - intros H. left. exact H.
  - intros [H|[H _]]; [exact H|]. unfold cp, in_done in H. cbn in H. discriminate.
  - exact (tf_pstrict _ _ TF).
  - intros H. left. exact H.
  - intros [H|[H _]]; [exact H|]. unfold cp, in_done in H. cbn in H. discriminate.
  - exact (tf_gstrict _ _ TF).
Qed.

End Fold.

(* ------------------------------------------------------------------ after the loop *)
Section After.
Variables s t0 : mbase.
Hypothesis LF : loc_facts s t0.
Hypothesis TF : tgt_facts s t0.
Hypothesis GF : grp_facts s t0.
Variables (n : N) (t : mbase).
Hypothesis HI : Inv s t0 (mb_fp s) (n, t).

Lemma cp_full f : cp s t0 (mb_fp s) f = sel s t0 f.
Proof.
  unfold cp. destruct (sel s t0 f) eqn:E; [|apply andb_false_r]. rewrite andb_true_r.
  unfold sel in E. apply andb_true_iff in E. destruct E as [E _]. unfold present_in in E.
  destruct (find_trait (mb_fp s) f) as [tr|] eqn:Et; [|discriminate].
  destruct (find_trait_In _ _ _ Et) as [Hin Hf]. unfold in_done. apply existsb_exists. exists tr.
  split; [exact Hin|apply N.eqb_eq; exact Hf].
Qed.

Lemma after_fp : same_static (mb_fp s) (mb_fp t).
Proof.
  destruct HI as (I1 & _). cbn [snd] in I1. intros f. rewrite I1.
  pose proof (lf_static _ _ LF f) as Hs.
  destruct (find_trait (mb_fp s) f) as [a|], (find_trait (mb_fp t0) f) as [b|]; cbn [option_map]; try exact Hs.
  destruct (cp s t0 (mb_fp s) f); [|exact Hs]. rewrite Hs. destruct b; reflexivity.
Qed.

Lemma after_unknown : mb_unknown t = [].
Proof. destruct HI as (_ & _ & _ & _ & _ & I6 & _). cbn [snd] in I6. rewrite I6. exact (tf_unk _ _ TF). Qed.

Lemma present_has_entry f : present_in (mb_fp s) f = true -> exists e, In e (mb_pos s) /\ e_fnum e = f.
Proof.
  intros Hp. unfold present_in in Hp. destruct (find_trait (mb_fp s) f) as [tr|] eqn:Et; [|discriminate].
  destruct (find_trait_In _ _ _ Et) as [Hin Hh].
  destruct (lf_cover _ _ LF tr Hin Hp) as [e [He1 He2]]. exists e. split; [exact He1|congruence].
Qed.

Lemma t0_present_entry f : present_in (mb_fp t0) f = true -> exists e, In e (mb_pos t0) /\ e_fnum e = f.
Proof.
  intros Hp. unfold present_in in Hp. destruct (find_trait (mb_fp t0) f) as [tr|] eqn:Et; [|discriminate].
  destruct (find_trait_In _ _ _ Et) as [Hin Hh].
  destruct (tf_cover _ _ TF tr Hin Hp) as [e [He1 He2]]. exists e. split; [exact He1|congruence].
Qed.

Lemma after_pos_keys :
  map (fun e => (pos_of (mb_fp s) (e_fnum e), e_fnum e)) (mb_pos s) = map (fun e => (fst e, e_fnum e)) (mb_pos t).
Proof.
  destruct HI as (_ & _ & (I3a & I3b) & _). cbn [snd] in I3a, I3b.
  apply (strict_unique fst).
  - rewrite map_map. cbn [fst]. exact (lf_order _ _ LF).
  - rewrite map_map. cbn [fst]. exact I3a.
  - intros [k f]. split; intros H; apply in_map_iff in H; apply in_map_iff.
    + destruct H as [e [He Hin]]. injection He as <- <-.
      destruct (lf_entry _ _ LF e Hin) as [Hp Hv].
      destruct (present_in (mb_fp t0) (e_fnum e)) eqn:Ept.
      * destruct (t0_present_entry _ Ept) as [e0 [He0 Hf0]].
        destruct (tf_entry _ _ TF e0 He0) as (_ & Hk & _).
        exists e0. split.
        -- rewrite Hk, Hf0, (pos_of_t0 s t0 LF). reflexivity.
        -- destruct e0 as [k0 [f0 v0]]. apply I3b. left. exact He0.
      * exists (pos_of (mb_fp s) (e_fnum e), (e_fnum e, e_val e)). split; [reflexivity|].
        apply I3b. right. rewrite cp_full. unfold sel. rewrite Hp, Ept. repeat split. exact Hv.
    + destruct H as [[k' [f' v']] [He Hin]]. unfold e_fnum in He. cbn [fst snd] in He. injection He as -> ->.
      apply I3b in Hin.
      assert (Hpk : present_in (mb_fp s) f = true /\ k = pos_of (mb_fp s) f).
      { destruct Hin as [Hin|(Hc & Hk & _)].
        - destruct (tf_entry _ _ TF _ Hin) as (_ & Hk & Hp & _). unfold e_fnum in *. cbn [fst snd] in *.
          split; [exact Hp|]. rewrite Hk. apply (pos_of_t0 s t0 LF).
        - rewrite cp_full in Hc. unfold sel in Hc. apply andb_true_iff in Hc. split; [tauto|exact Hk]. }
      destruct Hpk as [Hp ->]. destruct (present_has_entry f Hp) as [e [He1 He2]].
      exists e. split; [rewrite He2; reflexivity|exact He1].
Qed.

(* the target's _pos pairs up with the source's: same tags in the same order, same values except
   for the fields the fresh target already owned *)
Lemma after_pos_rel : Forall2 (entry_rel (present_in (mb_fp t0))) (mb_pos s) (mb_pos t).
Proof.
  apply (Forall2_of_maps _ _ _ _ _ after_pos_keys).
  intros a [k [f w]] Ha Hb E. unfold e_fnum in E. cbn [fst snd] in E. injection E as _ Ef.
  unfold entry_rel, e_fnum, e_val. cbn [fst snd]. split; [exact Ef|].
  destruct HI as (_ & _ & (_ & I3b) & _). cbn [snd] in I3b. apply I3b in Hb.
  destruct Hb as [Hb|(_ & _ & Hw)].
  - left. destruct (tf_entry _ _ TF _ Hb) as (Hp & _). unfold e_fnum in *. cbn [fst snd] in *. rewrite Ef. exact Hp.
  - right. destruct (lf_entry _ _ LF a Ha) as [_ Hv]. unfold e_fnum, e_val in Hv. rewrite Ef, Hw in Hv.
    injection Hv as ->. reflexivity.
Qed.

Lemma after_groups_enc c f r :
  present_in (mb_fp s) f = true ->
  group_in (mb_fp s) f = true -> present_in (mb_fp t0) f = false ->
  map_find f (genc_of c (mb_groups s)) = Some (Ok r) -> map_find f (genc_of c (mb_groups t)) = Some (Ok r).
Proof.
  intros Hps Hg Hp. rewrite !map_find_genc.
  destruct HI as (_ & _ & _ & (I4 & _) & _). cbn [snd] in I4. specialize (I4 f).
  destruct (map_find f (mb_groups s)) as [els|] eqn:Eg; [|discriminate]. cbn [option_map]. intros Hr.
  injection Hr as Hr.
  assert (Hd : in_done (mb_fp s) f = true).
  { unfold present_in in Hps. destruct (find_trait (mb_fp s) f) as [tr|] eqn:Et; [|discriminate].
    destruct (find_trait_In _ _ _ Et) as [Hi Hf]. unfold in_done. apply existsb_exists. exists tr.
    split; [exact Hi|apply N.eqb_eq; exact Hf]. }
  rewrite Hd in I4. unfold GP in I4. rewrite Eg in I4. destruct els as [|e es].
  - unfold sel in I4. rewrite Hps, Hp, Hg in I4. cbn [negb andb] in I4. rewrite I4. cbn [option_map]. exact (f_equal Some Hr).
  - destruct I4 as [els' [Hm HF]]. rewrite Hm. cbn [option_map]. f_equal.
    apply (enc_els_rel c (e :: es) els'); [|exact Hr].
    clear -HF. induction HF as [|a b l l' [Hab _] HF IH]; constructor; assumption.
Qed.

Lemma after_fields f :
  map_find f (mb_fields t) =
  if present_in (mb_fp t0) f then map_find f (mb_fields t0) else map_find f (mb_fields s).
Proof.
  destruct HI as (_ & (I2a & I2b) & _). cbn [snd] in I2a, I2b.
  destruct (map_find f (mb_fields t)) as [v|] eqn:E.
  - apply map_find_In in E. apply I2b in E. destruct E as [E|[Hc Hv]].
    + pose proof (tf_fpres _ _ TF _ E) as Hp. cbn [fst] in Hp. rewrite Hp. symmetry.
      apply In_map_find; [apply strictN_NoDup; exact (tf_fstrict _ _ TF)|exact E].
    + rewrite cp_full in Hc. unfold sel in Hc. apply andb_true_iff in Hc. destruct Hc as [_ Hc].
      apply negb_true_iff in Hc. rewrite Hc. symmetry. exact Hv.
  - destruct (present_in (mb_fp t0) f) eqn:Ep.
    + destruct (map_find f (mb_fields t0)) as [v|] eqn:E0; [|reflexivity].
      exfalso. apply map_find_In in E0. assert (In (f, v) (mb_fields t)) by (apply I2b; left; exact E0).
      apply In_map_find in H; [congruence|apply strictN_NoDup; exact I2a].
    + destruct (map_find f (mb_fields s)) as [v|] eqn:Es; [|reflexivity].
      exfalso. pose proof (lf_fpres _ _ LF _ (map_find_In _ _ _ Es)) as Hp. cbn [fst] in Hp.
      assert (In (f, v) (mb_fields t)).
      { apply I2b. right. rewrite cp_full. unfold sel. rewrite Hp, Ep. split; [reflexivity|exact Es]. }
      apply In_map_find in H; [congruence|apply strictN_NoDup; exact I2a].
Qed.

End After.

(* ------------------------------------------------------------------ a fresh EMPTY target *)
Lemma flat_map_ext_in {A B} (f g : A -> list B) l : (forall x, In x l -> f x = g x) -> flat_map f l = flat_map g l.
Proof.
  induction l as [|x l IH]; intros H; [reflexivity|]. cbn [flat_map].
  rewrite (H x (or_introl eq_refl)), IH; [reflexivity|]. intros y Hy. apply H. right. exact Hy.
Qed.

Lemma els_toks_rel l l' : Forall2 EP l l' -> els_toks l = els_toks l'.
Proof.
  intros HF. induction HF as [|a b l l' [_ Hab] HF IH]; [reflexivity|]. cbn [els_toks]. rewrite Hab, IH. reflexivity.
Qed.

Lemma target_ok_facts t0 : target_ok t0 = true ->
  (forall f, present_in (mb_fp t0) f = false) /\ mb_fields t0 = [] /\ mb_pos t0 = [] /\
  (forall g, In g (mb_groups t0) -> snd g = []) /\ strictN (map fst (mb_groups t0)) = true /\ mb_unknown t0 = [].
Proof.
  unfold target_ok. rewrite !andb_true_iff. intros [[[[[H1 H2] H3] H4] H4b] H5].
  repeat split; try (apply is_nil_eq; assumption); try assumption.
  - intros f. unfold present_in. destruct (find_trait (mb_fp t0) f) as [tr|] eqn:E; [|reflexivity].
    destruct (find_trait_In _ _ _ E) as [Hin _]. rewrite forallb_forall in H1. apply negb_true_iff. apply H1. exact Hin.
  - intros g Hg. rewrite forallb_forall in H4. apply is_nil_eq. apply H4. exact Hg.
Qed.

Lemma target_ok_tgt s t0 : target_ok t0 = true -> tgt_facts s t0.
Proof.
  intros H. destruct (target_ok_facts t0 H) as (Hp & Hf & Hq & Hg & Hgs & Hu).
  constructor; rewrite ?Hf, ?Hq; try reflexivity; try assumption.
  - intros e [].
  - intros tr Hin Hpr. exfalso. specialize (Hp (t_fnum tr)). unfold present_in in Hp.
    destruct (find_trait (mb_fp t0) (t_fnum tr)) as [y|] eqn:E.
    + (* first trait with this tag: not present; tr itself might be a later duplicate *)
      unfold target_ok in H. rewrite !andb_true_iff in H. destruct H as [[[[[H1 _] _] _] _] _].
      rewrite forallb_forall in H1. specialize (H1 tr Hin). rewrite Hpr in H1. discriminate.
    + apply find_trait_None in E. apply E. apply in_map. exact Hin.
  - intros e [].
Qed.

Lemma group_ok_pgroup s t0 : target_ok t0 = true ->
  forallb (group_ok (mb_fp s) t0) (mb_groups s) = true -> forallb (pgroup_ok s t0) (mb_groups s) = true.
Proof.
  intros Ht H. destruct (target_ok_facts t0 Ht) as (Hp & _).
  rewrite forallb_forall in *. intros g Hg. specialize (H g Hg). unfold group_ok in H. unfold pgroup_ok.
  apply andb_true_iff in H. destruct H as [Ha Hb]. rewrite Ha. cbn [andb].
  destruct (snd g) as [|e es]; [reflexivity|]. apply andb_true_iff in Hb. destruct Hb as [Hb1 Hb2].
  rewrite Hb1, Hp. cbn [negb andb]. exact Hb2.
Qed.

Lemma sum_ext {A} (f g : A -> N) l : (forall x, In x l -> f x = g x) ->
  sumN (map f l) = fold_right (fun x acc => g x + acc) 0 l.
Proof.
  induction l as [|x l IH]; intros H; [reflexivity|]. cbn [map sumN fold_right]. fold (sumN (map f l)).
  rewrite (H x (or_introl eq_refl)), IH; [reflexivity|]. intros y Hy. apply H. right. exact Hy.
Qed.

Section Empty.
Variables s t0 : mbase.
Hypothesis LF : loc_facts s t0.
Hypothesis TF : tgt_facts s t0.
Hypothesis GF : grp_facts s t0.
Hypothesis Hnp : forall f, present_in (mb_fp t0) f = false.
Hypothesis Hf0 : mb_fields t0 = [].
Variables (n : N) (t : mbase).
Hypothesis HI : Inv s t0 (mb_fp s) (n, t).

Lemma empty_enc : enc_le s t.
Proof.
  intros c b. pose proof (after_fp s t0 LF n t HI) as Hfp.
  pose proof (after_pos_rel s t0 LF TF n t HI) as Hpos.
  pose proof (after_groups_enc s t0 n t HI c) as Hg.
  pose proof (after_unknown s t0 TF n t HI) as Hu. pose proof (lf_unk _ _ LF) as Hus.
  pose proof (lf_entry _ _ LF) as Hent.
  destruct s as [fp subs fields pos groups unknown]. destruct t as [fp' subs' fields' pos' groups' unknown'].
  cbn [mb_fp mb_pos mb_groups mb_unknown mb_fields] in *. subst unknown unknown'.
  rewrite !mb_encode_unfold. intros H.
  destruct (enc_pos c fp (genc_of c groups) pos) as [bb| | | |] eqn:E; try discriminate.
  rewrite (enc_pos_rel c fp fp' (genc_of c groups) (genc_of c groups') (present_in (mb_fp t0)) Hfp) with (b := bb) (p1 := pos).
  - exact H.
  - intros f Hf. rewrite Hnp in Hf. discriminate.
  - exact Hpos.
  - intros f r Hin Hgi _ Hm. apply Hg; [|exact Hgi|apply Hnp|exact Hm].
    apply in_map_iff in Hin. destruct Hin as [e [He1 He2]]. destruct (Hent e He2) as [Hpe _]. rewrite He1 in Hpe. exact Hpe.
  - exact E.
Qed.

Lemma sel_present f : sel s t0 f = present_in (mb_fp s) f.
Proof. unfold sel. rewrite Hnp. apply andb_true_r. Qed.

Lemma empty_fields : mb_fields t = mb_fields s.
Proof.
  destruct HI as (_ & (I2a & I2b) & _). cbn [snd] in I2a, I2b.
  apply (strict_unique fst); [exact I2a|exact (lf_fstrict _ _ LF)|].
  intros [f v]. rewrite I2b, Hf0. split.
  - intros [[]|[_ Hv]]. apply map_find_In. exact Hv.
  - intros Hin. right. rewrite (cp_full s t0), sel_present.
    pose proof (lf_fpres _ _ LF _ Hin) as Hp. cbn [fst] in Hp. split; [exact Hp|].
    apply In_map_find; [apply strictN_NoDup; exact (lf_fstrict _ _ LF)|exact Hin].
Qed.

Lemma empty_content : content (obj_of s) = content (obj_of t).
Proof.
  pose proof empty_fields as Hfe. destruct HI as (_ & _ & _ & (I4 & _) & _). cbn [snd] in I4.
  pose proof (lf_fpres _ _ LF) as Hfp.
  destruct s as [fp subs fields pos groups unknown]. destruct t as [fp' subs' fields' pos' groups' unknown'].
  cbn [mb_fp mb_fields mb_groups] in *. subst fields'. rewrite !content_obj_of.
  apply flat_map_ext_in. intros [f v] Hin. unfold field_toks. cbn [fst snd]. f_equal.
  specialize (Hfp _ Hin). cbn [fst] in Hfp. specialize (I4 f).
  assert (Hd : in_done fp f = true).
  { unfold present_in in Hfp. destruct (find_trait fp f) as [tr|] eqn:Et; [|discriminate].
    destruct (find_trait_In _ _ _ Et) as [Hi Hf]. unfold in_done. apply existsb_exists. exists tr.
    split; [exact Hi|apply N.eqb_eq; exact Hf]. }
  rewrite Hd in I4. unfold GP in I4. cbn [mb_groups] in I4.
  assert (Hnil : forall x, map_find f (mb_groups t0) = Some x -> x = []).
  { intros x Hx. exact (tf_gnil _ _ TF _ (map_find_In _ _ _ Hx)). }
  destruct (map_find f groups) as [[|e es]|] eqn:Eg.
  - destruct (sel (MB fp subs fields pos groups unknown) t0 f && group_in (mb_fp (MB fp subs fields pos groups unknown)) f).
    + rewrite I4. reflexivity.
    + rewrite I4. destruct (map_find f (mb_groups t0)) as [x|] eqn:Ex; [rewrite (Hnil x eq_refl)|]; reflexivity.
  - destruct I4 as [els' [Hm HF]]. rewrite Hm. pose proof (els_toks_rel _ _ HF) as Ht.
    inversion HF; subst. rewrite <- Ht. reflexivity.
  - rewrite I4. destruct (map_find f (mb_groups t0)) as [x|] eqn:Ex; [rewrite (Hnil x eq_refl)|]; reflexivity.
Qed.

Lemma empty_count : n = nfields s.
Proof.
  destruct HI as (_ & _ & _ & _ & _ & _ & I7). cbn [fst] in I7. rewrite I7.
  pose proof (NoDup_fnums s t0 LF) as Hnd.
  assert (Hpt : forall tr, In tr (mb_fp s) -> cnt s t0 tr = nf_trait (mb_groups s) tr).
  { intros tr Hin. unfold cnt, nf_trait, gcount. rewrite sel_present.
    rewrite (present_in_find _ _ _ (In_find_trait _ _ Hnd Hin)). reflexivity. }
  transitivity (fold_right (fun tr acc => nf_trait (mb_groups s) tr + acc) 0 (mb_fp s)).
  - apply sum_ext. exact Hpt.
  - destruct s as [fp subs fields pos groups unknown]. rewrite nfields_unfold. reflexivity.
Qed.

End Empty.

(* ------------------------------------------------------------------ induction over the group tree *)
Theorem copy_spec : forall s t0, src_ok s t0 = true ->
  exists t, copy_legal false s t0 = Ok (nfields s, t) /\ EP s t.
Proof.
  induction s as [fp subs fields pos groups unknown IH] using mbase_ind'. intros t0 H.
  rewrite src_ok_unfold in H. rewrite !andb_true_iff in H. destruct H as [[Hl Ht] Hg].
  set (s := MB fp subs fields pos groups unknown) in *.
  pose proof (local_ok_facts s t0 Hl) as LF.
  pose proof (target_ok_tgt s t0 Ht) as TF.
  pose proof (pgroup_facts s t0 (group_ok_pgroup s t0 Ht Hg)) as GF.
  destruct (target_ok_facts t0 Ht) as (Hnp & Hf0 & _).
  assert (HE : forall f els, In (f, els) (mb_groups s) -> Forall elem_post els).
  { intros f els Hin. rewrite Forall_forall in IH. specialize (IH _ Hin). cbn [snd] in IH.
    rewrite Forall_forall in IH. apply Forall_forall. intros e He sg Hok.
    destruct (IH e He _ Hok) as [e' [Hc HEP]]. exists e'. split; assumption. }
  destruct (fold_inv s t0 LF TF GF HE (mb_fp s) [] (0, t0) eq_refl (inv_init s t0 TF)) as [[n t] [Hr HI]].
  exists t. subst s. rewrite copy_legal_unfold. cbn [mb_fp mb_fields mb_groups] in Hr. rewrite Hr.
  set (s := MB fp subs fields pos groups unknown) in *.
  rewrite (empty_count s t0 LF TF GF Hnp n t HI). split; [reflexivity|]. split.
  - exact (empty_enc s t0 LF TF GF Hnp n t HI).
  - exact (empty_content s t0 LF TF GF Hnp Hf0 n t HI).
Qed.

(* ------------------------------------------------------------------ any fresh target (header, trailer) *)
Record part_post (s t0 : mbase) (t : mbase) : Prop := {
  pp_fp : same_static (mb_fp s) (mb_fp t);
  pp_pos : Forall2 (entry_rel (present_in (mb_fp t0))) (mb_pos s) (mb_pos t);
  pp_groups : forall c f r, present_in (mb_fp s) f = true -> group_in (mb_fp s) f = true -> present_in (mb_fp t0) f = false ->
              map_find f (genc_of c (mb_groups s)) = Some (Ok r) -> map_find f (genc_of c (mb_groups t)) = Some (Ok r);
  pp_fields : forall f, map_find f (mb_fields t) =
                        if present_in (mb_fp t0) f then map_find f (mb_fields t0) else map_find f (mb_fields s);
  pp_unknown : mb_unknown t = [];
  pp_unknown_s : mb_unknown s = [];
  pp_has : forall f, map_find f (mb_fields s) <> None -> map_find f (mb_fields t) <> None;
  pp_owned : forall f, present_in (mb_fp t0) f = true ->
             group_in (mb_fp s) f = false /\ exists e, In e (mb_pos t0) /\ e_fnum e = f;
  pp_nodup : NoDup (map e_fnum (mb_pos s));
  pp_present : forall f, In f (map e_fnum (mb_pos s)) -> present_in (mb_fp s) f = true
}.

Theorem copy_part : forall s t0, part_ok s t0 = true ->
  exists n t, copy_legal false s t0 = Ok (n, t) /\ part_post s t0 t.
Proof.
  intros s t0 H. rewrite part_ok_unfold in H. rewrite !andb_true_iff in H. destruct H as [[Hl Ht] Hg].
  pose proof (local_ok_facts s t0 Hl) as LF.
  pose proof (part_target_facts s t0 Ht) as TF.
  pose proof (pgroup_facts s t0 Hg) as GF.
  assert (HE : forall f els, In (f, els) (mb_groups s) -> Forall elem_post els).
  { intros f els _. apply Forall_forall. intros e _ sg Hok. exact (copy_spec e _ Hok). }
  destruct (fold_inv s t0 LF TF GF HE (mb_fp s) [] (0, t0) eq_refl (inv_init s t0 TF)) as [[n t] [Hr HI]].
  exists n, t. split.
  - destruct s as [fp subs fields pos groups unknown]. rewrite copy_legal_unfold. exact Hr.
  - constructor.
    + exact (after_fp s t0 LF n t HI).
    + exact (after_pos_rel s t0 LF TF n t HI).
    + intros c. exact (after_groups_enc s t0 n t HI c).
    + exact (after_fields s t0 LF TF n t HI).
    + exact (after_unknown s t0 TF n t HI).
    + exact (lf_unk _ _ LF).
    + intros f Hs. rewrite (after_fields s t0 LF TF n t HI). destruct (present_in (mb_fp t0) f) eqn:Ep; [|exact Hs].
      destruct (t0_present_entry s t0 TF f Ep) as [e [He1 He2]].
      destruct (tf_entry _ _ TF e He1) as (_ & _ & _ & _ & Hv). rewrite He2 in Hv. rewrite Hv. discriminate.
    + intros f Ep. destruct (t0_present_entry s t0 TF f Ep) as [e [He1 He2]]. split; [|exists e; split; assumption].
      destruct (tf_entry _ _ TF e He1) as (_ & _ & _ & Hgi & _). rewrite He2 in Hgi.
      rewrite (same_static_group_in _ _ f (lf_static _ _ LF)). exact Hgi.
    + pose proof (strictN_NoDup _ (lf_order _ _ LF)) as Hnd. clear -Hnd.
      induction (mb_pos s) as [|e l IH]; [constructor|]. cbn [map] in *. inversion Hnd as [|? ? Hx Hl]; subst.
      constructor; [|apply IH; exact Hl]. intros Hin. apply Hx. apply in_map_iff in Hin.
      destruct Hin as [y [Hy1 Hy2]]. apply in_map_iff. exists y. split; [rewrite Hy1; reflexivity|exact Hy2].
    + intros f Hin. apply in_map_iff in Hin. destruct Hin as [e [He1 He2]].
      destruct (lf_entry _ _ LF e He2) as [Hp _]. rewrite He1 in Hp. exact Hp.
Qed.
