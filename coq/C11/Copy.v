(* C11 model: MessageBase::copy_legal, MessageBase::move_legal (runtime/message.cpp:277-348) and
   Message::clone (runtime/message.cpp:669-678), transcribed statement by statement on the shared
   object model of Codec/Meta.v (mbase = one MessageBase: _fp, _fields, _pos, _groups, _unknown).
   No proofs here.

   What the C++ does (and the model therefore does):
   * both functions iterate over the SOURCE's trait table (_fp.get_presence(), table order) and
     act on every trait whose `present' bit is set, provided (unless force) the tag is legal in
     the target and not yet present there;
   * the value transferred is the object _fields[fnum] (never the _pos entry);
   * the field is filed in the target with to->add_field(BaseField ptr), i.e. under the key
     to->_fp.getPos(fnum): the position comes from the TARGET's trait table -- the source's
     _pos keys (arrival order for a decoded message) are never consulted;
   * copy_legal recurses element-wise into the group (deep-created target elements, the target's
     GroupBase must already exist: "a deep constructed target message is required");
     move_legal hands over the whole GroupBase object (elements are not re-filed);
   * _unknown is not transferred; present bits of the source are not touched;
   * move_legal leaves null pointers in the source's _fields / _groups and clears its _pos;
   * two defects found with this check have been repaired in /repo and the model follows the
     repaired code: move_legal now tests _groups.find(fnum) against end() (1eb9e00: a decoded
     message holding a group count field "0" has no such entry), copy_legal now obtains the
     target's group with find_add_group (198b3ea: the deep constructor of the FIX44 header does
     not pre-create NoHops).
   Outside this model (and outside the generators): replacing a constructor-owned header field
   (BeginString 8, ...) through add_field frees the object the header's dedicated pointer
   (get_begin_string()) refers to; Message::encode then reads freed memory (observed under ASan). *)
From Coq Require Import NArith ZArith List Bool.
From F8 Require Import Codec.Bytes Codec.Meta.
Import ListNotations.
Local Open Scope N_scope.

(* memory-error sites of these three functions (continuing the numbering of Codec/Meta.v) *)
Definition site_null_field : N := 20.     (* get_field(fnum) == nullptr -> copy();  _fields.find(fnum) == end() -> second *)
Definition site_target_group : N := 21.   (* (before 198b3ea) copy_legal: to->find_group(fnum) == nullptr, gb1->create_group(true) *)
Definition site_groups_end : N := 22.     (* (before 1eb9e00) move_legal: _groups.find(fnum) == end(), gitr->second read and written *)
Definition site_null_moved : N := 23.     (* a null GroupBase pointer handed to the target (model limit, see move_step) *)
Definition site_invalid_metadata : N := 24. (* clone: _ctx._bme.find_ref(_msgType) throws InvalidMetadata (no such
                                               constructor in Meta.exc; unreachable for objects made by the ctx) *)

(* to->_fp.has(fnum) && !to->_fp.get(fnum) *)
Definition legal_absent (to : mbase) (f : N) : bool :=
  match find_trait (mb_fp to) f with
  | Some tr => negb (t_present tr)
  | None => false
  end.

(* pp._field_traits & present && (force || (to->_fp.has(pp._fnum) && !to->_fp.get(pp._fnum))) *)
Definition wants (force : bool) (pp : trait) (to : mbase) : bool :=
  t_present pp && (force || legal_absent to (t_fnum pp)).

(* Presence::const_iterator fpitr(to->_fp.get_presence().end());
   if (force && to->_fp.get(fnum, fpitr, FieldTrait::present)) delete to->replace(fnum, fpitr, nf);
   else to->add_field(nf);                       -- identical in copy_legal and move_legal *)
Definition put_field (force : bool) (to : mbase) (f : N) (v : list N) : res mbase :=
  if force then
    match find_trait (mb_fp to) f with
    | Some tr => if t_present tr then Ok (replace_field to tr v) else add_field to f v
    | None => add_field to f v
    end
  else add_field to f v.

Fixpoint fold_res {A S : Type} (f : A -> S -> res S) (l : list A) (s : S) : res S :=
  match l with
  | [] => Ok s
  | x :: r => bind (f x s) (fun s' => fold_res f r s')
  end.

(* ------------------------------------------------------------------ copy_legal *)
(* the recursive call qq->copy_legal(grc, force) of one source element, as a function of grc *)
Definition elem_copier := mbase -> res (N * mbase).

(* for (const auto *qq : gb->_msgs)
   { MessageBase *grc(gb1->create_group(true)); copied += qq->copy_legal(grc, force); *gb1 += grc; }
   gb1's class is the nested class sg of the target (the object the target's deep constructor made) *)
Fixpoint copy_elems (sg : gmeta) (f : N) (cs : list elem_copier) (st : N * mbase) : res (N * mbase) :=
  match cs with
  | [] => Ok st
  | cq :: r =>
      bind (cq (create_group sg true)) (fun '(n, grc) =>
      copy_elems sg f r (fst st + n, group_add (snd st) f grc))
  end.

(* GroupBase *gb; if (pp._field_traits & group && (gb = find_group(pp._fnum)))
   { GroupBase *gb1(to->find_add_group(pp._fnum)); for ... }
   (since /repo 198b3ea: find_add_group, "not every deep constructor creates all of its groups";
   before that fix it was to->find_group and a null gb1 was dereferenced -- FIX44 header NoHops).
   Meta.find_add_group: the group object is created through the target's create_nested_group when
   missing (a null result is passed to add_group: memory error), untouched when present. *)
Definition copy_group (gcopy : list (N * list elem_copier)) (pp : trait) (st : N * mbase) : res (N * mbase) :=
  let f := t_fnum pp in
  if t_group pp then
    match map_find f gcopy with
    | None => Ok st                              (* find_group(fnum) == nullptr *)
    | Some cs => bind (find_add_group (snd st) f) (fun r => copy_elems (snd r) f cs (fst st, fst r))
    end
  else Ok st.

(* one turn of  for (const auto& pp : _fp.get_presence()) *)
Definition copy_step (force : bool) (fields : list (N * list N)) (gcopy : list (N * list elem_copier))
                     (pp : trait) (st : N * mbase) : res (N * mbase) :=
  if wants force pp (snd st) then
    bind (copy_group gcopy pp st) (fun st1 =>
    match map_find (t_fnum pp) fields with
    | None => OOB site_null_field                (* get_field(fnum)->copy() on nullptr *)
    | Some v => bind (put_field force (snd st1) (t_fnum pp) v) (fun to' => Ok (fst st1 + 1, to'))
    end)
  else Ok st.

(* unsigned MessageBase::copy_legal(MessageBase *to, bool force) const  -> (copied, *to afterwards).
   The source is not modified.  (`copied' is an unsigned: the wrap at 2^32 is not modelled.) *)
Fixpoint copy_legal (force : bool) (src : mbase) {struct src} : mbase -> res (N * mbase) :=
  match src with
  | MB fp _ fields _ groups _ =>
    let gcopy :=
      (fix gl (gs : list (N * list mbase)) : list (N * list elem_copier) :=
         match gs with
         | [] => []
         | (f, els) :: r =>
           (f, (fix el (es : list mbase) : list elem_copier :=
                  match es with
                  | [] => []
                  | e :: r' => copy_legal force e :: el r'
                  end) els) :: gl r
         end) groups in
    fun to => fold_res (copy_step force fields gcopy) fp (0, to)
  end.

(* ------------------------------------------------------------------ move_legal *)
(* the moved-from source: _fields / _groups entries may hold nullptr (None); _pos is empty *)
Inductive husk := HK (fp : list trait) (fields : list (N * option (list N)))
                     (groups : list (N * option (list mbase))) (unknown : list N).
Definition hk_fp (h : husk) := match h with HK a _ _ _ => a end.
Definition hk_fields (h : husk) := match h with HK _ a _ _ => a end.
Definition hk_groups (h : husk) := match h with HK _ _ a _ => a end.
Definition hk_unknown (h : husk) := match h with HK _ _ _ a => a end.

Record mstate := mkMS {
  ms_moved : N; ms_to : mbase;
  ms_fields : list (N * option (list N));     (* the source's _fields while it is being emptied *)
  ms_groups : list (N * option (list mbase))  (* the source's _groups *)
}.

(* if (pp._field_traits & group)
   { auto gitr(_groups.find(fnum));
     if (gitr != _groups.end())      -- since /repo 1eb9e00: "a count of 0 has no group object"
     { GroupBase *gb1(to->find_group(fnum));
       if (gb1) delete to->replace(fnum, gitr->second); else *to += gitr->second;
       gitr->second = nullptr; } }
   (before that fix _groups.end() was dereferenced: a decoded message with "NoX=0") *)
Definition move_group (pp : trait) (st : mstate) : res mstate :=
  let f := t_fnum pp in
  if t_group pp then
    match map_find f (ms_groups st) with
    | None => Ok st                              (* gitr == _groups.end(): nothing to hand over *)
    | Some None => OOB site_null_moved           (* a null GroupBase pointer would be stored in / added to the target:
                                                    not representable in mbase; unreachable when the trait table
                                                    has unique tags (each tag is visited once) *)
    | Some (Some els) =>
        let to := ms_to st in
        let to1 := match map_find f (mb_groups to) with
                   | Some _ => with_groups to (map_set f els (mb_groups to))      (* replace(fnum, GroupBase ptr) *)
                   | None => with_groups to (map_insert f els (mb_groups to))     (* add_group *)
                   end in
        Ok (mkMS (ms_moved st) to1 (ms_fields st) (map_set f None (ms_groups st)))
    end
  else Ok st.

(* auto itr(_fields.find(fnum)); ...replace / add_field(itr->second); itr->second = nullptr; ++moved; *)
Definition move_step (force : bool) (pp : trait) (st : mstate) : res mstate :=
  let f := t_fnum pp in
  if wants force pp (ms_to st) then
    bind (move_group pp st) (fun st1 =>
    match map_find f (ms_fields st1) with
    | None => OOB site_null_field                (* itr == _fields.end() *)
    | Some None => OOB site_null_field           (* add_field(nullptr): what->_fnum *)
    | Some (Some v) =>
        bind (put_field force (ms_to st1) f v) (fun to' =>
        Ok (mkMS (ms_moved st1 + 1) to' (map_set f None (ms_fields st1)) (ms_groups st1)))
    end)
  else Ok st.

(* unsigned MessageBase::move_legal(MessageBase *to, bool force) -> (moved, *to, *this afterwards);
   the final clear_positions() is the husk having no _pos component *)
Definition move_legal (force : bool) (src to : mbase) : res (N * mbase * husk) :=
  let st0 := mkMS 0 to (map (fun e => (fst e, Some (snd e))) (mb_fields src))
                       (map (fun e => (fst e, Some (snd e))) (mb_groups src)) in
  bind (fold_res (move_step force) (mb_fp src) st0) (fun st =>
  Ok (ms_moved st, ms_to st, HK (mb_fp src) (ms_fields st) (ms_groups st) (mb_unknown src))).

(* ------------------------------------------------------------------ Message level *)
(* Message *Message::clone() const:
     const BaseMsgEntry& bme(_ctx._bme.find_ref(_msgType.c_str()));  Message *msg(bme._create._do(true));
     copy_legal(msg); _header->copy_legal(msg->_header); _trailer->copy_legal(msg->_trailer); *)
Definition clone (c : ctx) (m : message) : res message :=
  match find_msg (c_msgs c) (m_type m) with
  | None => OOB site_invalid_metadata
  | Some md =>
    let t := mk_message c md true in
    bind (copy_legal false (m_body m) (m_body t)) (fun rb =>
    bind (copy_legal false (m_hdr m) (m_hdr t)) (fun rh =>
    bind (copy_legal false (m_trl m) (m_trl t)) (fun rt =>
    Ok (mkMsg (m_type t) (snd rh) (snd rb) (snd rt)))))
  end.

(* what the harness does for COPY / MOVE (SCOPY / SMOVE): a fresh deep (shallow) message of the same type, then body,
   header, trailer in that order; results: the three counts and the target (and the husks) *)
Definition copy_msg_to (deep : bool) (c : ctx) (m : message) : res (N * N * N * message) :=
  match find_msg (c_msgs c) (m_type m) with
  | None => OOB site_invalid_metadata
  | Some md =>
    let t := mk_message c md deep in
    bind (copy_legal false (m_body m) (m_body t)) (fun rb =>
    bind (copy_legal false (m_hdr m) (m_hdr t)) (fun rh =>
    bind (copy_legal false (m_trl m) (m_trl t)) (fun rt =>
    Ok (fst rb, fst rh, fst rt, mkMsg (m_type t) (snd rh) (snd rb) (snd rt)))))
  end.

Definition copy_msg := copy_msg_to true.

(* deep = false: a shallow-constructed target (bme->_create._do(false)): its body has no group
   objects (header and trailer are always deep), move_legal then adds the source's group objects
   (add_group of the moved GroupBase) instead of replacing the pre-created ones *)
Definition move_msg_to (deep : bool) (c : ctx) (m : message) : res (N * N * N * message * (husk * husk * husk)) :=
  match find_msg (c_msgs c) (m_type m) with
  | None => OOB site_invalid_metadata
  | Some md =>
    let t := mk_message c md deep in
    bind (move_legal false (m_body m) (m_body t)) (fun '(nb, tb, kb) =>
    bind (move_legal false (m_hdr m) (m_hdr t)) (fun '(nh, th, kh) =>
    bind (move_legal false (m_trl m) (m_trl t)) (fun '(nt, ttr, kt) =>
    Ok (nb, nh, nt, mkMsg (m_type t) th tb ttr, (kh, kb, kt)))))
  end.

Definition move_msg := move_msg_to true.
