(* C11: the per-field output state (precision, value text) of every field, at every level, is the
   same in a copy_legal target as in the source; witness with a rendering that depends on it. *)
From Coq Require Import NArith ZArith List Bool.
From F8 Require Import Codec.Bytes Codec.Meta Codec.Extract Codec.Decode Codec.Encode Codec.Render Codec.Example
                       C11.Copy C11.Spec_C11 C11.Hyp C11.Examples C11.Precision C11.CopyProofs C11.CountProofs.
Import ListNotations.
Local Open Scope N_scope.

(* the field objects of an observed object, in content order, each with its output state *)
Definition tok_state (t : ctok) : option (N * option (N * list N)) :=
  match t with
  | TF f (Some v) => Some (f, Some (field_state v))
  | TF f None => Some (f, None)
  | _ => None
  end.
Definition field_states (o : obj) : list (option (N * option (N * list N))) := map tok_state (content o).

Theorem c11_copy_field_state_lemma : forall s t0, src_ok s t0 = true ->
  exists n t, copy_legal false s t0 = Ok (n, t) /\ field_states (obj_of s) = field_states (obj_of t).
Proof.
  intros s t0 H. destruct (copy_spec s t0 H) as [t [Hc [_ Hcont]]].
  exists (nfields s), t. split; [exact Hc|]. unfold field_states. rewrite Hcont. reflexivity.
Qed.

(* ex_list with the order quantity built as Field<fp_type>(1.23456, 5) and an allocation share as
   Field<fp_type>(400.5, 0), rendered by the real conversions (C08's fast_atof / modp_dtoa) *)
Definition ex_ctx_p : ctx :=
  mkCtx (c_fields ex_ctx) (c_msgs ex_ctx) (c_header ex_ctx) (c_trailer ex_ctx) (c_hdr_init ex_ctx) (c_trl_init ex_ctx)
        (c_begin ex_ctx) render_c11.
Definition ex_alloc_p : mbase := addf (addf (create_group ex_allocs true) 80 [126; 48; 126; 52; 48; 48; 46; 53]) 79 [88].
Definition ex_order_p : mbase :=
  with_elems (addf (addf (addf (create_group ex_orders true) 78 [49]) 11 [79; 50])
                   38 [126; 53; 126; 49; 46; 50; 51; 52; 53; 54]) 78 [ex_alloc_p].
Definition ex_list_p : message :=
  let m := mk_message ex_ctx_p md_list true in
  let b := with_elems (addf (addf (m_body m) 73 [49]) 66 [76; 49]) 73 [ex_order_p] in
  mkMsg (m_type m) (ex_hdr_fields (m_hdr m)) b (m_trl m).
(* the same fields at the default precision *)
Definition ex_alloc_d : mbase := addf (addf (create_group ex_allocs true) 80 [52; 48; 48; 46; 53]) 79 [88].
Definition ex_order_d : mbase :=
  with_elems (addf (addf (addf (create_group ex_orders true) 78 [49]) 11 [79; 50])
                   38 [49; 46; 50; 51]) 78 [ex_alloc_d].
Definition ex_list_d : message :=
  let m := mk_message ex_ctx_p md_list true in
  let b := with_elems (addf (addf (m_body m) 73 [49]) 66 [76; 49]) 73 [ex_order_d] in
  mkMsg (m_type m) (ex_hdr_fields (m_hdr m)) b (m_trl m).

Lemma c11_precision_nonvacuous_lemma :
  clone_ok ex_ctx_p md_list ex_list_p = true /\
  clone_enc ex_ctx_p ex_list_p = enc_of ex_ctx_p ex_list_p /\ enc_of ex_ctx_p ex_list_p <> [] /\
  enc_of ex_ctx_p ex_list_p <> enc_of ex_ctx_p ex_list_d.
Proof. repeat split; vm_compute; (reflexivity || discriminate). Qed.
