From Coq Require Import Extraction ExtrOcamlBasic.
From F8 Require Import Base.Conv Codec.Bytes Codec.Meta Codec.Extract Codec.Decode Codec.Encode Codec.Render
                       C08.NumFloat C11.Copy C11.Spec_C11 C11.Precision.
Extraction Language OCaml.
Extraction "../ocaml/gen/C11/model.ml" keep_types
  cstr itoa_N itoa_Z fast_atoi_u16 fast_atoi_u32 fast_atoi_i32
  find_trait find_sub find_be find_msg ftype_of
  mk_message create_group add_field find_add_group group_add set_value
  real_caps mbase_decode msg_decode factory
  mb_encode msg_encode msg_encode_str
  render_default canonical
  copy_legal move_legal clone copy_msg move_msg copy_msg_to move_msg_to
  prec_split field_state render_c11 is_float_type
  content same_content count_fields c11_ok.
