From Coq Require Import Extraction ExtrOcamlBasic.
From F8 Require Import Base.Conv C29.Rotate C29.Spec_C29.
Extraction Language OCaml.
Extraction "../ocaml/gen/C29/model.ml" keep_types run step rotate initialise c29_ok step_ok lookup.
