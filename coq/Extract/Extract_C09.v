From Coq Require Import Extraction ExtrOcamlBasic.
From F8 Require Import Base.Conv C09.DateTime C09.Spec_C09.
Extraction Language OCaml.
Extraction "../ocaml/gen/C09/model.ml" keep_types roundtrip roundtrip_gen parse_print field_print field_parse
  log_render observe observe_out civil_of_days tv_get_tm c09_civil_ok c09_ok c09_texts_ok c09_parse_ok c09_log_ok log_seconds days_from_civil.
