From Coq Require Import Extraction ExtrOcamlBasic.
From F8 Require Import Base.Conv Sess.Bytes Sess.Msg Sess.Persist Sess.Session Sess.SimpleCodec Sess.Wire C19.Run19 C19.Spec_C19
  C19.CodecDecode.
From F8 Require Codec.Meta Codec.Render.
Extraction Language OCaml.
Extraction "../ocaml/gen/C19/model.ml" keep_types run_line19 run_line19c run_history19 parse_trace parse_history render_trace
  raw_seq c19_ok c19_ok_line codec_decode F8.Codec.Render.render_default.
