From Coq Require Import Extraction ExtrOcamlBasic.
From F8 Require Import Base.Conv Sess.Bytes Sess.Msg Sess.Persist Sess.Session Sess.SimpleCodec Sess.Wire
  C22.Hyp C23.SessionID C23.Spec_C23.
Extraction Language OCaml.
Extraction "../ocaml/gen/C23/model.ml" keep_types run_line parse_trace parse_history run_history render_trace
  is_sid_line sid_line c23_ok_line c23_sid_ok c23_hist_ok schema_ok.
