From Coq Require Import Extraction ExtrOcamlBasic.
From F8 Require Import Base.Conv Codec.Bytes Codec.Meta Codec.Extract Codec.Decode Codec.Encode Codec.Render
                       C07.Chksum C03.Bounds C03.Spec_C03.
Extraction Language OCaml.
Extraction "../ocaml/gen/C03/model.ml" keep_types
  cstr itoa_N itoa_Z fast_atoi_u16 fast_atoi_u32 fast_atoi_i32
  find_trait find_sub find_be find_msg ftype_of
  mk_message create_group add_field find_add_group group_add set_value
  extract_element extract_element_fixed_width extract_header
  real_caps mbase_decode msg_decode factory
  mb_encode msg_encode msg_encode_str
  render_default canonical
  is_bytes c03_wf c03_pseudo c03_factory c03_factory_orig atoi_ub atoi_ub_orig atoi_val msg_ub dt_ub chksum_ub calc_chksum dec_class_gen dec_class enc_class
  obs_of_word c03_ok c03_seq_exc_ok c03_seq_msg_ok.
