From Coq Require Import Extraction ExtrOcamlBasic.
From F8 Require Import Base.Conv C30.Mpmc C30.Spec_C30.
Extraction Language OCaml.
Extraction "../ocaml/gen/C30/model.ml" keep_types exec slot_run norm_nq default_nq
  all_progs c30_ok c30_final_ok slot_ok free_ok backlog_ok.
