From Coq Require Import Extraction ExtrOcamlBasic.
From F8 Require Import Base.Conv C15.Reader C15.Spec_C15.
Extraction Language OCaml.
Extraction "../ocaml/gen/C15/model.ml" keep_types run read_msg sock_read std_params fix42 len_limit max_width extract_element_orig run_orig
  c15_ok spec_parse spec_frame valid_frame bodylen_width.
