From Coq Require Import Extraction ExtrOcamlBasic.
From F8 Require Import Base.Conv C24.Sched C24.Spec_C24.
Extraction Language OCaml.
Extraction "../ocaml/gen/C24/model.ml" keep_types
  decode_dow create_schedule test_o run_o toffset errorticks wday_of billion
  spec_dow c24_ok_dow c24_ok_run c24_ok_cfg c24_ok_cfgrun configured_run active.
