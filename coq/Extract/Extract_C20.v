From Coq Require Import Extraction ExtrOcamlBasic.
From F8 Require Import Base.Conv Sess.Bytes Sess.Msg Sess.Persist Sess.Session Sess.SimpleCodec Sess.Wire
  C20.Scenario C20.Peer C20.Spec_C20.
Extraction Language OCaml.
Extraction "../ocaml/gen/C20/model.ml" keep_types parse_scenario c20_run history_text render_trace parse_trace
  c20_ok c20_exact c20_class r_ops r_tr.
