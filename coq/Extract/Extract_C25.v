From Coq Require Import Extraction ExtrOcamlBasic.
From F8 Require Import Base.Conv Sess.Bytes Sess.Msg Sess.Persist Sess.Session Sess.SimpleCodec Sess.Wire Sess.SendLemmas
  C17.Spec_C17 C25.Conc C25.Syntax C25.Spec_C25 C25.Run.
Extraction Language OCaml.
Extraction "../ocaml/gen/C25/model.ml" keep_types model_line run_cops world0 render_trace parse_cline fparse_trace canon_line c25_ok c25_ok_line c25_phase_ok wf_schema
  trun prun tinit pinit quiescent.
