From Coq Require Import Extraction ExtrOcamlBasic.
From F8 Require Import Base.Conv C08.NumInt C08.NumFloat C08.Spec_C08.
Extraction Language OCaml.
Extraction "../ocaml/gen/C08/model.ml" keep_types
  itoa_int itoa_uint fast_atoi int_roundtrip uint_roundtrip
  f64_of_bits bits_of_f64 modp_dtoa fast_atof float_roundtrip dtoa_stage clamp_prec
  canon_dec c08_int_ok c08_int_strict_ok c08_atoi_ok c08_in_domain c08_render_ok c08_parse_ok c08_float_ok c08_atof_ok.
