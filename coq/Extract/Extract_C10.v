From Coq Require Import Extraction ExtrOcamlBasic.
From Coq Require Import ZArith List.
From F8 Require Import Base.Conv C12.Bisect C10.Realm C10.Spec_C10.
Extraction Language OCaml.
Extraction "../ocaml/gen/C10/model.ml" keep_types
  lower_bound binary_search sortedb str_ltb Z.ltb Z.eqb
  is_valid get_rlm_idx_gen get_rlm_idx describe_gen boolean_field_char
  c10_valid_ok c10_idx_ok c10_desc_ok index_of in_domain
  field_is_valid field_get_rlm_idx_gen field_describe_gen c10_field_valid_ok c10_field_idx_ok c10_field_desc_ok.
