From Coq Require Import Extraction ExtrOcamlBasic.
From F8 Require Import Base.Conv C13.SMap C13.Schema C13.Probe C13.Spec_C13 C14.GroupHash C14.Spec_C14.
Extraction Language OCaml.
Extraction "../ocaml/gen/C14/model.ml" keep_types
  meta_of_schema f8c_meta wf_schema expand_schema schema_defs defs_injective msg_clash
  probe_outcome c13_tables_ok c13_msg_ok c13_tables_ok_m c13_msg_ok_m c14_ok c14_ok_x own_tree gdef_eqb group_hash rothash level_defs
  sm_find node_traits node_subs HEADER TRAILER cls_of_ty rkey lossy_of.
