From Coq Require Import Extraction ExtrOcamlBasic.
From F8 Require Import Base.Conv Sess.Bytes Sess.Msg Sess.Persist Sess.Session Sess.SimpleCodec Sess.Wire Sess.SendLemmas C17.Spec_C17 C17.C17Proofs.
Extraction Language OCaml.
Extraction "../ocaml/gen/C17/model.ml" keep_types run_line parse_trace parse_history run_history render_trace
  c17_ok c17_ok_line wf_schema wf_admin nonul.
