From Coq Require Import Extraction ExtrOcamlBasic.
From F8 Require Import Base.Conv Sess.Bytes Sess.Msg Sess.Persist Sess.Session Sess.SimpleCodec Sess.Wire Sess.SendLemmas C16.Spec_C16.
Extraction Language OCaml.
Extraction "../ocaml/gen/C16/model.ml" keep_types run_line parse_trace parse_history run_history render_trace
  c16_ok c16_ok_line wf_schema.
