From Coq Require Import Extraction ExtrOcamlBasic.
From F8 Require Import Base.Conv C26.SMap C26.PersistSpec C26.MemPersist C26.FilePersist C27.Crash C27.Spec_C27.
Extraction Language OCaml.
Extraction "../ocaml/gen/C27/model.ml" keep_types c27_model c27_result c27_model_orig c27_result_orig c27_ok crash_torn crash_between never_lost
  file_empty ops_wf zero_free.
