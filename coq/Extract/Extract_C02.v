From Coq Require Import Extraction ExtrOcamlBasic.
From F8 Require Import Base.Conv Codec.Bytes Codec.Meta Codec.Extract Codec.Decode Codec.Encode Codec.Render C02.Spec_C02 C02.WfC02 C02.CopyModel.
Extraction Language OCaml.
Extraction "../ocaml/gen/C02/model.ml" keep_types
  cstr itoa_N itoa_Z fast_atoi_u16 fast_atoi_u32 fast_atoi_i32
  find_trait find_sub find_be find_msg ftype_of
  mk_message create_group add_field find_add_group group_add set_value
  extract_element extract_element_fixed_width extract_header
  real_caps mbase_decode msg_decode factory
  mb_encode msg_encode msg_encode_str
  render_default canonical
  tokenize wire_ok tree_of wf_ctx wf_msg fresh copy_legal.
