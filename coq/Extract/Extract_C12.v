From Coq Require Import Extraction ExtrOcamlBasic.
From Coq Require Import ZArith List.
From F8 Require Import Base.Conv C12.Bisect C12.Tables C12.Presorted C12.Spec_C12.
Extraction Language OCaml.
Extraction "../ocaml/gen/C12/model.ml" keep_types
  sortedb str_ltb Z.ltb Z.eqb list_eqb
  gt_find gt_find_ptr gt_at find_be ftha_find direct_size reverse_find
  ps_init_array ps_init_explicit ps_init_hash ps_run
  c12_lookup_ok spec_run c12_ps_ok.
