From Coq Require Import Extraction ExtrOcamlBasic.
From F8 Require Import Base.Conv Sess.Bytes Sess.Msg Sess.Persist Sess.Session Sess.SimpleCodec Sess.Wire
  C20.Peer C21.TwoParty C21.Spec_C21 C21.Loss.
Extraction Language OCaml.
Extraction "../ocaml/gen/C21/model.ml" keep_types c21_model_line parse_schedule parse_ttrace render_ttrace run_schedule
  c21_ok c21_exact c21_ok_line c21_exact_line has_fault c21_class_line.
