From Coq Require Import Extraction ExtrOcamlBasic.
From F8 Require Import Base.Conv Sess.Bytes Sess.Msg Sess.Persist Sess.Session Sess.SimpleCodec Sess.Wire C22.Hyp C22.Spec_C22.
Extraction Language OCaml.
Extraction "../ocaml/gen/C22/model.ml" keep_types run_line parse_trace parse_history run_history render_trace
  c22_ok c22_ok_line c22_first_bad_line schema_ok.
