From Coq Require Import Extraction ExtrOcamlBasic.
From F8 Require Import Base.Conv C26.SMap C26.PersistSpec C26.Spec_C26 C26.MemPersist C26.FilePersist.
Extraction Language OCaml.
Extraction "../ocaml/gen/C26/model.ml" keep_types mem_outputs file_outputs spec_outputs c26_ok
  ops_wf zero_free reopen_safe mem_outputs_orig file_outputs_orig c26_ok_file clip.
