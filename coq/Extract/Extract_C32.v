From Coq Require Import Extraction ExtrOcamlBasic.
From F8 Require Import Base.Conv C32.XmlBase C32.Xml C32.Spec_C32.
Extraction Language OCaml.
Extraction "../ocaml/gen/C32/model.ml" keep_types run_doc parse_doc parse_attrs xlate find_all find_first
  print_el print_attrs escape expected_line c32_ok_tree c32_ok_bytes tree_ok attrs_ok value_ok in_domain.
