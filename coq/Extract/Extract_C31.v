From Coq Require Import Extraction ExtrOcamlBasic.
From F8 Require Import Base.Conv C31.Spec_C31 C31.Timer.
Extraction Language OCaml.
Extraction "../ocaml/gen/C31/model.ml" keep_types run_script c31_ok c31_mon hist.
