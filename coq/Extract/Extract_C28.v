From Coq Require Import Extraction ExtrOcamlBasic.
From F8 Require Import Base.Conv C28.Spec_C28 C28.LoggerQ.
Extraction Language OCaml.
Extraction "../ocaml/gen/C28/model.ml" keep_types run_case c28_ok file_sound file_complete rets_ok.
