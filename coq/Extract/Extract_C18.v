From Coq Require Import Extraction ExtrOcamlBasic.
From F8 Require Import Base.Conv Sess.Bytes Sess.Msg Sess.Persist Sess.Session Sess.SimpleCodec Sess.Wire C18.Spec_C18.
Extraction Language OCaml.
Extraction "../ocaml/gen/C18/model.ml" keep_types run_line parse_trace parse_history run_history render_trace
  c18_ok c18_ok_line c18_judged_line.
