From Coq Require Import Extraction ExtrOcamlBasic.
From F8 Require Import Base.Conv C07.Chksum C07.Spec_C07.
Extraction Language OCaml.
Extraction "../ocaml/gen/C07/model.ml" keep_types calc_chksum calc_chksum_gen c07_ok c07_ok_impl c07_spec.
