(* Model of Message::calc_chksum(const char *from, size_t sz, unsigned offset, int len)
   -- include/fix8/message.hpp, the FIX8_SIZEOF_UNSIGNED_LONG == 8 branch ("steroid chksum").
   Transcribed statement by statement; no proofs in this file. *)
From Coq Require Import ZArith List Bool.
Import ListNotations.
Local Open Scope Z_scope.

Definition W32 : Z := 4294967296.          (* 2^32 *)
Definition W64 : Z := 18446744073709551616. (* 2^64 *)
Definition wrap32 (x : Z) : Z := x mod W32.
Definition OVERFLOW_MASK : Z := 16843008.  (* 1<<8 | 1<<16 | 1<<24 *)

(* fix8pro_collapse_int32: x + (x >> 8) + (x >> 16) + (x >> 24) in uint32_t *)
Definition collapse32 (x : Z) : Z :=
  wrap32 (x + Z.shiftr x 8 + Z.shiftr x 16 + Z.shiftr x 24).

(* The heap block holding the message is [mem]; [from] points at index 0 of it.  A read at
   an index outside the block is an out-of-bounds read (None).  Every read index is also
   recorded as a hull (lo, hi) so that "reads no byte outside the range" can be stated. *)
Definition rd (mem : list Z) (i : Z) : option Z :=
  if i <? 0 then None else nth_error mem (Z.to_nat i).

Definition hull := option (Z * Z).         (* smallest and largest index read so far *)
Definition hull_add (h : hull) (lo hi : Z) : hull :=
  match h with
  | None => Some (lo, hi)
  | Some (a, b) => Some (Z.min a lo, Z.max b hi)
  end.

(* *reinterpret_cast<const uint32_t*>(p): little-endian 32-bit load *)
Definition load32 (mem : list Z) (i : Z) : option Z :=
  match rd mem i, rd mem (i + 1), rd mem (i + 2), rd mem (i + 3) with
  | Some b0, Some b1, Some b2, Some b3 => Some (b0 + 256 * b1 + 65536 * b2 + 16777216 * b3)
  | _, _, _, _ => None
  end.

(* (int)(char)b on a platform with signed char *)
Definition schar (b : Z) : Z := if b <? 128 then b else b - 256.

Record wstate := { w_ret : Z; w_overflow : Z; w_tmp : Z }.

(* one iteration of the word loop at index ii (relative to from + offset = base) *)
Definition word_step (st : wstate) (next : Z) (ii : Z) : wstate :=
  let expected_overflow := Z.lxor (Z.land (w_ret st) OVERFLOW_MASK) (Z.land OVERFLOW_MASK next) in
  let ret := wrap32 (w_ret st + next) in
  let tmp := wrap32 (w_tmp st + Z.land (Z.lxor expected_overflow ret) OVERFLOW_MASK) in
  if negb (ii =? 0) && (ii mod 256 =? 0)
  then {| w_ret := ret; w_overflow := wrap32 (w_overflow st + collapse32 tmp); w_tmp := 0 |}
  else {| w_ret := ret; w_overflow := w_overflow st; w_tmp := tmp |}.

(* for (; ii < eeii; ii += 4) ...  -- fuel-recursive; out of fuel is [None] together with OOB,
   Chksum proofs show fuel = S (length mem) is never exhausted without an OOB read *)
Fixpoint word_loop (fuel : nat) (mem : list Z) (base eeii ii : Z) (st : wstate) (h : hull)
  : option (wstate * Z * hull) :=
  if ii <? eeii then
    match fuel with
    | O => None
    | S fuel' =>
      match load32 mem (base + ii) with
      | None => None
      | Some next =>
        word_loop fuel' mem base eeii (ii + 4) (word_step st next ii)
                  (hull_add h (base + ii) (base + ii + 3))
      end
    end
  else Some (st, ii, h).

(* for (; ii < elen; ret += from[ii++]); *)
Fixpoint tail_loop (fuel : nat) (mem : list Z) (base elen ii : Z) (ret : Z) (h : hull)
  : option (Z * hull) :=
  if ii <? elen then
    match fuel with
    | O => None
    | S fuel' =>
      match rd mem (base + ii) with
      | None => None
      | Some b => tail_loop fuel' mem base elen (ii + 1) (wrap32 (ret + schar b))
                            (hull_add h (base + ii) (base + ii))
      end
    end
  else Some (ret, h).

(* no_len_uses_remaining: [true] models the repaired code (elen = sz - offset when len = -1),
   [false] the original (elen = sz).  The pinned tree's behaviour is selected by the tie. *)
Definition elen_of (fixed : bool) (sz offset len : Z) : Z :=
  if len =? -1 then (if fixed then (sz - offset) mod W64 else sz)
  else len mod W64.          (* int converted to size_t *)

Definition calc_chksum_gen (fixed : bool) (mem : list Z) (sz offset len : Z) : option (Z * hull) :=
  let elen := elen_of fixed sz offset len in
  let eeii := elen - elen mod 8 in
  let fuel := S (length mem) in
  match word_loop fuel mem offset eeii 0 {| w_ret := 0; w_overflow := 0; w_tmp := 0 |} None with
  | None => None
  | Some (st, ii, h) =>
    let ret := collapse32 (w_ret st) in
    let overflow := wrap32 (w_overflow st + collapse32 (w_tmp st)) in
    match tail_loop fuel mem offset elen ii ret h with
    | None => None
    | Some (ret', h') => Some (Z.land (wrap32 (ret' - overflow)) 255, h')
    end
  end.

(* the current tree *)
Definition calc_chksum := calc_chksum_gen true.
Definition calc_chksum_orig := calc_chksum_gen false.
