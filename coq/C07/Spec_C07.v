(* The property C07 as an executable predicate on observables (used both by the theorems and,
   after extraction, as the oracle applied to the implementation's results). *)
From Coq Require Import ZArith List Bool.
From F8 Require Import C07.Chksum.
Import ListNotations.
Local Open Scope Z_scope.

Definition bytesum (l : list Z) : Z := fold_right Z.add 0 l.
Definition sub (mem : list Z) (off len : Z) : list Z :=
  firstn (Z.to_nat len) (skipn (Z.to_nat off) mem).

(* the range the property talks about: [off, off+len), or the remainder [off, sz) *)
Definition range_len (sz off len : Z) : Z := if len =? -1 then sz - off else len.

Definition c07_spec (mem : list Z) (sz off len : Z) : Z :=
  bytesum (sub mem off (range_len sz off len)) mod 256.

Definition hull_within (h : hull) (lo hi : Z) : bool :=
  match h with None => true | Some (a, b) => (lo <=? a) && (b <? hi) end.

(* oracle on a model result (value and hull of reads) *)
Definition c07_ok (mem : list Z) (sz off len : Z) (r : option (Z * hull)) : bool :=
  match r with
  | None => false
  | Some (v, h) => (v =? c07_spec mem sz off len) && hull_within h off (off + range_len sz off len)
  end.

(* oracle on an implementation result: the value, or a trap *)
Definition c07_ok_impl (mem : list Z) (sz off len : Z) (r : option Z) : bool :=
  match r with None => false | Some v => v =? c07_spec mem sz off len end.

Definition bytes_ok (mem : list Z) : bool := forallb (fun b => (0 <=? b) && (b <? 256)) mem.
