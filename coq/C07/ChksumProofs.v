(* Proofs about the model of Message::calc_chksum (C07). *)
From Coq Require Import ZArith Lia Bool List.
From F8 Require Import C07.Chksum C07.Spec_C07.
Import ListNotations.
Local Open Scope Z_scope.
Ltac Zify.zify_post_hook ::= Z.div_mod_to_equations.

(* ------------------------------------------------------------------ A. carries and bits *)

Definition carry (a b k : Z) : Z := (a mod 2^k + b mod 2^k) / 2^k.

Lemma carry_01 a b k : 0 <= k -> carry a b k = 0 \/ carry a b k = 1.
Proof.
  intros Hk. unfold carry.
  assert (H : 0 < 2^k) by (apply Z.pow_pos_nonneg; lia).
  pose proof (Z.mod_pos_bound a (2^k) H). pose proof (Z.mod_pos_bound b (2^k) H).
  assert (0 <= (a mod 2^k + b mod 2^k) / 2^k < 2).
  { split. apply Z.div_pos; lia. apply Z.div_lt_upper_bound; lia. }
  lia.
Qed.

Lemma add_div_pow a b k : 0 <= k ->
  (a + b) / 2^k = a / 2^k + b / 2^k + carry a b k.
Proof.
  intros Hk. unfold carry.
  assert (H : 0 < 2^k) by (apply Z.pow_pos_nonneg; lia).
  rewrite (Z.div_mod a (2^k)) at 1 by lia.
  rewrite (Z.div_mod b (2^k)) at 1 by lia.
  replace (2^k * (a / 2^k) + a mod 2^k + (2^k * (b / 2^k) + b mod 2^k))
     with ((a / 2^k + b / 2^k) * 2^k + (a mod 2^k + b mod 2^k)) by ring.
  rewrite Z.div_add_l by lia. ring.
Qed.

Lemma testbit_b2z a k : 0 <= k -> Z.b2z (Z.testbit a k) = (a / 2^k) mod 2.
Proof. intros; apply Z.testbit_spec'; assumption. Qed.

(* bit k of (a xor b xor (a+b)) is the carry into bit k *)
Lemma carry_bit a b k : 0 <= k ->
  Z.b2z (Z.testbit (Z.lxor (Z.lxor a b) (a + b)) k) = carry a b k.
Proof.
  intros Hk. rewrite !Z.lxor_spec.
  pose proof (testbit_b2z a k Hk) as Ha. pose proof (testbit_b2z b k Hk) as Hb.
  pose proof (testbit_b2z (a+b) k Hk) as Hs. rewrite add_div_pow in Hs by assumption.
  destruct (carry_01 a b k Hk) as [Hc|Hc]; rewrite Hc in *;
  destruct (Z.testbit a k), (Z.testbit b k), (Z.testbit (a+b) k); cbn [Z.b2z xorb] in *; lia.
Qed.

Lemma land_pow2 x k : 0 <= k -> Z.land x (2^k) = Z.b2z (Z.testbit x k) * 2^k.
Proof.
  intros Hk. apply Z.bits_inj'. intros n Hn.
  rewrite Z.land_spec, Z.pow2_bits_eqb by assumption.
  destruct (Z.eqb_spec k n) as [->|Hne].
  - rewrite andb_true_r. rewrite Z.mul_pow2_bits by assumption.
    rewrite Z.sub_diag. symmetry. apply Z.b2z_bit0.
  - rewrite andb_false_r. symmetry.
    destruct (Z.lt_ge_cases n k) as [Hlt|Hge].
    + apply Z.mul_pow2_bits_low. assumption.
    + rewrite Z.mul_pow2_bits by assumption.
      destruct (Z.testbit x k); cbn [Z.b2z].
      * replace 1 with (2^0) by reflexivity. apply Z.pow2_bits_false. lia.
      * apply Z.bits_0.
Qed.

Lemma mask_split : OVERFLOW_MASK = Z.lor (Z.lor (2^8) (2^16)) (2^24).
Proof. reflexivity. Qed.

Lemma land_mask x :
  Z.land x OVERFLOW_MASK =
  Z.b2z (Z.testbit x 8) * 2^8 + Z.b2z (Z.testbit x 16) * 2^16 + Z.b2z (Z.testbit x 24) * 2^24.
Proof.
  rewrite mask_split, !Z.land_lor_distr_r, !land_pow2 by lia.
  destruct (Z.testbit x 8), (Z.testbit x 16), (Z.testbit x 24); reflexivity.
Qed.

Lemma mask_bits k : k = 8 \/ k = 16 \/ k = 24 -> Z.testbit OVERFLOW_MASK k = true.
Proof. intros [->|[->| ->]]; reflexivity. Qed.

Lemma mask_step_bit r n k : k = 8 \/ k = 16 \/ k = 24 ->
  Z.b2z (Z.testbit (Z.lxor (Z.lxor (Z.land r OVERFLOW_MASK) (Z.land OVERFLOW_MASK n)) (wrap32 (r + n))) k)
  = carry r n k.
Proof.
  intros Hk. assert (0 <= k < 32) by lia.
  rewrite <- carry_bit by lia.
  rewrite !Z.lxor_spec, !Z.land_spec, (mask_bits k Hk), andb_true_r, andb_true_l.
  unfold wrap32, W32. change 4294967296 with (2^32).
  rewrite Z.mod_pow2_bits_low by lia. reflexivity.
Qed.

Lemma mask_step r n :
  Z.land (Z.lxor (Z.lxor (Z.land r OVERFLOW_MASK) (Z.land OVERFLOW_MASK n)) (wrap32 (r + n))) OVERFLOW_MASK
  = carry r n 8 * 2^8 + carry r n 16 * 2^16 + carry r n 24 * 2^24.
Proof.
  rewrite land_mask, !mask_step_bit by lia. reflexivity.
Qed.

(* ------------------------------------------------------------------ B. byte-lane sums *)

Definition bs32 (y : Z) : Z :=
  y mod 256 + (y / 256) mod 256 + (y / 65536) mod 256 + (y / 16777216) mod 256.

Lemma bs32_add r n : 0 <= r < W32 -> 0 <= n < W32 ->
  exists q, bs32 (wrap32 (r + n)) =
            bs32 r + bs32 n + carry r n 8 + carry r n 16 + carry r n 24 - 256 * q.
Proof.
  unfold wrap32, W32. intros Hr Hn. unfold bs32, carry.
  change (2^8) with 256. change (2^16) with 65536. change (2^24) with 16777216.
  exists ((r mod 256 + n mod 256)/256 + (r mod 65536 + n mod 65536)/65536
          + (r mod 16777216 + n mod 16777216) / 16777216 + (r+n)/4294967296).
  lia.
Qed.

Lemma collapse_bs32 y : 0 <= y < W32 -> exists q, collapse32 y = bs32 y + 256 * q /\ 0 <= collapse32 y < W32.
Proof.
  unfold collapse32, wrap32, bs32, W32. intros Hy. rewrite !Z.shiftr_div_pow2 by lia.
  change (2^8) with 256. change (2^16) with 65536. change (2^24) with 16777216.
  set (y1 := (y / 256) mod 256). set (y2 := (y / 65536) mod 256). set (y3 := (y / 16777216) mod 256).
  set (s := y + y / 256 + y / 65536 + y / 16777216).
  exists (y1 + 256 * y2 + 65536 * y3 + y2 + 256 * y3 + y3 - 16777216 * (s / 4294967296)).
  subst s y1 y2 y3. lia.
Qed.

Lemma collapse_lanes x1 x2 x3 : 0 <= x1 < 256 -> 0 <= x2 < 256 -> 0 <= x3 < 256 ->
  exists q, collapse32 (x1 * 2^8 + x2 * 2^16 + x3 * 2^24) = x1 + x2 + x3 + 256 * q
            /\ 0 <= collapse32 (x1 * 2^8 + x2 * 2^16 + x3 * 2^24) < W32.
Proof.
  intros H1 H2 H3. unfold collapse32, wrap32, W32. rewrite !Z.shiftr_div_pow2 by lia.
  change (2^8) with 256. change (2^16) with 65536. change (2^24) with 16777216.
  set (t := x1 * 256 + x2 * 65536 + x3 * 16777216).
  assert (E1 : t / 256 = x1 + x2 * 256 + x3 * 65536) by (subst t; lia).
  assert (E2 : t / 65536 = x2 + x3 * 256) by (subst t; lia).
  assert (E3 : t / 16777216 = x3) by (subst t; lia).
  rewrite E1, E2, E3.
  set (s := t + (x1 + x2 * 256 + x3 * 65536) + (x2 + x3 * 256) + x3).
  exists (x1 + 257 * x2 + 65793 * x3 - 16777216 * (s / 4294967296)).
  subst s t. lia.
Qed.

(* ------------------------------------------------------------------ C. memory and prefix sums *)

Definition psum (mem : list Z) (off i : Z) : Z := bytesum (sub mem off i).

Lemma bytesum_app a b : bytesum (a ++ b) = bytesum a + bytesum b.
Proof. unfold bytesum. induction a as [|x a IH]; cbn [app fold_right]; [lia | rewrite IH; lia]. Qed.

Lemma firstn_S_nth {A} (d : A) (l : list A) (n : nat) : (n < length l)%nat ->
  firstn (S n) l = firstn n l ++ [nth n l d].
Proof.
  revert n. induction l as [|x l IH]; intros n Hn; cbn [length] in Hn; [lia|].
  destruct n as [|n]; [reflexivity|].
  change (x :: firstn (S n) l = x :: (firstn n l ++ [nth n l d])).
  rewrite IH by lia. reflexivity.
Qed.

Lemma nth_skipn {A} (d : A) (l : list A) (k n : nat) : nth n (skipn k l) d = nth (k + n) l d.
Proof.
  revert l. induction k as [|k IH]; intros l; [reflexivity|].
  destruct l as [|x l]; cbn [skipn plus nth]; [destruct n; reflexivity | apply IH].
Qed.

Lemma rd_nth mem i : 0 <= i < Z.of_nat (length mem) -> rd mem i = Some (nth (Z.to_nat i) mem 0).
Proof.
  intros Hi. unfold rd. destruct (Z.ltb_spec i 0); [lia|].
  apply nth_error_nth'. lia.
Qed.

Lemma byte_range mem k : bytes_ok mem = true -> (k < length mem)%nat -> 0 <= nth k mem 0 < 256.
Proof.
  unfold bytes_ok. rewrite forallb_forall. intros H Hk.
  specialize (H (nth k mem 0) (nth_In _ _ Hk)). lia.
Qed.

Lemma psum_0 mem off : psum mem off 0 = 0.
Proof. reflexivity. Qed.

Lemma psum_step mem off i : 0 <= off -> 0 <= i -> off + i < Z.of_nat (length mem) ->
  psum mem off (i + 1) = psum mem off i + nth (Z.to_nat (off + i)) mem 0.
Proof.
  intros Ho Hi Hlt. unfold psum, sub.
  replace (Z.to_nat (i + 1)) with (S (Z.to_nat i)) by lia.
  rewrite (firstn_S_nth 0) by (rewrite skipn_length; lia).
  rewrite bytesum_app, nth_skipn. cbn [bytesum fold_right].
  replace (Z.to_nat off + Z.to_nat i)%nat with (Z.to_nat (off + i)) by lia. lia.
Qed.

Lemma load32_ok mem off ii : bytes_ok mem = true -> 0 <= off -> 0 <= ii ->
  off + ii + 4 <= Z.of_nat (length mem) ->
  exists next, load32 mem (off + ii) = Some next /\ 0 <= next < W32 /\
               psum mem off (ii + 4) = psum mem off ii + bs32 next.
Proof.
  intros Hb Ho Hi Hlen. unfold load32.
  rewrite !rd_nth by lia.
  set (b0 := nth (Z.to_nat (off + ii)) mem 0).
  set (b1 := nth (Z.to_nat (off + ii + 1)) mem 0).
  set (b2 := nth (Z.to_nat (off + ii + 2)) mem 0).
  set (b3 := nth (Z.to_nat (off + ii + 3)) mem 0).
  assert (H0 : 0 <= b0 < 256) by (apply byte_range; [assumption | lia]).
  assert (H1 : 0 <= b1 < 256) by (apply byte_range; [assumption | lia]).
  assert (H2 : 0 <= b2 < 256) by (apply byte_range; [assumption | lia]).
  assert (H3 : 0 <= b3 < 256) by (apply byte_range; [assumption | lia]).
  eexists. split; [reflexivity|]. split; [unfold W32; lia|].
  replace (ii + 4) with (ii + 1 + 1 + 1 + 1) by lia.
  rewrite !psum_step by lia.
  replace (off + (ii + 1)) with (off + ii + 1) by lia.
  replace (off + (ii + 1 + 1)) with (off + ii + 2) by lia.
  replace (off + (ii + 1 + 1 + 1)) with (off + ii + 3) by lia.
  fold b0 b1 b2 b3. unfold bs32.
  clearbody b0 b1 b2 b3. lia.
Qed.

(* ------------------------------------------------------------------ D. the word loop *)

(* bound on the per-lane carry counters at the loop head with next index ii *)
Definition NB (ii : Z) : Z := if ii =? 0 then 0 else ((ii - 4) mod 256) / 4 + 1.

Definition winv (mem : list Z) (off ii : Z) (st : wstate) : Prop :=
  exists C x1 x2 x3,
    0 <= w_ret st < W32 /\ 0 <= w_overflow st < W32 /\
    (bs32 (w_ret st) - (psum mem off ii + C)) mod 256 = 0 /\
    w_tmp st = x1 * 2^8 + x2 * 2^16 + x3 * 2^24 /\
    0 <= x1 <= NB ii /\ 0 <= x2 <= NB ii /\ 0 <= x3 <= NB ii /\
    (w_overflow st + x1 + x2 + x3 - C) mod 256 = 0.

Lemma NB_bound ii : 0 <= NB ii <= 64.
Proof. unfold NB. destruct (Z.eqb_spec ii 0); lia. Qed.

Lemma NB_next k : 0 <= k -> (4 * k) mod 256 <> 0 \/ k = 0 -> NB (4 * k + 4) = NB (4 * k) + 1.
Proof.
  intros Hk H. unfold NB. destruct (Z.eqb_spec (4 * k + 4) 0); [lia|].
  destruct (Z.eqb_spec (4 * k) 0) as [E|E].
  - replace k with 0 by lia. reflexivity.
  - destruct H as [H|H]; [|lia]. replace (4 * k + 4 - 4) with (4 * k) by lia. lia.
Qed.

Lemma winv_init mem off : winv mem off 0 {| w_ret := 0; w_overflow := 0; w_tmp := 0 |}.
Proof.
  exists 0, 0, 0, 0. cbn [w_ret w_overflow w_tmp]. unfold W32, NB. rewrite psum_0.
  repeat split; try lia; reflexivity.
Qed.

Lemma winv_step mem off k st next :
  0 <= k -> 0 <= next < W32 ->
  psum mem off (4 * k + 4) = psum mem off (4 * k) + bs32 next ->
  winv mem off (4 * k) st -> winv mem off (4 * k + 4) (word_step st next (4 * k)).
Proof.
  intros Hk Hnext Hps (C & x1 & x2 & x3 & Hret & Hov & Hbs & Htmp & Hx1 & Hx2 & Hx3 & Hsum).
  unfold word_step. rewrite mask_step.
  pose proof (NB_bound (4 * k)) as HNB.
  pose proof (carry_01 (w_ret st) next 8 ltac:(lia)) as Hc1.
  pose proof (carry_01 (w_ret st) next 16 ltac:(lia)) as Hc2.
  pose proof (carry_01 (w_ret st) next 24 ltac:(lia)) as Hc3.
  destruct (bs32_add (w_ret st) next Hret Hnext) as [q Hq].
  set (c1 := carry (w_ret st) next 8) in *. set (c2 := carry (w_ret st) next 16) in *.
  set (c3 := carry (w_ret st) next 24) in *.
  assert (Htmp' : wrap32 (w_tmp st + (c1 * 2^8 + c2 * 2^16 + c3 * 2^24))
                  = (x1 + c1) * 2^8 + (x2 + c2) * 2^16 + (x3 + c3) * 2^24).
  { rewrite Htmp. unfold wrap32, W32. change (2^8) with 256. change (2^16) with 65536.
    change (2^24) with 16777216. rewrite Z.mod_small; lia. }
  rewrite Htmp'.
  assert (Hr' : 0 <= wrap32 (w_ret st + next) < W32) by (unfold wrap32, W32; lia).
  assert (Hbs' : (bs32 (wrap32 (w_ret st + next)) - (psum mem off (4 * k + 4) + (C + c1 + c2 + c3))) mod 256 = 0).
  { rewrite Hq, Hps.
    replace (bs32 (w_ret st) + bs32 next + c1 + c2 + c3 - 256 * q - (psum mem off (4 * k) + bs32 next + (C + c1 + c2 + c3)))
      with (bs32 (w_ret st) - (psum mem off (4 * k) + C) + (- q) * 256) by ring.
    rewrite Z.mod_add by lia. exact Hbs. }
  destruct (negb (4 * k =? 0) && ((4 * k) mod 256 =? 0)) eqn:Hflush.
  - (* flush *)
    destruct (collapse_lanes (x1 + c1) (x2 + c2) (x3 + c3) ltac:(lia) ltac:(lia) ltac:(lia)) as (q2 & Hq2 & Hq2b).
    exists (C + c1 + c2 + c3), 0, 0, 0. cbn [w_ret w_overflow w_tmp].
    pose proof (NB_bound (4 * k + 4)).
    split; [exact Hr'|]. split; [unfold wrap32, W32; lia|]. split; [exact Hbs'|].
    split; [reflexivity|]. split; [lia|]. split; [lia|]. split; [lia|].
    rewrite Hq2. unfold wrap32, W32.
    set (o := w_overflow st) in *.
    set (d := (o + (x1 + c1 + (x2 + c2) + (x3 + c3) + 256 * q2)) / 4294967296).
    replace ((o + (x1 + c1 + (x2 + c2) + (x3 + c3) + 256 * q2)) mod 4294967296 + 0 + 0 + 0 - (C + c1 + c2 + c3))
      with ((o + x1 + x2 + x3 - C) + (q2 - 16777216 * d) * 256) by (subst d; lia).
    rewrite Z.mod_add by lia. exact Hsum.
  - (* no flush *)
    assert (HNB' : NB (4 * k + 4) = NB (4 * k) + 1).
    { apply NB_next; [lia|].
      apply andb_false_iff in Hflush. destruct Hflush as [Hf|Hf].
      - right. apply negb_false_iff in Hf. apply Z.eqb_eq in Hf. lia.
      - left. apply Z.eqb_neq in Hf. exact Hf. }
    exists (C + c1 + c2 + c3), (x1 + c1), (x2 + c2), (x3 + c3). cbn [w_ret w_overflow w_tmp].
    split; [exact Hr'|]. split; [exact Hov|]. split; [exact Hbs'|].
    split; [reflexivity|]. split; [lia|]. split; [lia|]. split; [lia|].
    replace (w_overflow st + (x1 + c1) + (x2 + c2) + (x3 + c3) - (C + c1 + c2 + c3))
      with (w_overflow st + x1 + x2 + x3 - C) by ring. exact Hsum.
Qed.

(* ------------------------------------------------------------------ E. read hull *)

Lemma hull_within_add h lo hi a b :
  hull_within h lo hi = true -> lo <= a -> a <= b -> b < hi ->
  hull_within (hull_add h a b) lo hi = true.
Proof.
  destruct h as [[x y]|]; cbn [hull_within hull_add]; intros H Ha Hab Hb.
  - apply andb_true_iff in H. destruct H as [H1 H2].
    apply Z.leb_le in H1. apply Z.ltb_lt in H2.
    apply andb_true_iff. split; [apply Z.leb_le | apply Z.ltb_lt]; lia.
  - apply andb_true_iff. split; [apply Z.leb_le | apply Z.ltb_lt]; lia.
Qed.

(* ------------------------------------------------------------------ F. the loops *)

Lemma word_loop_ok mem off eeii lo hi :
  bytes_ok mem = true -> 0 <= off -> off + eeii <= Z.of_nat (length mem) ->
  lo <= off -> off + eeii <= hi ->
  forall (n fuel : nat) k st h,
    0 <= k -> 4 * k + 4 * Z.of_nat n = eeii -> (n <= fuel)%nat ->
    winv mem off (4 * k) st -> hull_within h lo hi = true ->
    exists st' h', word_loop fuel mem off eeii (4 * k) st h = Some (st', eeii, h')
                   /\ winv mem off eeii st' /\ hull_within h' lo hi = true.
Proof.
  intros Hb Ho Hlen Hlo Hhi. induction n as [|n IH]; intros fuel k st h Hk Heq Hfuel Hinv Hh.
  - assert (E : 4 * k = eeii) by lia. rewrite E in *.
    exists st, h. split; [|split; assumption].
    destruct fuel; cbn [word_loop]; rewrite Z.ltb_irrefl; reflexivity.
  - destruct fuel as [|fuel]; [lia|]. cbn [word_loop].
    destruct (Z.ltb_spec (4 * k) eeii) as [Hlt|Hge]; [|lia].
    destruct (load32_ok mem off (4 * k) Hb Ho ltac:(lia) ltac:(lia)) as (next & Hld & Hnx & Hps).
    rewrite Hld.
    replace (4 * k + 4) with (4 * (k + 1)) by lia.
    apply IH; try lia.
    + replace (4 * (k + 1)) with (4 * k + 4) by lia. apply winv_step; assumption.
    + apply hull_within_add; [assumption | lia | lia | lia].
Qed.

Lemma tail_loop_ok mem off elen lo hi T :
  bytes_ok mem = true -> 0 <= off -> off + elen <= Z.of_nat (length mem) ->
  lo <= off -> off + elen <= hi ->
  forall (n fuel : nat) i ret h,
    0 <= i -> i + Z.of_nat n = elen -> (n <= fuel)%nat ->
    0 <= ret < W32 -> (ret - (T + psum mem off i)) mod 256 = 0 -> hull_within h lo hi = true ->
    exists ret' h', tail_loop fuel mem off elen i ret h = Some (ret', h')
                    /\ 0 <= ret' < W32 /\ (ret' - (T + psum mem off elen)) mod 256 = 0
                    /\ hull_within h' lo hi = true.
Proof.
  intros Hb Ho Hlen Hlo Hhi. induction n as [|n IH]; intros fuel i ret h Hi Heq Hfuel Hret Hinv Hh.
  - assert (E : i = elen) by lia. subst i.
    exists ret, h. split; [|split; [|split]; assumption].
    destruct fuel; cbn [tail_loop]; rewrite Z.ltb_irrefl; reflexivity.
  - destruct fuel as [|fuel]; [lia|]. cbn [tail_loop].
    destruct (Z.ltb_spec i elen) as [Hlt|Hge]; [|lia].
    rewrite rd_nth by lia.
    set (b := nth (Z.to_nat (off + i)) mem 0).
    assert (Hbr : 0 <= b < 256) by (apply byte_range; [assumption | lia]).
    apply IH; try lia.
    + unfold wrap32, W32. lia.
    + rewrite psum_step by lia. fold b. unfold wrap32, W32, schar.
      destruct (Z.ltb_spec b 128); clearbody b; lia.
    + apply hull_within_add; [assumption | lia | lia | lia].
Qed.

(* ------------------------------------------------------------------ G. the routine *)

Lemma ones8 : 255 = Z.ones 8.
Proof. reflexivity. Qed.

Lemma chk_run fixed mem sz off len elen :
  elen_of fixed sz off len = elen ->
  bytes_ok mem = true -> 0 <= off -> 0 <= elen -> off + elen <= Z.of_nat (length mem) ->
  exists h, calc_chksum_gen fixed mem sz off len = Some (psum mem off elen mod 256, h)
            /\ hull_within h off (off + elen) = true.
Proof.
  intros He Hb Ho Hel Hlen. unfold calc_chksum_gen. rewrite He.
  set (eeii := elen - elen mod 8).
  assert (Hee : 0 <= eeii <= elen) by (subst eeii; lia).
  assert (Hm : eeii = 4 * 0 + 4 * Z.of_nat (Z.to_nat (eeii / 4))) by (subst eeii; lia).
  destruct (word_loop_ok mem off eeii off (off + elen) Hb Ho ltac:(lia) ltac:(lia) ltac:(lia)
              (Z.to_nat (eeii / 4)) (S (length mem)) 0 {| w_ret := 0; w_overflow := 0; w_tmp := 0 |} None
              ltac:(lia) ltac:(lia) ltac:(lia) (winv_init mem off) eq_refl)
    as (st' & h1 & Hwl & Hinv & Hh1).
  change (4 * 0) with 0 in Hwl. rewrite Hwl.
  destruct Hinv as (C & x1 & x2 & x3 & Hret & Hov & Hbs & Htmp & Hx1 & Hx2 & Hx3 & Hsum).
  pose proof (NB_bound eeii) as HNB.
  destruct (collapse_bs32 (w_ret st') Hret) as (q1 & Hq1 & Hq1b).
  destruct (collapse_lanes x1 x2 x3 ltac:(lia) ltac:(lia) ltac:(lia)) as (q2 & Hq2 & Hq2b).
  destruct (tail_loop_ok mem off elen off (off + elen) C Hb Ho Hlen ltac:(lia) ltac:(lia)
              (Z.to_nat (elen - eeii)) (S (length mem)) eeii (collapse32 (w_ret st')) h1
              ltac:(lia) ltac:(lia) ltac:(lia) Hq1b) as (ret' & h2 & Htl & Hr' & Hfin & Hh2).
  { rewrite Hq1.
    replace (bs32 (w_ret st') + 256 * q1 - (C + psum mem off eeii))
      with (bs32 (w_ret st') - (psum mem off eeii + C) + q1 * 256) by ring.
    rewrite Z.mod_add by lia. exact Hbs. }
  { exact Hh1. }
  rewrite Htl. exists h2. split; [|exact Hh2].
  f_equal. f_equal.
  rewrite ones8, Z.land_ones by lia. change (2^8) with 256.
  rewrite Htmp, Hq2. unfold wrap32, W32 in *.
  set (P := psum mem off elen) in *. set (o := w_overflow st') in *.
  clearbody P o. lia.
Qed.

Lemma c07_len_lemma mem sz off len :
  bytes_ok mem = true -> 0 <= off -> 0 <= len < 2147483648 ->
  off + len <= Z.of_nat (length mem) ->
  c07_ok mem sz off len (calc_chksum mem sz off len) = true.
Proof.
  intros Hb Ho Hl Hlen.
  assert (Hne : (len =? -1) = false) by (apply Z.eqb_neq; lia).
  destruct (chk_run true mem sz off len len) as (h & Hrun & Hh); try assumption; try lia.
  { unfold elen_of, W64. rewrite Hne. apply Z.mod_small. lia. }
  unfold calc_chksum. rewrite Hrun. unfold c07_ok, c07_spec, range_len. rewrite Hne.
  rewrite Hh. unfold psum. rewrite Z.eqb_refl. reflexivity.
Qed.

Lemma c07_nolen_lemma mem sz off :
  bytes_ok mem = true -> 0 <= off <= sz -> sz <= Z.of_nat (length mem) -> sz < W64 ->
  c07_ok mem sz off (-1) (calc_chksum mem sz off (-1)) = true.
Proof.
  intros Hb Ho Hsz H64.
  destruct (chk_run true mem sz off (-1) (sz - off)) as (h & Hrun & Hh); try assumption; try lia.
  { unfold elen_of. rewrite Z.eqb_refl. apply Z.mod_small. lia. }
  unfold calc_chksum. rewrite Hrun. unfold c07_ok, c07_spec, range_len. change (-1 =? -1) with true. cbv iota.
  rewrite Hh. unfold psum. rewrite Z.eqb_refl. reflexivity.
Qed.

(* the pinned code before the repair: with an offset and no length it reads past the range *)
Lemma c07_nolen_orig_refuted_lemma :
  exists mem sz off, bytes_ok mem = true /\ 0 <= off <= sz /\ sz <= Z.of_nat (length mem) /\
                     c07_ok mem sz off (-1) (calc_chksum_orig mem sz off (-1)) = false.
Proof.
  exists [1; 2], 2, 1. repeat split; try lia; reflexivity.
Qed.

(* the hypotheses of c07_len are satisfiable by a non-trivial input (lanes carry, flush occurs) *)
Lemma c07_nonvacuous_lemma :
  let mem := repeat 255 600 in
  bytes_ok mem = true /\ 0 <= 3 /\ 0 <= 590 < 2147483648 /\ (3 + 590 <=? Z.of_nat (length mem)) = true /\
  calc_chksum mem 600 3 590 = Some ((590 * 255) mod 256, Some (3, 592)).
Proof.
  cbv zeta. repeat split; try lia; vm_compute; reflexivity.
Qed.
