(* Codec core, part 2: schema metadata (ctx), the message object (MessageBase / Message) and
   the container operations of include/fix8/message.hpp and traits.hpp.  No proofs here.

   ctx  = what the f8c-generated tables contain (dumped from the compiled code on every run):
          field table, message table, header, trailer, BeginString.  Realms are not modelled:
          decode creates fields with rv = -1, so the realm never influences a value.
   trait = one FieldTrait {fnum, ftype, pos, component, bits}; the bits are kept as booleans.
   gmeta = a trait table plus the nested group classes reachable through
          create_nested_group (a rose tree), plus [deep]: whether the deep constructor
          pre-populates _groups with (empty) GroupBase objects.
   mbase = one MessageBase object. *)
From Coq Require Import NArith ZArith List Bool.
From F8 Require Import Codec.Bytes.
Import ListNotations.
Local Open Scope N_scope.

(* ---------------------------------------------------------------- FieldTrait::FieldType *)
Definition ft_int : N := 1.        Definition ft_Length : N := 2.
Definition ft_end_int : N := 6.    (* ft_DayOfMonth *)
Definition ft_char : N := 7.       Definition ft_Boolean : N := 8.
Definition ft_float : N := 9.      Definition ft_end_float : N := 14.
Definition ft_string : N := 15.    Definition ft_MonthYear : N := 21.
Definition ft_UTCTimestamp : N := 22. Definition ft_UTCTimeOnly : N := 23.
Definition ft_UTCDateOnly : N := 24.  Definition ft_LocalMktDate : N := 25.
Definition ft_TZTimeOnly : N := 26.   Definition ft_TZTimestamp : N := 27.
Definition ft_data : N := 28.      Definition ft_XMLData : N := 29.
Definition is_int_type (t : N) : bool := (ft_int <=? t) && (t <=? ft_end_int).
Definition is_float_type (t : N) : bool := (ft_float <=? t) && (t <=? ft_end_float).

Definition Common_BeginString : N := 8.
Definition Common_BodyLength : N := 9.
Definition Common_CheckSum : N := 10.
Definition Common_MsgType : N := 35.

(* ---------------------------------------------------------------- traits *)
Record trait := mkT {
  t_fnum : N; t_ftype : N; t_pos : N; t_comp : N;
  t_mand : bool;      (* bit 0 mandatory *)
  t_present : bool;   (* bit 1 present   -- dynamic, per object *)
  t_haspos : bool;    (* bit 2 position *)
  t_group : bool;     (* bit 3 group *)
  t_iscomp : bool;    (* bit 4 component *)
  t_suppress : bool;  (* bit 5 suppress  -- dynamic, per object *)
  t_auto : bool       (* bit 6 automatic *)
}.

Definition set_present (v : bool) (t : trait) : trait :=
  mkT (t_fnum t) (t_ftype t) (t_pos t) (t_comp t) (t_mand t) v (t_haspos t) (t_group t)
      (t_iscomp t) (t_suppress t) (t_auto t).
Definition set_suppress (v : bool) (t : trait) : trait :=
  mkT (t_fnum t) (t_ftype t) (t_pos t) (t_comp t) (t_mand t) (t_present t) (t_haspos t)
      (t_group t) (t_iscomp t) v (t_auto t).

(* Presence::find (hash array: key < _sz && arr[ftha[key]].fnum == key; on a table with unique
   keys that is the entry with that fnum) *)
Fixpoint find_trait (ts : list trait) (f : N) : option trait :=
  match ts with
  | [] => None
  | x :: r => if t_fnum x =? f then Some x else find_trait r f
  end.
Fixpoint upd_trait (g : trait -> trait) (ts : list trait) (f : N) : list trait :=
  match ts with
  | [] => []
  | x :: r => if t_fnum x =? f then g x :: r else x :: upd_trait g r f
  end.
(* FieldTraits::getPos *)
Definition getPos (t : trait) : N := if t_haspos t then t_pos t else 0.
(* FieldTraits::find_missing: first (table order) mandatory trait without present *)
Fixpoint find_missing (ts : list trait) : option N :=
  match ts with
  | [] => None
  | x :: r => if t_mand x && negb (t_present x) then Some (t_fnum x) else find_missing r
  end.

Inductive gmeta := GM (traits : list trait) (subs : list (N * gmeta)) (deep : bool).
Definition g_traits (g : gmeta) := match g with GM t _ _ => t end.
Definition g_subs (g : gmeta) := match g with GM _ s _ => s end.
Definition g_deep (g : gmeta) := match g with GM _ _ d => d end.
Fixpoint find_sub (ss : list (N * gmeta)) (f : N) : option gmeta :=
  match ss with
  | [] => None
  | (k, g) :: r => if k =? f then Some g else find_sub r f
  end.

(* per-type canonicalisation Field<T>(text).print(): supplied with the ctx (see Render.v for
   the default instance; C08/C09 provide the numeric and date/time instances) *)
Definition render_t := N -> list N -> list N.

Record msgdef := mkMD { md_type : list N; md_admin : bool; md_meta : gmeta }.
Record ctx := mkCtx {
  c_fields : list (N * N);               (* field table: fnum -> ftype (F8MetaCntx::_be) *)
  c_msgs : list msgdef;                  (* message table (F8MetaCntx::_bme) *)
  c_header : gmeta;
  c_trailer : gmeta;
  c_hdr_init : list (N * (N * list N));  (* header ctor add_preamble: (pos, (fnum, value)) *)
  c_trl_init : list (N * (N * list N));
  c_begin : list N;                      (* _beginStr *)
  c_render : render_t
}.
(* F8MetaCntx::find_be *)
Fixpoint find_be (fs : list (N * N)) (f : N) : option N :=
  match fs with
  | [] => None
  | (k, ty) :: r => if k =? f then Some ty else find_be r f
  end.
Fixpoint list_eqb (a b : list N) : bool :=
  match a, b with
  | [], [] => true
  | x :: a', y :: b' => (x =? y) && list_eqb a' b'
  | _, _ => false
  end.
(* MsgTable::find_ptr(mtype) *)
Fixpoint find_msg (ms : list msgdef) (ty : list N) : option msgdef :=
  match ms with
  | [] => None
  | m :: r => if list_eqb (md_type m) ty then Some m else find_msg r ty
  end.
(* _preamble_sz = 2 + |beginStr| + 1 + 3 *)
Definition preamble_sz (c : ctx) : N := 2 + lenN (c_begin c) + 1 + 3.

(* ---------------------------------------------------------------- objects *)
(* _fields : std::map<fnum, BaseField*>; _pos : std::multimap<unsigned short, BaseField*>
   (kept in iteration order: by key, equal keys in insertion order).  A field object is its
   text.  _pos entries carry (fnum, value) because encode walks _pos and prints the pointed-to
   object; _fields[f] and the first _pos entry with fnum f denote the same C++ object. *)
Inductive mbase := MB
  (fp : list trait)                     (* _fp: this object's copy of the trait table *)
  (subs : list (N * gmeta))             (* create_nested_group of the owning class *)
  (fields : list (N * list N))          (* _fields, sorted by fnum *)
  (pos : list (N * (N * list N)))       (* _pos *)
  (groups : list (N * list mbase))      (* _groups: fnum -> GroupBase::_msgs, sorted by fnum *)
  (unknown : list N).                   (* _unknown *)
Definition mb_fp (m : mbase) := match m with MB a _ _ _ _ _ => a end.
Definition mb_subs (m : mbase) := match m with MB _ a _ _ _ _ => a end.
Definition mb_fields (m : mbase) := match m with MB _ _ a _ _ _ => a end.
Definition mb_pos (m : mbase) := match m with MB _ _ _ a _ _ => a end.
Definition mb_groups (m : mbase) := match m with MB _ _ _ _ a _ => a end.
Definition mb_unknown (m : mbase) := match m with MB _ _ _ _ _ a => a end.
Definition with_fp (m : mbase) v := match m with MB _ b c d e f => MB v b c d e f end.
Definition with_fields (m : mbase) v := match m with MB a b _ d e f => MB a b v d e f end.
Definition with_pos (m : mbase) v := match m with MB a b c _ e f => MB a b c v e f end.
Definition with_groups (m : mbase) v := match m with MB a b c d _ f => MB a b c d v f end.
Definition with_unknown (m : mbase) v := match m with MB a b c d e _ => MB a b c d e v end.

Record message := mkMsg { m_type : list N; m_hdr : mbase; m_body : mbase; m_trl : mbase }.

(* std::map::insert({k, v}): no effect when the key exists *)
Fixpoint map_insert {A} (k : N) (v : A) (l : list (N * A)) : list (N * A) :=
  match l with
  | [] => [(k, v)]
  | (k', v') :: r => if k <? k' then (k, v) :: l
                     else if k =? k' then l else (k', v') :: map_insert k v r
  end.
Fixpoint map_find {A} (k : N) (l : list (N * A)) : option A :=
  match l with
  | [] => None
  | (k', v) :: r => if k =? k' then Some v else map_find k r
  end.
(* itr->second = v *)
Fixpoint map_set {A} (k : N) (v : A) (l : list (N * A)) : list (N * A) :=
  match l with
  | [] => []
  | (k', v') :: r => if k =? k' then (k', v) :: r else (k', v') :: map_set k v r
  end.
(* std::multimap::insert({p, x}): after the last element whose key is <= p; the key type is
   unsigned short *)
Definition pos_key (p : N) : N := p mod 65536.
Fixpoint pos_insert_k {A} (p : N) (x : A) (l : list (N * A)) : list (N * A) :=
  match l with
  | [] => [(p, x)]
  | (q, y) :: r => if p <? q then (p, x) :: l else (q, y) :: pos_insert_k p x r
  end.
Definition pos_insert {A} (p : N) (x : A) (l : list (N * A)) := pos_insert_k (pos_key p) x l.

(* MessageBase::add_field_decoder(fnum, pos, what) *)
Definition add_field_decoder (m : mbase) (f p : N) (v : list N) : mbase :=
  with_pos (with_fields m (map_insert f v (mb_fields m))) (pos_insert p (f, v) (mb_pos m)).
Definition mark_present (m : mbase) (f : N) : mbase :=
  with_fp m (upd_trait (set_present true) (mb_fp m) f).

(* remove the first _pos entry with this fnum (the entry whose pointer equals _fields[f]);
   returns its key *)
Fixpoint pos_remove (f : N) (l : list (N * (N * list N))) : option N * list (N * (N * list N)) :=
  match l with
  | [] => (None, [])
  | (q, (g, v)) :: r =>
      if g =? f then (Some q, r)
      else let '(k, r') := pos_remove f r in (k, (q, (g, v)) :: r')
  end.
(* MessageBase::replace(fnum, itr, with) for a field found in _fields *)
Definition replace_field (m : mbase) (tr : trait) (v : list N) : mbase :=
  let f := t_fnum tr in
  match map_find f (mb_fields m) with
  | None => m
  | Some _ =>
      let '(k, l) := pos_remove f (mb_pos m) in
      let p := match k with Some q => q | None => getPos tr end in
      mark_present (with_pos (with_fields m (map_set f v (mb_fields m))) (pos_insert p (f, v) l)) f
  end.

(* the value of the object _fields[f] points to, as encode would print it: the setters
   body_length->set(), msg_type->set(), check_sum->set() go through dedicated pointers to the
   objects created by the header/trailer constructor, which are those objects *)
Fixpoint pos_set (f : N) (v : list N) (l : list (N * (N * list N))) : list (N * (N * list N)) :=
  match l with
  | [] => []
  | (q, (g, w)) :: r => if g =? f then (q, (g, v)) :: r else (q, (g, w)) :: pos_set f v r
  end.
Definition set_value (m : mbase) (f : N) (v : list N) : mbase :=
  with_pos (with_fields m (map_set f v (mb_fields m))) (pos_set f v (mb_pos m)).

(* ---------------------------------------------------------------- results *)
Inductive exc :=
| EInvalidMessage            (* InvalidMessage *)
| EDuplicateField (t : N)
| EUnknownField (t : N)
| EMissingMandatory (t : N)  (* MissingMandatoryField("Name (t)") *)
| EFixedWidth                (* MissingMandatoryField("Unable to extract fixed width field") *)
| EValueTooLarge             (* f8Exception("Value size too large") *)
| EMissingGroupField (t : N) (* MissingRepeatingGroupField *)
| EInvalidGroup (t : N)      (* InvalidRepeatingGroup *)
| EBadCheckSum (v : N)
| EInvalidField (t : N)      (* add_field of a field that is not legal *)
| EMissingComponent.

(* OOB sites (memory errors the sanitizers would report) *)
Definition site_tag_write : N := 1.     (* *tag++ / *tag = 0 beyond the tag buffer *)
Definition site_val_write : N := 2.     (* *val++ / *val = 0 / memcpy beyond the val buffer *)
Definition site_read : N := 3.          (* read beyond the end of the input string *)
Definition site_uninit_tag : N := 4.    (* tag[] read past the bytes written so far *)
Definition site_null_group : N := 5.    (* add_group(nullptr): create_nested_group gave 0 *)
Definition site_trait_end : N := 6.     (* fpitr == end() dereferenced in encode *)
Definition site_encode_buf : N := 7.    (* Message::encode(f8String&): output[] overrun *)
Definition site_short_msg : N := 8.     (* from.data() + from.size() - 7 with size < 7 *)

Inductive res (A : Type) :=
| Ok (a : A)
| Exc (e : exc)
| OOB (site : N)
| Diverge        (* the C++ loops for ever (decode_group without progress) *)
| Fuel.          (* model artefact: recursion fuel exhausted (excluded by fuel lemmas) *)
Arguments Ok {A} a. Arguments Exc {A} e. Arguments OOB {A} site.
Arguments Diverge {A}. Arguments Fuel {A}.

Definition bind {A B} (r : res A) (f : A -> res B) : res B :=
  match r with
  | Ok a => f a
  | Exc e => Exc e
  | OOB s => OOB s
  | Diverge => Diverge
  | Fuel => Fuel
  end.

(* ---------------------------------------------------------------- construction *)
(* GroupBase::create_group(deepctor): new MessageBase on the group's trait table; the deep
   constructor inserts an empty GroupBase for every nested group class *)
Definition deep_groups (g : gmeta) (deepctor : bool) : list (N * list mbase) :=
  if deepctor && g_deep g then fold_right (fun s acc => map_insert (fst s) [] acc) [] (g_subs g)
  else [].
Definition create_group (g : gmeta) (deepctor : bool) : mbase :=
  MB (g_traits g) (g_subs g) [] [] (deep_groups g deepctor) [].

(* header / trailer constructor: add_preamble() = add_field(fnum, pos, obj, false) for each *)
Definition add_init (m : mbase) (e : N * (N * list N)) : mbase :=
  let '(p, (f, v)) := e in mark_present (add_field_decoder m f p v) f.
Definition mk_part (g : gmeta) (init : list (N * (N * list N))) (deepctor : bool) : mbase :=
  fold_left add_init init (create_group g deepctor).

(* bme->_create._do(deepctor): Message ctor always builds header and trailer with deep=true *)
Definition mk_message (c : ctx) (md : msgdef) (deepctor : bool) : message :=
  mkMsg (md_type md) (mk_part (c_header c) (c_hdr_init c) true)
        (create_group (md_meta md) deepctor)
        (mk_part (c_trailer c) (c_trl_init c) true).

(* MessageBase::add_field(BaseField *what): legal -> add_field(fnum, itr, getPos, what, true) *)
Definition add_field (m : mbase) (f : N) (v : list N) : res mbase :=
  match find_trait (mb_fp m) f with
  | None => Exc (EInvalidField f)
  | Some tr =>
      if t_present tr then Ok (replace_field m tr v)
      else Ok (mark_present (add_field_decoder m f (getPos tr) v) f)
  end.

(* MessageBase::find_add_group(fnum, grpbase): the group's element list and whether it had to be
   created; creation through create_nested_group of the owning class (mb_subs) *)
Definition find_add_group (m : mbase) (f : N) : res (mbase * gmeta) :=
  match find_sub (mb_subs m) f with
  | None => OOB site_null_group     (* add_group(nullptr) dereferences the null pointer *)
  | Some g => Ok (with_groups m (map_insert f [] (mb_groups m)), g)   (* no-op when present *)
  end.
(* GroupBase::add(what) on the group f of m *)
Definition group_add (m : mbase) (f : N) (e : mbase) : mbase :=
  match map_find f (mb_groups m) with
  | None => m
  | Some els => with_groups m (map_set f (els ++ [e]) (mb_groups m))
  end.
