(* Codec core, part 1: bytes, C strings, and the integer text conversions the codec itself
   uses for tags, lengths and counts (include/fix8/f8utils.hpp: fast_atoi<T>, itoa<T>).
   Shared by C01..C06 and C11.  No proofs in this file. *)
From Coq Require Import NArith ZArith List Bool.
Import ListNotations.
Local Open Scope N_scope.

Notation byte := N (only parsing).
Notation text := (list N) (only parsing).

Definition SOH : N := 1.     (* default_field_separator *)
Definition EQC : N := 61.    (* default_assignment_separator '=' *)

(* isdigit((char)b): bytes >= 0x80 are negative chars, never digits *)
Definition is_digit (b : N) : bool := (48 <=? b) && (b <=? 57).

(* what a const char* reader sees of a byte sequence: everything before the first NUL *)
Fixpoint cstr (l : list N) : list N :=
  match l with
  | [] => []
  | c :: r => if c =? 0 then [] else c :: cstr r
  end.

(* (int)(char)b with signed char *)
Definition schar (b : N) : Z := if b <? 128 then Z.of_N b else (Z.of_N b - 256)%Z.

(* fast_atoi<T>(str): retval = (retval << 3) + (retval << 1) + *str - '0' until NUL, no digit
   test, no sign handling, arithmetic modulo 2^bits (for T = int the C++ is signed overflow /
   negative shift, i.e. UB: the model wraps like the generated code does). *)
Definition atoi_step (m : Z) (acc : Z) (c : N) : Z := ((acc * 10 + schar c - 48) mod m)%Z.
Definition fast_atoi_mod (m : Z) (s : list N) : Z := fold_left (atoi_step m) (cstr s) 0%Z.
Definition two16 : Z := 65536.
Definition two32 : Z := 4294967296.
Definition two31 : Z := 2147483648.
Definition fast_atoi_u16 (s : list N) : N := Z.to_N (fast_atoi_mod two16 s).
Definition fast_atoi_u32 (s : list N) : N := Z.to_N (fast_atoi_mod two32 s).
Definition to_i32 (z : Z) : Z := let r := (z mod two32)%Z in if (r <? two31)%Z then r else (r - two32)%Z.
(* fast_atoi<int> BEFORE /repo a8219b1 (no sign handling: "-5" gives -25), kept for witnesses *)
Definition fast_atoi_i32_orig (s : list N) : Z := to_i32 (fast_atoi_mod two32 s).
(* fast_atoi<T> for signed T since /repo a8219b1: a leading '-' is consumed and the digits are
   accumulated downwards (retval = retval * 10 - digit), otherwise upwards; still no digit
   test; results outside the int range wrap in the model (signed overflow in the C++).  The
   unsigned instantiations (fast_atoi_u16 / fast_atoi_u32) are unchanged. *)
Definition atoi_step_neg (m : Z) (acc : Z) (c : N) : Z := ((acc * 10 - (schar c - 48)) mod m)%Z.
Definition fast_atoi_i32 (s : list N) : Z :=
  match cstr s with
  | c :: r => if c =? 45 then to_i32 (fold_left (atoi_step_neg two32) r 0%Z)
              else to_i32 (fold_left (atoi_step two32) (c :: r) 0%Z)
  | [] => 0%Z
  end.

(* itoa(value, result, 10) for a non-negative value: decimal digits, most significant first.
   Fuel = bit size + 1 >= number of decimal digits (n < 2^(N.size n)). *)
Fixpoint digits_aux (fuel : nat) (n : N) (acc : list N) : list N :=
  match fuel with
  | O => acc
  | S f => let acc' := (48 + n mod 10) :: acc in
           if n / 10 =? 0 then acc' else digits_aux f (n / 10) acc'
  end.
Definition itoa_N (n : N) : list N := digits_aux (S (N.to_nat (N.size n))) n [].
(* itoa<int>: sign appended after the digits of the magnitude, then reversed *)
Definition itoa_Z (z : Z) : list N :=
  if (z <? 0)%Z then 45 :: itoa_N (Z.to_N (- z)) else itoa_N (Z.to_N z).

(* Message::fmt_chksum: three digits, zero padded (val < 1000 assumed by the C++: buf[4]) *)
Definition fmt_chksum (v : N) : list N :=
  if 99 <? v then itoa_N v else if 9 <? v then 48 :: itoa_N v else [48; 48] ++ itoa_N v.

(* small list helpers on N-indexed lists *)
Fixpoint skipN {A} (n : N) (l : list A) : list A :=
  match l with
  | [] => []
  | x :: r => if n =? 0 then l else skipN (n - 1) r
  end.
Fixpoint firstN {A} (n : N) (l : list A) : list A :=
  match l with
  | [] => []
  | x :: r => if n =? 0 then [] else x :: firstN (n - 1) r
  end.
Fixpoint lenN {A} (l : list A) : N :=
  match l with [] => 0 | _ :: r => N.succ (lenN r) end.
