(* Codec core, part 6: the per-type canonicalisation  render ty text = Field<T>(text).print()
   for the C++ field classes whose conversion is simple enough to be part of the codec model:
     int classes (ft_int .. ft_DayOfMonth): itoa(fast_atoi<int>(text))   (sign handled since a8219b1)
     char:    the first byte of the C string (NUL for the empty string)
     Boolean: 'Y' if toupper(first byte) == 'Y', else 'N'
     string classes and data: the C string verbatim
   For float and date/time classes render_default is the identity: the checks that use it
   generate only texts that are canonical for those types (fixed points of the real
   conversion) and the theorems carry that as the hypothesis vals_canonical; C08 / C09 model
   the real conversions and can be plugged in through ctx.c_render.  No proofs here. *)
From Coq Require Import NArith ZArith List Bool.
From F8 Require Import Codec.Bytes Codec.Meta.
Import ListNotations.
Local Open Scope N_scope.

Definition toupper (b : N) : N := if (97 <=? b) && (b <=? 122) then b - 32 else b.

Definition render_default (ty : N) (v : list N) : list N :=
  if is_int_type ty then itoa_Z (fast_atoi_i32 v)
  else if ty =? ft_char then [match cstr v with x :: _ => x | [] => 0 end]
  else if ty =? ft_Boolean then
    [if toupper (match cstr v with x :: _ => x | [] => 0 end) =? 89 then 89 else 78]
  else if (ty =? ft_TZTimeOnly) || (ty =? ft_TZTimestamp) then []     (* print() returns 0: TODO in field.hpp *)
  else v.

(* the rendering BEFORE /repo a8219b1 (fast_atoi without sign handling), kept for witnesses *)
Definition render_default_orig (ty : N) (v : list N) : list N :=
  if is_int_type ty then itoa_Z (fast_atoi_i32_orig v) else render_default ty v.

(* texts on which render is the identity, per field of an object *)
Definition canonical (r : render_t) (ty : N) (v : list N) : bool := list_eqb (r ty v) v.
