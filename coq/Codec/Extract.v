(* Codec core, part 3: the tokenising primitives of include/fix8/message.hpp and
   runtime/message.cpp, with the capacities of the caller's tag/val buffers as parameters so
   that every write can be checked (the real capacities: tag[32]/val[2048] in extract_header,
   tag[2048]/val[2048] in decode and decode_group, len[32], mtype[32] in factory).
   Since /repo d48d8ce extract_element is bounded (a tag/value that does not fit = extraction
   failure); since ce1e2cc extract_element_fixed_width is bounded too and terminates the tag
   (the old functions are kept as *_orig).
   No proofs here.

   extract_element(const char *from, unsigned sz, char *tag, char *val)
   extract_element_fixed_width(from, sz, val_sz, tag, val)
   extract_header(const f8String& from, char *len, char *mtype) *)
From Coq Require Import NArith ZArith List Bool.
From F8 Require Import Codec.Bytes Codec.Meta.
Import ListNotations.
Local Open Scope N_scope.

Definition MAX_FLD_LENGTH : N := 2048.       (* FIX8_MAX_FLD_LENGTH *)
Definition MAX_MSGTYPE_FIELD_LEN : N := 32.
Definition MAX_MSG_LENGTH : N := 8192.       (* FIX8_MAX_MSG_LENGTH *)
Definition HEADER_CALC_OFFSET : N := 32.

Inductive xres :=
| XOk (tag val : list N) (consumed : N)   (* tag and val as written, without the final NUL *)
| XFail (tag val : list N)                (* returned 0 after "*val = *tag = 0" at the advanced
                                             pointers: the partial tag/val stay in the buffers *)
| XOOB (site : N).

(* the final "*val = *tag = 0" at tag index nt and val index nv *)
Definition zero_write (nt nv tcap vcap : N) (k : xres) : xres :=
  if negb (nt <? tcap) then XOOB site_tag_write
  else if negb (nv <? vcap) then XOOB site_val_write
  else k.

(* Since /repo d48d8ce the buffers are taken by array reference (TagSz = tcap, ValSz = vcap): when a
   tag digit arrives with tcap-1 characters already written, or a value byte with vcap-1 already
   written, both buffers are terminated at the current positions and 0 is returned (XFail with the
   contents so far) -- no write past the buffers any more.
   the loop "for (ii = 0; ii < sz; ++ii)" over from[ii]; [from] is the memory from the start
   pointer to the end of the string object: running off it is a read beyond the buffer.
   inval = state get_value; tag/val are accumulated reversed; nt/nv = bytes written so far *)
Fixpoint xe_loop (from : list N) (sz ii : N) (inval : bool) (tag val : list N) (nt nv : N)
                 (tcap vcap : N) : xres :=
  if ii <? sz then
    match from with
    | [] => XOOB site_read
    | c :: rest =>
      if inval then
        if c =? SOH then zero_write nt nv tcap vcap (XOk (rev tag) (rev val) (ii + 1))
        else if nv + 1 <? vcap then xe_loop rest sz (ii + 1) true tag (c :: val) nt (nv + 1) tcap vcap
        else zero_write nt nv tcap vcap (XFail (rev tag) (rev val))      (* vptr == vend *)
      else
        if is_digit c then
          if nt + 1 <? tcap then xe_loop rest sz (ii + 1) false (c :: tag) val (nt + 1) nv tcap vcap
          else zero_write nt nv tcap vcap (XFail (rev tag) (rev val))    (* tptr == tend *)
        else if c =? EQC then xe_loop rest sz (ii + 1) true tag val nt nv tcap vcap
        else zero_write nt nv tcap vcap (XFail (rev tag) (rev val))
    end
  else zero_write nt nv tcap vcap (XFail (rev tag) (rev val)).

Definition extract_element (from : list N) (sz : N) (tcap vcap : N) : xres :=
  xe_loop from sz 0 false [] [] 0 0 tcap vcap.

(* ORIGINAL code (before /repo d48d8ce), kept for refutation witnesses: unbounded writes.
   the loop "for (ii = 0; ii < sz; ++ii)" over from[ii]; [from] is the memory from the start
   pointer to the end of the string object: running off it is a read beyond the buffer.
   inval = state get_value; tag/val are accumulated reversed; nt/nv = bytes written so far *)
Fixpoint xe_loop_orig (from : list N) (sz ii : N) (inval : bool) (tag val : list N) (nt nv : N)
                 (tcap vcap : N) : xres :=
  if ii <? sz then
    match from with
    | [] => XOOB site_read
    | c :: rest =>
      if inval then
        if c =? SOH then zero_write nt nv tcap vcap (XOk (rev tag) (rev val) (ii + 1))
        else if nv <? vcap then xe_loop_orig rest sz (ii + 1) true tag (c :: val) nt (nv + 1) tcap vcap
        else XOOB site_val_write
      else
        if is_digit c then
          if nt <? tcap then xe_loop_orig rest sz (ii + 1) false (c :: tag) val (nt + 1) nv tcap vcap
          else XOOB site_tag_write
        else if c =? EQC then xe_loop_orig rest sz (ii + 1) true tag val nt nv tcap vcap
        else zero_write nt nv tcap vcap (XFail (rev tag) (rev val))
    end
  else zero_write nt nv tcap vcap (XFail (rev tag) (rev val)).

Definition extract_element_orig (from : list N) (sz : N) (tcap vcap : N) : xres :=
  xe_loop_orig from sz 0 false [] [] 0 0 tcap vcap.

(* extract_element_fixed_width since /repo ce1e2cc (buffers by array reference, TagSz = tcap,
   ValSz = vcap): the digits stop at tcap-1 characters (break -> failure), val_sz > vcap-1 is a
   failure, on success the tag is NUL-terminated before the value copy; every failure returns
   "*val = *tag = 0" on the array starts (both C strings empty).
   Result on success: the digits written, the val_sz value bytes, bytes consumed. *)
Fixpoint xfw_loop (from : list N) (sz ii val_sz : N) (tag : list N) (nt : N) (tcap vcap : N) : xres :=
  if ii <? sz then
    match from with
    | [] => XOOB site_read
    | c :: rest =>
      if is_digit c then
        if nt + 1 <? tcap then xfw_loop rest sz (ii + 1) val_sz (c :: tag) (nt + 1) tcap vcap
        else XFail [] []                                                  (* tptr == tend: break *)
      else
        (* from[ii++] != '=' || val_sz > ValSz - 1 || sz < ii + val_sz -> break *)
        if negb (c =? EQC) || negb (val_sz <? vcap) || (sz <? ii + 1 + val_sz) then XFail [] []
        else if lenN (firstN val_sz rest) <? val_sz then XOOB site_read
        else XOk (rev tag) (firstN val_sz rest) (ii + 1 + val_sz + 1)
    end
  else XFail [] [].

Definition extract_element_fixed_width (from : list N) (sz val_sz : N) (tcap vcap : N) : xres :=
  (* *val = *tag = 0 first *)
  if (0 <? tcap) && (0 <? vcap) then xfw_loop from sz 0 val_sz [] 0 tcap vcap
  else XOOB site_tag_write.

(* ORIGINAL code (before /repo ce1e2cc), kept for refutation witnesses.
   extract_element_fixed_width: the tag digits are copied WITHOUT a terminating NUL; the caller
   then reads tag[] as a C string, i.e. the new digits followed by whatever the buffer held.
   Result on success: the digits written, the val_sz value bytes, bytes consumed. *)
Fixpoint xfw_loop_orig (from : list N) (sz ii val_sz : N) (tag : list N) (nt : N) (tcap vcap : N) : xres :=
  if ii <? sz then
    match from with
    | [] => XOOB site_read
    | c :: rest =>
      if is_digit c then
        if nt <? tcap then xfw_loop_orig rest sz (ii + 1) val_sz (c :: tag) (nt + 1) tcap vcap
        else XOOB site_tag_write
      else
        (* from[ii++] != '=' || sz < ii + val_sz -> break -> return *val = *tag = 0 *)
        if negb (c =? EQC) || (sz <? ii + 1 + val_sz) then zero_write nt 0 tcap vcap (XFail (rev tag) [])
        else if negb (val_sz <? vcap) then XOOB site_val_write        (* val[val_sz] = 0 *)
        else if lenN (firstN val_sz rest) <? val_sz then XOOB site_read
        else XOk (rev tag) (firstN val_sz rest) (ii + 1 + val_sz + 1)
    end
  else zero_write nt 0 tcap vcap (XFail (rev tag) []).

Definition extract_element_fixed_width_orig (from : list N) (sz val_sz : N) (tcap vcap : N) : xres :=
  (* *val = *tag = 0 first *)
  if (0 <? tcap) && (0 <? vcap) then xfw_loop_orig from sz 0 val_sz [] 0 tcap vcap
  else XOOB site_tag_write.

(* The tag buffer of MessageBase::decode as "bytes written so far" (a prefix of tag[]).
   After extract_element wrote digits d and a NUL: *)
Definition tagbuf_after (d : list N) (tb : list N) : list N := d ++ 0 :: skipN (lenN d + 1) tb.
(* After extract_element_fixed_width (since ce1e2cc the tag is terminated): like tagbuf_after *)
Definition tagbuf_after_fw (d : list N) (tb : list N) : list N := d ++ 0 :: skipN (lenN d + 1) tb.
(* ORIGINAL (before ce1e2cc): tag[0] = 0, then the digits over it, no NUL -- stale digits stay *)
Definition tagbuf_after_fw_orig (d : list N) (tb : list N) : list N :=
  match d with
  | [] => 0 :: skipN 1 tb
  | _ => d ++ skipN (lenN d) tb
  end.
(* reading tag[] as a C string: None = ran into bytes never written (uninitialised stack) *)
Fixpoint cstr_known (tb : list N) : option (list N) :=
  match tb with
  | [] => None
  | c :: r => if c =? 0 then Some [] else
              match cstr_known r with Some s => Some (c :: s) | None => None end
  end.

(* MessageBase::extract_header(from, len, mtype): result = (hlen, len text, mtype text); the
   len/mtype buffers are zero-initialised by factory; an element that is not reached leaves the
   empty string, one that fails leaves the part of the value scanned so far *)
Definition hd_is (l : list N) (c : N) : bool := match l with x :: _ => x =? c | [] => false end.

Definition extract_header (from : list N) (tcap vcap lencap mtcap : N) : res (N * list N * list N) :=
  let flen := lenN from in
  match extract_element from flen tcap vcap with
  | XOOB s => OOB s
  | XFail _ _ => Ok (0, [], [])
  | XOk tag _ r1 =>
    if negb (hd_is tag 56) then Ok (0, [], [])                         (* *tag != '8' *)
    else match extract_element (skipN r1 from) (flen - r1) tcap lencap with
    | XOOB s => OOB s
    | XFail _ len => Ok (r1, len, [])
    | XOk tag2 len r2 =>
      if negb (hd_is tag2 57) then Ok (0, [], [])                      (* *tag != '9' *)
      else match extract_element (skipN (r1 + r2) from) (flen - (r1 + r2)) tcap mtcap with
      | XOOB s => OOB s
      | XFail _ mtype => Ok (r1 + r2, len, mtype)
      | XOk tag3 mtype r3 =>
        (* *tag != '3' || *(tag + 1) != '5' *)
        if negb (hd_is tag3 51 && hd_is (tl tag3) 53) then Ok (0, [], [])
        else Ok (r1 + r2 + r3, len, mtype)
      end
    end
  end.
