(* Codec core, part 4: decoding.  One Gallina function per C++ function of runtime/message.cpp:
     MessageBase::decode_group   -> decode_group (dg_elem = inner for loop, dg_loop = outer)
     MessageBase::decode         -> mb_decode   (dec_loop = the for loop)
     Message::decode             -> msg_decode
     Message::factory            -> factory
   Statement order, tests and defects are those of the C++.  No proofs here. *)
From Coq Require Import NArith ZArith List Bool.
From F8 Require Import Codec.Bytes Codec.Meta Codec.Extract C07.Chksum.
Import ListNotations.
Local Open Scope N_scope.

(* capacities of the stack buffers involved (parameters so that C03 can vary them) *)
Record caps := mkCaps {
  cap_htag : N; cap_hval : N;     (* extract_header: tag[MAX_MSGTYPE_FIELD_LEN], val[FIX8_MAX_FLD_LENGTH] *)
  cap_len : N; cap_mtype : N;     (* factory: len[32], mtype[32] *)
  cap_tag : N; cap_val : N;       (* decode / decode_group: tag[2048], val[2048] *)
  cap_out : N                     (* Message::encode(f8String&): output[8192 + 32] *)
}.
Definition real_caps : caps :=
  mkCaps MAX_MSGTYPE_FIELD_LEN MAX_FLD_LENGTH MAX_MSGTYPE_FIELD_LEN MAX_MSGTYPE_FIELD_LEN
         MAX_FLD_LENGTH MAX_FLD_LENGTH (MAX_MSG_LENGTH + HEADER_CALC_OFFSET).

(* MessageBase::has_group_count(bf): static_cast<Field<int,0>*>(bf)->get() > 0, the field
   having been built by Field<int> from a C string = fast_atoi<int> *)
Definition has_group_count (v : list N) : bool := (0 <? fast_atoi_i32 v)%Z.
(* ... on the object actually created for field f.  When the generated class of a group count
   field is not an int class (FIX44 604 NoLegSecurityAltID is typed STRING in the schema while its
   trait says group/ft_int) the cast reads the first bytes of a std::string object as an int:
   undefined behaviour, a (practically always positive) pointer fragment.  Modelled as true. *)
Definition has_group_count_c (c : ctx) (f : N) (v : list N) : bool :=
  match find_be (c_fields c) f with
  | Some ty => if is_int_type ty then has_group_count v else true
  | None => has_group_count v
  end.

Inductive stop := SEnd | SStall | SDup | SForeign.

Section Dec.
Variable c : ctx.
Variable cp : caps.
Variable from : list N.       (* the f8String passed to factory/decode *)
Variable fsize : N.           (* from.size() - ignore *)

Definition tok_at (off : N) : xres :=
  extract_element (skipN off from) (fsize - off) (cap_tag cp) (cap_val cp).

(* ------------------------------------------------------------------ decode_group *)
(* dg_elem: for (pos; s_offset < fsize && (result = extract_element(...));) on element grp
   dg_loop: for (ok = true; ok && s_offset < fsize;) appending elements to els
   decode_group m f off: find_add_group, then dg_loop; returns the updated holder and offset.
   Since /repo a0d41df no result of these functions is Diverge any more. *)
Fixpoint dg_elem (fuel : nat) (grp : mbase) (pos off : N) {struct fuel}
  : res (mbase * N * N * stop) :=
  match fuel with O => Fuel | S fuel' =>
  if off <? fsize then
    match tok_at off with
    | XOOB s => OOB s
    | XFail _ _ => Ok (grp, pos, off, SStall)
    | XOk tag val result =>
      let tv32 := fast_atoi_u32 tag in
      let tv := tv32 mod 65536 in
      match find_trait (mb_fp grp) tv with
      | None =>
          (* get(tv, itr, present) = false; pos == 0 && getPos(...) = 0 != 1 -> throw;
             otherwise !has(tv) -> ok = false; break *)
          if pos =? 0 then Exc (EMissingGroupField tv32) else Ok (grp, pos, off, SForeign)
      | Some tr =>
          if t_present tr then Ok (grp, pos, off, SDup)
          else if (pos =? 0) && negb (getPos tr =? 1) then Exc (EMissingGroupField tv32)
          else match find_be (c_fields c) tv with
          | None => Ok (grp, pos, off, SForeign)
          | Some _ =>
            let off1 := off + result in
            let pos1 := pos + 1 in
            let v := cstr val in
            let g1 := mark_present (add_field_decoder grp tv pos1 v) tv in
            if t_group tr && has_group_count_c c tv v then
              match decode_group fuel' g1 tv off1 with
              | Ok (g2, off2) => dg_elem fuel' g2 pos1 off2
              | Exc e => Exc e | OOB s => OOB s | Diverge => Diverge | Fuel => Fuel
              end
            else dg_elem fuel' g1 pos1 off1
          end
      end
    end
  else Ok (grp, pos, off, SEnd)
  end
with dg_loop (fuel : nat) (gm : gmeta) (els : list mbase) (off : N) {struct fuel}
  : res (list mbase * N) :=
  match fuel with O => Fuel | S fuel' =>
  if off <? fsize then
    match dg_elem fuel' (create_group gm false) 0 off with
    | Exc e => Exc e | OOB s => OOB s | Diverge => Diverge | Fuel => Fuel
    | Ok (grp, pos, off', why) =>
      (* since /repo a0d41df: if (grp->_fields.empty()) break;  -- an element that came out empty
         (extract_element failed on its first token) ends the element loop, it is not appended *)
      match mb_fields grp with
      | [] => Ok (els, off')
      | _ :: _ =>
        match find_missing (mb_fp grp) with
        | Some f => Exc (EMissingMandatory f)
        | None =>
          let els' := els ++ [grp] in
          match why with
          | SForeign => Ok (els', off')
          | SEnd => Ok (els', off')
          | SDup => dg_loop fuel' gm els' off'
          | SStall =>
              (* ok is still true and s_offset < fsize: the next element is created, its inner loop
                 stops at once (same offset, same failing token), it is empty: break *)
              Ok (els', off')
          end
        end
      end
    end
  else Ok (els, off)
  end
with decode_group (fuel : nat) (m : mbase) (f : N) (off : N) {struct fuel} : res (mbase * N) :=
  match fuel with O => Fuel | S fuel' =>
  match find_add_group m f with
  | Exc e => Exc e | OOB s => OOB s | Diverge => Diverge | Fuel => Fuel
  | Ok (m1, gm) =>
    let els0 := match map_find f (mb_groups m1) with Some l => l | None => [] end in
    match dg_loop fuel' gm els0 off with
    | Ok (els, off') => Ok (with_groups m1 (map_set f els (mb_groups m1)), off')
    | Exc e => Exc e | OOB s => OOB s | Diverge => Diverge | Fuel => Fuel
    end
  end end.

(* ------------------------------------------------------------------ decode_group, ORIGINAL code
   (before /repo a0d41df), kept for refutation witnesses (not used by dec_loop): an element that
   comes out empty is appended and the element loop never ends (Diverge). *)
Fixpoint dg_elem_orig (fuel : nat) (grp : mbase) (pos off : N) {struct fuel}
  : res (mbase * N * N * stop) :=
  match fuel with O => Fuel | S fuel' =>
  if off <? fsize then
    match tok_at off with
    | XOOB s => OOB s
    | XFail _ _ => Ok (grp, pos, off, SStall)
    | XOk tag val result =>
      let tv32 := fast_atoi_u32 tag in
      let tv := tv32 mod 65536 in
      match find_trait (mb_fp grp) tv with
      | None =>
          (* get(tv, itr, present) = false; pos == 0 && getPos(...) = 0 != 1 -> throw;
             otherwise !has(tv) -> ok = false; break *)
          if pos =? 0 then Exc (EMissingGroupField tv32) else Ok (grp, pos, off, SForeign)
      | Some tr =>
          if t_present tr then Ok (grp, pos, off, SDup)
          else if (pos =? 0) && negb (getPos tr =? 1) then Exc (EMissingGroupField tv32)
          else match find_be (c_fields c) tv with
          | None => Ok (grp, pos, off, SForeign)
          | Some _ =>
            let off1 := off + result in
            let pos1 := pos + 1 in
            let v := cstr val in
            let g1 := mark_present (add_field_decoder grp tv pos1 v) tv in
            if t_group tr && has_group_count_c c tv v then
              match decode_group_orig fuel' g1 tv off1 with
              | Ok (g2, off2) => dg_elem_orig fuel' g2 pos1 off2
              | Exc e => Exc e | OOB s => OOB s | Diverge => Diverge | Fuel => Fuel
              end
            else dg_elem_orig fuel' g1 pos1 off1
          end
      end
    end
  else Ok (grp, pos, off, SEnd)
  end
with dg_loop_orig (fuel : nat) (gm : gmeta) (els : list mbase) (off : N) {struct fuel}
  : res (list mbase * N) :=
  match fuel with O => Fuel | S fuel' =>
  if off <? fsize then
    match dg_elem_orig fuel' (create_group gm false) 0 off with
    | Exc e => Exc e | OOB s => OOB s | Diverge => Diverge | Fuel => Fuel
    | Ok (grp, pos, off', why) =>
      match find_missing (mb_fp grp) with
      | Some f => Exc (EMissingMandatory f)
      | None =>
        let els' := els ++ [grp] in
        match why with
        | SForeign => Ok (els', off')
        | SEnd => Ok (els', off')
        | SDup => dg_loop_orig fuel' gm els' off'
        | SStall =>
            (* ok is still true and s_offset < fsize: the next element is created, its inner
               loop stops at once (same offset, same failing token), it is empty; if the group
               has a mandatory field that throws, otherwise the empty element is appended and
               the same happens again, for ever *)
            match find_missing (g_traits gm) with
            | Some f => Exc (EMissingMandatory f)
            | None => Diverge
            end
        end
      end
    end
  else Ok (els, off)
  end
with decode_group_orig (fuel : nat) (m : mbase) (f : N) (off : N) {struct fuel} : res (mbase * N) :=
  match fuel with O => Fuel | S fuel' =>
  match find_add_group m f with
  | Exc e => Exc e | OOB s => OOB s | Diverge => Diverge | Fuel => Fuel
  | Ok (m1, gm) =>
    let els0 := match map_find f (mb_groups m1) with Some l => l | None => [] end in
    match dg_loop_orig fuel' gm els0 off with
    | Ok (els, off') => Ok (with_groups m1 (map_set f els (mb_groups m1)), off')
    | Exc e => Exc e | OOB s => OOB s | Diverge => Diverge | Fuel => Fuel
    end
  end end.

(* ------------------------------------------------------------------ MessageBase::decode *)
Variable permissive : bool.
Variable gfuel : nat.          (* fuel handed to each decode_group call *)

(* after the loop: find_missing, then the return value *)
Definition dec_finish (m : mbase) (off pos : N) (lvp : option N) (lvo : N) : res (mbase * N) :=
  match find_missing (mb_fp m) with
  | Some f => Exc (EMissingMandatory f)
  | None =>
    Ok (m, if permissive && match lvp with Some p => p =? pos | None => false end then lvo else off)
  end.

(* bytes [off, off+n) of the string object (data()[size()] is the terminating NUL) *)
Definition raw_at (off n : N) : list N := firstN n (skipN off (from ++ [0])).

Definition opt_group (m : mbase) (tr : trait) (tv : N) (v : list N) (off : N) : res (mbase * N) :=
  if t_group tr && has_group_count_c c tv v then decode_group gfuel m tv off else Ok (m, off).

Fixpoint dec_loop (fuel : nat) (m : mbase) (off pos : N) (lvp : option N) (lvo : N)
                  (tb : list N) {struct fuel} : res (mbase * N) :=
  match fuel with O => Fuel | S fuel' =>
  (* the "unknown_field:" block for the token of [n] bytes at [o] *)
  let unknown := fun (m : mbase) (o n : N) (tb : list N) =>
    if permissive then
      let '(lvp', lvo') := match lvp with None => (Some pos, o) | Some _ => (lvp, lvo) end in
      dec_loop fuel' (with_unknown m (mb_unknown m ++ raw_at o n)) (o + n) pos lvp' lvo' tb
    else dec_finish m o pos lvp lvo in
  if off <=? fsize then
    match tok_at off with
    | XOOB s => OOB s
    | XFail _ _ => dec_finish m off pos lvp lvo
    | XOk tag val result =>
      let tb1 := tagbuf_after tag tb in
      let tv := fast_atoi_u16 tag in
      match find_trait (mb_fp m) tv with
      | None => unknown m off result tb1
      | Some tr =>
        let off1 := off + result in
        if t_present tr then
          if t_auto tr then dec_loop fuel' m off1 pos lvp lvo tb1 else Exc (EDuplicateField tv)
        else
          (* for (ii = 0; ii < 2; ++ii), first pass *)
          match find_be (c_fields c) tv with
          | None => Exc (EUnknownField tv)
          | Some _ =>
            let pos1 := (pos + 1) mod 4294967296 in
            let v := cstr val in
            let m1 := mark_present (add_field_decoder m tv pos1 v) tv in
            match opt_group m1 tr tv v off1 with
            | Exc e => Exc e | OOB s => OOB s | Diverge => Diverge | Fuel => Fuel
            | Ok (m2, off2) =>
              if negb (t_ftype tr =? ft_Length) || (tv =? Common_BodyLength)
              then dec_loop fuel' m2 off2 pos1 lvp lvo tb1
              else
                let val_sz := fast_atoi_u32 val in
                if MAX_FLD_LENGTH - 1 <? val_sz then Exc EValueTooLarge
                else match extract_element_fixed_width (skipN off2 from) (fsize - off2) val_sz
                                                       (cap_tag cp) (cap_val cp) with
                | XOOB s => OOB s
                | XFail _ _ => Exc EFixedWidth
                | XOk tag2 val2 result2 =>
                  let tb2 := tagbuf_after_fw tag2 tb1 in
                  match cstr_known tb2 with
                  | None => OOB site_uninit_tag
                  | Some tagstr =>
                    let tv2 := fast_atoi_u16 tagstr in
                    match find_trait (mb_fp m2) tv2 with
                    | None =>
                        (* goto unknown_field with s_offset at the data token, result = fixed
                           width result; note pos was already incremented *)
                        if permissive then
                          let '(lvp', lvo') := match lvp with None => (Some pos1, off2)
                                                           | Some _ => (lvp, lvo) end in
                          dec_loop fuel' (with_unknown m2 (mb_unknown m2 ++ raw_at off2 result2))
                                   (off2 + result2) pos1 lvp' lvo' tb2
                        else dec_finish m2 off2 pos1 lvp lvo
                    | Some tr2 =>
                        if negb (t_ftype tr2 =? ft_data) || negb (tv + 1 =? tv2)
                        then dec_loop fuel' m2 off2 pos1 lvp lvo tb2      (* break: re-read normally *)
                        else
                          let off3 := off2 + result2 in
                          (* second pass: no presence test for the data field *)
                          match find_be (c_fields c) tv2 with
                          | None => Exc (EUnknownField tv2)
                          | Some _ =>
                            let pos2 := (pos1 + 1) mod 4294967296 in
                            let v2 := cstr val2 in
                            let m3 := mark_present (add_field_decoder m2 tv2 pos2 v2) tv2 in
                            match opt_group m3 tr2 tv2 v2 off3 with
                            | Exc e => Exc e | OOB s => OOB s | Diverge => Diverge | Fuel => Fuel
                            | Ok (m4, off4) =>
                              (* tr2 is ft_data, not ft_Length: break (a third pass never runs) *)
                              dec_loop fuel' m4 off4 pos2 lvp lvo tb2
                            end
                          end
                    end
                  end
                end
            end
          end
      end
    end
  else dec_finish m off pos lvp lvo
  end.

Definition mb_decode (fuel : nat) (m : mbase) (off : N) : res (mbase * N) :=
  dec_loop fuel m off (lenN (mb_pos m)) None 0 [].

End Dec.

(* fuel that is never exhausted on a terminating run: every loop turn or call consumes input *)
Definition dec_fuel (from : list N) : nat := S (S (length from + length from)).

(* MessageBase::decode(from, s_offset, ignore, permissive_mode) *)
Definition mbase_decode (c : ctx) (cp : caps) (from : list N) (m : mbase) (off ignore : N)
                        (permissive : bool) : res (mbase * N) :=
  let fsize := (lenN from + 4294967296 - ignore) mod 4294967296 in
  mb_decode c cp from fsize permissive (dec_fuel from) (dec_fuel from) m off.

(* Message::decode(from, offset, ignore, permissive_mode): header and body with ignore = 0 *)
Definition msg_decode (c : ctx) (cp : caps) (from : list N) (m : message) (off ignore : N)
                      (permissive : bool) : res (message * N) :=
  bind (mbase_decode c cp from (m_hdr m) off 0 permissive) (fun '(h, hlen) =>
  bind (mbase_decode c cp from (m_body m) hlen 0 permissive) (fun '(b, blen) =>
  bind (mbase_decode c cp from (m_trl m) blen ignore permissive) (fun '(t, tlen) =>
  Ok (mkMsg (m_type m) h b t, tlen)))).

(* Message::factory(ctx, from, no_chksum, permissive_mode) *)
Definition nthN (l : list N) (i : N) : N := match skipN i l with x :: _ => x | [] => 0 end.

Definition factory (c : ctx) (cp : caps) (from : list N) (no_chksum permissive : bool) : res message :=
  bind (extract_header from (cap_htag cp) (cap_hval cp) (cap_len cp) (cap_mtype cp))
  (fun '(hlen, len, mtype) =>
  if hlen =? 0 then Exc EInvalidMessage
  else
    let mlen := fast_atoi_u32 len in
    match find_msg (c_msgs c) (cstr mtype) with
    | None => Exc EInvalidMessage
    | Some md =>
      let msg := mk_message c md false in
      bind (msg_decode c cp from msg hlen 7 permissive) (fun '(msg1, _) =>
      (* get_body_length()->set(mlen): unsigned -> int; get_msg_type()->set(mtype) *)
      let h1 := set_value (m_hdr msg1) Common_BodyLength (itoa_Z (to_i32 (Z.of_N mlen))) in
      let h2 := set_value h1 Common_MsgType (cstr mtype) in
      let sz := lenN from in
      if sz <? 7 then OOB site_short_msg
      else
        let pp := sz - 7 in
        if negb (nthN from pp =? 49) || negb (nthN from (pp + 1) =? 48) then Exc EInvalidMessage
        else if no_chksum then Ok (mkMsg (m_type msg1) h2 (m_body msg1) (m_trl msg1))
        else
          let chksum := firstN 3 (skipN (pp + 3) from) in
          let t1 := set_value (m_trl msg1) Common_CheckSum chksum in
          let chkval := fast_atoi_u32 chksum in
          match calc_chksum (map Z.of_N (from ++ [0])) (Z.of_N sz) 0 (Z.of_N sz - 7) with
          | None => OOB site_read
          | Some (mchk, _) =>
            if chkval =? Z.to_N mchk then Ok (mkMsg (m_type msg1) h2 (m_body msg1) t1)
            else Exc (EBadCheckSum (Z.to_N mchk))
          end)
    end).
