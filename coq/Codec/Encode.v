(* Codec core, part 5: encoding.  runtime/message.cpp:
     BaseField::encode(char ptr)          -> field_bytes
     MessageBase::encode(char ptr)        -> mb_encode  (enc_pos = the loop over _pos)
     MessageBase::encode_group(fnum,.) -> the group lookup inside enc_pos
     Message::encode(char ptr ptr)           -> msg_encode (returns the bytes AND the mutated object:
                                          suppress bits cleared, BodyLength/CheckSum/MsgType set)
     Message::encode(f8String&)        -> msg_encode_str (adds the output[] capacity)
   No proofs here. *)
From Coq Require Import NArith ZArith List Bool.
From F8 Require Import Codec.Bytes Codec.Meta Codec.Extract Codec.Decode C07.Chksum.
Import ListNotations.
Local Open Scope N_scope.

Definition site_preamble : N := 9.   (* BeginString/BodyLength do not fill exactly hlen bytes *)

(* the C++ type of the field object: the field table's type (the trait's as a fallback) *)
Definition ftype_of (c : ctx) (f : N) (dflt : N) : N :=
  match find_be (c_fields c) f with Some ty => ty | None => dflt end.

(* BaseField::encode: itoa(_fnum) '=' print() SOH *)
Definition field_bytes (c : ctx) (ty f : N) (v : list N) : list N :=
  itoa_N f ++ EQC :: c_render c ty v ++ [SOH].

Fixpoint enc_pos (c : ctx) (fp : list trait) (genc : list (N * res (list N)))
                 (pos : list (N * (N * list N))) : res (list N) :=
  match pos with
  | [] => Ok []
  | (_, (f, v)) :: rest =>
    match find_trait fp f with
    | None => OOB site_trait_end     (* get() = false, field emitted, then fpitr (= end()) read *)
    | Some tr =>
      if t_suppress tr then enc_pos c fp genc rest
      else
        let fb := field_bytes c (ftype_of c f (t_ftype tr)) f v in
        if t_group tr && has_group_count_c c f v then
          match map_find f genc with
          | None => Exc (EInvalidGroup f)          (* find_group(fnum) == 0 *)
          | Some ge => bind ge (fun gb => bind (enc_pos c fp genc rest) (fun rb => Ok (fb ++ gb ++ rb)))
          end
        else bind (enc_pos c fp genc rest) (fun rb => Ok (fb ++ rb))
    end
  end.

(* MessageBase::encode; the encodings of the groups' elements are computed by structural
   recursion and used only where encode_group is actually called *)
Fixpoint mb_encode (c : ctx) (m : mbase) : res (list N) :=
  match m with
  | MB fp _ _ pos groups unknown =>
    let genc :=
      (fix gl (gs : list (N * list mbase)) : list (N * res (list N)) :=
         match gs with
         | [] => []
         | (f, els) :: r =>
           (f, (fix el (es : list mbase) : res (list N) :=
                  match es with
                  | [] => Ok []
                  | e :: r' => bind (mb_encode c e) (fun a => bind (el r') (fun b => Ok (a ++ b)))
                  end) els) :: gl r
         end) groups in
    bind (enc_pos c fp genc pos) (fun b => Ok (b ++ unknown))
  end.

Definition clear_suppress (m : mbase) (f : N) : mbase :=
  with_fp m (upd_trait (set_suppress false) (mb_fp m) f).

(* the digit-count ladder of Message::encode *)
Definition len_digits (n : N) : N :=
  if n <? 10 then 1 else if n <? 100 then 2 else if n <? 1000 then 3 else if n <? 10000 then 4
  else if n <? 100000 then 5 else if n <? 1000000 then 6 else 7.

Definition part_type (c : ctx) (m : mbase) (f : N) : N :=
  ftype_of c f (match find_trait (mb_fp m) f with Some tr => t_ftype tr | None => ft_string end).

(* result: (preamble 8=..9=.., header+body+trailer bytes, 10=ddd|, mutated object) *)
Definition msg_encode_parts (c : ctx) (m : message) : res (list N * list N * list N * message) :=
  (* _header->get_msg_type()->set(_msgType) *)
  let h0 := set_value (m_hdr m) Common_MsgType (m_type m) in
  bind (mb_encode c h0) (fun hb =>
  bind (mb_encode c (m_body m)) (fun bb =>
  bind (mb_encode c (m_trl m)) (fun tb =>
  let body := hb ++ bb ++ tb in
  let msgLen := lenN body in
  let hlen := preamble_sz c + len_digits msgLen in
  match map_find Common_BeginString (mb_fields h0) with
  | None => Exc (EMissingMandatory Common_BeginString)
  | Some bsv =>
    let h1 := clear_suppress h0 Common_BeginString in
    let bs := field_bytes c (part_type c h1 Common_BeginString) Common_BeginString bsv in
    match map_find Common_BodyLength (mb_fields h1) with
    | None => Exc (EMissingMandatory Common_BodyLength)
    | Some _ =>
      let h2 := clear_suppress h1 Common_BodyLength in
      (* set(static_cast<int>(msgLen)) *)
      let blv := itoa_Z (to_i32 (Z.of_N msgLen)) in
      let h3 := set_value h2 Common_BodyLength blv in
      let bl := field_bytes c (part_type c h3 Common_BodyLength) Common_BodyLength blv in
      let pre := bs ++ bl in
      if negb (lenN pre =? hlen) then OOB site_preamble
      else match map_find Common_CheckSum (mb_fields (m_trl m)) with
      | None => Exc (EMissingMandatory Common_CheckSum)
      | Some _ =>
        let mem := pre ++ body in
        match calc_chksum (map Z.of_N mem) (Z.of_N (lenN mem)) 0 (-1) with
        | None => OOB site_read
        | Some (ck, _) =>
          let csv := fmt_chksum (Z.to_N ck) in
          let t1 := clear_suppress (set_value (m_trl m) Common_CheckSum csv) Common_CheckSum in
          let cs := field_bytes c (part_type c t1 Common_CheckSum) Common_CheckSum csv in
          Ok (pre, body, cs, mkMsg (m_type m) h3 (m_body m) t1)
        end
      end
    end
  end))).

Definition msg_encode (c : ctx) (m : message) : res (list N * message) :=
  bind (msg_encode_parts c m) (fun '(pre, body, cs, m') => Ok (pre ++ body ++ cs, m')).

(* Message::encode(f8String& to): char output[FIX8_MAX_MSG_LENGTH + HEADER_CALC_OFFSET]; the body
   starts at output + 32, the last write is the NUL after the checksum field.
   (Coarse: an exception raised after the overrun point is reported as the exception.) *)
Definition msg_encode_str (c : ctx) (cp : caps) (m : message) : res (list N * message) :=
  bind (msg_encode_parts c m) (fun '(pre, body, cs, m') =>
  if cap_out cp <? HEADER_CALC_OFFSET + lenN body + lenN cs + 1 then OOB site_encode_buf
  else Ok (pre ++ body ++ cs, m')).
