(* A small hand-written schema (same shape as the dumped ones) and a message on it, used by
   the non-vacuity and refutation theorems of the codec properties.  No proofs here. *)
From Coq Require Import NArith ZArith List Bool.
From F8 Require Import Codec.Bytes Codec.Meta Codec.Extract Codec.Decode Codec.Encode Codec.Render.
Import ListNotations.
Local Open Scope N_scope.

(* trait with flags: position always; m = mandatory, g = group, s = suppress, a = automatic *)
Definition tr (f ty p : N) (m g s a : bool) : trait := mkT f ty p 0 m false true g false s a.

Definition ex_header : gmeta := GM
  [ tr 8 15 1 false false true true; tr 9 1 2 false false true true; tr 34 1 6 true false false false;
    tr 35 15 3 false false false true; tr 49 15 4 true false false false; tr 56 15 5 true false false false ]
  [] true.
Definition ex_trailer : gmeta := GM
  [ tr 10 15 3 false false true true; tr 89 28 2 false false false false; tr 93 2 1 false false false false ] [] true.
(* nested group 78 -> {79 (pos 1), 80 (pos 2)} inside group 73 -> {11 (pos 1, mandatory), 38, 78} *)
Definition ex_allocs : gmeta := GM [ tr 79 15 1 false false false false; tr 80 9 2 false false false false ] [] true.
Definition ex_orders : gmeta := GM
  [ tr 11 15 1 true false false false; tr 38 9 2 false false false false; tr 78 5 3 false true false false ]
  [ (78, ex_allocs) ] true.
Definition ex_body : gmeta := GM
  [ tr 55 15 2 false false false false; tr 58 15 4 false false false false; tr 66 15 1 true false false false;
    tr 73 5 3 false true false false ]
  [ (73, ex_orders) ] true.
Definition ex_heartbeat : gmeta := GM [ tr 112 15 1 false false false false ] [] true.

Definition s (l : list N) := l.
Definition ex_ctx : ctx := mkCtx
  [ (8, 15); (9, 1); (10, 15); (11, 15); (34, 1); (35, 15); (38, 9); (49, 15); (55, 15); (56, 15); (58, 15);
    (66, 15); (73, 5); (78, 5); (79, 15); (80, 9); (89, 28); (93, 2); (112, 15) ]
  [ mkMD [48] true ex_heartbeat; mkMD [69] false ex_body ]
  ex_header ex_trailer
  [ (1, (8, [70; 73; 88; 46; 52; 46; 50])); (2, (9, [48])); (3, (35, [])) ]
  [ (3, (10, [])) ]
  [70; 73; 88; 46; 52; 46; 50]       (* "FIX.4.2" *)
  render_default.

(* building through the API functions; a non-Ok step leaves the object unchanged *)
Definition addf (m : mbase) (f : N) (v : list N) : mbase :=
  match add_field m f v with Ok m' => m' | _ => m end.
Definition with_elems (m : mbase) (f : N) (els : list mbase) : mbase :=
  match find_add_group m f with
  | Ok (m', _) => fold_left (fun acc e => group_add acc f e) els m'
  | _ => m
  end.

Definition ex_hdr_fields (h : mbase) : mbase := addf (addf (addf h 56 [66]) 34 [55]) 49 [65].

(* Heartbeat  49=A 56=B 34=7  112=TEST *)
Definition ex_hb : message :=
  let m := mk_message ex_ctx (mkMD [48] true ex_heartbeat) true in
  mkMsg (m_type m) (ex_hdr_fields (m_hdr m)) (addf (m_body m) 112 [84; 69; 83; 84]) (m_trl m).

(* "E" with two orders, the second with two nested allocations; fields inserted out of order *)
Definition ex_alloc (a : list N) (q : list N) : mbase := addf (addf (create_group ex_allocs true) 80 q) 79 a.
Definition ex_order1 : mbase := addf (addf (create_group ex_orders true) 38 [49; 46; 53]) 11 [79; 49].
Definition ex_order2 : mbase :=
  with_elems (addf (addf (create_group ex_orders true) 78 [50]) 11 [79; 50]) 78
             [ex_alloc [88] [50; 46; 48]; ex_alloc [89] [51; 46; 50; 53]].
Definition ex_list : message :=
  let m := mk_message ex_ctx (mkMD [69] false ex_body) true in
  let b := with_elems (addf (addf (addf (m_body m) 58 [104; 105]) 73 [50]) 66 [76; 49]) 73 [ex_order1; ex_order2] in
  mkMsg (m_type m) (ex_hdr_fields (m_hdr m)) b (m_trl m).

(* the same with an order element that lacks its position-1 field 11 (finding F04) *)
Definition ex_order_nofirst : mbase := addf (create_group ex_orders true) 38 [49; 46; 53].
Definition ex_list_nofirst : message :=
  let m := mk_message ex_ctx (mkMD [69] false ex_body) true in
  let b := with_elems (addf (addf (m_body m) 73 [49]) 66 [76; 49]) 73 [ex_order_nofirst] in
  mkMsg (m_type m) (ex_hdr_fields (m_hdr m)) b (m_trl m).
