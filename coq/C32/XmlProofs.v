From Coq Require Import NArith List Bool String.
From F8 Require Import C32.XmlBase C32.Xml C32.Spec_C32.
Import ListNotations.
Local Open Scope N_scope.

Lemma c32_entity_refuted_lemma :
  let v := bs "&lt;" in
  escape v = bs "&amp;lt;" /\ xlate (escape v) = bs "<" /\
  parse_doc (print_el (El (bs "a") None (Some v) [(bs "k", v)] [])) =
    Ok (El (bs "a") None (Some (bs "<")) [(bs "k", bs "<")] []).
Proof. vm_compute. repeat split. Qed.
