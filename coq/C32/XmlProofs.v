(* C32 -- proofs about the model Xml.v: entity decoding vs escaping, ParseAttrs vs the attribute
   printer, find vs reach.  (The element-tree round trip is in XmlTreeProofs.v.) *)
From Coq Require Import String.
From Coq Require Import NArith List Bool Lia Arith.
From F8 Require Import C32.XmlBase C32.Xml C32.Spec_C32.
Import ListNotations.
Local Open Scope N_scope.

(* ------------------------------------------------------------------ strings *)
Lemma str_eqb_refl : forall a, str_eqb a a = true.
Proof. induction a; simpl; auto. rewrite N.eqb_refl. auto. Qed.

Lemma str_eqb_eq : forall a b, str_eqb a b = true <-> a = b.
Proof.
  induction a; destruct b; simpl; split; intros H; try discriminate; auto.
  - apply andb_true_iff in H. destruct H as [H1 H2]. apply N.eqb_eq in H1. apply IHa in H2. congruence.
  - inversion H; subst. rewrite N.eqb_refl. apply IHa. reflexivity.
Qed.

Lemma str_eqb_neq : forall a b, str_eqb a b = false <-> a <> b.
Proof.
  intros. split; intros H.
  - intros E. apply str_eqb_eq in E. congruence.
  - destruct (str_eqb a b) eqn:E; auto. apply str_eqb_eq in E. contradiction.
Qed.

Lemma str_eqb_sym : forall a b, str_eqb a b = str_eqb b a.
Proof.
  intros. destruct (str_eqb a b) eqn:E.
  - apply str_eqb_eq in E. subst. symmetry. apply str_eqb_refl.
  - symmetry. apply str_eqb_neq. apply str_eqb_neq in E. congruence.
Qed.

(* ------------------------------------------------------------------ span / skip_while / count_while *)
Lemma span_skip_count : forall p s, span p s = (firstn (count_while p s) s, skip_while p s).
Proof.
  induction s; simpl; auto.
  destruct (p a); auto. rewrite IHs. reflexivity.
Qed.

Lemma span_app : forall p s a b, span p s = (a, b) -> s = a ++ b.
Proof.
  induction s; simpl; intros.
  - inversion H; auto.
  - destruct (p a).
    + destruct (span p s) eqn:E. inversion H; subst. simpl. f_equal. apply IHs. reflexivity.
    + inversion H; subst. reflexivity.
Qed.

Lemma length_firstn_count : forall p s, length (firstn (count_while p s) s) = count_while p s.
Proof. induction s; simpl; auto. destruct (p a); simpl; auto. Qed.

Lemma count_while_app_stop : forall p a c y, p c = false -> count_while p (a ++ c :: y) = count_while p a.
Proof. induction a; simpl; intros. - rewrite H. auto. - destruct (p a); auto. Qed.

Lemma skip_while_app_stop : forall p a c y, p c = false -> skip_while p (a ++ c :: y) = skip_while p a ++ c :: y.
Proof. induction a; simpl; intros. - rewrite H. auto. - destruct (p a); auto. Qed.

(* a character that cannot occur inside  name;  *)
Definition stopper (c : byte) : bool := negb (lower_c c) && negb (d14_c c) && negb (c =? 59).

Lemma semicolon_next_app_stop : forall x c y, (c =? 59) = false -> semicolon_next (x ++ c :: y) = semicolon_next x.
Proof. destruct x; simpl; auto. Qed.

Lemma named_tail_app_stop : forall a c y, stopper c = true -> named_tail (a ++ c :: y) = named_tail a.
Proof.
  intros a c y H. unfold stopper in H. apply andb_true_iff in H. destruct H as [H H3].
  apply andb_true_iff in H. destruct H as [H1 H2].
  apply negb_true_iff in H1, H2, H3.
  unfold named_tail.
  rewrite count_while_app_stop by assumption.
  rewrite skip_while_app_stop by assumption.
  rewrite skip_while_app_stop by assumption.
  rewrite semicolon_next_app_stop by assumption. reflexivity.
Qed.

(* the model's anchored matchers and the specification's shape tests agree *)
Lemma named_at_none : forall s, named_tail s = false -> named_at s = None.
Proof.
  intros s H. unfold named_at. rewrite span_skip_count.
  rewrite length_firstn_count.
  unfold named_tail in H.
  change is_lower with lower_c. change is_14 with d14_c.
  destruct (Nat.leb 2 (count_while lower_c s)); auto.
  rewrite span_skip_count. simpl in H.
  destruct (skip_while d14_c (skip_while lower_c s)) eqn:E; auto.
  simpl in H. rewrite H. reflexivity.
Qed.

Lemma num_at_none : forall s, num_tail (35 :: s) = false -> num_at s = None.
Proof.
  intros s H.
  destruct s as [|x r]; auto.
  change (num_tail (35 :: x :: r)) with
    ((35 =? 35) && (if x =? 120
                    then Nat.leb 1 (count_while hex_c r) && semicolon_next (skip_while hex_c r)
                    else Nat.leb 1 (count_while digit_c (x :: r)) && semicolon_next (skip_while digit_c (x :: r)))) in H.
  rewrite N.eqb_refl in H. rewrite andb_true_l in H.
  unfold num_at.
  destruct (x =? 120) eqn:Ex.
  - rewrite span_skip_count. change is_hex with hex_c.
    pose proof (length_firstn_count hex_c r) as L.
    destruct (firstn (count_while hex_c r) r) eqn:F; auto.
    simpl in L.
    destruct (count_while hex_c r); [discriminate|]. rewrite andb_true_l in H.
    destruct (skip_while hex_c r); auto. simpl in H. rewrite H. reflexivity.
  - remember (x :: r) as s' eqn:Es.
    rewrite span_skip_count. change is_digit with digit_c.
    pose proof (length_firstn_count digit_c s') as L.
    destruct (firstn (count_while digit_c s') s') eqn:F; auto.
    simpl in L.
    destruct (count_while digit_c s'); [discriminate|]. rewrite andb_true_l in H.
    destruct (skip_while digit_c s'); auto. simpl in H. rewrite H. reflexivity.
Qed.

Lemma ref_free_find_named : forall v, ref_free v = true -> find_named v = None.
Proof.
  induction v; simpl; intros H; auto.
  apply andb_true_iff in H. destruct H as [H1 H2].
  rewrite (IHv H2).
  destruct (a =? 0); auto.
  destruct (a =? 38) eqn:E; auto.
  simpl in H1. apply negb_true_iff in H1. apply orb_false_iff in H1. destruct H1 as [H1 _].
  rewrite (named_at_none _ H1). reflexivity.
Qed.

Lemma ref_free_find_num : forall v, ref_free v = true -> find_num v = None.
Proof.
  induction v; simpl; intros H; auto.
  apply andb_true_iff in H. destruct H as [H1 H2].
  rewrite (IHv H2).
  destruct (a =? 0); auto.
  destruct (a =? 38) eqn:E; auto.
  simpl in H1. apply negb_true_iff in H1. apply orb_false_iff in H1. destruct H1 as [_ H1].
  destruct v as [|h r']; auto.
  destruct (h =? 35) eqn:E2; auto.
  apply N.eqb_eq in E2. subst h.
  rewrite (num_at_none _ H1). reflexivity.
Qed.

(* ------------------------------------------------------------------ decoding an escaped text *)
(* the already decoded part of the text: no NUL, and no '&' in it starts a name; once the text is
   closed by a stopper character *)
Fixpoint pre_ok (p : str) : bool :=
  match p with
  | [] => true
  | c :: r => negb (c =? 0) && negb ((c =? 38) && named_tail r) && pre_ok r
  end.

Lemma pre_ok_of_ref_free : forall p c r,
  stopper c = true -> no_nul p = true -> ref_free (p ++ c :: r) = true -> pre_ok p = true.
Proof.
  induction p; simpl; intros; auto.
  apply andb_true_iff in H0. destruct H0 as [N1 N2].
  apply andb_true_iff in H1. destruct H1 as [R1 R2].
  rewrite (IHp c r H N2 R2). rewrite N1. simpl.
  destruct (a =? 38); simpl in *; auto.
  apply negb_true_iff in R1. apply orb_false_iff in R1. destruct R1 as [R1 _].
  rewrite named_tail_app_stop in R1 by assumption. rewrite R1. reflexivity.
Qed.

Lemma find_named_after_prefix : forall p m name x,
  pre_ok p = true -> named_at m = Some (name, x) ->
  find_named (p ++ 38 :: m) = Some (p, name, x).
Proof.
  induction p; intros m name x P M.
  - simpl. rewrite M. reflexivity.
  - simpl in P. apply andb_true_iff in P. destruct P as [P P3].
    apply andb_true_iff in P. destruct P as [P1 P2].
    apply negb_true_iff in P1.
    simpl app. simpl find_named. rewrite P1.
    rewrite (IHp m name x P3 M).
    destruct (a =? 38); auto.
    simpl in P2. apply negb_true_iff in P2.
    assert (S38 : stopper 38 = true) by reflexivity.
    rewrite <- (named_tail_app_stop p 38 m S38) in P2.
    rewrite (named_at_none _ P2). reflexivity.
Qed.

Lemma no_nul_app : forall a b, no_nul (a ++ b) = no_nul a && no_nul b.
Proof. intros. unfold no_nul. apply forallb_app. Qed.

Lemma escape_cons : forall c r, escape (c :: r) = esc_byte c ++ escape r.
Proof. reflexivity. Qed.

Lemma xlate_named_escape : forall r p fuel,
  ref_free (p ++ r) = true -> no_nul (p ++ r) = true -> (length r <= fuel)%nat ->
  xlate_named fuel (p ++ escape r) = p ++ r.
Proof.
  induction r as [|c r IH]; intros p fuel RF NN L.
  - simpl. rewrite app_nil_r in *.
    destruct fuel; simpl; auto. rewrite (ref_free_find_named _ RF). reflexivity.
  - rewrite escape_cons.
    assert (NP : no_nul p = true).
    { rewrite no_nul_app in NN. apply andb_true_iff in NN. tauto. }
    assert (step : forall name,
               stopper c = true ->
               esc_byte c = 38 :: name ++ [59] -> entity_char name = c ->
               (forall x, named_at (name ++ 59 :: x) = Some (name, x)) ->
               xlate_named fuel (p ++ esc_byte c ++ escape r) = p ++ c :: r).
    { intros name SC E EC NA.
      destruct fuel as [|f]; [simpl in L; lia|].
      rewrite E. simpl app.
      replace ((name ++ [59]) ++ escape r) with (name ++ 59 :: escape r)
        by (rewrite <- app_assoc; reflexivity).
      simpl xlate_named.
      rewrite (find_named_after_prefix p _ name (escape r)
                 (pre_ok_of_ref_free p c r SC NP RF) (NA _)).
      rewrite EC.
      replace (p ++ c :: escape r) with ((p ++ [c]) ++ escape r) by (rewrite <- app_assoc; reflexivity).
      replace (p ++ c :: r) with ((p ++ [c]) ++ r) by (rewrite <- app_assoc; reflexivity).
      apply IH.
      - rewrite <- app_assoc. exact RF.
      - rewrite <- app_assoc. exact NN.
      - simpl in L. lia. }
    unfold esc_byte in *.
    destruct (c =? 38) eqn:E1.
    { apply N.eqb_eq in E1. subst c. apply (step [97; 109; 112]); try reflexivity. }
    destruct (c =? 60) eqn:E2.
    { apply N.eqb_eq in E2. subst c. apply (step [108; 116]); try reflexivity. }
    destruct (c =? 62) eqn:E3.
    { apply N.eqb_eq in E3. subst c. apply (step [103; 116]); try reflexivity. }
    destruct (c =? 34) eqn:E4.
    { apply N.eqb_eq in E4. subst c. apply (step [113; 117; 111; 116]); try reflexivity. }
    destruct (c =? 39) eqn:E5.
    { apply N.eqb_eq in E5. subst c. apply (step [97; 112; 111; 115]); try reflexivity. }
    simpl app.
    replace (p ++ c :: escape r) with ((p ++ [c]) ++ escape r) by (rewrite <- app_assoc; reflexivity).
    replace (p ++ c :: r) with ((p ++ [c]) ++ r) by (rewrite <- app_assoc; reflexivity).
    apply IH.
    + rewrite <- app_assoc. exact RF.
    + rewrite <- app_assoc. exact NN.
    + simpl in L. lia.
Qed.

Lemma length_escape : forall v, (length v <= length (escape v))%nat.
Proof.
  induction v; simpl; auto.
  rewrite app_length. unfold esc_byte.
  repeat match goal with |- context [if ?b then _ else _] => destruct b end; simpl; lia.
Qed.

Lemma xlate_escape : forall v, value_ok v = true -> xlate (escape v) = v.
Proof.
  intros v H. unfold value_ok in H. apply andb_true_iff in H. destruct H as [NN RF].
  unfold xlate.
  pose proof (xlate_named_escape v [] (S (length (escape v))) RF NN) as X.
  simpl app in X. rewrite X by (pose proof (length_escape v); lia).
  simpl. rewrite (ref_free_find_num _ RF). reflexivity.
Qed.

Lemma c32_entity_single_partial_lemma : forall v, value_ok v = true -> xlate (escape v) = v.
Proof. exact xlate_escape. Qed.

Lemma c32_entity_refuted_lemma :
  let v := bs "&lt;" in
  escape v = bs "&amp;lt;" /\ xlate (escape v) = bs "<" /\
  parse_doc (print_el (El (bs "a") None (Some v) [(bs "k", v)] [])) =
    Ok (El (bs "a") None (Some (bs "<")) [(bs "k", bs "<")] []).
Proof. vm_compute. repeat split. Qed.

(* ------------------------------------------------------------------ ParseAttrs *)
(* the character loop without the extra turn at the end of the string *)
Fixpoint arun (line : N) (f : aframe) (s : str) : res aframe :=
  match s with
  | [] => Ok f
  | c :: r => match astep line f c with
              | Ok f' => arun line f' r
              | Err m => Err m
              | OutOfFuel => OutOfFuel
              end
  end.

Lemma last_nonempty_indep : forall (r : str) n a b, last (n :: r) a = last (n :: r) b.
Proof. induction r; intros; auto. change (last (a :: r) a0 = last (a :: r) b). apply IHr. Qed.

Lemma aloop_arun : forall line s f prev,
  aloop line f s prev = match arun line f s with
                        | Ok f' => astep line f' (last s prev)
                        | Err m => Err m
                        | OutOfFuel => OutOfFuel
                        end.
Proof.
  induction s as [|c r IH]; intros; simpl; auto.
  destruct (astep line f c) eqn:E; auto.
  rewrite IH. destruct r; [reflexivity|].
  rewrite (last_nonempty_indep r n c prev). reflexivity.
Qed.

Lemma arun_app : forall line s1 s2 f,
  arun line f (s1 ++ s2) = match arun line f s1 with
                           | Ok f' => arun line f' s2
                           | Err m => Err m
                           | OutOfFuel => OutOfFuel
                           end.
Proof.
  induction s1 as [|c r IH]; intros; simpl; auto.
  destruct (astep line f c); auto.
Qed.

Lemma name_char_facts : forall c, name_char c = true ->
  isspace c = false /\ (c =? 61) = false /\ is_quote c = false /\ (c =? 47) = false /\
  mem_byte c [92; 39; 34; 61] = false /\ (c =? 62) = false /\ (c =? 63) = false /\ (c =? 33) = false /\
  (c =? 92) = false /\ (c =? 34) = false /\ (c =? 39) = false /\ (c =? 10) = false /\ (c =? 13) = false /\
  (c =? 60) = false.
Proof.
  intros c H. unfold name_char in H.
  unfold isspace, is_quote, mem_byte.
  repeat match goal with
         | H : _ || _ = true |- _ => apply orb_true_iff in H; destruct H as [H|H]
         | H : _ && _ = true |- _ => apply andb_true_iff in H; destruct H
         | H : (_ <=? _) = true |- _ => apply N.leb_le in H
         | H : (_ =? _) = true |- _ => apply N.eqb_eq in H
         end;
  repeat split;
  repeat match goal with
         | |- _ || _ = false => apply orb_false_iff; split
         | |- _ && _ = false => apply andb_false_iff
         | |- (_ =? _) = false => apply N.eqb_neq; lia
         end; auto;
  try (right; apply N.leb_gt; lia); try (left; apply N.leb_gt; lia).
Qed.

Lemma arun_name : forall line k t v com acc,
  forallb name_char k = true ->
  arun line (mkA Atag t v com acc) k = Ok (mkA Atag (t ++ k) v com acc).
Proof.
  induction k as [|c r IH]; intros.
  - simpl. rewrite app_nil_r. reflexivity.
  - simpl in H. apply andb_true_iff in H. destruct H as [Hc Hr].
    destruct (name_char_facts c Hc) as (F1 & F2 & F3 & _).
    cbn [arun astep a_st]. unfold astep_tag. cbn [a_tag a_val a_com a_attrs]. rewrite F1, F2, F3.
    rewrite IH by assumption. rewrite <- app_assoc. reflexivity.
Qed.

Lemma arun_value : forall line s t v com acc,
  forallb (fun c => negb (c =? com)) s = true ->
  arun line (mkA Avalue t v com acc) s = Ok (mkA Avalue t (v ++ s) com acc).
Proof.
  induction s as [|c r IH]; intros.
  - simpl. rewrite app_nil_r. reflexivity.
  - simpl in H. apply andb_true_iff in H. destruct H as [Hc Hr].
    cbn [arun astep a_st a_tag a_val a_com a_attrs].
    rewrite Hc. rewrite IH by assumption. rewrite <- app_assoc. reflexivity.
Qed.

Lemma escape_no_quote : forall v, forallb (fun c => negb (c =? 34)) (escape v) = true.
Proof.
  induction v; simpl; auto.
  rewrite forallb_app. rewrite IHv. rewrite andb_true_r.
  unfold esc_byte.
  repeat match goal with |- context [if ?b then _ else _] => destruct b eqn:? end; try reflexivity.
  simpl. rewrite Heqb2. reflexivity.
Qed.

Lemma has_any_name : forall k, forallb name_char k = true -> has_any [92; 39; 34; 61] k = false.
Proof.
  induction k; simpl; intros; auto.
  apply andb_true_iff in H. destruct H as [Hc Hr].
  destruct (name_char_facts a Hc) as (_ & _ & _ & _ & F5 & _).
  simpl in F5. rewrite F5. auto.
Qed.

Lemma arun_cons : forall line f c r,
  arun line f (c :: r) = match astep line f c with
                         | Ok f' => arun line f' r
                         | Err m => Err m
                         | OutOfFuel => OutOfFuel
                         end.
Proof. reflexivity. Qed.

Lemma astep_ews_blank : forall line t v com acc,
  astep line (mkA Aews t v com acc) 32 = Ok (mkA Aews t v com acc).
Proof. reflexivity. Qed.

Lemma astep_ews_name : forall line t v com acc c, name_char c = true ->
  astep line (mkA Aews t v com acc) c = Ok (mkA Atag (t ++ [c]) v com acc).
Proof.
  intros. destruct (name_char_facts c H) as (F1 & F2 & F3 & F4 & _).
  cbn [astep a_st a_tag a_val a_com a_attrs]. rewrite F4, F1. reflexivity.
Qed.

Lemma astep_tag_eq : forall line t v com acc,
  astep line (mkA Atag t v com acc) 61 = Ok (mkA Aoq t v com acc).
Proof. reflexivity. Qed.

Lemma astep_oq_quote : forall line t v com acc,
  astep line (mkA Aoq t v com acc) 34 = Ok (mkA Avalue t v 34 acc).
Proof. reflexivity. Qed.

Lemma astep_value_close : forall line t v acc,
  has_any [92; 39; 34; 61] t = false -> str_eqb t s_docpath = false -> has_key t acc = false ->
  astep line (mkA Avalue t v 34 acc) 34 = Ok (mkA Aews [] [] 0 (acc ++ [(t, xlate v)])).
Proof.
  intros. cbn [astep a_st a_tag a_val a_com a_attrs].
  rewrite N.eqb_refl. cbn [negb]. rewrite H, H0, H1. reflexivity.
Qed.

Lemma arun_attr : forall line k v acc,
  key_ok k = true -> value_ok v = true -> has_key k acc = false ->
  arun line (mkA Aews [] [] 0 acc) (print_attr (k, v)) = Ok (mkA Aews [] [] 0 (acc ++ [(k, v)])).
Proof.
  intros line k v acc K V HK.
  unfold key_ok in K. apply andb_true_iff in K. destruct K as [K1 K2].
  unfold is_name in K1. apply andb_true_iff in K1. destruct K1 as [K0 K1].
  destruct k as [|c k]; [discriminate|].
  pose proof K1 as K1'.
  simpl in K1. apply andb_true_iff in K1. destruct K1 as [Kc Kr].
  change (print_attr (c :: k, v)) with (32 :: c :: (k ++ 61 :: 34 :: escape v ++ [34])).
  rewrite arun_cons, astep_ews_blank.
  rewrite arun_cons, astep_ews_name by assumption.
  rewrite arun_app, arun_name by assumption.
  rewrite arun_cons, astep_tag_eq.
  rewrite arun_cons, astep_oq_quote.
  rewrite arun_app, arun_value by apply escape_no_quote.
  rewrite arun_cons. simpl app.
  rewrite astep_value_close.
  - rewrite xlate_escape by assumption. reflexivity.
  - apply has_any_name. exact K1'.
  - change s_docpath with s_docpath_attr. apply negb_true_iff in K2. exact K2.
  - exact HK.
Qed.

Lemma has_key_app : forall k a b, has_key k (a ++ b) = has_key k a || has_key k b.
Proof.
  induction a; simpl; intros; auto. destruct a. rewrite IHa. apply orb_assoc.
Qed.

Lemma arun_attrs : forall line m acc,
  keys_nodup m = true ->
  forallb (fun kv => key_ok (fst kv) && value_ok (snd kv)) m = true ->
  forallb (fun kv => negb (has_key (fst kv) acc)) m = true ->
  arun line (mkA Aews [] [] 0 acc) (print_attrs m) = Ok (mkA Aews [] [] 0 (acc ++ m)).
Proof.
  induction m as [|[k v] m IH]; intros acc ND OK DJ.
  - simpl. rewrite app_nil_r. reflexivity.
  - simpl in ND, OK, DJ.
    apply andb_true_iff in ND. destruct ND as [ND1 ND2].
    apply andb_true_iff in OK. destruct OK as [OK1 OK2].
    apply andb_true_iff in OK1. destruct OK1 as [OKk OKv].
    apply andb_true_iff in DJ. destruct DJ as [DJ1 DJ2].
    apply negb_true_iff in DJ1. apply negb_true_iff in ND1.
    change (print_attrs ((k, v) :: m)) with (print_attr (k, v) ++ print_attrs m).
    rewrite arun_app. rewrite arun_attr by assumption.
    rewrite IH; auto.
    + rewrite <- app_assoc. reflexivity.
    + (* the remaining keys are not among acc ++ [(k, v)] *)
      clear IH OK2 ND2.
      induction m as [|[k' v'] m IHm]; simpl; auto.
      simpl in DJ2, ND1.
      apply andb_true_iff in DJ2. destruct DJ2 as [D1 D2].
      apply orb_false_iff in ND1. destruct ND1 as [N1 N2].
      rewrite has_key_app. simpl.
      apply negb_true_iff in D1. rewrite D1. simpl.
      rewrite str_eqb_sym, N1. simpl. apply IHm; auto.
Qed.

Lemma astep_ews_attrs : forall line acc c, exists f',
  astep line (mkA Aews [] [] 0 acc) c = Ok f' /\ a_attrs f' = acc.
Proof.
  intros. cbn [astep a_st a_tag a_val a_com a_attrs].
  destruct (c =? 47); [eexists; split; reflexivity|].
  destruct (negb (isspace c)); eexists; split; reflexivity.
Qed.

Lemma c32_attrs_partial_lemma : forall line m,
  attrs_ok m = true -> parse_attrs line (print_attrs m) = Ok m.
Proof.
  intros line m H. unfold attrs_ok in H. apply andb_true_iff in H. destruct H as [ND OK].
  unfold parse_attrs. rewrite aloop_arun.
  rewrite (arun_attrs line m [] ND OK).
  - simpl app.
    destruct (astep_ews_attrs line m (last (print_attrs m) 0)) as (f' & E & A).
    rewrite E, A. reflexivity.
  - clear. induction m; simpl; auto.
Qed.

(* ------------------------------------------------------------------ find *)
Lemma mem_index_of_none : forall d s, mem_byte d s = false -> index_of d s = None.
Proof.
  induction s; cbn [index_of mem_byte]; intros; auto.
  apply orb_false_iff in H. destruct H as [H1 H2].
  rewrite (N.eqb_sym a d), H1. rewrite IHs by assumption. reflexivity.
Qed.

Lemma split_no_delim : forall d s, index_of d s = None -> split_on d s = [s].
Proof.
  induction s; simpl; intros; auto.
  destruct (a =? d) eqn:E; [discriminate|].
  destruct (index_of d s) eqn:I; [discriminate|].
  rewrite IHs by reflexivity. reflexivity.
Qed.

Lemma split_at_delim : forall d s p, index_of d s = Some p ->
  split_on d s = firstn p s :: split_on d (skipn (S p) s).
Proof.
  induction s; simpl; intros; [discriminate|].
  destruct (a =? d) eqn:E.
  - inversion H; subst. reflexivity.
  - destruct (index_of d s) eqn:I; [|discriminate].
    inversion H; subst. rewrite (IHs n eq_refl). reflexivity.
Qed.

Lemma index_of_length : forall d s p, index_of d s = Some p -> (length (skipn (S p) s) < length s)%nat.
Proof.
  induction s; simpl; intros; [discriminate|].
  destruct (a =? d).
  - inversion H; subst. simpl. lia.
  - destruct (index_of d s) eqn:I; [|discriminate]. inversion H; subst.
    specialize (IHs n eq_refl). lia.
Qed.

Lemma index_of_firstn : forall d s p, index_of d s = Some p -> exists r, s = firstn p s ++ d :: r /\ skipn (S p) s = r.
Proof.
  induction s; simpl; intros; [discriminate|].
  destruct (a =? d) eqn:E.
  - inversion H; subst. apply N.eqb_eq in E. subst. exists s. split; reflexivity.
  - destruct (index_of d s) eqn:I; [|discriminate]. inversion H; subst.
    destruct (IHs n eq_refl) as (r & E1 & E2). exists r. split; [|exact E2].
    cbn [firstn app]. rewrite <- E1. reflexivity.
Qed.

Lemma mapi_from_ext : forall (A B : Type) (g h : nat -> A -> B) l n,
  (forall i k, In k l -> g i k = h i k) -> mapi_from n g l = mapi_from n h l.
Proof.
  induction l; simpl; intros; auto.
  rewrite H by auto. rewrite IHl; auto.
Qed.

Lemma strip_root_noroot : forall s, starts_with [47; 47] s = false -> strip_root s = (false, s).
Proof.
  intros. destruct s as [|c1 [|c2 r]]; cbn [starts_with strip_root] in *; auto.
  rewrite andb_true_r in H. rewrite (N.eqb_sym c1 47), (N.eqb_sym c2 47), H. reflexivity.
Qed.

Lemma find_tags_ok_kids : forall d t k, find_tags_ok d t = true -> In k (el_kids t) -> find_tags_ok d k = true.
Proof.
  intros d [tag dc v att kids] k H I. simpl in *.
  apply andb_true_iff in H. destruct H as [_ H].
  rewrite forallb_forall in H. auto.
Qed.

Lemma find_tags_ok_tag : forall d t, find_tags_ok d t = true ->
  el_tag t <> [] /\ mem_byte d (el_tag t) = false /\ starts_with [47; 47] (el_tag t) = false.
Proof.
  intros d [tag dc v att kids] H. cbn [find_tags_ok el_tag] in *.
  apply andb_true_iff in H. destruct H as [H _].
  apply andb_true_iff in H. destruct H as [H H3].
  apply andb_true_iff in H. destruct H as [H1 H2].
  apply negb_true_iff in H2, H3. repeat split; auto.
  destruct tag; [discriminate|congruence].
Qed.

(* a path whose first component is such a tag does not begin with the root marker *)
Lemma tag_path_not_rooted : forall d tag s,
  tag <> [] -> mem_byte d tag = false -> starts_with [47; 47] tag = false ->
  (match index_of d s with Some p => firstn p s | None => s end) = tag ->
  starts_with [47; 47] s = false.
Proof.
  intros d tag s NE ND NR H.
  destruct (index_of d s) as [p|] eqn:I; [|subst; exact NR].
  destruct (index_of_firstn _ _ _ I) as (r & E & _). rewrite H in E. rewrite E.
  destruct tag as [|c1 [|c2 tag]]; [contradiction| |].
  - cbn [app starts_with]. cbn [mem_byte] in ND. apply orb_false_iff in ND. destruct ND as [ND _].
    destruct (47 =? c1) eqn:E1; [|reflexivity]. apply N.eqb_eq in E1. subst c1.
    cbn [andb]. rewrite (N.eqb_sym 47 d), ND. reflexivity.
  - change ((c1 :: c2 :: tag) ++ d :: r) with (c1 :: c2 :: (tag ++ d :: r)).
    cbn [starts_with] in *. exact NR.
Qed.

(* the path walk below one element (no leading "//") *)
Lemma find_all_walk : forall root d q fuel what cur a,
  find_tags_ok d cur = true -> starts_with [47; 47] what = false -> (length what < fuel)%nat ->
  find_all fuel root cur a what d q = reach (split_on d what) q cur a.
Proof.
  intros root d q. induction fuel as [|f IH]; intros what cur a TK NR L; [lia|].
  cbn [find_all]. rewrite NR.
  destruct (find_tags_ok_tag d cur TK) as (TNE & TNS & _).
  destruct (str_eqb what (el_tag cur)) eqn:E.
  - apply str_eqb_eq in E. subst what.
    rewrite split_no_delim by (apply mem_index_of_none; exact TNS).
    cbn [reach]. rewrite str_eqb_refl. reflexivity.
  - destruct (index_of d what) as [fpos|] eqn:I.
    + rewrite (split_at_delim _ _ _ I).
      set (lwhat := skipn (S fpos) what).
      cbn [reach].
      assert (NE : split_on d lwhat <> []).
      { destruct lwhat as [|c r]; simpl; [discriminate|].
        destruct (c =? d); [discriminate|]. destruct (split_on d r); discriminate. }
      destruct (el_kids cur) as [|k0 ks] eqn:KS.
      * destruct (str_eqb (firstn fpos what) (el_tag cur)); [|reflexivity].
        destruct (split_on d lwhat); [contradiction|reflexivity].
      * destruct (str_eqb (firstn fpos what) (el_tag cur)); [|reflexivity].
        destruct (split_on d lwhat) as [|c0 rest] eqn:SP; [contradiction|].
        rewrite <- SP. f_equal.
        apply mapi_from_ext. intros i k IN.
        assert (TKk : find_tags_ok d k = true).
        { apply (find_tags_ok_kids d cur); auto. rewrite KS. exact IN. }
        destruct (find_tags_ok_tag d k TKk) as (KNE & KND & KNR).
        assert (HD : split_on d lwhat =
                     (match index_of d lwhat with Some p => firstn p lwhat | None => lwhat end)
                       :: tl (split_on d lwhat)).
        { destruct (index_of d lwhat) eqn:I2.
          - rewrite (split_at_delim _ _ _ I2). reflexivity.
          - rewrite (split_no_delim _ _ I2). reflexivity. }
        set (nwhat := match index_of d lwhat with Some p => firstn p lwhat | None => lwhat end) in *.
        destruct (str_eqb (el_tag k) nwhat) eqn:EK.
        -- apply str_eqb_eq in EK.
           apply IH; auto.
           ++ apply (tag_path_not_rooted d (el_tag k)); auto.
           ++ pose proof (index_of_length _ _ _ I). fold lwhat in H. lia.
        -- rewrite HD. cbn [reach]. rewrite str_eqb_sym, EK. reflexivity.
    + rewrite (split_no_delim _ _ I). cbn [reach]. rewrite E.
      destruct (el_kids cur); reflexivity.
Qed.

Lemma find_all_exact : forall root d q fuel what cur a,
  find_tags_ok d root = true -> find_tags_ok d cur = true -> (length what < fuel)%nat ->
  find_all fuel root cur a what d q = reach_path root cur a what d q.
Proof.
  intros root d q. induction fuel as [|f IH]; intros what cur a TR TK L; [lia|].
  destruct (starts_with [47; 47] what) eqn:SW.
  - cbn [find_all]. rewrite SW.
    destruct what as [|c1 [|c2 r]]; cbn [starts_with] in SW; try discriminate.
    { rewrite andb_false_r in SW. discriminate. }
    rewrite andb_true_r in SW.
    cbn [skipn].
    rewrite IH; auto; [|simpl in L; lia].
    unfold reach_path. cbn [strip_root]. rewrite (N.eqb_sym c1 47), (N.eqb_sym c2 47), SW.
    destruct (strip_root r) as [rooted p]. simpl snd.
    destruct rooted; reflexivity.
  - rewrite find_all_walk; auto.
    unfold reach_path. rewrite strip_root_noroot by assumption. reflexivity.
Qed.

Lemma first_some_concat : forall (A : Type) (ls : list (list A)),
  first_some (map (@hd_error A) ls) = hd_error (List.concat ls).
Proof.
  induction ls; simpl; auto.
  destruct a; simpl; auto.
Qed.

Lemma mapi_from_map : forall (A B C : Type) (g : nat -> A -> B) (h : B -> C) l n,
  map h (mapi_from n g l) = mapi_from n (fun i k => h (g i k)) l.
Proof. induction l; simpl; intros; auto. rewrite IHl. reflexivity. Qed.

(* for ALL trees, paths, delimiters and filters: find-first is the head of find-all *)
Lemma find_first_hd : forall root d q fuel what cur a,
  find_first fuel root cur a what d q = hd_error (find_all fuel root cur a what d q).
Proof.
  intros root d q. induction fuel as [|f IH]; intros; [reflexivity|].
  cbn [find_first find_all].
  destruct (starts_with [47; 47] what); [apply IH|].
  destruct (str_eqb what (el_tag cur)).
  - destruct (attr_pred q cur); reflexivity.
  - destruct (el_kids cur) eqn:KS; [reflexivity|]. rewrite <- KS.
    destruct (index_of d what); [|reflexivity].
    destruct (str_eqb _ (el_tag cur)); [|reflexivity].
    rewrite <- first_some_concat. rewrite mapi_from_map.
    f_equal. apply mapi_from_ext. intros i k _.
    destruct (str_eqb (el_tag k) _); [apply IH|reflexivity].
Qed.

(* the filtered reach is the unfiltered reach, filtered *)
Lemma filter_concat : forall (A : Type) (p : A -> bool) (ls : list (list A)),
  filter p (List.concat ls) = List.concat (map (filter p) ls).
Proof. induction ls; simpl; auto. rewrite filter_app, IHls. reflexivity. Qed.

Lemma reach_filter : forall comps q t a,
  reach comps q t a = map fst (filter (fun p => attr_ok q (snd p)) (reach_el comps t a)).
Proof.
  induction comps as [|c rest IH]; intros; [reflexivity|].
  cbn [reach reach_el].
  destruct (str_eqb c (el_tag t)); [|reflexivity].
  destruct rest as [|c2 rest'].
  - cbn [filter snd]. destruct (attr_ok q t); reflexivity.
  - rewrite filter_concat, concat_map. f_equal.
    rewrite !mapi_from_map. apply mapi_from_ext. intros i k _. apply IH.
Qed.

Lemma reach_path_filter : forall root cur a path d q,
  reach_path root cur a path d q =
  map fst (filter (fun p => attr_ok q (snd p)) (reach_path_el root cur a path d)).
Proof.
  intros. unfold reach_path, reach_path_el.
  destruct (strip_root path) as [rooted p]. destruct rooted; apply reach_filter.
Qed.

Lemma c32_find_exact_lemma : forall root cur a path d q,
  find_tags_ok d root = true -> find_tags_ok d cur = true ->
  find_all (find_fuel path) root cur a path d q = reach_path root cur a path d q /\
  find_first (find_fuel path) root cur a path d q = hd_error (reach_path root cur a path d q).
Proof.
  intros. rewrite find_first_hd.
  rewrite find_all_exact; auto.
Qed.

Lemma c32_find_filter_lemma : forall root cur a path d q,
  find_tags_ok d root = true -> find_tags_ok d cur = true ->
  let matched := reach_path_el root cur a path d in
  find_all (find_fuel path) root cur a path d (None, None) = map fst matched /\
  find_all (find_fuel path) root cur a path d q = map fst (filter (fun p => attr_ok q (snd p)) matched) /\
  find_first (find_fuel path) root cur a path d q =
    hd_error (map fst (filter (fun p => attr_ok q (snd p)) matched)).
Proof.
  intros root cur a path d q TR TK matched. unfold matched.
  rewrite find_first_hd.
  rewrite !find_all_exact by auto.
  rewrite !reach_path_filter. repeat split; auto.
  f_equal. generalize (reach_path_el root cur a path d). clear.
  change (fun p : addr * el => attr_ok (None, None) (snd p)) with (fun _ : addr * el => true).
  induction l as [|x l IH]; auto. cbn [filter]. rewrite IH. reflexivity.
Qed.
