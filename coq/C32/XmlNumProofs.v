(* C32 -- markup characters written as NUMERIC references survive InplaceXlate under the same
   hypothesis as the named ones. *)
From Coq Require Import String.
From Coq Require Import NArith List Bool Lia Arith.
From F8 Require Import C32.XmlBase C32.Xml C32.Spec_C32 C32.XmlProofs.
Import ListNotations.
Local Open Scope N_scope.

(* a character that cannot occur inside  #digits;  or  #xhex;  *)
Definition stopper_num (c : byte) : bool :=
  negb (hex_c c) && negb (c =? 59) && negb (c =? 35) && negb (c =? 120).

Lemma hex_digit : forall c, hex_c c = false -> digit_c c = false.
Proof. intros c H. unfold hex_c in H. apply orb_false_iff in H. destruct H as [H _]. apply orb_false_iff in H. tauto. Qed.

Lemma num_tail_app_stop : forall a c y, stopper_num c = true -> num_tail (a ++ c :: y) = num_tail a.
Proof.
  intros a c y H. unfold stopper_num in H.
  apply andb_true_iff in H. destruct H as [H H4].
  apply andb_true_iff in H. destruct H as [H H3].
  apply andb_true_iff in H. destruct H as [H1 H2].
  apply negb_true_iff in H1, H2, H3, H4.
  pose proof (hex_digit c H1) as HD.
  destruct a as [|h a1].
  - cbn [app num_tail]. rewrite H3. reflexivity.
  - destruct a1 as [|x a2].
    + cbn [app num_tail]. rewrite H4. cbn [count_while]. rewrite HD. cbn. rewrite andb_false_r. reflexivity.
    + change ((h :: x :: a2) ++ c :: y) with (h :: x :: (a2 ++ c :: y)).
      cbn [num_tail]. destruct (x =? 120).
      * rewrite count_while_app_stop, skip_while_app_stop, semicolon_next_app_stop by assumption. reflexivity.
      * change (x :: a2 ++ c :: y) with ((x :: a2) ++ c :: y).
        rewrite count_while_app_stop, skip_while_app_stop, semicolon_next_app_stop by assumption. reflexivity.
Qed.

Fixpoint pre_ok_num (p : str) : bool :=
  match p with
  | [] => true
  | c :: r => negb (c =? 0) && negb ((c =? 38) && num_tail r) && pre_ok_num r
  end.

Lemma pre_ok_num_of_ref_free : forall p c r,
  stopper_num c = true -> no_nul p = true -> ref_free (p ++ c :: r) = true -> pre_ok_num p = true.
Proof.
  induction p; simpl; intros; auto.
  apply andb_true_iff in H0. destruct H0 as [N1 N2].
  apply andb_true_iff in H1. destruct H1 as [R1 R2].
  rewrite (IHp c r H N2 R2). rewrite N1. simpl.
  destruct (a =? 38); simpl in *; auto.
  apply negb_true_iff in R1. apply orb_false_iff in R1. destruct R1 as [_ R1].
  rewrite num_tail_app_stop in R1 by assumption. rewrite R1. reflexivity.
Qed.

Lemma num_check_none : forall r, num_tail r = false ->
  match r with [] => None | h :: r' => if h =? 35 then num_at r' else None end = None.
Proof.
  intros [|h r'] H; auto.
  destruct (h =? 35) eqn:E; auto. apply N.eqb_eq in E. subst h. apply num_at_none. exact H.
Qed.

Lemma find_num_after_prefix : forall p m hx ds x,
  pre_ok_num p = true -> num_at m = Some (hx, ds, x) ->
  find_num (p ++ 38 :: 35 :: m) = Some (p, (hx, ds), x).
Proof.
  induction p; intros m hx ds x P M.
  - cbn [app find_num]. cbn [N.eqb Pos.eqb]. rewrite M. reflexivity.
  - simpl in P. apply andb_true_iff in P. destruct P as [P P3].
    apply andb_true_iff in P. destruct P as [P1 P2].
    apply negb_true_iff in P1.
    cbn [app find_num]. rewrite P1.
    rewrite (IHp m hx ds x P3 M).
    destruct (a =? 38); auto.
    simpl in P2. apply negb_true_iff in P2.
    assert (S38 : stopper_num 38 = true) by reflexivity.
    rewrite <- (num_tail_app_stop p 38 (35 :: m) S38) in P2.
    rewrite (num_check_none _ P2). reflexivity.
Qed.

Section NumericEscapes.
  Variable E : byte -> str.
  Hypothesis E_plain : forall c, is_markup c = false -> E c = [c].
  Hypothesis E_ref : forall c, is_markup c = true ->
    exists m hx ds, E c = 38 :: 35 :: m /\
      forallb (fun d => negb (d =? 38) && negb (d =? 0)) m = true /\
      (forall x, num_at (m ++ x) = Some (hx, ds, x)) /\
      num_bytes (parse_int (if hx then 16 else 10) ds) = [c].

  Lemma markup_stopper : forall c, is_markup c = true -> stopper_num c = true.
  Proof.
    intros c H. unfold is_markup in H.
    repeat (apply orb_true_iff in H; destruct H as [H|H]); apply N.eqb_eq in H; subst; reflexivity.
  Qed.

  Lemma find_named_skip : forall m rest,
    forallb (fun d => negb (d =? 38) && negb (d =? 0)) m = true ->
    find_named rest = None -> find_named (m ++ rest) = None.
  Proof.
    induction m; simpl; intros; auto.
    apply andb_true_iff in H. destruct H as [H1 H2].
    apply andb_true_iff in H1. destruct H1 as [A B]. apply negb_true_iff in A, B.
    rewrite B, A. rewrite IHm; auto.
  Qed.

  Lemma find_named_num_escaped : forall v, find_named (flat_map E v) = None.
  Proof.
    induction v as [|c v IH]; auto.
    cbn [flat_map].
    destruct (is_markup c) eqn:MK.
    - destruct (E_ref c MK) as (m & hx & ds & EC & OKM & _ & _). rewrite EC.
      change ((38 :: 35 :: m) ++ flat_map E v) with (38 :: 35 :: (m ++ flat_map E v)).
      cbn [find_named]. cbn [N.eqb Pos.eqb].
      replace (named_at (35 :: m ++ flat_map E v)) with (@None (str * str)) by reflexivity.
      rewrite find_named_skip; auto.
    - rewrite (E_plain c MK). cbn [app find_named].
      destruct (c =? 0); auto.
      assert (C38 : (c =? 38) = false).
      { unfold is_markup in MK. repeat (apply orb_false_iff in MK; destruct MK as [MK ?]). exact MK. }
      rewrite C38, IH. reflexivity.
  Qed.

  Lemma xlate_num_escaped : forall r p fuel,
    ref_free (p ++ r) = true -> no_nul (p ++ r) = true -> (length r <= fuel)%nat ->
    xlate_num fuel (p ++ flat_map E r) = p ++ r.
  Proof.
    induction r as [|c r IH]; intros p fuel RF NN L.
    - simpl. rewrite app_nil_r in *.
      destruct fuel; simpl; auto. rewrite (ref_free_find_num _ RF). reflexivity.
    - cbn [flat_map].
      assert (NP : no_nul p = true).
      { rewrite no_nul_app in NN. apply andb_true_iff in NN. tauto. }
      destruct (is_markup c) eqn:MK.
      + destruct (E_ref c MK) as (m & hx & ds & EC & _ & NA & NB). rewrite EC.
        destruct fuel as [|f]; [simpl in L; lia|].
        change (p ++ (38 :: 35 :: m) ++ flat_map E r) with (p ++ 38 :: 35 :: (m ++ flat_map E r)).
        cbn [xlate_num].
        rewrite (find_num_after_prefix p _ hx ds (flat_map E r)
                   (pre_ok_num_of_ref_free p c r (markup_stopper c MK) NP RF) (NA _)).
        rewrite NB.
        replace (p ++ [c] ++ flat_map E r) with ((p ++ [c]) ++ flat_map E r) by (rewrite <- app_assoc; reflexivity).
        replace (p ++ c :: r) with ((p ++ [c]) ++ r) by (rewrite <- app_assoc; reflexivity).
        apply IH.
        * rewrite <- app_assoc. exact RF.
        * rewrite <- app_assoc. exact NN.
        * simpl in L. lia.
      + rewrite (E_plain c MK).
        replace (p ++ [c] ++ flat_map E r) with ((p ++ [c]) ++ flat_map E r) by (rewrite <- app_assoc; reflexivity).
        replace (p ++ c :: r) with ((p ++ [c]) ++ r) by (rewrite <- app_assoc; reflexivity).
        apply IH.
        * rewrite <- app_assoc. exact RF.
        * rewrite <- app_assoc. exact NN.
        * simpl in L. lia.
  Qed.

  Lemma length_num_escaped : forall v, (length v <= length (flat_map E v))%nat.
  Proof.
    induction v as [|c v IH]; simpl; auto. rewrite app_length.
    destruct (is_markup c) eqn:MK.
    - destruct (E_ref c MK) as (m & hx & ds & EC & _). rewrite EC. simpl. lia.
    - rewrite (E_plain c MK). simpl. lia.
  Qed.

  Lemma xlate_num_escape : forall v, value_ok v = true -> xlate (flat_map E v) = v.
  Proof.
    intros v H. unfold value_ok in H. apply andb_true_iff in H. destruct H as [NN RF].
    unfold xlate. cbn [xlate_named]. rewrite find_named_num_escaped.
    pose proof (xlate_num_escaped v [] (S (length (flat_map E v))) RF NN) as X.
    simpl app in X. apply X. pose proof (length_num_escaped v). lia.
  Qed.
End NumericEscapes.

Lemma markup_cases : forall c, is_markup c = true -> c = 38 \/ c = 60 \/ c = 62 \/ c = 34 \/ c = 39.
Proof.
  intros c H. unfold is_markup in H.
  repeat (apply orb_true_iff in H; destruct H as [H|H]); apply N.eqb_eq in H; auto.
Qed.

Lemma not_markup_cases : forall c, is_markup c = false ->
  (c =? 38) = false /\ (c =? 60) = false /\ (c =? 62) = false /\ (c =? 34) = false /\ (c =? 39) = false.
Proof.
  intros c H. unfold is_markup in H.
  repeat (apply orb_false_iff in H; destruct H as [H ?]). auto.
Qed.

Lemma c32_entity_numeric_partial_lemma : forall v, value_ok v = true ->
  xlate (escape_dec v) = v /\ xlate (escape_hex v) = v.
Proof.
  intros v H. split.
  - apply (xlate_num_escape esc_dec_byte); auto.
    + intros c MK. destruct (not_markup_cases c MK) as (A & B & C & D & F).
      unfold esc_dec_byte. rewrite A, B, C, D, F. reflexivity.
    + intros c MK.
      destruct (markup_cases c MK) as [X|[X|[X|[X|X]]]]; subst c.
      * exists [51; 56; 59], false, [51; 56]. repeat split; reflexivity.
      * exists [54; 48; 59], false, [54; 48]. repeat split; reflexivity.
      * exists [54; 50; 59], false, [54; 50]. repeat split; reflexivity.
      * exists [51; 52; 59], false, [51; 52]. repeat split; reflexivity.
      * exists [51; 57; 59], false, [51; 57]. repeat split; reflexivity.
  - apply (xlate_num_escape esc_hex_byte); auto.
    + intros c MK. destruct (not_markup_cases c MK) as (A & B & C & D & F).
      unfold esc_hex_byte. rewrite A, B, C, D, F. reflexivity.
    + intros c MK.
      destruct (markup_cases c MK) as [X|[X|[X|[X|X]]]]; subst c.
      * exists [120; 50; 54; 59], true, [50; 54]. repeat split; reflexivity.
      * exists [120; 51; 99; 59], true, [51; 99]. repeat split; reflexivity.
      * exists [120; 51; 101; 59], true, [51; 101]. repeat split; reflexivity.
      * exists [120; 50; 50; 59], true, [50; 50]. repeat split; reflexivity.
      * exists [120; 50; 55; 59], true, [50; 55]. repeat split; reflexivity.
Qed.
