(* C32 -- totality of the model on arbitrary bytes: the fuel of parse_doc is never exhausted, and
   the two decoding loops of xlate do not depend on fuel beyond length + 1. *)
From Coq Require Import String.
From Coq Require Import NArith List Bool Lia Arith.
From F8 Require Import C32.XmlBase C32.Xml C32.Spec_C32 C32.XmlProofs.
Import ListNotations.
Local Open Scope N_scope.

(* potential of a stream: twice the characters left, plus the failing read still to come *)
Definition mu (s : stream) : nat := if sgood s then (2 * length (s_rest s) + 2)%nat else 0%nat.

Lemma mu_good : forall s, sgood s = true -> (2 <= mu s)%nat.
Proof. intros. unfold mu. rewrite H. lia. Qed.

Lemma mu_sget : forall s oc s1, sgood s = true -> sget s = (oc, s1) -> (mu s1 + 2 = mu s)%nat.
Proof.
  intros [r e f l] oc s1 G H. unfold sgood in G. cbn in G.
  destruct e, f; try discriminate.
  unfold sget in H. cbn in H. destruct r; inversion H; subst; unfold mu; cbn; clear; lia.
Qed.

Lemma mu_sbump : forall s, mu (sbump s) = mu s.
Proof. intros [r e f l]. reflexivity. Qed.

Lemma mu_speek : forall s p s', speek s = (p, s') -> (mu s' <= mu s)%nat.
Proof.
  intros [r e f l] p s' H. unfold speek in H.
  destruct (sgood (mkS r e f l)) eqn:G.
  - unfold sgood in G. cbn in G. destruct e, f; try discriminate.
    cbn in H. destruct r; inversion H; subst; unfold mu; cbn; clear; lia.
  - inversion H; subst. unfold mu. rewrite G. unfold sgood. cbn. rewrite andb_false_r. lia.
Qed.

Lemma mu_slash_gt : forall c s b s', slash_gt c s = (b, s') -> (mu s' <= mu s)%nat.
Proof.
  intros c s b s' H. unfold slash_gt in H. destruct (c =? 47).
  - destruct (speek s) eqn:E. inversion H; subst. eapply mu_speek; eauto.
  - inversion H; subst. lia.
Qed.

Lemma mu_putback_peek : forall c s p s', speek s = (p, s') -> (mu (sputback c s') <= mu s + 2)%nat.
Proof.
  intros c [r e f l] p s' H. unfold speek in H.
  destruct (sgood (mkS r e f l)) eqn:G.
  - unfold sgood in G. cbn in G. destruct e, f; try discriminate.
    cbn in H. destruct r; inversion H; subst; unfold mu, sputback; cbn; clear; lia.
  - inversion H; subst. unfold sputback. cbn. unfold mu, sgood. cbn. clear. lia.
Qed.

Definition in_value (f : frame) : nat := match f_st f with Svalue => 1%nat | _ => 0%nat end.

Lemma step_cont_mu : forall d f c s f2 s2, step d f c s = Cont f2 s2 -> (mu s2 <= mu s)%nat.
Proof.
  intros d f c s f2 s2 H. unfold step in H.
  destruct (f_st f);
    repeat match type of H with
           | (if ?b then _ else _) = _ => destruct b
           | (let (_, _) := ?x in _) = _ => let E := fresh "E" in destruct x eqn:E
           end;
    try discriminate; inversion H; subst; try lia;
    try (eapply mu_slash_gt; eassumption); try (eapply mu_speek; eassumption).
Qed.

Lemma step_child_mu : forall d f c s f2 s2, step d f c s = Child f2 s2 ->
  (mu s2 <= mu s + 2)%nat /\ f_st f = Svalue /\ f2 = f.
Proof.
  intros d f c s f2 s2 H. unfold step in H.
  destruct (f_st f) eqn:ST;
    repeat match type of H with
           | (if ?b then _ else _) = _ => destruct b
           | (let (_, _) := ?x in _) = _ => let E := fresh "E" in destruct x eqn:E
           end;
    try discriminate; inversion H; subst.
  repeat split; auto. eapply mu_putback_peek; eassumption.
Qed.

Lemma astep_no_fuel : forall line f c, astep line f c <> OutOfFuel.
Proof.
  intros. unfold astep, astep_tag.
  destruct (a_st f); repeat match goal with |- (if ?b then _ else _) <> _ => destruct b end; discriminate.
Qed.

Lemma aloop_no_fuel : forall line s f prev, aloop line f s prev <> OutOfFuel.
Proof.
  induction s; intros; cbn [aloop].
  - apply astep_no_fuel.
  - destruct (astep line f a) eqn:E; try discriminate.
    + apply IHs.
    + exfalso. eapply astep_no_fuel; eauto.
Qed.

Lemma finish_no_fuel : forall f s, finish f s <> OutOfFuel.
Proof.
  intros. unfold finish. destruct (f_attr f); [discriminate|].
  unfold parse_attrs.
  destruct (aloop (s_line s) (mkA Aews [] [] 0 []) (n :: l) 0) eqn:E; try discriminate.
  exfalso. eapply aloop_no_fuel; eauto.
Qed.

Lemma with_prev_st : forall f c, f_st (with_prev f c) = f_st f.
Proof. reflexivity. Qed.

Lemma loop_total : forall fuel d f s,
  ((mu s + in_value f < fuel)%nat -> loop fuel d f s <> OutOfFuel) /\
  (forall f' s', loop fuel d f s = Ok (f', s') ->
     (mu s' <= mu s)%nat /\
     (sgood s = true -> is_finished (f_st f) = false -> (mu s' + 2 <= mu s)%nat)).
Proof.
  induction fuel as [|fuel IH]; intros d f s.
  { split; [lia|]. cbn. discriminate. }
  cbn [loop].
  destruct (sgood s) eqn:G; cbn [negb orb].
  2:{ split; [discriminate|]. intros f' s' H. inversion H; subst. split; [lia|discriminate]. }
  destruct (is_finished (f_st f)) eqn:FIN.
  { split; [discriminate|]. intros f' s' H. inversion H; subst. split; [lia|discriminate]. }
  destruct (sget s) as [oc s1] eqn:SG.
  pose proof (mu_sget s oc s1 G SG) as M1.
  set (c := match oc with Some c0 => c0 | None => f_prev f end).
  assert (INV : in_value (with_prev f c) = in_value f) by reflexivity.
  destruct (c =? 10).
  { destruct (IH d (with_prev f c) (sbump s1)) as [A B]. rewrite mu_sbump in *. split.
    - intros L. apply A. rewrite INV. lia.
    - intros f' s' H. destruct (B f' s' H) as [B1 _]. split; [lia|intros; lia]. }
  destruct (c =? 13).
  { destruct (IH d (with_prev f c) s1) as [A B]. split.
    - intros L. apply A. rewrite INV. lia.
    - intros f' s' H. destruct (B f' s' H) as [B1 _]. split; [lia|intros; lia]. }
  destruct (step d (with_prev f c) c s1) as [f2 s2|m|f2 s2] eqn:ST.
  - (* Cont *)
    pose proof (step_cont_mu _ _ _ _ _ _ ST) as M2.
    destruct (IH d f2 s2) as [A B]. split.
    + intros L. apply A. unfold in_value in *. destruct (f_st f2), (f_st f); lia.
    + intros f' s' H. destruct (B f' s' H) as [B1 _]. split; [lia|intros; lia].
  - split; [discriminate|discriminate].
  - (* Child *)
    destruct (step_child_mu _ _ _ _ _ _ ST) as (M2 & SV & EQ). subst f2.
    rewrite with_prev_st in SV.
    assert (IV : in_value f = 1%nat) by (unfold in_value; rewrite SV; reflexivity).
    destruct (IH (S d) init_frame s2) as [A1 B1].
    destruct (loop fuel (S d) init_frame s2) as [[cf s3]|m|] eqn:CH.
    + destruct (B1 cf s3 eq_refl) as [C1 C2].
      assert (M3 : (mu s3 + 2 <= mu s)%nat).
      { destruct (sgood s2) eqn:G2.
        - specialize (C2 eq_refl eq_refl). lia.
        - assert (mu s2 = 0%nat) by (unfold mu; rewrite G2; reflexivity). lia. }
      destruct (finish cf s3) as [child|m|] eqn:FI.
      * set (f3 := if is_empty (el_tag child) then with_prev f c
                   else with_kids (with_prev f c) (f_kids (with_prev f c) ++ [child])).
        assert (IV3 : in_value f3 = 1%nat).
        { unfold f3. destruct (is_empty (el_tag child)); unfold in_value; cbn; rewrite SV; reflexivity. }
        destruct (IH d f3 s3) as [A3 B3]. split.
        -- intros L. apply A3. lia.
        -- intros f' s' H. destruct (B3 f' s' H) as [D1 _]. split; [lia|intros; lia].
      * split; discriminate.
      * exfalso. eapply finish_no_fuel; eauto.
    + split; discriminate.
    + split; [|discriminate]. intros L. exfalso. apply A1; [|reflexivity].
      unfold in_value at 1. cbn. lia.
Qed.

Lemma c32_total_lemma : forall bytes, parse_doc bytes <> OutOfFuel.
Proof.
  intros bytes. unfold parse_doc.
  destruct (loop_total (doc_fuel bytes) 0 init_frame (mkS bytes false false 1)) as [A _].
  destruct (loop (doc_fuel bytes) 0 init_frame (mkS bytes false false 1)) as [[f s]|m|] eqn:E.
  - apply finish_no_fuel.
  - discriminate.
  - exfalso. apply A; [|reflexivity]. unfold mu, doc_fuel, in_value. cbn. lia.
Qed.

(* ------------------------------------------------------------------ the decoding loops *)
Lemma span_length : forall p s a b, span p s = (a, b) -> (length s = length a + length b)%nat.
Proof. intros. rewrite (span_app p s a b H). apply app_length. Qed.

Lemma named_at_length : forall r name post, named_at r = Some (name, post) -> (length post + 1 <= length r)%nat.
Proof.
  intros r name post H. unfold named_at in H.
  destruct (span is_lower r) as [ls r1] eqn:E1.
  destruct (Nat.leb 2 (length ls)); [|discriminate].
  destruct (span is_14 r1) as [ds r2] eqn:E2.
  destruct r2 as [|c r3]; [discriminate|].
  destruct (c =? 59); [|discriminate]. inversion H; subst.
  pose proof (span_length _ _ _ _ E1). pose proof (span_length _ _ _ _ E2). simpl in *. lia.
Qed.

Lemma find_named_length : forall s pre name post,
  find_named s = Some (pre, name, post) -> (length pre + length post + 2 <= length s)%nat.
Proof.
  induction s as [|c r IH]; intros pre name post H; [discriminate|].
  cbn [find_named] in H.
  destruct (c =? 0); [discriminate|].
  destruct (if c =? 38 then named_at r else None) as [[nm po]|] eqn:E.
  - inversion H; subst. destruct (c =? 38); [|discriminate].
    pose proof (named_at_length _ _ _ E). simpl. lia.
  - destruct (find_named r) as [[[pre' nm] po]|] eqn:F; [|discriminate].
    inversion H; subst. specialize (IH _ _ _ eq_refl). simpl. lia.
Qed.

Lemma xlate_named_fuel : forall fuel1 fuel2 s,
  (length s < fuel1)%nat -> (length s < fuel2)%nat -> xlate_named fuel1 s = xlate_named fuel2 s.
Proof.
  induction fuel1 as [|f1 IH]; intros fuel2 s L1 L2; [lia|].
  destruct fuel2 as [|f2]; [lia|].
  cbn [xlate_named].
  destruct (find_named s) as [[[pre name] post]|] eqn:F; [|reflexivity].
  pose proof (find_named_length _ _ _ _ F).
  apply IH; rewrite app_length; simpl; lia.
Qed.

Lemma num_at_length : forall r hx ds post, num_at r = Some (hx, ds, post) -> (length post + 2 <= length r)%nat.
Proof.
  intros r hx ds post H. unfold num_at in H.
  destruct r as [|c r]; [discriminate|].
  destruct (c =? 120).
  - destruct (span is_hex r) as [hs r1] eqn:E1.
    destruct hs as [|h hs]; [discriminate|]. destruct r1 as [|d r2]; [discriminate|].
    destruct (d =? 59); [|discriminate]. inversion H; subst.
    pose proof (span_length _ _ _ _ E1). simpl in *. lia.
  - destruct (span is_digit (c :: r)) as [ds' r1] eqn:E1.
    destruct ds' as [|h hs]; [discriminate|]. destruct r1 as [|d r2]; [discriminate|].
    destruct (d =? 59); [|discriminate]. inversion H; subst.
    pose proof (span_length _ _ _ _ E1). simpl in *. lia.
Qed.

Lemma find_num_length : forall s pre m post,
  find_num s = Some (pre, m, post) -> (length pre + length post + 4 <= length s)%nat.
Proof.
  induction s as [|c r IH]; intros pre m post H; [discriminate|].
  cbn [find_num] in H.
  destruct (c =? 0); [discriminate|].
  destruct (if c =? 38 then match r with
                           | [] => None
                           | h :: r' => if h =? 35 then num_at r' else None
                           end else None) as [[[hx ds] po]|] eqn:E.
  - inversion H; subst. destruct (c =? 38); [|discriminate].
    destruct r as [|h r']; [discriminate|]. destruct (h =? 35); [|discriminate].
    pose proof (num_at_length _ _ _ _ E). simpl. lia.
  - destruct (find_num r) as [[[pre' m'] po]|] eqn:F; [|discriminate].
    inversion H; subst. specialize (IH _ _ _ eq_refl). simpl. lia.
Qed.

Lemma num_bytes_length : forall v, (length (num_bytes v) <= 2)%nat.
Proof. intros. unfold num_bytes. destruct (N.land v 65280 =? 0); simpl; lia. Qed.

Lemma xlate_num_fuel : forall fuel1 fuel2 s,
  (length s < fuel1)%nat -> (length s < fuel2)%nat -> xlate_num fuel1 s = xlate_num fuel2 s.
Proof.
  induction fuel1 as [|f1 IH]; intros fuel2 s L1 L2; [lia|].
  destruct fuel2 as [|f2]; [lia|].
  cbn [xlate_num].
  destruct (find_num s) as [[[pre [hx ds]] post]|] eqn:F; [|reflexivity].
  pose proof (find_num_length _ _ _ _ F).
  pose proof (num_bytes_length (parse_int (if hx then 16 else 10) ds)).
  apply IH; rewrite !app_length; lia.
Qed.

(* more fuel than length + 1 changes nothing: the loops of xlate always run to their fixed point *)
Lemma c32_xlate_fuel_lemma : forall s fuel1 fuel2,
  (length s < fuel1)%nat ->
  (length (xlate_named fuel1 s) < fuel2)%nat ->
  xlate_num fuel2 (xlate_named fuel1 s) = xlate s.
Proof.
  intros s fuel1 fuel2 L1 L2. unfold xlate.
  rewrite (xlate_named_fuel fuel1 (S (length s)) s L1) in * by lia.
  apply xlate_num_fuel; lia.
Qed.
