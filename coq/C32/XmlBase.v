(* C32 -- types and string helpers shared by the model (Xml.v) and the specification
   (Spec_C32.v): byte strings, the element tree, hexadecimal/decimal rendering and the
   canonical one-line dump of a tree used as the common result vocabulary of model, harness
   and oracle.  No proofs in this file. *)
From Coq Require Import NArith List Bool String Ascii.
Import ListNotations.
Local Open Scope N_scope.

Notation byte := N.
Notation str := (list N).

(* byte string of a Coq string literal (only used for constants) *)
Fixpoint bs (s : string) : str :=
  match s with
  | EmptyString => []
  | String a r => N_of_ascii a :: bs r
  end.

Fixpoint str_eqb (a b : str) : bool :=
  match a, b with
  | [], [] => true
  | x :: a', y :: b' => (x =? y) && str_eqb a' b'
  | _, _ => false
  end.

(* std::string operator< : lexicographic on unsigned bytes, a proper prefix is smaller *)
Fixpoint str_ltb (a b : str) : bool :=
  match a, b with
  | _, [] => false
  | [], _ :: _ => true
  | x :: a', y :: b' => if x <? y then true else if y <? x then false else str_ltb a' b'
  end.

Definition is_empty (s : str) : bool := match s with [] => true | _ => false end.

Fixpoint starts_with (p s : str) : bool :=
  match p, s with
  | [], _ => true
  | x :: p', y :: s' => (x =? y) && starts_with p' s'
  | _ :: _, [] => false
  end.

Fixpoint contains (p s : str) : bool :=
  starts_with p s || match s with [] => false | _ :: s' => contains p s' end.

Fixpoint mem_byte (c : byte) (l : str) : bool :=
  match l with [] => false | x :: r => (c =? x) || mem_byte c r end.

(* the element tree: tag, declaration (<?...?>, root only in practice), text value, attributes
   (in the model: insertion order; the real container is a std::map, the dump sorts), children
   in document order *)
Inductive el : Type :=
  El (tag : str) (decl : option str) (value : option str) (attrs : list (str * str)) (kids : list el).

Definition el_tag (t : el) : str := match t with El a _ _ _ _ => a end.
Definition el_decl (t : el) : option str := match t with El _ d _ _ _ => d end.
Definition el_value (t : el) : option str := match t with El _ _ v _ _ => v end.
Definition el_attrs (t : el) : list (str * str) := match t with El _ _ _ a _ => a end.
Definition el_kids (t : el) : list el := match t with El _ _ _ _ k => k end.

(* address of an element: positions in document order from the root *)
Notation addr := (list nat).

Fixpoint subtree_at (t : el) (a : addr) : option el :=
  match a with
  | [] => Some t
  | i :: a' => match nth_error (el_kids t) i with Some k => subtree_at k a' | None => None end
  end.

Fixpoint mapi_from {A B : Type} (i : nat) (g : nat -> A -> B) (l : list A) : list B :=
  match l with [] => [] | x :: r => g i x :: mapi_from (S i) g r end.

(* first binding of a key *)
Fixpoint assoc (k : str) (l : list (str * str)) : option str :=
  match l with
  | [] => None
  | (k', v) :: r => if str_eqb k k' then Some v else assoc k r
  end.

(* ---------------------------------------------------------------- rendering *)
Definition hexdigit (n : N) : byte := if n <? 10 then 48 + n else 87 + n.
Fixpoint hex_of_str (s : str) : str :=
  match s with
  | [] => []
  | c :: r => hexdigit (c / 16) :: hexdigit (c mod 16) :: hex_of_str r
  end.

Fixpoint dec_aux (fuel : nat) (n : N) (acc : str) : str :=
  match fuel with
  | O => acc
  | S f => let acc' := (48 + n mod 10) :: acc in
           if n / 10 =? 0 then acc' else dec_aux f (n / 10) acc'
  end.
Definition dec_of_N (n : N) : str := dec_aux (S (N.size_nat n)) n [].

(* attributes in std::map order *)
Fixpoint insert_sorted (kv : str * str) (l : list (str * str)) : list (str * str) :=
  match l with
  | [] => [kv]
  | x :: r => if str_ltb (fst kv) (fst x) then kv :: l else x :: insert_sorted kv r
  end.
Definition sort_attrs (l : list (str * str)) : list (str * str) := fold_right insert_sorted [] l.

Definition dump_opt (mark : byte) (o : option str) : str :=
  match o with None => [] | Some v => mark :: hex_of_str v end.

(* el = '<' hex(tag) ['?' hex(decl)] ['=' hex(value)] {'@' hex(key) ':' hex(val)} {el} '>' *)
Fixpoint dump_el (t : el) : str :=
  match t with
  | El tag d v a kids =>
    60 :: hex_of_str tag ++ dump_opt 63 d ++ dump_opt 61 v
       ++ flat_map (fun kv => 64 :: hex_of_str (fst kv) ++ 58 :: hex_of_str (snd kv)) (sort_attrs a)
       ++ flat_map dump_el kids ++ [62]
  end.

(* r | r.<i>.<j>... *)
Fixpoint render_addr_tail (a : addr) : str :=
  match a with [] => [] | i :: r => 46 :: dec_of_N (N.of_nat i) ++ render_addr_tail r end.
Definition render_addr (a : addr) : str := 114 :: render_addr_tail a.

Fixpoint join_with (sep : byte) (l : list str) : str :=
  match l with
  | [] => []
  | [x] => x
  | x :: r => x ++ sep :: join_with sep r
  end.

Definition s_none : str := Eval vm_compute in bs "none".
Definition s_noelem : str := Eval vm_compute in bs "noelem".

(* the attribute filter of find: the pointers atag and aval, each possibly null *)
Notation filt := (option str * option str)%type.

(* a find query: first match only?, start element, path, delimiter, attribute filter *)
Record query := mkQ { q_first : bool; q_start : addr; q_path : str; q_delim : byte; q_attr : filt }.

Definition render_answer (l : list addr) : str :=
  match l with [] => s_none | _ => join_with 44 (map render_addr l) end.

(* "T <dump> Q <answer>;<answer>..."  ("-" when there is no query) *)
Definition render_tree (t : el) (answers : list str) : str :=
  84 :: 32 :: dump_el t ++ 32 :: 81 :: 32 :: match answers with [] => [45] | _ => join_with 59 answers end.
