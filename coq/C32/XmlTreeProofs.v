(* C32 -- the element-tree round trip: parse_doc (print_el t) = Ok t for the trees of tree_ok. *)
From Coq Require Import String.
From Coq Require Import NArith List Bool Lia Arith.
From F8 Require Import C32.XmlBase C32.Xml C32.Spec_C32 C32.XmlProofs.
Import ListNotations.
Local Open Scope N_scope.

(* a good stream *)
Notation G r line := (mkS r false false line).

(* ------------------------------------------------------------------ one iteration of the loop *)
Lemma loop_fin : forall fuel d f s, f_st f = Sfinished -> loop (S fuel) d f s = Ok (f, s).
Proof. intros. cbn [loop]. rewrite H. cbn [is_finished]. rewrite orb_true_r. reflexivity. Qed.

Lemma loop_cont : forall fuel d f c r line f2 s2,
  is_finished (f_st f) = false -> (c =? 10) = false -> (c =? 13) = false ->
  step d (with_prev f c) c (G r line) = Cont f2 s2 ->
  loop (S fuel) d f (G (c :: r) line) = loop fuel d f2 s2.
Proof.
  intros. cbn [loop sgood s_eof s_fail negb andb orb sget s_rest s_line].
  rewrite H, H0, H1, H2. reflexivity.
Qed.

Lemma loop_child : forall fuel d f c r line f2 s2 cf s3 child,
  is_finished (f_st f) = false -> (c =? 10) = false -> (c =? 13) = false ->
  step d (with_prev f c) c (G r line) = Child f2 s2 ->
  loop fuel (S d) init_frame s2 = Ok (cf, s3) ->
  finish cf s3 = Ok child -> is_empty (el_tag child) = false ->
  loop (S fuel) d f (G (c :: r) line) = loop fuel d (with_kids f2 (f_kids f2 ++ [child])) s3.
Proof.
  intros. cbn [loop sgood s_eof s_fail negb andb orb sget s_rest s_line].
  rewrite H, H0, H1, H2, H3, H4, H5. reflexivity.
Qed.

Lemma last_cons : forall (s : str) c p, last (c :: s) p = last s c.
Proof.
  intros. destruct s as [|n s]; [reflexivity|].
  change (last (n :: s) p = last (n :: s) c). apply last_nonempty_indep.
Qed.

Definition upd_start (line st : N) : N := if st =? 0 then line else st.

Ltac name_facts c H :=
  let F := fresh "F" in
  pose proof (name_char_facts c H) as F;
  destruct F as (?F & ?F & ?F & ?F & ?F & ?F & ?F & ?F & ?F & ?F & ?F & ?F & ?F & ?F).

(* rewrite with (and consume) every hypothesis  b = false  *)
Ltac rw_false := repeat match goal with H : _ = false |- _ => rewrite ?H; clear H end.

Ltac frame_cbn :=
  cbn [step with_prev with_st with_otag with_ctag with_val with_attr with_dec with_result with_kids
       f_st f_otag f_ctag f_val f_attr f_dec f_start f_tag f_value f_decl f_kids f_prev].

(* ------------------------------------------------------------------ phases over runs of characters *)
(* tag characters in state otag *)
Lemma phase_otag_name : forall s fuel d otag ctag val attr dec start tg vl dc kids prev rest line,
  forallb name_char s = true ->
  loop (length s + fuel) d (mkF Sotag otag ctag val attr dec start tg vl dc kids prev) (G (s ++ rest) line) =
  loop fuel d (mkF Sotag (otag ++ s) ctag val attr dec (fold_left (fun st _ => upd_start line st) s start)
                   tg vl dc kids (last s prev)) (G rest line).
Proof.
  induction s as [|c s IH]; intros.
  - simpl. rewrite app_nil_r. reflexivity.
  - simpl in H. apply andb_true_iff in H. destruct H as [Hc Hs].
    name_facts c Hc.
    cbn [length Nat.add app].
    rewrite (loop_cont _ _ _ _ _ _
               (mkF Sotag (otag ++ [c]) ctag val attr dec (upd_start line start) tg vl dc kids c)
               (G (s ++ rest) line)); auto.
    + rewrite IH by assumption. rewrite <- app_assoc. rewrite last_cons. reflexivity.
    + frame_cbn. unfold slash_gt. rw_false. cbn [andb orb negb s_line]. reflexivity.
Qed.

(* characters that may be stored by states oattr / value / ctag without ending them *)
Definition plain_char (c : byte) : bool :=
  negb (c =? 60) && negb (c =? 62) && negb (c =? 10) && negb (c =? 13).

Lemma plain_char_facts : forall c, plain_char c = true ->
  (c =? 60) = false /\ (c =? 62) = false /\ (c =? 10) = false /\ (c =? 13) = false.
Proof.
  intros c H. unfold plain_char in H.
  repeat (apply andb_true_iff in H; destruct H as [H ?]).
  repeat match goal with H : negb _ = true |- _ => apply negb_true_iff in H end. auto.
Qed.

(* the attribute text collected in state oattr: plain characters, the last one not '/' *)
Lemma phase_oattr : forall s fuel d otag ctag val attr dec start tg vl dc kids prev rest line,
  forallb plain_char s = true -> last s 0 <> 47 ->
  loop (length s + fuel) d (mkF Soattr otag ctag val attr dec start tg vl dc kids prev) (G (s ++ rest) line) =
  loop fuel d (mkF Soattr otag ctag val (attr ++ s) dec start tg vl dc kids (last s prev)) (G rest line).
Proof.
  induction s as [|c s IH]; intros until line; intros H HL.
  - simpl. rewrite app_nil_r. reflexivity.
  - simpl in H. apply andb_true_iff in H. destruct H as [Hc Hs].
    destruct (plain_char_facts c Hc) as (P1 & P2 & P3 & P4).
    cbn [length Nat.add app].
    rewrite (loop_cont _ _ _ _ _ _
               (mkF Soattr otag ctag val (attr ++ [c]) dec start tg vl dc kids c)
               (G (s ++ rest) line)); auto.
    + rewrite IH; auto.
      * rewrite <- app_assoc. rewrite last_cons. reflexivity.
      * rewrite last_cons in HL. destruct s as [|c2 s]; [simpl in *; discriminate|].
        rewrite (last_nonempty_indep s c2 0 c). exact HL.
    + frame_cbn. unfold slash_gt.
      destruct (c =? 47) eqn:E47.
      * destruct s as [|c2 s].
        { exfalso. apply HL. simpl. apply N.eqb_eq in E47. exact E47. }
        simpl in Hs. apply andb_true_iff in Hs. destruct Hs as [Hc2 _].
        destruct (plain_char_facts c2 Hc2) as (Q1 & Q2 & Q3 & Q4).
        cbn [app speek sgood s_eof s_fail negb andb s_rest opt_is]. rewrite Q2, P2. reflexivity.
      * rewrite P2. reflexivity.
Qed.

(* text in state value *)
Lemma phase_value_text : forall s fuel d otag ctag val attr dec start tg vl dc kids prev rest line,
  forallb plain_char s = true ->
  loop (length s + fuel) d (mkF Svalue otag ctag val attr dec start tg vl dc kids prev) (G (s ++ rest) line) =
  loop fuel d (mkF Svalue otag ctag (val ++ s) attr dec start tg vl dc kids (last s prev)) (G rest line).
Proof.
  induction s as [|c s IH]; intros.
  - simpl. rewrite app_nil_r. reflexivity.
  - simpl in H. apply andb_true_iff in H. destruct H as [Hc Hs].
    destruct (plain_char_facts c Hc) as (P1 & P2 & P3 & P4).
    cbn [length Nat.add app].
    rewrite (loop_cont _ _ _ _ _ _
               (mkF Svalue otag ctag (val ++ [c]) attr dec start tg vl dc kids c)
               (G (s ++ rest) line)); auto.
    + rewrite IH by assumption. rewrite <- app_assoc. rewrite last_cons. reflexivity.
    + frame_cbn. rewrite P1. reflexivity.
Qed.

(* closing-tag characters in state ctag *)
Lemma phase_ctag_name : forall s fuel d otag ctag val attr dec start tg vl dc kids prev rest line,
  forallb name_char s = true ->
  loop (length s + fuel) d (mkF Sctag otag ctag val attr dec start tg vl dc kids prev) (G (s ++ rest) line) =
  loop fuel d (mkF Sctag otag (ctag ++ s) val attr dec start tg vl dc kids (last s prev)) (G rest line).
Proof.
  induction s as [|c s IH]; intros.
  - simpl. rewrite app_nil_r. reflexivity.
  - simpl in H. apply andb_true_iff in H. destruct H as [Hc Hs].
    name_facts c Hc.
    cbn [length Nat.add app].
    rewrite (loop_cont _ _ _ _ _ _
               (mkF Sctag otag (ctag ++ [c]) val attr dec start tg vl dc kids c)
               (G (s ++ rest) line)); auto.
    + rewrite IH by assumption. rewrite <- app_assoc. rewrite last_cons. reflexivity.
    + frame_cbn. rw_false. cbn [negb]. reflexivity.
Qed.

(* ------------------------------------------------------------------ characters of the printed parts *)
Lemma name_plain : forall c, name_char c = true -> plain_char c = true.
Proof. intros c H. name_facts c H. unfold plain_char. rw_false. reflexivity. Qed.

Lemma forallb_name_plain : forall s, forallb name_char s = true -> forallb plain_char s = true.
Proof. induction s; simpl; intros; auto. apply andb_true_iff in H. destruct H. rewrite name_plain, IHs; auto. Qed.

Lemma esc_byte_plain : forall c, text_char c = true -> forallb plain_char (esc_byte c) = true.
Proof.
  intros c H. unfold text_char in H.
  repeat (apply andb_true_iff in H; destruct H as [H ?]).
  repeat match goal with H : negb _ = true |- _ => apply negb_true_iff in H end.
  unfold esc_byte.
  repeat match goal with |- context [if ?b then _ else _] => destruct b eqn:? end; try reflexivity.
  unfold plain_char. simpl. rw_false. reflexivity.
Qed.

Lemma escape_plain : forall v, forallb text_char v = true -> forallb plain_char (escape v) = true.
Proof.
  induction v; simpl; intros; auto.
  apply andb_true_iff in H. destruct H. rewrite forallb_app. rewrite esc_byte_plain, IHv; auto.
Qed.

Lemma doc_value_text : forall v, doc_value_ok v = true -> forallb text_char v = true.
Proof. intros v H. unfold doc_value_ok in H. apply andb_true_iff in H. tauto. Qed.

Lemma text_char_no_nul : forall v, forallb text_char v = true -> no_nul v = true.
Proof.
  induction v; simpl; intros; auto. apply andb_true_iff in H. destruct H as [H1 H2].
  unfold text_char in H1. apply andb_true_iff in H1. destruct H1 as [H1 _].
  apply andb_true_iff in H1. destruct H1 as [H1 _]. rewrite H1. simpl. apply IHv. exact H2.
Qed.

Lemma doc_value_value : forall v, doc_value_ok v = true -> value_ok v = true.
Proof.
  intros v H. unfold doc_value_ok in H. apply andb_true_iff in H. destruct H.
  unfold value_ok. rewrite text_char_no_nul; auto.
Qed.

Lemma doc_attrs_attrs : forall a, doc_attrs_ok a = true -> attrs_ok a = true.
Proof.
  intros a H. unfold doc_attrs_ok in H. apply andb_true_iff in H. destruct H as [H1 H2].
  unfold attrs_ok. rewrite H1. simpl.
  rewrite forallb_forall in *. intros x I. specialize (H2 x I).
  apply andb_true_iff in H2. destruct H2. rewrite H, doc_value_value; auto.
Qed.

Lemma key_ok_name : forall k, key_ok k = true -> forallb name_char k = true.
Proof.
  intros k H. unfold key_ok, is_name in H.
  apply andb_true_iff in H. destruct H as [H _]. apply andb_true_iff in H. tauto.
Qed.

Lemma print_attr_plain : forall k v, key_ok k = true -> doc_value_ok v = true ->
  forallb plain_char (print_attr (k, v)) = true.
Proof.
  intros.
  change (print_attr (k, v)) with ([32] ++ k ++ [61; 34] ++ escape v ++ [34]).
  rewrite !forallb_app.
  rewrite (forallb_name_plain k (key_ok_name k H)).
  rewrite (escape_plain v (doc_value_text v H0)). reflexivity.
Qed.

Lemma print_attrs_plain : forall a, doc_attrs_ok a = true -> forallb plain_char (print_attrs a) = true.
Proof.
  intros a H. unfold doc_attrs_ok in H. apply andb_true_iff in H. destruct H as [_ H].
  induction a as [|[k v] a IH]; auto.
  simpl in H. apply andb_true_iff in H. destruct H as [H1 H2].
  apply andb_true_iff in H1. destruct H1 as [Hk Hv].
  change (print_attrs ((k, v) :: a)) with (print_attr (k, v) ++ print_attrs a).
  rewrite forallb_app, print_attr_plain, IH; auto.
Qed.

Lemma last_app_nonempty : forall (a b : str) d, b <> [] -> last (a ++ b) d = last b d.
Proof.
  induction a; intros; auto.
  destruct b as [|x b]; [contradiction|].
  change ((a :: a0) ++ x :: b) with (a :: (a0 ++ x :: b)).
  rewrite last_cons. rewrite IHa by discriminate.
  apply last_nonempty_indep.
Qed.

Lemma print_attrs_last : forall a, a <> [] -> last (print_attrs a) 0 = 34.
Proof.
  induction a as [|[k v] a IH]; intros; [contradiction|].
  change (print_attrs ((k, v) :: a)) with (print_attr (k, v) ++ print_attrs a).
  destruct a as [|x a].
  - simpl print_attrs. rewrite app_nil_r.
    change (print_attr (k, v)) with ([32] ++ k ++ [61; 34] ++ escape v ++ [34]).
    rewrite !app_assoc. apply last_last.
  - assert (NE : print_attrs (x :: a) <> []).
    { destruct x. unfold print_attrs. simpl. discriminate. }
    rewrite last_app_nonempty by exact NE. apply IH. discriminate.
Qed.

Lemma last_indep : forall (s : str) a b, s <> [] -> last s a = last s b.
Proof. intros. destruct s; [contradiction|]. apply last_nonempty_indep. Qed.

Lemma has_nonblank_app : forall a b, has_nonblank (a ++ b) = has_nonblank a || has_nonblank b.
Proof. induction a; simpl; intros; auto. rewrite IHa. apply orb_assoc. Qed.

Lemma escape_nonblank : forall x,
  forallb text_char x = true -> existsb (fun c => negb ((c =? 32) || (c =? 9))) x = true ->
  has_nonblank (escape x) = true.
Proof.
  induction x as [|c x IH]; simpl; intros T E; [discriminate|].
  apply andb_true_iff in T. destruct T as [Tc Tx].
  rewrite has_nonblank_app.
  apply orb_true_iff in E. destruct E as [E|E].
  - apply orb_true_iff. left.
    unfold text_char in Tc.
    repeat (apply andb_true_iff in Tc; destruct Tc as [Tc ?]).
    apply negb_true_iff in E. apply orb_false_iff in E. destruct E.
    repeat match goal with H : negb _ = true |- _ => apply negb_true_iff in H end.
    unfold esc_byte.
    repeat match goal with |- context [if ?b then _ else _] => destruct b eqn:? end; try reflexivity.
    simpl. rw_false. reflexivity.
  - rewrite IH; auto. apply orb_true_r.
Qed.

Lemma escape_nonempty : forall x, x <> [] -> is_empty (escape x) = false.
Proof.
  intros [|c x] H; [contradiction|]. simpl. unfold esc_byte.
  repeat match goal with |- context [if ?b then _ else _] => destruct b end; reflexivity.
Qed.

(* the attribute text as state oattr collects it: without the blank that ended the tag *)
Definition attr_chunk (a : list (str * str)) : str :=
  match a with [] => [] | _ => tl (print_attrs a) end.

Lemma print_attrs_cons_blank : forall a, a <> [] -> print_attrs a = 32 :: attr_chunk a.
Proof. intros [|[k v] a] H; [contradiction|]. reflexivity. Qed.

Lemma attr_chunk_nonempty : forall a, a <> [] -> attr_chunk a <> [].
Proof.
  intros [|[k v] a] H; [contradiction|].
  change (attr_chunk ((k, v) :: a)) with ((k ++ 61 :: 34 :: escape v ++ [34]) ++ print_attrs a).
  intros E. apply app_eq_nil in E. destruct E as [E _]. apply app_eq_nil in E. destruct E; discriminate.
Qed.

Lemma parse_attrs_chunk : forall line a,
  a <> [] -> attrs_ok a = true -> parse_attrs line (attr_chunk a) = Ok a.
Proof.
  intros line a NE OK.
  rewrite <- (c32_attrs_partial_lemma line a OK).
  rewrite (print_attrs_cons_blank a NE).
  pose proof (attr_chunk_nonempty a NE) as TN.
  unfold parse_attrs. cbn [aloop]. rewrite astep_ews_blank.
  rewrite !aloop_arun.
  rewrite (last_indep (attr_chunk a) 32 0 TN). reflexivity.
Qed.

(* ------------------------------------------------------------------ the pieces of one element *)
Definition open_frame (line : N) (tag : str) (a : list (str * str)) : frame :=
  match a with
  | [] => mkF Sotag tag [] [] [] [] line [] None None [] (last tag 60)
  | _ => mkF Soattr tag [] [] (attr_chunk a) [] line [] None None [] 34
  end.

Lemma fold_upd_line : forall (s : str) line, fold_left (fun st _ => upd_start line st) s line = line.
Proof.
  induction s; simpl; intros; auto.
  replace (upd_start line line) with line; auto.
  unfold upd_start. destruct (line =? 0); reflexivity.
Qed.

Lemma tag_ok_facts : forall tag, tag_ok tag = true ->
  tag <> [] /\ forallb name_char tag = true /\ str_eqb tag s_include = false /\ is_empty tag = false.
Proof.
  intros tag H. unfold tag_ok, is_name in H.
  apply andb_true_iff in H. destruct H as [H1 H2].
  apply andb_true_iff in H1. destruct H1 as [H0 H1].
  apply negb_true_iff in H0, H2.
  repeat split; auto. destruct tag; [discriminate|discriminate].
Qed.

Lemma run_open : forall fuel d tag a rest line,
  tag_ok tag = true -> doc_attrs_ok a = true ->
  loop (S (length tag + length (print_attrs a)) + fuel) d init_frame
       (G (60 :: tag ++ print_attrs a ++ rest) line) =
  loop fuel d (open_frame line tag a) (G rest line).
Proof.
  intros fuel d tag a rest line TG AT.
  destruct (tag_ok_facts tag TG) as (TNE & TNM & TINC & TEMP).
  cbn [Nat.add].
  rewrite (loop_cont _ _ _ _ _ _ (mkF Sotag [] [] [] [] [] 0 [] None None [] 60)
             (G (tag ++ print_attrs a ++ rest) line)); try reflexivity.
  replace (length tag + length (print_attrs a) + fuel)%nat
    with (length tag + (length (print_attrs a) + fuel))%nat by lia.
  rewrite phase_otag_name by assumption.
  cbn [app].
  assert (ST : fold_left (fun st _ => upd_start line st) tag 0 = line).
  { destruct tag as [|c tag]; [contradiction|]. cbn [fold_left].
    change (upd_start line 0) with line. apply fold_upd_line. }
  rewrite ST.
  destruct a as [|kv a].
  - cbn [print_attrs flat_map length Nat.add app]. reflexivity.
  - assert (NE : kv :: a <> []) by discriminate.
    rewrite (print_attrs_cons_blank _ NE).
    cbn [length Nat.add app].
    rewrite (loop_cont _ _ _ _ _ _
               (mkF Soattr tag [] [] [] [] line [] None None [] 32)
               (G (attr_chunk (kv :: a) ++ rest) line)); try reflexivity.
    + pose proof (print_attrs_plain _ AT) as PL.
      rewrite (print_attrs_cons_blank _ NE) in PL. cbn [forallb] in PL.
      apply andb_true_iff in PL. destruct PL as [_ PL].
      pose proof (print_attrs_last _ NE) as LA.
      rewrite (print_attrs_cons_blank _ NE) in LA. rewrite last_cons in LA.
      pose proof (attr_chunk_nonempty _ NE) as TN.
      rewrite phase_oattr; auto.
      * cbn [app open_frame]. rewrite LA. reflexivity.
      * rewrite (last_indep _ 0 32 TN), LA. discriminate.
    + frame_cbn. unfold slash_gt. cbn [N.eqb Pos.eqb isspace orb andb]. rewrite TEMP. reflexivity.
Qed.

Lemma open_frame_attr : forall line tag a, f_attr (open_frame line tag a) = attr_chunk a.
Proof. intros. destruct a; reflexivity. Qed.

(* "/>" *)
Lemma run_selfclose : forall fuel d tag a rest line,
  tag_ok tag = true ->
  loop (2 + fuel) d (open_frame line tag a) (G (47 :: 62 :: rest) line) =
  loop fuel d (mkF Sfinished tag tag [] (attr_chunk a) [] line tag None None [] 62) (G rest line).
Proof.
  intros fuel d tag a rest line TG.
  destruct (tag_ok_facts tag TG) as (TNE & TNM & TINC & TEMP).
  cbn [Nat.add].
  assert (X : forall f, f_st f = Sotag \/ f_st f = Soattr -> f_otag f = tag -> f_ctag f = [] -> f_val f = [] ->
              f_value f = None ->
              loop (S (S fuel)) d f (G (47 :: 62 :: rest) line) =
              loop fuel d (mkF Sfinished tag tag [] (f_attr f) (f_dec f) (f_start f) tag None
                               (f_decl f) (f_kids f) 62) (G rest line)).
  { intros f ST OT CT VL VA.
    rewrite (loop_cont _ _ _ _ _ _
               (mkF Sctag tag tag [] (f_attr f) (f_dec f) (f_start f) (f_tag f) None (f_decl f) (f_kids f) 47)
               (G (62 :: rest) line)); try reflexivity.
    - rewrite (loop_cont _ _ _ _ _ _
               (mkF Sfinished tag tag [] (f_attr f) (f_dec f) (f_start f) tag None (f_decl f) (f_kids f) 62)
               (G rest line)); try reflexivity.
      frame_cbn. cbn [N.eqb Pos.eqb]. rewrite str_eqb_refl. cbn [negb]. rewrite TINC.
      cbn [is_empty negb andb]. reflexivity.
    - destruct ST as [ST|ST]; rewrite ST; reflexivity.
    - destruct f; cbn in *. subst.
      destruct ST as [ST|ST]; rewrite ST; reflexivity. }
  rewrite X.
  - destruct a; reflexivity.
  - destruct a; [left|right]; reflexivity.
  - destruct a; reflexivity.
  - destruct a; reflexivity.
  - destruct a; reflexivity.
  - destruct a; reflexivity.
Qed.

(* ">" *)
Lemma run_gt : forall fuel d tag a rest line,
  loop (1 + fuel) d (open_frame line tag a) (G (62 :: rest) line) =
  loop fuel d (mkF Svalue tag [] [] (attr_chunk a) [] line [] None None [] 62) (G rest line).
Proof.
  intros. cbn [Nat.add].
  destruct a.
  - rewrite (loop_cont _ _ _ _ _ _
               (mkF Svalue tag [] [] [] [] line [] None None [] 62) (G rest line)); reflexivity.
  - rewrite (loop_cont _ _ _ _ _ _
               (mkF Svalue tag [] [] (attr_chunk (p :: a)) [] line [] None None [] 62) (G rest line)); reflexivity.
Qed.

(* "</tag>" *)
Lemma run_close : forall fuel d tag val attr kids prev rest line,
  tag_ok tag = true ->
  loop (S (S (length tag + S fuel))) d (mkF Svalue tag [] val attr [] line [] None None kids prev)
       (G (60 :: 47 :: tag ++ 62 :: rest) line) =
  loop fuel d (mkF Sfinished tag tag val attr [] line tag
                   (if negb (is_empty val) && has_nonblank val then Some (xlate val) else None)
                   None kids 62) (G rest line).
Proof.
  intros fuel d tag val attr kids prev rest line TG.
  destruct (tag_ok_facts tag TG) as (TNE & TNM & TINC & TEMP).
  rewrite (loop_cont _ _ _ _ _ _
             (mkF Scls tag [] val attr [] line [] None None kids 60)
             (G (47 :: tag ++ 62 :: rest) line)); try reflexivity.
  rewrite (loop_cont _ _ _ _ _ _
             (mkF Sctag tag [] val attr [] line [] None None kids 47)
             (G (tag ++ 62 :: rest) line)); try reflexivity.
  rewrite phase_ctag_name by assumption.
  cbn [app].
  rewrite (loop_cont _ _ _ _ _ _
             (mkF Sfinished tag tag val attr [] line tag
                  (if negb (is_empty val) && has_nonblank val then Some (xlate val) else None)
                  None kids 62)
             (G rest line)); try reflexivity.
  frame_cbn. cbn [N.eqb Pos.eqb]. rewrite str_eqb_refl. cbn [negb]. rewrite TINC. reflexivity.
Qed.

(* ------------------------------------------------------------------ the whole element *)
Definition final_frame (line : N) (t : el) : frame :=
  match t with
  | El tag _ v a kids =>
    mkF Sfinished tag tag (escape (opt_str v)) (attr_chunk a) [] line tag v None kids 62
  end.

Lemma tree_ok_unfold : forall d tag dc v a kids,
  tree_ok d (El tag dc v a kids) = true ->
  tag_ok tag = true /\ dc = None /\ text_ok v = true /\ doc_attrs_ok a = true /\
  Nat.leb d 128 = true /\ forallb (tree_ok (S d)) kids = true.
Proof.
  intros. cbn [tree_ok] in H. fold tree_ok in H.
  apply andb_true_iff in H. destruct H as [H H6].
  apply andb_true_iff in H. destruct H as [H H5].
  apply andb_true_iff in H. destruct H as [H H4].
  apply andb_true_iff in H. destruct H as [H H3].
  apply andb_true_iff in H. destruct H as [H1 H2].
  destruct dc; [discriminate|]. repeat split; auto.
Qed.

Lemma finish_final : forall d t s line,
  tree_ok d t = true -> finish (final_frame line t) s = Ok t.
Proof.
  intros d [tag dc v a kids] s line H.
  destruct (tree_ok_unfold _ _ _ _ _ _ H) as (TG & DC & TX & AT & DP & KD). subst dc.
  unfold finish. cbn [final_frame f_attr f_tag f_decl f_value f_kids].
  destruct a as [|kv a].
  - reflexivity.
  - assert (NE : kv :: a <> []) by discriminate.
    pose proof (attr_chunk_nonempty _ NE) as TN.
    destruct (attr_chunk (kv :: a)) eqn:E; [contradiction|]. rewrite <- E.
    rewrite parse_attrs_chunk; auto. apply doc_attrs_attrs. exact AT.
Qed.

Definition el_round_trip (t : el) : Prop :=
  forall d rest line fuel,
    tree_ok d t = true -> (length (print_el t) < fuel)%nat ->
    loop fuel d init_frame (G (print_el t ++ rest) line) = Ok (final_frame line t, G rest line).

Lemma print_el_head : forall d t, tree_ok d t = true ->
  exists c2 r, print_el t = 60 :: c2 :: r /\ name_char c2 = true.
Proof.
  intros d [tag dc v a kids] H.
  destruct (tree_ok_unfold _ _ _ _ _ _ H) as (TG & _).
  destruct (tag_ok_facts tag TG) as (TNE & TNM & _).
  destruct tag as [|c2 tag]; [contradiction|].
  simpl in TNM. apply andb_true_iff in TNM. destruct TNM as [C2 _].
  exists c2. eexists. split; [|exact C2]. cbn [print_el app]. reflexivity.
Qed.

(* one child element seen from the parent in state value *)
Lemma run_kid : forall k, el_round_trip k ->
  forall fuel d otag ctag val attr dec start tg vl dc kids prev rest line,
  tree_ok (S d) k = true -> (length (print_el k) < fuel)%nat ->
  loop (S fuel) d (mkF Svalue otag ctag val attr dec start tg vl dc kids prev)
       (G (print_el k ++ rest) line) =
  loop fuel d (mkF Svalue otag ctag val attr dec start tg vl dc (kids ++ [k]) 60) (G rest line).
Proof.
  intros k RT fuel d otag ctag val attr dec start tg vl dc kids prev rest line TK L.
  destruct (print_el_head _ _ TK) as (c2 & r & PE & NC).
  pose proof (RT (S d) rest line fuel TK L) as R.
  rewrite PE in *. cbn [app] in *.
  name_facts c2 NC.
  rewrite (loop_child fuel d _ 60 (c2 :: r ++ rest) line
             (mkF Svalue otag ctag val attr dec start tg vl dc kids 60)
             (G (60 :: c2 :: r ++ rest) line)
             (final_frame line k) (G rest line) k); try reflexivity.
  - frame_cbn. cbn [N.eqb Pos.eqb speek sgood s_eof s_fail negb andb s_rest opt_is].
    rw_false.
    assert (DP : Nat.ltb MaxDepth (S d) = false).
    { destruct k as [tag dc' v a kids']. destruct (tree_ok_unfold _ _ _ _ _ _ TK) as (_ & _ & _ & _ & DP & _).
      apply Nat.ltb_ge. apply Nat.leb_le in DP. unfold MaxDepth. exact DP. }
    rewrite DP. reflexivity.
  - exact R.
  - apply (finish_final (S d)). exact TK.
  - destruct k as [tag dc' v a kids']. destruct (tree_ok_unfold _ _ _ _ _ _ TK) as (TG & _).
    destruct (tag_ok_facts tag TG) as (_ & _ & _ & TE). exact TE.
Qed.

Lemma print_el_length_pos : forall d t, tree_ok d t = true -> (1 <= length (print_el t))%nat.
Proof. intros d t H. destruct (print_el_head _ _ H) as (c2 & r & PE & _). rewrite PE. simpl. lia. Qed.

Lemma run_kids : forall ks, Forall el_round_trip ks ->
  forall fuel d otag ctag val attr dec start tg vl dc kids prev rest line m,
  forallb (tree_ok (S d)) ks = true -> (length (flat_map print_el ks) + S m < fuel)%nat ->
  exists fuel' prev', (S m < fuel')%nat /\
    loop fuel d (mkF Svalue otag ctag val attr dec start tg vl dc kids prev)
         (G (flat_map print_el ks ++ rest) line) =
    loop fuel' d (mkF Svalue otag ctag val attr dec start tg vl dc (kids ++ ks) prev') (G rest line).
Proof.
  induction 1 as [|k ks RT RTS IH]; intros fuel d otag ctag val attr dec start tg vl dc kids prev rest line m TK L.
  - exists fuel, prev. split; [simpl in L; lia|]. rewrite app_nil_r. reflexivity.
  - cbn [forallb] in TK. apply andb_true_iff in TK. destruct TK as [TK1 TK2].
    cbn [flat_map] in *. rewrite app_length in L.
    pose proof (print_el_length_pos _ _ TK1) as LP.
    destruct fuel as [|f]; [lia|].
    rewrite <- app_assoc.
    rewrite (run_kid k RT) by (auto; lia).
    destruct (IH f d otag ctag val attr dec start tg vl dc (kids ++ [k]) 60 rest line m TK2) as (fuel' & prev' & LF & E).
    { lia. }
    exists fuel', prev'. split; auto. rewrite E. rewrite <- app_assoc. reflexivity.
Qed.

(* induction principle for the nested tree type *)
Lemma el_ind_nested (P : el -> Prop) :
  (forall tag dc v a kids, Forall P kids -> P (El tag dc v a kids)) -> forall t, P t.
Proof.
  intros H. fix IH 1. intros [tag dc v a kids]. apply H.
  induction kids as [|k ks IHk]; constructor; [apply IH|exact IHk].
Qed.

Lemma text_ok_facts : forall v, text_ok v = true ->
  forallb plain_char (escape (opt_str v)) = true /\
  (if negb (is_empty (escape (opt_str v))) && has_nonblank (escape (opt_str v))
   then Some (xlate (escape (opt_str v))) else None) = v.
Proof.
  intros [x|] H; cbn [opt_str text_ok] in *.
  - apply andb_true_iff in H. destruct H as [DV NB].
    pose proof (doc_value_text _ DV) as TC.
    split; [apply escape_plain; exact TC|].
    assert (XN : x <> []) by (destruct x; [discriminate|discriminate]).
    rewrite (escape_nonempty x XN). rewrite (escape_nonblank x TC NB). cbn [negb andb].
    rewrite xlate_escape by (apply doc_value_value; exact DV). reflexivity.
  - split; reflexivity.
Qed.

Lemma all_round_trip : forall t, el_round_trip t.
Proof.
  induction t as [tag dc v a kids IHK] using el_ind_nested.
  intros d rest line fuel TK L.
  destruct (tree_ok_unfold _ _ _ _ _ _ TK) as (TG & DC & TX & AT & DP & KD). subst dc.
  destruct (text_ok_facts v TX) as (TPL & TVAL).
  cbn [final_frame].
  cbn [print_el] in *.
  (* open tag *)
  set (tail := match v, kids with
               | None, [] => [47; 62]
               | _, _ => 62 :: escape (opt_str v) ++ flat_map print_el kids ++ 60 :: 47 :: tag ++ [62]
               end) in *.
  cbn [length] in L. rewrite !app_length in L.
  cbn [app]. rewrite <- !app_assoc.
  remember (fuel - S (length tag + length (print_attrs a)))%nat as fuel1 eqn:F1.
  replace fuel with (S (length tag + length (print_attrs a)) + fuel1)%nat by lia.
  rewrite run_open by assumption.
  assert (L1 : (length tail < fuel1)%nat) by lia.
  clear F1 L.
  assert (CLOSED : forall fuel2, (0 < fuel2)%nat ->
            loop fuel2 d (mkF Sfinished tag tag (escape (opt_str v)) (attr_chunk a) [] line tag v None kids 62)
                 (G rest line) =
            Ok (mkF Sfinished tag tag (escape (opt_str v)) (attr_chunk a) [] line tag v None kids 62, G rest line)).
  { intros fuel2 P. destruct fuel2; [lia|]. apply loop_fin. reflexivity. }
  pose (body := 62 :: escape (opt_str v) ++ flat_map print_el kids ++ 60 :: 47 :: tag ++ [62]).
  assert (FULL : forall fuelx, (length body < fuelx)%nat ->
            loop fuelx d (open_frame line tag a) (G (body ++ rest) line) =
            Ok (mkF Sfinished tag tag (escape (opt_str v)) (attr_chunk a) [] line tag v None kids 62, G rest line)).
  { intros fuelx LX. unfold body in *.
    cbn [length] in LX. rewrite !app_length in LX. cbn [length] in LX. rewrite app_length in LX. cbn [length] in LX.
    cbn [app]. rewrite <- !app_assoc.
    remember (fuelx - S (length (escape (opt_str v))))%nat as fuel3 eqn:F3.
    replace fuelx with (1 + (length (escape (opt_str v)) + fuel3))%nat by lia.
    rewrite run_gt.
    rewrite phase_value_text by assumption.
    cbn [app].
    destruct (run_kids kids IHK fuel3 d tag [] (escape (opt_str v)) (attr_chunk a) [] line [] None None []
                       (last (escape (opt_str v)) 62) (60 :: 47 :: tag ++ 62 :: rest) line
                       (S (S (length tag))) KD) as (fuel4 & prev4 & L4 & E4).
    { lia. }
    cbn [app] in E4. cbn [app]. rewrite <- ?app_assoc. cbn [app]. rewrite E4.
    remember (fuel4 - S (S (S (S (length tag)))))%nat as fuel5 eqn:F5.
    replace fuel4 with (S (S (length tag + S (S fuel5))))%nat by lia.
    rewrite run_close by assumption.
    rewrite TVAL. apply CLOSED. lia. }
  destruct v as [x|]; [exact (FULL fuel1 L1)|].
  destruct kids as [|k ks]; [|exact (FULL fuel1 L1)].
  (* <tag attrs/> *)
  subst tail. cbn [length] in L1. cbn [app].
  remember (fuel1 - 2)%nat as fuel2 eqn:F2.
  replace fuel1 with (2 + fuel2)%nat by lia.
  rewrite run_selfclose by assumption.
  apply CLOSED. lia.
Qed.

Lemma c32_tree_partial_lemma : forall t, tree_ok 0 t = true -> parse_doc (print_el t) = Ok t.
Proof.
  intros t H. unfold parse_doc.
  pose proof (all_round_trip t 0%nat [] 1 (doc_fuel (print_el t)) H) as R.
  rewrite app_nil_r in R. rewrite R by (unfold doc_fuel; lia).
  apply (finish_final 0%nat). exact H.
Qed.

(* ------------------------------------------------------------------ witnesses *)
Definition sample_tree : el :=
  El (bs "cfg") None (Some (bs " a<b & c> "))
     [(bs "name", bs "x""y'z>&"); (bs "v.1", bs "&l; &#; &lt")]
     [El (bs "item") None None [(bs "id", bs "1")] [];
      El (bs "ns:other") None (Some (bs "'")) [] [];
      El (bs "item") None (Some (bs "t")) [(bs "id", bs "2")]
         [El (bs "leaf-1") None None [] []; El (bs "item") None None [] []]].

Lemma c32_nonvacuous_lemma :
  tree_ok 0 sample_tree = true /\
  attrs_ok (el_attrs sample_tree) = true /\
  find_tags_ok 47 sample_tree = true /\
  print_el sample_tree =
    bs "<cfg name=""x&quot;y&apos;z&gt;&amp;"" v.1=""&amp;l; &amp;#; &amp;lt""> a&lt;b &amp; c&gt; <item id=""1""/><ns:other>&apos;</ns:other><item id=""2"">t<leaf-1/><item/></item></cfg>" /\
  parse_doc (print_el sample_tree) = Ok sample_tree /\
  find_all (find_fuel (bs "cfg/item")) sample_tree sample_tree [] (bs "cfg/item") 47 (None, None) = [[0%nat]; [2%nat]] /\
  find_all (find_fuel (bs "//cfg/item/item")) sample_tree sample_tree [] (bs "//cfg/item/item") 47 (None, None) = [[2%nat; 1%nat]] /\
  find_first (find_fuel (bs "cfg/item")) sample_tree sample_tree [] (bs "cfg/item") 47 (Some (bs "id"), Some (bs "2")) = Some [2%nat] /\
  find_all (find_fuel (bs "cfg/item")) sample_tree sample_tree [] (bs "cfg/item") 47 (Some (bs "id"), Some (bs "")) = [].
Proof. vm_compute. repeat split. Qed.

(* the other two hypotheses of tree_ok are needed as well *)
Lemma c32_blank_text_refuted_lemma :
  parse_doc (print_el (El (bs "a") None (Some (bs "  ")) [] [])) = Ok (El (bs "a") None None [] []).
Proof. vm_compute. reflexivity. Qed.

Lemma c32_docpath_refuted_lemma :
  parse_doc (print_el (El (bs "a") None None [(bs "docpath", bs "x"); (bs "e", bs "1")] [])) =
  Ok (El (bs "a") None None [(bs "e", bs "1")] []).
Proof. vm_compute. reflexivity. Qed.

(* the trees of c32_tree_partial are trees of c32_find_exact (delimiter '/') *)
Lemma tree_ok_find_tags : forall t d, tree_ok d t = true -> find_tags_ok 47 t = true.
Proof.
  induction t as [tag dc v a kids IHK] using el_ind_nested. intros d H.
  destruct (tree_ok_unfold _ _ _ _ _ _ H) as (TG & _ & _ & _ & _ & KD).
  destruct (tag_ok_facts tag TG) as (TNE & TNM & _ & TEMP).
  cbn [find_tags_ok]. rewrite TEMP. cbn [negb andb].
  assert (NS : mem_byte 47 tag = false).
  { clear - TNM. induction tag as [|c tag IH]; auto.
    simpl in TNM. apply andb_true_iff in TNM. destruct TNM as [C T].
    name_facts c C. cbn [mem_byte]. rewrite (N.eqb_sym 47 c). rw_false. apply IH. exact T. }
  rewrite NS. cbn [negb andb].
  assert (NR : starts_with [47; 47] tag = false).
  { destruct tag as [|c tag]; [reflexivity|]. cbn [mem_byte] in NS. apply orb_false_iff in NS.
    destruct NS as [NS _]. cbn [starts_with]. rewrite NS. reflexivity. }
  rewrite NR. cbn [negb andb].
  rewrite forallb_forall in *. rewrite Forall_forall in IHK.
  intros k IN. apply (IHK k IN (S d)). apply KD. exact IN.
Qed.
