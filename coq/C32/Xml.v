(* C32 -- executable model of fix8's XML parser, runtime/xml.cpp, transcribed statement by
   statement (defects included):
     XmlElement::XmlElement(istream&, ...)   the lexer/recursive-descent constructor   [loop, step, finish]
     XmlElement::ParseAttrs                                                             [parse_attrs]
     XmlElement::InplaceXlate                 (flags_ has noextensions in every run)     [xlate]
     XmlElement::find (first match / all matches), findAttrByValue                      [find_all, find_first]
   Fixed by the set-up of every run and therefore constants of the model: flags_ = {noextensions}
   (no ${ENV} / !{cmd} forms, no /* */ comments in attribute lists), nocase off, rootAttr = nullptr,
   the "C" locale for isspace and regexec.  Documents whose tags could spell "xi:include" are
   outside the modelled domain (the real code would open files named by the input).
   The CDATA states cdata0..ecdata1 are unreachable in the real code (the only entry, in state
   `value', is commented out) and are not transcribed.
   No proofs in this file. *)
From Coq Require Import NArith List Bool String.
From F8 Require Import C32.XmlBase.
Import ListNotations.
Local Open Scope N_scope.

Inductive res (A : Type) : Type :=
| Ok (a : A)
| Err (msg : str)      (* throw XMLError(msg) *)
| OutOfFuel.
Arguments Ok {A} a.
Arguments Err {A} msg.
Arguments OutOfFuel {A}.

(* isspace in the "C" locale *)
Definition isspace (c : byte) : bool := (c =? 32) || ((9 <=? c) && (c <=? 13)).
Definition is_quote (c : byte) : bool := (c =? 34) || (c =? 39).

(* ------------------------------------------------------------------ InplaceXlate *)
Definition is_lower (c : byte) : bool := (97 <=? c) && (c <=? 122).
Definition is_14 (c : byte) : bool := (49 <=? c) && (c <=? 52).
Definition is_digit (c : byte) : bool := (48 <=? c) && (c <=? 57).
Definition is_hex (c : byte) : bool :=
  is_digit c || ((65 <=? c) && (c <=? 70)) || ((97 <=? c) && (c <=? 102)).

Fixpoint span (p : byte -> bool) (s : str) : str * str :=
  match s with
  | [] => ([], [])
  | c :: r => if p c then (let (a, b) := span p r in (c :: a, b)) else ([], s)
  end.

(* rCX_ = "&([a-z]{2,}[1-4]{0,});" anchored right after the '&': the three character classes
   and ';' are pairwise disjoint, so there is a match iff the maximal runs fit.
   Result: (sub-expression 1, text after the ';') *)
Definition named_at (s : str) : option (str * str) :=
  let (ls, r1) := span is_lower s in
  if Nat.leb 2 (List.length ls) then
    let (ds, r2) := span is_14 r1 in
    match r2 with
    | c :: r3 => if c =? 59 then Some (ls ++ ds, r3) else None
    | [] => None
    end
  else None.

(* regexec(source.c_str()): leftmost match; the subject is a C string, i.e. it ends at the
   first NUL byte.  Result: (text before the match, sub-expression 1, text after the match) *)
Fixpoint find_named (s : str) : option (str * str * str) :=
  match s with
  | [] => None
  | c :: r =>
    if c =? 0 then None else
    match (if c =? 38 then named_at r else None) with
    | Some (name, post) => Some ([], name, post)
    | None => match find_named r with
              | Some (pre, name, post) => Some (c :: pre, name, post)
              | None => None
              end
    end
  end.

(* stringtochar_ *)
Definition entity_table : list (str * byte) := Eval vm_compute in
  [ (bs "amp", 38); (bs "lt", 60); (bs "gt", 62); (bs "apos", 39); (bs "quot", 34); (bs "nbsp", 160);
    (bs "iexcl", 161); (bs "cent", 162); (bs "pound", 163); (bs "curren", 164); (bs "yen", 165);
    (bs "brvbar", 166); (bs "sect", 167); (bs "uml", 168); (bs "copy", 169); (bs "ordf", 170);
    (bs "laquo", 171); (bs "not", 172); (bs "shy", 173); (bs "reg", 174); (bs "macr", 175);
    (bs "deg", 176); (bs "plusmn", 177); (bs "sup2", 178); (bs "sup3", 179); (bs "acute", 180);
    (bs "micro", 181); (bs "para", 182); (bs "middot", 183); (bs "cedil", 184); (bs "sup1", 185);
    (bs "ordm", 186); (bs "raquo", 187); (bs "frac14", 188); (bs "frac12", 189); (bs "frac34", 190);
    (bs "iquest", 191) ].

Fixpoint lookup_entity (name : str) (l : list (str * byte)) : option byte :=
  match l with
  | [] => None
  | (k, v) :: r => if str_eqb name k then Some v else lookup_entity name r
  end.

(* not found character entity replaces string with '?' *)
Definition entity_char (name : str) : byte :=
  match lookup_entity name entity_table with Some c => c | None => 63 end.

(* while (rCX_.SearchString(match, what, 2) == 2) Replace(match, what, char): the string is
   searched again FROM THE START after every replacement, so replaced text is rescanned *)
Fixpoint xlate_named (fuel : nat) (s : str) : str :=
  match fuel with
  | O => s
  | S f => match find_named s with
           | None => s
           | Some (pre, name, post) => xlate_named f (pre ++ entity_char name :: post)
           end
  end.

(* rCE_ = "&#(x[A-Fa-f0-9]+|[0-9]+);" anchored right after "&#".
   Result: (hex?, digits, text after the ';') *)
Definition num_at (s : str) : option (bool * str * str) :=
  match s with
  | [] => None
  | c :: r =>
    if c =? 120 then
      let (hs, r1) := span is_hex r in
      match hs, r1 with
      | _ :: _, d :: r2 => if d =? 59 then Some (true, hs, r2) else None
      | _, _ => None
      end
    else
      let (ds, r1) := span is_digit s in
      match ds, r1 with
      | _ :: _, d :: r2 => if d =? 59 then Some (false, ds, r2) else None
      | _, _ => None
      end
  end.

Fixpoint find_num (s : str) : option (str * (bool * str) * str) :=
  match s with
  | [] => None
  | c :: r =>
    if c =? 0 then None else
    match (if c =? 38 then match r with
                           | h :: r' => if h =? 35 then num_at r' else None
                           | [] => None
                           end
           else None) with
    | Some (hx, ds, post) => Some ([], (hx, ds), post)
    | None => match find_num r with
              | Some (pre, m, post) => Some (c :: pre, m, post)
              | None => None
              end
    end
  end.

Definition digit_val (c : byte) : N :=
  if is_digit c then c - 48 else if c <? 97 then c - 55 else c - 87.

Definition INT_MAX : N := 2147483647.

(* istr >> hex|dec >> value  into an int: out-of-range input stores INT_MAX *)
Definition parse_int (base : N) (ds : str) : N :=
  N.min (fold_left (fun acc d => acc * base + digit_val d) ds 0) INT_MAX.

(* if (value & 0xff00) oval += char(value >> 8 & 0xff);  oval += char(value & 0xff); *)
Definition num_bytes (v : N) : str :=
  if N.land v 65280 =? 0 then [v mod 256] else [(v / 256) mod 256; v mod 256].

Fixpoint xlate_num (fuel : nat) (s : str) : str :=
  match fuel with
  | O => s
  | S f => match find_num s with
           | None => s
           | Some (pre, (hx, ds), post) =>
             xlate_num f (pre ++ num_bytes (parse_int (if hx then 16 else 10) ds) ++ post)
           end
  end.

(* every replacement shortens the string by at least two bytes: fuel = length + 1 is never
   exhausted (XmlProofs: xlate_named_fuel_stable, xlate_num_fuel_stable) *)
Definition xlate (s : str) : str :=
  let s1 := xlate_named (S (List.length s)) s in
  xlate_num (S (List.length s1)) s1.

(* ------------------------------------------------------------------ error texts *)
Definition s_err_open : str := Eval vm_compute in bs "Error (".
Definition s_unmatched : str := Eval vm_compute in bs "): unmatched tag '".
Definition s_par_open : str := Eval vm_compute in bs "' (".
Definition s_noclose : str := Eval vm_compute in bs ") does not close with '".
Definition s_maxdepth : str := Eval vm_compute in bs "): maximum depth exceeded (128)".
Definition s_attribute : str := Eval vm_compute in bs ") attribute '".
Definition s_illegal : str := Eval vm_compute in bs "' illegal character defined".
Definition s_already : str := Eval vm_compute in bs "' already defined".
Definition s_include : str := Eval vm_compute in bs "xi:include".
Definition s_docpath : str := Eval vm_compute in bs "docpath".

Definition msg_unmatched (line : N) (otag : str) (start : N) (ctag : str) : str :=
  s_err_open ++ dec_of_N line ++ s_unmatched ++ otag ++ s_par_open ++ dec_of_N start
             ++ s_noclose ++ ctag ++ [39].
Definition msg_maxdepth (line : N) : str := s_err_open ++ dec_of_N line ++ s_maxdepth.
Definition msg_illegal (line : N) (tag : str) : str :=
  s_err_open ++ dec_of_N line ++ s_attribute ++ tag ++ s_illegal.
Definition msg_already (line : N) (tag : str) : str :=
  s_err_open ++ dec_of_N line ++ s_attribute ++ tag ++ s_already.

(* ------------------------------------------------------------------ ParseAttrs *)
Inductive astate := Aews | Atag | Aes | Aoq | Avalue | Aoc0.

Record aframe := mkA {
  a_st : astate; a_tag : str; a_val : str; a_com : byte; a_attrs : list (str * str) }.

Fixpoint has_key (k : str) (l : list (str * str)) : bool :=
  match l with [] => false | (k', _) :: r => str_eqb k k' || has_key k r end.

Fixpoint has_any (set s : str) : bool :=
  match s with [] => false | c :: r => mem_byte c set || has_any set r end.

(* case tag: *)
Definition astep_tag (line : N) (f : aframe) (c : byte) : res aframe :=
  if isspace c then Ok (mkA Aes (a_tag f) (a_val f) (a_com f) (a_attrs f))
  else if c =? 61 then Ok (mkA Aoq (a_tag f) (a_val f) (a_com f) (a_attrs f))
  else if is_quote c then Err (msg_illegal line (a_tag f))
  else Ok (mkA Atag (a_tag f ++ [c]) (a_val f) (a_com f) (a_attrs f)).

Definition astep (line : N) (f : aframe) (c : byte) : res aframe :=
  match a_st f with
  | Aews =>
    if c =? 47 then Ok (mkA Aoc0 (a_tag f) (a_val f) (a_com f) (a_attrs f))
    else if negb (isspace c) then Ok (mkA Atag (a_tag f ++ [c]) (a_val f) (a_com f) (a_attrs f))
    else Ok f
  | Aoc0 =>
    (* noextensions: no comment; tmptag += '/'; tmptag += c; state = tag; and NO break: the
       character is processed again by case tag *)
    astep_tag line (mkA Atag (a_tag f ++ [47; c]) (a_val f) (a_com f) (a_attrs f)) c
  | Atag => astep_tag line f c
  | Aes =>
    if c =? 61 then Ok (mkA Aoq (a_tag f) (a_val f) (a_com f) (a_attrs f))
    else if is_quote c then Err (msg_illegal line (a_tag f))
    else Ok f
  | Aoq =>
    if is_quote c then Ok (mkA Avalue (a_tag f) (a_val f) c (a_attrs f))
    else if negb (isspace c) then Err (msg_illegal line (a_tag f))
    else Ok f
  | Avalue =>
    if negb (c =? a_com f) then Ok (mkA Avalue (a_tag f) (a_val f ++ [c]) (a_com f) (a_attrs f))
    else if has_any [92; 39; 34; 61] (a_tag f) then Err (msg_illegal line (a_tag f))
    else if str_eqb (a_tag f) s_docpath then Ok (mkA Aews [] [] 0 (a_attrs f))
    else if has_key (a_tag f) (a_attrs f) then Err (msg_already line (a_tag f))
    else Ok (mkA Aews [] [] 0 (a_attrs f ++ [(a_tag f, xlate (a_val f))]))
  end.

(* while (istr.good()) { char c; istr >> noskipws >> c; ... }: after the last character the
   extraction fails, c keeps its old content and is processed ONCE MORE before good() is tested *)
Fixpoint aloop (line : N) (f : aframe) (s : str) (prev : byte) : res aframe :=
  match s with
  | [] => astep line f prev
  | c :: r => match astep line f c with
              | Ok f' => aloop line f' r c
              | Err m => Err m
              | OutOfFuel => OutOfFuel
              end
  end.

Definition parse_attrs (line : N) (attlst : str) : res (list (str * str)) :=
  match aloop line (mkA Aews [] [] 0 []) attlst 0 with
  | Ok f => Ok (a_attrs f)
  | Err m => Err m
  | OutOfFuel => OutOfFuel
  end.

(* ------------------------------------------------------------------ the input stream *)
(* std::istringstream: remaining characters, eofbit, failbit; plus root_->line_ *)
Record stream := mkS { s_rest : str; s_eof : bool; s_fail : bool; s_line : N }.

Definition sgood (s : stream) : bool := negb (s_eof s) && negb (s_fail s).

(* ifs >> noskipws >> c on a good stream: at the end sets eofbit|failbit and leaves c alone *)
Definition sget (s : stream) : option byte * stream :=
  match s_rest s with
  | [] => (None, mkS [] true true (s_line s))
  | c :: r => (Some c, mkS r (s_eof s) (s_fail s) (s_line s))
  end.

(* peek(): sentry(noskipws) fails on a stream that is not good (and sets failbit); at the end
   of the data sets eofbit *)
Definition speek (s : stream) : option byte * stream :=
  if sgood s then
    match s_rest s with
    | [] => (None, mkS [] true (s_fail s) (s_line s))
    | c :: _ => (Some c, s)
    end
  else (None, mkS (s_rest s) (s_eof s) true (s_line s)).

(* putback(c): clears eofbit first; then a sentry, which fails if failbit is set *)
Definition sputback (c : byte) (s : stream) : stream :=
  if s_fail s then mkS (s_rest s) false true (s_line s)
  else mkS (c :: s_rest s) false false (s_line s).

Definition sbump (s : stream) : stream := mkS (s_rest s) (s_eof s) (s_fail s) (s_line s + 1).

(* ------------------------------------------------------------------ the constructor *)
Inductive lstate :=
| Solb | Sotag | Socom0 | Socom1 | Scomment | Sccom0 | Sccomment
| Soattr | Sodec | Scdec | Svalue | Scls | Sctag | Sfinished.

Definition is_finished (s : lstate) : bool := match s with Sfinished => true | _ => false end.

Record frame := mkF {
  f_st : lstate;
  f_otag : str; f_ctag : str; f_val : str; f_attr : str; f_dec : str;   (* tmpotag ... tmpdec *)
  f_start : N;                                                          (* starttmpotag *)
  f_tag : str; f_value : option str; f_decl : option str;               (* tag_, value_, decl_ *)
  f_kids : list el;                                                     (* ordchildren_ *)
  f_prev : byte }.                                                      (* content of `char c' *)

Definition init_frame : frame := mkF Solb [] [] [] [] [] 0 [] None None [] 0.

Definition with_st (f : frame) (x : lstate) : frame :=
  mkF x (f_otag f) (f_ctag f) (f_val f) (f_attr f) (f_dec f) (f_start f) (f_tag f) (f_value f)
      (f_decl f) (f_kids f) (f_prev f).
Definition with_prev (f : frame) (c : byte) : frame :=
  mkF (f_st f) (f_otag f) (f_ctag f) (f_val f) (f_attr f) (f_dec f) (f_start f) (f_tag f)
      (f_value f) (f_decl f) (f_kids f) c.
Definition with_kids (f : frame) (k : list el) : frame :=
  mkF (f_st f) (f_otag f) (f_ctag f) (f_val f) (f_attr f) (f_dec f) (f_start f) (f_tag f)
      (f_value f) (f_decl f) k (f_prev f).
(* tmpotag += ...; state = x  (start line recorded by the caller where the code does) *)
Definition with_otag (f : frame) (x : lstate) (o : str) (start : N) : frame :=
  mkF x o (f_ctag f) (f_val f) (f_attr f) (f_dec f) start (f_tag f) (f_value f)
      (f_decl f) (f_kids f) (f_prev f).
Definition with_ctag (f : frame) (x : lstate) (c : str) : frame :=
  mkF x (f_otag f) c (f_val f) (f_attr f) (f_dec f) (f_start f) (f_tag f) (f_value f)
      (f_decl f) (f_kids f) (f_prev f).
Definition with_val (f : frame) (v : str) : frame :=
  mkF (f_st f) (f_otag f) (f_ctag f) v (f_attr f) (f_dec f) (f_start f) (f_tag f) (f_value f)
      (f_decl f) (f_kids f) (f_prev f).
Definition with_attr (f : frame) (a : str) : frame :=
  mkF (f_st f) (f_otag f) (f_ctag f) (f_val f) a (f_dec f) (f_start f) (f_tag f) (f_value f)
      (f_decl f) (f_kids f) (f_prev f).
Definition with_dec (f : frame) (x : lstate) (d : str) (decl : option str) : frame :=
  mkF x (f_otag f) (f_ctag f) (f_val f) (f_attr f) d (f_start f) (f_tag f) (f_value f)
      decl (f_kids f) (f_prev f).
(* tag_ = tmpotag; value_ = ...; state = finished *)
Definition with_result (f : frame) (tag : str) (v : option str) : frame :=
  mkF Sfinished (f_otag f) (f_ctag f) (f_val f) (f_attr f) (f_dec f) (f_start f) tag v
      (f_decl f) (f_kids f) (f_prev f).

Definition MaxDepth : nat := 128.

(* tmpval.find_first_not_of(" \t\n\r") != npos *)
Fixpoint has_nonblank (s : str) : bool :=
  match s with
  | [] => false
  | c :: r => negb (mem_byte c [32; 9; 10; 13]) || has_nonblank r
  end.

Inductive action :=
| Cont (f : frame) (s : stream)      (* next iteration *)
| Throw (msg : str)
| Child (f : frame) (s : stream).    (* new XmlElement(stream, ..., depth_ + 1), then next iteration *)

Definition opt_is (o : option byte) (c : byte) : bool :=
  match o with Some x => x =? c | None => false end.

(* (c == '/' && ifsptr->peek() == '>'): peek is only called when c is '/' *)
Definition slash_gt (c : byte) (s : stream) : bool * stream :=
  if c =? 47 then (let (p, s') := speek s in (opt_is p 62, s')) else (false, s).

(* the body of `switch (state)' for one character c that is neither '\n' nor '\r' *)
Definition step (depth : nat) (f : frame) (c : byte) (s : stream) : action :=
  match f_st f with
  | Solb => if c =? 60 then Cont (with_st f Sotag) s else Cont f s
  | Sotag =>
    if c =? 62 then Cont (with_st f Svalue) s
    else
      let (sg, s') := slash_gt c s in
      if sg then Cont (with_ctag f Sctag (f_otag f)) s'
      else if isspace c && negb (is_empty (f_otag f)) then Cont (with_st f Soattr) s'
      else if (c =? 63) && is_empty (f_otag f) then Cont (with_st f Sodec) s'
      else if (c =? 33) && is_empty (f_otag f) then Cont (with_st f Socom0) s'
      else if (c =? 61) || (c =? 92) || (c =? 34) || (c =? 39)
      then Throw (msg_unmatched (s_line s') (f_otag f) (f_start f) (f_ctag f))
      else if negb (isspace c)
      then Cont (with_otag f Sotag (f_otag f ++ [c])
                           (if f_start f =? 0 then s_line s' else f_start f)) s'
      else Cont f s'
  | Socom0 =>
    if c =? 45 then Cont (with_st f Socom1) s
    else Cont (with_otag f Sotag (f_otag f ++ [33]) (f_start f)) s        (* c itself is dropped *)
  | Socom1 =>
    if c =? 45 then Cont (with_st f Scomment) s
    else Cont (with_otag f Sotag (f_otag f ++ [33; 45]) (f_start f)) s
  | Sodec =>
    if c =? 63
    then Cont (with_dec f Scdec (f_dec f) (if is_empty (f_dec f) then f_decl f else Some (f_dec f))) s
    else Cont (with_dec f Sodec (f_dec f ++ [c]) (f_decl f)) s
  | Soattr =>
    let (sg, s') := slash_gt c s in
    if sg then Cont (with_ctag f Sctag (f_otag f)) s'
    else if c =? 62 then Cont (with_st f Svalue) s'
    else Cont (with_attr f (f_attr f ++ [c])) s'
  | Scomment => if c =? 45 then Cont (with_st f Sccom0) s else Cont f s
  | Sccom0 => if c =? 45 then Cont (with_st f Sccomment) s else Cont (with_st f Scomment) s
  | Sccomment =>
    if c =? 62 then Cont (with_st f (match depth with O => Solb | S _ => Sfinished end)) s
    else Cont (with_st f Scomment) s
  | Scdec =>
    if c =? 62 then Cont (with_st f (match depth with O => Solb | S _ => Sfinished end)) s
    else Cont f s
  | Svalue =>
    if c =? 60 then
      let (p, s1) := speek s in
      if opt_is p 47 then Cont (with_st f Scls) s1
      else
        let s2 := sputback c s1 in
        if Nat.ltb MaxDepth (S depth) then Throw (msg_maxdepth (s_line s2))
        else Child f s2
    else Cont (with_val f (f_val f ++ [c])) s
  | Scls => if c =? 47 then Cont (with_st f Sctag) s else Cont f s
  | Sctag =>
    if c =? 62 then
      if negb (str_eqb (f_otag f) (f_ctag f))
      then Throw (msg_unmatched (s_line s) (f_otag f) (f_start f) (f_ctag f))
      else if str_eqb (f_otag f) s_include then Throw s_include      (* outside the domain *)
      else Cont (with_result f (f_otag f)
                   (if negb (is_empty (f_val f)) && has_nonblank (f_val f)
                    then Some (xlate (f_val f)) else f_value f)) s
    else if negb (isspace c) then Cont (with_ctag f Sctag (f_ctag f ++ [c])) s
    else Cont f s
  | Sfinished => Cont f s
  end.

(* after the loop:  if (!tmpattr.empty()) ParseAttrs(tmpattr); *)
Definition finish (f : frame) (s : stream) : res el :=
  match f_attr f with
  | [] => Ok (El (f_tag f) (f_decl f) (f_value f) [] (f_kids f))
  | _ => match parse_attrs (s_line s) (f_attr f) with
         | Ok a => Ok (El (f_tag f) (f_decl f) (f_value f) a (f_kids f))
         | Err m => Err m
         | OutOfFuel => OutOfFuel
         end
  end.

(* while (ifsptr->good() && state != finished) { char c; *ifsptr >> noskipws >> c; ... }
   One unit of fuel per iteration (of any nesting level). *)
Fixpoint loop (fuel : nat) (depth : nat) (f : frame) (s : stream) : res (frame * stream) :=
  match fuel with
  | O => OutOfFuel
  | S fuel' =>
    if negb (sgood s) || is_finished (f_st f) then Ok (f, s)
    else
      let (oc, s1) := sget s in
      let c := match oc with Some c => c | None => f_prev f end in   (* failed read: old content *)
      let f1 := with_prev f c in
      if c =? 10 then loop fuel' depth f1 (sbump s1)                 (* ++root_->line_; continue *)
      else if c =? 13 then loop fuel' depth f1 s1                    (* continue *)
      else
        match step depth f1 c s1 with
        | Throw m => Err m
        | Cont f2 s2 => loop fuel' depth f2 s2
        | Child f2 s2 =>
          match loop fuel' (S depth) init_frame s2 with
          | Ok (cf, s3) =>
            match finish cf s3 with
            | Ok child =>
              (* a child with an empty tag (comment, declaration, unfinished element) is deleted *)
              let f3 := if is_empty (el_tag child) then f2 else with_kids f2 (f_kids f2 ++ [child]) in
              loop fuel' depth f3 s3
            | Err m => Err m
            | OutOfFuel => OutOfFuel
            end
          | Err m => Err m
          | OutOfFuel => OutOfFuel
          end
        end
  end.

(* every character is read at most twice (once more after a putback) and at most one read
   fails per level: 2 * length + 4 iterations are never exhausted *)
Definition doc_fuel (bytes : str) : nat := 2 * List.length bytes + 4.

(* XmlElement::Factory(istream&, nullptr) on a fresh stream holding `bytes' *)
Definition parse_doc (bytes : str) : res el :=
  match loop (doc_fuel bytes) 0 init_frame (mkS bytes false false 1) with
  | Ok (f, s) => finish f s
  | Err m => Err m
  | OutOfFuel => OutOfFuel
  end.

(* ------------------------------------------------------------------ find *)
Fixpoint index_of (c : byte) (s : str) : option nat :=
  match s with
  | [] => None
  | x :: r => if x =? c then Some O else match index_of c r with Some n => Some (S n) | None => None end
  end.

(* atag && aval && !findAttrByValue( *atag, *aval ) *)
(* findAttrByValue(what, val): attrs_ && (itr = attrs_->find(what)) != end && itr->second == val *)
Definition find_attr_by_value (what val : str) (t : el) : bool :=
  match assoc what (el_attrs t) with Some v' => str_eqb v' val | None => false end.

(* the filter is only applied when BOTH pointers are given *)
Definition attr_pred (q : filt) (t : el) : bool :=
  match q with
  | (Some k, Some v) => find_attr_by_value k v t
  | _ => true
  end.

(* find(what, eset, atag, aval, delim): the root form is the literal "//" whatever delim is; addresses of the elements inserted into eset, in the
   order of the walk; equal_range(nwhat) of the multimap enumerates the children with that tag
   in insertion (= document) order.  Fuel: `what' gets shorter at every call. *)
Fixpoint find_all (fuel : nat) (root cur : el) (a : addr) (what : str) (d : byte) (q : filt)
  : list addr :=
  match fuel with
  | O => []
  | S fuel' =>
    if starts_with [47; 47] what then find_all fuel' root root [] (skipn 2 what) d q
    else if str_eqb what (el_tag cur) then (if attr_pred q cur then [a] else [])
    else
      match el_kids cur with
      | [] => []
      | _ =>
        match index_of d what with
        | None => []
        | Some fpos =>
          if str_eqb (firstn fpos what) (el_tag cur) then
            let lwhat := skipn (S fpos) what in
            let nwhat := match index_of d lwhat with None => lwhat | Some p => firstn p lwhat end in
            List.concat (mapi_from 0 (fun i k => if str_eqb (el_tag k) nwhat
                                            then find_all fuel' root k (a ++ [i]) lwhat d q else [])
                              (el_kids cur))
          else []
        end
      end
  end.

Fixpoint first_some {A : Type} (l : list (option A)) : option A :=
  match l with [] => None | Some x :: _ => Some x | None :: r => first_some r end.

(* find(what, atag, aval, delim) -> first matching element *)
Fixpoint find_first (fuel : nat) (root cur : el) (a : addr) (what : str) (d : byte) (q : filt)
  : option addr :=
  match fuel with
  | O => None
  | S fuel' =>
    if starts_with [47; 47] what then find_first fuel' root root [] (skipn 2 what) d q
    else if str_eqb what (el_tag cur) then (if attr_pred q cur then Some a else None)
    else
      match el_kids cur with
      | [] => None
      | _ =>
        match index_of d what with
        | None => None
        | Some fpos =>
          if str_eqb (firstn fpos what) (el_tag cur) then
            let lwhat := skipn (S fpos) what in
            let nwhat := match index_of d lwhat with None => lwhat | Some p => firstn p lwhat end in
            first_some (mapi_from 0 (fun i k => if str_eqb (el_tag k) nwhat
                                                then find_first fuel' root k (a ++ [i]) lwhat d q else None)
                                  (el_kids cur))
          else None
        end
      end
  end.

Definition find_fuel (what : str) : nat := S (List.length what).

(* ------------------------------------------------------------------ result line *)
Definition answer (root : el) (qy : query) : str :=
  match subtree_at root (q_start qy) with
  | None => s_noelem
  | Some cur =>
    if q_first qy
    then match find_first (find_fuel (q_path qy)) root cur (q_start qy) (q_path qy) (q_delim qy) (q_attr qy) with
         | Some a => render_addr a
         | None => s_none
         end
    else render_answer (find_all (find_fuel (q_path qy)) root cur (q_start qy) (q_path qy) (q_delim qy) (q_attr qy))
  end.

Definition s_xml_error : str := Eval vm_compute in bs "XML parsing error: ".
Definition s_skip : str := Eval vm_compute in bs "SKIP xi:include".
Definition s_fuel : str := Eval vm_compute in bs "FUEL".

(* what() is a C string: it ends at the first NUL *)
Fixpoint c_str (s : str) : str :=
  match s with [] => [] | c :: r => if c =? 0 then [] else c :: c_str r end.

(* the harness refuses documents that could spell the tag xi:include ('\n' and '\r' are
   dropped by the lexer in every state) *)
Definition in_domain (bytes : str) : bool :=
  negb (contains s_include (filter (fun c => negb ((c =? 10) || (c =? 13))) bytes)).

Definition run_doc (bytes : str) (qs : list query) : str :=
  if negb (in_domain bytes) then s_skip
  else match parse_doc bytes with
       | Ok t => render_tree t (map (answer t) qs)
       | Err m => 69 :: 32 :: hex_of_str (c_str (s_xml_error ++ m))
       | OutOfFuel => s_fuel
       end.
