(* C32 -- the property as executable definitions, written from the property text (independent of
   the model Xml.v):
     * the printer print_el of an element tree (markup characters & < > and the two quote characters written as the named
       references &amp; &lt; &gt; &quot; &apos;);
     * reach: the elements a '/'-separated path designates, in document order ("//" = from the root);
     * the classes of trees the round-trip theorems are stated for (boolean predicates);
     * the oracles applied to a result line (of the implementation or of the model):
         c32_ok_tree  t qs r : r is exactly the canonical dump of the tree t that was printed,
                               followed by the exact answers to the path queries qs;
         c32_ok_bytes r      : for arbitrary bytes, r is a tree or a parse error (not a crash). *)
From Coq Require Import NArith List Bool String.
From F8 Require Import C32.XmlBase.
Import ListNotations.
Local Open Scope N_scope.

(* ------------------------------------------------------------------ printer *)
Definition e_amp : str := Eval vm_compute in bs "&amp;".
Definition e_lt : str := Eval vm_compute in bs "&lt;".
Definition e_gt : str := Eval vm_compute in bs "&gt;".
Definition e_quot : str := Eval vm_compute in bs "&quot;".
Definition e_apos : str := Eval vm_compute in bs "&apos;".

Definition esc_byte (c : byte) : str :=
  if c =? 38 then e_amp
  else if c =? 60 then e_lt
  else if c =? 62 then e_gt
  else if c =? 34 then e_quot
  else if c =? 39 then e_apos
  else [c].

Definition escape (s : str) : str := flat_map esc_byte s.

(* the same with numeric references: decimal &#38; &#60; &#62; &#34; &#39; and hexadecimal
   &#x26; &#x3c; &#x3e; &#x22; &#x27; *)
Definition is_markup (c : byte) : bool := (c =? 38) || (c =? 60) || (c =? 62) || (c =? 34) || (c =? 39).
Definition d_amp : str := Eval vm_compute in bs "&#38;".
Definition d_lt : str := Eval vm_compute in bs "&#60;".
Definition d_gt : str := Eval vm_compute in bs "&#62;".
Definition d_quot : str := Eval vm_compute in bs "&#34;".
Definition d_apos : str := Eval vm_compute in bs "&#39;".
Definition esc_dec_byte (c : byte) : str :=
  if c =? 38 then d_amp else if c =? 60 then d_lt else if c =? 62 then d_gt
  else if c =? 34 then d_quot else if c =? 39 then d_apos else [c].
Definition escape_dec (s : str) : str := flat_map esc_dec_byte s.
Definition h_amp : str := Eval vm_compute in bs "&#x26;".
Definition h_lt : str := Eval vm_compute in bs "&#x3c;".
Definition h_gt : str := Eval vm_compute in bs "&#x3e;".
Definition h_quot : str := Eval vm_compute in bs "&#x22;".
Definition h_apos : str := Eval vm_compute in bs "&#x27;".
Definition esc_hex_byte (c : byte) : str :=
  if c =? 38 then h_amp else if c =? 60 then h_lt else if c =? 62 then h_gt
  else if c =? 34 then h_quot else if c =? 39 then h_apos else [c].
Definition escape_hex (s : str) : str := flat_map esc_hex_byte s.

(*  key="escaped value"  preceded by one space *)
Definition print_attr (kv : str * str) : str :=
  32 :: fst kv ++ 61 :: 34 :: escape (snd kv) ++ [34].
Definition print_attrs (a : list (str * str)) : str := flat_map print_attr a.

Definition opt_str (o : option str) : str := match o with Some v => v | None => [] end.

(* <tag attrs/>  when there is neither text nor a child, else <tag attrs>text children</tag> *)
Fixpoint print_el (t : el) : str :=
  match t with
  | El tag _ v a kids =>
    60 :: tag ++ print_attrs a ++
    match v, kids with
    | None, [] => [47; 62]
    | _, _ => 62 :: escape (opt_str v) ++ flat_map print_el kids ++ 60 :: 47 :: tag ++ [62]
    end
  end.

(* ------------------------------------------------------------------ path lookup *)
(* components of a path separated by the delimiter d (never the empty list) *)
Fixpoint split_on (d : byte) (s : str) : list str :=
  match s with
  | [] => [[]]
  | c :: r =>
    if c =? d then [] :: split_on d r
    else match split_on d r with
         | h :: t => (c :: h) :: t
         | [] => [[c]]
         end
  end.

(* leading "//" (repeated): the path is relative to the root *)
Fixpoint strip_root (s : str) : bool * str :=
  match s with
  | c1 :: c2 :: r => if (c1 =? 47) && (c2 =? 47) then (true, snd (strip_root r)) else (false, s)
  | _ => (false, s)
  end.

(* the attribute filter, in force when a name AND a value are given: the element has an attribute of
   that name whose value EQUALS the given value *)
Definition attr_ok (q : filt) (t : el) : bool :=
  match q with
  | (Some k, Some v) => match assoc k (el_attrs t) with Some v' => str_eqb v' v | None => false end
  | _ => true
  end.

(* the elements the components designate, with their addresses (document order), before any filter:
   the first component names the element itself, each further one a child *)
Fixpoint reach_el (comps : list str) (t : el) (a : addr) : list (addr * el) :=
  match comps with
  | [] => []
  | c :: rest =>
    if str_eqb c (el_tag t) then
      match rest with
      | [] => [(a, t)]
      | _ => List.concat (mapi_from 0 (fun i k => reach_el rest k (a ++ [i])) (el_kids t))
      end
    else []
  end.

(* addresses (document order) of the elements designated by the components: the first names the
   element itself, each further one a child *)
Fixpoint reach (comps : list str) (q : filt) (t : el) (a : addr) : list addr :=
  match comps with
  | [] => []
  | c :: rest =>
    if str_eqb c (el_tag t) then
      match rest with
      | [] => if attr_ok q t then [a] else []
      | _ => List.concat (mapi_from 0 (fun i k => reach rest q k (a ++ [i])) (el_kids t))
      end
    else []
  end.

(* tags as the parser produces them for live elements (not empty), without the path delimiter d and
   not beginning with the root marker "//" (implied when d is '/') *)
Fixpoint find_tags_ok (d : byte) (t : el) : bool :=
  match t with
  | El tag _ _ _ kids =>
    negb (is_empty tag) && negb (mem_byte d tag) && negb (starts_with [47; 47] tag)
    && forallb (find_tags_ok d) kids
  end.

Definition reach_path (root cur : el) (a : addr) (path : str) (d : byte) (q : filt) : list addr :=
  let (rooted, p) := strip_root path in
  if rooted then reach (split_on d p) q root [] else reach (split_on d p) q cur a.

(* the same before the attribute filter, with the elements *)
Definition reach_path_el (root cur : el) (a : addr) (path : str) (d : byte) : list (addr * el) :=
  let (rooted, p) := strip_root path in
  if rooted then reach_el (split_on d p) root [] else reach_el (split_on d p) cur a.

Definition spec_answer (root : el) (qy : query) : str :=
  match subtree_at root (q_start qy) with
  | None => s_noelem
  | Some cur =>
    let l := reach_path root cur (q_start qy) (q_path qy) (q_delim qy) (q_attr qy) in
    if q_first qy then match l with a :: _ => render_addr a | [] => s_none end
    else render_answer l
  end.

(* ------------------------------------------------------------------ oracles *)
Definition expected_line (t : el) (qs : list query) : str :=
  render_tree t (map (spec_answer t) qs).

Definition c32_ok_tree (t : el) (qs : list query) (r : str) : bool := str_eqb r (expected_line t qs).

(* "T ..." or "E ..." *)
Definition c32_ok_bytes (r : str) : bool :=
  match r with
  | c :: 32 :: _ => (c =? 84) || (c =? 69)
  | _ => false
  end.

(* ------------------------------------------------------------------ classes of trees *)
(* name alphabet: letters, digits, '_' '-' '.' ':' *)
Definition name_char (c : byte) : bool :=
  ((65 <=? c) && (c <=? 90)) || ((97 <=? c) && (c <=? 122)) || ((48 <=? c) && (c <=? 57))
  || (c =? 95) || (c =? 45) || (c =? 46) || (c =? 58).

Definition is_name (s : str) : bool := negb (is_empty s) && forallb name_char s.

Definition s_xi_include : str := Eval vm_compute in bs "xi:include".
Definition s_docpath_attr : str := Eval vm_compute in bs "docpath".

Definition tag_ok (s : str) : bool := is_name s && negb (str_eqb s s_xi_include).
Definition key_ok (s : str) : bool := is_name s && negb (str_eqb s s_docpath_attr).

(* does the text right after an '&' continue as a character reference?
     name;      two or more lower-case letters, then any digits 1..4, then ';'
     #digits;   #xhexdigits;                                                     *)
Fixpoint skip_while (p : byte -> bool) (s : str) : str :=
  match s with c :: r => if p c then skip_while p r else s | [] => [] end.
Fixpoint count_while (p : byte -> bool) (s : str) : nat :=
  match s with c :: r => if p c then S (count_while p r) else O | [] => O end.

Definition lower_c (c : byte) : bool := (97 <=? c) && (c <=? 122).
Definition d14_c (c : byte) : bool := (49 <=? c) && (c <=? 52).
Definition digit_c (c : byte) : bool := (48 <=? c) && (c <=? 57).
Definition hex_c (c : byte) : bool :=
  digit_c c || ((65 <=? c) && (c <=? 70)) || ((97 <=? c) && (c <=? 102)).

Definition semicolon_next (s : str) : bool := match s with c :: _ => c =? 59 | [] => false end.

Definition named_tail (s : str) : bool :=
  Nat.leb 2 (count_while lower_c s) && semicolon_next (skip_while d14_c (skip_while lower_c s)).

Definition num_tail (s : str) : bool :=
  match s with
  | c :: r =>
    (c =? 35) &&
    match r with
    | x :: r' =>
      if x =? 120 then Nat.leb 1 (count_while hex_c r') && semicolon_next (skip_while hex_c r')
      else Nat.leb 1 (count_while digit_c r) && semicolon_next (skip_while digit_c r)
    | [] => false
    end
  | [] => false
  end.

(* no '&' of the text is followed by something that reads as a reference *)
Fixpoint ref_free (s : str) : bool :=
  match s with
  | [] => true
  | c :: r => negb ((c =? 38) && (named_tail r || num_tail r)) && ref_free r
  end.

(* characters of attribute values: anything but NUL *)
Definition no_nul (s : str) : bool := forallb (fun c => negb (c =? 0)) s.
(* characters of text and of attribute values inside a document: neither NUL, '\n' nor '\r' *)
Definition text_char (c : byte) : bool := negb (c =? 0) && negb (c =? 10) && negb (c =? 13).

Definition value_ok (v : str) : bool := no_nul v && ref_free v.
Definition doc_value_ok (v : str) : bool := forallb text_char v && ref_free v.

Fixpoint keys_nodup (l : list (str * str)) : bool :=
  match l with
  | [] => true
  | (k, _) :: r => negb (existsb (fun kv => str_eqb k (fst kv)) r) && keys_nodup r
  end.

(* attribute lists of c32_attrs_partial *)
Definition attrs_ok (a : list (str * str)) : bool :=
  keys_nodup a && forallb (fun kv => key_ok (fst kv) && value_ok (snd kv)) a.
Definition doc_attrs_ok (a : list (str * str)) : bool :=
  keys_nodup a && forallb (fun kv => key_ok (fst kv) && doc_value_ok (snd kv)) a.

(* text: absent, or with at least one character other than blank and tab *)
Definition text_ok (o : option str) : bool :=
  match o with
  | None => true
  | Some v => doc_value_ok v && existsb (fun c => negb ((c =? 32) || (c =? 9))) v
  end.

(* trees of c32_tree_partial; d = depth of t (the root has depth 0, MaxDepth = 128) *)
Fixpoint tree_ok (d : nat) (t : el) : bool :=
  match t with
  | El tag dc v a kids =>
    tag_ok tag && match dc with None => true | Some _ => false end && text_ok v && doc_attrs_ok a
    && Nat.leb d 128 && forallb (tree_ok (S d)) kids
  end.
