(* Property C16 "Outbound sequence numbers are consecutive and persisted" as an executable predicate
   on observables: the history (case line) and the trace (result line) of either side.

   Numbering clause, written from the property text as the view of the RECEIVER of the byte stream:
   within one session instance the messages on the wire are scanned in order with an expected
   number `e`
     * PossDupFlag=Y (a retransmission)                  : ignored;
     * SequenceReset with GapFillFlag=Y (a gap fill)     : e := max e NewSeqNo  (it announces the
                                                           numbers it covers; it is not a new message);
     * every other message (a new message)               : its MsgSeqNum must be the canonical decimal
                                                           text of e, then e := e + 1.
   Hence new messages carry start, start+1, ... (skipping exactly what gap fills announce) and no
   two of them share a number.  `e` starts at the configured or recovered start number:
     initiator: 1 if reset_sequence_numbers, else the send_seqnum argument if given, else the sender
                number of the control record found at start (file persister), else 1;
     acceptor : 1 at start; when it processes a Logon while not yet logged on it MUST re-base to the
                required start number (see inbound_expect): 1 on ResetSeqNumFlag=Y, else the send_seqnum
                argument, else the control record's sender number (file persister).
   Control clause: after every operation that put a message on the wire or processed an inbound
   message, with a file persister attached, the control record equals (next_send, next_recv).
   (The MemoryPersister's control record cannot be read back at all: F30, property C26.) *)
From Coq Require Import NArith ZArith List Bool.
From F8 Require Import Sess.Bytes Sess.Msg Sess.Persist Sess.Session Sess.Wire.
Import ListNotations.
Local Open Scope N_scope.

Definition tagb (n : N) : bytes := dec n.

Definition flag_set (v : option bytes) : bool :=
  match v with Some (c :: _) => c =? 89 | _ => false end.

Definition is_possdup (t : list (bytes * bytes)) : bool := flag_set (tok_get (tagb T_PossDupFlag) t).
Definition is_gapfill (t : list (bytes * bytes)) : bool :=
  match tok_get (tagb T_MsgType) t with
  | Some ty => beq ty [52] && flag_set (tok_get (tagb T_GapFillFlag) t)
  | None => false
  end.
Definition newseq_of (t : list (bytes * bytes)) : option N :=
  match tok_get (tagb T_NewSeqNo) t with Some v => undec v | None => None end.

Fixpoint find_alt (v : bytes) (alts : list N) : option N :=
  match alts with
  | [] => None
  | a :: alts' => if beq v (dec a) then Some a else find_alt v alts'
  end.

(* one message on the wire: Some e' = accepted, None = the numbering clause is violated *)
Definition num_out (alts : list N) (e : N) (raw : bytes) : option N :=
  let t := tokens raw in
  if is_possdup t then Some e
  else if is_gapfill t then
    Some (match newseq_of t with Some v => N.max e v | None => e end)
  else
    match tok_get (tagb T_MsgSeqNum) t with
    | Some v => if beq v (dec e) then Some (e + 1)
                else match find_alt v alts with Some a => Some (a + 1) | None => None end
    | None => None
    end.

Fixpoint num_events (alts : list N) (e : N) (evs : list event) : option N :=
  match evs with
  | [] => Some e
  | EOut raw :: evs' =>
    match num_out alts e raw with Some e' => num_events alts e' evs' | None => None end
  | EOutRaw _ :: _ => None
  | _ :: evs' => num_events alts e evs'
  end.

Definition has_out (evs : list event) : bool :=
  existsb (fun e => match e with EOut _ => true | EOutRaw _ => true | _ => false end) evs.
Definition has_ret (evs : list event) : bool :=
  existsb (fun e => match e with ERet _ => true | _ => false end) evs.

(* oracle state *)
Record ost := mkOst {
  o_expect : N;
  o_sp : startp;
  o_ctrl : option (N * N);         (* control record at the previous snapshot *)
  o_state : N                      (* session state at the previous snapshot *)
}.

Definition start_number (p : startp) (ctrl : option (N * N)) : N :=
  match sp_role p with
  | Acceptor => 1
  | Initiator =>
    if pr_rsn (sp_par p) then 1
    else if negb (sp_ss p =? 0) then sp_ss p
    else match sp_pk p, ctrl with
         | PFile, Some (a, _) => a
         | _, _ => 1
         end
  end.

(* does the inbound stream of this operation contain a Logon, and with ResetSeqNumFlag=Y? *)
Definition logon_in (chunks : list bytes) : bool * bool :=
  let ms := fst (frames (concat chunks)) in
  let logons := filter (fun raw => match tok_get (tagb T_MsgType) (tokens raw) with Some ty => beq ty [65] | None => false end) ms in
  (match logons with [] => false | _ => true end,
   existsb (fun raw => flag_set (tok_get (tagb T_ResetSeqNumFlag) (tokens raw))) logons).

Definition rebase_alts (o : ost) (chunks : list bytes) : list N :=
  match sp_role (o_sp o) with
  | Initiator => []
  | Acceptor =>
    let '(lg, reset) := logon_in chunks in
    if lg then
      ((if reset then [1] else []) ++
       (match sp_pk (o_sp o), o_ctrl o with PFile, Some (a, _) => [a] | _, _ => [] end) ++
       (if sp_ss (o_sp o) =? 0 then [] else [sp_ss (o_sp o)]))%list
    else []
  end.

(* An acceptor that processes a Logon while it is not yet logged on (state other than continuous) MUST
   re-base: the first new message it then sends -- its Logon reply, or the Logout of the force-logoff
   path -- carries the required start number: 1 if the Logon has ResetSeqNumFlag=Y (the VALUE of the flag:
   141=N is not a reset), else the configured send_seqnum, else the sender number of the recovered control
   record (file persister), else the numbering simply continues.  A Reject (the Logon did not decode) and
   an operation whose inbound stream is not exactly one Logon are judged by the permissive rule
   (rebase_alts) instead. *)
Definition first_new_type (evs : list event) : option bytes :=
  let fix go (l : list event) :=
    match l with
    | [] => None
    | EOut raw :: l' =>
      let t := tokens raw in
      if is_possdup t || is_gapfill t then go l' else tok_get (tagb T_MsgType) t
    | _ :: l' => go l'
    end in go evs.

Definition single_logon (chunks : list bytes) : option bool :=      (* Some reset? *)
  match frames (concat chunks) with
  | ([raw], []) =>
    let t := tokens raw in
    match tok_get (tagb T_MsgType) t with
    | Some ty => if beq ty [65] then Some (flag_set (tok_get (tagb T_ResetSeqNumFlag) t)) else None
    | None => None
    end
  | _ => None
  end.

Definition required_start (o : ost) (reset : bool) : N :=
  if reset then 1
  else if negb (sp_ss (o_sp o) =? 0) then sp_ss (o_sp o)
  else match sp_pk (o_sp o), o_ctrl o with
       | PFile, Some (a, _) => a
       | _, _ => o_expect o
       end.

(* (expected number at the start of the operation, permitted alternatives) for an inbound operation *)
Definition inbound_expect (o : ost) (chunks : list bytes) (evs : list event) : N * list N :=
  match sp_role (o_sp o) with
  | Initiator => (o_expect o, [])
  | Acceptor =>
    match single_logon chunks with
    | Some reset =>
      if o_state o =? 1 then (o_expect o, [])                      (* already logged on: Reject, no re-base *)
      else match first_new_type evs with
           | Some ty => if beq ty [65] || beq ty [53] then (required_start o reset, []) else (o_expect o, [])
           | None => (o_expect o, [])
           end
    | None => (o_expect o, rebase_alts o chunks)
    end
  end.

Definition ctrl_clause (p : startp) (o : op) (st : step) : bool :=
  match sp_pk p, st_snap st with
  | PFile, Some sn =>
    let applies := has_out (st_events st) || (match o with OIn _ => has_ret (st_events st) | _ => false end) in
    if applies then
      match sn_ctrl sn with
      | Some (a, b) => (a =? sn_send sn) && (b =? sn_recv sn)
      | None => false
      end
    else true
  | _, _ => true
  end.

Definition c16_step (o : ost) (oper : op) (st : step) : option ost :=
  let '(sp', e0, alts) :=
    match oper with
    | OStart p _ => (p, start_number p None, [])
    | ORestart => (o_sp o, start_number (o_sp o) (o_ctrl o), [])
    | OIn chunks => (o_sp o, fst (inbound_expect o chunks (st_events st)), snd (inbound_expect o chunks (st_events st)))
    | _ => (o_sp o, o_expect o, [])
    end in
  match num_events alts e0 (st_events st) with
  | None => None
  | Some e' =>
    if ctrl_clause sp' oper st then
      Some (mkOst e' sp' (match st_snap st with Some sn => sn_ctrl sn | None => o_ctrl o end)
                  (match st_snap st with Some sn => sn_state sn | None => o_state o end))
    else None
  end.

Fixpoint c16_steps (o : ost) (ops : list op) (tr : trace) : bool :=
  match ops, tr with
  | [], [] => true
  | oper :: ops', st :: tr' =>
    match c16_step o oper st with
    | Some o' => c16_steps o' ops' tr'
    | None => false
    end
  | _, _ => false
  end.

Definition ost0 : ost := mkOst 1 default_sp None 0.

Definition c16_ok (ops : list op) (tr : trace) : bool := c16_steps ost0 ops tr.

(* on the concrete syntax of both lines *)
Definition c16_ok_line (case result : bytes) : bool :=
  c16_ok (parse_history case) (parse_trace result).

(* the control clause alone (c16_ok implies it: C16Control.c16_ok_ctrl) *)
Fixpoint c16_ctrl_steps (sp : startp) (ops : list op) (tr : trace) : bool :=
  match ops, tr with
  | [], [] => true
  | oper :: ops', st :: tr' =>
    let sp' := match oper with OStart p _ => p | _ => sp end in
    ctrl_clause sp' oper st && c16_ctrl_steps sp' ops' tr'
  | _, _ => false
  end.

Definition c16_ctrl_ok (ops : list op) (tr : trace) : bool := c16_ctrl_steps default_sp ops tr.
