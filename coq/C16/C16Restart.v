(* C16: the plain-history theorem extended with RESTART (a new session object on the same persister:
   file persister re-opened on its files, memory persister replaced): the numbering continues with the
   recovered control record (initiator), the configured start number, or 1, exactly as the oracle expects,
   and the control clause keeps holding. *)
From Coq Require Import NArith ZArith List Bool Lia.
From F8 Require Import Sess.Bytes Sess.Msg Sess.Persist Sess.Session Sess.SimpleCodec Sess.Wire
  Sess.SessLemmas Sess.SendLemmas C16.Spec_C16 C16.C16Proofs.
Import ListNotations.
Local Open Scope N_scope.

Definition ctrl_of (s : sess) : option (N * N) :=
  match p_kind (s_per s) with PFile => p_get_ctrl (s_per s) | _ => None end.

Section Restart.
Variable sc : schema.
Hypothesis WS : wf_schema sc = true.

Definition Inv2 (w : world) (o : ost) : Prop :=
  Inv w o /\ w_sp w = o_sp o /\ wf_start (o_sp o) = true /\
  (forall s, w_sess w = Some s -> o_ctrl o = ctrl_of s).

Lemma c16_step_fields : forall o oper st o', c16_step o oper st = Some o' ->
  o_sp o' = (match oper with OStart p _ => p | _ => o_sp o end) /\
  o_ctrl o' = (match st_snap st with Some sn => sn_ctrl sn | None => o_ctrl o end).
Proof.
  intros o oper st o' H. unfold c16_step in H.
  destruct oper; cbn zeta beta iota in H;
    match type of H with
    | match ?X with _ => _ end = _ => destruct X; [|discriminate]
    end;
    match type of H with
    | (if ?C then _ else _) = _ => destruct C; [|discriminate]
    end; inversion H; subst; split; reflexivity.
Qed.

Lemma snapshot_sp : forall w, w_sp (fst (snapshot w)) = w_sp w.
Proof.
  intros w. unfold snapshot. destruct (w_sess w) as [s|]; [|reflexivity].
  destruct (p_kind (s_per s)); reflexivity.
Qed.

Lemma snapshot_ctrl : forall w s, w_sess w = Some s ->
  match snd (snapshot w) with Some sn => sn_ctrl sn = ctrl_of s | None => False end.
Proof.
  intros w s E. destruct (snapshot_snap w s E) as [d SN]. rewrite SN. reflexivity.
Qed.

Lemma run_op_sp : forall w oper, plain_op oper = true -> w_sp (fst (run_op sc w oper)) = w_sp w.
Proof.
  intros w oper P. destruct oper; try discriminate; cbn [run_op].
  - destruct (w_sess w) as [s|]; [|reflexivity].
    destruct (negb (ms_ok m)); [reflexivity|]. destruct (build_msg sc m); [|reflexivity].
    destruct (send sc (w_now w) s m0 (ms_custom m) (ms_noinc m)) as [[ok s1] e1]. reflexivity.
  - destruct (w_sess w) as [s|]; [|reflexivity].
    destruct (negb (specs_ok l)); [reflexivity|]. destruct (build_all sc l); [|reflexivity].
    destruct (send_batch sc (w_now w) s l0) as [[n s1] e1]. reflexivity.
  - reflexivity.
Qed.

Lemma plain_op_step2 : forall w o oper,
  Inv2 w o -> plain_op oper = true ->
  exists o', c16_step o oper (mkStep (snd (run_op sc w oper)) (snd (snapshot (fst (run_op sc w oper))))) = Some o' /\
             Inv2 (fst (snapshot (fst (run_op sc w oper)))) o'.
Proof.
  intros w o oper (I & SP & WP & CT) P.
  destruct (plain_op_step sc WS w o oper I P) as (o' & ST & I').
  exists o'. split; [exact ST|].
  destruct (c16_step_fields _ _ _ _ ST) as [F1 F2]. cbn [st_snap] in F2.
  assert (OP : o_sp o' = o_sp o) by (rewrite F1; destruct oper; try discriminate; reflexivity).
  split; [exact I'|]. split; [|split].
  - rewrite snapshot_sp, run_op_sp by exact P. congruence.
  - rewrite OP. exact WP.
  - intros s2 E2. rewrite snapshot_sess in E2. pose proof (snapshot_ctrl _ _ E2) as SC.
    destruct (snd (snapshot (fst (run_op sc w oper)))) as [sn|]; [|contradiction]. rewrite F2. exact SC.
Qed.

(* ---- RESTART ------------------------------------------------------------------------------------------------ *)
Lemma p_reopen_ctrl : forall p, p_kind p = PFile -> p_get_ctrl (p_reopen p) = p_get_ctrl p.
Proof. intros p K. unfold p_reopen, p_get_ctrl. rewrite K. reflexivity. Qed.

Lemma p_reopen_kind : forall p, p_kind (p_reopen p) = p_kind p.
Proof. intros p. unfold p_reopen. destruct (p_kind p) eqn:K; try exact K. reflexivity. Qed.

(* the persister a restarted session gets *)
Definition restart_per (p : startp) (s : sess) (disk : persister) : persister :=
  match sp_pk p with
  | PFile => match p_kind (s_per s) with PFile => p_reopen (s_per s) | _ => disk end
  | k => p_empty k
  end.

Lemma run_restart : forall w s, w_sess w = Some s ->
  run_op sc w ORestart =
  (let '(r, s', evs) := start sc (w_now w) (w_sp w) (new_session (w_sp w) (restart_per (w_sp w) s (w_disk w))) in
   (mkWorld (Some s') (w_now w) (w_sp w)
            (match p_kind (s_per s) with PFile => p_reopen (s_per s) | _ => w_disk w end) (w_snap w),
    (evs ++ [ERet r])%list)).
Proof.
  intros w s E. cbn [run_op]. unfold teardown. rewrite E. unfold do_start, restart_per.
  cbn [w_sp w_now w_disk w_snap w_sess].
  destruct (sp_pk (w_sp w)); destruct (p_kind (s_per s)); reflexivity.
Qed.

Lemma restart_step : forall w o,
  Inv2 w o ->
  exists o', c16_step o ORestart (mkStep (snd (run_op sc w ORestart)) (snd (snapshot (fst (run_op sc w ORestart))))) = Some o' /\
             Inv2 (fst (snapshot (fst (run_op sc w ORestart)))) o'.
Proof.
  intros w o (I & SP & WP & CT). destruct I as (s & E & C & B & W & X & K).
  specialize (CT s E).
  rewrite (run_restart w s E). rewrite SP.
  set (p := o_sp o) in *. set (now := w_now w).
  pose proof WP as WP0. unfold wf_start in WP0. apply andb_true_iff in WP0. destruct WP0 as [Ws Wt].
  set (per := restart_per p s (w_disk w)).
  assert (PK : p_kind per = sp_pk p).
  { subst per. unfold restart_per. rewrite <- K. destruct (p_kind (s_per s)) eqn:KK; try reflexivity.
    rewrite p_reopen_kind. exact KK. }
  assert (PC : p_get_ctrl per = match sp_pk p with PFile => o_ctrl o | _ => None end).
  { subst per. unfold restart_per. rewrite <- K. rewrite CT. unfold ctrl_of.
    destruct (p_kind (s_per s)) eqn:KK; try reflexivity. apply p_reopen_ctrl. exact KK. }
  set (disk' := match p_kind (s_per s) with PFile => p_reopen (s_per s) | _ => w_disk w end).
  unfold start. destruct (sp_role p) eqn:RO.
  - (* initiator *)
    set (s2 := if pr_rsn (sp_par p) then _ else _).
    destruct (logon_plain sc (s_hb s2) (pr_rsn (sp_par p))) as [PL EB].
    assert (F2 : s_closed s2 = false /\ s_batch s2 = [] /\ s_snd s2 = sp_snd p /\ s_tgt s2 = sp_tgt p /\
                 p_kind (s_per s2) = sp_pk p /\ s_next_send s2 = start_number p (o_ctrl o)).
    { subst s2. unfold new_session, start_number. rewrite RO.
      destruct (pr_rsn (sp_par p)).
      - cbn. repeat split. exact PK.
      - unfold recover_seqnums. cbn [s_per atomic_init w_down w_state w_next_send w_next_recv new_session].
        rewrite PC.
        destruct (sp_pk p) eqn:KP; try (destruct (sp_ss p =? 0) eqn:SS; destruct (sp_rs p =? 0); cbn; repeat split; exact PK).
        destruct (o_ctrl o) as [[a b]|];
          destruct (sp_ss p =? 0) eqn:SS; destruct (sp_rs p =? 0); cbn; repeat split; exact PK. }
    destruct F2 as (C2 & B2 & S2 & T2 & K2 & N2).
    assert (W2 : wf_sess s2 = true) by (unfold wf_sess; rewrite S2, T2, Ws, Wt; reflexivity).
    unfold send. cbn [N.eqb].
    destruct (single_wire sc WS now s2 _ PL EB C2 W2 B2) as (s3 & wr & ES & FR & B3 & NU & NS & CT3).
    rewrite ES. cbn [fst snd].
    set (w1 := mkWorld (Some (w_state st_logon_sent s3)) now p disk' (w_snap w)).
    assert (E' : w_sess w1 = Some (w_state st_logon_sent s3)) by reflexivity.
    destruct (snapshot_snap _ _ E') as [d SN].
    unfold c16_step. cbn [st_events st_snap]. fold p. rewrite <- N2.
    change ([EOut wr] ++ [ERet 0%Z])%list with (map EOut [wr] ++ [ERet 0%Z])%list.
    rewrite (num_events_numbered [] [wr] _ [ERet 0%Z] NU). cbn [num_events length].
    destruct FR as (F1 & F2 & F3 & F4 & F5).
    assert (CC : ctrl_clause p ORestart (mkStep (map EOut [wr] ++ [ERet 0%Z]) (snd (snapshot w1))) = true).
    { unfold ctrl_clause. cbn [st_events st_snap]. rewrite SN. rewrite <- K2.
      destruct (p_kind (s_per s2)) eqn:KK; try reflexivity.
      cbn [map app has_out existsb orb sn_ctrl sn_send sn_recv]. cbn [w_state s_per s_next_send s_next_recv].
      rewrite F4. rewrite (CT3 eq_refl). rewrite !N.eqb_refl. reflexivity. }
    rewrite CC. eexists. split; [reflexivity|].
    split; [|split; [|split]].
    + apply Inv_snapshot. exists (w_state st_logon_sent s3).
      repeat split; cbn [w1 w_sess w_state s_closed s_batch s_next_send s_per o_expect o_sp]; try congruence.
      * unfold wf_sess. cbn [w_state s_snd s_tgt]. rewrite F2, F3. exact W2.
      * rewrite NS. cbn. lia.
    + rewrite snapshot_sp. reflexivity.
    + exact WP.
    + intros s4 E4. rewrite snapshot_sess in E4. cbn [w1 w_sess] in E4. inversion E4; subst s4.
      cbn [o_ctrl]. rewrite SN. reflexivity.
  - (* acceptor *)
    cbn [fst snd app].
    set (sa := mkSess _ _ _ _ _ _ _ _ _ _ _ _ _ _ _ _ _ _ _).
    set (w1 := mkWorld (Some sa) now p disk' (w_snap w)).
    assert (E' : w_sess w1 = Some sa) by reflexivity.
    destruct (snapshot_snap _ _ E') as [d SN].
    unfold c16_step. cbn [st_events st_snap num_events]. fold p. unfold start_number. rewrite RO.
    assert (CC : ctrl_clause p ORestart (mkStep [ERet 0%Z] (snd (snapshot w1))) = true).
    { unfold ctrl_clause. cbn [st_events st_snap]. rewrite SN. destruct (sp_pk p); reflexivity. }
    rewrite CC. eexists. split; [reflexivity|].
    split; [|split; [|split]].
    + apply Inv_snapshot. exists sa. split; [reflexivity|]. subst sa. unfold new_session. rewrite RO. cbn.
      repeat split. exact PK.
    + rewrite snapshot_sp. reflexivity.
    + exact WP.
    + intros s4 E4. rewrite snapshot_sess in E4. cbn [w1 w_sess] in E4. inversion E4; subst s4.
      cbn [o_ctrl]. rewrite SN. reflexivity.
Qed.

(* ---- histories with restarts ------------------------------------------------------------------------------------ *)
Definition plain_or_restart (o : op) : bool := match o with ORestart => true | _ => plain_op o end.

Lemma steps_restart : forall ops w o,
  Inv2 w o -> forallb plain_or_restart ops = true -> c16_steps o ops (run_ops sc w ops) = true.
Proof.
  induction ops as [|oper ops IH]; intros w o I P; [reflexivity|].
  cbn [forallb] in P. apply andb_true_iff in P. destruct P as [P1 P2].
  assert (ST : exists o', c16_step o oper (mkStep (snd (run_op sc w oper)) (snd (snapshot (fst (run_op sc w oper))))) = Some o' /\
                          Inv2 (fst (snapshot (fst (run_op sc w oper)))) o').
  { destruct oper; try discriminate; try (apply plain_op_step2; assumption). apply restart_step. exact I. }
  destruct ST as (o' & ST & I').
  cbn [run_ops]. destruct (run_op sc w oper) as [w1 evs] eqn:R. cbn [fst snd] in *.
  destruct (snapshot w1) as [w2 sn] eqn:S. cbn [fst snd] in *.
  cbn [c16_steps]. rewrite ST. apply IH; assumption.
Qed.

Theorem c16_restart_history_lemma0 : forall p t ops,
  wf_start p = true -> forallb plain_or_restart ops = true ->
  c16_ok (OStart p t :: ops) (run_history sc (OStart p t :: ops)) = true.
Proof.
  intros p t ops WP P. destruct (start_step sc WS p t WP) as (o' & ST & I).
  unfold c16_ok, run_history. cbn [run_ops].
  destruct (c16_step_fields _ _ _ _ ST) as [F1 F2]. cbn [st_snap] in F2.
  assert (SPW : w_sp (fst (run_op sc world0 (OStart p t))) = p).
  { rewrite (run_start sc). cbn zeta. destruct (start sc _ p _) as [[r s] evs]. reflexivity. }
  destruct (run_op sc world0 (OStart p t)) as [w1 evs] eqn:R. cbn [fst snd] in *.
  destruct (snapshot w1) as [w2 sn] eqn:S. cbn [fst snd] in *.
  cbn [c16_steps]. rewrite ST. apply steps_restart; [|exact P].
  split; [exact I|]. split; [|split].
  - replace w2 with (fst (snapshot w1)) by (rewrite S; reflexivity). rewrite snapshot_sp. congruence.
  - rewrite F1. exact WP.
  - intros s2 E2. replace w2 with (fst (snapshot w1)) in E2 by (rewrite S; reflexivity).
    rewrite snapshot_sess in E2. pose proof (snapshot_ctrl _ _ E2) as SC. rewrite S in SC. cbn [snd] in SC.
    destruct sn as [sn|]; [|contradiction]. rewrite F2. exact SC.
Qed.

End Restart.

Lemma c16_restart_lemma : forall (sc : schema) (p : startp) (t : option Z) (ops : list op),
  wf_schema sc = true -> wf_start p = true -> forallb plain_or_restart ops = true ->
  c16_ok (OStart p t :: ops) (run_history sc (OStart p t :: ops)) = true.
Proof. intros sc p t ops WS WP P. exact (c16_restart_history_lemma0 sc WS p t ops WP P). Qed.

(* non-vacuity with restarts: the second session instance continues at the recovered number *)
From F8 Require Import Sess.Demo.
Definition h_restart : list op :=
  [OSend (demo_order [65]); OBatch [demo_order [66]; demo_admin [48]]; ORestart; OSend (demo_order [67]); ORestart; OSend (demo_admin [49])].

Lemma c16_restart_nonvacuous_lemma :
  forallb plain_or_restart h_restart = true /\
  all_new_seqs (run_history demo_schema (OStart (demo_init PFile) None :: h_restart)) = map dec [1; 2; 3; 4; 5; 6; 7; 8] /\
  ctrl_and_seq (run_history demo_schema (OStart (demo_init PFile) None :: h_restart)) = Some (Some (9, 1), 9, 1).
Proof. vm_compute. repeat split. Qed.
