(* C16: proofs.  The numbering and control clauses of c16_ok hold on every history that consists of a
   START followed by plain SEND / BATCH / CLOCK operations (any number, any message types but
   SequenceReset, any field contents without SOH), for both roles and all persisters. *)
From Coq Require Import NArith ZArith List Bool Lia.
From F8 Require Import Sess.Bytes Sess.Msg Sess.Persist Sess.Session Sess.SimpleCodec Sess.Wire
  Sess.SessLemmas Sess.SendLemmas C16.Spec_C16.
Import ListNotations.
Local Open Scope N_scope.

Section Proofs.
Variable sc : schema.
Hypothesis WS : wf_schema sc = true.

Lemma get_none_of_has : forall t l, has_field t l = false -> get_field t l = None.
Proof. intros t l H. unfold has_field in H. destruct (get_field t l); [discriminate|reflexivity]. Qed.

Lemma num_out_wire : forall alts now s m,
  wf_sess s = true -> plain_msg m = true ->
  num_out alts (s_next_send s) (wire sc now s m) = Some (s_next_send s + 1).
Proof.
  intros alts now s m WSS P.
  destruct (filled_ok sc now s m WS WSS P) as [W Ty Bo Sq Du].
  destruct (plain_fields m P) as (_ & _ & Ht & _ & _ & B34 & B43 & _).
  unfold num_out, wire, is_possdup, is_gapfill, tagb.
  rewrite (tok_get_encode sc _ T_PossDupFlag W) by discriminate.
  rewrite Du, Bo, (get_none_of_has _ _ B43). cbn [N.eqb T_PossDupFlag Pos.eqb flag_set].
  rewrite (tok_get_encode_type sc _ W). rewrite Ty.
  change [52] with mt_sequence_reset. rewrite Ht. cbn [andb].
  rewrite (tok_get_encode sc _ T_MsgSeqNum W) by discriminate.
  rewrite Sq. rewrite beq_refl. reflexivity.
Qed.

(* a list of already filled messages numbered e, e+1, ... *)
Inductive numbered (alts : list N) : N -> list bytes -> Prop :=
| numbered_nil : forall e, numbered alts e []
| numbered_cons : forall e w ws, num_out alts e w = Some (e + 1) -> numbered alts (e + 1) ws -> numbered alts e (w :: ws).

Lemma numbered_app : forall alts ws e w,
  numbered alts e ws -> num_out alts (e + N.of_nat (length ws)) w = Some (e + N.of_nat (length ws) + 1) ->
  numbered alts e (ws ++ [w]).
Proof.
  induction ws as [|x ws IH]; intros e w H Hw; cbn [app length] in *.
  - rewrite N.add_0_r in Hw. constructor; [exact Hw|constructor].
  - inversion H; subst. constructor; [assumption|]. apply IH; [assumption|].
    replace (e + 1 + N.of_nat (length ws)) with (e + N.of_nat (S (length ws))) by lia. exact Hw.
Qed.

Lemma num_events_numbered : forall alts ws e tl,
  numbered alts e ws ->
  num_events alts e (map EOut ws ++ tl) = num_events alts (e + N.of_nat (length ws)) tl.
Proof.
  induction ws as [|w ws IH]; intros e tl H; cbn [map app length num_events].
  - rewrite N.add_0_r. reflexivity.
  - inversion H; subst. rewrite H3. rewrite IH by assumption. f_equal. lia.
Qed.

(* ---- what a plain send_process leaves unchanged ------------------------------------------------------------- *)
Lemma p_put_kind : forall p k v, p_kind (p_put p k v) = p_kind p.
Proof.
  intros. unfold p_put. destruct (p_kind p) eqn:K; try exact K; destruct (k =? 0); try exact K;
  destruct (store_get k (p_store p)); try exact K; reflexivity.
Qed.
Lemma p_put_ctrl_kind : forall p a b, p_kind (p_put_ctrl p a b) = p_kind p.
Proof.
  intros. unfold p_put_ctrl. destruct (p_kind p) eqn:K; try exact K; reflexivity.
Qed.
Lemma per_after_kind : forall s m ptr, p_kind (per_after sc s m ptr) = p_kind (s_per s).
Proof.
  intros. unfold per_after. destruct (p_attached (s_per s)); [|reflexivity].
  rewrite p_put_ctrl_kind. destruct (is_admin sc (m_type m)); [reflexivity|apply p_put_kind].
Qed.
Lemma per_after_ctrl : forall s m ptr, p_kind (s_per s) = PFile ->
  p_get_ctrl (per_after sc s m ptr) = Some (s_next_send s + 1, s_next_recv s).
Proof.
  intros s m ptr K. unfold per_after, p_attached. rewrite K.
  unfold p_get_ctrl. rewrite p_put_ctrl_kind.
  destruct (is_admin sc (m_type m)).
  - rewrite K. unfold p_put_ctrl. rewrite K. reflexivity.
  - rewrite p_put_kind, K. unfold p_put_ctrl. rewrite p_put_kind, K. reflexivity.
Qed.

Definition frame (s s' : sess) : Prop :=
  s_closed s' = s_closed s /\ s_snd s' = s_snd s /\ s_tgt s' = s_tgt s /\
  p_kind (s_per s') = p_kind (s_per s) /\ s_next_recv s' = s_next_recv s.

Lemma frame_refl : forall s, frame s s.
Proof. intros; repeat split. Qed.
Lemma frame_trans : forall a b c, frame a b -> frame b c -> frame a c.
Proof. unfold frame. intros a b c (A1&A2&A3&A4&A5) (B1&B2&B3&B4&B5). repeat split; congruence. Qed.

Lemma wf_sess_frame : forall s s', frame s s' -> wf_sess s = true -> wf_sess s' = true.
Proof. unfold frame, wf_sess. intros s s' (_&A&B&_) H. rewrite A, B. exact H. Qed.

Lemma plain_set_eob : forall b m, plain_msg (set_eob b m) = plain_msg m.
Proof. reflexivity. Qed.

(* one plain send_process step, in terms of the pending (not yet flushed) wire messages *)
Lemma plain_step : forall now s m (pend : list msg),
  plain_msg m = true -> s_closed s = false -> wf_sess s = true ->
  s_batch s = concat (map (encode sc) pend) ->
  exists s' evs,
    send_process sc now s m = (true, s', evs) /\ frame s s' /\ s_next_send s' = s_next_send s + 1 /\
    (p_kind (s_per s) = PFile -> p_get_ctrl (s_per s') = Some (s_next_send s', s_next_recv s')) /\
    (if m_eob m
     then s_batch s' = [] /\ evs = map EOut (map (encode sc) (pend ++ [filled sc now s m]))
     else s_batch s' = concat (map (encode sc) (pend ++ [filled sc now s m])) /\ evs = []).
Proof.
  intros now s m pend P C W B.
  destruct (wf_schema_fields sc WS) as (Nb & _).
  rewrite (send_process_plain sc now s m P C). unfold plain_result.
  assert (CC : (s_batch s ++ wire sc now s m)%list = concat (map (encode sc) (pend ++ [filled sc now s m]))).
  { rewrite map_app, concat_app. cbn [map concat]. rewrite app_nil_r. rewrite B. reflexivity. }
  destruct (m_eob m).
  - destruct (s_batch s) eqn:BB.
    + destruct pend as [|x pend'].
      2:{ exfalso. cbn [map concat] in B. pose proof (encode_nonempty sc x).
          apply (f_equal (@length N)) in B. rewrite app_length in B. cbn in B. lia. }
      eexists. eexists. split; [reflexivity|]. split; [|split; [|split; [|split]]].
      * repeat split. cbn. apply per_after_kind.
      * reflexivity.
      * intro K. cbn. apply per_after_ctrl. exact K.
      * reflexivity.
      * cbn [app map]. unfold out_events.
        replace (wire sc now s m) with (concat (map (encode sc) [filled sc now s m])) by (cbn; apply app_nil_r).
        rewrite frames_encodes by exact Nb. cbn. reflexivity.
    + eexists. eexists. split; [reflexivity|]. split; [|split; [|split; [|split]]].
      * repeat split. cbn. apply per_after_kind.
      * reflexivity.
      * intro K. cbn. apply per_after_ctrl. exact K.
      * reflexivity.
      * rewrite CC. unfold out_events. rewrite frames_encodes by exact Nb.
        rewrite app_nil_r. reflexivity.
  - eexists. eexists. split; [reflexivity|]. split; [|split; [|split; [|split]]].
    + repeat split. cbn. apply per_after_kind.
    + reflexivity.
    + intro K. cbn. apply per_after_ctrl. exact K.
    + cbn. exact CC.
    + reflexivity.
Qed.

Lemma batch_loop_plain : forall now alts l s pend e cnt evs0,
  Forall (fun m => plain_msg m = true) l -> l <> [] ->
  s_closed s = false -> wf_sess s = true ->
  s_batch s = concat (map (encode sc) pend) ->
  numbered alts e (map (encode sc) pend) -> s_next_send s = e + N.of_nat (length pend) ->
  exists s' ws,
    send_batch_loop sc now s l cnt evs0 = (cnt + N.of_nat (length l), s', (evs0 ++ map EOut ws)%list) /\
    frame s s' /\ s_batch s' = [] /\ numbered alts e ws /\ s_next_send s' = e + N.of_nat (length ws) /\
    (p_kind (s_per s) = PFile -> p_get_ctrl (s_per s') = Some (s_next_send s', s_next_recv s')) /\
    length ws = (length pend + length l)%nat.
Proof.
  induction l as [|m l IH]; intros s pend e cnt evs0 FP NE C W B NU NS; [contradiction|].
  inversion FP as [|? ? Pm FP']; subst.
  cbn [send_batch_loop].
  destruct l as [|m' l'].
  - (* last message of the batch: flush *)
    destruct (plain_step now s (set_eob true m) pend) as (s' & evs & E & FR & NS' & CT & FL); try assumption.
    cbn [m_eob set_eob] in FL. destruct FL as [B' EV].
    rewrite E. cbn [send_batch_loop length]. exists s'. eexists. split; [|split; [|split; [|split; [|split; [|split]]]]].
    + rewrite EV. replace (cnt + N.of_nat 1) with (cnt + 1) by lia. reflexivity.
    + exact FR.
    + exact B'.
    + rewrite map_app. cbn [map]. apply numbered_app; [exact NU|].
      rewrite map_length. rewrite <- NS. apply num_out_wire; assumption.
    + rewrite map_length, app_length. cbn [length]. rewrite NS'. rewrite NS. lia.
    + exact CT.
    + rewrite map_length, app_length. reflexivity.
  - (* not the last one: appended to the batch buffer *)
    destruct (plain_step now s (set_eob false m) pend) as (s1 & evs & E & FR & NS' & CT & FL); try assumption.
    cbn [m_eob set_eob] in FL. destruct FL as [B' EV].
    rewrite E. subst evs. rewrite app_nil_r.
    destruct (IH s1 (pend ++ [filled sc now s (set_eob false m)])%list e (cnt + 1) evs0) as (s' & ws & E' & FR' & B'' & NU' & NS'' & CT' & LW).
    + exact FP'.
    + discriminate.
    + destruct FR as (A & _). rewrite A. exact C.
    + eapply wf_sess_frame; eassumption.
    + exact B'.
    + rewrite map_app. cbn [map]. apply numbered_app; [exact NU|].
      rewrite map_length. rewrite <- NS. apply num_out_wire; assumption.
    + rewrite app_length. cbn [length]. rewrite NS', NS. lia.
    + exists s', ws. split; [|split; [|split; [|split; [|split; [|split]]]]]; try assumption.
      * rewrite E'. replace (cnt + 1 + N.of_nat (length (m' :: l'))) with (cnt + N.of_nat (length (m :: m' :: l'))) by (cbn [length]; lia). reflexivity.
      * eapply frame_trans; eassumption.
      * intro K. apply CT'. destruct FR as (_ & _ & _ & KK & _). rewrite KK. exact K.
      * rewrite LW, app_length. cbn [length]. lia.
Qed.

(* ---- messages built from plain specs are plain ----------------------------------------------------------------- *)
Definition plain_tv (tv : N * bytes) : bool :=
  negb (fst tv =? T_MsgSeqNum) && negb (fst tv =? T_PossDupFlag) && nosoh (snd tv).

Definition plain_spec (sp : msgspec) : bool :=
  (ms_custom sp =? 0) && negb (ms_noinc sp) && negb (beq (ms_type sp) mt_sequence_reset) && nosoh (ms_type sp) &&
  forallb plain_tv (ms_hdr sp) && forallb plain_tv (ms_body sp).

Lemma NoDup_nodupb : forall l, NoDup l -> nodupb l = true.
Proof.
  induction l; intro H; cbn [nodupb]; [reflexivity|]. inversion H; subst.
  rewrite IHl by assumption. rewrite andb_true_r. apply negb_true_iff.
  destruct (existsb (N.eqb a) l) eqn:E; [|reflexivity].
  apply existsb_exists in E. destruct E as (x & I & Q). apply N.eqb_eq in Q. subst. contradiction.
Qed.

(* invariant of a message under construction *)
Record building (m : msg) : Prop := {
  bu_custom : m_custom m = 0;
  bu_noinc : m_noinc m = false;
  bu_eob : m_eob m = true;
  bu_h34 : has_field T_MsgSeqNum (m_hdr m) = false;
  bu_h43 : has_field T_PossDupFlag (m_hdr m) = false;
  bu_b34 : has_field T_MsgSeqNum (m_body m) = false;
  bu_b43 : has_field T_PossDupFlag (m_body m) = false;
  bu_nd : NoDup (tags (m_hdr m));
  bu_vh : vals_ok (m_hdr m) = true;
  bu_vb : vals_ok (m_body m) = true
}.

Lemma has_add_other : forall p t v l t', t' <> t -> has_field t' (add_field p t v l) = has_field t' l.
Proof. intros. unfold has_field. rewrite get_add_other by assumption. reflexivity. Qed.

Lemma plain_tv_fields : forall tv, plain_tv tv = true ->
  fst tv <> T_MsgSeqNum /\ fst tv <> T_PossDupFlag /\ nosoh (snd tv) = true.
Proof.
  intros tv H. unfold plain_tv in H. apply andb_true_iff in H. destruct H as [H H3].
  apply andb_true_iff in H. destruct H as [H1 H2].
  apply negb_true_iff in H1. apply negb_true_iff in H2. apply N.eqb_neq in H1. apply N.eqb_neq in H2. auto.
Qed.

Lemma add_hdr_building : forall t v m m', plain_tv (t, v) = true -> building m -> add_hdr sc t v m = Some m' ->
  building m' /\ m_type m' = m_type m.
Proof.
  intros t v m m' P B E. destruct (plain_tv_fields _ P) as (N34 & N43 & NV). cbn [fst snd] in *.
  unfold add_hdr in E. destruct (assoc t (sc_hdr sc)) as [p|]; [|discriminate]. inversion E; subst m'. clear E.
  destruct B. split; [|reflexivity]. constructor; cbn [m_custom m_noinc m_eob m_hdr m_body]; try assumption.
  - rewrite has_add_other by congruence. assumption.
  - rewrite has_add_other by congruence. assumption.
  - apply nodup_add. assumption.
  - apply vals_ok_add; assumption.
Qed.

Lemma add_body_building : forall t v m m', plain_tv (t, v) = true -> building m -> add_body sc t v m = Some m' ->
  building m' /\ m_type m' = m_type m.
Proof.
  intros t v m m' P B E. destruct (plain_tv_fields _ P) as (N34 & N43 & NV). cbn [fst snd] in *.
  unfold add_body in E. destruct (find_def (m_type m) (sc_msgs sc)); [|discriminate].
  destruct (assoc t (d_pos m0)) as [p|]; [|discriminate]. inversion E; subst m'. clear E.
  destruct B. split; [|reflexivity]. constructor; cbn [m_custom m_noinc m_eob m_hdr m_body]; try assumption.
  - rewrite has_add_other by congruence. assumption.
  - rewrite has_add_other by congruence. assumption.
  - apply vals_ok_add; assumption.
Qed.

Lemma add_fields_building : forall (f : N -> bytes -> msg -> option msg) l m m',
  (forall t v a b, plain_tv (t, v) = true -> building a -> f t v a = Some b -> building b /\ m_type b = m_type a) ->
  forallb plain_tv l = true -> building m -> add_fields f l m = Some m' -> building m' /\ m_type m' = m_type m.
Proof.
  intros f. induction l as [|[t v] l IH]; intros m m' Hf P B E; cbn [add_fields] in E.
  - inversion E; subst. split; [assumption|reflexivity].
  - cbn [forallb] in P. apply andb_true_iff in P. destruct P as [P1 P2].
    destruct (f t v m) as [m1|] eqn:F; [|discriminate].
    destruct (Hf t v m m1 P1 B F) as [B1 T1].
    destruct (IH m1 m' Hf P2 B1 E) as [B2 T2]. split; [assumption|congruence].
Qed.

Lemma plain_spec_fields : forall sp, plain_spec sp = true ->
  ms_custom sp = 0 /\ ms_noinc sp = false /\ beq (ms_type sp) mt_sequence_reset = false /\ nosoh (ms_type sp) = true /\
  forallb plain_tv (ms_hdr sp) = true /\ forallb plain_tv (ms_body sp) = true.
Proof.
  intros sp H. unfold plain_spec in H. repeat (apply andb_true_iff in H; destruct H as [H ?]).
  repeat match goal with X : negb _ = true |- _ => apply negb_true_iff in X end.
  apply N.eqb_eq in H. auto 10.
Qed.

Lemma build_plain : forall sp m, plain_spec sp = true -> build_msg sc sp = Some m ->
  plain_msg m = true /\ m_eob m = true.
Proof.
  intros sp m P E. destruct (plain_spec_fields sp P) as (Hc & Hn & Ht & Nt & Ph & Pb).
  unfold build_msg in E. destruct (find_def (ms_type sp) (sc_msgs sc)); [|discriminate].
  destruct (add_fields (add_hdr sc) (ms_hdr sp) (new_msg (ms_type sp))) as [m1|] eqn:E1; [|discriminate].
  assert (B0 : building (new_msg (ms_type sp))) by (constructor; try reflexivity; constructor).
  destruct (add_fields_building (add_hdr sc) _ _ _ add_hdr_building Ph B0 E1) as [B1 T1].
  destruct (add_fields_building (add_body sc) _ _ _ add_body_building Pb B1 E) as [B2 T2].
  destruct B2. split; [|assumption].
  unfold plain_msg. rewrite bu_custom0, bu_noinc0, bu_h35, bu_h44, bu_b35, bu_b44, bu_vh0, bu_vb0.
  rewrite T2, T1. cbn [new_msg m_type]. rewrite Ht, Nt. rewrite (NoDup_nodupb _ bu_nd0). reflexivity.
Qed.

(* ---- histories: START followed by plain operations ------------------------------------------------------------------ *)
Definition plain_op (o : op) : bool :=
  match o with
  | OSend sp => plain_spec sp
  | OBatch l => forallb plain_spec l
  | OClock _ => true
  | _ => false
  end.

Definition wf_start (p : startp) : bool := nosoh (sp_snd p) && nosoh (sp_tgt p).

(* invariant between the model world and the oracle state *)
Definition Inv (w : world) (o : ost) : Prop :=
  exists s, w_sess w = Some s /\ s_closed s = false /\ s_batch s = [] /\ wf_sess s = true /\
            o_expect o = s_next_send s /\ p_kind (s_per s) = sp_pk (o_sp o).

Lemma snapshot_sess : forall w, w_sess (fst (snapshot w)) = w_sess w.
Proof.
  intros w. unfold snapshot. destruct (w_sess w) as [s|] eqn:E; [|cbn; exact E].
  destruct (p_kind (s_per s)); cbn; try exact E; reflexivity.
Qed.

Lemma snapshot_snap : forall w s, w_sess w = Some s ->
  exists d, snd (snapshot w) = Some (mkSnap (s_state s) (s_next_send s) (s_next_recv s)
                                        (match p_kind (s_per s) with PFile => p_get_ctrl (s_per s) | _ => None end) d).
Proof.
  intros w s E. unfold snapshot. rewrite E. destruct (p_kind (s_per s)); eexists; reflexivity.
Qed.

Lemma Inv_snapshot : forall w o, Inv w o -> Inv (fst (snapshot w)) o.
Proof. intros w o (s & E & R). exists s. rewrite snapshot_sess. split; assumption. Qed.

Definition other_op (oper : op) : bool :=
  match oper with OStart _ _ | ORestart | OIn _ => false | _ => true end.

Lemma c16_step_other : forall o oper st, other_op oper = true ->
  c16_step o oper st =
  match num_events [] (o_expect o) (st_events st) with
  | Some e' => if ctrl_clause (o_sp o) oper st
               then Some (mkOst e' (o_sp o) (match st_snap st with Some sn => sn_ctrl sn | None => o_ctrl o end)
                                (match st_snap st with Some sn => sn_state sn | None => o_state o end))
               else None
  | None => None
  end.
Proof. intros o oper st H. destruct oper; try discriminate; reflexivity. Qed.

(* a step that puts nothing on the wire and leaves the session alone *)
Lemma quiet_step : forall w o oper evs,
  Inv w o -> other_op oper = true -> has_out evs = false -> num_events [] (o_expect o) evs = Some (o_expect o) ->
  exists o', c16_step o oper (mkStep evs (snd (snapshot w))) = Some o' /\ Inv (fst (snapshot w)) o'.
Proof.
  intros w o oper evs I OP HO NE. pose proof I as (s & E & C & B & W & X & K).
  destruct (snapshot_snap w s E) as [d SN].
  rewrite c16_step_other by exact OP. cbn [st_events st_snap]. rewrite NE.
  assert (CC : ctrl_clause (o_sp o) oper (mkStep evs (snd (snapshot w))) = true).
  { unfold ctrl_clause. cbn [st_events st_snap]. rewrite SN, HO.
    destruct oper; try discriminate; destruct (sp_pk (o_sp o)); reflexivity. }
  rewrite CC. eexists. split; [reflexivity|].
  apply Inv_snapshot. exists s. repeat split; assumption.
Qed.

Lemma building_plain : forall m, building m -> beq (m_type m) mt_sequence_reset = false -> nosoh (m_type m) = true ->
  plain_msg m = true.
Proof.
  intros m B T Nt. destruct B. unfold plain_msg.
  rewrite bu_custom0, bu_noinc0, bu_h35, bu_h44, bu_b35, bu_b44, bu_vh0, bu_vb0, T, Nt.
  rewrite (NoDup_nodupb _ bu_nd0). reflexivity.
Qed.

Lemma add_body'_building : forall t v m, plain_tv (t, v) = true -> building m ->
  building (add_body' sc t v m) /\ m_type (add_body' sc t v m) = m_type m.
Proof.
  intros t v m P B. unfold add_body'. destruct (add_body sc t v m) as [m'|] eqn:E.
  - eapply add_body_building; eassumption.
  - split; [assumption|reflexivity].
Qed.

Lemma logon_plain : forall hb rsn, plain_msg (generate_logon sc hb rsn) = true /\ m_eob (generate_logon sc hb rsn) = true.
Proof.
  intros hb rsn. unfold generate_logon.
  assert (B0 : building (new_msg mt_logon)) by (constructor; try reflexivity; constructor).
  destruct (add_body'_building T_HeartBtInt (dec hb) (new_msg mt_logon)) as [B1 T1]; [|exact B0|].
  { unfold plain_tv. cbn [fst snd]. rewrite (clean_nosoh _ (dec_clean hb)). reflexivity. }
  destruct (add_body'_building T_EncryptMethod s_0 _ (eq_refl : plain_tv (T_EncryptMethod, s_0) = true) B1) as [B2 T2].
  destruct (add_body'_building T_ResetSeqNumFlag s_Y _ (eq_refl : plain_tv (T_ResetSeqNumFlag, s_Y) = true) B2) as [B3 T3].
  destruct rsn.
  - split; [apply building_plain; [exact B3| |]|apply B3]; rewrite T3, T2, T1; reflexivity.
  - split; [apply building_plain; [exact B2| |]|apply B2]; rewrite T2, T1; reflexivity.
Qed.

(* a step that sends ws (at least one message), all numbered from the expected number *)
Lemma send_step : forall w o oper s s' ws r,
  w_sess w = Some s -> s_closed s = false -> wf_sess s = true -> o_expect o = s_next_send s ->
  p_kind (s_per s) = sp_pk (o_sp o) -> other_op oper = true ->
  frame s s' -> s_batch s' = [] -> numbered [] (s_next_send s) ws ->
  s_next_send s' = s_next_send s + N.of_nat (length ws) -> ws <> [] ->
  (p_kind (s_per s) = PFile -> p_get_ctrl (s_per s') = Some (s_next_send s', s_next_recv s')) ->
  exists o', c16_step o oper (mkStep (map EOut ws ++ [ERet r]) (snd (snapshot (with_sess w s')))) = Some o' /\
             Inv (fst (snapshot (with_sess w s'))) o'.
Proof.
  intros w o oper s s' ws r E C W X K OP FR B NU NS NE CT.
  assert (E' : w_sess (with_sess w s') = Some s') by reflexivity.
  destruct (snapshot_snap _ s' E') as [d SN].
  rewrite c16_step_other by exact OP. cbn [st_events st_snap].
  rewrite X. rewrite (num_events_numbered [] ws _ [ERet r] NU). cbn [num_events].
  destruct FR as (F1 & F2 & F3 & F4 & F5).
  assert (CC : ctrl_clause (o_sp o) oper (mkStep (map EOut ws ++ [ERet r]) (snd (snapshot (with_sess w s')))) = true).
  { unfold ctrl_clause. cbn [st_events st_snap]. rewrite SN. rewrite <- K.
    destruct (p_kind (s_per s)) eqn:KK; try reflexivity.
    assert (HO : has_out (map EOut ws ++ [ERet r]) = true).
    { destruct ws as [|x ws']; [contradiction|reflexivity]. }
    rewrite HO. cbn [orb sn_ctrl sn_send sn_recv]. rewrite F4. rewrite (CT eq_refl). rewrite !N.eqb_refl. reflexivity. }
  rewrite CC. eexists. split; [reflexivity|].
  apply Inv_snapshot. exists s'. repeat split; cbn [w_sess with_sess o_expect o_sp]; try congruence.
  eapply wf_sess_frame; [|exact W]. repeat split; assumption.
Qed.

Lemma plain_wrap : forall m, plain_msg m = true -> plain_msg (set_noinc false (set_custom 0 m)) = true.
Proof.
  intros m P. destruct (plain_fields m P) as (Hc & Hn & _). unfold plain_msg in *.
  cbn [set_noinc set_custom m_custom m_noinc m_type m_hdr m_body]. rewrite Hc, Hn in P. exact P.
Qed.

Lemma build_all_plain : forall l ms, forallb plain_spec l = true -> build_all sc l = Some ms ->
  Forall (fun m => plain_msg m = true) ms /\ length ms = length l.
Proof.
  induction l as [|sp l IH]; intros ms P E; cbn [build_all] in E.
  - inversion E; subst. split; [constructor|reflexivity].
  - cbn [forallb] in P. apply andb_true_iff in P. destruct P as [P1 P2].
    destruct (build_msg sc sp) as [m|] eqn:B; [|discriminate].
    destruct (build_all sc l) as [ms'|] eqn:B'; [|discriminate]. inversion E; subst ms. clear E.
    destruct (IH ms' P2 eq_refl) as [F L]. destruct (build_plain sp m P1 B) as [Pm _].
    destruct (plain_spec_fields sp P1) as (Hc & Hn & _). rewrite Hc, Hn.
    split; [constructor; [apply plain_wrap; exact Pm|exact F]|cbn [length]; congruence].
Qed.

Lemma single_wire : forall now s m,
  plain_msg m = true -> m_eob m = true -> s_closed s = false -> wf_sess s = true -> s_batch s = [] ->
  exists s' w,
    send_process sc now s m = (true, s', [EOut w]) /\ frame s s' /\ s_batch s' = [] /\
    numbered [] (s_next_send s) [w] /\ s_next_send s' = s_next_send s + 1 /\
    (p_kind (s_per s) = PFile -> p_get_ctrl (s_per s') = Some (s_next_send s', s_next_recv s')).
Proof.
  intros now s m P EB C W B.
  destruct (plain_step now s m [] P C W) as (s' & evs & E & FR & NS & CT & FL); [rewrite B; reflexivity|].
  rewrite EB in FL. destruct FL as [B' EV]. cbn [app map] in EV.
  exists s', (encode sc (filled sc now s m)). subst evs. repeat split; try assumption; try apply FR.
  constructor; [apply num_out_wire; assumption|constructor].
Qed.

Lemma plain_op_step : forall w o oper,
  Inv w o -> plain_op oper = true ->
  exists o', c16_step o oper (mkStep (snd (run_op sc w oper)) (snd (snapshot (fst (run_op sc w oper))))) = Some o' /\
             Inv (fst (snapshot (fst (run_op sc w oper)))) o'.
Proof.
  intros w o oper I P. pose proof I as (s & E & C & B & W & X & K).
  destruct oper; try discriminate; cbn [plain_op] in P.
  - (* SEND *)
    cbn [run_op]. rewrite E.
    destruct (ms_ok m) eqn:OK; cbn [negb].
    2:{ cbn [fst snd]. apply quiet_step; try assumption; try reflexivity. }
    destruct (build_msg sc m) as [msg|] eqn:BM.
    2:{ cbn [fst snd]. apply quiet_step; try assumption; try reflexivity. }
    destruct (build_plain m msg P BM) as [Pm EB].
    destruct (plain_spec_fields m P) as (Hc & Hn & _).
    unfold send. rewrite Hc, Hn. cbn [N.eqb].
    destruct (single_wire (w_now w) s msg Pm EB C W B) as (s' & wr & ES & FR & B' & NU & NS & CT).
    rewrite ES. cbn [fst snd].
    change ([EOut wr] ++ [ERet 1%Z])%list with (map EOut [wr] ++ [ERet 1%Z])%list.
    apply (send_step w o (OSend m) s s' [wr] 1%Z); try assumption; try reflexivity; try discriminate.
  - (* BATCH *)
    cbn [run_op]. rewrite E.
    destruct (specs_ok l) eqn:OK; cbn [negb].
    2:{ cbn [fst snd]. apply quiet_step; try assumption; try reflexivity. }
    destruct (build_all sc l) as [ms|] eqn:BA.
    2:{ cbn [fst snd]. apply quiet_step; try assumption; try reflexivity. }
    destruct (build_all_plain l ms P BA) as [FP _].
    destruct ms as [|m1 [|m2 ms']].
    + cbn [send_batch fst snd app].
      assert (WW : with_sess w s = w) by (destruct w; cbn in *; subst; reflexivity).
      rewrite WW. apply quiet_step; try assumption; try reflexivity.
    + cbn [send_batch]. inversion FP as [|? ? Pm _]; subst.
      assert (EB : m_eob m1 = true).
      { (* the single message of a batch of one keeps the default end_of_batch *)
        destruct l as [|sp l']; cbn [build_all] in BA; [discriminate|].
        destruct (build_msg sc sp) as [m0|] eqn:B0; [|discriminate].
        destruct (build_all sc l'); [|discriminate]. inversion BA; subst.
        cbn [forallb] in P. apply andb_true_iff in P. destruct P as [P1 _].
        destruct (build_plain sp m0 P1 B0) as [_ EB0]. exact EB0. }
      destruct (single_wire (w_now w) s m1 Pm EB C W B) as (s' & wr & ES & FR & B' & NU & NS & CT).
      rewrite ES. cbn [fst snd].
      change ([EOut wr] ++ [ERet (Z.of_N 1)])%list with (map EOut [wr] ++ [ERet (Z.of_N 1)])%list.
      apply (send_step w o (OBatch l) s s' [wr] (Z.of_N 1)); try assumption; try reflexivity; try discriminate.
    + cbn [send_batch].
      destruct (batch_loop_plain (w_now w) [] (m1 :: m2 :: ms') s [] (s_next_send s) 0 []) as (s' & ws & EL & FR & B' & NU & NS & CT & LW);
        try assumption; try discriminate; try (rewrite B; reflexivity); try constructor; try (cbn; lia).
      rewrite EL. cbn [fst snd app].
      apply (send_step w o (OBatch l) s s' ws (Z.of_N (0 + N.of_nat (length (m1 :: m2 :: ms'))))); try assumption; try reflexivity.
      intro Z. subst ws. cbn [length] in LW. lia.
  - (* CLOCK *)
    cbn [run_op fst snd].
    assert (I' : Inv (with_now w t) o) by (exists s; repeat split; assumption).
    apply (quiet_step (with_now w t) o (OClock t) []); try assumption; reflexivity.
Qed.

Lemma steps_plain : forall ops w o,
  Inv w o -> forallb plain_op ops = true -> c16_steps o ops (run_ops sc w ops) = true.
Proof.
  induction ops as [|oper ops IH]; intros w o I P; [reflexivity|].
  cbn [forallb] in P. apply andb_true_iff in P. destruct P as [P1 P2].
  destruct (plain_op_step w o oper I P1) as (o' & ST & I').
  cbn [run_ops]. destruct (run_op sc w oper) as [w1 evs] eqn:R. cbn [fst snd] in *.
  destruct (snapshot w1) as [w2 sn] eqn:S. cbn [fst snd] in *.
  cbn [c16_steps]. rewrite ST. apply IH; assumption.
Qed.

Lemma p_empty_ctrl : forall k, p_get_ctrl (p_empty k) = None.
Proof. destruct k; reflexivity. Qed.

Lemma run_start : forall p t,
  run_op sc world0 (OStart p t) =
  (let now := match t with Some t' => t' | None => T0 end in
   let '(r, s, evs) := start sc now p (new_session p (p_empty (sp_pk p))) in
   (mkWorld (Some s) now p (p_empty PFile) [], (evs ++ [ERet r])%list)).
Proof.
  intros p t. destruct t as [t'|]; cbn [run_op]; unfold do_start, with_now, world0;
    cbn [w_sess w_now w_sp w_disk w_snap]; destruct (sp_pk p); reflexivity.
Qed.

Lemma start_step : forall p t,
  wf_start p = true ->
  exists o', c16_step ost0 (OStart p t) (mkStep (snd (run_op sc world0 (OStart p t)))
                                               (snd (snapshot (fst (run_op sc world0 (OStart p t)))))) = Some o' /\
             Inv (fst (snapshot (fst (run_op sc world0 (OStart p t))))) o'.
Proof.
  intros p t WP. unfold wf_start in WP. apply andb_true_iff in WP. destruct WP as [Ws Wt].
  rewrite run_start. set (now := match t with Some t' => t' | None => T0 end).
  unfold start. destruct (sp_role p) eqn:RO.
  - (* initiator: the Logon is a plain message numbered with the start number *)
    set (s2 := if pr_rsn (sp_par p) then _ else _).
    destruct (logon_plain (s_hb s2) (pr_rsn (sp_par p))) as [PL EB].
    assert (F2 : s_closed s2 = false /\ s_batch s2 = [] /\ s_snd s2 = sp_snd p /\ s_tgt s2 = sp_tgt p /\
                 p_kind (s_per s2) = sp_pk p /\ s_next_send s2 = start_number p None).
    { subst s2. unfold new_session, start_number. rewrite RO.
      destruct (pr_rsn (sp_par p)).
      - cbn. repeat split.
      - unfold recover_seqnums. cbn [s_per atomic_init w_down w_state w_next_send w_next_recv new_session].
        rewrite p_empty_ctrl.
        destruct (sp_ss p =? 0) eqn:SS; destruct (sp_rs p =? 0); cbn; repeat split;
          try (destruct (sp_pk p); reflexivity). }
    destruct F2 as (C2 & B2 & S2 & T2 & K2 & N2).
    assert (W2 : wf_sess s2 = true) by (unfold wf_sess; rewrite S2, T2, Ws, Wt; reflexivity).
    unfold send. cbn [N.eqb].
    destruct (single_wire now s2 _ PL EB C2 W2 B2) as (s3 & wr & ES & FR & B3 & NU & NS & CT).
    rewrite ES. cbn [fst snd].
    assert (E' : w_sess (mkWorld (Some (w_state st_logon_sent s3)) now p (p_empty PFile) []) = Some (w_state st_logon_sent s3)) by reflexivity.
    destruct (snapshot_snap _ _ E') as [d SN].
    unfold c16_step. cbn [st_events st_snap]. rewrite <- N2.
    change ([EOut wr] ++ [ERet 0%Z])%list with (map EOut [wr] ++ [ERet 0%Z])%list.
    rewrite (num_events_numbered [] [wr] _ [ERet 0%Z] NU). cbn [num_events length].
    destruct FR as (F1 & F2 & F3 & F4 & F5).
    assert (CC : ctrl_clause p (OStart p t) (mkStep (map EOut [wr] ++ [ERet 0%Z])
                   (snd (snapshot (mkWorld (Some (w_state st_logon_sent s3)) now p (p_empty PFile) [])))) = true).
    { unfold ctrl_clause. cbn [st_events st_snap]. rewrite SN. rewrite <- K2.
      destruct (p_kind (s_per s2)) eqn:KK; try reflexivity.
      cbn [map app has_out existsb orb sn_ctrl sn_send sn_recv]. cbn [w_state s_per s_next_send s_next_recv].
      rewrite F4. rewrite (CT eq_refl). rewrite !N.eqb_refl. reflexivity. }
    rewrite CC. eexists. split; [reflexivity|].
    apply Inv_snapshot. exists (w_state st_logon_sent s3).
    repeat split; cbn [w_sess w_state s_closed s_batch s_next_send s_per o_expect o_sp]; try congruence.
    + unfold wf_sess. cbn [w_state s_snd s_tgt]. rewrite F2, F3. exact W2.
    + rewrite NS. cbn. lia.
  - (* acceptor: nothing is sent at start *)
    cbn [fst snd app].
    set (sa := mkSess _ _ _ _ _ _ _ _ _ _ _ _ _ _ _ _ _ _ _).
    assert (E' : w_sess (mkWorld (Some sa) now p (p_empty PFile) []) = Some sa) by reflexivity.
    destruct (snapshot_snap _ _ E') as [d SN].
    unfold c16_step. cbn [st_events st_snap num_events]. unfold start_number. rewrite RO.
    assert (CC : ctrl_clause p (OStart p t) (mkStep [ERet 0%Z] (snd (snapshot (mkWorld (Some sa) now p (p_empty PFile) [])))) = true).
    { unfold ctrl_clause. cbn [st_events st_snap]. rewrite SN. destruct (sp_pk p); reflexivity. }
    rewrite CC. eexists. split; [reflexivity|].
    apply Inv_snapshot. exists sa. subst sa. unfold new_session. rewrite RO. cbn.
    repeat split.
Qed.

Theorem c16_plain_history_lemma : forall p t ops,
  wf_start p = true -> forallb plain_op ops = true ->
  c16_ok (OStart p t :: ops) (run_history sc (OStart p t :: ops)) = true.
Proof.
  intros p t ops WP P. destruct (start_step p t WP) as (o' & ST & I).
  unfold c16_ok, run_history. cbn [run_ops].
  destruct (run_op sc world0 (OStart p t)) as [w1 evs] eqn:R. cbn [fst snd] in *.
  destruct (snapshot w1) as [w2 sn] eqn:S. cbn [fst snd] in *.
  cbn [c16_steps]. rewrite ST. apply steps_plain; assumption.
Qed.

End Proofs.

(* ==================================================================================================== *)
(* what acceptance by the numbering automaton means: the numbers of the new messages are the canonical
   decimals of a strictly increasing sequence inside [e, e'), hence pairwise different                  *)
(* ==================================================================================================== *)
Definition new_seq (raw : bytes) : option bytes :=
  let t := tokens raw in
  if is_possdup t then None else if is_gapfill t then None else tok_get (tagb T_MsgSeqNum) t.

Fixpoint new_seqs (evs : list event) : list bytes :=
  match evs with
  | [] => []
  | EOut raw :: evs' => match new_seq raw with Some v => v :: new_seqs evs' | None => new_seqs evs' end
  | _ :: evs' => new_seqs evs'
  end.

Inductive increasing : N -> list N -> N -> Prop :=
| inc_nil : forall e e', e <= e' -> increasing e [] e'
| inc_cons : forall e n ns e', e <= n -> increasing (n + 1) ns e' -> increasing e (n :: ns) e'.

Lemma increasing_weaken : forall e0 e ns e', e0 <= e -> increasing e ns e' -> increasing e0 ns e'.
Proof. intros e0 e ns e' L H. inversion H; subst; constructor; try lia; assumption. Qed.

Lemma increasing_bounds : forall e ns e', increasing e ns e' -> e <= e' /\ Forall (fun n => e <= n < e') ns.
Proof.
  induction 1 as [e e' L|e n ns e' L H [IH1 IH2]].
  - split; [exact L|constructor].
  - split; [lia|]. constructor; [lia|]. eapply Forall_impl; [|exact IH2]. cbn. intros; lia.
Qed.

Lemma increasing_nodup : forall e ns e', increasing e ns e' -> NoDup ns.
Proof.
  induction 1 as [|e n ns e' L H IH]; constructor; [|exact IH].
  intro I. destruct (increasing_bounds _ _ _ H) as [_ F]. rewrite Forall_forall in F. specialize (F n I). lia.
Qed.

Lemma num_events_increasing : forall evs e e',
  num_events [] e evs = Some e' -> exists ns, new_seqs evs = map dec ns /\ increasing e ns e'.
Proof.
  induction evs as [|ev evs IH]; intros e e' H; cbn [num_events] in H.
  - inversion H; subst. exists []. split; [reflexivity|constructor; lia].
  - destruct ev; try (cbn [new_seqs]; apply IH; exact H).
    + destruct (num_out [] e b) as [e1|] eqn:NO; [|discriminate].
      destruct (IH e1 e' H) as (ns & EQ & INC).
      cbn [new_seqs]. unfold new_seq. unfold num_out in NO.
      destruct (is_possdup (tokens b)).
      * inversion NO; subst. exists ns. split; assumption.
      * destruct (is_gapfill (tokens b)).
        -- inversion NO; subst. exists ns. split; [assumption|].
           eapply increasing_weaken; [|exact INC]. destruct (newseq_of (tokens b)); lia.
        -- destruct (tok_get (tagb T_MsgSeqNum) (tokens b)) as [v|]; [|discriminate].
           destruct (beq v (dec e)) eqn:BV; [|cbn in NO; discriminate].
           inversion NO; subst. apply beq_eq in BV. subst v.
           exists (e :: ns). split; [cbn [map]; rewrite EQ; reflexivity|constructor; [lia|exact INC]].
    + discriminate.
Qed.

Theorem c16_unique_lemma : forall evs e e',
  num_events [] e evs = Some e' -> NoDup (new_seqs evs).
Proof.
  intros evs e e' H. destruct (num_events_increasing evs e e' H) as (ns & EQ & INC).
  rewrite EQ. pose proof (increasing_nodup _ _ _ INC) as ND. clear - ND.
  induction ns as [|n ns IH]; cbn [map]; [constructor|].
  inversion ND; subst. constructor; [|apply IH; assumption].
  intro I. apply in_map_iff in I. destruct I as (x & E & I). apply dec_inj in E. subst. contradiction.
Qed.

(* ==================================================================================================== *)
(* inbound: whenever Session::process leaves through its normal path the control record is current     *)
(* ==================================================================================================== *)
Theorem c16_process_control_lemma : forall sc decode now seqnum m s b s1 e1,
  process_body sc decode now seqnum m s = (inl b, s1, e1) ->
  p_kind (s_per s1) = PFile ->
  p_get_ctrl (s_per s1) = Some (s_next_send s1, s_next_recv s1).
Proof.
  intros sc decode now seqnum m s b s1 e1 H K.
  unfold process_body, bind, modify, ret in H.
  destruct (dispatch sc decode now seqnum m s) as [[[rr|ex] sa] ea]; [|discriminate].
  set (sb := w_next_recv (s_next_recv sa + 1) sa) in *.
  assert (U : p_kind (s_per (update_persist_seqnums sb)) = PFile ->
              p_get_ctrl (s_per (update_persist_seqnums sb)) =
              Some (s_next_send (update_persist_seqnums sb), s_next_recv (update_persist_seqnums sb))).
  { unfold update_persist_seqnums. destruct (p_attached (s_per sb)) eqn:A.
    - cbn [w_per s_per s_next_send s_next_recv]. rewrite p_put_ctrl_kind. intro KK.
      unfold p_get_ctrl. rewrite p_put_ctrl_kind, KK. unfold p_put_ctrl. rewrite KK. reflexivity.
    - intro KK. unfold p_attached in A. rewrite KK in A. discriminate. }
  destruct (snd rr); cbn in H; inversion H; subst; clear H.
  - unfold stop in *. destruct (s_shutdown (update_persist_seqnums sb)); [apply U; exact K|].
    cbn [w_down s_per s_next_send s_next_recv] in *. apply U. exact K.
  - apply U. exact K.
Qed.

Lemma update_persist_current : forall s, p_kind (s_per (update_persist_seqnums s)) = PFile ->
  p_get_ctrl (s_per (update_persist_seqnums s)) =
  Some (s_next_send (update_persist_seqnums s), s_next_recv (update_persist_seqnums s)).
Proof.
  intros s. unfold update_persist_seqnums. destruct (p_attached (s_per s)) eqn:A.
  - cbn [w_per s_per s_next_send s_next_recv]. rewrite p_put_ctrl_kind. intro KK.
    unfold p_get_ctrl. rewrite p_put_ctrl_kind, KK. unfold p_put_ctrl. rewrite KK. reflexivity.
  - intro KK. unfold p_attached in A. rewrite KK in A. discriminate.
Qed.

(* the Reject path (an f8Exception without force_logoff, thrown by the decoder or by a handler): since /repo
   beb4ce7 it ends with update_persist_seqnums as well *)
Lemma c16_reject_control_lemma : forall sc now seqnum mt text s1 e1,
  let r := process_catch sc now seqnum mt (inr (Exc text false), s1, e1) in
  p_kind (s_per (snd (fst r))) = PFile ->
  p_get_ctrl (s_per (snd (fst r))) = Some (s_next_send (snd (fst r)), s_next_recv (snd (fst r))).
Proof.
  intros sc now seqnum mt text s1 e1. unfold process_catch.
  destruct (handle_outbound_reject sc now seqnum mt text s1) as [[b s2] e2]. cbn [fst snd].
  apply update_persist_current.
Qed.

(* every way out of Session::process but the force_logoff one *)
Lemma c16_inbound_control_lemma : forall sc decode now seqnum mt m s,
  let r := process_body sc decode now seqnum m s in
  (match fst (fst r) with inr (Exc _ true) => False | _ => True end) ->
  let r' := process_catch sc now seqnum mt r in
  p_kind (s_per (snd (fst r'))) = PFile ->
  p_get_ctrl (s_per (snd (fst r'))) = Some (s_next_send (snd (fst r')), s_next_recv (snd (fst r'))).
Proof.
  intros sc decode now seqnum mt m s r NF.
  destruct r as [[[b|[text force]] s1] e1] eqn:R; cbn [fst snd] in NF.
  - cbn [process_catch fst snd]. intro K. eapply c16_process_control_lemma; [exact R|exact K].
  - destruct force; [contradiction|]. apply c16_reject_control_lemma.
Qed.

(* ==================================================================================================== *)
(* witnesses on the concrete demo schema (vm_compute on the faithful model)                              *)
(* ==================================================================================================== *)
From F8 Require Import Sess.Demo.

Definition last_snap (tr : trace) : option snap :=
  match rev tr with st :: _ => st_snap st | [] => None end.

Definition all_new_seqs_of (tr : trace) : list bytes := new_seqs (concat (map st_events tr)).

Definition ctrl_and_seq (tr : trace) : option (option (N * N) * N * N) :=
  match last_snap tr with Some sn => Some (sn_ctrl sn, sn_send sn, sn_recv sn) | None => None end.

(* a session right after Session::start (initiator, file persister): the Logon went out as 1 *)
Definition st0 : sess :=
  snd (fst (start demo_schema T0 (demo_init PFile) (new_session (demo_init PFile) (p_empty PFile)))).

Definition m_order : msg := mkMsg [68] [] [mkF 1 11 [65]; mkF 2 55 [66]] 0 false true.
Definition m_custom7 : msg := set_custom 7 m_order.
Definition m_noinc1 : msg := set_noinc true m_order.
Definition m_seqreset : msg := mkMsg [52] [] [mkF 1 123 [89]; mkF 2 36 [57]] 0 false true.

Definition ctrl_vs_seq (r : bool * sess * list event) : option (N * N) * N * N :=
  let s := snd (fst r) in (p_get_ctrl (s_per s), s_next_send s, s_next_recv s).

(* F20 (repaired in /repo by f813a59): the ORIGINAL send_process wrote (next_send + 1, next_recv) even
   when it then did not increment: control (3, 1) against the session's (2, 1) after a send with a
   custom sequence number, with no_increment, or of a SequenceReset; the code as it is now writes (2, 1). *)
Lemma c16_control_orig_refuted_lemma :
  ctrl_vs_seq (send_process_orig demo_schema T0 st0 m_custom7) = (Some (3, 1), 2, 1) /\
  ctrl_vs_seq (send_process_orig demo_schema T0 st0 m_noinc1) = (Some (3, 1), 2, 1) /\
  ctrl_vs_seq (send_process_orig demo_schema T0 st0 m_seqreset) = (Some (3, 1), 2, 1) /\
  ctrl_vs_seq (send_process demo_schema T0 st0 m_custom7) = (Some (2, 1), 2, 1) /\
  ctrl_vs_seq (send_process demo_schema T0 st0 m_noinc1) = (Some (2, 1), 2, 1) /\
  ctrl_vs_seq (send_process demo_schema T0 st0 m_seqreset) = (Some (2, 1), 2, 1).
Proof. vm_compute. repeat split. Qed.

(* what remains true by design of the API: a NEW message sent with a custom sequence number carries that
   number (7 after 1), so the numbering clause fails although the control record (2, 1) is right *)
Definition h_custom : list op := [OStart (demo_init PFile) None; OSend (mkSpec [68] [] [(11, [65]); (55, [66])] 7 false true)].

Lemma c16_custom_refuted_lemma :
  all_new_seqs_of (run_history demo_schema h_custom) = map dec [1; 7] /\
  ctrl_and_seq (run_history demo_schema h_custom) = Some (Some (2, 1), 2, 1) /\
  c16_ok h_custom (run_history demo_schema h_custom) = false.
Proof. vm_compute. repeat split. Qed.

(* the session's own Logout (sent with no_increment by the heartbeat supervisor): since the repair the
   control record is (4, 2) = the session's numbers and the whole oracle accepts the history *)
Definition h_supervisor : list op :=
  [OStart (demo_init PFile) None; OIn [demo_logon_in 1];
   OTick (T0 + 40 * NS)%Z; OTick (T0 + 41 * NS)%Z].

Lemma c16_logout_ok_lemma :
  ctrl_and_seq (run_history demo_schema h_supervisor) = Some (Some (4, 2), 4, 2) /\
  c16_ok h_supervisor (run_history demo_schema h_supervisor) = true.
Proof. vm_compute. split; reflexivity. Qed.

(* the Reject path of Session::process: BEFORE /repo beb4ce7 it incremented next_recv without updating the control
   record -- control (3, 1) against the session's (3, 2) after the Reject went out as 2; now (3, 2) *)
Definition txt_x : bytes := [120].
Lemma c16_reject_orig_refuted_lemma :
  ctrl_vs_seq (process_catch_orig demo_schema T0 2 None (inr (Exc txt_x false), st0, [])) = (Some (3, 1), 3, 2) /\
  ctrl_vs_seq (process_catch demo_schema T0 2 None (inr (Exc txt_x false), st0, [])) = (Some (3, 2), 3, 2).
Proof. vm_compute. split; reflexivity. Qed.

(* an inbound message with a missing mandatory field is answered with a Reject; the history satisfies the oracle *)
Definition h_reject : list op :=
  [OStart (demo_init PFile) None; OIn [demo_logon_in 1];
   OIn [demo_inbound [68] 2 [mkF 1 11 [65]]]].          (* Symbol (55) is mandatory and missing *)

Lemma c16_reject_ok_lemma :
  ctrl_and_seq (run_history demo_schema h_reject) = Some (Some (3, 3), 3, 3) /\
  c16_ok h_reject (run_history demo_schema h_reject) = true.
Proof. vm_compute. split; reflexivity. Qed.

(* non-vacuity: a plain history with singles, a batch of three and an admin send meets the hypotheses,
   puts seven messages numbered 1..7 on the wire and ends with control = (8, 1) *)
Definition h_plain : list op :=
  [OSend (demo_order [65]); OBatch [demo_order [66]; demo_order [67]; demo_admin [48]];
   OSend (demo_admin [49]); OClock (T0 + 5)%Z; OSend (demo_order [68])].

Definition all_new_seqs (tr : trace) : list bytes := all_new_seqs_of tr.

Lemma c16_nonvacuous_lemma :
  wf_schema demo_schema = true /\ wf_start (demo_init PFile) = true /\ forallb plain_op h_plain = true /\
  all_new_seqs (run_history demo_schema (OStart (demo_init PFile) None :: h_plain)) = map dec [1; 2; 3; 4; 5; 6; 7] /\
  ctrl_and_seq (run_history demo_schema (OStart (demo_init PFile) None :: h_plain)) = Some (Some (8, 1), 8, 1).
Proof. vm_compute. repeat split. Qed.

Lemma c16_consecutive_lemma : forall (sc : schema) (p : startp) (t : option Z) (ops : list op),
  wf_schema sc = true -> wf_start p = true -> forallb plain_op ops = true ->
  c16_ok (OStart p t :: ops) (run_history sc (OStart p t :: ops)) = true.
Proof. intros sc p t ops WS WP P. exact (c16_plain_history_lemma sc WS p t ops WP P). Qed.
