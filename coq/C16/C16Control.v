(* C16: the control clause at full strength for send-side histories: START followed by SEND / BATCH of
   ANY messages (custom sequence number, no_increment, SequenceReset included; only MsgSeqNum and
   PossDupFlag must not be preset in the header: that is a retransmission, which does not persist),
   TICK (heartbeat supervisor incl. its own no_increment Logout), CLOCK and STOP: after every
   operation that put something on the wire the control record is (next_send, next_recv). *)
From Coq Require Import NArith ZArith List Bool Lia.
From F8 Require Import Sess.Bytes Sess.Msg Sess.Persist Sess.Session Sess.SimpleCodec Sess.Wire
  Sess.SessLemmas Sess.SendLemmas C16.Spec_C16 C16.C16Proofs.
Import ListNotations.
Local Open Scope N_scope.

Lemma c16_ok_ctrl : forall ops tr, c16_ok ops tr = true -> c16_ctrl_ok ops tr = true.
Proof.
  unfold c16_ok, c16_ctrl_ok.
  assert (G : forall ops tr o, c16_steps o ops tr = true -> c16_ctrl_steps (o_sp o) ops tr = true).
  { induction ops as [|oper ops IH]; intros tr o H; destruct tr as [|st tr]; cbn [c16_steps c16_ctrl_steps] in *; try discriminate; [reflexivity|].
    destruct (c16_step o oper st) as [o'|] eqn:ST; [|discriminate].
    assert (F : ctrl_clause (match oper with OStart p _ => p | _ => o_sp o end) oper st = true /\
                o_sp o' = match oper with OStart p _ => p | _ => o_sp o end).
    { unfold c16_step in ST.
      destruct oper; cbn zeta beta iota in ST;
        match type of ST with match ?X with _ => _ end = _ => destruct X; [|discriminate] end;
        match type of ST with (if ?C then _ else _) = _ => destruct C eqn:CC; [|discriminate] end;
        inversion ST; subst; split; try reflexivity; exact CC. }
    destruct F as [F1 F2]. rewrite F1. cbn [andb]. rewrite <- F2. apply IH. exact H. }
  intros ops tr H. apply (G ops tr ost0 H).
Qed.

Section Control.
Variable sc : schema.

(* the control record of a file persister is absent or current / is current *)
Definition weak (s : sess) : Prop :=
  p_kind (s_per s) = PFile -> p_get_ctrl (s_per s) = None \/ p_get_ctrl (s_per s) = Some (s_next_send s, s_next_recv s).
Definition strong (s : sess) : Prop :=
  p_kind (s_per s) = PFile -> p_get_ctrl (s_per s) = Some (s_next_send s, s_next_recv s).

Lemma strong_weak : forall s, strong s -> weak s.
Proof. intros s H K. right. apply H. exact K. Qed.

Definition fresh_hdr (m : msg) : bool :=
  negb (has_field T_MsgSeqNum (m_hdr m)) && negb (has_field T_PossDupFlag (m_hdr m)).

Lemma file_ctrl_put : forall p a b, p_kind p = PFile -> p_get_ctrl (p_put_ctrl p a b) = Some (a, b).
Proof. intros p a b K. unfold p_get_ctrl. rewrite p_put_ctrl_kind, K. unfold p_put_ctrl. rewrite K. reflexivity. Qed.

(* one send_process call, any message whose header is fresh *)
Lemma send_ctrl : forall now s m,
  fresh_hdr m = true ->
  let r := send_process sc now s m in
  p_kind (s_per (snd (fst r))) = p_kind (s_per s) /\
  (weak s -> weak (snd (fst r))) /\ (strong s -> strong (snd (fst r))) /\
  (fst (fst r) = true -> strong (snd (fst r))) /\
  (has_out (snd r) = true -> fst (fst r) = true).
Proof.
  intros now s m F. unfold fresh_hdr in F. apply andb_true_iff in F. destruct F as [H34 H43].
  apply negb_true_iff in H34. apply negb_true_iff in H43.
  unfold send_process. rewrite H43.
  set (m1 := if has_field T_SenderCompID (m_hdr m) then m else add_hdr' sc T_SenderCompID (s_snd s) m).
  set (m2 := if has_field T_TargetCompID (m_hdr m1) then m1 else add_hdr' sc T_TargetCompID (s_tgt s) m1).
  assert (E1 : has_field T_MsgSeqNum (m_hdr m1) = false).
  { subst m1. destruct (has_field T_SenderCompID (m_hdr m)); [exact H34|].
    rewrite has_after_add_other by discriminate. exact H34. }
  assert (E2 : has_field T_MsgSeqNum (m_hdr m2) = false).
  { subst m2. destruct (has_field T_TargetCompID (m_hdr m1)); [exact E1|].
    rewrite has_after_add_other by discriminate. exact E1. }
  rewrite E2. cbn [orb andb].
  set (inc := (m_custom m =? 0) && negb (m_noinc m) && negb (beq (m_type m) mt_sequence_reset)).
  set (enc := encode sc _).
  (* the persister update as a function of the intermediate state *)
  assert (P : forall s1 : sess, p_kind (s_per s1) = p_kind (s_per s) ->
     let per1 := if p_attached (s_per s1)
                 then p_put_ctrl (if is_admin sc (m_type m) then s_per s1 else p_put (s_per s1) (s_next_send s1) enc)
                                 (if inc then s_next_send s1 + 1 else s_next_send s1) (s_next_recv s1)
                 else s_per s1 in
     let s3 := if inc then w_next_send (s_next_send (w_per per1 s1) + 1) (w_per per1 s1) else w_per per1 s1 in
     p_kind (s_per s3) = p_kind (s_per s) /\ strong s3).
  { intros s1 K1 per1 s3.
    assert (KP : p_kind per1 = p_kind (s_per s1)).
    { subst per1. destruct (p_attached (s_per s1)); [|reflexivity]. rewrite p_put_ctrl_kind.
      destruct (is_admin sc (m_type m)); [reflexivity|apply p_put_kind]. }
    assert (S3 : s_per s3 = per1 /\ s_next_recv s3 = s_next_recv s1 /\
                 s_next_send s3 = (if inc then s_next_send s1 + 1 else s_next_send s1)).
    { subst s3. destruct inc; cbn; repeat split. }
    destruct S3 as (A & B & C). split; [rewrite A, KP; exact K1|].
    intro KF. rewrite A in *. rewrite KP in KF. subst per1. unfold p_attached. rewrite KF.
    rewrite file_ctrl_put.
    - rewrite B, C. destruct inc; reflexivity.
    - destruct (is_admin sc (m_type m)); [exact KF|rewrite p_put_kind; exact KF]. }
  destruct (m_eob m).
  - destruct (s_batch s) as [|b0 bt] eqn:BB; destruct (s_closed s) eqn:CL; cbn [negb andb fst snd].
    + repeat split; auto; intro Z; cbn in Z; discriminate Z.
    + destruct (P (w_batch [] (w_last_sent now s)) eq_refl) as [PK PS]. cbn zeta in PK, PS.
      split; [exact PK|]. split; [intros _; apply strong_weak; exact PS|]. split; [intros _; exact PS|]. split; [intros _; exact PS|]. intros _; reflexivity.
    + repeat split; auto; intro Z; cbn in Z; discriminate Z.
    + destruct (P (w_batch [] (w_last_sent now s)) eq_refl) as [PK PS]. cbn zeta in PK, PS.
      split; [exact PK|]. split; [intros _; apply strong_weak; exact PS|]. split; [intros _; exact PS|]. split; [intros _; exact PS|]. intros _; reflexivity.
  - cbn [negb andb fst snd].
    destruct (P (w_batch (s_batch s ++ enc)%list s) eq_refl) as [PK PS]. cbn zeta in PK, PS.
    split; [exact PK|]. split; [intros _; apply strong_weak; exact PS|]. split; [intros _; exact PS|]. split; [intros _; exact PS|]. intro Z; cbn in Z; discriminate Z.
Qed.

Lemma has_out_app : forall a b, has_out (a ++ b) = has_out a || has_out b.
Proof. intros. unfold has_out. apply existsb_app. Qed.

Lemma weak_eq : forall s s', s_per s' = s_per s -> s_next_send s' = s_next_send s -> s_next_recv s' = s_next_recv s ->
  (weak s -> weak s') /\ (strong s -> strong s').
Proof. intros s s' A B C. unfold weak, strong. rewrite A, B, C. tauto. Qed.

Lemma fresh_set : forall m c b, fresh_hdr (set_noinc b (set_custom c m)) = fresh_hdr m.
Proof. reflexivity. Qed.

(* Session::send *)
Lemma send_ctrl' : forall now s m custom noinc,
  fresh_hdr m = true ->
  let r := send sc now s m custom noinc in
  p_kind (s_per (snd (fst r))) = p_kind (s_per s) /\
  (weak s -> weak (snd (fst r))) /\ (strong s -> strong (snd (fst r))) /\
  (fst (fst r) = true -> strong (snd (fst r))) /\
  (has_out (snd r) = true -> fst (fst r) = true).
Proof.
  intros now s m custom noinc F. unfold send. apply send_ctrl.
  destruct (custom =? 0); destruct noinc; exact F.
Qed.

Lemma batch_loop_ctrl : forall now l s cnt evs0,
  Forall (fun m => fresh_hdr m = true) l ->
  exists new, snd (send_batch_loop sc now s l cnt evs0) = (evs0 ++ new)%list /\
    p_kind (s_per (snd (fst (send_batch_loop sc now s l cnt evs0)))) = p_kind (s_per s) /\
    (weak s -> weak (snd (fst (send_batch_loop sc now s l cnt evs0)))) /\
    (strong s -> strong (snd (fst (send_batch_loop sc now s l cnt evs0)))) /\
    (has_out new = true -> strong (snd (fst (send_batch_loop sc now s l cnt evs0)))).
Proof.
  induction l as [|m l IH]; intros s cnt evs0 F.
  - exists []. cbn [send_batch_loop fst snd]. rewrite app_nil_r. repeat split; auto. intro Z; cbn in Z; discriminate Z.
  - inversion F as [|? ? Fm F']; subst. cbn [send_batch_loop].
    pose proof (send_ctrl now s (set_eob (match l with [] => true | _ => false end) m) Fm) as SC. cbn zeta in SC.
    destruct (send_process sc now s (set_eob (match l with [] => true | _ => false end) m)) as [[ok s1] e1].
    cbn [fst snd] in SC. destruct SC as (K1 & W1 & S1 & O1 & H1).
    destruct (IH s1 (if ok then cnt + 1 else cnt) (evs0 ++ e1)%list F') as (new & EV & K2 & W2 & S2 & H2).
    exists (e1 ++ new)%list. rewrite EV. rewrite <- app_assoc. split; [reflexivity|].
    split; [congruence|]. split; [auto|]. split; [auto|].
    intro HO. rewrite has_out_app in HO. apply orb_true_iff in HO. destruct HO as [HO|HO].
    + apply S2. apply O1. apply H1. exact HO.
    + apply H2. exact HO.
Qed.

Lemma send_batch_ctrl : forall now l s,
  Forall (fun m => fresh_hdr m = true) l ->
  let r := send_batch sc now s l in
  p_kind (s_per (snd (fst r))) = p_kind (s_per s) /\
  (weak s -> weak (snd (fst r))) /\ (strong s -> strong (snd (fst r))) /\
  (has_out (snd r) = true -> strong (snd (fst r))).
Proof.
  intros now l s F. unfold send_batch. destruct l as [|m [|m' l']].
  - cbn. repeat split; auto. intro Z; discriminate Z.
  - inversion F as [|? ? Fm _]; subst. pose proof (send_ctrl now s m Fm) as SC. cbn zeta in SC.
    destruct (send_process sc now s m) as [[ok s1] e1]. cbn [fst snd] in *.
    destruct SC as (K1 & W1 & S1 & O1 & H1). repeat split; auto.
  - destruct (batch_loop_ctrl now (m :: m' :: l') s 0 [] F) as (new & EV & K2 & W2 & S2 & H2).
    cbn [app] in EV. cbn zeta. rewrite EV. repeat split; auto.
Qed.

(* Session::heartbeat_service *)
Lemma kind_state : forall s st, p_kind (s_per (w_state st s)) = p_kind (s_per s).
Proof. reflexivity. Qed.
Lemma strong_state : forall s st, strong s -> strong (w_state st s).
Proof. intros s st H. exact H. Qed.
Lemma weak_state : forall s st, weak s -> weak (w_state st s).
Proof. intros s st H. exact H. Qed.
Lemma strong_stop : forall s, strong s -> strong (stop s).
Proof. intros s H. unfold stop. destruct (s_shutdown s); exact H. Qed.
Lemma weak_stop : forall s, weak s -> weak (stop s).
Proof. intros s H. unfold stop. destruct (s_shutdown s); exact H. Qed.
Lemma kind_stop : forall s, p_kind (s_per (stop s)) = p_kind (s_per s).
Proof. intros s. unfold stop. destruct (s_shutdown s); reflexivity. Qed.

Lemma fresh_heartbeat : forall id, fresh_hdr (generate_heartbeat sc id) = true.
Proof. intros id. unfold generate_heartbeat. destruct id; [reflexivity|]. unfold add_body'. destruct (add_body sc _ _ _) eqn:E; [|reflexivity].
  unfold add_body in E. destruct (find_def _ _); [|discriminate]. destruct (assoc _ _); [|discriminate]. inversion E. reflexivity. Qed.
Lemma fresh_add_body' : forall t v m, fresh_hdr (add_body' sc t v m) = fresh_hdr m.
Proof.
  intros t v m. unfold add_body'. destruct (add_body sc t v m) eqn:E; [|reflexivity].
  unfold add_body in E. destruct (find_def _ _); [|discriminate]. destruct (assoc _ _); [|discriminate]. inversion E. reflexivity.
Qed.
Lemma fresh_test_request : forall id, fresh_hdr (generate_test_request sc id) = true.
Proof. intros. unfold generate_test_request. rewrite fresh_add_body'. reflexivity. Qed.
Lemma fresh_logout : forall t, fresh_hdr (generate_logout sc t) = true.
Proof. intros t. unfold generate_logout. destruct t; [rewrite fresh_add_body'|]; reflexivity. Qed.
Lemma fresh_logon : forall hb rsn, fresh_hdr (generate_logon sc hb rsn) = true.
Proof. intros. unfold generate_logon. destruct rsn; rewrite !fresh_add_body'; reflexivity. Qed.

Lemma heartbeat_ctrl : forall now s,
  let r := heartbeat_service sc now s in
  p_kind (s_per (snd (fst r))) = p_kind (s_per s) /\
  (weak s -> weak (snd (fst r))) /\ (strong s -> strong (snd (fst r))) /\
  (has_out (snd r) = true -> strong (snd (fst r))).
Proof.
  intros now s. unfold heartbeat_service.
  destruct (is_shutdown s); [cbn; repeat split; auto; intro Z; discriminate Z|].
  (* first send: the heartbeat, if due *)
  assert (A : exists s1 e1,
    (if (Z.of_N (s_hb s) <=? secs_between now (s_last_sent s))%Z
     then let '(_, sa, ea) := send sc now s (generate_heartbeat sc []) 0 false in (sa, ea) else (s, [])) = (s1, e1) /\
    p_kind (s_per s1) = p_kind (s_per s) /\ (weak s -> weak s1) /\ (strong s -> strong s1) /\ (has_out e1 = true -> strong s1)).
  { destruct (Z.of_N (s_hb s) <=? secs_between now (s_last_sent s))%Z.
    - pose proof (send_ctrl' now s (generate_heartbeat sc []) 0 false (fresh_heartbeat [])) as SC. cbn zeta in SC.
      destruct (send sc now s (generate_heartbeat sc []) 0 false) as [[ok sa] ea]. cbn [fst snd] in SC.
      destruct SC as (K & W & S & O & H). exists sa, ea. repeat split; auto.
    - exists s, []. repeat split; auto. intro Z; discriminate Z. }
  destruct A as (s1 & e1 & EQ & K1 & W1 & S1 & H1). rewrite EQ.
  destruct (Z.of_N (s_hb s1 + s_hb s1 / 5) <? secs_between now (s_last_recv s1))%Z; [|cbn [fst snd]; repeat split; auto].
  destruct (s_state s1 =? st_test_request_sent).
  - pose proof (send_ctrl' now s1 (generate_logout sc (if pr_sd (s_par s1) then None else Some txt_ignored)) 0 true (fresh_logout _)) as SC.
    cbn zeta in SC. destruct (send sc now s1 _ 0 true) as [[ok s2] e2]. cbn [fst snd] in *.
    destruct SC as (K & W & S & O & H).
    split; [rewrite kind_state, kind_stop, kind_state; congruence|].
    split; [intro X; apply weak_state, weak_stop, weak_state; auto|].
    split; [intro X; apply strong_state, strong_stop, strong_state; auto|].
    intro HO. rewrite has_out_app in HO. apply orb_true_iff in HO. apply strong_state, strong_stop, strong_state.
    destruct HO as [HO|HO]; [apply S; apply H1; exact HO|apply O; apply H; exact HO].
  - destruct (negb (s_state s1 =? st_session_terminated)); [|cbn [fst snd]; repeat split; auto].
    pose proof (send_ctrl' now s1 (generate_test_request sc txt_test) 0 false (fresh_test_request _)) as SC.
    cbn zeta in SC. destruct (send sc now s1 _ 0 false) as [[ok s2] e2]. cbn [fst snd] in *.
    destruct SC as (K & W & S & O & H).
    split; [rewrite kind_state; congruence|]. split; [intro X; apply weak_state; auto|]. split; [intro X; apply strong_state; auto|].
    intro HO. rewrite has_out_app in HO. apply orb_true_iff in HO. apply strong_state.
    destruct HO as [HO|HO]; [apply S; apply H1; exact HO|apply O; apply H; exact HO].
Qed.

(* ---- histories ----------------------------------------------------------------------------------------------------------- *)
Definition fresh_tv (tv : N * bytes) : bool := negb (fst tv =? T_MsgSeqNum) && negb (fst tv =? T_PossDupFlag).
Definition fresh_spec (sp : msgspec) : bool := forallb fresh_tv (ms_hdr sp).

Definition ctl_op (o : op) : bool :=
  match o with
  | OSend sp => fresh_spec sp
  | OBatch l => forallb fresh_spec l
  | OTick _ | OClock _ | OStop => true
  | _ => false
  end.

Lemma add_fields_hdr_fresh : forall l m m', forallb fresh_tv l = true -> fresh_hdr m = true ->
  add_fields (add_hdr sc) l m = Some m' -> fresh_hdr m' = true.
Proof.
  induction l as [|[t v] l IH]; intros m m' P F E; cbn [add_fields] in E.
  - inversion E; subst. exact F.
  - cbn [forallb] in P. apply andb_true_iff in P. destruct P as [P1 P2].
    destruct (add_hdr sc t v m) as [m1|] eqn:A; [|discriminate].
    apply (IH m1 m' P2); [|exact E].
    unfold add_hdr in A. destruct (assoc t (sc_hdr sc)); [|discriminate]. inversion A; subst.
    unfold fresh_tv in P1. cbn [fst] in P1. apply andb_true_iff in P1. destruct P1 as [N1 N2].
    apply negb_true_iff in N1. apply negb_true_iff in N2. apply N.eqb_neq in N1. apply N.eqb_neq in N2.
    unfold fresh_hdr in *. cbn [m_hdr]. rewrite !has_add_other by congruence. exact F.
Qed.

Lemma add_fields_body_fresh : forall l m m', add_fields (add_body sc) l m = Some m' -> fresh_hdr m' = fresh_hdr m.
Proof.
  induction l as [|[t v] l IH]; intros m m' E; cbn [add_fields] in E.
  - inversion E; reflexivity.
  - destruct (add_body sc t v m) as [m1|] eqn:A; [|discriminate]. rewrite (IH m1 m' E).
    unfold add_body in A. destruct (find_def _ _); [|discriminate]. destruct (assoc _ _); [|discriminate]. inversion A. reflexivity.
Qed.

Lemma build_fresh : forall sp m, fresh_spec sp = true -> build_msg sc sp = Some m -> fresh_hdr m = true.
Proof.
  intros sp m P E. unfold build_msg in E. destruct (find_def _ _); [|discriminate].
  destruct (add_fields (add_hdr sc) (ms_hdr sp) (new_msg (ms_type sp))) as [m1|] eqn:E1; [|discriminate].
  rewrite (add_fields_body_fresh _ _ _ E). eapply add_fields_hdr_fresh; [exact P| |exact E1]. reflexivity.
Qed.

Lemma build_all_fresh : forall l ms, forallb fresh_spec l = true -> build_all sc l = Some ms ->
  Forall (fun m => fresh_hdr m = true) ms.
Proof.
  induction l as [|sp l IH]; intros ms P E; cbn [build_all] in E.
  - inversion E. constructor.
  - cbn [forallb] in P. apply andb_true_iff in P. destruct P as [P1 P2].
    destruct (build_msg sc sp) as [m|] eqn:B; [|discriminate].
    destruct (build_all sc l) as [ms'|]; [|discriminate]. inversion E; subst.
    constructor; [rewrite fresh_set; eapply build_fresh; eassumption|apply IH; [exact P2|reflexivity]].
Qed.

(* the world as far as the control clause is concerned *)
Definition CW (w : world) (sp : startp) : Prop :=
  match w_sess w with
  | None => True
  | Some s => p_kind (s_per s) = sp_pk sp /\ weak s
  end.

Lemma snapshot_sess' : forall w, w_sess (fst (snapshot w)) = w_sess w.
Proof.
  intros w. unfold snapshot. destruct (w_sess w) as [s|] eqn:E; [|cbn; exact E].
  destruct (p_kind (s_per s)); cbn; try exact E; reflexivity.
Qed.

(* the clause after an operation that left session s' behind and emitted evs *)
Lemma clause_after : forall w sp oper s' evs,
  w_sess w = Some s' -> p_kind (s_per s') = sp_pk sp -> weak s' ->
  (has_out evs = true -> strong s') ->
  (match oper with OIn _ => False | _ => True end) ->
  ctrl_clause sp oper (mkStep evs (snd (snapshot w))) = true /\ CW (fst (snapshot w)) sp.
Proof.
  intros w sp oper s' evs E K W HS NI. split.
  - unfold ctrl_clause. cbn [st_events st_snap].
    destruct (sp_pk sp) eqn:PK; try reflexivity.
    unfold snapshot. rewrite E. rewrite K. cbn [snd sn_ctrl sn_send sn_recv].
    assert (NIb : (match oper with OIn _ => has_ret evs | _ => false end) = false) by (destruct oper; try reflexivity; contradiction).
    rewrite NIb, orb_false_r. destruct (has_out evs) eqn:HO; [|reflexivity].
    rewrite (HS eq_refl K). rewrite !N.eqb_refl. reflexivity.
  - unfold CW. rewrite snapshot_sess', E. split; assumption.
Qed.

Lemma clause_nosession : forall w sp oper evs, w_sess w = None ->
  ctrl_clause sp oper (mkStep evs (snd (snapshot w))) = true /\ CW (fst (snapshot w)) sp.
Proof.
  intros w sp oper evs E. unfold ctrl_clause, CW. rewrite snapshot_sess'. unfold snapshot. rewrite E. cbn.
  split; [destruct (sp_pk sp); reflexivity|exact I].
Qed.

Lemma ctl_op_step : forall w sp oper,
  CW w sp -> ctl_op oper = true ->
  ctrl_clause sp oper (mkStep (snd (run_op sc w oper)) (snd (snapshot (fst (run_op sc w oper))))) = true /\
  CW (fst (snapshot (fst (run_op sc w oper)))) sp.
Proof.
  intros w sp oper C P. unfold CW in C.
  destruct oper; try discriminate; cbn [ctl_op] in P; cbn [run_op].
  - (* SEND *)
    destruct (w_sess w) as [s|] eqn:E; [|apply clause_nosession; exact E]. destruct C as [K W].
    destruct (negb (ms_ok m)); [cbn [fst snd]; apply (clause_after w sp _ s); auto; intro Z; discriminate Z|].
    destruct (build_msg sc m) as [msg|] eqn:BM; [|cbn [fst snd]; apply (clause_after w sp _ s); auto; intro Z; discriminate Z].
    pose proof (send_ctrl' (w_now w) s msg (ms_custom m) (ms_noinc m) (build_fresh m msg P BM)) as SC. cbn zeta in SC.
    destruct (send sc (w_now w) s msg (ms_custom m) (ms_noinc m)) as [[ok s1] e1]. cbn [fst snd] in *.
    destruct SC as (K1 & W1 & S1 & O1 & H1).
    apply (clause_after (with_sess w s1) sp _ s1); auto; try congruence.
    intro HO. rewrite has_out_app in HO. cbn in HO. rewrite orb_false_r in HO. apply O1, H1, HO.
  - (* BATCH *)
    destruct (w_sess w) as [s|] eqn:E; [|apply clause_nosession; exact E]. destruct C as [K W].
    destruct (negb (specs_ok l)); [cbn [fst snd]; apply (clause_after w sp _ s); auto; intro Z; discriminate Z|].
    destruct (build_all sc l) as [ms|] eqn:BA; [|cbn [fst snd]; apply (clause_after w sp _ s); auto; intro Z; discriminate Z].
    pose proof (send_batch_ctrl (w_now w) ms s (build_all_fresh l ms P BA)) as SC. cbn zeta in SC.
    destruct (send_batch sc (w_now w) s ms) as [[n s1] e1]. cbn [fst snd] in *.
    destruct SC as (K1 & W1 & S1 & H1).
    apply (clause_after (with_sess w s1) sp _ s1); auto; try congruence.
    intro HO. rewrite has_out_app in HO. cbn in HO. rewrite orb_false_r in HO. apply H1, HO.
  - (* TICK *)
    destruct (w_sess w) as [s|] eqn:E; [|apply clause_nosession; exact E]. destruct C as [K W].
    pose proof (heartbeat_ctrl t s) as SC. cbn zeta in SC.
    destruct (heartbeat_service sc t s) as [[r s1] e1]. cbn [fst snd] in *.
    destruct SC as (K1 & W1 & S1 & H1).
    apply (clause_after (with_sess (with_now w t) s1) sp _ s1); auto; try congruence.
    intro HO. rewrite has_out_app in HO. cbn in HO. rewrite orb_false_r in HO. apply H1, HO.
  - (* CLOCK *)
    cbn [fst snd]. destruct (w_sess w) as [s|] eqn:E.
    + destruct C as [K W]. apply (clause_after (with_now w t) sp _ s); auto. intro Z; discriminate Z.
    + apply clause_nosession. exact E.
  - (* STOP *)
    destruct (w_sess w) as [s|] eqn:E; [|apply clause_nosession; exact E]. destruct C as [K W].
    cbn [fst snd]. apply (clause_after (with_sess w (stop s)) sp _ (stop s)); auto.
    + rewrite kind_stop. exact K.
    + apply weak_stop. exact W.
    + intro Z; discriminate Z.
Qed.

Lemma ctl_steps : forall ops w sp,
  CW w sp -> forallb ctl_op ops = true -> c16_ctrl_steps sp ops (run_ops sc w ops) = true.
Proof.
  induction ops as [|oper ops IH]; intros w sp C P; [reflexivity|].
  cbn [forallb] in P. apply andb_true_iff in P. destruct P as [P1 P2].
  destruct (ctl_op_step w sp oper C P1) as (ST & C').
  cbn [run_ops]. destruct (run_op sc w oper) as [w1 evs] eqn:R. cbn [fst snd] in *.
  destruct (snapshot w1) as [w2 sn] eqn:S. cbn [fst snd] in *.
  cbn [c16_ctrl_steps].
  assert (SPE : match oper with OStart p0 _ => p0 | _ => sp end = sp) by (destruct oper; try discriminate; reflexivity).
  rewrite SPE, ST. cbn [andb]. apply IH; assumption.
Qed.

Lemma ctl_start : forall p t,
  ctrl_clause p (OStart p t) (mkStep (snd (run_op sc world0 (OStart p t))) (snd (snapshot (fst (run_op sc world0 (OStart p t)))))) = true /\
  CW (fst (snapshot (fst (run_op sc world0 (OStart p t))))) p.
Proof.
  intros p t. rewrite (run_start sc). cbn zeta. set (now := match t with Some t' => t' | None => T0 end).
  unfold start. destruct (sp_role p) eqn:RO.
  - set (s2 := if pr_rsn (sp_par p) then _ else _).
    assert (F2 : p_kind (s_per s2) = sp_pk p /\ weak s2).
    { subst s2. unfold new_session. rewrite RO. unfold weak.
      destruct (pr_rsn (sp_par p)).
      - cbn. split; [reflexivity|]. intros _. left. apply p_empty_ctrl.
      - unfold recover_seqnums. cbn [s_per atomic_init w_down w_state w_next_send w_next_recv new_session].
        rewrite p_empty_ctrl.
        destruct (sp_ss p =? 0); destruct (sp_rs p =? 0); cbn; (split; [reflexivity|intros _; left; apply p_empty_ctrl]). }
    destruct F2 as [K2 W2].
    pose proof (send_ctrl' now s2 (generate_logon sc (s_hb s2) (pr_rsn (sp_par p))) 0 false (fresh_logon _ _)) as SC. cbn zeta in SC.
    destruct (send sc now s2 (generate_logon sc (s_hb s2) (pr_rsn (sp_par p))) 0 false) as [[ok s3] e3]. cbn [fst snd] in *.
    destruct SC as (K1 & W1 & S1 & O1 & H1).
    apply (clause_after (mkWorld (Some (w_state st_logon_sent s3)) now p (p_empty PFile) []) p _ (w_state st_logon_sent s3));
      [reflexivity|rewrite kind_state; congruence|apply weak_state; auto| |exact I].
    intro HO. rewrite has_out_app in HO. cbn in HO. rewrite orb_false_r in HO. apply strong_state, O1, H1, HO.
  - cbn [fst snd app]. set (sa := mkSess _ _ _ _ _ _ _ _ _ _ _ _ _ _ _ _ _ _ _).
    apply (clause_after (mkWorld (Some sa) now p (p_empty PFile) []) p _ sa); [reflexivity| | | |exact I].
    + subst sa. unfold new_session. rewrite RO. reflexivity.
    + subst sa. unfold new_session, weak. rewrite RO. cbn. intros _. left. apply p_empty_ctrl.
    + intro Z; discriminate Z.
Qed.

Theorem c16_control_lemma0 : forall p t ops,
  forallb ctl_op ops = true ->
  c16_ctrl_ok (OStart p t :: ops) (run_history sc (OStart p t :: ops)) = true.
Proof.
  intros p t ops P. destruct (ctl_start p t) as (ST & C).
  unfold c16_ctrl_ok, run_history. cbn [run_ops].
  destruct (run_op sc world0 (OStart p t)) as [w1 evs] eqn:R. cbn [fst snd] in *.
  destruct (snapshot w1) as [w2 sn] eqn:S. cbn [fst snd] in *.
  cbn [c16_ctrl_steps]. rewrite ST. cbn [andb]. apply ctl_steps; assumption.
Qed.

End Control.

Lemma c16_control_lemma : forall (sc : schema) (p : startp) (t : option Z) (ops : list op),
  forallb ctl_op ops = true ->
  c16_ctrl_ok (OStart p t :: ops) (run_history sc (OStart p t :: ops)) = true.
Proof. intros sc p t ops P. exact (c16_control_lemma0 sc p t ops P). Qed.
