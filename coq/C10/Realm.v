(* Model of the realm (enumerated domain) lookups of include/fix8/field.hpp:
     RealmBase::is_valid<T>, RealmBase::get_rlm_idx<T>, and the printer's use of the index
     (runtime/message.cpp MessageBase::print / print_field: _descriptions[idx]).
   The realm is the array [_range] of [_sz] elements of type T ordered by operator< (the
   comparator [lt]); std::lower_bound / std::binary_search are the bisection models of
   C12/Bisect.v.  No proofs in this file.
   Outer [None] = model error (out-of-bounds read / fuel); never happens, see RealmProofs. *)
From Coq Require Import Arith List Bool ZArith.
From F8 Require Import C12.Bisect.
Import ListNotations.

Inductive rkind := dt_range | dt_set.

Section Realm.
  Context {A : Type}.
  Variable lt : A -> A -> bool.

  (* a <= b on T: !(b < a) *)
  Definition le (a b : A) : bool := negb (lt b a).

  (* return _dtype == dt_set ? std::binary_search(rng, rng + _sz, what)
                             : *rng <= what && what <= *(rng + 1); *)
  Definition is_valid (k : rkind) (S : list A) (v : A) : option bool :=
    match k with
    | dt_set => binary_search lt S v
    | dt_range =>
      match nth_error S 0 with
      | None => None
      | Some lo =>
        if le lo v then
          match nth_error S 1 with
          | None => None
          | Some hi => Some (le v hi)
          end
        else Some false
      end
    end.

  (* if (_dtype == dt_set) { res = std::lower_bound(rng, rng + _sz, what);
                             return res != rng + _sz && !(what < *res) ? res - rng : -1; }
     return 0;
     [fixed = true] is the code since commit 63dae2a; [fixed = false] is the original routine
     (return res != rng + _sz ? res - rng : -1;  -- no equality test), kept for the refutation witness. *)
  Definition get_rlm_idx_gen (fixed : bool) (k : rkind) (S : list A) (v : A) : option (option nat) :=
    match k with
    | dt_set =>
      match lower_bound lt S v with
      | None => None
      | Some r =>
        if r =? length S then Some None
        else if fixed then
          match nth_error S r with
          | None => None
          | Some x => Some (if lt v x then None else Some r)
          end
        else Some (Some r)
      end
    | dt_range => Some (Some 0)
    end.

  Definition get_rlm_idx := get_rlm_idx_gen true.
  Definition get_rlm_idx_orig := get_rlm_idx_gen false.

  (* the printer:  if (_rlm && (idx = get_rlm_idx()) >= 0) os << _rlm->_descriptions[idx] << " (" << value << ')';
                   else os << value;
     result: the description put in front of the value, if any *)
  Definition describe_gen {D : Type} (fixed : bool) (k : rkind) (S : list A) (descs : list D) (v : A)
    : option (option D) :=
    match get_rlm_idx_gen fixed k S v with
    | None => None
    | Some None => Some None
    | Some (Some i) =>
      match nth_error descs i with
      | None => None
      | Some d => Some (Some d)
      end
    end.

  Definition describe {D : Type} := @describe_gen D true.

  (* ---- the field object: Field<T, field>::is_valid() / get_rlm_idx() (one pair per specialisation
     int, f8String, fp_type, char -- all with the same body) apply the realm function to the WHOLE
     value held by the field; a field without a realm is always valid and has no index:
       bool is_valid() const { return _rlm ? _rlm->is_valid(_value) : true; }
       int get_rlm_idx() const { return _rlm ? _rlm->get_rlm_idx(_value) : -1; }
     [rlm] = the realm the field points to, if any. *)
  Definition field_is_valid (rlm : option (rkind * list A)) (v : A) : option bool :=
    match rlm with
    | None => Some true
    | Some (k, R) => is_valid k R v
    end.

  Definition field_get_rlm_idx_gen (fixed : bool) (rlm : option (rkind * list A)) (v : A) : option (option nat) :=
    match rlm with
    | None => Some None
    | Some (k, R) => get_rlm_idx_gen fixed k R v
    end.

  Definition field_get_rlm_idx := field_get_rlm_idx_gen true.

  (* the printer tests _rlm first *)
  Definition field_describe_gen {D : Type} (fixed : bool) (rlm : option (rkind * list A)) (descs : list D) (v : A)
    : option (option D) :=
    match rlm with
    | None => Some None
    | Some (k, R) => describe_gen fixed k R descs v
    end.
End Realm.

Local Open Scope Z_scope.

(* Field<Boolean>: _value(toupper(from[0]) == 'Y'); get_rlm_idx() looks up (_value ? 'Y' : 'N').
   chars are signed char values; toupper in the C locale *)
Definition c_toupper (c : Z) : Z := if (97 <=? c) && (c <=? 122) then c - 32 else c.
Definition boolean_field_char (c : Z) : Z := if c_toupper c =? 89 then 89 else 78.
