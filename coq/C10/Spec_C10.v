(* Property C10 as an executable predicate on observables, written from the property text:
   "the domain index and description the library reports exist only when the value is a member
    of the domain and always belong to that exact value; domain validity checks agree with set
    membership or range inclusion".
   Independent of the bisection model: membership and the index are found by a linear scan
   for an element equal to the value. *)
From Coq Require Import Arith List Bool ZArith.
From F8 Require Import C10.Realm.
Import ListNotations.

Section Spec.
  Context {A D : Type}.
  Variable lt : A -> A -> bool.
  Variable eqD : D -> D -> bool.

  Definition eqv (a b : A) : bool := negb (lt a b) && negb (lt b a).

  Fixpoint index_from (S : list A) (v : A) (i : nat) : option nat :=
    match S with
    | [] => None
    | x :: t => if eqv x v then Some i else index_from t v (i + 1)
    end.
  Definition index_of (S : list A) (v : A) : option nat := index_from S v 0.

  Definition member (S : list A) (v : A) : bool := existsb (fun x => eqv x v) S.

  Definition in_domain (k : rkind) (S : list A) (v : A) : bool :=
    match k with
    | dt_set => member S v
    | dt_range => match S with
                  | lo :: hi :: _ => negb (lt v lo) && negb (lt hi v)
                  | _ => false
                  end
    end.

  Definition opt_eqb {X} (e : X -> X -> bool) (a b : option X) : bool :=
    match a, b with
    | None, None => true
    | Some x, Some y => e x y
    | _, _ => false
    end.

  (* validity check *)
  Definition c10_valid_ok (k : rkind) (S : list A) (v : A) (valid : bool) : bool :=
    Bool.eqb valid (in_domain k S v).

  (* index: exists only for a listed value, and is the position of exactly that value *)
  Definition c10_idx_ok (S : list A) (v : A) (idx : option nat) : bool :=
    opt_eqb Nat.eqb idx (index_of S v).

  (* description shown by the printer: that of exactly this value, none for other values *)
  Definition c10_desc_ok (S : list A) (descs : list D) (v : A) (desc : option D) : bool :=
    opt_eqb eqD desc (match index_of S v with Some i => nth_error descs i | None => None end).

  (* the same through a field object: a field without a domain is always valid and has neither
     index nor description *)
  Definition c10_field_valid_ok (rlm : option (rkind * list A)) (v : A) (valid : bool) : bool :=
    match rlm with
    | None => valid
    | Some (k, R) => c10_valid_ok k R v valid
    end.

  Definition c10_field_idx_ok (rlm : option (rkind * list A)) (v : A) (idx : option nat) : bool :=
    match rlm with
    | None => match idx with None => true | Some _ => false end
    | Some (_, R) => c10_idx_ok R v idx
    end.

  Definition c10_field_desc_ok (rlm : option (rkind * list A)) (descs : list D) (v : A) (desc : option D) : bool :=
    match rlm with
    | None => match desc with None => true | Some _ => false end
    | Some (_, R) => c10_desc_ok R descs v desc
    end.
End Spec.
