(* Proofs about the realm lookup model (C10). *)
From Coq Require Import Arith List Bool Lia ZArith.
From F8 Require Import C12.Bisect C12.BisectProofs C10.Realm C10.Spec_C10.
Import ListNotations.

Section Order.
  Context {A : Type}.
  Variable lt : A -> A -> bool.
  Hypothesis O : strict_total lt.
  Let lt_irrefl := st_irrefl lt O.
  Let lt_tricho := st_tricho lt O.

  (* ---- the linear-scan specification functions ---- *)
  Lemma eqv_eq a b : eqv lt a b = true <-> a = b.
  Proof.
    unfold eqv. rewrite andb_true_iff, !negb_true_iff. split.
    - intros [H1 H2]. apply lt_tricho; assumption.
    - intros ->. split; apply lt_irrefl.
  Qed.

  Lemma member_In S v : member lt S v = true <-> In v S.
  Proof.
    unfold member. rewrite existsb_exists. split.
    - intros [x [Hx He]]. apply eqv_eq in He. subst. exact Hx.
    - intros H. exists v. split; [exact H | apply eqv_eq; reflexivity].
  Qed.

  Lemma index_from_spec : forall S v k,
    match index_from lt S v k with
    | Some j => k <= j /\ nth_error S (j - k) = Some v /\
                forall i, i < j - k -> nth_error S i <> Some v
    | None => ~ In v S
    end.
  Proof.
    induction S as [|x S IH]; intros v k; cbn [index_from].
    - intros [].
    - destruct (eqv lt x v) eqn:E.
      + apply eqv_eq in E. subst. replace (k - k) with 0 by lia. split; [lia|].
        split; [reflexivity | intros; lia].
      + specialize (IH v (k + 1)). destruct (index_from lt S v (k + 1)) as [j|].
        * destruct IH as [Hk [Hn Hf]]. split; [lia|].
          replace (j - k) with (Datatypes.S (j - (k + 1))) by lia. split; [exact Hn|].
          intros i Hi. destruct i; cbn [nth_error].
          -- intros C. inversion C; subst. rewrite (proj2 (eqv_eq v v) eq_refl) in E. discriminate.
          -- apply Hf. lia.
        * intros [->|Hin]; [|exact (IH Hin)].
          rewrite (proj2 (eqv_eq v v) eq_refl) in E. discriminate.
  Qed.

  Lemma index_of_member S v i :
    NoDup S -> nth_error S i = Some v -> index_of lt S v = Some i.
  Proof.
    intros Hnd Hi. unfold index_of. pose proof (index_from_spec S v 0) as H.
    destruct (index_from lt S v 0) as [j|].
    - destruct H as [_ [Hj _]]. rewrite Nat.sub_0_r in Hj. f_equal.
      eapply (proj1 (NoDup_nth_error S) Hnd); [|congruence].
      apply nth_error_Some. congruence.
    - exfalso. apply H. eapply nth_error_In; eassumption.
  Qed.

  Lemma index_of_nonmember S v : ~ In v S -> index_of lt S v = None.
  Proof.
    intros Hn. unfold index_of. pose proof (index_from_spec S v 0) as H.
    destruct (index_from lt S v 0) as [j|]; [|reflexivity].
    destruct H as [_ [Hj _]]. exfalso. apply Hn. eapply nth_error_In; eassumption.
  Qed.

  (* ---- is_valid ---- *)
  Theorem is_valid_set_In S v :
    sortedb lt S = true ->
    exists b, is_valid lt dt_set S v = Some b /\ (b = true <-> In v S).
  Proof. intros Hs. cbn [is_valid]. apply o_binary_search_sorted; assumption. Qed.

  Theorem is_valid_range lo hi v :
    is_valid lt dt_range [lo; hi] v = Some (negb (lt v lo) && negb (lt hi v)).
  Proof. cbn [is_valid nth_error]. unfold le. destruct (lt v lo); reflexivity. Qed.

  (* ---- get_rlm_idx ---- *)
  Theorem idx_total fixed k S v : exists r, get_rlm_idx_gen lt fixed k S v = Some r.
  Proof.
    destruct k; cbn [get_rlm_idx_gen]; [eexists; reflexivity|].
    destruct (lower_bound_total lt S v) as [r [-> Hr]].
    destruct (r =? length S) eqn:E; [eexists; reflexivity|]. apply Nat.eqb_neq in E.
    destruct fixed; [|eexists; reflexivity].
    destruct (nth_error S r) eqn:En; [eexists; reflexivity|].
    apply nth_error_None in En. lia.
  Qed.

  (* what the pinned code computes: lower_bound's index, with no equality test *)
  Theorem idx_char S v :
    sortedb lt S = true ->
    exists r, get_rlm_idx_orig lt dt_set S v = Some r /\
              forall i, r = Some i <-> (i = count_lt lt S v /\ i < length S).
  Proof.
    intros Hs. unfold get_rlm_idx_orig. cbn [get_rlm_idx_gen].
    rewrite (o_lower_bound_sorted lt O S v Hs).
    assert (count_lt lt S v <= length S) as Hle.
    { unfold count_lt. clear. induction S as [|x S IH]; cbn [filter length]; [lia|].
      destruct (lt x v); cbn [length]; lia. }
    destruct (count_lt lt S v =? length S) eqn:E.
    - apply Nat.eqb_eq in E. eexists. split; [reflexivity|]. intros i. split; [discriminate|lia].
    - apply Nat.eqb_neq in E. eexists. split; [reflexivity|]. intros i. split.
      + intros H. inversion H. lia.
      + intros [-> _]. reflexivity.
  Qed.

  (* members get exactly their own index *)
  Theorem idx_member S v i :
    sortedb lt S = true -> nth_error S i = Some v ->
    get_rlm_idx_orig lt dt_set S v = Some (Some i).
  Proof.
    intros Hs Hi. destruct (idx_char S v Hs) as [r [Hr Hiff]]. rewrite Hr. f_equal.
    apply Hiff. split.
    - symmetry. apply (o_count_lt_member lt O S v i Hs Hi).
    - apply nth_error_Some. congruence.
  Qed.

  (* a non-member gets the index of the next larger member whenever there is one *)
  Theorem idx_nonmember S v :
    sortedb lt S = true -> ~ In v S ->
    (forall i, get_rlm_idx_orig lt dt_set S v = Some (Some i) ->
       exists y, nth_error S i = Some y /\ lt v y = true /\
                 forall j z, j < i -> nth_error S j = Some z -> lt z v = true) /\
    (get_rlm_idx_orig lt dt_set S v = Some None <-> forall y, In y S -> lt y v = true).
  Proof.
    intros Hs Hn. destruct (idx_char S v Hs) as [r [Hr Hiff]]. rewrite Hr. split.
    - intros i Hi. inversion Hi; subst r. destruct (proj1 (Hiff i) eq_refl) as [-> Hlt].
      apply (o_count_lt_nonmember lt O S v Hs Hn Hlt).
    - destruct (o_lower_bound_at_spec lt O S v 0 (length S) Hs) as [c [_ Hp]]; [lia|].
      assert (count_lt lt S v = c) as Hc by (apply part_at_count; exact Hp).
      destruct Hp as [Hc1 [Hc2 Hc3]]. split.
      + intros Hnone. inversion Hnone; subst r.
        assert (c = length S) as Hfull.
        { destruct (Nat.eq_dec c (length S)); [assumption|]. exfalso.
          assert (None = Some c) as C by (apply Hiff; lia). discriminate. }
        intros y Hy. apply In_nth_error in Hy. destruct Hy as [j Hj].
        apply (Hc2 j y); [|exact Hj]. split; [lia|]. rewrite Hfull. apply nth_error_Some. congruence.
      + intros Hall. f_equal. destruct r as [i|]; [|reflexivity]. exfalso.
        destruct (proj1 (Hiff i) eq_refl) as [-> Hlt]. rewrite Hc in Hlt.
        destruct (nth_error S c) as [y|] eqn:Ey. 2:{ apply nth_error_None in Ey. lia. }
        pose proof (Hc3 c y ltac:(lia) Ey) as C. cbn in C.
        rewrite (Hall y) in C; [discriminate|]. eapply nth_error_In; eassumption.
  Qed.

  (* the repaired form is exact *)
  Theorem idx_fixed_exact S v :
    sortedb lt S = true ->
    exists r, get_rlm_idx_gen lt true dt_set S v = Some r /\
              forall i, r = Some i <-> nth_error S i = Some v.
  Proof.
    intros Hs. cbn [get_rlm_idx_gen].
    destruct (o_lower_bound_at_spec lt O S v 0 (length S) Hs) as [c [Hlb Hp]]; [lia|].
    unfold lower_bound. rewrite Hlb.
    assert (forall i, nth_error S i = Some v -> i = c) as Hmem.
    { intros i Hi. eapply (o_part_member lt O); try eassumption.
      split; [lia|]. apply nth_error_Some. congruence. }
    destruct (c =? length S) eqn:E.
    - apply Nat.eqb_eq in E. eexists. split; [reflexivity|]. intros i. split; [discriminate|].
      intros Hi. pose proof (Hmem i Hi). assert (i < length S) by (apply nth_error_Some; congruence). lia.
    - apply Nat.eqb_neq in E. destruct Hp as [Hc Hp'].
      destruct (nth_error S c) as [x|] eqn:Ex. 2:{ apply nth_error_None in Ex. lia. }
      destruct (o_part_point_elem lt O S v c x Hs (conj Hc Hp') Ex) as [Hxv Hiff].
      eexists. split; [reflexivity|]. intros i. destruct (lt v x) eqn:Evx.
      + split; [discriminate|]. intros Hi. pose proof (Hmem i Hi). subst i.
        assert (x = v) by congruence. subst. rewrite lt_irrefl in Evx. discriminate.
      + assert (x = v) by (apply lt_tricho; assumption). subst x. split.
        * intros H. inversion H. subst. exact Ex.
        * intros Hi. rewrite (Hmem i Hi). reflexivity.
  Qed.

  (* ---- the model meets the oracle exactly off the defect ---- *)
  Theorem model_valid_ok S v b :
    sortedb lt S = true -> is_valid lt dt_set S v = Some b ->
    c10_valid_ok lt dt_set S v b = true.
  Proof.
    intros Hs Hb. destruct (is_valid_set_In S v Hs) as [b' [Hb' Hiff]].
    assert (b' = b) by congruence. subst b'.
    unfold c10_valid_ok. cbn [in_domain]. apply eqb_true_iff.
    destruct (member lt S v) eqn:M.
    - apply Hiff, member_In, M.
    - destruct b; [|reflexivity]. exfalso.
      assert (member lt S v = true) by (apply member_In, Hiff; reflexivity). congruence.
  Qed.

  Theorem model_valid_range_ok lo hi v b :
    is_valid lt dt_range [lo; hi] v = Some b -> c10_valid_ok lt dt_range [lo; hi] v b = true.
  Proof.
    rewrite is_valid_range. intros H. inversion H. unfold c10_valid_ok. cbn [in_domain].
    apply eqb_reflx.
  Qed.

  (* hypothesis of the partial theorem: the value is a member, or above every member *)
  Definition off_defect (S : list A) (v : A) : bool :=
    member lt S v || forallb (fun y => lt y v) S.

  Theorem model_idx_ok_partial S v r :
    sortedb lt S = true -> off_defect S v = true ->
    get_rlm_idx_orig lt dt_set S v = Some r -> c10_idx_ok lt S v r = true.
  Proof.
    intros Hs Hoff Hr. unfold c10_idx_ok. unfold off_defect in Hoff.
    pose proof (o_sortedb_NoDup lt O S Hs) as Hnd.
    destruct (member lt S v) eqn:M.
    - apply member_In in M. apply In_nth_error in M. destruct M as [i Hi].
      rewrite (idx_member S v i Hs Hi) in Hr. inversion Hr; subst r.
      rewrite (index_of_member S v i Hnd Hi). cbn. apply Nat.eqb_refl.
    - cbn [orb] in Hoff. assert (~ In v S) as Hn.
      { intros C. apply member_In in C. congruence. }
      rewrite (index_of_nonmember S v Hn).
      destruct (idx_nonmember S v Hs Hn) as [_ Hnone].
      rewrite (proj2 Hnone) in Hr.
      + inversion Hr. reflexivity.
      + intros y Hy. rewrite forallb_forall in Hoff. apply Hoff, Hy.
  Qed.

  Theorem model_idx_fixed_ok S v r :
    sortedb lt S = true ->
    get_rlm_idx_gen lt true dt_set S v = Some r -> c10_idx_ok lt S v r = true.
  Proof.
    intros Hs Hr. destruct (idx_fixed_exact S v Hs) as [r' [Hr' Hiff]].
    assert (r' = r) by congruence. subst r'. unfold c10_idx_ok.
    pose proof (o_sortedb_NoDup lt O S Hs) as Hnd.
    destruct r as [i|].
    - rewrite (index_of_member S v i Hnd (proj1 (Hiff i) eq_refl)). cbn. apply Nat.eqb_refl.
    - rewrite index_of_nonmember; [reflexivity|]. intros Hin.
      apply In_nth_error in Hin. destruct Hin as [i Hi]. apply Hiff in Hi. discriminate.
  Qed.

  (* ---- the current code (with the equality test): full strength ---- *)
  Theorem idx_exact S v :
    sortedb lt S = true ->
    exists r, get_rlm_idx lt dt_set S v = Some r /\ forall i, r = Some i <-> nth_error S i = Some v.
  Proof. exact (idx_fixed_exact S v). Qed.

  Theorem idx_exists_iff_member S v :
    sortedb lt S = true ->
    exists r, get_rlm_idx lt dt_set S v = Some r /\ ((exists i, r = Some i) <-> In v S).
  Proof.
    intros Hs. destruct (idx_exact S v Hs) as [r [Hr Hiff]]. exists r. split; [exact Hr|]. split.
    - intros [i Hi]. apply Hiff in Hi. eapply nth_error_In; eassumption.
    - intros Hin. apply In_nth_error in Hin. destruct Hin as [i Hi]. exists i. apply Hiff. exact Hi.
  Qed.

  Theorem model_idx_ok S v r :
    sortedb lt S = true -> get_rlm_idx lt dt_set S v = Some r -> c10_idx_ok lt S v r = true.
  Proof. exact (model_idx_fixed_ok S v r). Qed.

  (* the printer shows the description paired with the value, and none for a non-member *)
  Theorem model_desc_ok {D} (eqD : D -> D -> bool) (eqD_refl : forall d, eqD d d = true)
      S (descs : list D) v r :
    sortedb lt S = true -> length descs = length S ->
    describe lt dt_set S descs v = Some r -> c10_desc_ok lt eqD S descs v r = true.
  Proof.
    intros Hs Hlen Hr. unfold describe, describe_gen in Hr.
    destruct (idx_total true dt_set S v) as [ri Hri]. rewrite Hri in Hr.
    pose proof (model_idx_fixed_ok S v ri Hs Hri) as Hok.
    unfold c10_idx_ok in Hok. unfold c10_desc_ok.
    destruct ri as [i|]; destruct (index_of lt S v) as [j|]; cbn in Hok; try discriminate.
    - apply Nat.eqb_eq in Hok. subst j. destruct (nth_error descs i) as [d|] eqn:Ed; [|discriminate].
      inversion Hr. cbn. apply eqD_refl.
    - inversion Hr. reflexivity.
  Qed.

  Theorem desc_exact {D} S (descs : list D) v :
    sortedb lt S = true -> length descs = length S ->
    exists r, describe lt dt_set S descs v = Some r /\
              forall d, r = Some d <-> exists i, nth_error S i = Some v /\ nth_error descs i = Some d.
  Proof.
    intros Hs Hlen. unfold describe, describe_gen.
    destruct (idx_exact S v Hs) as [ri [Hri Hiff]]. unfold get_rlm_idx in Hri. rewrite Hri.
    destruct ri as [i|].
    - pose proof (proj1 (Hiff i) eq_refl) as Hi.
      destruct (nth_error descs i) as [d0|] eqn:Ed.
      2:{ apply nth_error_None in Ed. assert (i < length S) by (apply nth_error_Some; congruence). lia. }
      eexists. split; [reflexivity|]. intros d. split.
      + intros H. inversion H; subst. exists i. split; assumption.
      + intros [j [Hj Hd]]. assert (Some i = Some j) as E by (apply Hiff; exact Hj). inversion E; subst. congruence.
    - eexists. split; [reflexivity|]. intros d. split; [discriminate|].
      intros [j [Hj _]]. apply Hiff in Hj. discriminate.
  Qed.

  (* the ORIGINAL routine: exact only off the defect zone.  The printer of the original code
     shows exactly the description paired with the value there *)
  Theorem model_desc_ok_partial {D} (eqD : D -> D -> bool) (eqD_refl : forall d, eqD d d = true)
      S (descs : list D) v r :
    sortedb lt S = true -> off_defect S v = true -> length descs = length S ->
    describe_gen lt false dt_set S descs v = Some r -> c10_desc_ok lt eqD S descs v r = true.
  Proof.
    intros Hs Hoff Hlen Hr. unfold describe_gen in Hr.
    destruct (idx_total false dt_set S v) as [ri Hri]. rewrite Hri in Hr.
    pose proof (model_idx_ok_partial S v ri Hs Hoff Hri) as Hok.
    unfold c10_idx_ok in Hok. unfold c10_desc_ok.
    destruct ri as [i|]; destruct (index_of lt S v) as [j|]; cbn in Hok; try discriminate.
    - apply Nat.eqb_eq in Hok. subst j. destruct (nth_error descs i) as [d|] eqn:Ed; [|discriminate].
      inversion Hr. cbn. apply eqD_refl.
    - inversion Hr. reflexivity.
  Qed.

  (* ---- the field object: the whole value is looked up ---- *)
  Theorem field_is_valid_In S v :
    sortedb lt S = true ->
    exists b, field_is_valid lt (Some (dt_set, S)) v = Some b /\ (b = true <-> In v S).
  Proof. intros Hs. cbn [field_is_valid]. apply is_valid_set_In. exact Hs. Qed.

  Theorem field_no_realm v :
    field_is_valid lt None v = Some true /\ field_get_rlm_idx lt None v = Some None.
  Proof. split; reflexivity. Qed.

  Theorem field_idx_is_realm_idx fixed k S v :
    field_get_rlm_idx_gen lt fixed (Some (k, S)) v = get_rlm_idx_gen lt fixed k S v.
  Proof. reflexivity. Qed.

  Theorem model_field_valid_ok rlm v b :
    match rlm with Some (dt_set, R) => sortedb lt R = true | Some (dt_range, R) => exists lo hi, R = [lo; hi] | None => True end ->
    field_is_valid lt rlm v = Some b -> c10_field_valid_ok lt rlm v b = true.
  Proof.
    destruct rlm as [[[|] S]|]; cbn [field_is_valid c10_field_valid_ok].
    - intros [lo [hi ->]]. apply model_valid_range_ok.
    - intros Hs. apply model_valid_ok. exact Hs.
    - intros _ H. inversion H. reflexivity.
  Qed.
End Order.

(* ---- instances and witnesses on signed chars / ints (Z.ltb) ---- *)
Local Open Scope Z_scope.

(* the Side realm of FIX42UTEST.xml: '1'..'9' *)
Definition side_realm : list Z := [49; 50; 51; 52; 53; 54; 55; 56; 57].

Lemma idx_refuted_lemma :
  exists (S : list Z) (v : Z) (i : nat) (y : Z),
    sortedb Z.ltb S = true /\ ~ In v S /\
    get_rlm_idx_orig Z.ltb dt_set S v = Some (Some i) /\ nth_error S i = Some y /\ y <> v /\
    c10_idx_ok Z.ltb S v (Some i) = false.
Proof.
  exists side_realm, 48, 0%nat, 49. repeat split; try reflexivity; try discriminate.
  cbn. intuition discriminate.
Qed.

(* range realms: the index is 0 for every value, inside the range or not *)
Lemma idx_range_refuted_lemma :
  exists (lo hi v : Z),
    is_valid Z.ltb dt_range [lo; hi] v = Some false /\
    get_rlm_idx Z.ltb dt_range [lo; hi] v = Some (Some 0%nat) /\
    c10_idx_ok Z.ltb [lo; hi] v (Some 0%nat) = false.
Proof. exists 1, 10, 50. repeat split; reflexivity. Qed.

Lemma idx_range_char_lemma : forall (S : list Z) v, get_rlm_idx Z.ltb dt_range S v = Some (Some 0%nat).
Proof. reflexivity. Qed.

Lemma is_valid_range_Z_lemma lo hi v b :
  is_valid Z.ltb dt_range [lo; hi] v = Some b -> (b = true <-> lo <= v <= hi).
Proof.
  rewrite is_valid_range. intros H. inversion H. subst b.
  rewrite andb_true_iff, !negb_true_iff, !Z.ltb_ge. lia.
Qed.

Lemma nonvacuous_lemma :
  sortedb Z.ltb side_realm = true /\
  get_rlm_idx Z.ltb dt_set side_realm 53 = Some (Some 4%nat) /\
  get_rlm_idx Z.ltb dt_set side_realm 65 = Some None /\
  get_rlm_idx Z.ltb dt_set side_realm 48 = Some None /\
  describe Z.ltb dt_set side_realm [1; 2; 3; 4; 5; 6; 7; 8; 9] 53 = Some (Some 5) /\
  describe Z.ltb dt_set side_realm [1; 2; 3; 4; 5; 6; 7; 8; 9] 48 = Some None /\
  is_valid Z.ltb dt_set side_realm 53 = Some true /\
  is_valid Z.ltb dt_set side_realm 48 = Some false /\
  sortedb str_ltb [[67]; [78]; [82]] = true /\
  get_rlm_idx str_ltb dt_set [[67]; [78]; [82]] [78] = Some (Some 1%nat).
Proof. repeat split; reflexivity. Qed.
