(* C06 proofs, part 1: decimal texts (itoa_N digits and the fast_atoi round trip), and the two
   tokenising primitives on a well-formed token:
     xe_exact   extract_element on  tag '=' value SOH rest   (value without SOH)
     xfw_exact  extract_element_fixed_width on  tag '=' content <anything>  for ARBITRARY
                content bytes of the announced length.
   The itoa_N lemmas of the first section are those of C02/DigitsProofs.v (copied so that this
   property does not depend on another property's proof files). *)
From Coq Require Import NArith ZArith List Bool Lia.
From F8 Require Import Codec.Bytes Codec.Meta Codec.Extract.
Import ListNotations.
Local Open Scope N_scope.
Ltac Zify.zify_post_hook ::= Z.div_mod_to_equations.

Definition all_digits (l : list N) : Prop := Forall (fun b => is_digit b = true) l.
Definition no_soh (l : list N) : Prop := Forall (fun b => (b =? SOH) = false) l.
Definition no_nul (l : list N) : Prop := Forall (fun b => (b =? 0) = false) l.

Lemma is_digit_48 d : d < 10 -> is_digit (48 + d) = true.
Proof. intros. unfold is_digit. apply andb_true_intro; split; apply N.leb_le; lia. Qed.

Lemma lenN_app {A} (a b : list A) : lenN (a ++ b) = lenN a + lenN b.
Proof. induction a as [|x a IH]; cbn [app lenN]; [reflexivity|rewrite IH; lia]. Qed.
Lemma lenN_length {A} (a : list A) : lenN a = N.of_nat (length a).
Proof. induction a as [|x a IH]; cbn [lenN length]; [reflexivity|rewrite IH; lia]. Qed.

Lemma digits_aux_acc : forall fuel n acc, digits_aux fuel n acc = digits_aux fuel n [] ++ acc.
Proof.
  induction fuel as [|fuel IH]; intros n acc; cbn [digits_aux]; [reflexivity|].
  destruct (n / 10 =? 0); [reflexivity|].
  rewrite (IH (n / 10) ((48 + n mod 10) :: acc)), (IH (n / 10) [48 + n mod 10]).
  rewrite <- app_assoc. reflexivity.
Qed.

Lemma digits_aux_mono : forall f1 n acc, n < 2 ^ N.of_nat f1 -> forall f2, (f1 <= f2)%nat ->
  digits_aux (S f2) n acc = digits_aux (S f1) n acc.
Proof.
  induction f1 as [|f1 IH]; intros n acc Hn f2 Hle.
  - change (2 ^ N.of_nat 0) with 1 in Hn. assert (n = 0) by lia. subst. reflexivity.
  - destruct f2 as [|f2]; [lia|]. cbn [digits_aux]. destruct (n / 10 =? 0) eqn:E; [reflexivity|].
    change (digits_aux (S f2) (n / 10) ((48 + n mod 10) :: acc) = digits_aux (S f1) (n / 10) ((48 + n mod 10) :: acc)).
    apply IH; [|lia]. rewrite Nat2N.inj_succ, N.pow_succ_r' in Hn. apply N.div_lt_upper_bound; lia.
Qed.

Lemma digits_aux_indep f1 f2 n acc : n < 2 ^ N.of_nat f1 -> n < 2 ^ N.of_nat f2 ->
  digits_aux (S f1) n acc = digits_aux (S f2) n acc.
Proof.
  intros H1 H2. destruct (Nat.le_ge_cases f1 f2).
  - symmetry. apply digits_aux_mono; assumption.
  - apply digits_aux_mono; assumption.
Qed.

Lemma size_bound n : n < 2 ^ N.of_nat (N.to_nat (N.size n)).
Proof. rewrite N2Nat.id. apply N.size_gt. Qed.

Lemma itoa_small n : n < 10 -> itoa_N n = [48 + n].
Proof.
  intros H. unfold itoa_N. cbn [digits_aux]. rewrite (N.div_small n 10) by assumption.
  cbn [N.eqb]. rewrite N.mod_small by assumption. reflexivity.
Qed.

Lemma itoa_step n : 10 <= n -> itoa_N n = itoa_N (n / 10) ++ [48 + n mod 10].
Proof.
  intros H. unfold itoa_N at 1. cbn [digits_aux].
  destruct (n / 10 =? 0) eqn:E.
  { apply N.eqb_eq in E. apply N.div_small_iff in E; lia. }
  rewrite digits_aux_acc. f_equal.
  pose proof (N.size_gt n) as Hs.
  destruct (N.size n) as [|p] eqn:Es.
  { change (2 ^ 0) with 1 in Hs. lia. }
  assert (Hq : n / 10 < 2 ^ N.of_nat (Pos.to_nat p - 1)).
  { replace (N.pos p) with (N.succ (N.of_nat (Pos.to_nat p - 1))) in Hs by lia.
    rewrite N.pow_succ_r' in Hs. apply N.div_lt_upper_bound; lia. }
  change (N.to_nat (N.pos p)) with (Pos.to_nat p).
  replace (Pos.to_nat p) with (S (Pos.to_nat p - 1)) at 1 by lia.
  unfold itoa_N. apply digits_aux_indep; [assumption|apply size_bound].
Qed.

(* strong induction on the value *)
Lemma N_div10_ind (P : N -> Prop) :
  (forall n, n < 10 -> P n) -> (forall n, 10 <= n -> P (n / 10) -> P n) -> forall n, P n.
Proof.
  intros Hs Hi n. induction n as [n IH] using (well_founded_induction N.lt_wf_0).
  destruct (N.lt_ge_cases n 10); [apply Hs; assumption|].
  apply Hi; [assumption|]. apply IH. apply N.div_lt; lia.
Qed.

Lemma itoa_digits n : all_digits (itoa_N n).
Proof.
  induction n as [n H|n H IH] using N_div10_ind.
  - rewrite itoa_small by assumption. constructor; [apply is_digit_48; assumption|constructor].
  - rewrite itoa_step by assumption. apply Forall_app. split; [assumption|].
    constructor; [apply is_digit_48; apply N.mod_lt; lia|constructor].
Qed.

Lemma itoa_nonempty n : itoa_N n <> [].
Proof.
  destruct (N.lt_ge_cases n 10); [rewrite itoa_small by assumption; discriminate|].
  rewrite itoa_step by assumption. intros Hc. apply app_eq_nil in Hc. destruct Hc; discriminate.
Qed.


(* ------------------------------------------------------------------ fast_atoi / cstr *)
Lemma digit_range b : is_digit b = true -> 48 <= b <= 57.
Proof. unfold is_digit. intros H. apply andb_prop in H. destruct H as [A B]. apply N.leb_le in A, B. lia. Qed.

Lemma digits_no_nul l : all_digits l -> no_nul l.
Proof. intros H. eapply Forall_impl; [|exact H]. cbn. intros a Ha. apply digit_range in Ha. apply N.eqb_neq. lia. Qed.
Lemma digits_no_soh l : all_digits l -> no_soh l.
Proof. intros H. eapply Forall_impl; [|exact H]. cbn. intros a Ha. apply digit_range in Ha. apply N.eqb_neq. unfold SOH. lia. Qed.

Lemma cstr_no_nul l : no_nul l -> cstr l = l.
Proof. induction 1 as [|x l Hx Hl IH]; cbn [cstr]; [reflexivity|]. rewrite Hx, IH. reflexivity. Qed.

(* fast_atoi<T> reads back what itoa wrote, modulo the width of T *)
Lemma atoi_fold_itoa (m : Z) n : (0 < m)%Z ->
  fold_left (atoi_step m) (itoa_N n) 0%Z = (Z.of_N n mod m)%Z.
Proof.
  intros Hm. induction n as [n H|n H IH] using N_div10_ind.
  - rewrite itoa_small by assumption. cbn [fold_left]. unfold atoi_step, schar.
    destruct (48 + n <? 128) eqn:E; [|apply N.ltb_ge in E; lia].
    f_equal. lia.
  - rewrite itoa_step by assumption. rewrite fold_left_app. cbn [fold_left]. rewrite IH.
    unfold atoi_step, schar.
    assert (n mod 10 < 10) by (apply N.mod_lt; lia).
    destruct (48 + n mod 10 <? 128) eqn:E; [|apply N.ltb_ge in E; lia].
    assert (En : Z.of_N n = (Z.of_N (n / 10) * 10 + Z.of_N (n mod 10))%Z).
    { pose proof (N.div_mod n 10 ltac:(lia)) as D. rewrite D at 1. rewrite N2Z.inj_add, N2Z.inj_mul. change (Z.of_N 10) with 10%Z. lia. }
    rewrite N2Z.inj_add. change (Z.of_N 48) with 48%Z.
    replace (Z.of_N (n / 10) mod m * 10 + (48 + Z.of_N (n mod 10)) - 48)%Z
      with (Z.of_N (n / 10) mod m * 10 + Z.of_N (n mod 10))%Z by lia.
    rewrite Z.add_mod by lia. rewrite Z.mul_mod_idemp_l by lia.
    rewrite <- Z.add_mod by lia. rewrite En. reflexivity.
Qed.

Lemma atoi_u16_itoa n : n < 65536 -> fast_atoi_u16 (itoa_N n) = n.
Proof.
  intros H. unfold fast_atoi_u16, fast_atoi_mod. rewrite cstr_no_nul by (apply digits_no_nul, itoa_digits).
  rewrite atoi_fold_itoa by reflexivity. unfold two16. rewrite Z.mod_small by lia. apply N2Z.id.
Qed.
Lemma atoi_u32_itoa n : n < 4294967296 -> fast_atoi_u32 (itoa_N n) = n.
Proof.
  intros H. unfold fast_atoi_u32, fast_atoi_mod. rewrite cstr_no_nul by (apply digits_no_nul, itoa_digits).
  rewrite atoi_fold_itoa by reflexivity. unfold two32. rewrite Z.mod_small by lia. apply N2Z.id.
Qed.

(* N-indexed list helpers *)
Lemma skipN_0 {A} (l : list A) : skipN 0 l = l.
Proof. destruct l; reflexivity. Qed.
Lemma skipN_app_len {A} (a b : list A) : skipN (lenN a) (a ++ b) = b.
Proof.
  induction a as [|x a IH]; cbn [lenN app]; [apply skipN_0|].
  cbn [skipN]. destruct (N.succ (lenN a) =? 0) eqn:E; [apply N.eqb_eq in E; lia|].
  replace (N.succ (lenN a) - 1) with (lenN a) by lia. exact IH.
Qed.
Lemma skipN_add {A} (a b : N) (l : list A) : skipN (a + b) l = skipN b (skipN a l).
Proof.
  revert a. induction l as [|x l IH]; intros a.
  - reflexivity.
  - cbn [skipN]. destruct (a =? 0) eqn:Ea.
    + apply N.eqb_eq in Ea. subst. cbn [N.add]. destruct (b =? 0) eqn:Eb.
      * apply N.eqb_eq in Eb. subst. reflexivity.
      * cbn [skipN]. rewrite Eb. reflexivity.
    + apply N.eqb_neq in Ea. destruct (a + b =? 0) eqn:Eab; [apply N.eqb_eq in Eab; lia|].
      replace (a + b - 1) with ((a - 1) + b) by lia. apply IH.
Qed.
Lemma firstN_app_len {A} (a b : list A) : firstN (lenN a) (a ++ b) = a.
Proof.
  induction a as [|x a IH]; cbn [lenN app].
  - destruct b; reflexivity.
  - cbn [firstN]. destruct (N.succ (lenN a) =? 0) eqn:E; [apply N.eqb_eq in E; lia|].
    replace (N.succ (lenN a) - 1) with (lenN a) by lia. rewrite IH. reflexivity.
Qed.

(* ------------------------------------------------------------------ extract_element *)
Lemma xe_digits : forall ds rest sz ii tagacc nt tcap vcap,
  all_digits ds -> ii + lenN ds <= sz -> nt + lenN ds < tcap ->
  xe_loop (ds ++ rest) sz ii false tagacc [] nt 0 tcap vcap =
  xe_loop rest sz (ii + lenN ds) false (rev ds ++ tagacc) [] (nt + lenN ds) 0 tcap vcap.
Proof.
  induction ds as [|d ds IH]; intros rest sz ii tagacc nt tcap vcap Hd Hsz Hcap.
  - cbn [lenN app rev]. rewrite !N.add_0_r. reflexivity.
  - inversion Hd as [|? ? Hd1 Hd2]; subst. cbn [lenN] in *. cbn [app xe_loop].
    assert (E1 : (ii <? sz) = true) by (apply N.ltb_lt; lia).
    assert (E2 : (nt + 1 <? tcap) = true) by (apply N.ltb_lt; lia).
    rewrite E1, Hd1, E2.
    rewrite IH by (try assumption; lia). cbn [rev]. rewrite <- app_assoc. cbn [app].
    replace (ii + 1 + lenN ds) with (ii + N.succ (lenN ds)) by lia.
    replace (nt + 1 + lenN ds) with (nt + N.succ (lenN ds)) by lia. reflexivity.
Qed.

Lemma xe_value : forall v rest sz ii tag valacc nt nv tcap vcap,
  no_soh v -> ii + lenN v < sz -> nv + lenN v < vcap -> nt < tcap ->
  xe_loop (v ++ SOH :: rest) sz ii true tag valacc nt nv tcap vcap =
  XOk (rev tag) (rev (rev v ++ valacc)) (ii + lenN v + 1).
Proof.
  induction v as [|x v IH]; intros rest sz ii tag valacc nt nv tcap vcap Hv Hsz Hcap Ht.
  - cbn [lenN app rev] in *. cbn [xe_loop].
    assert (E1 : (ii <? sz) = true) by (apply N.ltb_lt; lia). rewrite E1.
    change (SOH =? SOH) with true. cbn iota. unfold zero_write.
    assert (E2 : (nt <? tcap) = true) by (apply N.ltb_lt; lia).
    assert (E3 : (nv <? vcap) = true) by (apply N.ltb_lt; lia).
    rewrite E2, E3. cbn [negb]. rewrite N.add_0_r. reflexivity.
  - inversion Hv as [|? ? Hx Hv']; subst. cbn [lenN] in *. cbn [app xe_loop].
    assert (E1 : (ii <? sz) = true) by (apply N.ltb_lt; lia). rewrite E1, Hx.
    assert (E3 : (nv + 1 <? vcap) = true) by (apply N.ltb_lt; lia). rewrite E3.
    rewrite IH by (try assumption; lia). cbn [rev]. rewrite <- app_assoc. cbn [app].
    f_equal. lia.
Qed.

Lemma eqc_not_digit : is_digit EQC = false.
Proof. reflexivity. Qed.

Theorem xe_exact : forall tag val rest sz tcap vcap,
  all_digits tag -> no_soh val -> lenN tag < tcap -> lenN val < vcap ->
  lenN tag + 1 + lenN val + 1 <= sz ->
  extract_element (tag ++ EQC :: val ++ SOH :: rest) sz tcap vcap = XOk tag val (lenN tag + 1 + lenN val + 1).
Proof.
  intros tag val rest sz tcap vcap Ht Hv Htc Hvc Hsz. unfold extract_element.
  rewrite xe_digits by (try assumption; lia). cbn [N.add]. cbn [xe_loop].
  assert (E1 : (lenN tag <? sz) = true) by (apply N.ltb_lt; lia). rewrite E1, eqc_not_digit.
  change (EQC =? EQC) with true. cbn iota.
  rewrite xe_value by (try assumption; lia).
  rewrite !app_nil_r, !rev_involutive. reflexivity.
Qed.

(* ------------------------------------------------------------------ extract_element_fixed_width *)
Lemma xfw_digits : forall ds rest sz ii val_sz tagacc nt tcap vcap,
  all_digits ds -> ii + lenN ds <= sz -> nt + lenN ds < tcap ->
  xfw_loop (ds ++ rest) sz ii val_sz tagacc nt tcap vcap =
  xfw_loop rest sz (ii + lenN ds) val_sz (rev ds ++ tagacc) (nt + lenN ds) tcap vcap.
Proof.
  induction ds as [|d ds IH]; intros rest sz ii val_sz tagacc nt tcap vcap Hd Hsz Hcap.
  - cbn [lenN app rev]. rewrite !N.add_0_r. reflexivity.
  - inversion Hd as [|? ? Hd1 Hd2]; subst. cbn [lenN] in *. cbn [app xfw_loop].
    assert (E1 : (ii <? sz) = true) by (apply N.ltb_lt; lia).
    assert (E2 : (nt + 1 <? tcap) = true) by (apply N.ltb_lt; lia).
    rewrite E1, Hd1, E2. rewrite IH by (try assumption; lia). cbn [rev]. rewrite <- app_assoc. cbn [app].
    replace (ii + 1 + lenN ds) with (ii + N.succ (lenN ds)) by lia.
    replace (nt + 1 + lenN ds) with (nt + N.succ (lenN ds)) by lia. reflexivity.
Qed.

(* the content is taken by its announced length: ANY bytes (SOH, '=', NUL, ...), and whatever
   follows is not even looked at *)
Theorem xfw_exact : forall tag content rest sz tcap vcap,
  all_digits tag -> lenN tag < tcap -> lenN content < vcap ->
  lenN tag + 1 + lenN content <= sz ->
  extract_element_fixed_width (tag ++ EQC :: content ++ rest) sz (lenN content) tcap vcap
  = XOk tag content (lenN tag + 1 + lenN content + 1).
Proof.
  intros tag content rest sz tcap vcap Ht Htc Hvc Hsz. unfold extract_element_fixed_width.
  assert (E0 : ((0 <? tcap) && (0 <? vcap)) = true).
  { apply andb_true_intro; split; apply N.ltb_lt; lia. }
  rewrite E0. rewrite xfw_digits by (try assumption; lia). cbn [N.add]. cbn [xfw_loop].
  assert (E1 : (lenN tag <? sz) = true) by (apply N.ltb_lt; lia). rewrite E1, eqc_not_digit.
  change (EQC =? EQC) with true.
  assert (E3 : (lenN content <? vcap) = true) by (apply N.ltb_lt; lia). rewrite E3.
  assert (E2 : (sz <? lenN tag + 1 + lenN content) = false) by (apply N.ltb_ge; lia). rewrite E2.
  cbn [negb orb].
  rewrite firstN_app_len. rewrite N.ltb_irrefl. rewrite app_nil_r, rev_involutive. reflexivity.
Qed.
