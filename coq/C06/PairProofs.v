(* C06 proofs, part 2: one turn of MessageBase::decode's loop on a Length/data pair
   L=<n> SOH (L+1)=<content> SOH: whatever bytes the content consists of, both fields are stored
   and the loop continues exactly behind the pair. *)
From Coq Require Import NArith ZArith List Bool Lia.
From F8 Require Import Codec.Bytes Codec.Meta Codec.Extract Codec.Decode C06.TokenLemmas.
Import ListNotations.
Local Open Scope N_scope.

Definition field_tok (f : N) (v : list N) : list N := itoa_N f ++ EQC :: v ++ [SOH].
Lemma field_tok_app f v X : field_tok f v ++ X = itoa_N f ++ EQC :: v ++ SOH :: X.
Proof. unfold field_tok. rewrite <- app_assoc. cbn [app]. rewrite <- app_assoc. reflexivity. Qed.
Lemma field_tok_len f v : lenN (field_tok f v) = lenN (itoa_N f) + 1 + lenN v + 1.
Proof. unfold field_tok. rewrite lenN_app. cbn [lenN]. rewrite lenN_app. cbn [lenN]. lia. Qed.

Lemma digits_aux_len : forall fuel n acc, lenN (digits_aux fuel n acc) <= N.of_nat fuel + lenN acc.
Proof.
  induction fuel as [|fuel IH]; intros n acc; cbn [digits_aux]; [lia|].
  destruct (n / 10 =? 0).
  - cbn [lenN]. lia.
  - specialize (IH (n / 10) ((48 + n mod 10) :: acc)). cbn [lenN] in IH. lia.
Qed.
Lemma itoa_len_bound n : n < 4294967296 -> lenN (itoa_N n) <= 33.
Proof.
  intros H. unfold itoa_N. pose proof (digits_aux_len (S (N.to_nat (N.size n))) n []) as B. cbn [lenN] in B.
  assert (N.size n <= 32).
  { destruct (N.le_gt_cases (N.size n) 32) as [|G]; [assumption|].
    pose proof (N.size_le n) as S1.
    assert (2 ^ 33 <= 2 ^ N.size n) by (apply N.pow_le_mono_r; lia).
    change (2 ^ 33) with 8589934592 in *. unfold N.succ_double in S1. destruct n; lia. }
  lia.
Qed.

Lemma cstr_known_app d X : no_nul d -> cstr_known (d ++ 0 :: X) = Some d.
Proof.
  induction 1 as [|x d Hx Hd IH]; cbn [app cstr_known]; [reflexivity|]. rewrite Hx, IH. reflexivity.
Qed.

Lemma find_trait_upd_other v ts f g : f <> g ->
  find_trait (upd_trait (set_present v) ts f) g = find_trait ts g.
Proof.
  intros Hne. induction ts as [|x r IH]; cbn [upd_trait find_trait]; [reflexivity|].
  destruct (t_fnum x =? f) eqn:E.
  - cbn [find_trait set_present t_fnum]. apply N.eqb_eq in E.
    destruct (t_fnum x =? g) eqn:E2; [apply N.eqb_eq in E2; congruence|reflexivity].
  - cbn [find_trait]. destruct (t_fnum x =? g); [reflexivity|exact IH].
Qed.

Lemma fp_mark_add m f p v : mb_fp (mark_present (add_field_decoder m f p v) f) = upd_trait (set_present true) (mb_fp m) f.
Proof. destruct m; reflexivity. Qed.

Section Pair.
Variable c : ctx. Variable cp : caps. Variable from : list N. Variable fsize : N.
Variable permissive : bool. Variable gfuel : nat.
Hypothesis Hct : cap_tag cp = MAX_FLD_LENGTH.
Hypothesis Hcv : cap_val cp = MAX_FLD_LENGTH.

Theorem dec_pair_step : forall fuel m off pos lvp lvo tb L content rest trL trD tyL tyD,
  let n := lenN content in
  let tok1 := field_tok L (itoa_N n) in
  let tok2 := field_tok (L + 1) content in
  skipN off from = tok1 ++ tok2 ++ rest ->
  off + lenN tok1 + lenN tok2 <= fsize ->
  n <= MAX_FLD_LENGTH - 1 ->
  L + 1 < 65536 -> L <> Common_BodyLength ->
  find_trait (mb_fp m) L = Some trL -> t_present trL = false -> t_ftype trL = ft_Length -> t_group trL = false ->
  find_trait (mb_fp m) (L + 1) = Some trD -> t_ftype trD = ft_data -> t_group trD = false ->
  find_be (c_fields c) L = Some tyL -> find_be (c_fields c) (L + 1) = Some tyD ->
  let pos1 := (pos + 1) mod 4294967296 in
  let pos2 := (pos1 + 1) mod 4294967296 in
  let m1 := mark_present (add_field_decoder m L pos1 (itoa_N n)) L in
  let m3 := mark_present (add_field_decoder m1 (L + 1) pos2 (cstr content)) (L + 1) in
  skipN (off + lenN tok1 + lenN tok2) from = rest /\
  exists tb2,
    dec_loop c cp from fsize permissive gfuel (S fuel) m off pos lvp lvo tb =
    dec_loop c cp from fsize permissive gfuel fuel m3 (off + lenN tok1 + lenN tok2) pos2 lvp lvo tb2.
Proof.
  intros fuel m off pos lvp lvo tb L content rest trL trD tyL tyD n tok1 tok2
         Hfrom Hsz Hn HL HL9 HtL HpL HtyL HgL HtD HtyD HgD HbL HbD pos1 pos2 m1 m3.
  assert (Dn : all_digits (itoa_N n)) by apply itoa_digits.
  assert (DL : all_digits (itoa_N L)) by apply itoa_digits.
  assert (DD : all_digits (itoa_N (L + 1))) by apply itoa_digits.
  assert (Bn : lenN (itoa_N n) <= 33) by (apply itoa_len_bound; unfold MAX_FLD_LENGTH in Hn; lia).
  assert (BL : lenN (itoa_N L) <= 33) by (apply itoa_len_bound; lia).
  assert (BD : lenN (itoa_N (L + 1)) <= 33) by (apply itoa_len_bound; lia).
  pose proof (field_tok_len L (itoa_N n)) as Len1. fold tok1 in Len1.
  pose proof (field_tok_len (L + 1) content) as Len2. fold tok2 in Len2. fold n in Len2.
  unfold MAX_FLD_LENGTH in *.
  split.
  { rewrite <- N.add_assoc, skipN_add, Hfrom. rewrite app_assoc, <- lenN_app. apply skipN_app_len. }
  cbn [dec_loop].
  assert (E1 : (off <=? fsize) = true) by (apply N.leb_le; lia). rewrite E1.
  unfold tok_at. rewrite Hfrom. unfold tok1 at 1. rewrite field_tok_app.
  rewrite xe_exact by (try assumption; try (apply digits_no_soh; assumption); try lia).
  rewrite atoi_u16_itoa by lia. rewrite HtL, HpL, HbL.
  unfold opt_group at 1. rewrite HgL. cbn [andb].
  rewrite HtyL. change (ft_Length =? ft_Length) with true. cbn [negb orb].
  assert (E9 : (L =? Common_BodyLength) = false) by (apply N.eqb_neq; assumption). rewrite E9.
  rewrite atoi_u32_itoa by lia.
  assert (E2 : (MAX_FLD_LENGTH - 1 <? n) = false) by (apply N.ltb_ge; unfold MAX_FLD_LENGTH; lia). rewrite E2.
  rewrite skipN_add, Hfrom. fold tok1. rewrite <- Len1, skipN_app_len.
  unfold tok2 at 1. rewrite field_tok_app.
  change (SOH :: rest) with ([SOH] ++ rest). 
  replace (itoa_N (L + 1) ++ EQC :: content ++ [SOH] ++ rest) with (itoa_N (L + 1) ++ EQC :: content ++ ([SOH] ++ rest)) by reflexivity.
  fold n.
  rewrite xfw_exact by (try assumption; lia).
  assert (Etb : cstr_known (tagbuf_after_fw (itoa_N (L + 1)) (tagbuf_after (itoa_N L) tb)) = Some (itoa_N (L + 1))).
  { unfold tagbuf_after_fw. apply cstr_known_app. apply digits_no_nul. assumption. }
  rewrite Etb. rewrite atoi_u16_itoa by lia.
  rewrite cstr_no_nul by (apply digits_no_nul; assumption).
  fold pos1. fold m1.
  assert (Ef : find_trait (mb_fp m1) (L + 1) = Some trD).
  { unfold m1. rewrite fp_mark_add, find_trait_upd_other by lia. assumption. }
  rewrite Ef, HtyD. change (ft_data =? ft_data) with true. rewrite N.eqb_refl. cbn [negb orb].
  rewrite HbD. unfold opt_group. rewrite HgD. cbn [andb]. fold pos2. fold m3.
  eexists. rewrite Len2. reflexivity.
Qed.
End Pair.

(* what the two stored fields are, in terms of the _fields map *)
Lemma map_find_insert_same {A} k (v : A) l : map_find k l = None -> map_find k (map_insert k v l) = Some v.
Proof.
  induction l as [|[k' v'] r IH]; cbn [map_find map_insert]; intros H.
  - rewrite N.eqb_refl. reflexivity.
  - destruct (k =? k') eqn:E; [discriminate|].
    destruct (k <? k'); cbn [map_find]; [rewrite N.eqb_refl; reflexivity|].
    rewrite E. apply IH. assumption.
Qed.
Lemma map_find_insert_other {A} k g (v : A) l : g <> k -> map_find g (map_insert k v l) = map_find g l.
Proof.
  intros Hne. induction l as [|[k' v'] r IH]; cbn [map_find map_insert].
  - destruct (g =? k) eqn:E; [apply N.eqb_eq in E; congruence|reflexivity].
  - destruct (k <? k').
    + cbn [map_find]. destruct (g =? k) eqn:E; [apply N.eqb_eq in E; congruence|reflexivity].
    + destruct (k =? k'); [reflexivity|]. cbn [map_find]. destruct (g =? k'); [reflexivity|exact IH].
Qed.
Lemma fields_mark_add m f p v : mb_fields (mark_present (add_field_decoder m f p v) f) = map_insert f v (mb_fields m).
Proof. destruct m; reflexivity. Qed.

Lemma pair_fields m L p1 p2 lv dv :
  map_find L (mb_fields m) = None -> map_find (L + 1) (mb_fields m) = None ->
  let m3 := mark_present (add_field_decoder (mark_present (add_field_decoder m L p1 lv) L) (L + 1) p2 dv) (L + 1) in
  map_find L (mb_fields m3) = Some lv /\ map_find (L + 1) (mb_fields m3) = Some dv.
Proof.
  intros HL HD m3. unfold m3. rewrite !fields_mark_add. split.
  - rewrite map_find_insert_other by lia. apply map_find_insert_same. assumption.
  - apply map_find_insert_same. rewrite map_find_insert_other by lia. assumption.
Qed.

(* content without NUL: the stored value IS the content *)
Corollary dec_pair_step_no_nul c cp from fsize permissive gfuel :
  cap_tag cp = MAX_FLD_LENGTH -> cap_val cp = MAX_FLD_LENGTH ->
  forall fuel m off pos lvp lvo tb L content rest trL trD tyL tyD,
  let n := lenN content in
  let tok1 := field_tok L (itoa_N n) in
  let tok2 := field_tok (L + 1) content in
  no_nul content ->
  skipN off from = tok1 ++ tok2 ++ rest ->
  off + lenN tok1 + lenN tok2 <= fsize ->
  n <= MAX_FLD_LENGTH - 1 ->
  L + 1 < 65536 -> L <> Common_BodyLength ->
  find_trait (mb_fp m) L = Some trL -> t_present trL = false -> t_ftype trL = ft_Length -> t_group trL = false ->
  find_trait (mb_fp m) (L + 1) = Some trD -> t_ftype trD = ft_data -> t_group trD = false ->
  find_be (c_fields c) L = Some tyL -> find_be (c_fields c) (L + 1) = Some tyD ->
  map_find L (mb_fields m) = None -> map_find (L + 1) (mb_fields m) = None ->
  exists m3 pos2 tb2,
    dec_loop c cp from fsize permissive gfuel (S fuel) m off pos lvp lvo tb =
    dec_loop c cp from fsize permissive gfuel fuel m3 (off + lenN tok1 + lenN tok2) pos2 lvp lvo tb2 /\
    skipN (off + lenN tok1 + lenN tok2) from = rest /\
    map_find L (mb_fields m3) = Some (itoa_N n) /\
    map_find (L + 1) (mb_fields m3) = Some content.
Proof.
  intros Hct Hcv fuel m off pos lvp lvo tb L content rest trL trD tyL tyD n tok1 tok2 Hnn
         Hfrom Hsz Hn HL HL9 HtL HpL HtyL HgL HtD HtyD HgD HbL HbD HfL HfD.
  destruct (dec_pair_step c cp from fsize permissive gfuel Hct Hcv fuel m off pos lvp lvo tb L content rest
              trL trD tyL tyD Hfrom Hsz Hn HL HL9 HtL HpL HtyL HgL HtD HtyD HgD HbL HbD) as [Hr [tb2 Hs]].
  rewrite (cstr_no_nul content Hnn) in Hs.
  eexists _, _, tb2. split; [exact Hs|]. split; [exact Hr|]. apply pair_fields; assumption.
Qed.
