(* C06: computed witnesses on the example schema ex6_ctx (C06/Pairs.v).  The same shapes are in
   known_findings.d/C06.json against the real code on the FIX42UTEST schema. *)
From Coq Require Import NArith ZArith List Bool String Lia.
From F8 Require Import Codec.Bytes Codec.Meta Codec.Extract Codec.Decode Codec.Encode Codec.Render Codec.Example
                       C05.Spec_C05 C05.Obs C06.Spec_C06 C06.Pairs C06.TokenLemmas C06.PairProofs.
Import ListNotations.
Local Open Scope N_scope.
Local Open Scope string_scope.

Definition fx : list N := bs "FIX.4.2".
Definition fl (l : list (N * string)) : list (N * list N) := map (fun p => (fst p, bs (snd p))) l.
Definition x_hdr0 : onode := ON (fl [(34, "7"); (49, "A"); (56, "B")]) [] [].
Definition hdr_toks : list (list N) := map bs ["35=B"; "49=A"; "56=B"; "34=7"].

(* body pair 95/96 (data tag = length tag + 1): content with SOH and '=', a field after it *)
Definition w_body : list N := mkwire fx (hdr_toks ++ map bs ["95=5"; "96=a|=|b"; "58=after"])%list.
Definition x_body : omsg := mkO x_hdr0 (ON (fl [(58, "after"); (95, "5"); (96, "a|=|b")]) [] []) (ON [] [] []).
(* header pair 90/91: content consisting of SOHs only *)
Definition w_hdr : list N := mkwire fx (hdr_toks ++ map bs ["90=3"; "91=|||"; "58=after"])%list.
Definition x_hdr : omsg :=
  mkO (ON (fl [(34, "7"); (49, "A"); (56, "B"); (90, "3"); (91, "|||")]) [] []) (ON (fl [(58, "after")]) [] []) (ON [] [] []).
(* (a) trailer pair SignatureLength(93) / Signature(89): 89 <> 93 + 1 *)
Definition w_trl : list N := mkwire fx (hdr_toks ++ map bs ["58=x"; "93=3"; "89=a|b"])%list.
Definition x_trl : omsg := mkO x_hdr0 (ON (fl [(58, "x")]) [] []) (ON (fl [(89, "a|b"); (93, "3")]) [] []).
(* (b) pair 354/355 inside the repeating group 73 *)
Definition w_grp : list N := mkwire fx (hdr_toks ++ map bs ["73=1"; "11=id"; "354=8"; "355=a|9999=b"])%list.
Definition x_grp : omsg :=
  mkO x_hdr0 (ON (fl [(73, "1")]) [(73, [ON (fl [(11, "id"); (354, "8"); (355, "a|9999=b")]) [] []])] []) (ON [] [] []).
(* (c) NUL in the content of the body pair *)
Definition nul_content : list N := [97; 0; 98].
Definition w_nul : list N := mkwire fx (hdr_toks ++ [bs "95=3"; (bs "96=" ++ nul_content)%list; bs "58=after"])%list.
Definition x_nul : omsg :=
  mkO x_hdr0 (ON [(58, bs "after"); (95, bs "3"); (96, nul_content)] [] []) (ON [] [] []).

Definition body_fields (c : ctx) (w : list N) : option (list (N * list N)) :=
  match factory c real_caps w false false with Ok m => Some (mb_fields (m_body m)) | _ => None end.
Definition trl_fields (c : ctx) (w : list N) : option (list (N * list N)) :=
  match factory c real_caps w false false with Ok m => Some (mb_fields (m_trl m)) | _ => None end.

Lemma c06_nonvacuous_lemma :
  pairs_of_ctx ex6_ctx = [(90, 91); (93, 89); (95, 96); (354, 355)] /\
  in_domain (pairs_of_ctx ex6_ctx) x_body = true /\ c06_run ex6_ctx x_body w_body = true /\
  in_domain (pairs_of_ctx ex6_ctx) x_hdr = true /\ c06_run ex6_ctx x_hdr w_hdr = true /\
  body_fields ex6_ctx w_body = Some [(58, bs "after"); (95, bs "5"); (96, bs "a|=|b")].
Proof. vm_compute. repeat split; reflexivity. Qed.

Lemma c06_refuted_lemma :
  (* (a) 93/89: accepted, Signature truncated at the SOH *)
  (in_domain (pairs_of_ctx ex6_ctx) x_trl = true /\ c06_run ex6_ctx x_trl w_trl = false /\
   trl_fields ex6_ctx w_trl = Some [(10, bs "014"); (89, bs "a"); (93, bs "3")]) /\
  (* (b) inside a group: accepted, EncodedText truncated at the SOH *)
  (in_domain (pairs_of_ctx ex6_ctx) x_grp = true /\ c06_run ex6_ctx x_grp w_grp = false /\
   match factory ex6_ctx real_caps w_grp false false with
   | Ok m => match mb_groups (m_body m) with
             | [(73, [e])] => mb_fields e = [(11, bs "id"); (354, bs "8"); (355, bs "a")]
             | _ => False end
   | _ => False end) /\
  (* (c) NUL: the value stops at the NUL; the field after the pair is still decoded *)
  (in_domain (pairs_of_ctx ex6_ctx) x_nul = true /\ c06_run ex6_ctx x_nul w_nul = false /\
   body_fields ex6_ctx w_nul = Some [(58, bs "after"); (95, bs "3"); (96, bs "a")]).
Proof. vm_compute. repeat split; reflexivity. Qed.

(* the hypotheses of dec_pair_step_no_nul are satisfiable: the body decoder of ex6_ctx standing
   at "95=5|96=a|=|b|58=after|10=229|" (offset 35 of w_body) *)
Definition inst_from : list N := w_body.
Definition inst_m : mbase := m_body (mk_message ex6_ctx (mkMD [66] false ex6_body) false).
Definition inst_content : list N := bs "a|=|b".
Lemma c06_step_instance_lemma :
  exists m3 pos2 tb2,
    dec_loop ex6_ctx real_caps inst_from (lenN inst_from) false (dec_fuel inst_from) 3 inst_m 35 0 None 0 [] =
    dec_loop ex6_ctx real_caps inst_from (lenN inst_from) false (dec_fuel inst_from) 2 m3 49 pos2 None 0 tb2 /\
    skipN 49 inst_from = bs "58=after|10=229|" /\
    map_find 95 (mb_fields m3) = Some (bs "5") /\
    map_find 96 (mb_fields m3) = Some inst_content.
Proof.
  pose proof (dec_pair_step_no_nul ex6_ctx real_caps inst_from (lenN inst_from) false (dec_fuel inst_from)
                eq_refl eq_refl 2 inst_m 35 0 None 0 [] 95 inst_content (bs "58=after|10=229|")
                (tr 95 2 1 false false false false) (tr 96 28 2 false false false false) 2 28) as H.
  cbv zeta in H.
  assert (Hnn : no_nul inst_content) by (repeat constructor).
  specialize (H Hnn).
  assert (Hfrom : skipN 35 inst_from =
                  (field_tok 95 (itoa_N (lenN inst_content)) ++ field_tok (95 + 1) inst_content ++ bs "58=after|10=229|")%list)
    by (vm_compute; reflexivity).
  specialize (H Hfrom).
  assert (Hsz : 35 + lenN (field_tok 95 (itoa_N (lenN inst_content))) + lenN (field_tok (95 + 1) inst_content) <= lenN inst_from)
    by (vm_compute; discriminate).
  specialize (H Hsz).
  assert (Hn : lenN inst_content <= MAX_FLD_LENGTH - 1) by (vm_compute; discriminate).
  specialize (H Hn).
  assert (HL : 95 + 1 < 65536) by reflexivity.
  specialize (H HL).
  assert (H9 : 95 <> Common_BodyLength) by discriminate.
  specialize (H H9 eq_refl eq_refl eq_refl eq_refl eq_refl eq_refl eq_refl eq_refl eq_refl eq_refl eq_refl).
  assert (E50 : 35 + lenN (field_tok 95 (itoa_N (lenN inst_content))) + lenN (field_tok (95 + 1) inst_content) = 49)
    by (vm_compute; reflexivity).
  rewrite E50 in H.
  assert (E5 : itoa_N (lenN inst_content) = bs "5") by (vm_compute; reflexivity).
  rewrite E5 in H. change (95 + 1) with 96 in H.
  destruct H as (m3 & pos2 & tb2 & A & B & C & D).
  exists m3, pos2, tb2. repeat split; assumption.
Qed.
