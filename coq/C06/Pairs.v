(* C06, model side: the Length/data pairs of a schema (a Length-typed field other than
   BodyLength whose successor in schema position is data-typed), a small schema with pairs in
   header, body, trailer and a repeating group, and the observable run of the property on the
   model.  No proofs here. *)
From Coq Require Import NArith ZArith List Bool String.
From F8 Require Import Codec.Bytes Codec.Meta Codec.Extract Codec.Decode Codec.Encode Codec.Render Codec.Example
                       C05.Spec_C05 C05.Obs C06.Spec_C06.
Import ListNotations.
Local Open Scope N_scope.

Fixpoint trait_at_pos (ts : list trait) (p : N) : option trait :=
  match ts with
  | [] => None
  | x :: r => if t_pos x =? p then Some x else trait_at_pos r p
  end.
Definition is_data_type (ty : N) : bool := (ty =? ft_data) || (ty =? ft_XMLData).
Definition pairs_of_traits (ts : list trait) : list (N * N) :=
  flat_map (fun tr =>
    if (t_ftype tr =? ft_Length) && negb (t_fnum tr =? Common_BodyLength) then
      match trait_at_pos ts (t_pos tr + 1) with
      | Some nx => if is_data_type (t_ftype nx) then [(t_fnum tr, t_fnum nx)] else []
      | None => []
      end
    else []) ts.
Fixpoint pairs_of_gmeta (g : gmeta) : list (N * N) :=
  match g with
  | GM ts subs _ =>
    pairs_of_traits ts ++
    (fix sl (ss : list (N * gmeta)) : list (N * N) :=
       match ss with [] => [] | (_, s) :: r => pairs_of_gmeta s ++ sl r end) subs
  end.
Fixpoint add_pair (p : N * N) (l : list (N * N)) : list (N * N) :=
  match l with
  | [] => [p]
  | q :: r => if (fst p =? fst q) && (snd p =? snd q) then l else q :: add_pair p r
  end.
Definition pairs_of_ctx (c : ctx) : list (N * N) :=
  fold_left (fun acc p => add_pair p acc)
    (pairs_of_gmeta (c_header c) ++ pairs_of_gmeta (c_trailer c) ++
     flat_map (fun md => pairs_of_gmeta (md_meta md)) (c_msgs c)) [].

(* ------------------------------------------------------------------ example schema *)
(* header as in Example.v plus SecureDataLen(90)/SecureData(91); trailer with
   SignatureLength(93)/Signature(89); message "B": RawDataLength(95)/RawData(96), Text(58),
   group 73 -> {11 (first, mandatory), EncodedTextLen(354), EncodedText(355)} *)
Definition ex6_header : gmeta := GM
  [ tr 8 15 1 false false true true; tr 9 1 2 false false true true; tr 34 1 6 true false false false;
    tr 35 15 3 false false false true; tr 49 15 4 true false false false; tr 56 15 5 true false false false;
    tr 90 2 7 false false false false; tr 91 28 8 false false false false ]
  [] true.
Definition ex6_elem : gmeta := GM
  [ tr 11 15 1 true false false false; tr 354 2 2 false false false false; tr 355 28 3 false false false false ] [] true.
Definition ex6_body : gmeta := GM
  [ tr 58 15 3 false false false false; tr 73 5 4 false true false false;
    tr 95 2 1 false false false false; tr 96 28 2 false false false false ]
  [ (73, ex6_elem) ] true.
Definition ex6_ctx : ctx := mkCtx
  [ (8, 15); (9, 1); (10, 15); (11, 15); (34, 1); (35, 15); (49, 15); (56, 15); (58, 15); (73, 5);
    (89, 28); (90, 2); (91, 28); (93, 2); (95, 2); (96, 28); (354, 2); (355, 28) ]
  [ mkMD [66] false ex6_body ]
  ex6_header ex_trailer
  [ (1, (8, [70; 73; 88; 46; 52; 46; 50])); (2, (9, [48])); (3, (35, [])) ]
  [ (3, (10, [])) ]
  [70; 73; 88; 46; 52; 46; 50]
  render_default.

(* the property evaluated on the model: decode the wire image, compare with what was built *)
Definition c06_run (c : ctx) (expected : omsg) (wire : list N) : bool :=
  c06_ok (pairs_of_ctx c) expected (obs_of_res c (factory c real_caps wire false false)).
