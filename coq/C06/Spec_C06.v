(* Property C06 -- "Length-prefixed data fields carry arbitrary bytes", as an executable
   predicate on observations (written from the property text; it does not call the codec model).

     pairs     the Length/data pairs of the schema: (length tag, data tag)
     expected  the message that was built: header, body, trailer as trees of
               (fields sorted by tag, groups with their elements); values are the bytes the
               caller supplied (for a data field: the content)
     decoded   what decoding the encoded message returned (None = exception / crash)

   The property speaks about pairs that are used consistently -- the Length field holds the
   decimal length of the data field's content, and the content is within the field limit
   (FIX8_MAX_FLD_LENGTH - 1 = 2047 bytes, the largest value MessageBase::decode accepts for a
   Length field): in_domain.  For those c06_ok demands that the decoded message has exactly
   the fields of the expected one with exactly their values: the data content unchanged, and
   every other field ("the fields after it") decoded correctly.
   Observation type and tree comparison are those of C05/Spec_C05.v.  No proofs here. *)
From Coq Require Import NArith List Bool.
From F8 Require Import Codec.Bytes C05.Spec_C05.
Import ListNotations.
Local Open Scope N_scope.

Definition FIELD_LIMIT : N := 2047.

Fixpoint field_of (f : N) (fs : list (N * list N)) : option (list N) :=
  match fs with
  | [] => None
  | (g, v) :: r => if g =? f then Some v else field_of f r
  end.

(* one pair in one field list: absent, or used consistently *)
Definition pair_ok (fs : list (N * list N)) (p : N * N) : bool :=
  match field_of (fst p) fs, field_of (snd p) fs with
  | None, None => true
  | Some l, Some d => bytes_eqb l (itoa_N (lenN d)) && (lenN d <=? FIELD_LIMIT)
  | _, _ => false
  end.

Fixpoint node_in_domain (pairs : list (N * N)) (o : onode) {struct o} : bool :=
  match o with
  | ON fs gs _ =>
    forallb (pair_ok fs) pairs &&
    (fix gl (gs : list (N * list onode)) : bool :=
       match gs with
       | [] => true
       | (_, es) :: r =>
           (fix el (es : list onode) : bool :=
              match es with [] => true | e :: r' => node_in_domain pairs e && el r' end) es && gl r
       end) gs
  end.
Definition in_domain (pairs : list (N * N)) (m : omsg) : bool :=
  node_in_domain pairs (o_hdr m) && node_in_domain pairs (o_body m) && node_in_domain pairs (o_trl m).

(* a count field with value 0 has no group object after decoding, while the builder creates an
   empty one: groups without elements are not content *)
Fixpoint prune (o : onode) {struct o} : onode :=
  match o with
  | ON fs gs u =>
    ON fs
       ((fix gl (gs : list (N * list onode)) : list (N * list onode) :=
           match gs with
           | [] => []
           | (f, es) :: r =>
               match es with
               | [] => gl r
               | _ => (f, (fix el (es : list onode) : list onode :=
                             match es with [] => [] | e :: r' => prune e :: el r' end) es) :: gl r
               end
           end) gs)
       u
  end.

Definition drop_fields (fl : list N) (o : onode) : onode := fold_left (fun acc f => drop_field f acc) fl o.

(* BeginString, BodyLength, MsgType and CheckSum belong to the framing, not to the content *)
Definition msg_same (e d : omsg) : bool :=
  node_eqb (prune (drop_fields [8; 9; 35] (o_hdr e))) (prune (drop_fields [8; 9; 35] (o_hdr d))) &&
  node_eqb (prune (o_body e)) (prune (o_body d)) &&
  node_eqb (prune (drop_fields [10] (o_trl e))) (prune (drop_fields [10] (o_trl d))).

Definition c06_ok (pairs : list (N * N)) (expected : omsg) (decoded : option omsg) : bool :=
  if in_domain pairs expected then
    match decoded with
    | Some d => msg_same expected d
    | None => false
    end
  else true.
