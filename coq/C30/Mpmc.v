(* C30 — executable model of ff::uMPMC_Ptr_Queue (include/fix8/ff/mpmc/MPMCqueues.hpp:408-531)
   as used through FIX8::ff_unbounded_queue (include/fix8/ff_wrapper.hpp).

   One call of [step mask t s] is ONE shared-memory action of thread [t] of the real code
   (atomic_long_read / atomic_long_set / abstraction_cas / per-slot buffer push or pop) followed
   by the thread-local computation up to its next shared action.  The harness puts a yield in
   front of exactly these actions, so a schedule (list of thread ids) drives the model and the
   real code in lock step.  The back-off loops (`for(volatile unsigned i=0;i<bk;++i);`) touch no
   shared state and are omitted.

   Modelled, not verified: the per-slot uSWSR_Ptr_Buffer is a FIFO list [sl i] (the proofs show
   that every slot has at most one pusher and one popper at a time, which is the buffer's
   stated precondition; the buffer itself is compared with [slot_run] sequentially); memory is
   sequentially consistent; the primitives are atomic; `unsigned long` does not wrap.

   No proofs in this file. *)
From Coq Require Import Arith List Bool.
Import ListNotations.

Inductive op := Push (v : nat) | Pop.

(* program counter of a thread; the arguments are the thread's local variables *)
Inductive pc :=
| Idle                       (* program finished *)
| P1 (v : nat)               (* push(v): about to  pw = atomic_long_read(&preadP); idx = pw & mask *)
| P2 (v pw : nat)            (*          about to  seq = atomic_long_read(&seqP[idx]) *)
| P3 (v pw : nat)            (*   pw == seq held:  abstraction_cas(&preadP, pw+1, pw) *)
| P4 (v pw : nat)            (*   CAS won:         buf[idx]->push(data) *)
| P5 (v pw : nat)            (*                    atomic_long_set(&seqP[idx], pw+mask+1); return true *)
| C1                         (* pop:     about to  pr = atomic_long_read(&preadC); idx = pr & mask *)
| C2 (pr : nat)              (*          about to  seq = atomic_long_read(&seqC[idx]) *)
| C3 (pr : nat)              (*   pr == seq held:  if (atomic_long_read(&seqP[idx]) <= seq) return false *)
| C3a (pr : nat)             (*                    abstraction_cas(&preadC, pr+1, pr) *)
| C4 (pr : nat)              (*   CAS won:         buf[idx]->pop(data) *)
| C5 (pr d : nat).           (*                    atomic_long_set(&seqC[idx], pr+mask+1); return true *)

Record thread := { tpc : pc; tprog : list op }.

(* what a step shows: the shared action with the value read/written (first five), and the
   client-visible / ghost events the property talks about (last five) *)
Inductive ev :=
| ERd (t v : nat)                       (* atomic_long_read returned v *)
| EWr (t v : nat)                       (* atomic_long_set stored v *)
| ECas (t c : nat) (ok : bool)          (* abstraction_cas(.., c+1, c), ok = it returned c *)
| ESlPush (t v : nat)                   (* slot buffer push of payload v *)
| ESlPop (t : nat) (r : option nat)     (* slot buffer pop: Some payload, or None = it returned false *)
| EWinP (t k v : nat)                   (* thread t reserved push ticket k for payload v (CAS on preadP won) *)
| EDoneP (t k v : nat)                  (* push(v), holding ticket k, returned true *)
| EWinC (t k : nat)                     (* thread t reserved pop ticket k (CAS on preadC won) *)
| EDoneC (t k d : nat)                  (* pop, holding ticket k, returned true with *data = d *)
| EEmptyC (t k : nat).                  (* pop returned false, having looked at ticket k *)

Record st := {
  pP : nat;                  (* preadP *)
  pC : nat;                  (* preadC *)
  sp : nat -> nat;           (* seqP[] *)
  sc : nat -> nat;           (* seqC[] *)
  sl : nat -> list nat;      (* buf[]: per-slot uSWSR_Ptr_Buffer as a FIFO list of payloads *)
  th : nat -> thread
}.

Definition upd {A} (f : nat -> A) (k : nat) (v : A) : nat -> A :=
  fun j => if Nat.eqb j k then v else f j.

(* the payload left in *data when the slot buffer's pop returns false (the harness presets 0) *)
Definition garbage : nat := 0.

(* load the next operation of a program *)
Definition start (prog : list op) : thread :=
  match prog with
  | [] => {| tpc := Idle; tprog := [] |}
  | Push v :: r => {| tpc := P1 v; tprog := r |}
  | Pop :: r => {| tpc := C1; tprog := r |}
  end.

Definition set_th (s : st) (t : nat) (x : thread) : st :=
  {| pP := pP s; pC := pC s; sp := sp s; sc := sc s; sl := sl s; th := upd (th s) t x |}.

Definition goto (s : st) (t : nat) (p : pc) : st :=
  set_th s t {| tpc := p; tprog := tprog (th s t) |}.

Definition step (mask : nat) (t : nat) (s : st) : st * list ev :=
  let T := th s t in
  match tpc T with
  | Idle => (s, [])
  | P1 v =>
      let pw := pP s in (goto s t (P2 v pw), [ERd t pw])
  | P2 v pw =>
      let seq := sp s (Nat.land pw mask) in
      (goto s t (if Nat.eqb pw seq then P3 v pw else P1 v), [ERd t seq])
  | P3 v pw =>
      if Nat.eqb (pP s) pw
      then ({| pP := pw + 1; pC := pC s; sp := sp s; sc := sc s; sl := sl s;
               th := upd (th s) t {| tpc := P4 v pw; tprog := tprog T |} |},
            [ECas t pw true; EWinP t pw v])
      else (goto s t (P1 v), [ECas t pw false])
  | P4 v pw =>
      let idx := Nat.land pw mask in
      ({| pP := pP s; pC := pC s; sp := sp s; sc := sc s; sl := upd (sl s) idx (sl s idx ++ [v]);
          th := upd (th s) t {| tpc := P5 v pw; tprog := tprog T |} |},
       [ESlPush t v])
  | P5 v pw =>
      let idx := Nat.land pw mask in
      ({| pP := pP s; pC := pC s; sp := upd (sp s) idx (pw + mask + 1); sc := sc s; sl := sl s;
          th := upd (th s) t (start (tprog T)) |},
       [EWr t (pw + mask + 1); EDoneP t pw v])
  | C1 =>
      let pr := pC s in (goto s t (C2 pr), [ERd t pr])
  | C2 pr =>
      let seq := sc s (Nat.land pr mask) in
      (goto s t (if Nat.eqb pr seq then C3 pr else C1), [ERd t seq])
  | C3 pr =>          (* here seq = pr *)
      let x := sp s (Nat.land pr mask) in
      if Nat.leb x pr
      then (set_th s t (start (tprog T)), [ERd t x; EEmptyC t pr])
      else (goto s t (C3a pr), [ERd t x])
  | C3a pr =>
      if Nat.eqb (pC s) pr
      then ({| pP := pP s; pC := pr + 1; sp := sp s; sc := sc s; sl := sl s;
               th := upd (th s) t {| tpc := C4 pr; tprog := tprog T |} |},
            [ECas t pr true; EWinC t pr])
      else (goto s t C1, [ECas t pr false])
  | C4 pr =>
      let idx := Nat.land pr mask in
      match sl s idx with
      | d :: rest =>
          ({| pP := pP s; pC := pC s; sp := sp s; sc := sc s; sl := upd (sl s) idx rest;
              th := upd (th s) t {| tpc := C5 pr d; tprog := tprog T |} |},
           [ESlPop t (Some d)])
      | [] => (goto s t (C5 pr garbage), [ESlPop t None])
      end
  | C5 pr d =>
      let idx := Nat.land pr mask in
      ({| pP := pP s; pC := pC s; sp := sp s; sc := upd (sc s) idx (pr + mask + 1); sl := sl s;
          th := upd (th s) t (start (tprog T)) |},
       [EWr t (pr + mask + 1); EDoneC t pr d])
  end.

(* a thread between its winning CAS and its final store *)
Definition holds_ticket (p : pc) : bool :=
  match p with P4 _ _ | P5 _ _ | C4 _ | C5 _ _ => true | _ => false end.

(* uMPMC_Ptr_Queue::init(nqueues, size): nqueues is raised to 2 and then to a power of two *)
Fixpoint next_pow2_loop (fuel x p : nat) : nat :=       (* p=1; while (x>p) p <<= 1; *)
  match fuel with
  | 0 => p
  | S f => if Nat.ltb p x then next_pow2_loop f x (2 * p) else p
  end.
Definition is_pow2 (x : nat) : bool := Nat.eqb x (2 ^ Nat.log2 x) && negb (Nat.eqb x 0).
Definition norm_nq (nq : nat) : nat :=
  let nq := if Nat.ltb nq 2 then 2 else nq in
  if is_pow2 nq then nq else next_pow2_loop nq nq 1.
Definition default_nq : nat := 4.        (* DEFAULT_NUM_QUEUES, what ff_unbounded_queue uses *)

Definition init (progs : list (list op)) : st :=
  {| pP := 0; pC := 0; sp := fun i => i; sc := fun i => i; sl := fun _ => [];
     th := fun t => start (nth t progs []) |}.

(* run a schedule; the trace is the concatenation of the steps' events *)
Fixpoint run (mask : nat) (sched : list nat) (s : st) : st * list ev :=
  match sched with
  | [] => (s, [])
  | t :: r => let (s1, e1) := step mask t s in
              let (s2, e2) := run mask r s1 in (s2, e1 ++ e2)
  end.

(* after the schedule the harness lets the unfinished threads run round-robin, one action each *)
Definition finished (s : st) (t : nat) : bool :=
  match tpc (th s t) with Idle => true | _ => false end.
Definition rr_pass (nth_ : nat) (s : st) : list nat :=
  filter (fun t => negb (finished s t)) (seq 0 nth_).
Fixpoint drain (mask : nat) (fuel nthr : nat) (s : st) : st * list ev :=
  match fuel with
  | 0 => (s, [])
  | S f =>
      match rr_pass nthr s with
      | [] => (s, [])
      | pass => let (s1, e1) := run mask pass s in
                let (s2, e2) := drain mask f nthr s1 in (s2, e1 ++ e2)
      end
  end.

(* the whole experiment: queue of (requested) size nq, programs, schedule, then drain; finally
   one more thread (id = number of programs) pops (number of pushes + 1) times, so that a
   complete trace shows where every pushed element went.  Its program is part of the initial
   state but it is not scheduled before the others have been drained. *)
Definition is_push_op (o : op) : bool := match o with Push _ => true | Pop => false end.
Definition final_prog (progs : list (list op)) : list op :=
  repeat Pop (S (length (filter is_push_op (concat progs)))).
Definition all_progs (progs : list (list op)) : list (list op) := progs ++ [final_prog progs].

Definition exec (nq : nat) (progs : list (list op)) (sched : list nat) (fuel : nat) : list ev :=
  let mask := norm_nq nq - 1 in
  let n := length progs in
  let sched := filter (fun t => Nat.ltb t n) sched in
  let (s1, e1) := run mask sched (init (all_progs progs)) in
  let (s2, e2) := drain mask fuel n s1 in
  let (s3, e3) := drain mask fuel (S n) s2 in
  e1 ++ e2 ++ e3.

(* ---- the per-slot buffer alone, as the list it is modelled by (sequential use) ---- *)
Fixpoint slot_run (ops : list op) (q : list nat) : list ev :=
  match ops with
  | [] => []
  | Push v :: r => EDoneP 0 0 v :: slot_run r (q ++ [v])
  | Pop :: r => match q with
                | d :: q' => EDoneC 0 0 d :: slot_run r q'
                | [] => EEmptyC 0 0 :: slot_run r []
                end
  end.
