(* C30 as an executable predicate on a trace of events (written from the property text; it does
   not call the model — it only shares the event and program types).  It is a run-time monitor:
   [c30_ok progs tr] replays the client-visible and reservation events of [tr] in order.

   Property text -> checks
   * "popped in the order their pushes completed their slot reservation": push reservations
     (EWinP) are numbered 0,1,2,.. in trace order — [wP] lists (thread, payload) by ticket — and
     pop reservations (EWinC) are numbered 0,1,2,.. in trace order; the pop holding ticket k
     must return exactly the payload reserved under push ticket k (EDoneC check).
   * "every pushed element is popped exactly once": tickets are unique on both sides (the
     numbering) and ticket k carries payload k on both sides; a pop may reserve ticket k only
     after push k has returned (EWinC check), so nothing is popped before it is pushed.
   * "each producer's elements keep their order": a thread's events must follow its program
     (the [rem] checks), tickets increase along the trace, hence along each producer's program.
   * "a pop reports empty only if no element was fully pushed ahead of it": EEmptyC t k is
     accepted only if k is the next unreserved pop ticket (all earlier ones are taken) and push
     k has not returned.
   The shared-action events (ERd/EWr/ECas/ESlPush/ESlPop) are ignored here; they take part in
   the model/implementation comparison only. *)
From Coq Require Import Arith List Bool.
From F8 Require Import C30.Mpmc.
Import ListNotations.

Record mon := {
  wP : list (nat * nat);        (* push reservations in ticket order: (thread, payload) *)
  wC : list nat;                (* pop reservations in ticket order: thread *)
  pdone : list nat;             (* push tickets whose push has returned *)
  pendP : nat -> option nat;    (* the push ticket a thread holds *)
  pendC : nat -> option nat;    (* the pop ticket a thread holds *)
  rem : nat -> list op          (* what is left of each thread's program, current operation first *)
}.

Definition mem (k : nat) (l : list nat) : bool := existsb (Nat.eqb k) l.

Definition is_push (o : option op) (v : nat) : bool :=
  match o with Some (Push w) => Nat.eqb v w | _ => false end.
Definition is_pop (o : option op) : bool :=
  match o with Some Pop => true | _ => false end.

(* thread t holds no ticket *)
Definition idle (m : mon) (t : nat) : bool :=
  match pendP m t, pendC m t with None, None => true | _, _ => false end.

Definition mon_step (m : mon) (e : ev) : option mon :=
  match e with
  | EWinP t k v =>
      if Nat.eqb k (length (wP m)) && is_push (hd_error (rem m t)) v && idle m t
      then Some {| wP := wP m ++ [(t, v)]; wC := wC m; pdone := pdone m;
                   pendP := upd (pendP m) t (Some k); pendC := pendC m; rem := rem m |}
      else None
  | EDoneP t k0 v =>
      match pendP m t with
      | Some k =>
          match nth_error (wP m) k with
          | Some (t', v') =>
              if Nat.eqb k0 k && Nat.eqb t' t && Nat.eqb v' v && is_push (hd_error (rem m t)) v
              then Some {| wP := wP m; wC := wC m; pdone := k :: pdone m;
                           pendP := upd (pendP m) t None; pendC := pendC m;
                           rem := upd (rem m) t (tl (rem m t)) |}
              else None
          | None => None
          end
      | None => None
      end
  | EWinC t k =>
      if Nat.eqb k (length (wC m)) && mem k (pdone m) && is_pop (hd_error (rem m t)) && idle m t
      then Some {| wP := wP m; wC := wC m ++ [t]; pdone := pdone m;
                   pendP := pendP m; pendC := upd (pendC m) t (Some k); rem := rem m |}
      else None
  | EDoneC t k0 d =>
      match pendC m t with
      | Some k =>
          match nth_error (wP m) k with
          | Some (_, v) =>
              if Nat.eqb k0 k && Nat.eqb v d && is_pop (hd_error (rem m t))
              then Some {| wP := wP m; wC := wC m; pdone := pdone m;
                           pendP := pendP m; pendC := upd (pendC m) t None;
                           rem := upd (rem m) t (tl (rem m t)) |}
              else None
          | None => None
          end
      | None => None
      end
  | EEmptyC t k =>
      if Nat.eqb k (length (wC m)) && negb (mem k (pdone m)) && is_pop (hd_error (rem m t)) && idle m t
      then Some {| wP := wP m; wC := wC m; pdone := pdone m; pendP := pendP m; pendC := pendC m;
                   rem := upd (rem m) t (tl (rem m t)) |}
      else None
  | _ => Some m
  end.

Fixpoint mons (m : mon) (tr : list ev) : option mon :=
  match tr with
  | [] => Some m
  | e :: r => match mon_step m e with Some m' => mons m' r | None => None end
  end.

Definition mon_init (progs : list (list op)) : mon :=
  {| wP := []; wC := []; pdone := []; pendP := fun _ => None; pendC := fun _ => None;
     rem := fun t => nth t progs [] |}.

Definition c30_ok (progs : list (list op)) (tr : list ev) : bool :=
  match mons (mon_init progs) tr with Some _ => true | None => false end.

(* ---- notions used to state the consequences of acceptance on the trace itself ---- *)
(* push / pop tickets in the order they were reserved *)
Definition ticketsP (tr : list ev) : list nat :=
  flat_map (fun e => match e with EWinP _ k _ => [k] | _ => [] end) tr.
Definition ticketsC (tr : list ev) : list nat :=
  flat_map (fun e => match e with EWinC _ k => [k] | _ => [] end) tr.
(* tickets of the pushes / pops that have returned *)
Definition donesP (tr : list ev) : list nat :=
  flat_map (fun e => match e with EDoneP _ k _ => [k] | _ => [] end) tr.
Definition donesC (tr : list ev) : list nat :=
  flat_map (fun e => match e with EDoneC _ k _ => [k] | _ => [] end) tr.
(* the operations of thread t that have returned, in order *)
Definition ops_of (t : nat) (tr : list ev) : list op :=
  flat_map (fun e => match e with
                     | EDoneP t' _ v => if Nat.eqb t' t then [Push v] else []
                     | EDoneC t' _ _ | EEmptyC t' _ => if Nat.eqb t' t then [Pop] else []
                     | _ => [] end) tr.

(* a complete experiment: every operation of every program has returned and, at the end, as
   many pop tickets as push tickets have been handed out (with c30_ok: every pushed element has
   been returned by exactly one pop).  Used on traces that end with the draining thread. *)
Definition c30_final_ok (progs : list (list op)) (tr : list ev) : bool :=
  match mons (mon_init progs) tr with
  | Some m => forallb (fun t => match rem m t with [] => true | _ => false end) (seq 0 (length progs))
              && Nat.eqb (length (wC m)) (length (wP m))
  | None => false
  end.

(* ---- the slot buffer used sequentially: FIFO.  Written without a queue: the j-th successful
   pop returns the j-th pushed payload, and a pop fails iff nothing is outstanding ---- *)
Fixpoint slot_ok_aux (ops : list op) (res : list ev) (pushed : list nat) (npop : nat) : bool :=
  match ops, res with
  | [], [] => true
  | Push v :: r, EDoneP _ _ w :: rs => Nat.eqb v w && slot_ok_aux r rs (pushed ++ [v]) npop
  | Pop :: r, EDoneC _ _ d :: rs =>
      match nth_error pushed npop with
      | Some v => Nat.eqb v d && slot_ok_aux r rs pushed (S npop)
      | None => false
      end
  | Pop :: r, EEmptyC _ _ :: rs => Nat.eqb npop (length pushed) && slot_ok_aux r rs pushed npop
  | _, _ => false
  end.
Definition slot_ok (ops : list op) (res : list ev) : bool := slot_ok_aux ops res [] 0.

(* ---- free-running stress summary printed by the harness: np producers push (p, 0..ops-1);
   consumers together received [total] elements, [dup] twice, [lost] never, [ord] out of their
   producer's order (as seen by one consumer), [sum] = sum over received of (p*ops + j + 1) ---- *)
From Coq Require Import NArith.
Definition free_ok (np ops total dup lost ord sum : N) : bool :=
  let n := (np * ops)%N in
  (N.eqb total n && N.eqb dup 0 && N.eqb lost 0 && N.eqb ord 0 && N.eqb (2 * sum) (n * (n + 1)))%N.

(* ---- backlog summary printed by the harness: n elements pushed (all pushes must report
   success) while nobody pops, then n+1 pops by one thread: exactly n deliver, each element
   once, none missing, in order (per producer; exact position for a single producer), and the
   last pop reports empty.  [null] counts pops that returned true without a usable element. ---- *)
Definition backlog_ok (n pushed popped empty null dup lost ord : N) : bool :=
  (N.eqb pushed n && N.eqb popped n && N.eqb empty 1 && N.eqb null 0 && N.eqb dup 0 &&
   N.eqb lost 0 && N.eqb ord 0)%N.
