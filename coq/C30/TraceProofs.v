(* C30 — what acceptance by the monitor (Spec_C30.c30_ok) means for a trace, stated on the trace
   itself.  Pure list reasoning about the monitor; nothing here depends on the queue model. *)
From Coq Require Import Arith List Bool Lia Permutation.
From F8 Require Import C30.Mpmc C30.Spec_C30.
Import ListNotations.

Lemma upd_same' {A} (f : nat -> A) k v : upd f k v k = v.
Proof. unfold upd. rewrite Nat.eqb_refl. reflexivity. Qed.
Lemma upd_other' {A} (f : nat -> A) k v j : j <> k -> upd f k v j = f j.
Proof. unfold upd. intros. destruct (Nat.eqb_spec j k); congruence. Qed.

Lemma mem_In k l : mem k l = true <-> In k l.
Proof.
  unfold mem. rewrite existsb_exists. split.
  - intros (x & Hx & E). apply Nat.eqb_eq in E. subst. assumption.
  - intros H. exists k. split; [assumption | apply Nat.eqb_refl].
Qed.

Lemma mons_snoc m tr e :
  mons m (tr ++ [e]) = match mons m tr with Some m1 => mon_step m1 e | None => None end.
Proof.
  revert m. induction tr as [|x r IH]; intros m; cbn [app mons].
  - destruct (mon_step m e); reflexivity.
  - destruct (mon_step m x); [apply IH | reflexivity].
Qed.

Lemma mons_app' m e1 e2 :
  mons m (e1 ++ e2) = match mons m e1 with Some m1 => mons m1 e2 | None => None end.
Proof.
  revert m. induction e1 as [|e r IH]; intros m; cbn [app mons]; [reflexivity|].
  destruct (mon_step m e); [apply IH | reflexivity].
Qed.

Lemma NoDup_app_snoc {A} (l : list A) x : NoDup l -> ~ In x l -> NoDup (l ++ [x]).
Proof.
  induction l as [|a r IH]; cbn; intros Hn Hx.
  - constructor; [intros [] | constructor].
  - inversion Hn; subst. constructor.
    + rewrite in_app_iff; cbn; intuition.
    + apply IH; auto.
Qed.

Section MI.
Variable progs : list (list op).

(* what the monitor state says about the trace that led to it *)
Record MI (tr : list ev) (m : mon) : Prop := {
  m_tP : ticketsP tr = seq 0 (length (wP m));
  m_tC : ticketsC tr = seq 0 (length (wC m));
  m_wP : forall k t v, nth_error (wP m) k = Some (t, v) -> In (EWinP t k v) tr;
  m_done : forall k, mem k (pdone m) = true <->
                     exists t v, In (EDoneP t k v) tr /\ nth_error (wP m) k = Some (t, v);
  m_doneP : forall k, In k (donesP tr) <-> mem k (pdone m) = true;
  m_pendC : forall t k, pendC m t = Some k ->
              In (EWinC t k) tr /\ mem k (pdone m) = true /\ ~ In k (donesC tr) /\ k < length (wC m) /\
              (forall t', pendC m t' = Some k -> t' = t) /\ hd_error (rem m t) = Some Pop /\ pendP m t = None;
  m_pendP : forall t k, pendP m t = Some k ->
              ~ In k (donesP tr) /\ k < length (wP m) /\
              (forall t', pendP m t' = Some k -> t' = t) /\ pendC m t = None;
  m_ndP : NoDup (donesP tr);
  m_ndC : NoDup (donesC tr);
  m_ltC : forall k, k < length (wC m) -> In k (donesC tr) \/ exists t, pendC m t = Some k;
  m_inC : forall k, In k (donesC tr) -> k < length (wC m);
  m_rem : forall t, ops_of t tr ++ rem m t = nth t progs []
}.

Lemma MI_init : MI [] (mon_init progs).
Proof.
  constructor; cbn; intros; try discriminate; try reflexivity; try lia; try contradiction;
    try (constructor; fail).
  - destruct k; discriminate.
  - split; [discriminate | intros (?&?&[]&_)].
Qed.

Ltac fm := unfold ticketsP, ticketsC, donesP, donesC, ops_of in *; rewrite ?flat_map_app in *; cbn [flat_map app] in *;
           rewrite ?app_nil_r in *.

Lemma in_snoc {A} (x y : A) l : In x (l ++ [y]) <-> In x l \/ x = y.
Proof. rewrite in_app_iff. cbn. intuition. Qed.

Lemma seq_snoc n : seq 0 n ++ [n] = seq 0 (S n).
Proof. rewrite seq_S. reflexivity. Qed.

Lemma MI_step tr m e m' : MI tr m -> mon_step m e = Some m' -> MI (tr ++ [e]) m'.
Proof.
  intros M H. destruct e; cbn [mon_step] in H.
  1-5: (injection H as <-; destruct M; constructor; fm; auto;
        [ intros; rewrite in_snoc; auto
        | intros k0; rewrite m_done0; split; intros (t0 & v0 & Hin & Hn); exists t0, v0;
          (split; [|assumption]); rewrite in_snoc in *; intuition discriminate
        | intros t0 k0 Hp; destruct (m_pendC0 t0 k0 Hp) as (A1 & A2 & A3 & A4 & A5 & A6 & A7);
          repeat split; auto; rewrite in_snoc; auto
        | intros t0; rewrite flat_map_app; cbn [flat_map app]; rewrite app_nil_r; apply m_rem0 ]).
  - (* EWinP t k v *)
    destruct (Nat.eqb_spec k (length (wP m))) as [->|]; [|discriminate].
    destruct (is_push (hd_error (rem m t)) v) eqn:Hpush; [|discriminate].
    destruct (idle m t) eqn:Hidle; [|discriminate]. cbn [andb] in H. injection H as <-.
    unfold idle in Hidle. destruct (pendP m t) eqn:HpP; [discriminate|]. destruct (pendC m t) eqn:HpC; [discriminate|].
    destruct M. constructor; fm; cbn [wP wC pdone pendP pendC rem].
    + rewrite m_tP0, app_length. cbn. rewrite Nat.add_1_r. apply seq_snoc.
    + assumption.
    + intros k0 t0 v0 Hn. rewrite in_snoc.
      destruct (Nat.lt_ge_cases k0 (length (wP m))) as [L|L].
      * rewrite nth_error_app1 in Hn by assumption. left. apply m_wP0. assumption.
      * rewrite nth_error_app2 in Hn by assumption.
        destruct (k0 - length (wP m)) as [|j] eqn:E; cbn in Hn; [|destruct j; discriminate].
        injection Hn as <- <-. right. f_equal. lia.
    + intros k0. rewrite m_done0. split; intros (t0 & v0 & Hin & Hn); exists t0, v0.
      * split; [rewrite in_snoc; auto|]. rewrite nth_error_app1; [assumption|]. apply nth_error_Some. congruence.
      * rewrite in_snoc in Hin. destruct Hin as [Hin|]; [|discriminate].
        assert (Hm : mem k0 (pdone m) = true).
        { apply m_doneP0. clear - Hin. induction tr as [|x r IH]; [contradiction|].
          cbn. destruct Hin as [->|Hin]; [left; reflexivity|]. apply in_or_app. right. apply IH. assumption. }
        apply m_done0 in Hm. destruct Hm as (t1 & v1 & Hin1 & Hn1).
        split; [assumption|]. rewrite nth_error_app1 in Hn; [assumption|]. apply nth_error_Some. congruence.
    + assumption.
    + intros t0 k0 Hp. destruct (m_pendC0 t0 k0 Hp) as (A1 & A2 & A3 & A4 & A5 & A6 & A7).
      repeat split; auto; try (rewrite in_snoc; auto).
      destruct (Nat.eq_dec t0 t) as [->|Hne]; [congruence | rewrite upd_other' by assumption; assumption].
    + intros t0 k0. destruct (Nat.eq_dec t0 t) as [->|Hne]; [rewrite upd_same' | rewrite upd_other' by assumption].
      * intros E. injection E as <-. rewrite app_length. cbn. repeat split; try lia; try assumption.
        -- intros Hin. apply m_doneP0, m_done0 in Hin. destruct Hin as (t1 & v1 & _ & Hn).
           assert (length (wP m) < length (wP m)) by (apply nth_error_Some; congruence). lia.
        -- intros t'. destruct (Nat.eq_dec t' t) as [->|Hne]; [reflexivity | rewrite upd_other' by assumption].
           intros E. destruct (m_pendP0 _ _ E) as (_ & L & _). lia.
      * intros E. destruct (m_pendP0 _ _ E) as (B1 & B2 & B3 & B4). rewrite app_length. repeat split; auto; try lia.
        intros t'. destruct (Nat.eq_dec t' t) as [->|Hne']; [rewrite upd_same' | rewrite upd_other' by assumption; auto].
        intros E'. injection E' as <-. lia.
    + assumption.
    + assumption.
    + assumption.
    + assumption.
    + intros t0; rewrite flat_map_app; cbn [flat_map app]; rewrite app_nil_r; apply m_rem0.
  - (* EDoneP t k v *)
    destruct (pendP m t) as [k'|] eqn:HpP; [|discriminate].
    destruct (nth_error (wP m) k') as [[t' v']|] eqn:Hn; [|discriminate].
    destruct (Nat.eqb_spec k k') as [->|]; [|discriminate].
    destruct (Nat.eqb_spec t' t) as [->|]; [|discriminate].
    destruct (Nat.eqb_spec v' v) as [->|]; [|discriminate].
    destruct (is_push (hd_error (rem m t)) v) eqn:Hpush; [|discriminate]. cbn [andb] in H. injection H as <-.
    destruct (rem m t) as [|[w|] r] eqn:Hr; try discriminate. cbn in Hpush. apply Nat.eqb_eq in Hpush. subst w.
    destruct M. destruct (m_pendP0 _ _ HpP) as (B1 & B2 & B3 & B4).
    constructor; fm; cbn [wP wC pdone pendP pendC rem mem existsb].
    + assumption.
    + assumption.
    + intros. rewrite in_snoc. auto.
    + intros k0. fold (mem k0 (pdone m)). rewrite orb_true_iff, Nat.eqb_eq, m_done0. split.
      * intros [->|(t0 & v0 & Hin & Hn0)]; [exists t, v | exists t0, v0]; (split; [rewrite in_snoc; auto | assumption]).
      * intros (t0 & v0 & Hin & Hn0). rewrite in_snoc in Hin. destruct Hin as [Hin|Hin].
        -- right. exists t0, v0. auto.
        -- injection Hin as _ <- _. left; reflexivity.
    + intros k0. fold (mem k0 (pdone m)). rewrite in_snoc, orb_true_iff, Nat.eqb_eq, m_doneP0. tauto.
    + intros t0 k0 Hp. destruct (m_pendC0 t0 k0 Hp) as (A1 & A2 & A3 & A4 & A5 & A6 & A7).
      assert (t0 <> t) by congruence.
      repeat split; auto; try (rewrite in_snoc; auto).
      * fold (mem k0 (pdone m)). rewrite A2. apply orb_true_r.
      * rewrite upd_other' by assumption. assumption.
      * rewrite upd_other' by assumption. assumption.
    + intros t0 k0. destruct (Nat.eq_dec t0 t) as [->|Hne]; [rewrite upd_same'; discriminate | rewrite upd_other' by assumption].
      intros E. destruct (m_pendP0 _ _ E) as (C1 & C2 & C3 & C4). repeat split; auto.
      * rewrite in_snoc. intros [|<-]; [auto|]. apply Hne. apply (B3 t0 E).
      * intros t'. destruct (Nat.eq_dec t' t) as [->|Hne']; [rewrite upd_same'; discriminate | rewrite upd_other' by assumption; auto].
    + apply NoDup_app_snoc; assumption.
    + assumption.
    + assumption.
    + assumption.
    + intros t0. rewrite flat_map_app. cbn [flat_map app]. rewrite app_nil_r.
      destruct (Nat.eqb_spec t t0) as [->|Hne].
      * rewrite upd_same'. rewrite <- (m_rem0 t0), Hr, <- app_assoc. reflexivity.
      * rewrite upd_other' by congruence. rewrite app_nil_r. apply m_rem0.
  - (* EWinC t k *)
    destruct (Nat.eqb_spec k (length (wC m))) as [->|]; [|discriminate].
    destruct (mem (length (wC m)) (pdone m)) eqn:Hmem; [|discriminate].
    destruct (is_pop (hd_error (rem m t))) eqn:Hpop; [|discriminate].
    destruct (idle m t) eqn:Hidle; [|discriminate]. cbn [andb] in H. injection H as <-.
    unfold idle in Hidle. destruct (pendP m t) eqn:HpP; [discriminate|]. destruct (pendC m t) eqn:HpC; [discriminate|].
    destruct M. constructor; fm; cbn [wP wC pdone pendP pendC rem].
    + assumption.
    + rewrite m_tC0, app_length. cbn. rewrite Nat.add_1_r. apply seq_snoc.
    + intros. rewrite in_snoc. auto.
    + intros k0. rewrite m_done0. split; intros (t0 & v0 & Hin & Hn); exists t0, v0; (split; [|assumption]);
        rewrite in_snoc in *; intuition discriminate.
    + assumption.
    + intros t0 k0. rewrite app_length. cbn [length].
      destruct (Nat.eq_dec t0 t) as [->|Hne]; [rewrite upd_same' | rewrite upd_other' by assumption].
      * intros E. injection E as <-. repeat split; try lia; try assumption.
        -- rewrite in_snoc. auto.
        -- intros Hin. apply m_inC0 in Hin. lia.
        -- intros t'. destruct (Nat.eq_dec t' t) as [->|Hne]; [reflexivity | rewrite upd_other' by assumption].
           intros E. destruct (m_pendC0 _ _ E) as (_ & _ & _ & L & _). lia.
        -- destruct (hd_error (rem m t)) as [[w|]|]; try discriminate. reflexivity.
      * intros E. destruct (m_pendC0 _ _ E) as (A1 & A2 & A3 & A4 & A5 & A6 & A7).
        repeat split; auto; try lia; try (rewrite in_snoc; auto).
        intros t'. destruct (Nat.eq_dec t' t) as [->|Hne']; [rewrite upd_same' | rewrite upd_other' by assumption; auto].
        intros E'. injection E' as <-. lia.
    + intros t0 k0 E. destruct (m_pendP0 _ _ E) as (B1 & B2 & B3 & B4). repeat split; auto.
      destruct (Nat.eq_dec t0 t) as [->|Hne]; [congruence | rewrite upd_other' by assumption; assumption].
    + assumption.
    + assumption.
    + intros k0. rewrite app_length. cbn [length]. intros L.
      destruct (Nat.eq_dec k0 (length (wC m))) as [->|Hne].
      * right. exists t. apply upd_same'.
      * destruct (m_ltC0 k0) as [Hin|(t0 & E)]; [lia | left; assumption | right].
        exists t0. destruct (Nat.eq_dec t0 t) as [->|Hne']; [congruence | rewrite upd_other' by assumption; assumption].
    + intros k0 Hin. apply m_inC0 in Hin. rewrite app_length. cbn. lia.
    + intros t0; rewrite flat_map_app; cbn [flat_map app]; rewrite app_nil_r; apply m_rem0.
  - (* EDoneC t k d *)
    destruct (pendC m t) as [k'|] eqn:HpC; [|discriminate].
    destruct (nth_error (wP m) k') as [[t' v']|] eqn:Hn; [|discriminate].
    destruct (Nat.eqb_spec k k') as [->|]; [|discriminate].
    destruct (Nat.eqb_spec v' d) as [->|]; [|discriminate].
    destruct (is_pop (hd_error (rem m t))) eqn:Hpop; [|discriminate]. cbn [andb] in H. injection H as <-.
    destruct (rem m t) as [|[w|] r] eqn:Hr; try discriminate.
    destruct M. destruct (m_pendC0 _ _ HpC) as (A1 & A2 & A3 & A4 & A5 & A6 & A7).
    constructor; fm; cbn [wP wC pdone pendP pendC rem].
    + assumption.
    + assumption.
    + intros. rewrite in_snoc. auto.
    + intros k0. rewrite m_done0. split; intros (t0 & v0 & Hin & Hn0); exists t0, v0; (split; [|assumption]);
        rewrite in_snoc in *; intuition discriminate.
    + assumption.
    + intros t0 k0. destruct (Nat.eq_dec t0 t) as [->|Hne]; [rewrite upd_same'; discriminate | rewrite upd_other' by assumption].
      intros E. destruct (m_pendC0 _ _ E) as (C1 & C2 & C3 & C4 & C5 & C6 & C7). repeat split; auto.
      * rewrite in_snoc. auto.
      * rewrite in_snoc. intros [|<-]; [auto|]. apply Hne. apply (A5 t0 E).
      * intros u. destruct (Nat.eq_dec u t) as [->|Hne']; [rewrite upd_same'; discriminate | rewrite upd_other' by assumption; auto].
      * rewrite upd_other' by assumption. assumption.
    + intros t0 k0 E. destruct (m_pendP0 _ _ E) as (B1 & B2 & B3 & B4). repeat split; auto.
      destruct (Nat.eq_dec t0 t) as [->|Hne]; [rewrite upd_same'; reflexivity | rewrite upd_other' by assumption; assumption].
    + assumption.
    + apply NoDup_app_snoc; assumption.
    + intros k0 L. rewrite in_snoc. destruct (Nat.eq_dec k0 k') as [->|Hne]; [left; right; reflexivity|].
      destruct (m_ltC0 k0 L) as [Hin|(t0 & E)]; [left; left; assumption | right].
      exists t0. destruct (Nat.eq_dec t0 t) as [->|Hne']; [congruence | rewrite upd_other' by assumption; assumption].
    + intros k0. rewrite in_snoc. intros [Hin| ->]; [apply m_inC0; assumption | assumption].
    + intros t0. rewrite flat_map_app. cbn [flat_map app]. rewrite app_nil_r.
      destruct (Nat.eqb_spec t t0) as [->|Hne].
      * rewrite upd_same'. rewrite <- (m_rem0 t0), Hr, <- app_assoc. reflexivity.
      * rewrite upd_other' by congruence. rewrite app_nil_r. apply m_rem0.
  - (* EEmptyC t k *)
    destruct (Nat.eqb_spec k (length (wC m))) as [->|]; [|discriminate].
    destruct (mem (length (wC m)) (pdone m)) eqn:Hmem; [discriminate|].
    destruct (is_pop (hd_error (rem m t))) eqn:Hpop; [|discriminate].
    destruct (idle m t) eqn:Hidle; [|discriminate]. cbn [andb negb] in H. injection H as <-.
    unfold idle in Hidle. destruct (pendP m t) eqn:HpP; [discriminate|]. destruct (pendC m t) eqn:HpC; [discriminate|].
    destruct (rem m t) as [|[w|] r] eqn:Hr; try discriminate.
    destruct M. constructor; fm; cbn [wP wC pdone pendP pendC rem]; auto.
    + intros. rewrite in_snoc. auto.
    + intros k0. rewrite m_done0. split; intros (t0 & v0 & Hin & Hn0); exists t0, v0; (split; [|assumption]);
        rewrite in_snoc in *; intuition discriminate.
    + intros t0 k0 E. destruct (m_pendC0 _ _ E) as (C1 & C2 & C3 & C4 & C5 & C6 & C7).
      assert (t0 <> t) by congruence.
      repeat split; auto; [rewrite in_snoc; auto | rewrite upd_other' by assumption; assumption].
    + intros t0. rewrite flat_map_app. cbn [flat_map app]. rewrite app_nil_r.
      destruct (Nat.eqb_spec t t0) as [->|Hne].
      * rewrite upd_same'. rewrite <- (m_rem0 t0), Hr, <- app_assoc. reflexivity.
      * rewrite upd_other' by congruence. rewrite app_nil_r. apply m_rem0.
Qed.
End MI.

(* ------------------------------------------------------------------------------------------ *)
Lemma mons_MI progs tr2 : forall tr1 m1 m, MI progs tr1 m1 -> mons m1 tr2 = Some m -> MI progs (tr1 ++ tr2) m.
Proof.
  induction tr2 as [|e r IH]; intros tr1 m1 m M H; cbn [mons] in H.
  - injection H as <-. rewrite app_nil_r. exact M.
  - destruct (mon_step m1 e) as [m2|] eqn:E; [|discriminate].
    replace (tr1 ++ e :: r) with ((tr1 ++ [e]) ++ r) by (rewrite <- app_assoc; reflexivity).
    apply (IH _ m2); [apply (MI_step progs tr1 m1); assumption | assumption].
Qed.

Lemma accepted_MI progs tr m : mons (mon_init progs) tr = Some m -> MI progs tr m.
Proof. intros H. apply (mons_MI progs tr [] (mon_init progs) m (MI_init progs) H). Qed.

Lemma ok_accepted progs tr : c30_ok progs tr = true -> exists m, mons (mon_init progs) tr = Some m.
Proof. unfold c30_ok. destruct (mons (mon_init progs) tr) as [m|]; [eauto | discriminate]. Qed.

Lemma accepted_split progs tr1 e tr2 :
  c30_ok progs (tr1 ++ e :: tr2) = true ->
  exists m1 m2, MI progs tr1 m1 /\ mon_step m1 e = Some m2.
Proof.
  intros H. destruct (ok_accepted _ _ H) as (m & Hm).
  rewrite mons_app' in Hm. destruct (mons (mon_init progs) tr1) as [m1|] eqn:E1; [|discriminate].
  cbn [mons] in Hm. destruct (mon_step m1 e) as [m2|] eqn:E2; [|discriminate].
  exists m1, m2. split; [apply accepted_MI; assumption | exact E2].
Qed.

(* tickets are handed out 0,1,2,.. in trace order, on both sides *)
Lemma tickets_consecutive_lemma progs tr : c30_ok progs tr = true ->
  ticketsP tr = seq 0 (length (ticketsP tr)) /\ ticketsC tr = seq 0 (length (ticketsC tr)).
Proof.
  intros H. destruct (ok_accepted _ _ H) as (m & Hm). destruct (accepted_MI _ _ _ Hm).
  rewrite m_tP0, m_tC0, !seq_length. split; reflexivity.
Qed.

(* the pop that returns d holding ticket k: ticket k was reserved by a push of d that has returned,
   and this thread reserved pop ticket k, all earlier in the trace *)
Lemma ticket_order_lemma progs tr1 t k d tr2 :
  c30_ok progs (tr1 ++ EDoneC t k d :: tr2) = true ->
  exists tp, In (EWinP tp k d) tr1 /\ In (EDoneP tp k d) tr1 /\ In (EWinC t k) tr1.
Proof.
  intros H. destruct (accepted_split _ _ _ _ H) as (m1 & m2 & M & Hs). cbn [mon_step] in Hs.
  destruct (pendC m1 t) as [k'|] eqn:HpC; [|discriminate].
  destruct (nth_error (wP m1) k') as [[t' v']|] eqn:Hn; [|discriminate].
  destruct (Nat.eqb_spec k k') as [->|]; [|discriminate].
  destruct (Nat.eqb_spec v' d) as [->|]; [|discriminate].
  destruct M. destruct (m_pendC0 _ _ HpC) as (A1 & A2 & _).
  apply m_done0 in A2. destruct A2 as (t0 & v0 & Hin & Hn0). rewrite Hn in Hn0. injection Hn0 as <- <-.
  exists t'. repeat split; auto.
Qed.

(* no ticket is returned twice, on either side *)
Lemma at_most_once_lemma progs tr : c30_ok progs tr = true -> NoDup (donesC tr) /\ NoDup (donesP tr).
Proof.
  intros H. destruct (ok_accepted _ _ H) as (m & Hm). destruct (accepted_MI _ _ _ Hm). split; assumption.
Qed.

(* a pop reports empty at ticket k: every earlier pop ticket has been reserved, k has not, and the
   push holding ticket k has not returned *)
Lemma empty_only_if_lemma progs tr1 t k tr2 :
  c30_ok progs (tr1 ++ EEmptyC t k :: tr2) = true ->
  k = length (ticketsC tr1) /\ forall tp v, ~ In (EDoneP tp k v) tr1.
Proof.
  intros H. destruct (accepted_split _ _ _ _ H) as (m1 & m2 & M & Hs). cbn [mon_step] in Hs.
  destruct (Nat.eqb_spec k (length (wC m1))) as [->|]; [|discriminate].
  destruct (mem (length (wC m1)) (pdone m1)) eqn:Hmem; [discriminate|].
  destruct M. split.
  - rewrite m_tC0, seq_length. reflexivity.
  - intros tp v Hin. assert (mem (length (wC m1)) (pdone m1) = true); [|congruence].
    apply m_doneP0. clear - Hin. induction tr1 as [|x r IH]; [contradiction|].
    cbn. destruct Hin as [->|Hin]; [left; reflexivity|]. apply in_or_app. right. apply IH. assumption.
Qed.

(* the operations a thread has completed are a prefix of its program, in order *)
Lemma program_order_lemma progs tr t : c30_ok progs tr = true ->
  exists rest, nth t progs [] = ops_of t tr ++ rest.
Proof.
  intros H. destruct (ok_accepted _ _ H) as (m & Hm). destruct (accepted_MI _ _ _ Hm).
  exists (rem m t). symmetry. apply m_rem0.
Qed.

Lemma seq_split_at n l1 x l2 : seq 0 n = l1 ++ x :: l2 -> x = length l1.
Proof.
  intros E.
  assert (L : length l1 < n).
  { apply (f_equal (@length nat)) in E. rewrite seq_length, app_length in E. cbn in E. lia. }
  pose proof (@seq_nth n 0 (length l1) 0 L) as H1. rewrite E, nth_middle in H1. cbn in H1. assumption.
Qed.

(* tickets grow along the trace: of two push reservations the later one has the larger ticket
   (in particular a producer's elements get increasing tickets, i.e. keep their order) *)
Lemma reservation_order_lemma progs a t1 k1 v1 b t2 k2 v2 c :
  c30_ok progs (a ++ EWinP t1 k1 v1 :: b ++ EWinP t2 k2 v2 :: c) = true -> k1 < k2.
Proof.
  intros H. destruct (tickets_consecutive_lemma _ _ H) as [HP _].
  unfold ticketsP in HP. rewrite flat_map_app in HP. cbn [flat_map] in HP. rewrite flat_map_app in HP.
  cbn [flat_map app] in HP. set (n := length _) in HP. symmetry in HP.
  pose proof (seq_split_at _ _ _ _ HP) as E1.
  rewrite app_comm_cons, app_assoc in HP.
  pose proof (seq_split_at _ _ _ _ HP) as E2.
  rewrite app_length in E2. cbn [length] in E2. lia.
Qed.

(* a complete experiment: the pops that returned are exactly the push reservations *)
Lemma final_exactly_once_lemma progs tr :
  c30_final_ok progs tr = true -> Permutation (donesC tr) (ticketsP tr).
Proof.
  unfold c30_final_ok. destruct (mons (mon_init progs) tr) as [m|] eqn:Hm; [|discriminate].
  intros H. apply andb_true_iff in H. destruct H as [Hall Hlen]. apply Nat.eqb_eq in Hlen.
  destruct (accepted_MI _ _ _ Hm).
  assert (Hrem : forall t, rem m t = []).
  { intros t. destruct (Nat.lt_ge_cases t (length progs)) as [L|L].
    - rewrite forallb_forall in Hall. specialize (Hall t). rewrite in_seq in Hall.
      destruct (rem m t); [reflexivity|]. assert (false = true) by (apply Hall; lia). discriminate.
    - pose proof (m_rem0 t) as E. rewrite (nth_overflow progs [] L) in E.
      apply app_eq_nil in E. apply E. }
  rewrite m_tP0, <- Hlen. apply NoDup_Permutation; [assumption | apply seq_NoDup|].
  intros k. rewrite in_seq. split.
  - intros Hin. apply m_inC0 in Hin. lia.
  - intros [_ L]. destruct (m_ltC0 k L) as [Hin|(t & E)]; [assumption|].
    destruct (m_pendC0 _ _ E) as (_ & _ & _ & _ & _ & Hhd & _). rewrite Hrem in Hhd. discriminate.
Qed.
