(* C30 — proofs about the interleaving model C30/Mpmc.v.

   Route: tickets are plain numbers; the only facts used about `t & mask` are I1..I4 below
   (range, period, congruent tickets are at least mask+1 apart, identity on small numbers),
   established once from mask = 2^k - 1.  Everything else is linear arithmetic.

   The invariant [Inv s m a] couples a model state [s] with the state [m] of the property
   monitor (Spec_C30.mon) and proof-only bookkeeping [a] (which tickets sit in which slot). *)
From Coq Require Import Arith List Bool Lia PeanoNat.
From F8 Require Import C30.Mpmc C30.Spec_C30 C30.TraceProofs.
Import ListNotations.

Lemma upd_same {A} (f : nat -> A) k v : upd f k v k = v.
Proof. unfold upd. rewrite Nat.eqb_refl. reflexivity. Qed.
Lemma upd_other {A} (f : nat -> A) k v j : j <> k -> upd f k v j = f j.
Proof. unfold upd. intros. destruct (Nat.eqb_spec j k); congruence. Qed.

(* ------------------------------------------------------------------------------------------ *)
(* arithmetic of  t & (2^k - 1)                                                               *)
Section LandFacts.
Variable k : nat.
Hypothesis k_pos : 1 <= k.
Let mask := Nat.ones k.

Lemma mask_succ : mask + 1 = 2 ^ k.
Proof.
  unfold mask. rewrite Nat.ones_equiv.
  assert (2 ^ k <> 0) by (apply Nat.pow_nonzero; discriminate). lia.
Qed.

Lemma land_range t : Nat.land t mask <= mask.
Proof.
  unfold mask at 1. rewrite Nat.land_ones.
  assert (2 ^ k <> 0) by (apply Nat.pow_nonzero; discriminate).
  pose proof (Nat.mod_upper_bound t (2 ^ k) H). pose proof mask_succ. lia.
Qed.

Lemma land_period t : Nat.land (t + mask + 1) mask = Nat.land t mask.
Proof.
  unfold mask at 2 3. rewrite !Nat.land_ones.
  replace (t + mask + 1) with (t + 1 * 2 ^ k) by (pose proof mask_succ; lia).
  apply Nat.mod_add. apply Nat.pow_nonzero; discriminate.
Qed.

Lemma land_apart a b : Nat.land a mask = Nat.land b mask -> a < b -> a + mask + 1 <= b.
Proof.
  unfold mask at 1 2. rewrite !Nat.land_ones. intros He Hlt.
  assert (Hn : 2 ^ k <> 0) by (apply Nat.pow_nonzero; discriminate).
  pose proof (Nat.div_mod a (2 ^ k) Hn) as Ha. pose proof (Nat.div_mod b (2 ^ k) Hn) as Hb.
  pose proof (Nat.mod_upper_bound a (2 ^ k) Hn).
  rewrite He in Ha.
  assert (a / 2 ^ k < b / 2 ^ k) by nia.
  pose proof mask_succ. nia.
Qed.

Lemma land_small i : i <= mask -> Nat.land i mask = i.
Proof.
  intros. unfold mask at 1. rewrite Nat.land_ones. apply Nat.mod_small. pose proof mask_succ. lia.
Qed.
End LandFacts.

(* ------------------------------------------------------------------------------------------ *)
Local Opaque Nat.land.

Section Q.
Variable mask : nat.
Local Notation idx t := (Nat.land t mask).
Hypothesis I1 : forall t, idx t <= mask.
Hypothesis I2 : forall t, idx (t + mask + 1) = idx t.
Hypothesis I3 : forall a b, idx a = idx b -> a < b -> a + mask + 1 <= b.
Hypothesis I4 : forall i, i <= mask -> idx i = i.

(* proof-only bookkeeping: per slot, the ticket bounds and the tickets of the stored payloads *)
Record aux := { hi : nat -> nat; lo : nat -> nat; slk : nat -> list nat }.

(* tickets a, a+n, a+2n, ... up to (excluding) b *)
Inductive chain : nat -> list nat -> nat -> Prop :=
| ch_nil a : chain a [] a
| ch_cons a l b : chain (a + mask + 1) l b -> chain a (a :: l) b.

Lemma chain_snoc a l b : chain a l b -> chain a (l ++ [b]) (b + mask + 1).
Proof. induction 1; cbn; constructor; [constructor | assumption]. Qed.
Lemma chain_le a l b : chain a l b -> a <= b.
Proof. induction 1; lia. Qed.

Definition payof (m : mon) (k : nat) : option nat := option_map snd (nth_error (wP m) k).

(* the program as the monitor sees it: operation in progress first *)
Definition cur (T : thread) : list op :=
  match tpc T with
  | Idle => tprog T
  | P1 v | P2 v _ | P3 v _ | P4 v _ | P5 v _ => Push v :: tprog T
  | C1 | C2 _ | C3 _ | C3a _ | C4 _ | C5 _ _ => Pop :: tprog T
  end.

Lemma cur_start prog : cur (start prog) = prog.
Proof. destruct prog as [|[v|] r]; reflexivity. Qed.

(* what thread t knows at each program point *)
Definition TI (s : st) (m : mon) (a : aux) (t : nat) (p : pc) : Prop :=
  match p with
  | Idle | P1 _ | P2 _ _ | C1 => True
  | P3 v pw => pw <= sp s (idx pw)
  | P4 v pw => sp s (idx pw) = pw /\ pw < pP s /\ hi a (idx pw) = pw /\
               nth_error (wP m) pw = Some (t, v)
  | P5 v pw => sp s (idx pw) = pw /\ pw < pP s /\ hi a (idx pw) = pw + mask + 1 /\
               nth_error (wP m) pw = Some (t, v)
  | C2 pr => pr <= pC s
  | C3 pr => pr <= pC s /\ pr <= sc s (idx pr)
  | C3a pr => pr <= sc s (idx pr) /\ pr < sp s (idx pr)
  | C4 pr => sc s (idx pr) = pr /\ pr < pC s /\ pr < sp s (idx pr) /\ lo a (idx pr) = pr /\
             nth_error (wC m) pr = Some t
  | C5 pr d => sc s (idx pr) = pr /\ pr < pC s /\ pr < sp s (idx pr) /\ lo a (idx pr) = pr + mask + 1 /\
               nth_error (wC m) pr = Some t /\ payof m pr = Some d
  end.

(* the ticket a thread holds between its CAS and its final store *)
Definition holdP (p : pc) : option nat := match p with P4 _ pw | P5 _ pw => Some pw | _ => None end.
Definition holdC (p : pc) : option nat := match p with C4 pr | C5 pr _ => Some pr | _ => None end.

Record Inv (s : st) (m : mon) (a : aux) : Prop := {
  i_lenP : length (wP m) = pP s;
  i_lenC : length (wC m) = pC s;
  i_congP : forall i, i <= mask -> idx (sp s i) = i;
  i_congC : forall i, i <= mask -> idx (sc s i) = i;
  i_bndP : forall i, i <= mask -> sp s i < pP s + mask + 1;
  i_bndC : forall i, i <= mask -> sc s i < pC s + mask + 1;
  i_scsp : forall i, i <= mask -> sc s i <= sp s i;
  i_done : forall k, mem k (pdone m) = true <-> k < sp s (idx k);
  i_claimed : forall k, k < pC s -> k < sp s (idx k);
  i_hi : forall i, i <= mask -> hi a i = sp s i \/ (hi a i = sp s i + mask + 1 /\ sp s i < pP s);
  i_lo : forall i, i <= mask -> lo a i = sc s i \/ (lo a i = sc s i + mask + 1 /\ sc s i < pC s);
  i_chain : forall i, i <= mask -> chain (lo a i) (slk a i) (hi a i);
  i_pay : forall i, i <= mask -> map Some (sl s i) = map (payof m) (slk a i);
  i_slk : forall i k, i <= mask -> In k (slk a i) -> k < pP s;
  i_rem : forall t, rem m t = cur (th s t);
  i_pend : forall t, pendP m t = holdP (tpc (th s t)) /\ pendC m t = holdC (tpc (th s t));
  i_th : forall t, TI s m a t (tpc (th s t));
  (* every ticket below a cursor is completed or held by a thread between its CAS and its final store *)
  i_heldP : forall k, k < pP s -> k < sp s (idx k) \/ exists t, holdP (tpc (th s t)) = Some k;
  i_heldC : forall k, k < pC s -> k < sc s (idx k) \/ exists t, holdC (tpc (th s t)) = Some k
}.

(* ---- initial state ---- *)
Definition aux_init : aux := {| hi := fun i => i; lo := fun i => i; slk := fun _ => [] |}.

Lemma inv_init progs : Inv (init progs) (mon_init progs) aux_init.
Proof.
  constructor; cbn; intros; auto; try lia.
  - split; [discriminate|]. destruct (le_lt_dec k mask) as [L|L]; [rewrite (I4 _ L) | pose proof (I1 k)]; lia.
  - constructor.
  - rewrite cur_start. reflexivity.
  - destruct (nth t progs []) as [|[v|] r]; split; reflexivity.
  - destruct (nth t progs []) as [|[v|] r]; exact I.
Qed.

(* ---- frame: a thread's knowledge survives the moves of the others ---- *)
Lemma nth_error_app_keep {A} (l : list A) x k y : nth_error l k = Some y -> nth_error (l ++ [x]) k = Some y.
Proof. intros H. rewrite nth_error_app1; [assumption|]. apply nth_error_Some. congruence. Qed.

Lemma TI_stable s m a s' m' a' t0 p :
  TI s m a t0 p ->
  pP s <= pP s' -> pC s <= pC s' ->
  (forall i, sp s i <= sp s' i) -> (forall i, sc s i <= sc s' i) ->
  (forall k x, nth_error (wP m) k = Some x -> nth_error (wP m') k = Some x) ->
  (forall k x, nth_error (wC m) k = Some x -> nth_error (wC m') k = Some x) ->
  (forall v pw, p = P4 v pw \/ p = P5 v pw ->
     sp s' (idx pw) = sp s (idx pw) /\ hi a' (idx pw) = hi a (idx pw)) ->
  (forall pr, p = C4 pr \/ (exists d, p = C5 pr d) ->
     sc s' (idx pr) = sc s (idx pr) /\ lo a' (idx pr) = lo a (idx pr)) ->
  TI s' m' a' t0 p.
Proof.
  intros H HP HC Hsp Hsc HwP HwC HholdP HholdC.
  destruct p; cbn [TI] in *; auto.
  - specialize (Hsp (idx pw)). lia.
  - destruct (HholdP v pw (or_introl eq_refl)) as [E1 E2]. rewrite E1, E2.
    destruct H as (?&?&?&?). repeat split; auto; lia.
  - destruct (HholdP v pw (or_intror eq_refl)) as [E1 E2]. rewrite E1, E2.
    destruct H as (?&?&?&?). repeat split; auto; lia.
  - lia.
  - specialize (Hsc (idx pr)). lia.
  - specialize (Hsc (idx pr)). specialize (Hsp (idx pr)). lia.
  - destruct (HholdC pr (or_introl eq_refl)) as [E1 E2]. rewrite E1, E2.
    destruct H as (?&?&?&?&?). specialize (Hsp (idx pr)). repeat split; auto; lia.
  - destruct (HholdC pr (or_intror (ex_intro _ d eq_refl))) as [E1 E2]. rewrite E1, E2.
    destruct H as (?&?&?&?&?&Hpay). specialize (Hsp (idx pr)). repeat split; auto; try lia.
    unfold payof in *. destruct (nth_error (wP m) pr) eqn:E; [|discriminate].
    rewrite (HwP _ _ E). exact Hpay.
Qed.

(* two different threads never hold the same slot on the same side *)

Lemma exclP s m a t t0 pw pw0 :
  Inv s m a -> t0 <> t -> holdP (tpc (th s t)) = Some pw -> holdP (tpc (th s t0)) = Some pw0 ->
  idx pw0 <> idx pw.
Proof.
  intros I Hne H1 H2 He.
  pose proof (i_th _ _ _ I t) as T1. pose proof (i_th _ _ _ I t0) as T2.
  assert (A1 : sp s (idx pw) = pw /\ exists v, nth_error (wP m) pw = Some (t, v)).
  { destruct (tpc (th s t)); try discriminate; injection H1 as ->; cbn [TI] in T1;
      destruct T1 as (?&?&?&?); eauto. }
  assert (A2 : sp s (idx pw0) = pw0 /\ exists v, nth_error (wP m) pw0 = Some (t0, v)).
  { destruct (tpc (th s t0)); try discriminate; injection H2 as ->; cbn [TI] in T2;
      destruct T2 as (?&?&?&?); eauto. }
  destruct A1 as (E1 & v1 & W1). destruct A2 as (E2 & v2 & W2).
  rewrite He in E2. assert (pw0 = pw) by congruence. subst pw0. congruence.
Qed.

Lemma exclC s m a t t0 pr pr0 :
  Inv s m a -> t0 <> t -> holdC (tpc (th s t)) = Some pr -> holdC (tpc (th s t0)) = Some pr0 ->
  idx pr0 <> idx pr.
Proof.
  intros I Hne H1 H2 He.
  pose proof (i_th _ _ _ I t) as T1. pose proof (i_th _ _ _ I t0) as T2.
  assert (A1 : sc s (idx pr) = pr /\ nth_error (wC m) pr = Some t).
  { destruct (tpc (th s t)); try discriminate; injection H1 as ->; cbn [TI] in T1.
    - destruct T1 as (?&?&?&?&?); eauto.
    - destruct T1 as (?&?&?&?&?&?); eauto. }
  assert (A2 : sc s (idx pr0) = pr0 /\ nth_error (wC m) pr0 = Some t0).
  { destruct (tpc (th s t0)); try discriminate; injection H2 as ->; cbn [TI] in T2.
    - destruct T2 as (?&?&?&?&?); eauto.
    - destruct T2 as (?&?&?&?&?&?); eauto. }
  destruct A1 as (E1 & W1). destruct A2 as (E2 & W2).
  rewrite He in E2. assert (pr0 = pr) by congruence. subst pr0. congruence.
Qed.

Lemma held_keep (f : pc -> option nat) (s : st) t X k :
  f (tpc X) = f (tpc (th s t)) ->
  (exists t0, f (tpc (th s t0)) = Some k) -> exists t0, f (tpc (upd (th s) t X t0)) = Some k.
Proof.
  intros E (t0 & H). exists t0. destruct (Nat.eq_dec t0 t) as [->|Hne];
    [rewrite upd_same; congruence | rewrite upd_other by assumption; assumption].
Qed.

Lemma held_other (f : pc -> option nat) (s : st) t X k :
  f (tpc (th s t)) = None ->
  (exists t0, f (tpc (th s t0)) = Some k) -> exists t0, f (tpc (upd (th s) t X t0)) = Some k.
Proof.
  intros E (t0 & H). exists t0. destruct (Nat.eq_dec t0 t) as [->|Hne];
    [congruence | rewrite upd_other by assumption; assumption].
Qed.

Lemma hold_start prog : holdP (tpc (start prog)) = None /\ holdC (tpc (start prog)) = None.
Proof. destruct prog as [|[w|] r]; split; reflexivity. Qed.

Ltac thcase t0 t :=
  destruct (Nat.eq_dec t0 t) as [->|?];
  [ rewrite ?upd_same | rewrite ?upd_other by assumption ].

Ltac stab :=
  cbn [pP pC sp sc sl th wP wC pdone pendP pendC rem hi lo slk];
  intros; auto; try lia;
  try (rewrite ?upd_other by assumption; auto; fail);
  try (split; reflexivity);
  try (apply nth_error_app_keep; assumption).

(* steps that touch nothing shared: only thread t's program point (and, for an empty pop, the
   monitor's view of its program) changes *)
Lemma inv_local s m a t T' m' :
  Inv s m a ->
  wP m' = wP m -> wC m' = wC m -> pdone m' = pdone m -> pendP m' = pendP m -> pendC m' = pendC m ->
  (forall t0, t0 <> t -> rem m' t0 = rem m t0) -> rem m' t = cur T' ->
  holdP (tpc T') = None -> holdC (tpc T') = None -> holdP (tpc (th s t)) = None -> holdC (tpc (th s t)) = None ->
  TI s m a t (tpc T') ->
  Inv (set_th s t T') m' a.
Proof.
  intros I E1 E2 E3 E4 E5 Hrem Hremt Hh1 Hh2 Hh3 Hh4 HT.
  assert (Hstab : forall t0 p, TI s m a t0 p -> TI (set_th s t T') m' a t0 p).
  { intros t0 p H. eapply TI_stable; [exact H | unfold set_th; stab ..].
    - rewrite E1; assumption.
    - rewrite E2; assumption. }
  constructor; unfold set_th; cbn [pP pC sp sc sl th]; rewrite ?E1, ?E2, ?E3; try apply I.
  - intros i Hi. rewrite (i_pay _ _ _ I i Hi). apply map_ext. intros k. unfold payof. rewrite E1. reflexivity.
  - intros t0. thcase t0 t; [assumption | rewrite Hrem by assumption; apply I].
  - intros t0. rewrite E4, E5. destruct (i_pend _ _ _ I t0) as [A B]. rewrite A, B.
    thcase t0 t; [rewrite Hh1, Hh2, Hh3, Hh4|]; split; reflexivity.
  - intros t0. thcase t0 t; [apply (Hstab t _ HT) | apply (Hstab t0 _ (i_th _ _ _ I t0))].
  - intros k Hk. destruct (i_heldP _ _ _ I k Hk) as [L|H]; [left; assumption | right].
    apply held_keep; [congruence | assumption].
  - intros k Hk. destruct (i_heldC _ _ _ I k Hk) as [L|H]; [left; assumption | right].
    apply held_keep; [congruence | assumption].
Qed.

Lemma slot_eq s m a pw : Inv s m a -> pw <= sp s (idx pw) -> sp s (idx pw) < pw + mask + 1 -> sp s (idx pw) = pw.
Proof.
  intros I H1 H2. pose proof (i_congP _ _ _ I _ (I1 pw)) as Hc.
  destruct (Nat.eq_dec (sp s (idx pw)) pw); [assumption|].
  assert (L : pw < sp s (idx pw)) by lia. pose proof (I3 pw (sp s (idx pw)) (eq_sym Hc) L). lia.
Qed.

Lemma slot_eqC s m a pr : Inv s m a -> pr <= sc s (idx pr) -> sc s (idx pr) < pr + mask + 1 -> sc s (idx pr) = pr.
Proof.
  intros I H1 H2. pose proof (i_congC _ _ _ I _ (I1 pr)) as Hc.
  destruct (Nat.eq_dec (sc s (idx pr)) pr); [assumption|].
  assert (L : pr < sc s (idx pr)) by lia. pose proof (I3 pr (sc s (idx pr)) (eq_sym Hc) L). lia.
Qed.

(* the producer's CAS wins ticket pw = preadP *)
Lemma pres_P3 s m a t v pw :
  Inv s m a -> tpc (th s t) = P3 v pw -> pP s = pw ->
  Inv {| pP := pw + 1; pC := pC s; sp := sp s; sc := sc s; sl := sl s;
         th := upd (th s) t {| tpc := P4 v pw; tprog := tprog (th s t) |} |}
      {| wP := wP m ++ [(t, v)]; wC := wC m; pdone := pdone m;
         pendP := upd (pendP m) t (Some pw); pendC := pendC m; rem := rem m |} a.
Proof.
  intros I Hpc HP.
  pose proof (i_th _ _ _ I t) as Ht. rewrite Hpc in Ht. cbn [TI] in Ht.
  pose proof (I1 pw) as Hi.
  assert (Hsp : sp s (idx pw) = pw).
  { apply (slot_eq s m a); auto. pose proof (i_bndP _ _ _ I _ Hi). lia. }
  constructor; cbn [pP pC sp sc sl th wP wC pdone pendP pendC rem]; try apply I.
  - rewrite app_length, (i_lenP _ _ _ I). cbn. lia.
  - intros i Hi'. pose proof (i_bndP _ _ _ I i Hi'). lia.
  - intros i Hi'. destruct (i_hi _ _ _ I i Hi') as [E|[E L]]; [left; exact E | right; split; [exact E | lia]].
  - intros i Hi'. rewrite (i_pay _ _ _ I i Hi'). apply map_ext_in. intros k Hk.
    pose proof (i_slk _ _ _ I i k Hi' Hk). unfold payof. cbn [wP].
    rewrite nth_error_app1; [reflexivity | rewrite (i_lenP _ _ _ I); assumption].
  - intros i k Hi' Hk. pose proof (i_slk _ _ _ I i k Hi' Hk). lia.
  - intros t0. thcase t0 t; [|apply I].
    rewrite (i_rem _ _ _ I t). unfold cur. rewrite Hpc. reflexivity.
  - intros t0. destruct (i_pend _ _ _ I t0) as [A B]. thcase t0 t; [|split; assumption].
    cbn [tpc holdP holdC]. rewrite B, Hpc. split; reflexivity.
  - intros t0. thcase t0 t.
    + cbn [tpc TI pP sp wP]. repeat split; try lia.
      * destruct (i_hi _ _ _ I _ Hi) as [E|[E L]]; lia.
      * rewrite nth_error_app2, (i_lenP _ _ _ I), HP, Nat.sub_diag; [reflexivity | rewrite (i_lenP _ _ _ I); lia].
    + eapply TI_stable; [apply (i_th _ _ _ I t0) | stab ..].
  - intros k Hk. destruct (Nat.eq_dec k pw) as [->|Hne].
    + right. exists t. rewrite upd_same. reflexivity.
    + destruct (i_heldP _ _ _ I k) as [L|H]; [lia | left; assumption | right].
      apply held_other; [rewrite Hpc; reflexivity | assumption].
  - intros k Hk. destruct (i_heldC _ _ _ I k Hk) as [L|H]; [left; assumption | right].
    apply held_keep; [rewrite Hpc; reflexivity | assumption].
Qed.

(* the producer stores its payload in the slot buffer *)
Lemma pres_P4 s m a t v pw :
  Inv s m a -> tpc (th s t) = P4 v pw ->
  Inv {| pP := pP s; pC := pC s; sp := sp s; sc := sc s;
         sl := upd (sl s) (idx pw) (sl s (idx pw) ++ [v]);
         th := upd (th s) t {| tpc := P5 v pw; tprog := tprog (th s t) |} |}
      m
      {| hi := upd (hi a) (idx pw) (pw + mask + 1); lo := lo a;
         slk := upd (slk a) (idx pw) (slk a (idx pw) ++ [pw]) |}.
Proof.
  intros I Hpc.
  pose proof (i_th _ _ _ I t) as Ht. rewrite Hpc in Ht. cbn [TI] in Ht.
  destruct Ht as (Hsp & HltP & Hhi & HwP).
  pose proof (I1 pw) as Hi.
  constructor; cbn [pP pC sp sc sl th hi lo slk]; try apply I.
  - intros i Hi'. destruct (Nat.eq_dec i (idx pw)) as [->|Hne]; [rewrite upd_same | rewrite upd_other by assumption].
    + right. split; lia.
    + apply I; assumption.
  - intros i Hi'. destruct (Nat.eq_dec i (idx pw)) as [->|Hne]; [rewrite !upd_same | rewrite !upd_other by assumption].
    + pose proof (i_chain _ _ _ I _ Hi) as Hc. rewrite Hhi in Hc. apply chain_snoc. exact Hc.
    + apply I; assumption.
  - intros i Hi'. destruct (Nat.eq_dec i (idx pw)) as [->|Hne]; [rewrite !upd_same | rewrite !upd_other by assumption].
    + rewrite !map_app, (i_pay _ _ _ I _ Hi). cbn [map]. unfold payof at 3. rewrite HwP. reflexivity.
    + apply I; assumption.
  - intros i k Hi'. destruct (Nat.eq_dec i (idx pw)) as [->|Hne]; [rewrite !upd_same | rewrite !upd_other by assumption].
    + intros Hk. apply in_app_or in Hk. destruct Hk as [Hk|[<-|[]]]; [eapply (i_slk _ _ _ I); eassumption | assumption].
    + apply (i_slk _ _ _ I); assumption.
  - intros t0. thcase t0 t; [|apply I].
    rewrite (i_rem _ _ _ I t). unfold cur. rewrite Hpc. reflexivity.
  - intros t0. destruct (i_pend _ _ _ I t0) as [A B]. thcase t0 t; [|split; assumption].
    cbn [tpc holdP holdC]. rewrite A, B, Hpc. split; reflexivity.
  - intros t0. thcase t0 t.
    + cbn [tpc TI pP sp wP hi]. rewrite upd_same. repeat split; assumption.
    + eapply TI_stable; [apply (i_th _ _ _ I t0) | stab ..].
      * split; [reflexivity|]. apply upd_other.
        eapply (exclP s m a t t0); eauto; [rewrite Hpc; reflexivity | destruct H as [-> | ->]; reflexivity].
  - intros k Hk. destruct (i_heldP _ _ _ I k Hk) as [L|H]; [left; assumption | right].
    apply held_keep; [rewrite Hpc; reflexivity | assumption].
  - intros k Hk. destruct (i_heldC _ _ _ I k Hk) as [L|H]; [left; assumption | right].
    apply held_keep; [rewrite Hpc; reflexivity | assumption].
Qed.

(* the producer publishes: seqP[idx] := pw + mask + 1, push returns *)
Lemma pres_P5 s m a t v pw :
  Inv s m a -> tpc (th s t) = P5 v pw ->
  Inv {| pP := pP s; pC := pC s; sp := upd (sp s) (idx pw) (pw + mask + 1); sc := sc s; sl := sl s;
         th := upd (th s) t (start (tprog (th s t))) |}
      {| wP := wP m; wC := wC m; pdone := pw :: pdone m;
         pendP := upd (pendP m) t None; pendC := pendC m;
         rem := upd (rem m) t (tl (rem m t)) |} a.
Proof.
  intros I Hpc.
  pose proof (i_th _ _ _ I t) as Ht. rewrite Hpc in Ht. cbn [TI] in Ht.
  destruct Ht as (Hsp & HltP & Hhi & HwP).
  pose proof (I1 pw) as Hi.
  assert (Hmono : forall i, sp s i <= upd (sp s) (idx pw) (pw + mask + 1) i).
  { intros i. destruct (Nat.eq_dec i (idx pw)) as [->|Hne]; [rewrite upd_same; lia | rewrite upd_other by assumption; lia]. }
  constructor; cbn [pP pC sp sc sl th wP wC pdone pendP pendC rem]; try apply I.
  - intros i Hi'. destruct (Nat.eq_dec i (idx pw)) as [->|Hne]; [rewrite upd_same | rewrite upd_other by assumption].
    + apply I2. + apply I; assumption.
  - intros i Hi'. destruct (Nat.eq_dec i (idx pw)) as [->|Hne]; [rewrite upd_same | rewrite upd_other by assumption].
    + lia. + apply I; assumption.
  - intros i Hi'. pose proof (i_scsp _ _ _ I i Hi'). specialize (Hmono i). lia.
  - (* returned pushes = tickets below their slot's sequence number *)
    intros k. cbn [mem existsb]. fold (mem k (pdone m)).
    destruct (Nat.eq_dec (idx k) (idx pw)) as [He|Hne].
    + rewrite He, upd_same. rewrite orb_true_iff, Nat.eqb_eq, (i_done _ _ _ I k), He, Hsp.
      split; [intros [->|]; lia|]. intros Hlt.
      destruct (Nat.eq_dec k pw); [left; assumption | right].
      destruct (le_lt_dec k pw); [lia|]. pose proof (I3 pw k (eq_sym He)). lia.
    + rewrite upd_other by assumption. rewrite orb_true_iff, Nat.eqb_eq, (i_done _ _ _ I k).
      split; [intros [->|]; [congruence | assumption] | right; assumption].
  - intros k Hk. pose proof (i_claimed _ _ _ I k Hk). specialize (Hmono (idx k)). lia.
  - intros i Hi'. destruct (Nat.eq_dec i (idx pw)) as [->|Hne]; [rewrite upd_same | rewrite upd_other by assumption].
    + left. assumption. + apply I; assumption.
  - intros t0. thcase t0 t; [|apply I]. rewrite (i_rem _ _ _ I t). unfold cur at 1. rewrite Hpc. cbn [tl].
    symmetry. apply cur_start.
  - intros t0. destruct (i_pend _ _ _ I t0) as [A B]. thcase t0 t; [|split; assumption].
    rewrite B, Hpc. destruct (tprog (th s t)) as [|[w|] r]; split; reflexivity.
  - intros t0. thcase t0 t.
    + destruct (tprog (th s t)) as [|[w|] r]; exact Logic.I.
    + eapply TI_stable; [apply (i_th _ _ _ I t0) | stab ..].
      * split; [|reflexivity]. apply upd_other.
        eapply (exclP s m a t t0); eauto; [rewrite Hpc; reflexivity | destruct H as [-> | ->]; reflexivity].
  - intros k Hk. destruct (i_heldP _ _ _ I k Hk) as [L|(t0 & H)].
    + left. specialize (Hmono (idx k)). lia.
    + destruct (Nat.eq_dec t0 t) as [->|Hne].
      * rewrite Hpc in H. cbn in H. injection H as <-. left. rewrite upd_same. lia.
      * right. exists t0. rewrite upd_other by assumption. assumption.
  - intros k Hk. destruct (i_heldC _ _ _ I k Hk) as [L|H]; [left; assumption | right].
    apply held_keep; [rewrite Hpc; apply hold_start | assumption].
Qed.

(* the consumer's CAS wins ticket pr = preadC *)
Lemma pres_C3a s m a t pr :
  Inv s m a -> tpc (th s t) = C3a pr -> pC s = pr ->
  Inv {| pP := pP s; pC := pr + 1; sp := sp s; sc := sc s; sl := sl s;
         th := upd (th s) t {| tpc := C4 pr; tprog := tprog (th s t) |} |}
      {| wP := wP m; wC := wC m ++ [t]; pdone := pdone m;
         pendP := pendP m; pendC := upd (pendC m) t (Some pr); rem := rem m |} a.
Proof.
  intros I Hpc HC.
  pose proof (i_th _ _ _ I t) as Ht. rewrite Hpc in Ht. cbn [TI] in Ht. destruct Ht as (Hle & Hlt).
  pose proof (I1 pr) as Hi.
  assert (Hsc : sc s (idx pr) = pr).
  { apply (slot_eqC s m a); auto. pose proof (i_bndC _ _ _ I _ Hi). lia. }
  constructor; cbn [pP pC sp sc sl th wP wC pdone pendP pendC rem]; try apply I.
  - rewrite app_length, (i_lenC _ _ _ I). cbn. lia.
  - intros i Hi'. pose proof (i_bndC _ _ _ I i Hi'). lia.
  - intros k Hk. destruct (Nat.eq_dec k pr) as [->|]; [assumption | apply (i_claimed _ _ _ I); lia].
  - intros i Hi'. destruct (i_lo _ _ _ I i Hi') as [E|[E L]]; [left; exact E | right; split; [exact E | lia]].
  - intros t0. thcase t0 t; [|apply I].
    rewrite (i_rem _ _ _ I t). unfold cur. rewrite Hpc. reflexivity.
  - intros t0. destruct (i_pend _ _ _ I t0) as [A B]. thcase t0 t; [|split; assumption].
    cbn [tpc holdP holdC]. rewrite A, Hpc. split; reflexivity.
  - intros t0. thcase t0 t.
    + cbn [tpc TI pC sc sp wC]. repeat split; try lia.
      * destruct (i_lo _ _ _ I _ Hi) as [E|[E L]]; lia.
      * rewrite nth_error_app2, (i_lenC _ _ _ I), HC, Nat.sub_diag; [reflexivity | rewrite (i_lenC _ _ _ I); lia].
    + eapply TI_stable; [apply (i_th _ _ _ I t0) | stab ..].
  - intros k Hk. destruct (i_heldP _ _ _ I k Hk) as [L|H]; [left; assumption | right].
    apply held_keep; [rewrite Hpc; reflexivity | assumption].
  - intros k Hk. destruct (Nat.eq_dec k pr) as [->|Hne].
    + right. exists t. rewrite upd_same. reflexivity.
    + destruct (i_heldC _ _ _ I k) as [L|H]; [lia | left; assumption | right].
      apply held_other; [rewrite Hpc; reflexivity | assumption].
Qed.

(* the consumer takes the head of the slot buffer: it is the payload of its own ticket *)
Lemma pres_C4 s m a t pr :
  Inv s m a -> tpc (th s t) = C4 pr ->
  exists d rest, sl s (idx pr) = d :: rest /\ payof m pr = Some d /\
  Inv {| pP := pP s; pC := pC s; sp := sp s; sc := sc s; sl := upd (sl s) (idx pr) rest;
         th := upd (th s) t {| tpc := C5 pr d; tprog := tprog (th s t) |} |}
      m
      {| hi := hi a; lo := upd (lo a) (idx pr) (pr + mask + 1);
         slk := upd (slk a) (idx pr) (tl (slk a (idx pr))) |}.
Proof.
  intros I Hpc.
  pose proof (i_th _ _ _ I t) as Ht. rewrite Hpc in Ht. cbn [TI] in Ht.
  destruct Ht as (Hsc & HltC & HltP & Hlo & HwC).
  pose proof (I1 pr) as Hi.
  pose proof (i_chain _ _ _ I _ Hi) as Hch. rewrite Hlo in Hch.
  pose proof (i_pay _ _ _ I _ Hi) as Hpay.
  assert (Hhi : sp s (idx pr) <= hi a (idx pr)) by (destruct (i_hi _ _ _ I _ Hi) as [E|[E _]]; lia).
  inversion Hch as [x Ex Ey | x l b Hch' Ex Ey Ez]; [lia|]. subst x b.
  rewrite <- Ey in Hpay. destruct (sl s (idx pr)) as [|d rest] eqn:Hsl; [discriminate|].
  cbn [map] in Hpay. injection Hpay as Hd Hrest.
  exists d, rest. split; [reflexivity|]. split; [symmetry; exact Hd|].
  constructor; cbn [pP pC sp sc sl th hi lo slk]; try apply I.
  - intros i Hi'. destruct (Nat.eq_dec i (idx pr)) as [->|Hne]; [rewrite upd_same | rewrite upd_other by assumption].
    + right. split; lia.
    + apply I; assumption.
  - intros i Hi'. destruct (Nat.eq_dec i (idx pr)) as [->|Hne]; [rewrite !upd_same | rewrite !upd_other by assumption].
    + rewrite <- ?Ey. cbn [tl]. exact Hch'.
    + apply I; assumption.
  - intros i Hi'. destruct (Nat.eq_dec i (idx pr)) as [->|Hne]; [rewrite !upd_same | rewrite !upd_other by assumption].
    + rewrite <- ?Ey. cbn [tl]. exact Hrest.
    + apply I; assumption.
  - intros i k Hi'. destruct (Nat.eq_dec i (idx pr)) as [->|Hne]; [rewrite !upd_same | rewrite !upd_other by assumption].
    + intros Hk. apply (i_slk _ _ _ I (idx pr) k Hi). rewrite <- ?Ey in *. cbn [tl] in Hk. right. exact Hk.
    + apply (i_slk _ _ _ I); assumption.
  - intros t0. thcase t0 t; [|apply I].
    rewrite (i_rem _ _ _ I t). unfold cur. rewrite Hpc. reflexivity.
  - intros t0. destruct (i_pend _ _ _ I t0) as [A B]. thcase t0 t; [|split; assumption].
    cbn [tpc holdP holdC]. rewrite A, B, Hpc. split; reflexivity.
  - intros t0. thcase t0 t.
    + cbn [tpc TI pC sc sp wC lo]. rewrite upd_same. repeat split; try assumption. symmetry; exact Hd.
    + eapply TI_stable; [apply (i_th _ _ _ I t0) | stab ..].
      * split; [reflexivity|]. apply upd_other.
        eapply (exclC s m a t t0); eauto; [rewrite Hpc; reflexivity | destruct H as [-> | [d0 ->]]; reflexivity].
  - intros k Hk. destruct (i_heldP _ _ _ I k Hk) as [L|H]; [left; assumption | right].
    apply held_keep; [rewrite Hpc; reflexivity | assumption].
  - intros k Hk. destruct (i_heldC _ _ _ I k Hk) as [L|H]; [left; assumption | right].
    apply held_keep; [rewrite Hpc; reflexivity | assumption].
Qed.

(* the consumer releases the slot: seqC[idx] := pr + mask + 1, pop returns d *)
Lemma pres_C5 s m a t pr d :
  Inv s m a -> tpc (th s t) = C5 pr d ->
  Inv {| pP := pP s; pC := pC s; sp := sp s; sc := upd (sc s) (idx pr) (pr + mask + 1); sl := sl s;
         th := upd (th s) t (start (tprog (th s t))) |}
      {| wP := wP m; wC := wC m; pdone := pdone m;
         pendP := pendP m; pendC := upd (pendC m) t None;
         rem := upd (rem m) t (tl (rem m t)) |} a.
Proof.
  intros I Hpc.
  pose proof (i_th _ _ _ I t) as Ht. rewrite Hpc in Ht. cbn [TI] in Ht.
  destruct Ht as (Hsc & HltC & HltP & Hlo & HwC & Hpay).
  pose proof (I1 pr) as Hi.
  assert (Hmono : forall i, sc s i <= upd (sc s) (idx pr) (pr + mask + 1) i).
  { intros i. destruct (Nat.eq_dec i (idx pr)) as [->|Hne]; [rewrite upd_same; lia | rewrite upd_other by assumption; lia]. }
  constructor; cbn [pP pC sp sc sl th wP wC pdone pendP pendC rem]; try apply I.
  - intros i Hi'. destruct (Nat.eq_dec i (idx pr)) as [->|Hne]; [rewrite upd_same | rewrite upd_other by assumption].
    + apply I2. + apply I; assumption.
  - intros i Hi'. destruct (Nat.eq_dec i (idx pr)) as [->|Hne]; [rewrite upd_same | rewrite upd_other by assumption].
    + lia. + apply I; assumption.
  - intros i Hi'. destruct (Nat.eq_dec i (idx pr)) as [->|Hne]; [rewrite upd_same | rewrite upd_other by assumption].
    + pose proof (i_congP _ _ _ I _ Hi) as Hc. pose proof (I3 pr (sp s (idx pr)) (eq_sym Hc) HltP). lia.
    + apply I; assumption.
  - intros i Hi'. destruct (Nat.eq_dec i (idx pr)) as [->|Hne]; [rewrite upd_same | rewrite upd_other by assumption].
    + left. assumption. + apply I; assumption.
  - intros t0. thcase t0 t; [|apply I]. rewrite (i_rem _ _ _ I t). unfold cur at 1. rewrite Hpc. cbn [tl].
    symmetry. apply cur_start.
  - intros t0. destruct (i_pend _ _ _ I t0) as [A B]. thcase t0 t; [|split; assumption].
    rewrite A, Hpc. destruct (tprog (th s t)) as [|[w|] r]; split; reflexivity.
  - intros t0. thcase t0 t.
    + destruct (tprog (th s t)) as [|[w|] r]; exact Logic.I.
    + eapply TI_stable; [apply (i_th _ _ _ I t0) | stab ..].
      * split; [|reflexivity]. apply upd_other.
        eapply (exclC s m a t t0); eauto; [rewrite Hpc; reflexivity | destruct H as [-> | [d0 ->]]; reflexivity].
  - intros k Hk. destruct (i_heldP _ _ _ I k Hk) as [L|H]; [left; assumption | right].
    apply held_keep; [rewrite Hpc; apply hold_start | assumption].
  - intros k Hk. destruct (i_heldC _ _ _ I k Hk) as [L|(t0 & H)].
    + left. specialize (Hmono (idx k)). lia.
    + destruct (Nat.eq_dec t0 t) as [->|Hne].
      * rewrite Hpc in H. cbn in H. injection H as <-. left. rewrite upd_same. lia.
      * right. exists t0. rewrite upd_other by assumption. assumption.
Qed.

Lemma TI_start s m a t prog : TI s m a t (tpc (start prog)).
Proof. destruct prog as [|[w|] r]; exact Logic.I. Qed.

(* ---- every step of every thread: the monitor accepts its events and the invariant survives ---- *)
Lemma step_inv t s m a :
  Inv s m a ->
  exists m' a', mons m (snd (step mask t s)) = Some m' /\ Inv (fst (step mask t s)) m' a'.
Proof.
  intros I. unfold step.
  pose proof (i_th _ _ _ I t) as Ht. pose proof (i_rem _ _ _ I t) as Hrem. unfold cur in Hrem.
  destruct (i_pend _ _ _ I t) as [HpP HpC]. unfold idle.
  assert (Hloc : forall p, cur {| tpc := p; tprog := tprog (th s t) |} = rem m t ->
                 holdP p = None -> holdC p = None -> pendP m t = None -> pendC m t = None ->
                 TI s m a t p -> Inv (goto s t p) m a).
  { intros p Hc H1 H2 H3 H4 HT. unfold goto. apply (inv_local s m a); auto; congruence. }
  destruct (tpc (th s t)) eqn:Hpc; cbn [TI] in Ht; cbn [holdP holdC] in HpP, HpC.
  - (* Idle *) exists m, a. split; [reflexivity | exact I].
  - (* P1 *) exists m, a. split; [reflexivity|]. apply Hloc; auto; try (rewrite Hrem; reflexivity); try exact Logic.I.
  - (* P2 *) exists m, a. split; [reflexivity|].
    destruct (Nat.eqb_spec pw (sp s (idx pw))); apply Hloc; auto; try (rewrite Hrem; reflexivity); try exact Logic.I; try (cbn [TI]; lia).
  - (* P3 *) destruct (Nat.eqb_spec (pP s) pw) as [HP|HP]; cbn [fst snd].
    + eexists; exists a. split; [|apply (pres_P3 s m a t v pw I Hpc HP)].
      cbn [mons mon_step]. unfold idle.
      rewrite (i_lenP _ _ _ I), HP, Nat.eqb_refl, Hrem, HpP, HpC. cbn [hd_error is_push andb].
      rewrite Nat.eqb_refl. reflexivity.
    + exists m, a. split; [reflexivity|]. apply Hloc; auto; try (rewrite Hrem; reflexivity); try exact Logic.I.
  - (* P4 *) cbn [fst snd]. eexists; eexists. split; [|apply (pres_P4 s m a t v pw I Hpc)]. reflexivity.
  - (* P5 *) cbn [fst snd]. destruct Ht as (Hsp & HltP & Hhi & HwP).
    eexists; exists a. split; [|apply (pres_P5 s m a t v pw I Hpc)].
    cbn [mons mon_step]. rewrite HpP, HwP, Hrem. cbn [hd_error is_push].
    rewrite !Nat.eqb_refl. reflexivity.
  - (* C1 *) exists m, a. split; [reflexivity|]. apply Hloc; auto; try (rewrite Hrem; reflexivity); try exact Logic.I; try (cbn [TI]; lia).
  - (* C2 *) exists m, a. split; [reflexivity|].
    destruct (Nat.eqb_spec pr (sc s (idx pr))); apply Hloc; auto; try (rewrite Hrem; reflexivity); try exact Logic.I; try (cbn [TI]; lia).
  - (* C3 *) destruct Ht as (HleC & Hle).
    destruct (Nat.leb_spec (sp s (idx pr)) pr) as [Hx|Hx]; cbn [fst snd].
    + (* pop reports empty *)
      assert (HprC : pr = pC s).
      { destruct (Nat.eq_dec pr (pC s)); [assumption|].
        assert (L : pr < pC s) by lia. pose proof (i_claimed _ _ _ I pr L). lia. }
      assert (Hnd : mem pr (pdone m) = false).
      { destruct (mem pr (pdone m)) eqn:E; [|reflexivity]. apply (i_done _ _ _ I) in E. lia. }
      eexists; exists a. split.
      * cbn [mons mon_step]. unfold idle.
        rewrite (i_lenC _ _ _ I), <- HprC, Nat.eqb_refl, Hnd, Hrem, HpP, HpC.
        cbn [hd_error is_pop negb andb]. reflexivity.
      * apply (inv_local s m a); cbn [wP wC pdone pendP pendC rem]; auto.
        -- intros. apply upd_other; assumption.
        -- rewrite upd_same, cur_start. reflexivity.
        -- destruct (tprog (th s t)) as [|[w|] r]; reflexivity.
        -- destruct (tprog (th s t)) as [|[w|] r]; reflexivity.
        -- rewrite Hpc; reflexivity.
        -- rewrite Hpc; reflexivity.
        -- apply TI_start.
    + exists m, a. split; [reflexivity|]. apply Hloc; auto; try (rewrite Hrem; reflexivity); try exact Logic.I; try (cbn [TI]; lia).
  - (* C3a *) destruct Ht as (Hle & Hlt).
    destruct (Nat.eqb_spec (pC s) pr) as [HC|HC]; cbn [fst snd].
    + eexists; exists a. split; [|apply (pres_C3a s m a t pr I Hpc HC)].
      cbn [mons mon_step]. unfold idle. rewrite (i_lenC _ _ _ I), HC, Nat.eqb_refl, Hrem, HpP, HpC.
      rewrite (proj2 (i_done _ _ _ I pr) Hlt). reflexivity.
    + exists m, a. split; [reflexivity|]. apply Hloc; auto; try (rewrite Hrem; reflexivity); try exact Logic.I.
  - (* C4 *) destruct (pres_C4 s m a t pr I Hpc) as (d & rest & Hsl & Hpay & I').
    rewrite Hsl. cbn [fst snd]. eexists; eexists. split; [|exact I']. reflexivity.
  - (* C5 *) cbn [fst snd]. destruct Ht as (Hsc & HltC & HltP & Hlo & HwC & Hpay).
    eexists; exists a. split; [|apply (pres_C5 s m a t pr d I Hpc)].
    cbn [mons mon_step]. rewrite HpC, Hrem. unfold payof in Hpay.
    destruct (nth_error (wP m) pr) as [[t' v']|]; [|discriminate]. cbn in Hpay. injection Hpay as ->.
    rewrite !Nat.eqb_refl. reflexivity.
Qed.

(* ---- nothing is lost: when no thread is between its CAS and its final store, every reserved
   push has returned, and if pushes are ahead of pops (preadC < preadP) a pop that starts now and
   runs alone returns the payload of ticket preadC (its six shared actions) ---- *)
Lemma goto_fields s t p :
  pP (goto s t p) = pP s /\ pC (goto s t p) = pC s /\ sp (goto s t p) = sp s /\ sc (goto s t p) = sc s /\
  sl (goto s t p) = sl s /\ tpc (th (goto s t p) t) = p /\ tprog (th (goto s t p) t) = tprog (th s t).
Proof. unfold goto, set_th. cbn. rewrite upd_same. cbn. repeat split. Qed.

Lemma quiet_facts s m a :
  Inv s m a -> (forall u, holds_ticket (tpc (th s u)) = false) ->
  (forall k, k < pP s -> mem k (pdone m) = true) /\
  (pC s < pP s -> sc s (idx (pC s)) = pC s /\ pC s < sp s (idx (pC s)) /\
                  exists d rest, sl s (idx (pC s)) = d :: rest /\ payof m (pC s) = Some d).
Proof.
  intros I Q.
  assert (QP : forall k, k < pP s -> k < sp s (idx k)).
  { intros k Hk. destruct (i_heldP _ _ _ I k Hk) as [L|(u & H)]; [assumption|].
    specialize (Q u). destruct (tpc (th s u)); discriminate. }
  assert (QC : forall k, k < pC s -> k < sc s (idx k)).
  { intros k Hk. destruct (i_heldC _ _ _ I k Hk) as [L|(u & H)]; [assumption|].
    specialize (Q u). destruct (tpc (th s u)); discriminate. }
  split; [intros k Hk; apply (i_done _ _ _ I); auto|].
  intros Hlt. set (C := pC s) in *. pose proof (I1 C) as Hi.
  assert (Hsc : sc s (idx C) = C).
  { pose proof (i_bndC _ _ _ I _ Hi) as Hb. pose proof (i_congC _ _ _ I _ Hi) as Hc. fold C in Hb.
    destruct (lt_eq_lt_dec (sc s (idx C)) C) as [[L|E]|L]; [|assumption|].
    - pose proof (QC (sc s (idx C)) L) as H. rewrite Hc in H. lia.
    - pose proof (I3 C (sc s (idx C)) (eq_sym Hc) L). lia. }
  pose proof (QP C Hlt) as Hsp.
  split; [assumption|]. split; [assumption|].
  pose proof (i_chain _ _ _ I _ Hi) as Hch. pose proof (i_pay _ _ _ I _ Hi) as Hpay.
  assert (Hlo : lo a (idx C) = C) by (destruct (i_lo _ _ _ I _ Hi) as [E|[E L]]; [congruence | fold C in L; lia]).
  assert (Hhi : sp s (idx C) <= hi a (idx C)) by (destruct (i_hi _ _ _ I _ Hi) as [E|[E _]]; lia).
  rewrite Hlo in Hch. inversion Hch as [x Ex Ey | x l b Hch' Ex Ey Ez]; [lia|].
  rewrite <- Ey in Hpay. destruct (sl s (idx C)) as [|d rest]; [discriminate|].
  cbn [map] in Hpay. injection Hpay as Hd _. exists d, rest. split; [reflexivity | symmetry; exact Hd].
Qed.

Lemma solo_pop s m a t :
  Inv s m a -> (forall u, holds_ticket (tpc (th s u)) = false) -> pC s < pP s -> tpc (th s t) = C1 ->
  exists d evs, snd (run mask [t; t; t; t; t; t] s) = evs ++ [EDoneC t (pC s) d] /\ payof m (pC s) = Some d.
Proof.
  intros I Q Hlt Hpc.
  destruct (quiet_facts s m a I Q) as (_ & H). destruct (H Hlt) as (Hsc & Hsp & d & rest & Hsl & Hpay).
  exists d. set (C := pC s) in *.
  cbn [run].
  (* 1: read preadC *)
  unfold step at 1. rewrite Hpc. fold C.
  destruct (goto_fields s t (C2 C)) as (F1 & F2 & F3 & F4 & F5 & F6 & F7). set (s1 := goto s t (C2 C)) in *.
  (* 2: read seqC[idx] = C *)
  unfold step at 1. rewrite F6, F4, Hsc, Nat.eqb_refl.
  destruct (goto_fields s1 t (C3 C)) as (G1 & G2 & G3 & G4 & G5 & G6 & G7). set (s2 := goto s1 t (C3 C)) in *.
  (* 3: read seqP[idx] > C *)
  unfold step at 1. rewrite G6, G3, F3. destruct (Nat.leb_spec (sp s (idx C)) C) as [L|_]; [lia|].
  destruct (goto_fields s2 t (C3a C)) as (K1 & K2 & K3 & K4 & K5 & K6 & K7). set (s3 := goto s2 t (C3a C)) in *.
  (* 4: CAS on preadC succeeds *)
  unfold step at 1. rewrite K6, K2, G2, F2. fold C. rewrite Nat.eqb_refl.
  set (s4 := {| pP := pP s3; pC := C + 1; sp := sp s3; sc := sc s3; sl := sl s3;
                th := upd (th s3) t {| tpc := C4 C; tprog := tprog (th s3 t) |} |}).
  (* 5: slot pop *)
  unfold step at 1. change (th s4 t) with (upd (th s3) t {| tpc := C4 C; tprog := tprog (th s3 t) |} t).
  rewrite upd_same. cbn [tpc tprog]. change (sl s4) with (sl s3). rewrite K5, G5, F5, Hsl.
  (* 6: final store, pop returns d *)
  unfold step at 1. cbn [th]. rewrite upd_same. cbn [tpc tprog snd app].
  exists [ERd t C; ERd t C; ERd t (sp s (idx C)); ECas t C true; EWinC t C; ESlPop t (Some d); EWr t (C + mask + 1)].
  split; [reflexivity | exact Hpay].
Qed.

(* ---- schedules ---- *)
Lemma mons_app m e1 e2 :
  mons m (e1 ++ e2) = match mons m e1 with Some m1 => mons m1 e2 | None => None end.
Proof.
  revert m. induction e1 as [|e r IH]; intros m; cbn [app mons]; [reflexivity|].
  destruct (mon_step m e); [apply IH | reflexivity].
Qed.

Lemma run_inv sched : forall s m a, Inv s m a ->
  exists m' a', mons m (snd (run mask sched s)) = Some m' /\ Inv (fst (run mask sched s)) m' a'.
Proof.
  induction sched as [|t r IH]; intros s m a I; cbn [run].
  - exists m, a. split; [reflexivity | exact I].
  - destruct (step_inv t s m a I) as (m1 & a1 & Hm1 & I1').
    destruct (step mask t s) as [s1 e1]. cbn [fst snd] in *.
    destruct (IH s1 m1 a1 I1') as (m2 & a2 & Hm2 & I2').
    destruct (run mask r s1) as [s2 e2]. cbn [fst snd] in *.
    exists m2, a2. split; [|exact I2']. rewrite mons_app, Hm1. exact Hm2.
Qed.

Lemma run_app s1 : forall s2 s,
  run mask (s1 ++ s2) s =
  let (x, e1) := run mask s1 s in let (y, e2) := run mask s2 x in (y, e1 ++ e2).
Proof.
  induction s1 as [|t r IH]; intros s2 s; cbn [app run].
  - destruct (run mask s2 s); reflexivity.
  - destruct (step mask t s) as [x e]. rewrite IH.
    destruct (run mask r x) as [y e1]. destruct (run mask s2 y) as [z e2].
    rewrite app_assoc. reflexivity.
Qed.

Lemma drain_is_run fuel nthr : forall s, exists sched, drain mask fuel nthr s = run mask sched s.
Proof.
  induction fuel as [|f IH]; intros s; cbn [drain].
  - exists []. reflexivity.
  - destruct (rr_pass nthr s) as [|t0 pass] eqn:E; [exists []; reflexivity|].
    destruct (run mask (t0 :: pass) s) as [s1 e1] eqn:E1.
    destruct (IH s1) as (sch & Hs). rewrite Hs.
    exists ((t0 :: pass) ++ sch). rewrite run_app, E1. reflexivity.
Qed.

End Q.

(* ------------------------------------------------------------------------------------------ *)
(* the size computed by init is a power of two >= 2 *)
Lemma next_pow2_loop_pow fuel x : forall j, exists j', j <= j' /\ next_pow2_loop fuel x (2 ^ j) = 2 ^ j'.
Proof.
  induction fuel as [|f IH]; intros j; cbn [next_pow2_loop].
  - exists j. split; [lia | reflexivity].
  - destruct (Nat.ltb (2 ^ j) x).
    + destruct (IH (S j)) as (j' & L & E). exists j'. split; [lia|].
      rewrite <- E. f_equal.
    + exists j. split; [lia | reflexivity].
Qed.

Lemma norm_nq_pow2 nq : exists k, 1 <= k /\ norm_nq nq - 1 = Nat.ones k.
Proof.
  unfold norm_nq. set (x := if Nat.ltb nq 2 then 2 else nq).
  assert (Hx : 2 <= x) by (unfold x; destruct (Nat.ltb_spec nq 2); lia).
  destruct (is_pow2 x) eqn:E.
  - unfold is_pow2 in E. apply andb_true_iff in E. destruct E as [E _]. apply Nat.eqb_eq in E.
    exists (Nat.log2 x). split; [apply Nat.log2_pos; lia|].
    rewrite Nat.ones_equiv. rewrite <- E. lia.
  - destruct x as [|x']; [lia|]. cbn [next_pow2_loop].
    destruct (Nat.ltb_spec 1 (S x')) as [_|L]; [|lia].
    destruct (next_pow2_loop_pow x' (S x') 1) as (j' & L & E').
    exists j'. split; [assumption|]. change (2 * 1) with (2 ^ 1). rewrite E'.
    rewrite Nat.ones_equiv. lia.
Qed.

(* ------------------------------------------------------------------------------------------ *)
(* main theorem: on every schedule the monitor accepts the whole trace *)
Lemma c30_all_schedules_lemma : forall k progs sched, 1 <= k ->
  c30_ok progs (snd (run (Nat.ones k) sched (init progs))) = true.
Proof.
  intros k progs sched Hk.
  destruct (run_inv (Nat.ones k) (land_range k Hk) (land_period k Hk) (land_apart k Hk) sched _ _ _
              (inv_init (Nat.ones k) (land_range k Hk) (land_small k Hk) progs)) as (m' & a' & Hm & _).
  unfold c30_ok. rewrite Hm. reflexivity.
Qed.

Lemma c30_exec_lemma : forall nq progs sched fuel,
  c30_ok (all_progs progs) (exec nq progs sched fuel) = true.
Proof.
  intros nq progs sched fuel. unfold exec.
  destruct (norm_nq_pow2 nq) as (k & Hk & ->).
  set (sch0 := filter _ sched).
  destruct (run (Nat.ones k) sch0 (init (all_progs progs))) as [s1 e1] eqn:E1.
  destruct (drain_is_run (Nat.ones k) fuel (length progs) s1) as (sch1 & Hd1). rewrite Hd1.
  destruct (run (Nat.ones k) sch1 s1) as [s2 e2] eqn:E2.
  destruct (drain_is_run (Nat.ones k) fuel (S (length progs)) s2) as (sch2 & Hd2). rewrite Hd2.
  pose proof (c30_all_schedules_lemma k (all_progs progs) (sch0 ++ sch1 ++ sch2) Hk) as H.
  rewrite run_app, E1, run_app, E2 in H. destruct (run (Nat.ones k) sch2 s2) as [s3 e3]. exact H.
Qed.

(* ------------------------------------------------------------------------------------------ *)
(* the consequences of acceptance (C30/TraceProofs.v) for the traces of the model *)
Section Consequences.
Variables (k : nat) (progs : list (list op)) (sched : list nat).
Hypothesis Hk : 1 <= k.
Let tr := snd (run (Nat.ones k) sched (init progs)).
Let ok : c30_ok progs tr = true := c30_all_schedules_lemma k progs sched Hk.

Lemma c30_tickets_consecutive_lemma :
  ticketsP tr = seq 0 (length (ticketsP tr)) /\ ticketsC tr = seq 0 (length (ticketsC tr)).
Proof. exact (tickets_consecutive_lemma progs tr ok). Qed.

Lemma c30_ticket_order_lemma : forall tr1 t j d tr2, tr = tr1 ++ EDoneC t j d :: tr2 ->
  exists tp, In (EWinP tp j d) tr1 /\ In (EDoneP tp j d) tr1 /\ In (EWinC t j) tr1.
Proof. intros tr1 t j d tr2 E. apply (ticket_order_lemma progs tr1 t j d tr2). rewrite <- E. exact ok. Qed.

Lemma c30_reservation_order_lemma : forall a t1 k1 v1 b t2 k2 v2 c,
  tr = a ++ EWinP t1 k1 v1 :: b ++ EWinP t2 k2 v2 :: c -> k1 < k2.
Proof. intros a t1 k1 v1 b t2 k2 v2 c E. apply (reservation_order_lemma progs a t1 k1 v1 b t2 k2 v2 c). rewrite <- E. exact ok. Qed.

Lemma c30_at_most_once_lemma : NoDup (donesC tr) /\ NoDup (donesP tr).
Proof. exact (at_most_once_lemma progs tr ok). Qed.

Lemma c30_empty_only_if_lemma : forall tr1 t j tr2, tr = tr1 ++ EEmptyC t j :: tr2 ->
  j = length (ticketsC tr1) /\ forall tp v, ~ In (EDoneP tp j v) tr1.
Proof. intros tr1 t j tr2 E. apply (empty_only_if_lemma progs tr1 t j tr2). rewrite <- E. exact ok. Qed.

Lemma c30_program_order_lemma : forall t, exists rest, nth t progs [] = ops_of t tr ++ rest.
Proof. intros t. exact (program_order_lemma progs tr t ok). Qed.

Lemma c30_no_loss_lemma :
  let s := fst (run (Nat.ones k) sched (init progs)) in
  (forall u, holds_ticket (tpc (th s u)) = false) ->
  (forall j, j < pP s -> In j (donesP tr)) /\
  (forall t, pC s < pP s -> tpc (th s t) = C1 ->
     exists d tp evs, snd (run (Nat.ones k) [t; t; t; t; t; t] s) = evs ++ [EDoneC t (pC s) d] /\
                      In (EWinP tp (pC s) d) tr).
Proof.
  intros s Q.
  destruct (run_inv (Nat.ones k) (land_range k Hk) (land_period k Hk) (land_apart k Hk) sched _ _ _
              (inv_init (Nat.ones k) (land_range k Hk) (land_small k Hk) progs)) as (m' & a' & Hm & I).
  fold s in I. fold tr in Hm. pose proof (accepted_MI progs tr m' Hm) as M.
  destruct (quiet_facts (Nat.ones k) (land_range k Hk) (land_apart k Hk) s m' a' I Q) as (Hall & _).
  split.
  - intros j Hj. apply (m_doneP _ _ _ M). apply Hall. assumption.
  - intros t Hlt Hpc.
    destruct (solo_pop (Nat.ones k) (land_range k Hk) (land_apart k Hk) s m' a' t I Q Hlt Hpc) as (d & evs & E & Hpay).
    unfold payof in Hpay. destruct (nth_error (wP m') (pC s)) as [[tp v]|] eqn:Hn; [|discriminate].
    cbn in Hpay. injection Hpay as ->.
    exists d, tp, evs. split; [exact E | apply (m_wP _ _ _ M); exact Hn].
Qed.
End Consequences.

(* an experiment in which six elements go round a 2-slot queue (tickets wrap twice), with a
   failed CAS, an empty pop and a producer stalled between its CAS and its store: the monitor's
   checks are exercised and everything pushed is returned exactly once *)
Definition nv_progs : list (list op) :=
  [[Push 11; Push 12; Push 13]; [Push 21; Push 22; Push 23]; [Pop; Pop; Pop]; [Pop; Pop; Pop]].
Definition nv_sched : list nat := [2;2;2; 0;1;0;1;0;1; 3;3;3; 1;1;1;1;1; 2;2;2;2; 1;1;1;1;1;1;1;1; 3;3;3].
Lemma c30_nonvacuous_lemma :
  let tr := exec 2 nv_progs nv_sched 50 in
  c30_ok (all_progs nv_progs) tr = true /\ c30_final_ok (all_progs nv_progs) tr = true /\
  length (donesC tr) = 6 /\
  existsb (fun e => match e with EEmptyC _ _ => true | _ => false end) tr = true /\
  existsb (fun e => match e with ECas _ _ false => true | _ => false end) tr = true /\
  existsb (fun e => match e with EWinP _ 5 _ => true | _ => false end) tr = true.
Proof. vm_compute. repeat split. Qed.
