(* C22: trace-level theorems, by induction over timelines (Timeline.tl_run), for every decoder:
   the two timestamps supervision looks at are the observable instants; the state test_request_sent
   is entered only by a supervision tick; hence the trace-level forms of the Heartbeat rule and of
   what is true about the supervision Logout.  Proofs only. *)
From Coq Require Import NArith ZArith List Bool Lia.
From F8 Require Import Sess.Bytes Sess.Msg Sess.Persist Sess.Session Sess.Wire Sess.SessLemmas
  C22.Hyp C22.Spec_C22 C22.SendLemmas C22.HbProofs C22.Invariant C22.Timeline.
Import ListNotations.
Local Open Scope N_scope.

Lemma ev_out_has_out : forall e, ev_out e = has_out e.
Proof. reflexivity. Qed.
Lemma ev_ret_has_ret : forall e, ev_ret e = has_ret e.
Proof. reflexivity. Qed.

Section Trace.
Variable sc : schema.
Variable decode : bytes -> decode_result.
Variable fl : bytes.

(* ---- the tick, for an arbitrary session state ------------------------------------------------------------ *)
Definition P2 (now : Z) (s s' : sess) (e : list event) : Prop :=
  (if has_out e then s_last_sent s' = now else s_last_sent s' = s_last_sent s) /\
  s_last_recv s' = s_last_recv s /\ has_ret e = false.

Lemma P2_refl : forall now s, P2 now s s [].
Proof. intros. repeat split. Qed.

Lemma P2_trans : forall now a b c e1 e2, P2 now a b e1 -> P2 now b c e2 -> P2 now a c (e1 ++ e2).
Proof.
  intros now a b c e1 e2 [A1 [A2 A3]] [B1 [B2 B3]]. split; [|split; [congruence|]].
  - rewrite has_out_app. destruct (has_out e2); [rewrite orb_true_r; exact B1|].
    rewrite orb_false_r. destruct (has_out e1); congruence.
  - rewrite has_ret_app, A3, B3. reflexivity.
Qed.

Lemma out_events_no_ret : forall buf, has_ret (out_events buf) = false.
Proof.
  intros. unfold out_events. destruct (frames buf) as [ms rest]. rewrite has_ret_app.
  assert (A : has_ret (map EOut ms) = false) by (induction ms; [reflexivity|exact IHms]).
  rewrite A. destruct rest; reflexivity.
Qed.

Lemma send_no_ret : forall now s m c n ok s' e, send sc now s m c n = (ok, s', e) -> has_ret e = false.
Proof.
  intros now s m c n ok s' e H. unfold send in H. rewrite send_process_stages in H.
  destruct (sp_prep sc now s _) as [m3 dup].
  match type of H with sp_fin _ _ _ ?st = _ => destruct st as [[[ok1 s1] e1] ptr] eqn:ST end.
  assert (E1 : has_ret e1 = false).
  { unfold sp_step in ST.
    repeat match type of ST with
           | context [if ?c then _ else _] => destruct c
           | context [match ?x with [] => _ | _ => _ end] => destruct x
           end; inversion ST; subst; try reflexivity; apply out_events_no_ret. }
  unfold sp_fin in H.
  repeat match type of H with context [if ?c then _ else _] => destruct c end; inversion H; subst; exact E1.
Qed.

Lemma P2_send : forall now s m c n ok s' e, send sc now s m c n = (ok, s', e) -> P2 now s s' e.
Proof.
  intros now s m c n ok s' e H. pose proof (send_no_ret _ _ _ _ _ _ _ _ H) as NR.
  apply send_rel in H. destruct H as [C LS]. unfold same_core in C. destruct C as [_ [_ [_ [Clr _]]]].
  split; [exact LS|]. split; assumption.
Qed.

Lemma P2_same : forall now s s', s_last_sent s' = s_last_sent s -> s_last_recv s' = s_last_recv s -> P2 now s s' [].
Proof. intros. split; [assumption|]. split; [assumption|reflexivity]. Qed.

Lemma tick_rel : forall now s b s' e, heartbeat_service sc now s = (b, s', e) -> P2 now s s' e.
Proof.
  intros now s b s' e H. unfold heartbeat_service in H.
  destruct (is_shutdown s); [inversion H; subst; apply P2_refl|].
  destruct (if (Z.of_N (s_hb s) <=? secs_between now (s_last_sent s))%Z then _ else _) as [s1 e1] eqn:ST1.
  assert (A1 : P2 now s s1 e1).
  { destruct (Z.of_N (s_hb s) <=? secs_between now (s_last_sent s))%Z.
    - destruct (send sc now s (generate_heartbeat sc []) 0 false) as [[ok sa] ea] eqn:SE.
      inversion ST1; subst. eapply P2_send. exact SE.
    - inversion ST1; subst. apply P2_refl. }
  cbv zeta in H.
  destruct (Z.of_N (s_hb s1 + s_hb s1 / 5) <? secs_between now (s_last_recv s1))%Z.
  - destruct (s_state s1 =? st_test_request_sent).
    + destruct (send sc now s1 _ 0 true) as [[ok s2] e2] eqn:SE.
      inversion H; subst. eapply P2_trans; [exact A1|].
      replace e2 with (e2 ++ [])%list by apply app_nil_r.
      eapply P2_trans; [eapply P2_send; exact SE|].
      pose proof (stop_props (w_state st_logoff_sent s2)) as SP. cbv zeta in SP.
      destruct SP as [_ [_ [Q3 [Q4 _]]]].
      apply P2_same; cbn [s_last_sent s_last_recv w_state]; [rewrite Q3|rewrite Q4]; reflexivity.
    + destruct (negb (s_state s1 =? st_session_terminated)).
      * destruct (send sc now s1 _ 0 false) as [[ok s2] e2] eqn:SE.
        inversion H; subst. eapply P2_trans; [exact A1|].
        replace e2 with (e2 ++ [])%list by apply app_nil_r.
        eapply P2_trans; [eapply P2_send; exact SE|]. apply P2_same; reflexivity.
      * inversion H; subst. exact A1.
  - inversion H; subst. exact A1.
Qed.

(* ---- one step of a timeline ------------------------------------------------------------------------------ *)
Definition step_spec (o : tl_op) (s s' : sess) (e : list event) : Prop :=
  (if ev_out e then s_last_sent s' = tl_time o else s_last_sent s' = s_last_sent s) /\
  (if is_recv o && ev_ret e then s_last_recv s' = tl_time o else s_last_recv s' = s_last_recv s) /\
  (s_state s' = st_test_request_sent -> s_state s <> st_test_request_sent -> is_tick o = true).

Lemma step_rel : forall o s s' e, tl_step sc decode fl s o = (s', e) -> step_spec o s s' e.
Proof.
  intros o s s' e H. destruct o as [t|t ms|t m c n]; cbn [tl_step] in H.
  - destruct (heartbeat_service sc t s) as [[b s1] e1] eqn:E. inversion H; subst.
    apply tick_rel in E. destruct E as [A [B _]]. split; [exact A|]. split; [exact B|]. reflexivity.
  - apply R_reader_loop in H. destruct H as [e0 [EV [R1 [R2 R3]]]]. cbn [app] in EV. subst e0.
    split; [exact R2|]. split; [exact R3|]. intros X Y. apply R1 in X. contradiction.
  - destruct (send sc t s m c n) as [[ok s1] e1] eqn:E. inversion H; subst.
    pose proof (P2_send _ _ _ _ _ _ _ _ E) as [A [B NR]].
    split; [exact A|]. cbn [is_recv andb]. split; [exact B|].
    intros X Y. apply send_rel in E. destruct E as [C _]. unfold same_core in C. destruct C as [Cst _]. congruence.
Qed.

(* ---- runs -------------------------------------------------------------------------------------------------- *)
Lemma run_cons : forall s o ops,
  tl_run sc decode fl s (o :: ops) =
  mkRec o s (snd (tl_step sc decode fl s o)) (fst (tl_step sc decode fl s o)) ::
  tl_run sc decode fl (fst (tl_step sc decode fl s o)) ops.
Proof. intros. cbn [tl_run]. destruct (tl_step sc decode fl s o). reflexivity. Qed.

(* the timestamps are the observable instants *)
Theorem trace_last_sent : forall ops s,
  s_last_sent (tl_final sc decode fl s ops) = last_out_instant (s_last_sent s) (tl_run sc decode fl s ops).
Proof.
  induction ops as [|o ops IH]; intro s; [reflexivity|].
  rewrite run_cons. cbn [tl_final last_out_instant r_evs r_op]. rewrite IH.
  destruct (tl_step sc decode fl s o) as [s' e] eqn:E. cbn [fst snd].
  apply step_rel in E. destruct E as [A _]. destruct (ev_out e); rewrite A; reflexivity.
Qed.

Theorem trace_last_recv : forall ops s,
  s_last_recv (tl_final sc decode fl s ops) = last_in_instant (s_last_recv s) (tl_run sc decode fl s ops).
Proof.
  induction ops as [|o ops IH]; intro s; [reflexivity|].
  rewrite run_cons. cbn [tl_final last_in_instant r_evs r_op]. rewrite IH.
  destruct (tl_step sc decode fl s o) as [s' e] eqn:E. cbn [fst snd].
  apply step_rel in E. destruct E as [_ [B _]]. destruct (is_recv o && ev_ret e); rewrite B; reflexivity.
Qed.

(* every record of a run is reached by running a prefix *)
Lemma run_split : forall ops s a r b,
  tl_run sc decode fl s ops = (a ++ r :: b)%list ->
  exists ops1 o ops2, ops = (ops1 ++ o :: ops2)%list /\ a = tl_run sc decode fl s ops1 /\
    r_pre r = tl_final sc decode fl s ops1 /\ r_op r = o /\
    tl_step sc decode fl (r_pre r) o = (r_post r, r_evs r) /\
    b = tl_run sc decode fl (r_post r) ops2.
Proof.
  induction ops as [|o ops IH]; intros s a r b H.
  - destruct a; discriminate.
  - rewrite run_cons in H. destruct a as [|x a].
    + cbn [app] in H. inversion H; subst. exists [], o, ops. cbn [r_pre r_op r_post r_evs app tl_run tl_final].
      repeat split; try reflexivity. destruct (tl_step sc decode fl s o); reflexivity.
    + cbn [app] in H. inversion H as [[X Y]]. apply IH in Y.
      destruct Y as [ops1 [o' [ops2 [E1 [E2 [E3 [E4 [E5 E6]]]]]]]].
      exists (o :: ops1), o', ops2. subst ops. split; [reflexivity|].
      split; [rewrite run_cons, <- E2; reflexivity|].
      split; [cbn [tl_final]; exact E3|]. repeat split; assumption.
Qed.

(* the state test_request_sent is entered only by a supervision tick, and stays until a step leaves it *)
Definition pending_rec (x : tl_rec) : Prop :=
  s_state (r_pre x) = st_test_request_sent /\ s_state (r_post x) = st_test_request_sent.

Definition has_origin (a : list tl_rec) : Prop :=
  exists a1 r0 a2, a = (a1 ++ r0 :: a2)%list /\ is_tick (r_op r0) = true /\
    s_state (r_pre r0) <> st_test_request_sent /\ s_state (r_post r0) = st_test_request_sent /\
    Forall pending_rec a2.

Lemma pending_origin_gen : forall ops s a r b,
  tl_run sc decode fl s ops = (a ++ r :: b)%list ->
  s_state (r_pre r) = st_test_request_sent ->
  (s_state s = st_test_request_sent /\ Forall pending_rec a) \/ has_origin a.
Proof.
  induction ops as [|o ops IH]; intros s a r b H ST.
  - destruct a; discriminate.
  - rewrite run_cons in H. destruct a as [|x a].
    + cbn [app] in H. inversion H; subst. cbn [r_pre] in ST. left. split; [exact ST|constructor].
    + cbn [app] in H. inversion H as [[X Y]].
      destruct (tl_step sc decode fl s o) as [s' e] eqn:E. cbn [fst snd] in *.
      destruct (IH s' a r b Y ST) as [[Q F]|[a1 [r0 [a2 [F1 [F2 [F3 [F4 F5]]]]]]]].
      * destruct (N.eq_dec (s_state s) st_test_request_sent) as [PS|PS].
        { left. split; [exact PS|]. constructor; [|exact F]. split; assumption. }
        { right. exists [], (mkRec o s e s'), a. cbn [app r_op r_pre r_post].
          pose proof (step_rel _ _ _ _ E) as [_ [_ TK]].
          repeat split; auto. }
      * right. exists (mkRec o s e s' :: a1), r0, a2. subst a. repeat split; auto.
Qed.

Theorem trace_pending_origin : forall ops s a r b,
  s_state s <> st_test_request_sent ->
  tl_run sc decode fl s ops = (a ++ r :: b)%list ->
  s_state (r_pre r) = st_test_request_sent ->
  has_origin a.
Proof.
  intros ops s a r b NP H ST. destruct (pending_origin_gen ops s a r b H ST) as [[Q _]|O]; [contradiction|exact O].
Qed.

(* ---- the Heartbeat rule on traces: "nothing has been sent" is the observable silence -------------------- *)
Theorem trace_heartbeat : forall ops s0 a r b t,
  schema_ok sc = true ->
  tl_run sc decode fl s0 ops = (a ++ r :: b)%list -> r_op r = TTick t ->
  sess_ok (r_pre r) = true -> is_shutdown (r_pre r) = false -> 1 <= s_hb (r_pre r) ->
  hb_due (s_hb (r_pre r)) t (last_out_instant (s_last_sent s0) a) = true ->
  exists raw rest, r_evs r = EOut raw :: rest /\ kind_of raw = KHeartbeat None.
Proof.
  intros ops s0 a r b t SOK RUN OP OK LIVE H1 DUE.
  destruct (run_split _ _ _ _ _ RUN) as [ops1 [o [ops2 [E1 [E2 [E3 [E4 [E5 E6]]]]]]]].
  rewrite OP in E4. subst o. rewrite E2, <- trace_last_sent, <- E3 in DUE.
  destruct (heartbeat_due sc SOK t (r_pre r) OK LIVE H1 DUE) as [s' [raw [rest [HS [K _]]]]].
  cbn [tl_step] in E5. rewrite HS in E5. inversion E5. exists raw, rest. split; [reflexivity|exact K].
Qed.

(* ---- what is true about the supervision Logout, on traces ------------------------------------------------ *)
Theorem trace_logout_partial : forall ops s0 a r b t,
  schema_ok sc = true -> s_state s0 <> st_test_request_sent ->
  tl_run sc decode fl s0 ops = (a ++ r :: b)%list -> r_op r = TTick t ->
  sess_ok (r_pre r) = true -> is_shutdown (r_pre r) = false -> 1 <= s_hb (r_pre r) ->
  existsb is_lo (outs (r_evs r)) = true ->
  (* an earlier tick entered test_request_sent and every step since has kept it ... *)
  has_origin a /\
  (* ... and nothing has been received for more than the period before this tick *)
  quiet_due (s_hb (r_pre r)) t (last_in_instant (s_last_recv s0) a) = true /\
  s_state (r_post r) = st_session_terminated.
Proof.
  intros ops s0 a r b t SOK NP RUN OP OK LIVE H1 LO.
  destruct (run_split _ _ _ _ _ RUN) as [ops1 [o [ops2 [E1 [E2 [E3 [E4 [E5 E6]]]]]]]].
  rewrite OP in E4. subst o.
  destruct (logout_step sc SOK t (r_pre r) OK LIVE H1) as [s' [evs [HS [EQ FIN]]]].
  cbn [tl_step] in E5. rewrite HS in E5. inversion E5 as [[X Y]]. subst evs s'.
  rewrite LO in EQ. symmetry in EQ. apply andb_true_iff in EQ. destruct EQ as [Q PE].
  apply N.eqb_eq in PE.
  split; [eapply trace_pending_origin; eassumption|].
  split.
  - rewrite E2, <- trace_last_recv, <- E3. exact Q.
  - apply FIN. exact LO.
Qed.
End Trace.
