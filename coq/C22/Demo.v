(* C22/C23: a small concrete schema (the session-level part of FIX42UTEST as dumped by h_sess --meta)
   and closed histories, for the witnesses that are evaluated by vm_compute.  Definitions only. *)
From Coq Require Import NArith ZArith List Bool.
From F8 Require Import Sess.Bytes Sess.Msg Sess.Persist Sess.Session Sess.Wire.
Import ListNotations.
Local Open Scope N_scope.

Definition demo_schema : schema :=
  mkSchema [70;73;88;46;52;46;50]                                        (* FIX.4.2 *)
    [(8,1);(9,2);(34,10);(35,3);(43,19);(49,4);(50,11);(52,21);(56,5);(57,13);(97,20);(115,6);(122,22);(128,7)]
    [34;49;52;56] []
    [mkDef [48] true [(112,1)] [];
     mkDef [49] true [(112,1)] [112];
     mkDef [50] true [(7,1);(16,2)] [7;16];
     mkDef [51] true [(45,1);(58,5);(371,2);(372,3);(373,4)] [45];
     mkDef [52] true [(36,2);(123,1)] [36];
     mkDef [53] true [(58,1)] [];
     mkDef [65] true [(98,1);(108,2);(141,5)] [98;108];
     mkDef [68] false [(11,3);(21,10);(55,20);(54,40);(60,42);(40,45)] [11;21;55;54;60;40]]
    [[68]] [].

Definition demo_params : params := mkParams false true false false [].

(* START I none hb=30 | TICK T0+1s | TICK T0+2s : an initiator that never hears from its peer *)
Definition demo_start : startp := mkStart Initiator PNone [67;76;73] [83;82;86] demo_params 30 0 0.
Definition demo_f27_ops : list op :=
  [OStart demo_start None; OTick (T0 + 1000000000)%Z; OTick (T0 + 2000000000)%Z].
(* the same with the second tick after more than the period (36 s): nothing to object *)
Definition demo_fine_ops : list op :=
  [OStart demo_start None; OTick (T0 + 1000000000)%Z; OTick (T0 + 38000000000)%Z].
