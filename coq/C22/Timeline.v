(* C22: timelines -- sequences of supervision ticks, receptions and sends at chosen virtual instants,
   run on the session model with its own functions (heartbeat_service, reader_loop = FIXReader loop
   around Session::process, send), for an arbitrary decoder.  This is what the history interpreter
   Sess.Wire.run_op does for TICK / IN / SEND.  Definitions only (used by the trace-level theorems). *)
From Coq Require Import NArith ZArith List Bool.
From F8 Require Import Sess.Bytes Sess.Msg Sess.Persist Sess.Session.
Import ListNotations.

Inductive tl_op :=
| TTick (t : Z)
| TRecv (t : Z) (msgs : list bytes)
| TSend (t : Z) (m : msg) (custom : N) (noinc : bool).

Definition tl_time (o : tl_op) : Z :=
  match o with TTick t => t | TRecv t _ => t | TSend t _ _ _ => t end.

Definition is_tick (o : tl_op) : bool := match o with TTick _ => true | _ => false end.
Definition is_recv (o : tl_op) : bool := match o with TRecv _ _ => true | _ => false end.

Record tl_rec := mkRec { r_op : tl_op; r_pre : sess; r_evs : list event; r_post : sess }.

Section TL.
Variable sc : schema.
Variable decode : bytes -> decode_result.
Variable fl : bytes.

Definition tl_step (s : sess) (o : tl_op) : sess * list event :=
  match o with
  | TTick t => let '(_, s', e) := heartbeat_service sc t s in (s', e)
  | TRecv t ms => reader_loop sc decode fl t ms s []
  | TSend t m c n => let '(_, s', e) := send sc t s m c n in (s', e)
  end.

Fixpoint tl_run (s : sess) (ops : list tl_op) : list tl_rec :=
  match ops with
  | [] => []
  | o :: ops' => let '(s', e) := tl_step s o in mkRec o s e s' :: tl_run s' ops'
  end.

Fixpoint tl_final (s : sess) (ops : list tl_op) : sess :=
  match ops with
  | [] => s
  | o :: ops' => tl_final (fst (tl_step s o)) ops'
  end.
End TL.

(* observables of a run *)
Definition ev_out (evs : list event) : bool :=
  existsb (fun e => match e with EOut _ => true | EOutRaw _ => true | _ => false end) evs.
Definition ev_ret (evs : list event) : bool :=
  existsb (fun e => match e with ERet _ => true | _ => false end) evs.

(* instant of the latest step that put bytes on the wire / that received a message *)
Fixpoint last_out_instant (init : Z) (run : list tl_rec) : Z :=
  match run with
  | [] => init
  | r :: run' => last_out_instant (if ev_out (r_evs r) then tl_time (r_op r) else init) run'
  end.
Fixpoint last_in_instant (init : Z) (run : list tl_rec) : Z :=
  match run with
  | [] => init
  | r :: run' => last_in_instant (if is_recv (r_op r) && ev_ret (r_evs r) then tl_time (r_op r) else init) run'
  end.
