(* C22: an invariant of the WHOLE inbound path (Session::process with every handler, the resend
   machinery included) and of the reader loop, for every decoder:
     - the state test_request_sent is never entered,
     - last_sent becomes `now` exactly when bytes go to the socket, and is otherwise untouched,
     - last_received is not touched by process (the reader sets it before calling process).
   Proved compositionally over the state/event/exception monad of the model.  Proofs only. *)
From Coq Require Import NArith ZArith List Bool Lia.
From F8 Require Import Sess.Bytes Sess.Msg Sess.Persist Sess.Session Sess.SessLemmas
  C22.Hyp C22.Spec_C22 C22.SendLemmas.
Import ListNotations.
Local Open Scope N_scope.

Section Inv.
Variable sc : schema.
Variable decode : bytes -> decode_result.
Variable fl : bytes.
Variable now : Z.

(* what one piece of the inbound path may do *)
Definition P (s s' : sess) (e : list event) : Prop :=
  (s_state s' = st_test_request_sent -> s_state s = st_test_request_sent) /\
  (if has_out e then s_last_sent s' = now else s_last_sent s' = s_last_sent s) /\
  s_last_recv s' = s_last_recv s.

Lemma P_refl : forall s, P s s [].
Proof. intros. repeat split; auto. Qed.

Lemma P_trans : forall a b c e1 e2, P a b e1 -> P b c e2 -> P a c (e1 ++ e2).
Proof.
  intros a b c e1 e2 [A1 [A2 A3]] [B1 [B2 B3]]. split; [auto|]. split; [|congruence].
  rewrite has_out_app. destruct (has_out e2); [rewrite orb_true_r; exact B2|].
  rewrite orb_false_r. destruct (has_out e1); congruence.
Qed.

(* an update that touches none of the three *)
Lemma P_same : forall s s', s_state s' = s_state s -> s_last_sent s' = s_last_sent s -> s_last_recv s' = s_last_recv s ->
  P s s' [].
Proof. intros s s' A B C. split; [congruence|]. split; assumption. Qed.

Lemma P_state : forall s st, st <> st_test_request_sent -> P s (w_state st s) [].
Proof. intros s st H. split; [cbn; intro; contradiction|]. split; reflexivity. Qed.

Lemma P_send : forall s m c n ok s' e, send sc now s m c n = (ok, s', e) -> P s s' e.
Proof.
  intros s m c n ok s' e H. apply send_rel in H. destruct H as [C LS].
  unfold same_core in C. destruct C as [Cst [_ [_ [Clr _]]]].
  split; [congruence|]. split; assumption.
Qed.

Lemma P_stop : forall s, P s (stop s) [].
Proof.
  intros. unfold stop. destruct (s_shutdown s); [apply P_refl|]. apply P_same; reflexivity.
Qed.

(* ---- the monad ------------------------------------------------------------------------------------ *)
Definition keeps {A} (x : M A) : Prop := forall s r s' e, x s = (r, s', e) -> P s s' e.

Lemma keeps_ret : forall A (a : A), keeps (ret a).
Proof. intros A a s r s' e H. inversion H; subst. apply P_refl. Qed.
Lemma keeps_throw : forall A t f, keeps (@throw A t f).
Proof. intros A t f s r s' e H. inversion H; subst. apply P_refl. Qed.
Lemma keeps_get : keeps get.
Proof. intros s r s' e H. inversion H; subst. apply P_refl. Qed.
Lemma keeps_emit : forall ev, has_out [ev] = false -> keeps (emit ev).
Proof.
  intros ev NO s r s' e H. inversion H; subst. split; [auto|]. split; [rewrite NO; reflexivity|reflexivity].
Qed.
Lemma keeps_modify : forall f, (forall s, P s (f s) []) -> keeps (modify f).
Proof. intros f F s r s' e H. inversion H; subst. apply F. Qed.
Lemma keeps_set_state : forall st, st <> st_test_request_sent -> keeps (set_state st).
Proof. intros st H. apply keeps_modify. intro s. apply P_state. exact H. Qed.
Lemma keeps_do_send : forall m c n, keeps (do_send sc now m c n).
Proof.
  intros m c n s r s' e H. unfold do_send in H.
  destruct (send sc now s m c n) as [[ok s1] e1] eqn:E. inversion H; subst. eapply P_send. exact E.
Qed.
Lemma keeps_bind : forall A B (x : M A) (f : A -> M B), keeps x -> (forall a, keeps (f a)) -> keeps (bind x f).
Proof.
  intros A B x f KX KF s r s' e H. unfold bind in H.
  destruct (x s) as [[[a|ex] s1] e1] eqn:EX.
  - destruct (f a s1) as [[r2 s2] e2] eqn:EF. inversion H; subst.
    eapply P_trans; [eapply KX; exact EX|eapply KF; exact EF].
  - inversion H; subst. eapply KX. exact EX.
Qed.

Ltac same_upd :=
  intros; apply P_same;
  repeat match goal with
         | |- context [if ?c then _ else _] => destruct c
         | |- context [match ?x with Some _ => _ | None => _ end] => destruct x
         | |- context [let '(_, _) := ?x in _] => destruct x
         end; reflexivity.

Lemma P_update_persist : forall s, P s (update_persist_seqnums s) [].
Proof. intros. unfold update_persist_seqnums. destruct (p_attached (s_per s)); [apply P_same; reflexivity|apply P_refl]. Qed.

Lemma P_recover : forall s, P s (recover_seqnums s) [].
Proof. intros. unfold recover_seqnums. destruct (p_get_ctrl (s_per s)) as [[a b]|]; [apply P_same; reflexivity|apply P_refl]. Qed.

Create HintDb kp.

Ltac kp :=
  repeat first
    [ solve [auto 1 with kp nocore]
    | apply keeps_ret | apply keeps_throw | apply keeps_get
    | apply keeps_set_state; discriminate
    | apply keeps_do_send
    | apply keeps_emit; reflexivity
    | apply keeps_bind; [|intros; cbv beta]
    | apply keeps_modify; intro; first [apply P_stop | apply P_update_persist | apply P_same; reflexivity]
    | progress cbv zeta
    | match goal with
      | |- keeps (if ?c then _ else _) => destruct c
      | |- keeps (match ?x with _ => _ end) => destruct x
      end ].

Lemma keeps_compid_check : forall m, keeps (compid_check m).
Proof. intros. unfold compid_check. kp. Qed.
Hint Resolve keeps_compid_check : kp.

Lemma keeps_sequence_check : forall q m, keeps (sequence_check sc now q m).
Proof. intros. unfold sequence_check. kp. Qed.
Hint Resolve keeps_sequence_check : kp.

Lemma keeps_enforce : forall q m, keeps (enforce sc now q m).
Proof. intros. unfold enforce. kp. Qed.
Hint Resolve keeps_enforce : kp.

Lemma keeps_outbound_reject : forall q mt t, keeps (handle_outbound_reject sc now q mt t).
Proof. intros. unfold handle_outbound_reject. kp. Qed.
Hint Resolve keeps_outbound_reject : kp.

Lemma keeps_handle_logon : forall q m, keeps (handle_logon sc now q m).
Proof.
  intros. unfold handle_logon. kp.
  all: apply keeps_modify; intro s.
  all: try (apply P_same; reflexivity).
  eapply (P_trans _ (recover_seqnums s) _ [] []); [apply P_recover|].
  apply P_same; repeat match goal with |- context [if ?c then _ else _] => destruct c end; reflexivity.
Qed.
Hint Resolve keeps_handle_logon : kp.

Lemma keeps_handle_logout : forall q m, keeps (handle_logout sc now q m).
Proof. intros. unfold handle_logout. kp. Qed.
Hint Resolve keeps_handle_logout : kp.

Lemma keeps_handle_sequence_reset : forall q m, keeps (handle_sequence_reset sc now q m).
Proof. intros. unfold handle_sequence_reset. kp. Qed.
Hint Resolve keeps_handle_sequence_reset : kp.

Lemma keeps_retrans_record : forall b l q raw, keeps (retrans_record sc decode now b l q raw).
Proof. intros. unfold retrans_record. kp. Qed.
Hint Resolve keeps_retrans_record : kp.

Lemma keeps_retrans_loop : forall fuel b f l c, keeps (retrans_loop sc decode now fuel b f l c).
Proof.
  induction fuel; intros; cbn [retrans_loop].
  - kp.
  - kp.
Qed.
Hint Resolve keeps_retrans_loop : kp.

Lemma keeps_retrans_final : forall b i l, keeps (retrans_final sc now b i l).
Proof. intros. unfold retrans_final. kp. Qed.
Hint Resolve keeps_retrans_final : kp.

Lemma keeps_handle_resend_request : forall q m, keeps (handle_resend_request sc decode now q m).
Proof. intros. unfold handle_resend_request. kp. Qed.
Hint Resolve keeps_handle_resend_request : kp.

Lemma keeps_handle_test_request : forall q m, keeps (handle_test_request sc now q m).
Proof. intros. unfold handle_test_request. kp. Qed.
Hint Resolve keeps_handle_test_request : kp.

Lemma keeps_handle_heartbeat : forall q m, keeps (handle_heartbeat sc now q m).
Proof. intros. unfold handle_heartbeat. kp. Qed.
Hint Resolve keeps_handle_heartbeat : kp.

Lemma keeps_handle_application : forall q m, keeps (handle_application sc now q m).
Proof. intros. unfold handle_application. kp. Qed.
Hint Resolve keeps_handle_application : kp.

Lemma keeps_dispatch : forall q m, keeps (dispatch sc decode now q m).
Proof. intros. unfold dispatch. kp. Qed.
Hint Resolve keeps_dispatch : kp.

Lemma keeps_process_body : forall q m, keeps (process_body sc decode now q m).
Proof. intros. unfold process_body. kp. Qed.

Lemma P_process_catch : forall s q mt r s1 e1 b s' e',
  P s s1 e1 -> process_catch sc now q mt (r, s1, e1) = (b, s', e') -> P s s' e'.
Proof.
  intros s q mt r s1 e1 b s' e' H C. unfold process_catch in C.
  destruct r as [b0|[text force]].
  - inversion C; subst. exact H.
  - destruct force.
    + destruct ((s_state s1 =? st_logon_received) && negb (pr_sd (s_par s1))).
      * destruct (send sc now (w_state st_session_terminated s1) (generate_logout sc (Some text)) 0 true)
          as [[ok sb] eb] eqn:E.
        inversion C; subst. eapply P_trans; [exact H|].
        replace eb with (([] ++ eb) ++ [] ++ [])%list by (rewrite app_nil_r; reflexivity).
        eapply (P_trans _ sb); [eapply (P_trans _ (w_state st_session_terminated s1)); [apply P_state; discriminate|eapply P_send; exact E]|].
        eapply (P_trans _ (w_state st_logoff_sent sb)); [apply P_state; discriminate|apply P_stop].
      * inversion C; subst. eapply P_trans; [exact H|apply P_stop].
    + destruct (handle_outbound_reject sc now q mt text s1) as [[r2 s2] e2] eqn:E.
      inversion C; subst. eapply P_trans; [exact H|].
      replace e2 with (e2 ++ ([] ++ []))%list by (rewrite !app_nil_r; reflexivity).
      eapply P_trans; [eapply keeps_outbound_reject; exact E|].
      eapply (P_trans _ (w_next_recv (s_next_recv s2 + 1) s2)); [apply P_same; reflexivity|apply P_update_persist].
Qed.

Theorem P_process : forall raw s b s' e, process sc decode fl now raw s = (b, s', e) -> P s s' e.
Proof.
  intros raw s b s' e H. unfold process in H.
  destruct (find_after pat_34 raw) as [rest|].
  - destruct (fast_atoi_u rest SOH 0) as [q|].
    + destruct (decode raw) as [m|text force].
      * destruct (process_body sc decode now q m s) as [[r s1] e1] eqn:E.
        eapply P_process_catch; [|exact H]. eapply keeps_process_body. exact E.
      * eapply P_process_catch; [|exact H]. apply P_refl.
    + inversion H; subst. split; [auto|]. split; reflexivity.
  - eapply P_process_catch; [|exact H]. apply P_refl.
Qed.
End Inv.

(* ---- the reader loop ---------------------------------------------------------------------------------- *)
Definition has_ret (evs : list event) : bool :=
  existsb (fun e => match e with ERet _ => true | _ => false end) evs.
Lemma has_ret_app : forall a b, has_ret (a ++ b) = has_ret a || has_ret b.
Proof. intros. apply existsb_app. Qed.

Definition R (now : Z) (s s' : sess) (e : list event) : Prop :=
  (s_state s' = st_test_request_sent -> s_state s = st_test_request_sent) /\
  (if has_out e then s_last_sent s' = now else s_last_sent s' = s_last_sent s) /\
  (if has_ret e then s_last_recv s' = now else s_last_recv s' = s_last_recv s).

Theorem R_reader_loop : forall sc decode fl now l s evs s' evs',
  reader_loop sc decode fl now l s evs = (s', evs') ->
  exists e, evs' = (evs ++ e)%list /\ R now s s' e.
Proof.
  intros sc decode fl now. induction l as [|raw l IH]; intros s evs s' evs' H; cbn [reader_loop] in H.
  - inversion H; subst. exists []. rewrite app_nil_r. split; [reflexivity|]. repeat split; auto.
  - destruct (negb (s_reader s) || is_shutdown s).
    + inversion H; subst. exists []. rewrite app_nil_r. split; [reflexivity|]. repeat split; auto.
    + destruct (process sc decode fl now raw (w_last_recv now s)) as [[r s1] e1] eqn:E.
      apply P_process in E. destruct E as [E1 [E2 E3]].
      apply IH in H. destruct H as [e [EV [R1 [R2 R3]]]].
      exists (e1 ++ [ERet (if r then 1 else 0)%Z] ++ e)%list. split.
      { rewrite EV. rewrite <- !app_assoc. reflexivity. }
      assert (S2st : forall x, (if is_shutdown s1 then w_down (s_shutdown s1) (s_closed s1) false s1 else s1) = x ->
                s_state x = s_state s1 /\ s_last_sent x = s_last_sent s1 /\ s_last_recv x = s_last_recv s1).
      { intros x X. subst x. destruct (is_shutdown s1); repeat split; reflexivity. }
      destruct (S2st _ eq_refl) as [Q1 [Q2 Q3]].
      split; [|split].
      * intro X. apply R1 in X. rewrite Q1 in X. apply E1 in X. exact X.
      * rewrite !has_out_app. cbn [has_out existsb orb].
        destruct (has_out e); [rewrite orb_true_r; exact R2|]. rewrite orb_false_r.
        rewrite R2, Q2. exact E2.
      * rewrite !has_ret_app. cbn [has_ret existsb orb]. rewrite orb_true_r.
        destruct (has_ret e); [exact R3|]. rewrite R3, Q3, E3. reflexivity.
Qed.
