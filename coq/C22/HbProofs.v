(* C22: the supervision tick, the answer to an inbound TestRequest and the effect of an inbound
   Heartbeat, proved on the session model (Sess.Session).  Proofs only. *)
From Coq Require Import NArith ZArith List Bool Lia.
From F8 Require Import Sess.Bytes Sess.Msg Sess.Persist Sess.Session Sess.Wire Sess.SessLemmas
  C22.Hyp C22.Spec_C22 C22.SendLemmas.
Import ListNotations.
Local Open Scope N_scope.

(* ---- floor vs truncation: the thresholds agree --------------------------------------------------------- *)
Lemma NS_pos : (0 < NS)%Z.
Proof. reflexivity. Qed.

Lemma quot_div_cases : forall a : Z,
  (0 <= a /\ Z.quot a NS = a / NS)%Z \/ (a < 0 /\ Z.quot a NS <= 0 /\ a / NS < 0)%Z.
Proof.
  intro a. destruct (Z_lt_le_dec a 0) as [L|L].
  - right. split; [exact L|]. split.
    + apply Z.quot_le_upper_bound; [reflexivity|lia].
    + apply Z.div_lt_upper_bound; [reflexivity|lia].
  - left. split; [exact L|]. apply Z.quot_div_nonneg; [exact L|reflexivity].
Qed.

Lemma hb_due_quot : forall H now ls, 1 <= H ->
  (Z.of_N H <=? secs_between now ls)%Z = hb_due H now ls.
Proof.
  intros H now ls H1. unfold hb_due, elapsed, secs_between.
  destruct (quot_div_cases (now - ls)) as [[_ E]|[_ [A B]]].
  - rewrite E. reflexivity.
  - assert (P : (1 <= Z.of_N H)%Z) by lia.
    transitivity false; [|symmetry]; apply Z.leb_gt; lia.
Qed.

Lemma quiet_due_quot : forall H now lr,
  (Z.of_N (H + H / 5) <? secs_between now lr)%Z = quiet_due H now lr.
Proof.
  intros H now lr. unfold quiet_due, period, elapsed, secs_between.
  destruct (quot_div_cases (now - lr)) as [[_ E]|[_ [A B]]].
  - rewrite E. reflexivity.
  - pose proof (N2Z.is_nonneg (H + H / 5)) as P.
    transitivity false; [|symmetry]; apply Z.ltb_ge; lia.
Qed.

(* ---- generated messages are fresh ------------------------------------------------------------------- *)
Lemma add_body'_fresh : forall sc t v ty body n,
  add_body' sc t v (fresh ty body n) = fresh ty (m_body (add_body' sc t v (fresh ty body n))) n.
Proof.
  intros. unfold add_body', add_body. cbn [fresh m_type].
  destruct (find_def ty (sc_msgs sc)); [|reflexivity]. destruct (assoc t (d_pos m)); reflexivity.
Qed.

Lemma new_msg_fresh : forall ty, new_msg ty = fresh ty [] false.
Proof. reflexivity. Qed.

Lemma sess_ok_split : forall s, sess_ok s = true ->
  s_closed s = false /\ s_batch s = [] /\ nosoh (s_snd s) = true /\ nosoh (s_tgt s) = true.
Proof.
  intros s H. unfold sess_ok in H. rewrite !andb_true_iff in H. destruct H as [[[A B] C] D].
  rewrite negb_true_iff in A. destruct (s_batch s); [|discriminate]. repeat split; assumption.
Qed.

Lemma sess_ok_join : forall s, s_closed s = false -> s_batch s = [] -> nosoh (s_snd s) = true -> nosoh (s_tgt s) = true ->
  sess_ok s = true.
Proof. intros s A B C D. unfold sess_ok. rewrite A, B. cbn. unfold no_soh. fold (nosoh (s_snd s)). fold (nosoh (s_tgt s)). rewrite C, D. reflexivity. Qed.

Lemma schema_ok_split : forall sc, schema_ok sc = true ->
  nosoh (sc_begin sc) = true /\ body_pos_ok sc mt_heartbeat T_TestReqID = true /\
  body_pos_ok sc mt_test_request T_TestReqID = true /\ body_pos_ok sc mt_logon T_HeartBtInt = true /\
  body_pos_ok sc mt_logon T_EncryptMethod = true /\ body_pos_ok sc mt_logon T_ResetSeqNumFlag = true.
Proof.
  intros sc H. unfold schema_ok in H. rewrite !andb_true_iff in H. tauto.
Qed.

(* one send of a fresh message by a session that can write *)
Lemma send_fresh_ok : forall sc now s ty body n n',
  schema_ok sc = true -> sess_ok s = true -> nosoh ty = true -> vals_ok body = true ->
  exists s' raw,
    send sc now s (fresh ty body n) 0 n' = (true, s', [EOut raw]) /\
    raw = encode sc (wire sc s now (fresh ty body n)) /\
    msgtype_of raw = Some ty /\
    (forall t, t <> 8 -> t <> 9 -> t <> 10 -> t <> T_MsgType -> t <> T_SendingTime -> t <> T_MsgSeqNum ->
               t <> T_TargetCompID -> t <> T_SenderCompID -> tok_get (tagb t) (tokens raw) = get_field t body) /\
    same_core s s' /\ s_last_sent s' = now /\ sess_ok s' = true.
Proof.
  intros sc now s ty body n n' SOK OK T V.
  apply schema_ok_split in SOK. destruct SOK as [B _].
  apply sess_ok_split in OK. destruct OK as [CL [BT [S1 S2]]].
  destruct (send_fresh sc now s ty body n n' B CL BT) as [s' [E [C [LS BT']]]].
  exists s', (encode sc (wire sc s now (fresh ty body n))).
  split; [exact E|]. split; [reflexivity|].
  split; [apply wire_msgtype; assumption|].
  split; [intros; apply wire_body_tag; assumption|].
  split; [exact C|]. split; [exact LS|].
  unfold same_core in C. repeat match goal with H : _ /\ _ |- _ => destruct H end.
  apply sess_ok_join; congruence.
Qed.

Lemma nosoh_consts : nosoh mt_heartbeat = true /\ nosoh mt_test_request = true /\ nosoh mt_logout = true /\
  nosoh mt_logon = true /\ nosoh txt_test = true /\ nosoh txt_ignored = true.
Proof. repeat split; reflexivity. Qed.

Lemma stop_props : forall s, let s' := stop s in
  s_shutdown s' = true /\ s_state s' = s_state s /\ s_last_sent s' = s_last_sent s /\
  s_last_recv s' = s_last_recv s /\ s_hb s' = s_hb s.
Proof.
  intros s. unfold stop. destruct (s_shutdown s) eqn:E; cbn zeta.
  - repeat split; assumption.
  - core_simpl. repeat split.
Qed.

Definition all_out (evs : list event) : bool :=
  forallb (fun e => match e with EOut _ => true | _ => false end) evs.

Lemma all_out_app : forall a b, all_out (a ++ b) = all_out a && all_out b.
Proof. intros. apply forallb_app. Qed.

Lemma all_out_head : forall evs k rest, all_out evs = true -> outs evs = k :: rest ->
  exists raw evs', evs = EOut raw :: evs' /\ kind_of raw = k /\ outs evs' = rest /\ all_out evs' = true.
Proof.
  intros evs k rest A O. destruct evs as [|e evs']; [discriminate|].
  cbn [all_out forallb] in A. destruct e; try discriminate. cbn [andb] in A.
  cbn [outs flat_map app] in O. inversion O. exists b, evs'. repeat split; assumption.
Qed.

Section Tick.
Variable sc : schema.
Hypothesis SOK : schema_ok sc = true.

(* ---- the supervision tick, exactly --------------------------------------------------------------------- *)
Theorem tick_exact : forall now s,
  sess_ok s = true -> is_shutdown s = false -> 1 <= s_hb s ->
  let H := s_hb s in
  let hb := hb_due H now (s_last_sent s) in
  let q := quiet_due H now (s_last_recv s) in
  let pend := s_state s =? st_test_request_sent in
  exists s' evs,
    heartbeat_service sc now s = (true, s', evs) /\ all_out evs = true /\
    outs evs = ((if hb then [KHeartbeat None] else []) ++
                (if q then (if pend then [KLogout] else [KTestRequest (Some txt_test)]) else []))%list /\
    s_state s' = (if q then (if pend then st_session_terminated else st_test_request_sent) else s_state s) /\
    s_last_sent s' = (if hb || q then now else s_last_sent s) /\
    s_last_recv s' = s_last_recv s /\ s_hb s' = s_hb s /\
    is_shutdown s' = q && pend /\ (q && pend = false -> sess_ok s' = true).
Proof.
  intros now s OK LIVE H1 H hb q pend.
  destruct nosoh_consts as [N0 [N1 [N5 [NA [NT NI]]]]].
  unfold heartbeat_service. rewrite LIVE.
  rewrite hb_due_quot by exact H1. fold H. fold hb.
  (* stage 1: the heartbeat *)
  assert (ST1 : exists s1 e1,
            (if hb then let '(_, sa, ea) := send sc now s (generate_heartbeat sc []) 0 false in (sa, ea) else (s, [])) = (s1, e1) /\
            same_core s s1 /\ sess_ok s1 = true /\ all_out e1 = true /\ outs e1 = (if hb then [KHeartbeat None] else []) /\
            s_last_sent s1 = (if hb then now else s_last_sent s)).
  { destruct hb.
    - change (generate_heartbeat sc []) with (fresh mt_heartbeat [] false).
      destruct (send_fresh_ok sc now s mt_heartbeat [] false false SOK OK N0 eq_refl)
        as [s1 [raw [E [RW [MT [TG [C [LS OK1]]]]]]]].
      exists s1, [EOut raw]. rewrite E. split; [reflexivity|]. split; [exact C|]. split; [exact OK1|].
      split; [reflexivity|]. split; [|exact LS]. cbn [outs flat_map app]. unfold kind_of. rewrite MT. cbn [beq mt_heartbeat N.eqb Pos.eqb andb].
      unfold testreqid_of. rewrite TG by discriminate. reflexivity.
    - exists s, []. split; [reflexivity|]. split; [apply same_core_refl|]. split; [exact OK|]. split; [reflexivity|]. split; reflexivity. }
  destruct ST1 as [s1 [e1 [E1 [C1 [OK1 [A1 [O1 LS1]]]]]]]. rewrite E1.
  pose proof C1 as C1'. unfold same_core in C1'.
  destruct C1' as [Cst [_ [_ [Clr [Chb [_ [_ [_ [_ [_ [Csh _]]]]]]]]]]].
  cbv zeta. rewrite Chb, Clr, Cst. rewrite quiet_due_quot. fold H. fold q. fold pend.
  assert (SH : s_shutdown s = false /\ (s_state s =? st_session_terminated) = false).
  { unfold is_shutdown in LIVE. apply orb_false_iff in LIVE. exact LIVE. }
  destruct SH as [SH1 SH2].
  destruct q.
  - destruct pend eqn:PE.
    + (* Logout *)
      set (text := if pr_sd (s_par s1) then None else Some txt_ignored).
      assert (G : exists body, generate_logout sc text = fresh mt_logout body false /\ vals_ok body = true).
      { unfold generate_logout. destruct text as [t|] eqn:TX.
        - rewrite new_msg_fresh, add_body'_fresh. eexists. split; [reflexivity|].
          apply add_body'_vals_ok; [|reflexivity]. unfold text in TX. destruct (pr_sd (s_par s1)); [discriminate|].
          inversion TX. exact NI.
        - exists []. split; reflexivity. }
      destruct G as [body [G V]]. rewrite G.
      destruct (send_fresh_ok sc now s1 mt_logout body false true SOK OK1 N5 V)
        as [s2 [raw [E [RW [MT [TG [C [LS OK2]]]]]]]].
      rewrite E.
      pose proof (stop_props (w_state st_logoff_sent s2)) as SP. cbv zeta in SP.
      destruct SP as [P1 [P2 [P3 [P4 P5]]]].
      unfold same_core in C. destruct C as [_ [_ [_ [Clr2 [Chb2 _]]]]].
      eexists. eexists. split; [reflexivity|].
      split; [rewrite all_out_app, A1; reflexivity|].
      split.
      { unfold outs. rewrite flat_map_app. fold (outs e1). rewrite O1. cbn [flat_map app].
        unfold kind_of. rewrite MT. reflexivity. }
      split; [reflexivity|].
      split.
      { core_simpl. rewrite P3. core_simpl. rewrite LS. rewrite orb_true_r. reflexivity. }
      split.
      { core_simpl. rewrite P4. core_simpl. congruence. }
      split.
      { core_simpl. rewrite P5. core_simpl. unfold H. congruence. }
      split; [|discriminate].
      unfold is_shutdown. core_simpl. rewrite orb_true_r. reflexivity.
    + (* TestRequest *)
      rewrite SH2. cbn [negb].
      assert (G : exists body, generate_test_request sc txt_test = fresh mt_test_request body false /\
                               vals_ok body = true /\ get_field T_TestReqID body = Some txt_test).
      { unfold generate_test_request. rewrite new_msg_fresh, add_body'_fresh. eexists. split; [reflexivity|].
        split.
        - apply add_body'_vals_ok; [exact NT|reflexivity].
        - apply add_body'_get_same; [|constructor].
          apply schema_ok_split in SOK. tauto. }
      destruct G as [body [G [V TR]]]. rewrite G.
      destruct (send_fresh_ok sc now s1 mt_test_request body false false SOK OK1 N1 V)
        as [s2 [raw [E [RW [MT [TG [C [LS OK2]]]]]]]].
      rewrite E.
      unfold same_core in C. destruct C as [_ [_ [_ [Clr2 [Chb2 [_ [_ [_ [_ [_ [Csh2 _]]]]]]]]]]].
      eexists. eexists. split; [reflexivity|].
      split; [rewrite all_out_app, A1; reflexivity|].
      split.
      { unfold outs. rewrite flat_map_app. fold (outs e1). rewrite O1. cbn [flat_map app].
        unfold kind_of. rewrite MT. cbn [beq mt_heartbeat mt_test_request N.eqb Pos.eqb andb].
        unfold testreqid_of. rewrite TG by discriminate. rewrite TR. reflexivity. }
      split; [reflexivity|].
      split; [core_simpl; rewrite LS, orb_true_r; reflexivity|].
      split; [core_simpl; congruence|].
      split; [core_simpl; unfold H; congruence|].
      split; [unfold is_shutdown; core_simpl; rewrite Csh2, Csh, SH1; reflexivity|].
      intros _. exact OK2.
  - eexists. eexists. split; [reflexivity|].
    split; [exact A1|].
    split; [rewrite O1, app_nil_r; reflexivity|].
    split; [exact Cst|].
    split; [rewrite orb_false_r; exact LS1|].
    split; [exact Clr|]. split; [exact Chb|].
    split; [unfold is_shutdown; rewrite Csh, Cst, SH1, SH2; reflexivity|].
    intros _. exact OK1.
Qed.
End Tick.

(* ---- the named statements of the property, as corollaries ---------------------------------------------- *)
Definition is_plain_hb (k : kind) : bool := match k with KHeartbeat None => true | _ => false end.
Definition is_hb (k : kind) : bool := match k with KHeartbeat _ => true | _ => false end.
Definition is_tr (k : kind) : bool := match k with KTestRequest _ => true | _ => false end.
Definition is_lo (k : kind) : bool := match k with KLogout => true | _ => false end.

Section Corollaries.
Variable sc : schema.
Hypothesis SOK : schema_ok sc = true.

(* nothing sent for >= H whole seconds: the tick puts a Heartbeat (no TestReqID) on the wire first *)
Theorem heartbeat_due : forall now s,
  sess_ok s = true -> is_shutdown s = false -> 1 <= s_hb s ->
  hb_due (s_hb s) now (s_last_sent s) = true ->
  exists s' raw rest,
    heartbeat_service sc now s = (true, s', EOut raw :: rest) /\ kind_of raw = KHeartbeat None /\
    s_last_sent s' = now.
Proof.
  intros now s OK LIVE H1 D.
  destruct (tick_exact sc SOK now s OK LIVE H1) as [s' [evs [E [A [O [_ [LS _]]]]]]].
  rewrite D in O, LS. cbn [app orb] in O, LS.
  destruct (all_out_head _ _ _ A O) as [raw [evs' [EV [K _]]]].
  exists s', raw, evs'. subst evs. repeat split; assumption.
Qed.

(* ... and otherwise it sends no Heartbeat *)
Theorem heartbeat_only : forall now s,
  sess_ok s = true -> is_shutdown s = false -> 1 <= s_hb s ->
  hb_due (s_hb s) now (s_last_sent s) = false ->
  exists s' evs, heartbeat_service sc now s = (true, s', evs) /\ existsb is_hb (outs evs) = false.
Proof.
  intros now s OK LIVE H1 D.
  destruct (tick_exact sc SOK now s OK LIVE H1) as [s' [evs [E [A [O _]]]]].
  exists s', evs. split; [exact E|]. rewrite O, D. cbn [app].
  destruct (quiet_due (s_hb s) now (s_last_recv s)); [|reflexivity].
  destruct (s_state s =? st_test_request_sent); reflexivity.
Qed.

(* nothing received for > H + H/5 whole seconds and no TestRequest outstanding: TestRequest, state 9 *)
Theorem testreq_due : forall now s,
  sess_ok s = true -> is_shutdown s = false -> 1 <= s_hb s ->
  quiet_due (s_hb s) now (s_last_recv s) = true -> s_state s <> st_test_request_sent ->
  exists s' evs,
    heartbeat_service sc now s = (true, s', evs) /\
    existsb (fun k => match k with KTestRequest (Some id) => beq id txt_test | _ => false end) (outs evs) = true /\
    existsb is_lo (outs evs) = false /\
    s_state s' = st_test_request_sent /\ s_last_recv s' = s_last_recv s /\ s_hb s' = s_hb s /\
    sess_ok s' = true /\ is_shutdown s' = false.
Proof.
  intros now s OK LIVE H1 Q NP. apply N.eqb_neq in NP.
  destruct (tick_exact sc SOK now s OK LIVE H1) as [s' [evs [E [A [O [ST [LS [LR [HB [SH OK']]]]]]]]]].
  rewrite Q, NP in *. exists s', evs. split; [exact E|]. rewrite O.
  repeat split; try assumption.
  - destruct (hb_due (s_hb s) now (s_last_sent s)); reflexivity.
  - destruct (hb_due (s_hb s) now (s_last_sent s)); reflexivity.
  - apply OK'. reflexivity.
Qed.

(* a TestRequest goes out in no other situation *)
Theorem testreq_only : forall now s,
  sess_ok s = true -> is_shutdown s = false -> 1 <= s_hb s ->
  quiet_due (s_hb s) now (s_last_recv s) = false \/ s_state s = st_test_request_sent ->
  exists s' evs, heartbeat_service sc now s = (true, s', evs) /\ existsb is_tr (outs evs) = false.
Proof.
  intros now s OK LIVE H1 D.
  destruct (tick_exact sc SOK now s OK LIVE H1) as [s' [evs [E [A [O _]]]]].
  exists s', evs. split; [exact E|]. rewrite O.
  destruct (hb_due (s_hb s) now (s_last_sent s)); cbn [app existsb is_tr orb];
    destruct D as [D|D]; rewrite D; try reflexivity;
    destruct (quiet_due (s_hb s) now (s_last_recv s)); reflexivity.
Qed.

(* the supervision Logout: exactly when a TestRequest is outstanding (state 9) and nothing was received
   for more than the period -- measured from the LAST RECEPTION, not from the TestRequest *)
Theorem logout_step : forall now s,
  sess_ok s = true -> is_shutdown s = false -> 1 <= s_hb s ->
  exists s' evs,
    heartbeat_service sc now s = (true, s', evs) /\
    existsb is_lo (outs evs) = quiet_due (s_hb s) now (s_last_recv s) && (s_state s =? st_test_request_sent) /\
    (existsb is_lo (outs evs) = true -> s_state s' = st_session_terminated /\ is_shutdown s' = true).
Proof.
  intros now s OK LIVE H1.
  destruct (tick_exact sc SOK now s OK LIVE H1) as [s' [evs [E [A [O [ST [_ [_ [_ [SH _]]]]]]]]]].
  exists s', evs. split; [exact E|]. rewrite O.
  destruct (hb_due (s_hb s) now (s_last_sent s)); cbn [app existsb is_lo orb];
    destruct (quiet_due (s_hb s) now (s_last_recv s)); cbn [andb];
    destruct (s_state s =? st_test_request_sent); cbn [existsb is_lo orb];
    (split; [reflexivity|]); intro X; try discriminate; split; assumption.
Qed.

(* the tick does what the property asks (the oracle's rule c22_step for OTick) whenever the period
   measured from the last reception and measured from the TestRequest give the same verdict *)
Theorem tick_meets_spec_partial : forall now s tp,
  sess_ok s = true -> is_shutdown s = false -> 1 <= s_hb s ->
  let H := s_hb s in
  let pend := s_state s =? st_test_request_sent in
  (pend = true -> quiet_due H now (s_last_recv s) = quiet_due H now (Z.max tp (s_last_recv s))) ->
  exists s' evs,
    heartbeat_service sc now s = (true, s', evs) /\
    let w := tick_wants H pend now (s_last_sent s) (s_last_recv s) tp in
    match_outs w (outs evs) = true /\
    s_state s' = (if has_want WLo w then st_session_terminated
                  else if has_want WTr w then st_test_request_sent else s_state s).
Proof.
  intros now s tp OK LIVE H1 H pend HYP.
  destruct (tick_exact sc SOK now s OK LIVE H1) as [s' [evs [E [A [O [ST _]]]]]].
  exists s', evs. split; [exact E|]. cbv zeta. rewrite O, ST. unfold tick_wants. fold H. fold pend.
  destruct pend eqn:PE.
  - rewrite <- HYP by reflexivity.
    destruct (hb_due H now (s_last_sent s)); destruct (quiet_due H now (s_last_recv s)); split; reflexivity.
  - destruct (hb_due H now (s_last_sent s)); destruct (quiet_due H now (s_last_recv s)); split; reflexivity.
Qed.
End Corollaries.

Lemma existsb_ext_tr : forall l,
  existsb (fun k => match k with KTestRequest (Some id) => beq id txt_test | _ => false end) l = true ->
  existsb is_tr l = true.
Proof.
  induction l as [|k l IH]; cbn [existsb]; intro H; [discriminate|].
  apply orb_true_iff in H. apply orb_true_iff. destruct H as [H|H]; [left|right; apply IH; exact H].
  destruct k; try discriminate. reflexivity.
Qed.

(* ---- F27: the Logout comes one tick after the TestRequest ------------------------------------------------ *)
Definition demo_sess : sess :=
  mkSess st_continuous 2 2 true T0 T0 30 Initiator [67;76;73] [83;82;86] [] (mkParams false true false false []) []
         (p_empty PNone) false false true 0 0.

Theorem logout_next_tick : forall sc, schema_ok sc = true ->
  let s := demo_sess in
  let t1 := (T0 + 37 * NS)%Z in
  let t2 := (t1 + NS)%Z in
  exists s1 e1 s2 e2,
    heartbeat_service sc t1 s = (true, s1, e1) /\ existsb is_tr (outs e1) = true /\ existsb is_lo (outs e1) = false /\
    heartbeat_service sc t2 s1 = (true, s2, e2) /\ existsb is_lo (outs e2) = true /\
    s_state s2 = st_session_terminated /\
    (* only one second after the TestRequest; the property asks for the whole period (36 s) *)
    elapsed t2 t1 = 1%Z /\ period (s_hb s1) = 36 /\
    has_want WLo (tick_wants (s_hb s1) true t2 (s_last_sent s1) (s_last_recv s1) t1) = false.
Proof.
  intros sc SOK s t1 t2.
  assert (OK : sess_ok s = true) by reflexivity.
  assert (LIVE : is_shutdown s = false) by reflexivity.
  assert (H1 : 1 <= s_hb s) by (cbn; lia).
  assert (Q : quiet_due (s_hb s) t1 (s_last_recv s) = true) by reflexivity.
  assert (NP : s_state s <> st_test_request_sent) by discriminate.
  destruct (testreq_due sc SOK t1 s OK LIVE H1 Q NP) as [s1 [e1 [E1 [TR [NL [ST1 [LR1 [HB1 [OK1 LIVE1]]]]]]]]].
  assert (H1' : 1 <= s_hb s1) by (rewrite HB1; cbn; lia).
  destruct (logout_step sc SOK t2 s1 OK1 LIVE1 H1') as [s2 [e2 [E2 [LO FIN]]]].
  rewrite HB1, LR1, ST1 in LO. change (quiet_due (s_hb s) t2 (s_last_recv s)) with true in LO.
  cbn [andb N.eqb st_test_request_sent Pos.eqb] in LO.
  exists s1, e1, s2, e2. split; [exact E1|]. split.
  { apply existsb_ext_tr. exact TR. }
  split; [exact NL|]. split; [exact E2|]. split; [exact LO|]. split; [apply FIN; exact LO|].
  split; [reflexivity|]. rewrite HB1. split; [reflexivity|].
  rewrite LR1. unfold tick_wants. change (quiet_due (s_hb s) t2 (Z.max t1 (s_last_recv s))) with false.
  destruct (hb_due (s_hb s) t2 (s_last_sent s1)); reflexivity.
Qed.
