(* Property C22 "Heartbeat and test-request supervision follows the protocol" as an executable
   predicate on observables: the history (case line: START/IN/SEND/TICK/CLOCK/... with virtual
   instants) and the trace (result line) of either side.  Written from the property text; it does
   not call the session model (only the concrete syntax of histories/traces and the tag=value
   tokenizer).

   Notions (all instants in ns of the virtual clock, H = heartbeat interval in force, in seconds):
     elapsed now t   = floor((now - t) / 1 s)                     whole seconds
     period H        = H + H / 5   (integer division)             "H plus 20 percent"
     last_sent       = instant of the latest operation during which the session put bytes on the
                       wire (0 = never, i.e. infinitely long ago)
     last_recv       = instant of the latest IN operation in which a message was read and processed
     pending         = the session state shown by the previous snapshot is test_request_sent (9);
                       tp = instant of the tick at which the outstanding TestRequest went out
   Supervision tick at instant `now` of a running session must put on the wire EXACTLY
     [Heartbeat without TestReqID]   iff  H <= elapsed now last_sent            followed by
     [TestRequest with a TestReqID]  iff  not pending and period H < elapsed now last_recv   (state := 9)
     [Logout]                        iff  pending and period H < elapsed now (max tp last_recv),
                                          i.e. the TestRequest has been out, and nothing has been
                                          received, for more than the period       (state := 2, terminated)
   and nothing else; a stopped/terminated session does nothing at a tick (returns false).
   Inbound: a TestRequest that is processed (process returns true, no Reject) is answered in the same
   step by a Heartbeat carrying the same TestReqID; a processed Heartbeat while pending returns the
   session to normal operation (state 1 if it is the last message of the step, never 9).
   An acceptor adopts the HeartBtInt of the Logon it answers with a Logon. *)
From Coq Require Import NArith ZArith List Bool.
From F8 Require Import Sess.Bytes Sess.Msg Sess.Persist Sess.Session Sess.Wire.
Import ListNotations.
Local Open Scope Z_scope.

(* ---- thresholds --------------------------------------------------------------------------------- *)
Definition elapsed (now before : Z) : Z := (now - before) / NS.
Definition period (H : N) : N := (H + H / 5)%N.
Definition hb_due (H : N) (now last_sent : Z) : bool := Z.of_N H <=? elapsed now last_sent.
Definition quiet_due (H : N) (now last_recv : Z) : bool := Z.of_N (period H) <? elapsed now last_recv.

(* ---- what a message on the wire is ---------------------------------------------------------------- *)
Inductive kind :=
| KHeartbeat (id : option bytes)
| KTestRequest (id : option bytes)
| KLogout
| KLogon (hbi : option bytes)
| KReject
| KOther.

Definition tagb (n : N) : bytes := dec n.
Definition msgtype_of (raw : bytes) : option bytes := tok_get (tagb T_MsgType) (tokens raw).
Definition testreqid_of (raw : bytes) : option bytes := tok_get (tagb T_TestReqID) (tokens raw).

Definition kind_of (raw : bytes) : kind :=
  match msgtype_of raw with
  | Some ty =>
    if beq ty mt_heartbeat then KHeartbeat (testreqid_of raw)
    else if beq ty mt_test_request then KTestRequest (testreqid_of raw)
    else if beq ty mt_logout then KLogout
    else if beq ty mt_logon then KLogon (tok_get (tagb T_HeartBtInt) (tokens raw))
    else if beq ty mt_reject then KReject
    else KOther
  | None => KOther
  end.

Definition outs (evs : list event) : list kind :=
  flat_map (fun e => match e with EOut raw => [kind_of raw] | EOutRaw _ => [KOther] | _ => [] end) evs.

Fixpoint last_ret (evs : list event) (acc : option Z) : option Z :=
  match evs with
  | [] => acc
  | ERet z :: evs' => last_ret evs' (Some z)
  | _ :: evs' => last_ret evs' acc
  end.

Inductive want := WHb | WTr | WLo.

Definition satisfies (w : want) (k : kind) : bool :=
  match w, k with
  | WHb, KHeartbeat None => true
  | WTr, KTestRequest (Some (_ :: _)) => true
  | WLo, KLogout => true
  | _, _ => false
  end.

Fixpoint match_outs (w : list want) (o : list kind) : bool :=
  match w, o with
  | [], [] => true
  | x :: w', k :: o' => satisfies x k && match_outs w' o'
  | _, _ => false
  end.

(* what the supervision tick has to do *)
Definition tick_wants (H : N) (pending : bool) (now last_sent last_recv tp : Z) : list want :=
  ((if hb_due H now last_sent then [WHb] else []) ++
   (if pending then (if quiet_due H now (Z.max tp last_recv) then [WLo] else [])
    else (if quiet_due H now last_recv then [WTr] else [])))%list.

Definition has_want (x : want) (l : list want) : bool :=
  existsb (fun y => match x, y with WHb, WHb => true | WTr, WTr => true | WLo, WLo => true | _, _ => false end) l.

(* ---- the inbound side ---------------------------------------------------------------------------- *)
(* events of an IN step, one group per processed message: (events before the RET, the RET value) *)
Fixpoint groups (evs : list event) (cur : list event) : list (list event * Z) :=
  match evs with
  | [] => []
  | ERet z :: evs' => (rev cur, z) :: groups evs' []
  | e :: evs' => groups evs' (e :: cur)
  end.

Definition has_reject (o : list kind) : bool := existsb (fun k => match k with KReject => true | _ => false end) o.
Definition answers (id : bytes) (o : list kind) : bool :=
  existsb (fun k => match k with KHeartbeat (Some i) => beq i id | _ => false end) o.
Definition logon_out (o : list kind) : bool := existsb (fun k => match k with KLogon _ => true | _ => false end) o.

Definition type_is (raw : bytes) (ty : bytes) : bool :=
  match msgtype_of raw with Some t => beq t ty | None => false end.

(* a message that went through process() normally *)
Definition processed (g : list event * Z) : bool := (snd g =? 1) && negb (has_reject (outs (fst g))).

(* every processed TestRequest is answered with its own TestReqID *)
Fixpoint testreqs_answered (ms : list bytes) (gs : list (list event * Z)) : bool :=
  match ms, gs with
  | raw :: ms', g :: gs' =>
    (if type_is raw mt_test_request && processed g then
       match testreqid_of raw with
       | Some id => answers id (outs (fst g))
       | None => true
       end
     else true) && testreqs_answered ms' gs'
  | _, _ => true
  end.

(* (some processed Heartbeat, the last message of the step is a processed Heartbeat) *)
Fixpoint heartbeat_seen (ms : list bytes) (gs : list (list event * Z)) : bool * bool :=
  match ms, gs with
  | raw :: ms', g :: gs' =>
    let here := type_is raw mt_heartbeat && processed g in
    match ms', gs' with
    | _ :: _, _ :: _ => let '(a, l) := heartbeat_seen ms' gs' in (here || a, l)
    | _, _ => (here, here)
    end
  | _, _ => (false, false)
  end.

(* the HeartBtInt an acceptor adopts in this step (the last Logon it answered with a Logon) *)
Fixpoint adopted_hb (ms : list bytes) (gs : list (list event * Z)) (acc : option N) : option N :=
  match ms, gs with
  | raw :: ms', g :: gs' =>
    let acc' :=
      if type_is raw mt_logon && logon_out (outs (fst g)) then
        match tok_get (tagb T_HeartBtInt) (tokens raw) with
        | Some v => match undec v with Some n => Some n | None => acc end
        | None => acc
        end
      else acc in
    adopted_hb ms' gs' acc'
  | _, _ => acc
  end.

Definition may_stop (ms : list bytes) (gs : list (list event * Z)) : bool :=
  existsb (fun g => negb (snd g =? 1)) gs || existsb (fun raw => type_is raw mt_logout) (firstn (length gs) ms).

(* ---- oracle state --------------------------------------------------------------------------------- *)
Record ost := mkO {
  o_now : Z;
  o_sp : startp;                 (* parameters of the last START *)
  o_H : N;
  o_state : option N;            (* STATE of the previous snapshot; None = no session *)
  o_stopped : bool;              (* the history stopped the session (STOP), or a tick found it stopped *)
  o_maybe : bool;                (* an inbound message may have stopped it (process returned false, Logout, EOF) *)
  o_last_sent : Z;
  o_last_recv : Z;
  o_tp : Z
}.

Definition ost0 : ost := mkO T0 default_sp 0 None false false 0 0 0.

Definition snap_state (st : step) (dflt : option N) : option N :=
  match st_snap st with Some sn => Some (sn_state sn) | None => dflt end.

Definition surely_down (o : ost) : bool :=
  o_stopped o || match o_state o with Some st => (st =? st_session_terminated)%N | None => true end.

Definition is_nil {A} (l : list A) : bool := match l with [] => true | _ => false end.

Definition sent_at (o : ost) (evs : list event) : Z := if is_nil (outs evs) then o_last_sent o else o_now o.

Definition fresh (now : Z) (p : startp) (st : step) : ost :=
  mkO now p (sp_hb p) (snap_state st None) false false (if is_nil (outs (st_events st)) then 0 else now) 0 0.

Definition c22_step (o : ost) (oper : op) (st : step) : option ost :=
  let evs := st_events st in
  let state' := snap_state st (o_state o) in
  match oper with
  | OStart p t => Some (fresh (match t with Some t' => t' | None => o_now o end) p st)
  | ORestart => Some (fresh (o_now o) (o_sp o) st)
  | OClock t => Some (mkO t (o_sp o) (o_H o) state' (o_stopped o) (o_maybe o) (o_last_sent o) (o_last_recv o) (o_tp o))
  | OStop => Some (mkO (o_now o) (o_sp o) (o_H o) state' true (o_maybe o) (sent_at o evs) (o_last_recv o) (o_tp o))
  | OPeerClose => Some (mkO (o_now o) (o_sp o) (o_H o) state' (o_stopped o) true (sent_at o evs) (o_last_recv o) (o_tp o))
  | OIn chunks =>
    let ms := fst (frames (concat chunks)) in
    let gs := groups evs [] in
    let pending := match o_state o with Some s => (s =? st_test_request_sent)%N | None => false end in
    let '(hb_any, hb_last) := heartbeat_seen ms gs in
    let back_ok :=
      if pending && hb_any then
        match state' with
        | Some s => negb (s =? st_test_request_sent)%N && (if hb_last then (s =? st_continuous)%N else true)
        | None => false
        end
      else true in
    if testreqs_answered ms gs && back_ok then
      let H' := match sp_role (o_sp o) with
                | Acceptor => match adopted_hb ms gs None with Some h => h | None => o_H o end
                | Initiator => o_H o
                end in
      Some (mkO (o_now o) (o_sp o) H' state' (o_stopped o) (o_maybe o || may_stop ms gs) (sent_at o evs)
                (if is_nil gs then o_last_recv o else o_now o) (o_tp o))
    else None
  | OTick t =>
    match o_state o with
    | None => Some (mkO t (o_sp o) (o_H o) state' (o_stopped o) (o_maybe o) (o_last_sent o) (o_last_recv o) (o_tp o))
    | Some s =>
      let o_t := mkO t (o_sp o) (o_H o) state' (o_stopped o) (o_maybe o) (o_last_sent o) (o_last_recv o) (o_tp o) in
      let ret := last_ret evs None in
      if surely_down o then
        (if is_nil (outs evs) && match ret with Some 0 => true | _ => false end then Some o_t else None)
      else
        match ret with
        | Some 0 =>
          if o_maybe o && is_nil (outs evs) then
            Some (mkO t (o_sp o) (o_H o) state' true (o_maybe o) (o_last_sent o) (o_last_recv o) (o_tp o))
          else None
        | Some 1 =>
          let pending := (s =? st_test_request_sent)%N in
          let w := tick_wants (o_H o) pending t (o_last_sent o) (o_last_recv o) (o_tp o) in
          let expect_state := if has_want WLo w then st_session_terminated
                              else if has_want WTr w then st_test_request_sent else s in
          if match_outs w (outs evs) && match state' with Some s' => (s' =? expect_state)%N | None => false end then
            Some (mkO t (o_sp o) (o_H o) state' (o_stopped o) (o_maybe o)
                      (if is_nil w then o_last_sent o else t) (o_last_recv o)
                      (if has_want WTr w then t else o_tp o))
          else None
        | _ => None
        end
    end
  | _ => Some (mkO (o_now o) (o_sp o) (o_H o) state' (o_stopped o) (o_maybe o) (sent_at o evs) (o_last_recv o) (o_tp o))
  end.

Fixpoint c22_steps (o : ost) (ops : list op) (tr : trace) : bool :=
  match ops, tr with
  | [], [] => true
  | oper :: ops', st :: tr' =>
    match c22_step o oper st with
    | Some o' => c22_steps o' ops' tr'
    | None => false
    end
  | _, _ => false
  end.

Definition c22_ok (ops : list op) (tr : trace) : bool := c22_steps ost0 ops tr.

Definition c22_ok_line (case result : bytes) : bool :=
  c22_ok (parse_history case) (parse_trace result).

(* index (from 0) of the first step that violates the property, for diagnostics; none = length *)
Fixpoint c22_first_bad (o : ost) (ops : list op) (tr : trace) (i : N) : N :=
  match ops, tr with
  | oper :: ops', st :: tr' =>
    match c22_step o oper st with
    | Some o' => c22_first_bad o' ops' tr' (i + 1)%N
    | None => i
    end
  | _, _ => i
  end.
Definition c22_first_bad_line (case result : bytes) : N :=
  c22_first_bad ost0 (parse_history case) (parse_trace result) 0.
