(* C22/C23: what Session::send does to a freshly generated message (the generate_* builders), and how
   the result looks on the wire.  Proofs only. *)
From Coq Require Import NArith ZArith List Bool Lia.
From F8 Require Import Sess.Bytes Sess.Msg Sess.Persist Sess.Session Sess.SessLemmas C22.Hyp C22.Spec_C22.
Import ListNotations.
Local Open Scope N_scope.

Lemma no_soh_nosoh : forall l, no_soh l = nosoh l.
Proof. reflexivity. Qed.

(* ---- add_hdr' / add_body' ------------------------------------------------------------------------- *)
Section Adds.
Variable sc : schema.

Lemma add_hdr'_type : forall t v m, m_type (add_hdr' sc t v m) = m_type m.
Proof. intros. unfold add_hdr', add_hdr. destruct (assoc t (sc_hdr sc)); reflexivity. Qed.
Lemma add_hdr'_body : forall t v m, m_body (add_hdr' sc t v m) = m_body m.
Proof. intros. unfold add_hdr', add_hdr. destruct (assoc t (sc_hdr sc)); reflexivity. Qed.
Lemma add_hdr'_custom : forall t v m, m_custom (add_hdr' sc t v m) = m_custom m.
Proof. intros. unfold add_hdr', add_hdr. destruct (assoc t (sc_hdr sc)); reflexivity. Qed.
Lemma add_hdr'_noinc : forall t v m, m_noinc (add_hdr' sc t v m) = m_noinc m.
Proof. intros. unfold add_hdr', add_hdr. destruct (assoc t (sc_hdr sc)); reflexivity. Qed.
Lemma add_hdr'_eob : forall t v m, m_eob (add_hdr' sc t v m) = m_eob m.
Proof. intros. unfold add_hdr', add_hdr. destruct (assoc t (sc_hdr sc)); reflexivity. Qed.

Lemma add_hdr'_get_other : forall t t' v m, t' <> t ->
  get_field t' (m_hdr (add_hdr' sc t v m)) = get_field t' (m_hdr m).
Proof.
  intros. unfold add_hdr', add_hdr. destruct (assoc t (sc_hdr sc)); [|reflexivity].
  cbn [m_hdr]. apply get_add_other. assumption.
Qed.
Lemma add_hdr'_has_other : forall t t' v m, t' <> t ->
  has_field t' (m_hdr (add_hdr' sc t v m)) = has_field t' (m_hdr m).
Proof. intros. unfold has_field. rewrite add_hdr'_get_other by assumption. reflexivity. Qed.
Lemma add_hdr'_vals_ok : forall t v m, nosoh v = true -> vals_ok (m_hdr m) = true ->
  vals_ok (m_hdr (add_hdr' sc t v m)) = true.
Proof.
  intros. unfold add_hdr', add_hdr. destruct (assoc t (sc_hdr sc)); [|assumption].
  cbn [m_hdr]. apply vals_ok_add; assumption.
Qed.

Lemma add_body'_type : forall t v m, m_type (add_body' sc t v m) = m_type m.
Proof.
  intros. unfold add_body', add_body. destruct (find_def (m_type m) (sc_msgs sc)); [|reflexivity].
  destruct (assoc t (d_pos m0)); reflexivity.
Qed.
Lemma add_body'_hdr : forall t v m, m_hdr (add_body' sc t v m) = m_hdr m.
Proof.
  intros. unfold add_body', add_body. destruct (find_def (m_type m) (sc_msgs sc)); [|reflexivity].
  destruct (assoc t (d_pos m0)); reflexivity.
Qed.
Lemma add_body'_custom : forall t v m, m_custom (add_body' sc t v m) = m_custom m.
Proof.
  intros. unfold add_body', add_body. destruct (find_def (m_type m) (sc_msgs sc)); [|reflexivity].
  destruct (assoc t (d_pos m0)); reflexivity.
Qed.
Lemma add_body'_noinc : forall t v m, m_noinc (add_body' sc t v m) = m_noinc m.
Proof.
  intros. unfold add_body', add_body. destruct (find_def (m_type m) (sc_msgs sc)); [|reflexivity].
  destruct (assoc t (d_pos m0)); reflexivity.
Qed.
Lemma add_body'_eob : forall t v m, m_eob (add_body' sc t v m) = m_eob m.
Proof.
  intros. unfold add_body', add_body. destruct (find_def (m_type m) (sc_msgs sc)); [|reflexivity].
  destruct (assoc t (d_pos m0)); reflexivity.
Qed.
Lemma add_body'_get_other : forall t t' v m, t' <> t ->
  get_field t' (m_body (add_body' sc t v m)) = get_field t' (m_body m).
Proof.
  intros. unfold add_body', add_body. destruct (find_def (m_type m) (sc_msgs sc)); [|reflexivity].
  destruct (assoc t (d_pos m0)); [|reflexivity]. cbn [m_body]. apply get_add_other. assumption.
Qed.
Lemma add_body'_get_same : forall t v m, body_pos_ok sc (m_type m) t = true -> NoDup (tags (m_body m)) ->
  get_field t (m_body (add_body' sc t v m)) = Some v.
Proof.
  intros t v m H ND. unfold body_pos_ok in H. unfold add_body', add_body.
  destruct (find_def (m_type m) (sc_msgs sc)); [|discriminate].
  destruct (assoc t (d_pos m0)); [|discriminate]. cbn [m_body]. apply get_add_same. assumption.
Qed.
Lemma add_body'_nodup : forall t v m, NoDup (tags (m_body m)) -> NoDup (tags (m_body (add_body' sc t v m))).
Proof.
  intros. unfold add_body', add_body. destruct (find_def (m_type m) (sc_msgs sc)); [|assumption].
  destruct (assoc t (d_pos m0)); [|assumption]. cbn [m_body]. apply nodup_add. assumption.
Qed.
Lemma add_body'_vals_ok : forall t v m, nosoh v = true -> vals_ok (m_body m) = true ->
  vals_ok (m_body (add_body' sc t v m)) = true.
Proof.
  intros. unfold add_body', add_body. destruct (find_def (m_type m) (sc_msgs sc)); [|assumption].
  destruct (assoc t (d_pos m0)); [|assumption]. cbn [m_body]. apply vals_ok_add; assumption.
Qed.
End Adds.

(* ---- the timestamp contains no SOH ------------------------------------------------------------------ *)
Lemma nosoh_pad : forall w n, nosoh (pad w n) = true.
Proof. intros. apply clean_nosoh, pad_clean. Qed.

Lemma fmt_time_nosoh : forall t, nosoh (fmt_time t) = true.
Proof.
  intros. unfold fmt_time. destruct (civil_of_days (t / NS / 86400)) as [[y m] d].
  rewrite !nosoh_app, !nosoh_pad. reflexivity.
Qed.

(* ---- frames: a partition of the buffer ---------------------------------------------------------------- *)
Lemma frames_aux_partition : forall fuel raw acc ms rest,
  frames_aux fuel raw acc = (ms, rest) -> (concat ms ++ rest = concat (rev acc) ++ raw)%list.
Proof.
  induction fuel; intros raw acc ms rest H; cbn [frames_aux] in H.
  - inversion H; subst. reflexivity.
  - destruct raw as [|b raw'].
    + inversion H; subst. reflexivity.
    + destruct (frame_len (b :: raw')) as [[|n]|].
      * inversion H; subst. reflexivity.
      * apply IHfuel in H. rewrite H. cbn [rev]. rewrite concat_app. cbn [concat]. rewrite app_nil_r.
        rewrite <- app_assoc. rewrite firstn_skipn. reflexivity.
      * inversion H; subst. reflexivity.
Qed.

Lemma frames_partition : forall raw ms rest, frames raw = (ms, rest) -> (concat ms ++ rest)%list = raw.
Proof. intros. unfold frames in H. apply frames_aux_partition in H. exact H. Qed.

Definition has_out (evs : list event) : bool :=
  existsb (fun e => match e with EOut _ => true | EOutRaw _ => true | _ => false end) evs.

Lemma has_out_app : forall a b, has_out (a ++ b) = has_out a || has_out b.
Proof. intros. unfold has_out. apply existsb_app. Qed.

Lemma has_out_map_EOut : forall ms, has_out (map EOut ms) = match ms with [] => false | _ => true end.
Proof. destruct ms; reflexivity. Qed.

Lemma out_events_nonempty : forall buf, buf <> [] -> has_out (out_events buf) = true.
Proof.
  intros buf NE. unfold out_events. destruct (frames buf) as [ms rest] eqn:F.
  apply frames_partition in F. rewrite has_out_app, has_out_map_EOut.
  destruct ms as [|x ms]; [|reflexivity]. cbn [concat app] in F. subst rest.
  destruct buf; [contradiction|reflexivity].
Qed.

(* ---- what send_process never touches ---------------------------------------------------------------- *)
Definition same_core (s s' : sess) : Prop :=
  s_state s' = s_state s /\ s_next_recv s' = s_next_recv s /\ s_active s' = s_active s /\
  s_last_recv s' = s_last_recv s /\ s_hb s' = s_hb s /\ s_role s' = s_role s /\ s_snd s' = s_snd s /\
  s_tgt s' = s_tgt s /\ s_sci s' = s_sci s /\ s_par s' = s_par s /\ s_shutdown s' = s_shutdown s /\
  s_closed s' = s_closed s /\ s_reader s' = s_reader s /\ s_req_send s' = s_req_send s /\
  s_req_recv s' = s_req_recv s.

Lemma same_core_refl : forall s, same_core s s.
Proof. intros. repeat split. Qed.

Lemma same_core_trans : forall a b c, same_core a b -> same_core b c -> same_core a c.
Proof.
  unfold same_core. intros a b c H1 H2.
  repeat match goal with H : _ /\ _ |- _ => destruct H end.
  repeat split; congruence.
Qed.

Ltac core_simpl := unfold same_core; cbn [s_state s_next_send s_next_recv s_active s_last_sent s_last_recv s_hb s_role
  s_snd s_tgt s_sci s_par s_batch s_per s_shutdown s_closed s_reader s_req_send s_req_recv
  w_state w_next_send w_next_recv w_last_sent w_last_recv w_hb w_sid w_batch w_per w_down].

Lemma same_core_w_batch : forall v s, same_core s (w_batch v s).
Proof. intros. core_simpl. repeat split. Qed.
Lemma same_core_w_last_sent : forall v s, same_core s (w_last_sent v s).
Proof. intros. core_simpl. repeat split. Qed.
Lemma same_core_w_per : forall v s, same_core s (w_per v s).
Proof. intros. core_simpl. repeat split. Qed.
Lemma same_core_w_next_send : forall v s, same_core s (w_next_send v s).
Proof. intros. core_simpl. repeat split. Qed.

(* the effect of send_process on the two things supervision looks at *)
Definition sent_rel (now : Z) (s s' : sess) (evs : list event) : Prop :=
  same_core s s' /\
  (if has_out evs then s_last_sent s' = now else s_last_sent s' = s_last_sent s).

Lemma encode_not_nil : forall sc m, encode sc m <> [].
Proof. intros sc m E. pose proof (encode_nonempty sc m) as L. rewrite E in L. cbn in L. lia. Qed.

Lemma app_not_nil_r : forall (A : Type) (a b : list A), b <> [] -> (a ++ b)%list <> [].
Proof. intros A a b H E. apply app_eq_nil in E. destruct E. contradiction. Qed.


(* send_process cut into its three stages (convertible to the model's definition) *)
Definition sp_prep (sc : schema) (now : Z) (s : sess) (m : msg) : msg * bool :=
  let asa := pr_asa (s_par s) in
  let is_dup0 := has_field T_PossDupFlag (m_hdr m) in
  let m1 := if has_field T_SenderCompID (m_hdr m) then m else add_hdr' sc T_SenderCompID (s_snd s) m in
  let m2 := if has_field T_TargetCompID (m_hdr m1) then m1 else add_hdr' sc T_TargetCompID (s_tgt s) m1 in
  let seqv := dec (if m_custom m =? 0 then s_next_send s else m_custom m) in
    if has_field T_MsgSeqNum (m_hdr m2) then
      let '(m3a, dup) :=
        if is_dup0 then ((if asa then del_hdr T_PossDupFlag m2 else m2), true)
        else if asa then (m2, false) else (add_hdr' sc T_PossDupFlag s_Y m2, true) in
      let sendtime := match get_field T_SendingTime (m_hdr m3a) with Some v => v | None => fmt_time now end in
      let m3b := add_hdr' sc T_OrigSendingTime sendtime m3a in
      ((if asa then add_hdr' sc T_MsgSeqNum seqv m3b else m3b), dup)
    else (add_hdr' sc T_MsgSeqNum seqv m2, is_dup0).

Definition sp_step (s : sess) (now : Z) (m : msg) (enc : bytes) : bool * sess * list event * bytes :=
    if m_eob m then
      let '(tosend, appended) :=
        match s_batch s with
        | [] => (enc, false)
        | _ => ((s_batch s ++ enc)%list, true)
        end in
      if s_closed s then
        (false, (if appended then w_batch tosend s else s), [], [])
      else
        (true, w_batch [] (w_last_sent now s), out_events tosend, enc)
    else
      (true, w_batch (s_batch s ++ enc)%list s, [], enc).

Definition sp_fin (sc : schema) (m : msg) (is_dup : bool) (r : bool * sess * list event * bytes) : bool * sess * list event :=
  let '(ok, s1, evs, ptr) := r in
  if negb ok then (false, s1, evs)
  else if is_dup then (true, s1, evs)
  else
    let increment := (m_custom m =? 0) && negb (m_noinc m) && negb (beq (m_type m) mt_sequence_reset) in
    let per1 :=
      if p_attached (s_per s1) then
        let p0 := if is_admin sc (m_type m) then s_per s1 else p_put (s_per s1) (s_next_send s1) ptr in
        p_put_ctrl p0 (if increment then s_next_send s1 + 1 else s_next_send s1) (s_next_recv s1)
      else s_per s1 in
    let s2 := w_per per1 s1 in
    let s3 := if increment then w_next_send (s_next_send s2 + 1) s2 else s2 in
    (true, s3, evs).

Lemma send_process_stages : forall sc now s m,
  send_process sc now s m =
  let '(m3, is_dup) := sp_prep sc now s m in
  sp_fin sc m is_dup (sp_step s now m (encode sc (add_hdr' sc T_SendingTime (fmt_time now) m3))).
Proof. reflexivity. Qed.

Lemma sp_step_rel : forall s now m enc ok s1 evs ptr,
  enc <> [] -> sp_step s now m enc = (ok, s1, evs, ptr) -> sent_rel now s s1 evs.
Proof.
  intros s now m enc ok s1 evs ptr NE ST. unfold sp_step in ST.
  destruct (m_eob m).
  - destruct (s_batch s) eqn:BT.
    + destruct (s_closed s) eqn:CL; inversion ST; subst.
      * split; [apply same_core_refl|reflexivity].
      * split.
        { eapply same_core_trans; [apply same_core_w_last_sent|apply same_core_w_batch]. }
        { rewrite out_events_nonempty by exact NE. reflexivity. }
    + destruct (s_closed s) eqn:CL; inversion ST; subst.
      * split; [apply same_core_w_batch|reflexivity].
      * split.
        { eapply same_core_trans; [apply same_core_w_last_sent|apply same_core_w_batch]. }
        { rewrite out_events_nonempty by discriminate. reflexivity. }
  - inversion ST; subst. split; [apply same_core_w_batch|reflexivity].
Qed.

Lemma sp_fin_rel : forall sc now s m is_dup r ok s' evs,
  sent_rel now s (snd (fst (fst r))) (snd (fst r)) ->
  sp_fin sc m is_dup r = (ok, s', evs) -> sent_rel now s s' evs.
Proof.
  intros sc now s m is_dup [[[ok1 s1] e1] ptr] ok s' evs R H. cbn [fst snd] in R. unfold sp_fin in H.
  destruct R as [C LS].
  destruct (negb ok1); [inversion H; subst; split; assumption|].
  destruct is_dup; [inversion H; subst; split; assumption|].
  cbv zeta in H.
  match type of H with (_, ?x, _) = _ => assert (S3 : sent_rel now s x e1) end.
  { split.
    - eapply same_core_trans; [exact C|].
      match goal with |- same_core _ (if ?c then _ else _) => destruct c end.
      + eapply same_core_trans; [apply same_core_w_per|apply same_core_w_next_send].
      + apply same_core_w_per.
    - match goal with |- context [if ?c then w_next_send _ _ else _] => destruct c end; core_simpl; exact LS. }
  inversion H; subst. exact S3.
Qed.

Lemma send_process_rel : forall sc now s m ok s' evs,
  send_process sc now s m = (ok, s', evs) -> sent_rel now s s' evs.
Proof.
  intros sc now s m ok s' evs H. rewrite send_process_stages in H.
  destruct (sp_prep sc now s m) as [m3 is_dup].
  destruct (sp_step s now m (encode sc (add_hdr' sc T_SendingTime (fmt_time now) m3))) as [[[ok1 s1] e1] ptr] eqn:ST.
  eapply sp_fin_rel; [|exact H]. cbn [fst snd].
  eapply sp_step_rel; [apply encode_not_nil|exact ST].
Qed.

Lemma send_rel : forall sc now s m c n ok s' evs,
  send sc now s m c n = (ok, s', evs) -> sent_rel now s s' evs.
Proof. intros. unfold send in H. eapply send_process_rel. exact H. Qed.

(* ---- a freshly generated message on the wire ------------------------------------------------------------ *)
Definition fresh (ty : bytes) (body : list field) (noinc : bool) : msg := mkMsg ty [] body 0 noinc true.

Definition wire (sc : schema) (s : sess) (now : Z) (m : msg) : msg :=
  add_hdr' sc T_SendingTime (fmt_time now)
    (add_hdr' sc T_MsgSeqNum (dec (s_next_send s))
      (add_hdr' sc T_TargetCompID (s_tgt s) (add_hdr' sc T_SenderCompID (s_snd s) m))).

Lemma sp_prep_fresh : forall sc now s ty body noinc,
  sp_prep sc now s (fresh ty body noinc) =
  (add_hdr' sc T_MsgSeqNum (dec (s_next_send s))
     (add_hdr' sc T_TargetCompID (s_tgt s) (add_hdr' sc T_SenderCompID (s_snd s) (fresh ty body noinc))), false).
Proof.
  intros. unfold sp_prep. cbn [fresh m_hdr m_custom has_field get_field N.eqb].
  rewrite add_hdr'_has_other by discriminate. cbn [fresh m_hdr has_field get_field].
  rewrite !add_hdr'_has_other by discriminate. cbn [fresh m_hdr has_field get_field]. reflexivity.
Qed.

Lemma frames_one : forall sc m, nosoh (sc_begin sc) = true -> frames (encode sc m) = ([encode sc m], []).
Proof.
  intros. pose proof (frames_encodes sc [m] H) as F. cbn [map concat] in F. rewrite app_nil_r in F. exact F.
Qed.

Lemma out_events_one : forall sc m, nosoh (sc_begin sc) = true -> out_events (encode sc m) = [EOut (encode sc m)].
Proof. intros. unfold out_events. rewrite frames_one by assumption. reflexivity. Qed.

Lemma send_fresh : forall sc now s ty body noinc noinc',
  nosoh (sc_begin sc) = true -> s_closed s = false -> s_batch s = [] ->
  exists s',
    send sc now s (fresh ty body noinc) 0 noinc' = (true, s', [EOut (encode sc (wire sc s now (fresh ty body noinc)))]) /\
    same_core s s' /\ s_last_sent s' = now /\ s_batch s' = [].
Proof.
  intros sc now s ty body noinc noinc' B CL BT.
  assert (E : forall n2, send_process sc now s (fresh ty body n2) =
             sp_fin sc (fresh ty body n2) false
               (true, w_batch [] (w_last_sent now s), [EOut (encode sc (wire sc s now (fresh ty body n2)))],
                encode sc (wire sc s now (fresh ty body n2)))).
  { intro n2. rewrite send_process_stages. rewrite sp_prep_fresh. unfold sp_step. cbn [fresh m_eob].
    rewrite BT, CL. fold (fresh ty body n2). fold (wire sc s now (fresh ty body n2)).
    rewrite out_events_one by exact B. reflexivity. }
  assert (W : forall n2, encode sc (wire sc s now (fresh ty body n2)) = encode sc (wire sc s now (fresh ty body noinc))).
  { intro n2. unfold wire, add_hdr', add_hdr. 
    repeat match goal with |- context [assoc ?t (sc_hdr sc)] => destruct (assoc t (sc_hdr sc)) end; reflexivity. }
  unfold send. cbn [N.eqb].
  assert (X : (if noinc' then set_noinc true (fresh ty body noinc) else fresh ty body noinc) = fresh ty body (noinc' || noinc)).
  { destruct noinc'; reflexivity. }
  rewrite X, E, W. unfold sp_fin. cbn [negb].
  eexists. split; [reflexivity|].
  match goal with |- same_core _ ?x /\ _ =>
    assert (R : sent_rel now s x [EOut (encode sc (wire sc s now (fresh ty body noinc)))]) end.
  { eapply (sp_fin_rel sc now s (fresh ty body (noinc' || noinc)) false
              (true, w_batch [] (w_last_sent now s), [EOut (encode sc (wire sc s now (fresh ty body noinc)))],
               encode sc (wire sc s now (fresh ty body noinc)))).
    - cbn [fst snd]. split.
      + eapply same_core_trans; [apply same_core_w_last_sent|apply same_core_w_batch].
      + reflexivity.
    - unfold sp_fin. cbn [negb]. reflexivity. }
  destruct R as [C LS]. cbn [has_out existsb orb] in LS.
  split; [exact C|split]; [exact LS|].
  - match goal with |- s_batch (if ?c then _ else _) = [] => destruct c end; reflexivity.
Qed.

(* ---- reading it back from the wire ------------------------------------------------------------------- *)
Lemma wire_type : forall sc s now m, m_type (wire sc s now m) = m_type m.
Proof. intros. unfold wire. rewrite !add_hdr'_type. reflexivity. Qed.
Lemma wire_body : forall sc s now m, m_body (wire sc s now m) = m_body m.
Proof. intros. unfold wire. rewrite !add_hdr'_body. reflexivity. Qed.

Lemma wire_hdr_other : forall sc s now ty body n t,
  t <> T_SendingTime -> t <> T_MsgSeqNum -> t <> T_TargetCompID -> t <> T_SenderCompID ->
  get_field t (m_hdr (wire sc s now (fresh ty body n))) = None.
Proof. intros. unfold wire. rewrite !add_hdr'_get_other by assumption. reflexivity. Qed.

Lemma wire_wf : forall sc s now ty body n,
  nosoh (sc_begin sc) = true -> nosoh ty = true -> vals_ok body = true ->
  nosoh (s_snd s) = true -> nosoh (s_tgt s) = true ->
  wf_msg sc (wire sc s now (fresh ty body n)) = true.
Proof.
  intros sc s now ty body n B T V S1 S2. unfold wf_msg. rewrite wire_type, wire_body. cbn [fresh m_type m_body].
  rewrite B, T, V. cbn [andb]. rewrite andb_true_r. unfold wire.
  apply add_hdr'_vals_ok; [apply fmt_time_nosoh|].
  apply add_hdr'_vals_ok; [apply clean_nosoh, dec_clean|].
  apply add_hdr'_vals_ok; [exact S2|].
  apply add_hdr'_vals_ok; [exact S1|]. reflexivity.
Qed.

Section Obs.
Variables (sc : schema) (s : sess) (now : Z) (ty : bytes) (body : list field) (n : bool).
Hypothesis B : nosoh (sc_begin sc) = true.
Hypothesis T : nosoh ty = true.
Hypothesis V : vals_ok body = true.
Hypothesis S1 : nosoh (s_snd s) = true.
Hypothesis S2 : nosoh (s_tgt s) = true.

Let raw := encode sc (wire sc s now (fresh ty body n)).

Lemma wire_msgtype : msgtype_of raw = Some ty.
Proof.
  unfold msgtype_of, tagb, raw. rewrite tok_get_encode_type by (apply wire_wf; assumption).
  rewrite wire_type. reflexivity.
Qed.

Lemma wire_body_tag : forall t,
  t <> 8 -> t <> 9 -> t <> 10 -> t <> T_MsgType ->
  t <> T_SendingTime -> t <> T_MsgSeqNum -> t <> T_TargetCompID -> t <> T_SenderCompID ->
  tok_get (tagb t) (tokens raw) = get_field t body.
Proof.
  intros t H8 H9 H10 H35 H52 H34 H56 H49. unfold tagb, raw.
  rewrite tok_get_encode by (try apply wire_wf; assumption).
  rewrite wire_hdr_other by assumption. rewrite wire_body. cbn [fresh m_body].
  destruct (get_field t body); [reflexivity|]. apply N.eqb_neq in H10. rewrite H10. reflexivity.
Qed.

Lemma wire_testreqid : testreqid_of raw = get_field T_TestReqID body.
Proof. unfold testreqid_of. apply wire_body_tag; discriminate. Qed.

Lemma wire_kind_heartbeat : ty = mt_heartbeat -> kind_of raw = KHeartbeat (get_field T_TestReqID body).
Proof. intro E. unfold kind_of. rewrite wire_msgtype, wire_testreqid, E. reflexivity. Qed.
Lemma wire_kind_test_request : ty = mt_test_request -> kind_of raw = KTestRequest (get_field T_TestReqID body).
Proof. intro E. unfold kind_of. rewrite wire_msgtype, wire_testreqid, E. reflexivity. Qed.
Lemma wire_kind_logout : ty = mt_logout -> kind_of raw = KLogout.
Proof. intro E. unfold kind_of. rewrite wire_msgtype, E. reflexivity. Qed.
Lemma wire_kind_logon : ty = mt_logon -> kind_of raw = KLogon (get_field T_HeartBtInt body).
Proof.
  intro E. unfold kind_of. rewrite wire_msgtype, E. cbn [beq mt_logon mt_heartbeat mt_test_request mt_logout N.eqb Pos.eqb andb].
  rewrite wire_body_tag by discriminate. reflexivity.
Qed.
End Obs.
