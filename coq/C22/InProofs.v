(* C22: the inbound side -- an inbound TestRequest is answered with a Heartbeat carrying the same
   TestReqID; an inbound Heartbeat while a TestRequest is outstanding returns the session to normal
   operation.  Statements about Session::process (model), for every decoder.  Proofs only. *)
From Coq Require Import NArith ZArith List Bool Lia.
From F8 Require Import Sess.Bytes Sess.Msg Sess.Persist Sess.Session Sess.Wire Sess.SessLemmas
  C22.Hyp C22.Spec_C22 C22.SendLemmas C22.HbProofs.
Import ListNotations.
Local Open Scope N_scope.

Section In.
Variable sc : schema.
Hypothesis SOK : schema_ok sc = true.
Variable decode : bytes -> decode_result.
Variable fl : bytes.
Variable now : Z.

Lemma sess_ok_w_state : forall st s, sess_ok (w_state st s) = sess_ok s.
Proof. reflexivity. Qed.

Lemma resend_request_fresh : forall b e, exists body,
  generate_resend_request sc b e = fresh mt_resend_request body false /\ vals_ok body = true.
Proof.
  intros. unfold generate_resend_request. rewrite new_msg_fresh.
  rewrite (add_body'_fresh sc T_BeginSeqNo). rewrite (add_body'_fresh sc T_EndSeqNo).
  eexists. split; [reflexivity|].
  apply add_body'_vals_ok; [apply clean_nosoh, dec_clean|].
  cbn [fresh m_body]. apply add_body'_vals_ok; [apply clean_nosoh, dec_clean|reflexivity].
Qed.

(* enforce: a session that can write still can afterwards; an outstanding TestRequest stays outstanding *)
Lemma enforce_keeps : forall q m s r s1 e1,
  sess_ok s = true -> enforce sc now q m s = (r, s1, e1) ->
  sess_ok s1 = true /\ (s_state s = st_test_request_sent -> s_state s1 = st_test_request_sent).
Proof.
  intros q m s r s1 e1 OK E.
  unfold enforce, bind, get in E.
  destruct (is_established (s_state s)); [|inversion E; subst; split; [exact OK|auto]].
  assert (CC : forall r' s' e', (if negb (s_state s =? st_logon_received) then compid_check m else ret tt) s = (r', s', e') -> s' = s).
  { intros r' s' e' H. destruct (negb (s_state s =? st_logon_received)).
    - unfold compid_check, bind, get, ret, throw in H.
      repeat match type of H with context [if ?c then _ else _] => destruct c end; inversion H; reflexivity.
    - inversion H; reflexivity. }
  destruct ((if negb (s_state s =? st_logon_received) then compid_check m else ret tt) s) as [[[u|ex] sa] ea] eqn:EC.
  - assert (sa = s) by (eapply CC; reflexivity).
    subst sa.
    destruct (negb (beq (m_type m) mt_sequence_reset)).
    + unfold bind in E.
      destruct (sequence_check sc now q m s) as [[[bb|ex] sb] eb] eqn:SQ.
      * assert (K : sess_ok sb = true /\ (s_state s = st_test_request_sent -> s_state sb = st_test_request_sent)).
        { unfold sequence_check, bind, get, ret, throw, set_state, modify, do_send in SQ.
          destruct (s_next_recv s <? q).
          - destruct (s_state s =? st_continuous) eqn:CT.
            + destruct (resend_request_fresh (s_next_recv s) 0) as [body [G V]]. rewrite G in SQ.
              destruct (send_fresh_ok sc now s mt_resend_request body false false SOK OK eq_refl V)
                as [s2 [raw [SE [_ [_ [_ [_ [_ OK2]]]]]]]].
              rewrite SE in SQ. inversion SQ; subst. split; [exact OK2|].
              intro X. apply N.eqb_eq in CT. rewrite X in CT. discriminate.
            + inversion SQ.
          - destruct (q <? s_next_recv s).
            + destruct (negb (bool_field (get_field T_PossDupFlag (m_hdr m)))); [inversion SQ|].
              destruct (get_field T_OrigSendingTime (m_hdr m)); [destruct (get_field T_SendingTime (m_hdr m))|].
              * destruct (bgt l l0); inversion SQ; subst; split; [exact OK|auto].
              * inversion SQ; subst; split; [exact OK|auto].
              * inversion SQ; subst; split; [exact OK|auto].
            + inversion SQ; subst; split; [exact OK|auto]. }
        inversion E; subst. exact K.
      * inversion E; subst.
        unfold sequence_check, bind, get, ret, throw, set_state, modify, do_send in SQ.
        destruct (s_next_recv s <? q).
        { destruct (s_state s =? st_continuous) eqn:CT.
          - destruct (resend_request_fresh (s_next_recv s) 0) as [body [G V]]. rewrite G in SQ.
            destruct (send_fresh_ok sc now s mt_resend_request body false false SOK OK eq_refl V)
              as [s2 [raw [SE _]]].
            rewrite SE in SQ. inversion SQ.
          - inversion SQ; subst. split; [exact OK|auto]. }
        destruct (q <? s_next_recv s).
        { destruct (negb (bool_field (get_field T_PossDupFlag (m_hdr m)))); [inversion SQ; subst; split; [exact OK|auto]|].
          destruct (get_field T_OrigSendingTime (m_hdr m)); [destruct (get_field T_SendingTime (m_hdr m))|].
          - destruct (bgt l l0); inversion SQ; subst; split; [exact OK|auto].
          - inversion SQ.
          - inversion SQ. }
        inversion SQ.
    + inversion E; subst. split; [exact OK|auto].
  - inversion E; subst. assert (s1 = s) by (eapply CC; reflexivity). subst. split; [exact OK|auto].
Qed.

(* process on a message the decoder accepts, whose type is a single character c (so dispatch selects a handler) *)
Lemma process_decoded : forall raw s rest q m,
  find_after pat_34 raw = Some rest -> fast_atoi_u rest SOH 0 = Some q -> decode raw = DecOk m ->
  process sc decode fl now raw s = process_catch sc now q (Some (m_type m)) (process_body sc decode now q m s).
Proof. intros raw s rest q m F1 F2 D. unfold process. rewrite F1, F2, D. reflexivity. Qed.

(* an inbound TestRequest that passes the session rules is answered by a Heartbeat with the same TestReqID *)
Theorem testreq_answer : forall raw s rest q m id b s1 e1,
  sess_ok s = true ->
  find_after pat_34 raw = Some rest -> fast_atoi_u rest SOH 0 = Some q -> decode raw = DecOk m ->
  m_type m = mt_test_request -> get_field T_TestReqID (m_body m) = Some id -> id <> [] -> nosoh id = true ->
  enforce sc now q m s = (inl b, s1, e1) ->
  exists s' out,
    process sc decode fl now raw s = (true, s', (e1 ++ [EOut out])%list) /\
    kind_of out = KHeartbeat (Some id) /\ s_state s' = s_state s1.
Proof.
  intros raw s rest q m id b s1 e1 OK F1 F2 D TY ID NE NS ENF.
  destruct (enforce_keeps q m s _ s1 e1 OK ENF) as [OK1 _].
  assert (G : exists body, generate_heartbeat sc id = fresh mt_heartbeat body false /\ vals_ok body = true /\
                           get_field T_TestReqID body = Some id).
  { unfold generate_heartbeat. destruct id as [|c id']; [contradiction|].
    rewrite new_msg_fresh, add_body'_fresh. eexists. split; [reflexivity|]. split.
    - apply add_body'_vals_ok; [exact NS|reflexivity].
    - apply add_body'_get_same; [|constructor]. apply schema_ok_split in SOK. tauto. }
  destruct G as [body [G [V TR]]].
  destruct (send_fresh_ok sc now s1 mt_heartbeat body false false SOK OK1 eq_refl V)
    as [s2 [out [SE [RW [MT [TG [C [LS OK2]]]]]]]].
  rewrite (process_decoded raw s rest q m F1 F2 D).
  unfold process_body, dispatch. rewrite TY. cbn [mt_test_request N.eqb Pos.eqb].
  unfold handle_test_request. unfold bind at 1 2 3 4 5 6 7. rewrite ENF. rewrite ID.
  unfold do_send. rewrite G, SE. unfold ret, modify, bind. cbn [fst snd].
  unfold process_catch.
  eexists. exists out. split.
  - rewrite !app_nil_r. reflexivity.
  - split.
    + unfold kind_of. rewrite MT. cbn [beq mt_heartbeat N.eqb Pos.eqb andb]. unfold testreqid_of.
      rewrite TG by discriminate. rewrite TR. reflexivity.
    + unfold same_core in C. destruct C as [Cst _]. unfold update_persist_seqnums.
      match goal with |- context [if ?c then _ else _] => destruct c end; cbn; exact Cst.
Qed.

(* an inbound Heartbeat that passes the session rules while a TestRequest is outstanding: back to normal *)
Theorem hb_resets : forall raw s rest q m b s1 e1,
  sess_ok s = true ->
  find_after pat_34 raw = Some rest -> fast_atoi_u rest SOH 0 = Some q -> decode raw = DecOk m ->
  m_type m = mt_heartbeat -> s_state s = st_test_request_sent ->
  enforce sc now q m s = (inl b, s1, e1) ->
  exists s', process sc decode fl now raw s = (true, s', e1) /\ s_state s' = st_continuous.
Proof.
  intros raw s rest q m b s1 e1 OK F1 F2 D TY ST ENF.
  destruct (enforce_keeps q m s _ s1 e1 OK ENF) as [OK1 ST1]. specialize (ST1 ST).
  rewrite (process_decoded raw s rest q m F1 F2 D).
  unfold process_body, dispatch. rewrite TY. cbn [mt_heartbeat N.eqb Pos.eqb].
  unfold handle_heartbeat. unfold bind at 1 2 3 4 5 6 7 8. rewrite ENF.
  unfold get. rewrite ST1. cbn [N.eqb st_test_request_sent Pos.eqb].
  unfold set_state, ret, modify, bind. cbn [fst snd]. unfold process_catch.
  eexists. split.
  - rewrite !app_nil_r. reflexivity.
  - unfold update_persist_seqnums.
    match goal with |- context [if ?c then _ else _] => destruct c end; reflexivity.
Qed.

(* ... and otherwise the state test_request_sent is left only through handle_heartbeat, handle_logon or
   a ResendRequest; in particular application messages and TestRequests leave it outstanding: see
   Invariant.P_process for the converse direction (it is never ENTERED by the inbound path). *)
End In.
