(* C22/C23: the run-time-checked hypotheses of the theorems (evaluated by the drivers on the schema
   metadata dumped from the generated code, and by the proofs as boolean premises).  Definitions only. *)
From Coq Require Import NArith ZArith List Bool.
From F8 Require Import Sess.Bytes Sess.Msg Sess.Persist Sess.Session.
Import ListNotations.
Local Open Scope N_scope.

Definition no_soh (l : bytes) : bool := forallb (fun b => negb (b =? SOH)) l.

(* message type ty has a body position for tag *)
Definition body_pos_ok (sc : schema) (ty : bytes) (tag : N) : bool :=
  match find_def ty (sc_msgs sc) with
  | Some d => match assoc tag (d_pos d) with Some _ => true | None => false end
  | None => false
  end.

(* what the theorems need from the schema: a BeginString without SOH, and the session-level
   messages can carry the fields the session puts into them *)
Definition schema_ok (sc : schema) : bool :=
  no_soh (sc_begin sc) &&
  body_pos_ok sc mt_heartbeat T_TestReqID &&
  body_pos_ok sc mt_test_request T_TestReqID &&
  body_pos_ok sc mt_logon T_HeartBtInt &&
  body_pos_ok sc mt_logon T_EncryptMethod &&
  body_pos_ok sc mt_logon T_ResetSeqNumFlag.

(* the session can write: socket open, no half-built batch, CompIDs printable as field values *)
Definition sess_ok (s : sess) : bool :=
  negb (s_closed s) && match s_batch s with [] => true | _ => false end &&
  no_soh (s_snd s) && no_soh (s_tgt s).
