(* Lemmas about the key-sorted association lists of SMap.v. *)
From Coq Require Import NArith List Bool Lia.
From F8 Require Import C26.SMap.
Import ListNotations.
Local Open Scope N_scope.

Section Gen.
Context {V : Type}.
Implicit Types m r : smap V.

Definition keys (m : smap V) : list N := map fst m.
Definition lb (k : N) (m : smap V) : Prop := Forall (fun e => k < fst e) m.
Fixpoint ssorted (m : smap V) : Prop :=
  match m with
  | [] => True
  | (k, _) :: r => lb k r /\ ssorted r
  end.

Lemma lb_weaken : forall j k m, j <= k -> lb k m -> lb j m.
Proof.
  intros j k m H L. unfold lb in *. rewrite Forall_forall in *. intros e He.
  specialize (L e He). lia.
Qed.

Lemma ssorted_lb_tail : forall k v r, ssorted ((k, v) :: r) -> lb k r.
Proof. intros k v r [H _]. exact H. Qed.

Lemma sfind_lb : forall j k m, j <= k -> lb k m -> sfind j m = None.
Proof.
  intros j k m Hj L. induction m as [|[k' v'] r IH]; cbn [sfind]; auto.
  inversion L; subst. cbn [fst] in *.
  destruct (N.eqb_spec j k'); [lia|]. apply IH; auto.
Qed.

Lemma sfind_in_keys : forall k m v, sfind k m = Some v -> In k (keys m).
Proof.
  intros k m. induction m as [|[k' v'] r IH]; cbn [sfind keys map fst In]; intros v H; [discriminate|].
  destruct (N.eqb_spec k k'); [left; auto|right; eapply IH; eauto].
Qed.

Lemma sfind_none_notin : forall k m, sfind k m = None -> ~ In k (keys m).
Proof.
  intros k m. induction m as [|[k' v'] r IH]; cbn [sfind keys map fst In]; intros H; [tauto|].
  destruct (N.eqb_spec k k'); [discriminate|]. intros [E|E]; [congruence|]. apply IH; auto.
Qed.

Lemma in_keys_sfind : forall k m, In k (keys m) -> exists v, sfind k m = Some v.
Proof.
  intros k m. induction m as [|[k' v'] r IH]; cbn [sfind keys map fst In]; intros H; [tauto|].
  destruct (N.eqb_spec k k'); [eauto|]. destruct H as [E|E]; [congruence|]. apply IH; auto.
Qed.

(* ---- sinsert ---- *)
Lemma sinsert_none : forall k v m, sfind k m = None -> snd (sinsert k v m) = true.
Proof.
  intros k v m. induction m as [|[k' v'] r IH]; cbn [sfind sinsert]; intros H; auto.
  destruct (N.ltb_spec k k'); auto.
  destruct (N.eqb_spec k k'); [discriminate|].
  destruct (sinsert k v r) as [r' b]. cbn [snd] in *. auto.
Qed.

Lemma sinsert_some : forall k v m x, ssorted m -> sfind k m = Some x ->
  sinsert k v m = (m, false).
Proof.
  intros k v m x. induction m as [|[k' v'] r IH]; cbn [sfind sinsert ssorted]; intros S H; [discriminate|].
  destruct S as [L S].
  destruct (N.eqb_spec k k').
  - subst. destruct (N.ltb_spec k' k'); [lia|]. reflexivity.
  - destruct (N.ltb_spec k k').
    + rewrite (sfind_lb k k' r) in H; [discriminate|lia|auto].
    + rewrite (IH S H). reflexivity.
Qed.

Lemma sfind_sinsert_none : forall j k v m, sfind k m = None ->
  sfind j (fst (sinsert k v m)) = if j =? k then Some v else sfind j m.
Proof.
  intros j k v m. induction m as [|[k' v'] r IH]; cbn [sfind sinsert]; intros H.
  - cbn [fst sfind]. reflexivity.
  - destruct (N.eqb_spec k k'); [discriminate|].
    destruct (N.ltb_spec k k').
    + cbn [fst sfind]. reflexivity.
    + specialize (IH H). destruct (sinsert k v r) as [r' b]. cbn [fst sfind] in *.
      destruct (N.eqb_spec j k'); auto.
      destruct (N.eqb_spec j k); auto. congruence.
Qed.

Lemma lb_sinsert : forall j k v m, j < k -> lb j m -> lb j (fst (sinsert k v m)).
Proof.
  intros j k v m Hj. induction m as [|[k' v'] r IH]; cbn [sinsert]; intros L.
  - cbn [fst]. constructor; auto.
  - inversion L; subst. cbn [fst] in *.
    destruct (N.ltb_spec k k').
    + cbn [fst]. constructor; auto.
    + destruct (N.eqb_spec k k'); [cbn [fst]; auto|].
      specialize (IH H2). destruct (sinsert k v r) as [r' b]. cbn [fst] in *.
      constructor; auto.
Qed.

Lemma ssorted_sinsert : forall k v m, ssorted m -> ssorted (fst (sinsert k v m)).
Proof.
  intros k v m. induction m as [|[k' v'] r IH]; cbn [sinsert]; intros S.
  - cbn. split; [constructor|exact I].
  - destruct S as [L S].
    destruct (N.ltb_spec k k').
    + cbn [fst ssorted]. split; [|split; auto].
      constructor; [cbn; lia|]. eapply lb_weaken; [|exact L]. lia.
    + destruct (N.eqb_spec k k'); [cbn [fst ssorted]; auto|].
      pose proof (lb_sinsert k' k v r) as LI.
      specialize (IH S). destruct (sinsert k v r) as [r' b]. cbn [fst ssorted] in *.
      split; auto. apply LI; [lia|auto].
Qed.

(* ---- sassign ---- *)
Lemma keys_sassign : forall k v m, keys (sassign k v m) = keys m.
Proof.
  intros k v m. induction m as [|[k' v'] r IH]; cbn [sassign keys map fst]; auto.
  destruct (k =? k'); cbn [keys map fst]; [reflexivity|]. f_equal. exact IH.
Qed.

Lemma lb_keys : forall k m m', keys m = keys m' -> lb k m -> lb k m'.
Proof.
  intros k m. induction m as [|[k1 v1] r IH]; intros [|[k2 v2] r'] E L; try discriminate; [constructor|].
  cbn [keys map fst] in E. inversion E; subst. inversion L; subst.
  constructor; [cbn [fst] in *; assumption|]. eapply IH; eauto.
Qed.

Lemma ssorted_keys : forall m m', keys m = keys m' -> ssorted m -> ssorted m'.
Proof.
  intros m. induction m as [|[k1 v1] r IH]; intros [|[k2 v2] r'] E S; try discriminate; [exact I|].
  cbn [keys map fst] in E. inversion E; subst. destruct S as [L S].
  split; [eapply lb_keys; eauto|eapply IH; eauto].
Qed.

Lemma ssorted_sassign : forall k v m, ssorted m -> ssorted (sassign k v m).
Proof. intros. eapply ssorted_keys; [|eassumption]. symmetry. apply keys_sassign. Qed.

Lemma sfind_sassign : forall j k v m,
  sfind j (sassign k v m) =
  if j =? k then match sfind k m with Some _ => Some v | None => None end else sfind j m.
Proof.
  intros j k v m. induction m as [|[k' v'] r IH]; cbn [sassign sfind].
  - destruct (j =? k); reflexivity.
  - destruct (N.eqb_spec k k').
    + subst. cbn [sfind]. destruct (N.eqb_spec j k'); reflexivity.
    + cbn [sfind]. rewrite IH.
      destruct (N.eqb_spec j k'); [|reflexivity].
      destruct (N.eqb_spec j k); [congruence|reflexivity].
Qed.

(* ---- slast ---- *)
Lemma slast_cons : forall k v m, slast ((k, v) :: m) = match m with [] => k | _ => slast m end.
Proof. intros. destruct m; reflexivity. Qed.

Lemma slast_max : forall m, ssorted m -> slast m = fold_right N.max 0 (keys m).
Proof.
  induction m as [|[k v] r IH]; intros S; [reflexivity|].
  destruct S as [L S]. rewrite slast_cons. cbn [keys map fst fold_right].
  destruct r as [|[k2 v2] r2].
  - cbn. lia.
  - rewrite (IH S). fold (keys ((k2, v2) :: r2)).
    inversion L; subst. cbn [fst keys map fold_right] in *. lia.
Qed.

Lemma keys_le_max : forall (l : list N) k, In k l -> k <= fold_right N.max 0 l.
Proof.
  induction l as [|a l IH]; cbn [In fold_right]; intros k H; [tauto|].
  destruct H as [E|H]; [subst; lia|]. specialize (IH k H). lia.
Qed.

Lemma max_in_or_zero : forall (l : list N), fold_right N.max 0 l = 0 \/ In (fold_right N.max 0 l) l.
Proof.
  induction l as [|a l IH]; cbn [fold_right In]; [auto|].
  destruct (N.max_spec a (fold_right N.max 0 l)) as [[_ E]|[_ E]]; rewrite E.
  - destruct IH as [Z|I]; [rewrite Z in *|]; auto.
  - right. left. reflexivity.
Qed.

(* ---- drop0 ---- *)
Lemma drop0_keys_pos : forall m, ssorted m -> Forall (fun k => 0 < k) (keys (drop0 m)).
Proof.
  intros [|[k v] r] S; [constructor|].
  destruct S as [L S]. destruct k as [|p]; cbn [drop0].
  - unfold keys. rewrite Forall_map. exact L.
  - cbn [keys map fst]. constructor; [lia|].
    unfold lb in L. rewrite Forall_map. eapply Forall_impl; [|exact L]. cbn. intros; lia.
Qed.

Lemma sfind_drop0 : forall k m, k <> 0 -> sfind k (drop0 m) = sfind k m.
Proof.
  intros k [|[k' v] r] H; [reflexivity|]. destruct k' as [|p]; cbn [drop0]; [|reflexivity].
  cbn [sfind]. destruct (N.eqb_spec k 0); [contradiction|reflexivity].
Qed.

Lemma sfind0_drop0 : forall m, ssorted m -> sfind 0 (drop0 m) = None.
Proof.
  intros m S. pose proof (drop0_keys_pos m S) as P.
  destruct (sfind 0 (drop0 m)) eqn:E; [|reflexivity].
  apply sfind_in_keys in E. rewrite Forall_forall in P. specialize (P 0 E). lia.
Qed.

Lemma drop0_sinsert : forall k v m, k <> 0 -> drop0 (fst (sinsert k v m)) = fst (sinsert k v (drop0 m)).
Proof.
  intros k v [|[k' v'] r] H; cbn [sinsert drop0 fst].
  - destruct k; [contradiction|reflexivity].
  - destruct k' as [|p'].
    + destruct (N.ltb_spec k 0); [lia|]. destruct (N.eqb_spec k 0); [contradiction|].
      destruct (sinsert k v r) as [r' b]. reflexivity.
    + cbn [sinsert]. destruct (N.ltb_spec k (N.pos p')).
      * cbn [fst]. destruct k; [contradiction|reflexivity].
      * destruct (N.eqb_spec k (N.pos p')); [reflexivity|].
        destruct (sinsert k v r) as [r' b]. reflexivity.
Qed.

Lemma drop0_sinsert0 : forall v m, ssorted m -> sfind 0 m = None -> drop0 (fst (sinsert 0 v m)) = drop0 m.
Proof.
  intros v [|[k' v'] r] S H; [reflexivity|].
  cbn [sfind] in H. destruct k' as [|p']; [discriminate|].
  cbn [sinsert]. destruct (N.ltb_spec 0 (N.pos p')); [|lia]. reflexivity.
Qed.

Lemma drop0_sassign0 : forall v m, ssorted m -> drop0 (sassign 0 v m) = drop0 m.
Proof.
  intros v [|[k' v'] r] S; [reflexivity|]. destruct S as [L S].
  cbn [sassign]. destruct k' as [|p']; [reflexivity|].
  cbn [N.eqb drop0]. f_equal.
  clear S. induction r as [|[k2 v2] r2 IH]; [reflexivity|].
  inversion L; subst. cbn [fst] in *. cbn [sassign].
  destruct (N.eqb_spec 0 k2); [lia|]. f_equal. auto.
Qed.


(* ---- serase ---- *)
Lemma serase_lb : forall k m, lb k m -> serase k m = m.
Proof.
  intros k m L. induction m as [|[k' v'] r IH]; [reflexivity|]. inversion L; subst. cbn [fst] in *.
  cbn [serase]. destruct (N.eqb_spec k k'); [lia|]. f_equal. apply IH. eapply lb_weaken; [|eassumption].
  lia.
Qed.

Lemma serase0_drop0 : forall m, ssorted m -> serase 0 m = drop0 m.
Proof.
  intros [|[k' v'] r] S; [reflexivity|]. destruct S as [L S]. destruct k' as [|p].
  - reflexivity.
  - cbn [drop0]. apply serase_lb. constructor; [cbn; lia|].
    eapply lb_weaken; [|exact L]. lia.
Qed.

Lemma drop0_id : forall m, sfind 0 m = None -> drop0 m = m.
Proof. intros [|[[|p] v] r] H; try reflexivity. cbn in H. discriminate. Qed.

Lemma ssorted_drop0' : forall m, ssorted m -> ssorted (drop0 m).
Proof. intros [|[[|p] v] r] S; cbn [drop0]; auto. destruct S; auto. Qed.

End Gen.
