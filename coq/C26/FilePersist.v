(* Model of FilePersister (runtime/filepersist.cpp): the in-memory index
   std::map<uint32_t, Prec> _index, the data file (_fod) and the index file (_iod) as byte lists.
   Every store operation is compiled to the list of lseek/write system calls the code issues, in
   its order; the disk after the operation is the disk after executing that list (C27 executes
   prefixes of it).  No proofs in this file. *)
From Coq Require Import NArith List Bool.
From F8 Require Import C26.SMap C26.PersistSpec C26.MemPersist.
Import ListNotations.
Local Open Scope N_scope.

(* MAX_MSG_LENGTH (PersistSpec.v) = FIX8_MAX_MSG_LENGTH: char buff[...] in get, the limit tested by put *)

(* ---- the two files and the system calls ---- *)
Record disk := { d_idx : list byte; d_dat : list byte }.
Definition disk_empty : disk := {| d_idx := []; d_dat := [] |}.

Inductive fd := Iod | Fod.
Inductive sys :=
| SeekSet (f : fd) (off : N)        (* lseek(f, off, SEEK_SET) *)
| SeekEnd (f : fd)                  (* lseek(f, 0, SEEK_END) *)
| Write (f : fd) (b : list byte).   (* write(f, b, |b|) *)

(* write |b| bytes at position pos (a hole is zero-filled) *)
Definition write_at (file : list byte) (pos : N) (b : list byte) : list byte :=
  let p := N.to_nat pos in
  firstn p file ++ repeat 0 (p - length file) ++ b ++ skipn (p + length b) file.


(* file positions of (_iod, _fod) *)
Definition exec_sys (dp : disk * (N * N)) (s : sys) : disk * (N * N) :=
  let '(d, (pi, pf)) := dp in
  match s with
  | SeekSet Iod off => (d, (off, pf))
  | SeekSet Fod off => (d, (pi, off))
  | SeekEnd Iod => (d, (len (d_idx d), pf))
  | SeekEnd Fod => (d, (pi, len (d_dat d)))
  | Write Iod b => ({| d_idx := write_at (d_idx d) pi b; d_dat := d_dat d |}, (pi + len b, pf))
  | Write Fod b => ({| d_idx := d_idx d; d_dat := write_at (d_dat d) pf b |}, (pi, pf + len b))
  end.

(* Every write of an operation is preceded, in the same operation, by an lseek on the same
   descriptor, so the positions an operation starts with are irrelevant: start from (0, 0). *)
Definition exec_all (d : disk) (l : list sys) : disk := fst (fold_left exec_sys l (d, (0, 0))).

(* ---- index records: #pragma pack(1) struct IPrec { uint32_t _seq; off_t _offset; int32_t _size; } ---- *)
Notation prec := (N * N)%type (only parsing).        (* (_offset, _size) *)
Definition enc_iprec (seq : N) (p : prec) : list byte :=
  le_enc 4 seq ++ le_enc 8 (fst p) ++ le_enc 4 (snd p).
Definition dec_iprec (r : list byte) : N * prec :=
  (le_dec (firstn 4 r), (le_dec (firstn 8 (skipn 4 r)), le_dec (firstn 4 (skipn 12 r)))).
(* _offset is a signed 64-bit and _size a signed 32-bit quantity; the model keeps and reads them
   as unsigned.  For a message record (offset = length of the data file, size <= 8192) there is no
   difference.  For the control record  IPrec(0, sender, target)  the 32-bit unsigned sender goes
   into _offset (never negative) and target into _size: a target >= 2^31 is a negative int32 in
   memory, the same 4 little-endian bytes on disk, and get(sender&, target&) converts it back to
   the same unsigned.  Nothing in filepersist.cpp compares or does arithmetic on the control
   record's fields, so the unsigned reading is exact for all control values < 2^32. *)

(* ---- FilePersister::initialise on an existing store: replay of the index file ----
   IPrec iprec;  while (true) { blrd = read(_iod, &iprec, 16); if (blrd == 0) break;
                                _index.insert({iprec._seq, iprec._prec}); }
   A short final read leaves the tail of iprec as it was in the previous iteration. *)
Fixpoint replay_loop (fuel : nat) (bytes prev : list byte) (index : smap prec)
  : option (smap prec) :=
  match bytes with
  | [] => Some index
  | _ :: _ =>
    match fuel with
    | O => None
    | S f =>
      let chunk := firstn 16 bytes in
      let iprec := chunk ++ skipn (length chunk) prev in
      let '(seq, p) := dec_iprec iprec in
      replay_loop f (skipn 16 bytes) iprec (fst (sinsert seq p index))
    end
  end.

Definition replay (idx : list byte) : option (smap prec) :=
  replay_loop (S (length idx)) idx (repeat 0 16%nat) [].

(* ---- state ---- *)
Record fstate := { f_index : smap prec; f_disk : disk }.
Definition file_empty : fstate := {| f_index := []; f_disk := disk_empty |}.

(* lseek(_fod, offset, SEEK_SET); read(_fod, buff, size) != size  with char buff[8192] *)
Definition file_fetch (dat : list byte) (p : prec) : fres :=
  let '(off, sz) := p in
  let avail := N.min sz (len dat - off) in          (* what read() returns *)
  if MAX_MSG_LENGTH <? avail then FOob              (* bytes written beyond buff *)
  else if avail =? sz then FBytes (firstn (N.to_nat sz) (skipn (N.to_nat off) dat))
  else FFail.

(* the lseek/write calls of one operation, in program order (tree since a892b9a + a3cf082) *)
Definition file_sys (st : fstate) (o : op) : list sys :=
  match o with
  | OCtlPut s t =>
    (* lseek(_iod, 0, SEEK_SET); write(_iod, &iprec, sizeof(IPrec)) *)
    [SeekSet Iod 0; Write Iod (enc_iprec 0 (s, t))]
  | OPut seq what =>
    if (seq =? 0) then []
    else match sfind seq (f_index st) with
         | Some _ => []
         | None =>
           if MAX_MSG_LENGTH <? len what then []      (* what.size() > MaxMsgLen: refused *)
           else
           (* lseek(_iod, 0, SEEK_END); offset = lseek(_fod, 0, SEEK_END);
              write(_fod, what)  -- the record first --  write(_iod, &iprec, 16) *)
           [SeekEnd Iod; SeekEnd Fod; Write Fod what;
            Write Iod (enc_iprec seq (len (d_dat (f_disk st)), len what))]
         end
  | OGet seq =>
    if (seq =? 0) then []
    else match sfind seq (f_index st) with
         | Some (off, _) => [SeekSet Fod off]
         | None => []
         end
  | _ => []       (* the range get seeks once per record read; no effect on the files *)
  end.

(* the tree before a892b9a and a3cf082: index record written first, no length test *)
Definition file_sys_orig (st : fstate) (o : op) : list sys :=
  match o with
  | OPut seq what =>
    if (seq =? 0) then []
    else match sfind seq (f_index st) with
         | Some _ => []
         | None =>
           [SeekEnd Iod; SeekEnd Fod;
            Write Iod (enc_iprec seq (len (d_dat (f_disk st)), len what)); Write Fod what]
         end
  | _ => file_sys st o
  end.

(* the in-memory effect and the result of a completed operation.
   None = the call does not return normally (buffer overrun, non-terminating loop). *)
Definition file_step (st : fstate) (o : op) : option (fstate * out) :=
  let d' := exec_all (f_disk st) (file_sys st o) in
  match o with
  | OCtlPut s t =>
    (* itr = _index.find(0); if (itr == end) insert({0, prec}) else itr->second = prec; *)
    let ix := match sfind 0 (f_index st) with
              | None => fst (sinsert 0 (s, t) (f_index st))
              | Some _ => sassign 0 (s, t) (f_index st)
              end in
    Some ({| f_index := ix; f_disk := d' |}, RBool true)
  | OPut seq what =>
    if seq =? 0 then Some (st, RBool false)
    else match sfind seq (f_index st) with
         | Some _ => Some (st, RBool false)
         | None =>
           if MAX_MSG_LENGTH <? len what then Some (st, RBool false)
           else
           let '(ix, b) := sinsert seq (len (d_dat (f_disk st)), len what) (f_index st) in
           Some ({| f_index := ix; f_disk := d' |}, RBool b)
         end
  | OGet seq =>
    if (seq =? 0) then Some (st, RBytes None)
    else match sfind seq (f_index st) with     (* covers _index.empty() *)
         | None => Some (st, RBytes None)
         | Some p =>
           match file_fetch (d_dat (f_disk st)) p with
           | FOob => None
           | FFail => Some (st, RBytes None)
           | FBytes b => Some (st, RBytes (Some b))
           end
         end
  | OCtlGet =>
    (* sender_seqnum = itr->second._offset; target_seqnum = itr->second._size; *)
    Some (st, RCtl (sfind 0 (f_index st)))
  | OLast => Some (st, RNum (slast (f_index st)))
  | ONearest req last =>
    match nearest (f_index st) req last with
    | None => None
    | Some n => Some (st, RNum n)
    end
  | ORange from to abort =>
    match range_get (file_fetch (d_dat (f_disk st))) (f_index st) from to abort with
    | RRDone n calls => Some (st, RRange n calls)
    | _ => None
    end
  | OReopen =>
    (* ~FilePersister; new FilePersister; initialise(dir, name, false) *)
    match replay (d_idx (f_disk st)) with
    | None => None
    | Some ix => Some ({| f_index := ix; f_disk := f_disk st |}, RBool true)
    end
  end.

Fixpoint file_run (st : fstate) (ops : list op) : option (list out) :=
  match ops with
  | [] => Some []
  | o :: r =>
    match file_step st o with
    | None => None
    | Some (st', x) => match file_run st' r with None => None | Some xs => Some (x :: xs) end
    end
  end.

Definition file_outputs (ops : list op) : option (list out) := file_run file_empty ops.

(* the tree before a892b9a and a3cf082 (for the _orig_refuted witnesses) *)
Definition file_step_orig (st : fstate) (o : op) : option (fstate * out) :=
  match o with
  | OPut seq what =>
    if seq =? 0 then Some (st, RBool false)
    else match sfind seq (f_index st) with
         | Some _ => Some (st, RBool false)
         | None =>
           let '(ix, b) := sinsert seq (len (d_dat (f_disk st)), len what) (f_index st) in
           Some ({| f_index := ix; f_disk := exec_all (f_disk st) (file_sys_orig st o) |}, RBool b)
         end
  | _ => file_step st o
  end.
Fixpoint file_run_orig (st : fstate) (ops : list op) : option (list out) :=
  match ops with
  | [] => Some []
  | o :: r =>
    match file_step_orig st o with
    | None => None
    | Some (st', x) => match file_run_orig st' r with None => None | Some xs => Some (x :: xs) end
    end
  end.
Definition file_outputs_orig (ops : list op) : option (list out) := file_run_orig file_empty ops.

(* ---- hypotheses of the refinement theorems, as executable predicates on the operations ---- *)
(* numbers below 2^31, records of at most MaxMsgLen bytes, fewer than 2^31 operations *)
Definition op_wf (o : op) : bool :=
  op_bounded o && match o with OPut _ b => len b <=? MAX_MSG_LENGTH | _ => true end.
Definition ops_wf (ops : list op) : bool :=
  forallb op_wf ops && (N.of_nat (length ops) <? LIM).

(* What occupies the first 16 bytes of the index file: nothing yet, a control record, a message
   record, or a control record written over a message record (the overwritten message's index
   entry is lost: finding F31). *)
Inductive slot0 := SVirgin | SCtl | SMsg | SLost.
Definition slot_step (m : slot0) (o : op) : slot0 :=
  match m, o with
  | SVirgin, OPut seq b => if (seq =? 0) || (MAX_MSG_LENGTH <? len b) then SVirgin else SMsg
  | SVirgin, OCtlPut _ _ => SCtl
  | SMsg, OCtlPut _ _ => SLost
  | _, _ => m
  end.
(* no reopen after a control record was written over a message's index entry *)
Fixpoint reopen_safe_from (m : slot0) (ops : list op) : bool :=
  match ops with
  | [] => true
  | o :: r =>
    match m, o with
    | SLost, OReopen => false
    | _, _ => reopen_safe_from (slot_step m o) r
    end
  end.
Definition reopen_safe (ops : list op) : bool := reopen_safe_from SVirgin ops.
