(* Model of MemoryPersister (runtime/persist.cpp): std::map<unsigned, const f8String> _store,
   the control record lives under key 0 as an 8-byte string.  No proofs in this file. *)
From Coq Require Import NArith List Bool.
From F8 Require Import C26.SMap C26.PersistSpec.
Import ListNotations.
Local Open Scope N_scope.

(* n-byte little-endian image of v (the bytes of an unsigned in memory on x86-64) *)
Fixpoint le_enc (n : nat) (v : N) : list byte :=
  match n with
  | O => []
  | S n' => (v mod 256) :: le_enc n' (v / 256)
  end.

Definition mstate := smap (list byte).
Definition mem_empty : mstate := [].

Definition mem_fetch (b : list byte) : fres := FBytes b.

(* Result of a step: None = the call does not return (non-terminating nearest loop) *)
Definition mem_step (st : mstate) (o : op) : option (mstate * out) :=
  match o with
  | OCtlPut s t =>
    (* const unsigned arr[2] { sender_seqnum, target_seqnum };
       return _store.insert({0, f8String(bytes of arr, sizeof(arr))}).second;
       insert does not replace: a second control put changes nothing and returns false *)
    let '(m, b) := sinsert 0 (le_enc 4 s ++ le_enc 4 t) st in Some (m, RBool b)
  | OPut seq what =>
    (* return !seqnum ? false : _store.insert({seqnum, what}).second; *)
    if seq =? 0 then Some (st, RBool false)
    else let '(m, b) := sinsert seq what st in Some (m, RBool b)
  | OCtlGet =>
    (* const unsigned *loc(reinterpret_cast<const unsigned *>(&itr->second));
       sender_seqnum = *loc++; target_seqnum = *loc;
       &itr->second is the address of the std::string OBJECT, not of its characters: the two
       values are the halves of the string's data pointer -- unrelated to anything stored *)
    match sfind 0 st with
    | None => Some (st, RCtl None)
    | Some _ => Some (st, RCtlUnspec)
    end
  | OGet seq =>
    if seq =? 0 then Some (st, RBytes None) else Some (st, RBytes (sfind seq st))
  | OLast => Some (st, RNum (slast st))
  | ONearest req last =>
    match nearest st req last with
    | None => None
    | Some n => Some (st, RNum n)
    end
  | ORange from to abort =>
    match range_get mem_fetch st from to abort with
    | RRDone n calls => Some (st, RRange n calls)
    | _ => None
    end
  | OReopen => Some (st, RBool true)      (* not an operation of this persister: no-op *)
  end.

Fixpoint mem_run (st : mstate) (ops : list op) : option (list out) :=
  match ops with
  | [] => Some []
  | o :: r =>
    match mem_step st o with
    | None => None
    | Some (st', x) => match mem_run st' r with None => None | Some xs => Some (x :: xs) end
    end
  end.

Definition mem_outputs (ops : list op) : option (list out) := mem_run mem_empty ops.

(* ---- hypotheses of the theorems, as executable predicates on the operations ---- *)
Definition LIM : N := 2147483648.           (* 2^31 *)
(* all sequence numbers and control values below 2^31 *)
Definition op_bounded (o : op) : bool :=
  match o with
  | OPut seq _ => seq <? LIM
  | OGet seq => seq <? LIM
  | OCtlPut s t => (s <? LIM) && (t <? LIM)
  | ONearest req last => (req <? LIM) && (last <? LIM)
  | ORange from to abort => (from <? LIM) && (to <? LIM)
  | _ => true
  end.

(* searches and range retrievals start at a sequence number >= 1 *)
Definition op_zero_free (o : op) : bool :=
  match o with
  | ONearest req _ => 1 <=? req
  | ORange from _ _ => 1 <=? from
  | _ => true
  end.
Definition zero_free (ops : list op) : bool := forallb op_zero_free ops.

(* the memory persister's control record is written at most once and never read back
   ([present]: a control record has been written) *)
Fixpoint mem_ctl_ok_from (present : bool) (ops : list op) : bool :=
  match ops with
  | [] => true
  | OCtlPut _ _ :: r => negb present && mem_ctl_ok_from true r
  | OCtlGet :: r => negb present && mem_ctl_ok_from present r
  | _ :: r => mem_ctl_ok_from present r
  end.
Definition mem_ctl_ok (ops : list op) : bool := mem_ctl_ok_from false ops.
