(* Model of MemoryPersister (runtime/persist.cpp): std::map<unsigned, const f8String> _store,
   the control record lives under key 0 as an 8-byte string.  No proofs in this file. *)
From Coq Require Import NArith List Bool.
From F8 Require Import C26.SMap C26.PersistSpec.
Import ListNotations.
Local Open Scope N_scope.

(* n-byte little-endian image of v (the bytes of an unsigned in memory on x86-64) *)
Fixpoint le_enc (n : nat) (v : N) : list byte :=
  match n with
  | O => []
  | S n' => (v mod 256) :: le_enc n' (v / 256)
  end.

(* the inverse reading: an unsigned loaded from its bytes in memory *)
Fixpoint le_dec (l : list byte) : N :=
  match l with
  | [] => 0
  | b :: r => b + 256 * le_dec r
  end.

Definition mstate := smap (list byte).
Definition mem_empty : mstate := [].

Definition mem_fetch (b : list byte) : fres := FBytes b.

(* loc = itr->second.data() read as two unsigned:  sender = loc[0]; target = loc[1]; *)
Definition dec_ctl (b : list byte) : N * N := (le_dec (firstn 4 b), le_dec (firstn 4 (skipn 4 b))).

(* [fixed] = true: the code since commit 760121b ("MemoryPersister keeps and returns the last
   control record"); false: the code before it (kept for the witness c26_mem_orig_refuted).
   Result of a step: None = the call does not return (non-terminating nearest loop) *)
Definition mem_step_gen (fixed : bool) (st : mstate) (o : op) : option (mstate * out) :=
  match o with
  | OCtlPut s t =>
    (* const unsigned arr[2] { sender_seqnum, target_seqnum };
       _store.erase(0);                                   -- since 760121b
       return _store.insert({0, f8String(bytes of arr, sizeof(arr))}).second;
       insert does not replace: before the repair a second control put changed nothing and
       returned false *)
    let st0 := if fixed then serase 0 st else st in
    let '(m, b) := sinsert 0 (le_enc 4 s ++ le_enc 4 t) st0 in Some (m, RBool b)
  | OPut seq what =>
    (* return !seqnum ? false : _store.insert({seqnum, what}).second; *)
    if seq =? 0 then Some (st, RBool false)
    else let '(m, b) := sinsert seq what st in Some (m, RBool b)
  | OCtlGet =>
    match sfind 0 st with
    | None => Some (st, RCtl None)
    | Some b =>
      if fixed then Some (st, RCtl (Some (dec_ctl b)))     (* reads itr->second.data() *)
      else
        (* before the repair: reinterpret_cast<const unsigned *>(&itr->second), the address of the
           std::string OBJECT: the two values are the halves of the string's data pointer *)
        Some (st, RCtlUnspec)
    end
  | OGet seq =>
    if seq =? 0 then Some (st, RBytes None) else Some (st, RBytes (sfind seq st))
  | OLast => Some (st, RNum (slast st))
  | ONearest req last =>
    match nearest st req last with
    | None => None
    | Some n => Some (st, RNum n)
    end
  | ORange from to abort =>
    match range_get mem_fetch st from to abort with
    | RRDone n calls => Some (st, RRange n calls)
    | _ => None
    end
  | OReopen => Some (st, RBool true)      (* not an operation of this persister: no-op *)
  end.

Definition mem_step := mem_step_gen true.

Fixpoint mem_run_gen (fixed : bool) (st : mstate) (ops : list op) : option (list out) :=
  match ops with
  | [] => Some []
  | o :: r =>
    match mem_step_gen fixed st o with
    | None => None
    | Some (st', x) => match mem_run_gen fixed st' r with None => None | Some xs => Some (x :: xs) end
    end
  end.
Definition mem_run := mem_run_gen true.

(* the current tree / the tree before 760121b *)
Definition mem_outputs (ops : list op) : option (list out) := mem_run_gen true mem_empty ops.
Definition mem_outputs_orig (ops : list op) : option (list out) := mem_run_gen false mem_empty ops.

(* ---- hypotheses of the theorems, as executable predicates on the operations ---- *)
Definition LIM : N := 2147483648.           (* 2^31 *)
(* Control values: the whole range of the API type `unsigned` (< 2^32).  Both persisters keep them
   exactly (FilePersister packs sender into the 64-bit _offset and target into the int32 _size of
   the index record: a target >= 2^31 is negative in memory and comes back unchanged through the
   conversion to unsigned; on disk it is the same 4 little-endian bytes).
   Message sequence numbers: below 2^31.  Some bound below 2^32 - 1 is needed because
   find_nearest_highest_seqnum's loop `for (s = requested; s <= last; ++s)` does not terminate for
   last = 2^32 - 1; 2^31 is chosen for convenience. *)
Definition op_bounded (o : op) : bool :=
  match o with
  | OPut seq _ => seq <? LIM
  | OGet seq => seq <? LIM
  | OCtlPut s t => (s <? W32) && (t <? W32)
  | ONearest req last => (req <? LIM) && (last <? LIM)
  | ORange from to abort => (from <? LIM) && (to <? LIM)
  | _ => true
  end.

(* searches and range retrievals start at a sequence number >= 1 *)
Definition op_zero_free (o : op) : bool :=
  match o with
  | ONearest req _ => 1 <=? req
  | ORange from _ _ => 1 <=? from
  | _ => true
  end.
Definition zero_free (ops : list op) : bool := forallb op_zero_free ops.
