(* The store contract of property C26, written from the property text: a finite map from
   sequence number to bytes (key-sorted association list, keys >= 1) plus one optional control
   record.  Also the operation and result vocabulary shared by the persister models.
   Nothing here refers to the models of the two persisters. *)
From Coq Require Import NArith List Bool.
From F8 Require Import C26.SMap.
Import ListNotations.
Local Open Scope N_scope.

Inductive op :=
| OPut (seq : N) (b : list byte)        (* put(seq, bytes) *)
| OGet (seq : N)                        (* get(seq, to) *)
| OCtlPut (s t : N)                     (* put(sender, target) *)
| OCtlGet                               (* get(sender&, target&) *)
| OLast                                 (* get_last_seqnum *)
| ONearest (req last : N)               (* find_nearest_highest_seqnum(req, last) *)
| ORange (from to abort : N)            (* get(from, to, session, callback); the callback
                                           returns false on its abort-th record (0: never) *)
| OReopen.                              (* destroy the persister object and open the store again *)

Inductive out :=
| RBool (b : bool)
| RBytes (o : option (list byte))
| RCtl (o : option (N * N))
| RCtlUnspec                            (* "true" with two values unrelated to anything stored *)
| RNum (n : N)
| RRange (n : N) (calls : list cbrec).

(* Persister::MaxMsgLen = FIX8_MAX_MSG_LENGTH: the documented maximum length of a persisted message *)
Definition MAX_MSG_LENGTH : N := 8192.
Definition len (l : list byte) : N := N.of_nat (length l).

Record spec := { s_msgs : smap (list byte); s_ctl : option (N * N) }.
Definition spec_empty : spec := {| s_msgs := []; s_ctl := None |}.

(* "the last sequence number is the largest stored" *)
Definition spec_last (s : spec) : N := fold_right N.max 0 (map fst (s_msgs s)).

(* "the smallest stored number in [requested, last]" (0 = none) *)
Definition spec_nearest (s : spec) (req last : N) : N :=
  hd 0 (filter (fun k => (req <=? k) && (k <=? last)) (map fst (s_msgs s))).

(* "visits exactly the stored records in range in ascending order and then signals completion";
   a callback that refuses its abort-th record ends the visit there; the completion call follows *)
Definition spec_visited (s : spec) (from to abort : N) : list (N * list byte) :=
  let finish := if to =? 0 then spec_last s else to in
  let inr := filter (fun kb => (from <=? fst kb) && (fst kb <=? finish)) (s_msgs s) in
  if abort =? 0 then inr else firstn (N.to_nat abort) inr.
Definition spec_range (s : spec) (from to abort : N) : out :=
  let visited := spec_visited s from to abort in
  RRange (N.of_nat (length visited))
         (map (fun kb => (fst kb, snd kb, false)) visited ++ [completion]).

Definition spec_step (s : spec) (o : op) : spec * out :=
  match o with
  | OPut seq b =>
    (* "storing to an occupied number or to 0 is refused" *)
    if seq =? 0 then (s, RBool false)
    else match sfind seq (s_msgs s) with
         | Some _ => (s, RBool false)
         | None => ({| s_msgs := fst (sinsert seq b (s_msgs s)); s_ctl := s_ctl s |}, RBool true)
         end
  | OGet seq => (s, RBytes (if seq =? 0 then None else sfind seq (s_msgs s)))
  | OCtlPut a b => ({| s_msgs := s_msgs s; s_ctl := Some (a, b) |}, RBool true)
  | OCtlGet => (s, RCtl (s_ctl s))
  | OLast => (s, RNum (spec_last s))
  | ONearest req last => (s, RNum (spec_nearest s req last))
  | ORange from to abort => (s, spec_range s from to abort)
  | OReopen => (s, RBool true)            (* a store: closing and reopening loses nothing *)
  end.

Fixpoint spec_run (s : spec) (ops : list op) : spec * list out :=
  match ops with
  | [] => (s, [])
  | o :: r => let '(s1, x) := spec_step s o in
              let '(s2, xs) := spec_run s1 r in (s2, x :: xs)
  end.

Definition spec_outputs (ops : list op) : list out := snd (spec_run spec_empty ops).

(* For a persister that enforces the documented maximum (the file persister since a3cf082): a put of
   a longer record is a refused put -- exactly like a put to 0: answer false, nothing changes. *)
Definition clip_op (o : op) : op :=
  match o with
  | OPut seq b => if MAX_MSG_LENGTH <? len b then OPut 0 [] else o
  | _ => o
  end.
Definition clip (ops : list op) : list op := map clip_op ops.

(* ---- decidable equality on results (for the executable oracle) ---- *)
Fixpoint list_eqb {A} (eqb : A -> A -> bool) (a b : list A) : bool :=
  match a, b with
  | [], [] => true
  | x :: a', y :: b' => eqb x y && list_eqb eqb a' b'
  | _, _ => false
  end.
Definition bytes_eqb := list_eqb N.eqb.
Definition cbrec_eqb (a b : cbrec) : bool :=
  let '(k1, b1, f1) := a in let '(k2, b2, f2) := b in
  (k1 =? k2) && bytes_eqb b1 b2 && Bool.eqb f1 f2.
Definition out_eqb (a b : out) : bool :=
  match a, b with
  | RBool x, RBool y => Bool.eqb x y
  | RBytes None, RBytes None => true
  | RBytes (Some x), RBytes (Some y) => bytes_eqb x y
  | RCtl None, RCtl None => true
  | RCtl (Some (a1, a2)), RCtl (Some (b1, b2)) => (a1 =? b1) && (a2 =? b2)
  | RNum x, RNum y => x =? y
  | RRange n1 c1, RRange n2 c2 => (n1 =? n2) && list_eqb cbrec_eqb c1 c2
  | _, _ => false                          (* RCtlUnspec equals nothing, not even itself *)
  end.
