(* What the specification's answers mean (they are defined by filter/fold/hd over a sorted list;
   here: in terms of "stored"), and the per-clause corollaries of the two refinement theorems. *)
From Coq Require Import PeanoNat NArith List Bool Lia.
From F8 Require Import C26.SMap C26.SMapProofs C26.PersistSpec C26.PersistProofs C26.Spec_C26
  C26.MemPersist C26.MemProofs C26.FilePersist C26.FileLemmas C26.FileProofs.
Import ListNotations.
Local Open Scope N_scope.

Definition spec_state (ops : list op) : spec := fst (spec_run spec_empty ops).
Definition stored (s : spec) (k : N) (b : list byte) : Prop := sfind k (s_msgs s) = Some b.

Lemma spec_run_app : forall a b sp,
  spec_run sp (a ++ b) =
  (fst (spec_run (fst (spec_run sp a)) b), snd (spec_run sp a) ++ snd (spec_run (fst (spec_run sp a)) b)).
Proof.
  induction a as [|o r IH]; intros b sp.
  - cbn. destruct (spec_run sp b); reflexivity.
  - cbn [app spec_run]. destruct (spec_step sp o) as [s1 x]. rewrite IH.
    destruct (spec_run s1 r) as [s2 xs]. cbn [fst snd].
    destruct (spec_run s2 b) as [s3 ys]. reflexivity.
Qed.

Lemma spec_outputs_snoc : forall ops o,
  spec_outputs (ops ++ [o]) = spec_outputs ops ++ [snd (spec_step (spec_state ops) o)].
Proof.
  intros. unfold spec_outputs, spec_state. rewrite spec_run_app. cbn [snd spec_run].
  destruct (spec_step (fst (spec_run spec_empty ops)) o). reflexivity.
Qed.

Lemma spec_step_sorted : forall sp o, ssorted (s_msgs sp) -> ssorted (s_msgs (fst (spec_step sp o))).
Proof.
  intros sp o S. destruct o; cbn [spec_step]; auto.
  destruct (seq =? 0); auto. destruct (sfind seq (s_msgs sp)); auto.
  cbn [fst s_msgs]. apply ssorted_sinsert; auto.
Qed.

Lemma spec_run_sorted : forall ops sp, ssorted (s_msgs sp) -> ssorted (s_msgs (fst (spec_run sp ops))).
Proof.
  induction ops as [|o r IH]; intros sp S; [exact S|]. cbn [spec_run].
  pose proof (spec_step_sorted sp o S). destruct (spec_step sp o) as [s1 x]. cbn [fst] in *.
  specialize (IH s1 H). destruct (spec_run s1 r). exact IH.
Qed.

Lemma spec_state_sorted : forall ops, ssorted (s_msgs (spec_state ops)).
Proof. intros. apply spec_run_sorted. exact I. Qed.

(* ---- membership in sorted maps ---- *)
Lemma in_sfind_sorted {V} : forall (m : smap V) k v, ssorted m -> In (k, v) m -> sfind k m = Some v.
Proof.
  induction m as [|[k' v'] r IH]; intros k v S H; [destruct H|]. destruct S as [L S].
  cbn [sfind]. destruct H as [H|H].
  - inversion H; subst. rewrite N.eqb_refl. reflexivity.
  - destruct (N.eqb_spec k k').
    + subst. unfold lb in L. rewrite Forall_forall in L. specialize (L _ H). cbn in L. lia.
    + apply IH; auto.
Qed.

Lemma sfind_in {V} : forall (m : smap V) k v, sfind k m = Some v -> In (k, v) m.
Proof.
  induction m as [|[k' v'] r IH]; intros k v H; [discriminate|]. cbn [sfind] in H.
  destruct (N.eqb_spec k k'); [left; congruence|right; auto].
Qed.

Lemma ssorted_filter {V} : forall f (m : smap V), ssorted m -> ssorted (filter f m).
Proof.
  induction m as [|[k v] r IH]; intros S; [exact I|]. destruct S as [L S]. cbn [filter].
  destruct (f (k, v)); [|auto]. split; [|auto].
  unfold lb in *. rewrite Forall_forall in *. intros e He. apply filter_In in He. apply L, He.
Qed.

Lemma ssorted_firstn {V} : forall n (m : smap V), ssorted m -> ssorted (firstn n m).
Proof.
  induction n as [|n IH]; intros m S; [exact I|]. destruct m as [|[k v] r]; [exact I|].
  destruct S as [L S]. cbn [firstn]. split; [|auto].
  unfold lb in *. rewrite Forall_forall in *. intros e He. apply L.
  rewrite <- (firstn_skipn n r). apply in_or_app. left. exact He.
Qed.

(* ---- range ---- *)
Definition in_range (s : spec) (from to : N) (k : N) : Prop :=
  from <= k <= (if to =? 0 then spec_last s else to).

(* [all] = exactly the stored records in range, ascending; the callback is handed all of them,
   or the first [abort] of them when it refuses the abort-th *)
Definition range_facts (s : spec) (from to abort : N) (vis : list (N * list byte)) : Prop :=
  exists all, ssorted all /\
              (forall k b, In (k, b) all <-> stored s k b /\ in_range s from to k) /\
              vis = if abort =? 0 then all else firstn (N.to_nat abort) all.

Lemma spec_visited_facts : forall s from to abort, ssorted (s_msgs s) ->
  range_facts s from to abort (spec_visited s from to abort).
Proof.
  intros s from to abort S. unfold range_facts, spec_visited.
  set (fin := if to =? 0 then spec_last s else to).
  exists (filter (fun kb => (from <=? fst kb) && (fst kb <=? fin)) (s_msgs s)).
  split; [apply ssorted_filter; auto|]. split; [|reflexivity].
  intros k b. unfold stored, in_range. fold fin. rewrite filter_In. cbn [fst]. split.
  - intros [H1 H2]. apply andb_true_iff in H2. destruct H2 as [H2 H3].
    apply N.leb_le in H2, H3. split; [apply in_sfind_sorted; auto|lia].
  - intros [H1 [H2 H3]]. split; [apply sfind_in; auto|].
    apply andb_true_iff. split; apply N.leb_le; auto.
Qed.

(* ---- nearest ---- *)
Definition nearest_facts (s : spec) (req last r : N) : Prop :=
  (r = 0 /\ forall k b, stored s k b -> ~ (req <= k <= last)) \/
  ((exists b, stored s r b) /\ req <= r <= last /\
   forall k b, stored s k b -> req <= k <= last -> r <= k).

Lemma hd_filter_min {V} : forall f (m : smap V), ssorted m ->
  (filter f (keys m) = [] ) \/
  (In (hd 0 (filter f (keys m))) (keys m) /\ f (hd 0 (filter f (keys m))) = true /\
   forall k, In k (keys m) -> f k = true -> hd 0 (filter f (keys m)) <= k).
Proof.
  induction m as [|[k v] r IH]; intros S; [left; reflexivity|]. destruct S as [L S].
  cbn [keys map fst filter]. fold (keys r). destruct (f k) eqn:E.
  - right. cbn [hd]. split; [left; reflexivity|]. split; [exact E|].
    intros k' [H|H] _; [lia|]. unfold lb in L. rewrite Forall_forall in L.
    unfold keys in H. apply in_map_iff in H. destruct H as [e [E1 E2]]. specialize (L e E2). lia.
  - destruct (IH S) as [H|[H1 [H2 H3]]]; [left; exact H|right].
    split; [right; exact H1|]. split; [exact H2|].
    intros k' [H|H] Hf; [subst; congruence|auto].
Qed.

Lemma spec_nearest_facts : forall s req last, ssorted (s_msgs s) ->
  nearest_facts s req last (spec_nearest s req last).
Proof.
  intros s req last S. unfold nearest_facts, spec_nearest, stored.
  fold (keys (s_msgs s)). set (f := fun k => (req <=? k) && (k <=? last)).
  assert (Hf : forall k, f k = true <-> req <= k <= last).
  { intros k. unfold f. rewrite andb_true_iff, !N.leb_le. tauto. }
  destruct (hd_filter_min f (s_msgs s) S) as [H|[H1 [H2 H3]]].
  - left. rewrite H. split; [reflexivity|]. intros k b Hk Hw.
    assert (In k (filter f (keys (s_msgs s)))).
    { apply filter_In. split; [eapply sfind_in_keys; eauto|apply Hf; auto]. }
    rewrite H in H0. destruct H0.
  - right. split; [apply in_keys_sfind; auto|]. split; [apply Hf; auto|].
    intros k b Hk Hw. apply H3; [eapply sfind_in_keys; eauto|apply Hf; auto].
Qed.

(* ---- last ---- *)
Definition last_facts (s : spec) (l : N) : Prop :=
  (forall k b, stored s k b -> k <= l) /\ (l = 0 \/ exists b, stored s l b).

Lemma spec_last_facts : forall s, last_facts s (spec_last s).
Proof.
  intros s. unfold last_facts, spec_last, stored. fold (keys (s_msgs s)). split.
  - intros k b H. apply keys_le_max. eapply sfind_in_keys; eauto.
  - destruct (max_in_or_zero (keys (s_msgs s))) as [H|H]; [left; auto|right].
    apply in_keys_sfind; auto.
Qed.

(* ---- corollaries for any outputs function that refines the specification ---- *)
Section Cor.
Variable outputs : list op -> option (list out).
Variable hyp : list op -> Prop.
Hypothesis refines : forall ops, hyp ops -> outputs ops = Some (spec_outputs ops).

Lemma cor_range : forall ops from to abort, hyp (ops ++ [ORange from to abort]) ->
  exists vis, outputs (ops ++ [ORange from to abort]) =
              Some (spec_outputs ops ++
                    [RRange (N.of_nat (length vis))
                            (map (fun kb => (fst kb, snd kb, false)) vis ++ [completion])]) /\
              range_facts (spec_state ops) from to abort vis.
Proof.
  intros ops from to abort H. exists (spec_visited (spec_state ops) from to abort).
  split; [|apply spec_visited_facts, spec_state_sorted].
  rewrite refines by auto. rewrite spec_outputs_snoc. reflexivity.
Qed.

Lemma cor_nearest : forall ops req last, hyp (ops ++ [ONearest req last]) ->
  exists r, outputs (ops ++ [ONearest req last]) = Some (spec_outputs ops ++ [RNum r]) /\
            nearest_facts (spec_state ops) req last r.
Proof.
  intros ops req last H. exists (spec_nearest (spec_state ops) req last).
  split; [|apply spec_nearest_facts, spec_state_sorted].
  rewrite refines by auto. rewrite spec_outputs_snoc. reflexivity.
Qed.

Lemma cor_last : forall ops, hyp (ops ++ [OLast]) ->
  exists l, outputs (ops ++ [OLast]) = Some (spec_outputs ops ++ [RNum l]) /\
            last_facts (spec_state ops) l.
Proof.
  intros ops H. exists (spec_last (spec_state ops)). split; [|apply spec_last_facts].
  rewrite refines by auto. rewrite spec_outputs_snoc. reflexivity.
Qed.
End Cor.

Definition file_hyp (ops : list op) : Prop :=
  ops_wf ops = true /\ zero_free ops = true /\ reopen_safe ops = true.
Definition mem_hyp (ops : list op) : Prop :=
  forallb op_bounded ops = true /\ zero_free ops = true.

Lemma file_refines_hyp : forall ops, file_hyp ops -> file_outputs ops = Some (spec_outputs ops).
Proof. intros ops [H1 [H2 H3]]. apply c26_file_refines_lemma; auto. Qed.
Lemma mem_refines_hyp : forall ops, mem_hyp ops -> mem_outputs ops = Some (spec_outputs ops).
Proof. intros ops [H1 H2]. apply c26_mem_refines_lemma; auto. Qed.

Definition c26_range_file_lemma := cor_range file_outputs file_hyp file_refines_hyp.
Definition c26_range_mem_lemma := cor_range mem_outputs mem_hyp mem_refines_hyp.
Definition c26_nearest_file_lemma := cor_nearest file_outputs file_hyp file_refines_hyp.
Definition c26_nearest_mem_lemma := cor_nearest mem_outputs mem_hyp mem_refines_hyp.
Definition c26_last_file_lemma := cor_last file_outputs file_hyp file_refines_hyp.
Definition c26_last_mem_lemma := cor_last mem_outputs mem_hyp mem_refines_hyp.

(* ---- refutations (each by evaluation of the models on one operation sequence) ---- *)

(* F31 seen through the API: a message stored before the first control record loses its index
   entry to the control record; after a reopen it is gone *)
Definition f31_ops : list op :=
  [OPut 1 [77; 83; 71]; OCtlPut 2 1; OPut 2 [77; 83; 72]; OGet 1; OReopen; OGet 1].
Lemma c26_file_reopen_refuted_lemma :
  ops_wf f31_ops = true /\ zero_free f31_ops = true /\ reopen_safe f31_ops = false /\
  file_outputs f31_ops =
    Some [RBool true; RBool true; RBool true; RBytes (Some [77; 83; 71]); RBool true; RBytes None] /\
  c26_ok f31_ops (file_outputs f31_ops) = false.
Proof. repeat split; vm_compute; reflexivity. Qed.

(* a search from 0 finds the control record's key 0 and reports "nothing", on both persisters *)
Definition zero_ops : list op := [OCtlPut 1 1; OPut 3 [65]; ONearest 0 5; ORange 0 0 0].
Lemma c26_zero_request_refuted_lemma :
  ops_wf zero_ops = true /\ reopen_safe zero_ops = true /\
  zero_free zero_ops = false /\
  file_outputs zero_ops = Some [RBool true; RBool true; RNum 0; RRange 0 [completion]] /\
  mem_outputs zero_ops = Some [RBool true; RBool true; RNum 0; RRange 0 [completion]] /\
  spec_outputs zero_ops = [RBool true; RBool true; RNum 3; RRange 1 [(3, [65], false); completion]].
Proof. repeat split; vm_compute; reflexivity. Qed.

(* non-vacuity: a sequence meeting all hypotheses of c26_file_refines and of c26_mem_refines,
   with accepted and refused puts, a reopen, a search, an aborted range, control record replaced *)
Definition nv_ops : list op :=
  [OCtlPut 4 9; OPut 2 [1; 2]; OPut 5 []; OPut 2 [3]; OPut 0 [4]; OPut 9 [5; 6; 7]; OReopen;
   OGet 2; OGet 7; OLast; ONearest 3 9; ORange 1 0 2; ORange 2 9 0; OPut 7 [8]; ORange 6 0 0;
   OCtlGet; OCtlPut 6 1; OCtlGet].
Lemma c26_nonvacuous_lemma :
  file_hyp nv_ops /\ mem_hyp nv_ops /\
  spec_outputs nv_ops =
    [RBool true; RBool true; RBool true; RBool false; RBool false; RBool true; RBool true;
     RBytes (Some [1; 2]); RBytes None; RNum 9; RNum 5;
     RRange 2 [(2, [1; 2], false); (5, [], false); completion];
     RRange 3 [(2, [1; 2], false); (5, [], false); (9, [5; 6; 7], false); completion];
     RBool true; RRange 2 [(7, [8], false); (9, [5; 6; 7], false); completion];
     RCtl (Some (4, 9)); RBool true; RCtl (Some (6, 1))].
Proof. repeat split; vm_compute; reflexivity. Qed.

(* a record one byte longer than MaxMsgLen: refused by put since a3cf082 (a refused put: answer
   false, nothing stored, the get finds nothing); before, put accepted it and get overran its
   buffer (None); the memory persister has no limit *)
Definition big_rec : list byte := repeat 65 (N.to_nat 8193).
Definition overlong_ops : list op := [OPut 1 big_rec; OGet 1; OPut 1 [66]; OGet 1].
Lemma c26_overlong_orig_refuted_lemma :
  zero_free overlong_ops = true /\ reopen_safe overlong_ops = true /\ ops_wf overlong_ops = false /\
  file_outputs_orig overlong_ops = None /\
  file_outputs overlong_ops = Some [RBool false; RBytes None; RBool true; RBytes (Some [66])] /\
  c26_ok_file overlong_ops (file_outputs overlong_ops) = true /\
  mem_outputs overlong_ops = Some (spec_outputs overlong_ops).
Proof. repeat split; vm_compute; reflexivity. Qed.
