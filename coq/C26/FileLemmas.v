(* Byte-level facts about the FilePersister model: little-endian records, writes, index replay. *)
From Coq Require Import PeanoNat NArith List Bool Lia.
From F8 Require Import C26.SMap C26.SMapProofs C26.PersistSpec C26.PersistProofs C26.Spec_C26 C26.MemPersist C26.MemProofs C26.FilePersist.
Import ListNotations.
Local Open Scope N_scope.

Definition rec_ok (r : N * prec) : Prop :=
  fst r < 4294967296 /\ fst (snd r) < 18446744073709551616 /\ snd (snd r) < 4294967296.

Lemma enc_iprec_length : forall seq p, length (enc_iprec seq p) = 16%nat.
Proof. intros. unfold enc_iprec. rewrite !app_length, !le_enc_length. reflexivity. Qed.

Lemma dec_enc_iprec : forall seq p, rec_ok (seq, p) -> dec_iprec (enc_iprec seq p) = (seq, p).
Proof.
  intros seq [off sz] [H1 [H2 H3]]. cbn [fst snd] in *. unfold dec_iprec, enc_iprec. cbn [fst snd].
  rewrite firstn_app, le_enc_length, Nat.sub_diag, firstn_O, app_nil_r.
  rewrite (firstn_all2 (le_enc 4 seq)) by (rewrite le_enc_length; lia).
  rewrite skipn_app, le_enc_length, Nat.sub_diag, skipn_O.
  rewrite (skipn_all2 (le_enc 4 seq)) by (rewrite le_enc_length; lia). cbn [app].
  rewrite firstn_app, le_enc_length, Nat.sub_diag, firstn_O, app_nil_r.
  rewrite (firstn_all2 (le_enc 8 off)) by (rewrite le_enc_length; lia).
  rewrite (skipn_app 12), le_enc_length. change (12 - 4)%nat with 8%nat.
  rewrite (skipn_all2 (le_enc 4 seq)) by (rewrite le_enc_length; lia). cbn [app].
  rewrite skipn_app, le_enc_length, Nat.sub_diag, skipn_O.
  rewrite (skipn_all2 (le_enc 8 off)) by (rewrite le_enc_length; lia). cbn [app].
  rewrite (firstn_all2 (le_enc 4 sz)) by (rewrite le_enc_length; lia).
  rewrite !le_dec_enc; auto.
Qed.

(* ---- write_at ---- *)
Lemma len_nat : forall l, N.to_nat (len l) = length l.
Proof. intros. unfold len. apply Nat2N.id. Qed.

Lemma write_at_end : forall f b, write_at f (len f) b = f ++ b.
Proof.
  intros f b. unfold write_at. rewrite len_nat.
  rewrite firstn_all, Nat.sub_diag. cbn [repeat app].
  rewrite skipn_all2 by lia. rewrite app_nil_r. reflexivity.
Qed.

Lemma write_at_start : forall e0 rest e1, length e0 = length e1 -> write_at (e0 ++ rest) 0 e1 = e1 ++ rest.
Proof.
  intros e0 rest e1 H. unfold write_at. cbn [N.to_nat firstn Nat.sub repeat app Nat.add].
  rewrite skipn_app. rewrite <- H. rewrite skipn_all, Nat.sub_diag. reflexivity.
Qed.

Lemma exec_put : forall d e w,
  exec_all d [SeekEnd Iod; SeekEnd Fod; Write Fod w; Write Iod e] =
  {| d_idx := d_idx d ++ e; d_dat := d_dat d ++ w |}.
Proof.
  intros d e w. unfold exec_all. cbn [fold_left exec_sys fst d_idx d_dat].
  rewrite !write_at_end. reflexivity.
Qed.

Lemma exec_ctl : forall d e, exec_all d [SeekSet Iod 0; Write Iod e] =
  {| d_idx := write_at (d_idx d) 0 e; d_dat := d_dat d |}.
Proof. intros. reflexivity. Qed.

Lemma exec_nil : forall d, exec_all d [] = d.
Proof. intros. reflexivity. Qed.

Lemma exec_seek : forall d off, exec_all d [SeekSet Fod off] = d.
Proof. intros. reflexivity. Qed.

(* ---- reading records from the data file ---- *)
Definition rd (dat : list byte) (p : prec) : list byte :=
  firstn (N.to_nat (snd p)) (skipn (N.to_nat (fst p)) dat).

Lemma rd_app : forall dat w p, fst p + snd p <= len dat -> rd (dat ++ w) p = rd dat p.
Proof.
  intros dat w [off sz] H. unfold rd, len in *. cbn [fst snd] in *.
  rewrite skipn_app, firstn_app.
  replace (N.to_nat sz - length (skipn (N.to_nat off) dat))%nat with 0%nat.
  - rewrite firstn_O, app_nil_r. reflexivity.
  - rewrite skipn_length. lia.
Qed.

Lemma rd_new : forall dat w, rd (dat ++ w) (len dat, len w) = w.
Proof.
  intros dat w. unfold rd. cbn [fst snd]. rewrite !len_nat.
  rewrite skipn_app, skipn_all, Nat.sub_diag, skipn_O. cbn [app]. apply firstn_all.
Qed.

Lemma fetch_ok : forall dat p, fst p + snd p <= len dat -> snd p <= MAX_MSG_LENGTH ->
  file_fetch dat p = FBytes (rd dat p).
Proof.
  intros dat [off sz] H1 H2. unfold file_fetch, rd. cbn [fst snd] in *.
  replace (N.min sz (len dat - off)) with sz by lia.
  destruct (N.ltb_spec MAX_MSG_LENGTH sz); [lia|]. rewrite N.eqb_refl. reflexivity.
Qed.

(* ---- the index file as a list of records ---- *)
Definition encs (recs : list (N * prec)) : list byte :=
  concat (map (fun r => enc_iprec (fst r) (snd r)) recs).
Definition ins (ix : smap prec) (r : N * prec) : smap prec := fst (sinsert (fst r) (snd r) ix).

Lemma encs_app : forall a b, encs (a ++ b) = encs a ++ encs b.
Proof. intros. unfold encs. rewrite map_app, concat_app. reflexivity. Qed.

Lemma encs_cons : forall r rs, encs (r :: rs) = enc_iprec (fst r) (snd r) ++ encs rs.
Proof. reflexivity. Qed.

Lemma encs_length : forall recs, length (encs recs) = (16 * length recs)%nat.
Proof.
  induction recs as [|r rs IH]; [reflexivity|].
  rewrite encs_cons, app_length, enc_iprec_length, IH. cbn [length]. lia.
Qed.

Lemma replay_loop_encs : forall recs fuel prev ix, Forall rec_ok recs -> length prev = 16%nat ->
  (length (encs recs) < fuel)%nat ->
  replay_loop fuel (encs recs) prev ix = Some (fold_left ins recs ix).
Proof.
  induction recs as [|[seq p] rs IH]; intros fuel prev ix F Hp Hf.
  - destruct fuel; reflexivity.
  - inversion F; subst. rewrite encs_cons in *. cbn [fst snd] in *.
    pose proof (enc_iprec_length seq p) as He.
    destruct fuel as [|f]; [lia|].
    destruct (enc_iprec seq p) as [|b e'] eqn:Ee; [discriminate|].
    cbn [app replay_loop]. change (b :: e' ++ encs rs) with ((b :: e') ++ encs rs).
    rewrite firstn_app, He, Nat.sub_diag, firstn_O, app_nil_r.
    rewrite (firstn_all2 (b :: e')) by lia. rewrite He.
    rewrite (skipn_all2 prev) by lia. rewrite app_nil_r.
    rewrite skipn_app, He, Nat.sub_diag, skipn_O.
    rewrite (skipn_all2 (b :: e')) by lia. cbn [app].
    rewrite <- Ee. rewrite dec_enc_iprec by auto.
    apply IH; [assumption|apply enc_iprec_length|rewrite app_length in Hf; lia].
Qed.

Lemma replay_encs : forall recs, Forall rec_ok recs -> replay (encs recs) = Some (fold_left ins recs []).
Proof. intros. unfold replay. apply replay_loop_encs; auto. Qed.

(* ---- a control put on an index that has a control record ---- *)
Lemma sinsert_sassign_comm {V} : forall k (v : V) j c m, k <> j ->
  fst (sinsert k v (sassign j c m)) = sassign j c (fst (sinsert k v m)).
Proof.
  intros k v j c m H. induction m as [|[k' v'] r IH]; cbn [sassign sinsert fst].
  - destruct (N.eqb_spec j k); [congruence|]. reflexivity.
  - destruct (N.eqb_spec j k').
    + subst. cbn [sinsert]. destruct (N.ltb_spec k k').
      * cbn [fst sassign]. destruct (N.eqb_spec k' k); [congruence|].
        cbn [sassign]. rewrite N.eqb_refl. reflexivity.
      * destruct (N.eqb_spec k k'); [congruence|].
        destruct (sinsert k v r) as [r' b]. cbn [fst sassign]. rewrite N.eqb_refl. reflexivity.
    + cbn [sinsert]. destruct (N.ltb_spec k k').
      * cbn [fst sassign]. destruct (N.eqb_spec j k); [congruence|].
        cbn [sassign]. destruct (N.eqb_spec j k'); [congruence|]. reflexivity.
      * destruct (N.eqb_spec k k').
        -- cbn [fst sassign]. destruct (N.eqb_spec j k'); [congruence|]. reflexivity.
        -- destruct (sinsert k v r) as [r1 b1]. destruct (sinsert k v (sassign j c r)) as [r2 b2].
           cbn [fst sassign] in *. destruct (N.eqb_spec j k'); [congruence|]. f_equal. exact IH.
Qed.

Lemma sfind_ins_keep : forall (ix : smap prec) r k x, ssorted ix -> sfind k ix = Some x ->
  sfind k (ins ix r) = Some x.
Proof.
  intros ix [k' p] k x S H. unfold ins. cbn [fst snd].
  destruct (sfind k' ix) eqn:E.
  - rewrite (sinsert_some k' p ix p0 S E). exact H.
  - rewrite sfind_sinsert_none by auto. destruct (N.eqb_spec k k'); [congruence|exact H].
Qed.

Lemma ssorted_ins : forall ix r, ssorted ix -> ssorted (ins ix r).
Proof. intros. unfold ins. apply ssorted_sinsert; auto. Qed.

Lemma fold_ins_sassign0 : forall rs (m : smap prec) c x, ssorted m -> sfind 0 m = Some x ->
  fold_left ins rs (sassign 0 c m) = sassign 0 c (fold_left ins rs m).
Proof.
  induction rs as [|[k p] rs IH]; intros m c x S H; [reflexivity|].
  cbn [fold_left].
  assert (E : ins (sassign 0 c m) (k, p) = sassign 0 c (ins m (k, p))).
  { unfold ins. cbn [fst snd]. destruct (N.eqb_spec k 0).
    - subst. rewrite (sinsert_some 0 p m x S H).
      assert (sfind 0 (sassign 0 c m) = Some c) by (rewrite sfind_sassign, N.eqb_refl, H; reflexivity).
      rewrite (sinsert_some 0 p _ c (ssorted_sassign 0 c m S) H0). reflexivity.
    - apply sinsert_sassign_comm; auto. }
  rewrite E. eapply IH.
  - apply ssorted_ins; auto.
  - apply sfind_ins_keep; eauto.
Qed.

Lemma fold_ins_sorted : forall rs m, ssorted m -> ssorted (fold_left ins rs m).
Proof. induction rs; intros; cbn [fold_left]; auto. apply IHrs, ssorted_ins; auto. Qed.

Lemma fold_ins_keep : forall rs m k x, ssorted m -> sfind k m = Some x ->
  sfind k (fold_left ins rs m) = Some x.
Proof.
  induction rs; intros; cbn [fold_left]; auto.
  apply IHrs; [apply ssorted_ins; auto|apply sfind_ins_keep; auto].
Qed.

Lemma in_sinsert {V} : forall e k (v : V) m, In e (fst (sinsert k v m)) -> e = (k, v) \/ In e m.
Proof.
  intros e k v m. induction m as [|[k' v'] r IH]; cbn [sinsert]; intros H.
  - cbn in H. destruct H as [H|[]]; auto.
  - destruct (k <? k').
    + cbn [fst] in H. destruct H as [H|H]; auto.
    + destruct (k =? k'); [cbn [fst] in H; auto|].
      destruct (sinsert k v r) as [r' b]. cbn [fst] in *.
      destruct H as [H|H]; [right; left; auto|]. destruct (IH H); auto. right; right; auto.
Qed.
