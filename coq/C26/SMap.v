(* Ordered map std::map<unsigned, V> as a key-sorted association list, and the two pieces of code
   that runtime/persist.cpp (MemoryPersister) and runtime/filepersist.cpp (FilePersister)
   duplicate verbatim: find_nearest_highest_seqnum and the range protocol
   get(from, to, session, callback).  Definitions only; proofs are in SMapProofs.v. *)
From Coq Require Import NArith List Bool.
Import ListNotations.
Local Open Scope N_scope.

Notation byte := N (only parsing).
Definition W32 : N := 4294967296.

Section SMap.
Context {V : Type}.

Definition smap := list (N * V).

(* map::find *)
Fixpoint sfind (k : N) (m : smap) : option V :=
  match m with
  | [] => None
  | (k', v) :: r => if k =? k' then Some v else sfind k r
  end.

(* map::insert({k, v}): keeps the existing entry; second component = .second *)
Fixpoint sinsert (k : N) (v : V) (m : smap) : smap * bool :=
  match m with
  | [] => ([(k, v)], true)
  | (k', v') :: r =>
    if k <? k' then ((k, v) :: m, true)
    else if k =? k' then (m, false)
    else let '(r', b) := sinsert k v r in ((k', v') :: r', b)
  end.

(* itr->second = v for the entry found under k *)
Fixpoint sassign (k : N) (v : V) (m : smap) : smap :=
  match m with
  | [] => []
  | (k', v') :: r => if k =? k' then (k', v) :: r else (k', v') :: sassign k v r
  end.

(* map::erase(k) *)
Fixpoint serase (k : N) (m : smap) : smap :=
  match m with
  | [] => []
  | (k', v) :: r => if k =? k' then r else (k', v) :: serase k r
  end.

(* m.empty() ? 0 : m.rbegin()->first *)
Fixpoint slast (m : smap) : N :=
  match m with
  | [] => 0
  | (k, _) :: r => match r with [] => k | _ :: _ => slast r end
  end.

(* the iterator returned by find(k), as the list of entries from it to end() *)
Fixpoint sfrom (k : N) (m : smap) : smap :=
  match m with
  | [] => []
  | (k', v) :: r => if k =? k' then m else sfrom k r
  end.

(* find_nearest_highest_seqnum(requested, last):
     if (last) for (unsigned s(requested); s <= last; ++s) if (find(s) != end()) return s;
     return 0;
   [s] is a 32-bit unsigned: ++s wraps.  Out of fuel = None (the loop does not terminate:
   last = UINT_MAX and nothing stored at or above requested). *)
Fixpoint nearest_loop (fuel : nat) (m : smap) (s last : N) : option N :=
  match fuel with
  | O => None
  | S f =>
    if last <? s then Some 0
    else match sfind s m with
         | Some _ => Some s
         | None => nearest_loop f m ((s + 1) mod W32) last
         end
  end.

Definition nearest (m : smap) (requested last : N) : option N :=
  if last =? 0 then Some 0
  else nearest_loop (S (N.to_nat (last + 1 - requested))) m requested last.

(* result of fetching the payload of an entry *)
Inductive fres := FBytes (b : list byte) | FFail | FOob.

Variable fetch : V -> fres.

(* the do { ... } while (++itr != end()) loop over the entries from find(startSeqNum);
   [abort] = the callback returns false on its abort-th data record (0: never), [seen] = data
   records delivered so far.  Result: the data records handed to the callback (recs_sent is
   incremented exactly once before each of them); None = a fetch overran its buffer. *)
Fixpoint range_loop (m : smap) (finish abort seen : N) : option (list (N * list byte)) :=
  match m with
  | [] => Some []
  | (k, v) :: r =>
    if (k =? 0) || (finish <? k) then Some []
    else match fetch v with
         | FOob => None
         | FFail => Some []
         | FBytes b =>
           if seen + 1 =? abort then Some [(k, b)]
           else match range_loop r finish abort (seen + 1) with
                | None => None
                | Some l => Some ((k, b) :: l)
                end
         end
  end.

(* one callback invocation: (with.first, with.second, rctx._no_more_records) *)
Definition cbrec := (N * list byte * bool)%type.
Definition completion : cbrec := (0, [], true).

Inductive rres := RROob | RRHang | RRDone (recs_sent : N) (calls : list cbrec).

Definition range_get (m : smap) (from to abort : N) : rres :=
  let last_seq := slast m in
  match nearest m from last_seq with
  | None => RRHang
  | Some startSeqNum =>
    let finish := if to =? 0 then last_seq else to in
    if (startSeqNum =? 0) || (finish <? from) then RRDone 0 [completion]
    else match sfrom startSeqNum m with
         | [] => RRDone 0 []              (* "record not found": no callback at all *)
         | sub =>
           match range_loop sub finish abort 0 with
           | None => RROob
           | Some l => RRDone (N.of_nat (length l))
                              (map (fun kb => (fst kb, snd kb, false)) l ++ [completion])
           end
         end
  end.

End SMap.

Arguments smap : clear implicits.

(* entries other than the control record's key 0 (the smallest key, hence the head) *)
Definition drop0 {V} (m : smap V) : smap V :=
  match m with
  | (0, _) :: r => r
  | _ => m
  end.
