(* Property C26 as an executable predicate on observables: the results returned by the
   persister API for a sequence of operations must be those of the store contract
   (PersistSpec.v).  The same function, extracted, is the oracle applied to the
   implementation's results. *)
From Coq Require Import NArith List Bool.
From F8 Require Import C26.SMap C26.PersistSpec.
Import ListNotations.
Local Open Scope N_scope.

(* [None]: the run did not produce results (buffer overrun / no termination) *)
Definition c26_ok (ops : list op) (r : option (list out)) : bool :=
  match r with
  | None => false
  | Some outs => list_eqb out_eqb outs (spec_outputs ops)
  end.

(* the file persister enforces the documented maximum record length: a longer put is a refused put *)
Definition c26_ok_file (ops : list op) (r : option (list out)) : bool := c26_ok (clip ops) r.
