(* MemoryPersister model against the store contract. *)
From Coq Require Import PeanoNat NArith List Bool Lia.
From F8 Require Import C26.SMap C26.SMapProofs C26.PersistSpec C26.PersistProofs C26.Spec_C26 C26.MemPersist.
Import ListNotations.
Local Open Scope N_scope.

Definition idb (b : list byte) : list byte := b.

(* ---- little endian ---- *)
Lemma le_enc_length : forall n v, length (le_enc n v) = n.
Proof. induction n; intros; cbn [le_enc length]; auto. Qed.

Lemma le_dec_enc : forall n v, v < 256 ^ N.of_nat n -> le_dec (le_enc n v) = v.
Proof.
  induction n as [|n IH]; intros v H.
  - cbn in *. lia.
  - cbn [le_enc le_dec]. rewrite IH.
    + pose proof (N.div_mod v 256). lia.
    + rewrite Nat2N.inj_succ, N.pow_succ_r' in H.
      apply N.div_lt_upper_bound; lia.
Qed.

Lemma dec_ctl_enc : forall s t, s < W32 -> t < W32 -> dec_ctl (le_enc 4 s ++ le_enc 4 t) = (s, t).
Proof.
  intros s t Hs Ht. assert (W32 = 4294967296) by reflexivity. unfold dec_ctl.
  rewrite firstn_app, le_enc_length, Nat.sub_diag, firstn_O, app_nil_r.
  rewrite (firstn_all2 (le_enc 4 s)) by (rewrite le_enc_length; lia).
  rewrite skipn_app, le_enc_length, Nat.sub_diag, skipn_O.
  rewrite (skipn_all2 (le_enc 4 s)) by (rewrite le_enc_length; lia). cbn [app].
  rewrite (firstn_all2 (le_enc 4 t)) by (rewrite le_enc_length; lia).
  rewrite !le_dec_enc by (cbn; lia). reflexivity.
Qed.

(* the abstraction: messages = entries other than key 0, control record = the 8 bytes under key 0 *)
Record minv (st : mstate) (sp : spec) : Prop := {
  mi_sorted : ssorted st;
  mi_msgs : s_msgs sp = absm idb st;
  mi_ctl : s_ctl sp = option_map dec_ctl (sfind 0 st);
  mi_bound : forall k v, sfind k st = Some v -> k < LIM
}.

Lemma bound_slast {V} : forall (m : smap V), ssorted m ->
  (forall k v, sfind k m = Some v -> k < LIM) -> slast m < W32 - 1.
Proof.
  intros m S B. rewrite slast_max by auto.
  assert (LIM = 2147483648) by reflexivity. assert (W32 = 4294967296) by reflexivity.
  destruct (max_in_or_zero (keys m)) as [Z|I]; [lia|].
  apply in_keys_sfind in I. destruct I as [v Hv]. specialize (B _ _ Hv). lia.
Qed.

Lemma spec_eta : forall sp, sp = {| s_msgs := s_msgs sp; s_ctl := s_ctl sp |}.
Proof. intros []; reflexivity. Qed.

Lemma mem_step_refines : forall st sp o,
  minv st sp -> op_bounded o = true -> op_zero_free o = true ->
  exists st', mem_step st o = Some (st', snd (spec_step sp o)) /\ minv st' (fst (spec_step sp o)).
Proof.
  intros st sp o [S M C B] Hb Hz.
  assert (LIM = 2147483648) as HL by reflexivity. assert (W32 = 4294967296) as HW by reflexivity.
  destruct o as [seq b|seq|s t| | |req last|from to abort| ];
    unfold mem_step; cbn [mem_step_gen spec_step].
  - (* put *)
    destruct (N.eqb_spec seq 0).
    + exists st. cbn [fst snd]. split; [reflexivity|]. split; auto.
    + rewrite M. rewrite sfind_absm by auto. destruct (sfind seq st) eqn:E; cbn [option_map].
      * rewrite (sinsert_some seq b st l S E). exists st. cbn [fst snd]. split; [reflexivity|]. split; auto.
      * pose proof (sinsert_none seq b st E) as Hs.
        pose proof (fun j => sfind_sinsert_none j seq b st E) as Hfi.
        pose proof (ssorted_sinsert seq b st S) as Hso. pose proof (absm_sinsert idb seq b st n) as Ha.
        destruct (sinsert seq b st) as [m bb]. cbn [fst snd] in *. subst bb.
        exists m. split; [reflexivity|]. split; cbn [s_msgs s_ctl]; auto.
        -- rewrite (Hfi 0). destruct (N.eqb_spec 0 seq); [congruence|]. exact C.
        -- intros k v. rewrite Hfi. destruct (N.eqb_spec k seq).
           ++ intros _. subst. cbn in Hb. apply N.ltb_lt in Hb. exact Hb.
           ++ apply B.
  - (* get *)
    exists st. destruct (N.eqb_spec seq 0); cbn [fst snd].
    + split; [reflexivity|]. split; auto.
    + rewrite M. rewrite sfind_absm by auto. destruct (sfind seq st); cbn [option_map idb];
      (split; [reflexivity|]); split; auto.
  - (* control put: erase(0), then insert: the record is replaced, the call returns true *)
    cbn in Hb. apply andb_true_iff in Hb. destruct Hb as [Hb1 Hb2]. apply N.ltb_lt in Hb1, Hb2.
    rewrite (serase0_drop0 st S).
    set (v := le_enc 4 s ++ le_enc 4 t).
    assert (S0 : ssorted (drop0 st)) by (apply ssorted_drop0'; auto).
    assert (F0 : sfind 0 (drop0 st) = None) by (apply sfind0_drop0; auto).
    pose proof (sinsert_none 0 v (drop0 st) F0) as Hs.
    pose proof (fun j => sfind_sinsert_none j 0 v (drop0 st) F0) as Hfi.
    pose proof (ssorted_sinsert 0 v (drop0 st) S0) as Hso.
    pose proof (drop0_sinsert0 v (drop0 st) S0 F0) as Hd.
    destruct (sinsert 0 v (drop0 st)) as [m bb]. cbn [fst snd] in *. subst bb.
    exists m. split; [reflexivity|]. split; cbn [s_msgs s_ctl]; auto.
    { rewrite M. unfold absm. rewrite Hd, (drop0_id _ F0). reflexivity. }
    { rewrite (Hfi 0). cbn [N.eqb option_map]. unfold v. rewrite dec_ctl_enc by auto. reflexivity. }
    { intros k w. rewrite Hfi. destruct (N.eqb_spec k 0); [intros; lia|].
      rewrite sfind_drop0 by auto. apply B. }
  - (* control get: the last record stored *)
    assert (I0 : minv st sp) by (split; auto).
    exists st. rewrite C. destruct (sfind 0 st); cbn [option_map fst snd];
      (split; [reflexivity|exact I0]).
  - (* last *)
    exists st. cbn [fst snd]. rewrite (spec_eta sp), M. rewrite <- last_abs by auto.
    rewrite <- M, <- spec_eta. split; [reflexivity|]. split; auto.
  - (* nearest *)
    cbn in Hb, Hz. apply andb_true_iff in Hb. destruct Hb as [Hb1 Hb2].
    apply N.ltb_lt in Hb1, Hb2. apply N.leb_le in Hz.
    rewrite (nearest_abs idb st (s_ctl sp)) by (auto; lia). rewrite <- M, <- spec_eta.
    exists st. cbn [fst snd]. split; [reflexivity|]. split; auto.
  - (* range *)
    cbn in Hb, Hz. apply N.leb_le in Hz.
    rewrite (range_abs idb mem_fetch st (s_ctl sp)); auto.
    + rewrite <- M, <- spec_eta. exists st. cbn [fst snd]. unfold spec_range.
      split; [reflexivity|]. split; auto.
    + apply bound_slast; auto.
  - exists st. cbn [fst snd]. split; [reflexivity|]. split; auto.
Qed.

Lemma mem_run_refines : forall ops st sp,
  minv st sp -> forallb op_bounded ops = true -> zero_free ops = true ->
  mem_run st ops = Some (snd (spec_run sp ops)).
Proof.
  induction ops as [|o r IH]; intros st sp I Hb Hz; [reflexivity|].
  cbn [forallb] in Hb. unfold zero_free in Hz. cbn [forallb] in Hz.
  apply andb_true_iff in Hb, Hz. destruct Hb as [Hb1 Hb2]. destruct Hz as [Hz1 Hz2].
  destruct (mem_step_refines st sp o I Hb1 Hz1) as [st' [E I']].
  unfold mem_run, mem_step in *. cbn [mem_run_gen spec_run]. rewrite E.
  destruct (spec_step sp o) as [sp1 x] eqn:Es. cbn [fst snd] in *.
  specialize (IH st' sp1 I' Hb2 Hz2). rewrite IH.
  destruct (spec_run sp1 r) as [sp2 xs]. reflexivity.
Qed.

Lemma minv_empty : minv mem_empty spec_empty.
Proof. split; cbn; auto. intros; discriminate. Qed.

(* the memory persister at full strength: every operation sequence, control record included *)
Lemma c26_mem_refines_lemma : forall ops,
  forallb op_bounded ops = true -> zero_free ops = true ->
  mem_outputs ops = Some (spec_outputs ops).
Proof. intros. apply (mem_run_refines ops mem_empty spec_empty minv_empty); auto. Qed.

(* [ops_wf] (the file persister's hypothesis) is stronger than what the memory persister needs *)
Lemma ops_wf_bounded : forall ops, forallb (fun o => op_bounded o) ops = true -> forallb op_bounded ops = true.
Proof. auto. Qed.

(* oracle form *)
Lemma N_eqb_list_refl : forall l, bytes_eqb l l = true.
Proof. induction l; cbn; auto. rewrite N.eqb_refl. auto. Qed.

Lemma cbrec_list_refl : forall l, list_eqb cbrec_eqb l l = true.
Proof.
  induction l as [|[[k b] f] l IH]; cbn; auto.
  rewrite N.eqb_refl, N_eqb_list_refl, eqb_reflx. auto.
Qed.

(* results of the specification never contain RCtlUnspec, so they equal themselves *)
Definition out_spec_like (x : out) : bool := match x with RCtlUnspec => false | _ => true end.
Lemma out_eqb_refl : forall x, out_spec_like x = true -> out_eqb x x = true.
Proof.
  intros [b|[l|]|[[a b]|]| |n|n c] H; cbn in *; try discriminate; auto.
  - apply eqb_reflx.
  - apply N_eqb_list_refl.
  - rewrite !N.eqb_refl. reflexivity.
  - apply N.eqb_refl.
  - rewrite N.eqb_refl, cbrec_list_refl. reflexivity.
Qed.

Lemma spec_step_like : forall sp o, out_spec_like (snd (spec_step sp o)) = true.
Proof.
  intros sp o. destruct o; cbn [spec_step]; auto.
  - destruct (seq =? 0); auto. destruct (sfind seq (s_msgs sp)); auto.
Qed.

Lemma spec_run_eqb : forall ops sp, list_eqb out_eqb (snd (spec_run sp ops)) (snd (spec_run sp ops)) = true.
Proof.
  induction ops as [|o r IH]; intros sp; [reflexivity|]. cbn [spec_run].
  pose proof (spec_step_like sp o) as L.
  destruct (spec_step sp o) as [s1 x]. specialize (IH s1).
  destruct (spec_run s1 r) as [s2 xs]. cbn [snd list_eqb] in *.
  rewrite out_eqb_refl by auto. exact IH.
Qed.

Lemma c26_ok_spec : forall ops, c26_ok ops (Some (spec_outputs ops)) = true.
Proof. intros. cbn. apply spec_run_eqb. Qed.

(* the oracle accepts exactly the specification's results *)
Lemma list_eqb_eq {A} (e : A -> A -> bool) : (forall x y, e x y = true -> x = y) ->
  forall a b, list_eqb e a b = true -> a = b.
Proof.
  intros He. induction a as [|x a IH]; intros [|y b] H; cbn in H; try discriminate; auto.
  apply andb_true_iff in H. destruct H as [H1 H2]. f_equal; auto.
Qed.

Lemma bytes_eqb_eq : forall a b, bytes_eqb a b = true -> a = b.
Proof. apply list_eqb_eq. intros x y H. apply N.eqb_eq; auto. Qed.

Lemma cbrec_eqb_eq : forall a b, cbrec_eqb a b = true -> a = b.
Proof.
  intros [[k1 b1] f1] [[k2 b2] f2] H. cbn in H.
  apply andb_true_iff in H. destruct H as [H H3]. apply andb_true_iff in H. destruct H as [H1 H2].
  apply N.eqb_eq in H1. apply bytes_eqb_eq in H2. apply eqb_prop in H3. congruence.
Qed.

Lemma out_eqb_eq : forall a b, out_eqb a b = true -> a = b.
Proof.
  intros [b1|[l1|]|[[a1 c1]|]| |n1|n1 c1] [b2|[l2|]|[[a2 c2]|]| |n2|n2 c2] H; cbn in H;
    try discriminate; auto.
  - apply eqb_prop in H. congruence.
  - apply bytes_eqb_eq in H. congruence.
  - apply andb_true_iff in H. destruct H as [H1 H2]. apply N.eqb_eq in H1, H2. congruence.
  - apply N.eqb_eq in H. congruence.
  - apply andb_true_iff in H. destruct H as [H1 H2]. apply N.eqb_eq in H1.
    apply (list_eqb_eq _ cbrec_eqb_eq) in H2. congruence.
Qed.

Lemma c26_ok_iff : forall ops r, c26_ok ops r = true <-> r = Some (spec_outputs ops).
Proof.
  intros ops r. split.
  - destruct r as [outs|]; cbn; [|discriminate]. intros H.
    apply (list_eqb_eq _ out_eqb_eq) in H. congruence.
  - intros ->. apply c26_ok_spec.
Qed.

(* ---- the control record of the memory persister BEFORE commit 760121b (finding F30) ---- *)
Lemma c26_mem_orig_refuted_lemma :
  (* reading the control record back *)
  c26_ok [OCtlPut 5 7; OCtlGet] (mem_outputs_orig [OCtlPut 5 7; OCtlGet]) = false /\
  (* a second control put is refused *)
  mem_outputs_orig [OCtlPut 5 7; OCtlPut 6 8] = Some [RBool true; RBool false] /\
  spec_outputs [OCtlPut 5 7; OCtlPut 6 8] = [RBool true; RBool true] /\
  (* the repaired code on the same inputs *)
  mem_outputs [OCtlPut 5 7; OCtlGet; OCtlPut 6 8; OCtlGet] =
    Some [RBool true; RCtl (Some (5, 7)); RBool true; RCtl (Some (6, 8))].
Proof. repeat split; vm_compute; reflexivity. Qed.
