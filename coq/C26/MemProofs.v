(* MemoryPersister model against the store contract. *)
From Coq Require Import NArith List Bool Lia.
From F8 Require Import C26.SMap C26.SMapProofs C26.PersistSpec C26.PersistProofs C26.Spec_C26 C26.MemPersist.
Import ListNotations.
Local Open Scope N_scope.

Definition idb (b : list byte) : list byte := b.

(* [present]: key 0 (the control record) is in the map *)
Record minv (st : mstate) (sp : spec) (present : bool) : Prop := {
  mi_sorted : ssorted st;
  mi_msgs : s_msgs sp = absm idb st;
  mi_ctl : if present then sfind 0 st <> None else sfind 0 st = None /\ s_ctl sp = None;
  mi_bound : forall k v, sfind k st = Some v -> k < LIM
}.

Lemma bound_slast {V} : forall (m : smap V), ssorted m ->
  (forall k v, sfind k m = Some v -> k < LIM) -> slast m < W32 - 1.
Proof.
  intros m S B. rewrite slast_max by auto.
  assert (LIM = 2147483648) by reflexivity. assert (W32 = 4294967296) by reflexivity.
  destruct (max_in_or_zero (keys m)) as [Z|I]; [lia|].
  apply in_keys_sfind in I. destruct I as [v Hv]. specialize (B _ _ Hv). lia.
Qed.

Lemma spec_eta : forall sp, sp = {| s_msgs := s_msgs sp; s_ctl := s_ctl sp |}.
Proof. intros []; reflexivity. Qed.

Lemma mem_step_refines : forall st sp present o,
  minv st sp present -> op_bounded o = true -> op_zero_free o = true ->
  mem_ctl_ok_from present [o] = true ->
  exists st' present',
    mem_step st o = Some (st', snd (spec_step sp o)) /\
    minv st' (fst (spec_step sp o)) present' /\
    (forall r, mem_ctl_ok_from present (o :: r) = true -> mem_ctl_ok_from present' r = true).
Proof.
  intros st sp present o [S M C B] Hb Hz Hc.
  assert (LIM = 2147483648) as HL by reflexivity. assert (W32 = 4294967296) as HW by reflexivity.
  destruct o as [seq b|seq|s t| | |req last|from to abort| ]; cbn [mem_step spec_step].
  - (* put *)
    destruct (N.eqb_spec seq 0).
    + exists st, present. cbn [fst snd]. repeat split; auto.
    + rewrite M. rewrite sfind_absm by auto. destruct (sfind seq st) eqn:E; cbn [option_map].
      * rewrite (sinsert_some seq b st l S E). exists st, present. cbn [fst snd].
        repeat split; auto.
      * pose proof (sinsert_none seq b st E) as Hs.
        pose proof (fun j => sfind_sinsert_none j seq b st E) as Hfi.
        pose proof (ssorted_sinsert seq b st S) as Hso. pose proof (absm_sinsert idb seq b st n) as Ha.
        destruct (sinsert seq b st) as [m bb]. cbn [fst snd] in *. subst bb.
        exists m, present. repeat split; auto.
        -- cbn [s_ctl]. rewrite (Hfi 0). destruct (N.eqb_spec 0 seq); [congruence|]. exact C.
        -- intros k v. rewrite Hfi. destruct (N.eqb_spec k seq).
           ++ intros _. subst. cbn in Hb. apply N.ltb_lt in Hb. exact Hb.
           ++ apply B.
  - (* get *)
    exists st, present. destruct (N.eqb_spec seq 0); cbn [fst snd].
    + repeat split; auto.
    + rewrite M. rewrite sfind_absm by auto. destruct (sfind seq st); cbn [option_map idb];
      repeat split; auto.
  - (* control put: only when no control record is present *)
    cbn in Hc. destruct present; [discriminate|]. destruct C as [C1 C2].
    pose proof (sinsert_none 0 (le_enc 4 s ++ le_enc 4 t) st C1) as Hs.
    pose proof (fun j => sfind_sinsert_none j 0 (le_enc 4 s ++ le_enc 4 t) st C1) as Hfi.
    pose proof (ssorted_sinsert 0 (le_enc 4 s ++ le_enc 4 t) st S) as Hso.
    pose proof (drop0_sinsert0 (le_enc 4 s ++ le_enc 4 t) st S C1) as Hd.
    destruct (sinsert 0 (le_enc 4 s ++ le_enc 4 t) st) as [m bb]. cbn [fst snd] in *. subst bb.
    exists m, true. repeat split; auto.
    + cbn [s_msgs]. rewrite M. unfold absm. rewrite Hd. reflexivity.
    + rewrite (Hfi 0). cbn. discriminate.
    + intros k v. rewrite Hfi. destruct (N.eqb_spec k 0); [intros; lia|apply B].
  - (* control get: only when no control record is present *)
    cbn in Hc. destruct present; [discriminate|]. destruct C as [C1 C2].
    rewrite C1, C2. exists st, false. cbn [fst snd]. repeat split; auto.
  - (* last *)
    exists st, present. cbn [fst snd]. rewrite (spec_eta sp), M. rewrite <- last_abs by auto.
    rewrite <- M, <- spec_eta. repeat split; auto.
  - (* nearest *)
    cbn in Hb, Hz. apply andb_true_iff in Hb. destruct Hb as [Hb1 Hb2].
    apply N.ltb_lt in Hb1, Hb2. apply N.leb_le in Hz.
    rewrite (nearest_abs idb st (s_ctl sp)) by (auto; lia). rewrite <- M, <- spec_eta.
    exists st, present. cbn [fst snd]. repeat split; auto.
  - (* range *)
    cbn in Hb, Hz. apply N.leb_le in Hz.
    rewrite (range_abs idb mem_fetch st (s_ctl sp)); auto.
    + rewrite <- M, <- spec_eta. exists st, present. cbn [fst snd]. unfold spec_range.
      repeat split; auto.
    + apply bound_slast; auto.
  - exists st, present. cbn [fst snd]. repeat split; auto.
Qed.

Lemma mem_ctl_ok_single : forall present o r,
  mem_ctl_ok_from present (o :: r) = true -> mem_ctl_ok_from present [o] = true.
Proof.
  intros present o r H. destruct o; cbn in *; auto;
  apply andb_true_iff in H; destruct H as [H _]; rewrite H; reflexivity.
Qed.

Lemma mem_run_refines : forall ops st sp present,
  minv st sp present -> forallb op_bounded ops = true -> zero_free ops = true ->
  mem_ctl_ok_from present ops = true ->
  mem_run st ops = Some (snd (spec_run sp ops)).
Proof.
  induction ops as [|o r IH]; intros st sp present I Hb Hz Hc; [reflexivity|].
  cbn [forallb] in Hb. unfold zero_free in Hz. cbn [forallb] in Hz.
  apply andb_true_iff in Hb, Hz. destruct Hb as [Hb1 Hb2]. destruct Hz as [Hz1 Hz2].
  destruct (mem_step_refines st sp present o I Hb1 Hz1 (mem_ctl_ok_single _ _ _ Hc))
    as [st' [present' [E [I' Hc']]]].
  cbn [mem_run spec_run]. rewrite E.
  destruct (spec_step sp o) as [sp1 x] eqn:Es. cbn [fst snd] in *.
  specialize (IH st' sp1 present' I' Hb2 Hz2 (Hc' r Hc)). rewrite IH.
  destruct (spec_run sp1 r) as [sp2 xs]. reflexivity.
Qed.

Lemma minv_empty : minv mem_empty spec_empty false.
Proof. split; cbn; auto. intros; discriminate. Qed.

(* every operation sequence that writes the control record at most once and never reads it *)
Lemma c26_mem_partial_lemma : forall ops,
  forallb op_bounded ops = true -> zero_free ops = true -> mem_ctl_ok ops = true ->
  mem_outputs ops = Some (spec_outputs ops).
Proof. intros. apply (mem_run_refines ops mem_empty spec_empty false minv_empty); auto. Qed.

(* oracle form *)
Lemma N_eqb_list_refl : forall l, bytes_eqb l l = true.
Proof. induction l; cbn; auto. rewrite N.eqb_refl. auto. Qed.

Lemma cbrec_list_refl : forall l, list_eqb cbrec_eqb l l = true.
Proof.
  induction l as [|[[k b] f] l IH]; cbn; auto.
  rewrite N.eqb_refl, N_eqb_list_refl, eqb_reflx. auto.
Qed.

(* results of the specification never contain RCtlUnspec, so they equal themselves *)
Definition out_spec_like (x : out) : bool := match x with RCtlUnspec => false | _ => true end.
Lemma out_eqb_refl : forall x, out_spec_like x = true -> out_eqb x x = true.
Proof.
  intros [b|[l|]|[[a b]|]| |n|n c] H; cbn in *; try discriminate; auto.
  - apply eqb_reflx.
  - apply N_eqb_list_refl.
  - rewrite !N.eqb_refl. reflexivity.
  - apply N.eqb_refl.
  - rewrite N.eqb_refl, cbrec_list_refl. reflexivity.
Qed.

Lemma spec_step_like : forall sp o, out_spec_like (snd (spec_step sp o)) = true.
Proof.
  intros sp o. destruct o; cbn [spec_step]; auto.
  - destruct (seq =? 0); auto. destruct (sfind seq (s_msgs sp)); auto.
Qed.

Lemma spec_run_eqb : forall ops sp, list_eqb out_eqb (snd (spec_run sp ops)) (snd (spec_run sp ops)) = true.
Proof.
  induction ops as [|o r IH]; intros sp; [reflexivity|]. cbn [spec_run].
  pose proof (spec_step_like sp o) as L.
  destruct (spec_step sp o) as [s1 x]. specialize (IH s1).
  destruct (spec_run s1 r) as [s2 xs]. cbn [snd list_eqb] in *.
  rewrite out_eqb_refl by auto. exact IH.
Qed.

Lemma c26_ok_spec : forall ops, c26_ok ops (Some (spec_outputs ops)) = true.
Proof. intros. cbn. apply spec_run_eqb. Qed.

(* the oracle accepts exactly the specification's results *)
Lemma list_eqb_eq {A} (e : A -> A -> bool) : (forall x y, e x y = true -> x = y) ->
  forall a b, list_eqb e a b = true -> a = b.
Proof.
  intros He. induction a as [|x a IH]; intros [|y b] H; cbn in H; try discriminate; auto.
  apply andb_true_iff in H. destruct H as [H1 H2]. f_equal; auto.
Qed.

Lemma bytes_eqb_eq : forall a b, bytes_eqb a b = true -> a = b.
Proof. apply list_eqb_eq. intros x y H. apply N.eqb_eq; auto. Qed.

Lemma cbrec_eqb_eq : forall a b, cbrec_eqb a b = true -> a = b.
Proof.
  intros [[k1 b1] f1] [[k2 b2] f2] H. cbn in H.
  apply andb_true_iff in H. destruct H as [H H3]. apply andb_true_iff in H. destruct H as [H1 H2].
  apply N.eqb_eq in H1. apply bytes_eqb_eq in H2. apply eqb_prop in H3. congruence.
Qed.

Lemma out_eqb_eq : forall a b, out_eqb a b = true -> a = b.
Proof.
  intros [b1|[l1|]|[[a1 c1]|]| |n1|n1 c1] [b2|[l2|]|[[a2 c2]|]| |n2|n2 c2] H; cbn in H;
    try discriminate; auto.
  - apply eqb_prop in H. congruence.
  - apply bytes_eqb_eq in H. congruence.
  - apply andb_true_iff in H. destruct H as [H1 H2]. apply N.eqb_eq in H1, H2. congruence.
  - apply N.eqb_eq in H. congruence.
  - apply andb_true_iff in H. destruct H as [H1 H2]. apply N.eqb_eq in H1.
    apply (list_eqb_eq _ cbrec_eqb_eq) in H2. congruence.
Qed.

Lemma c26_ok_iff : forall ops r, c26_ok ops r = true <-> r = Some (spec_outputs ops).
Proof.
  intros ops r. split.
  - destruct r as [outs|]; cbn; [|discriminate]. intros H.
    apply (list_eqb_eq _ out_eqb_eq) in H. congruence.
  - intros ->. apply c26_ok_spec.
Qed.

(* ---- the control record of the memory persister (finding F30) ---- *)
Lemma c26_mem_refuted_lemma :
  (* reading the control record back *)
  c26_ok [OCtlPut 5 7; OCtlGet] (mem_outputs [OCtlPut 5 7; OCtlGet]) = false /\
  (* a second control put is refused *)
  mem_outputs [OCtlPut 5 7; OCtlPut 6 8] = Some [RBool true; RBool false] /\
  spec_outputs [OCtlPut 5 7; OCtlPut 6 8] = [RBool true; RBool true].
Proof. repeat split; vm_compute; reflexivity. Qed.
