(* Generic part of the refinement: for a key-sorted map whose entries other than key 0 can be
   fetched, slast / nearest / range_get compute what the specification says about the
   abstracted map. *)
From Coq Require Import NArith List Bool Lia.
From F8 Require Import C26.SMap C26.SMapProofs C26.PersistSpec.
Import ListNotations.
Local Open Scope N_scope.

(* ---- list facts ---- *)
Lemma filter_none {A} (f : A -> bool) l : (forall x, In x l -> f x = false) -> filter f l = [].
Proof.
  induction l as [|a l IH]; intros H; [reflexivity|]. cbn [filter].
  rewrite (H a (or_introl eq_refl)). apply IH. intros; apply H; right; auto.
Qed.

Lemma filter_all {A} (f : A -> bool) l : (forall x, In x l -> f x = true) -> filter f l = l.
Proof.
  induction l as [|a l IH]; intros H; [reflexivity|]. cbn [filter].
  rewrite (H a (or_introl eq_refl)). f_equal. apply IH. intros; apply H; right; auto.
Qed.

Lemma filter_map_fst {A B} (f : A -> bool) (h : B -> A) (l : list B) :
  filter f (map h l) = map h (filter (fun e => f (h e)) l).
Proof.
  induction l as [|a l IH]; [reflexivity|]. cbn [map filter].
  destruct (f (h a)); cbn [map]; rewrite IH; reflexivity.
Qed.

Lemma filter_filter {A} (f g : A -> bool) l :
  filter f (filter g l) = filter (fun x => g x && f x) l.
Proof.
  induction l as [|a l IH]; [reflexivity|]. cbn [filter].
  destruct (g a); cbn [filter andb]; [destruct (f a)|]; rewrite IH; reflexivity.
Qed.

Section Abs.
Context {V : Type}.
Variable g : V -> list byte.
Variable fetch : V -> fres.

Definition gg (e : N * V) : N * list byte := (fst e, g (snd e)).
Definition absm (m : smap V) : smap (list byte) := map gg (drop0 m).

Lemma keys_map_gg : forall (l : smap V), keys (map gg l) = keys l.
Proof. intros l. unfold keys. rewrite map_map. apply map_ext. intros [k v]; reflexivity. Qed.

Lemma sfind_map_gg : forall k (l : smap V), sfind k (map gg l) = option_map g (sfind k l).
Proof.
  intros k l. induction l as [|[k' v] r IH]; [reflexivity|].
  cbn [map gg fst snd sfind]. destruct (k =? k'); [reflexivity|exact IH].
Qed.

Lemma sfind_absm : forall k m, k <> 0 -> sfind k (absm m) = option_map g (sfind k m).
Proof. intros. unfold absm. rewrite sfind_map_gg, sfind_drop0; auto. Qed.

Lemma sinsert_map_gg : forall k v (l : smap V),
  fst (sinsert k (g v) (map gg l)) = map gg (fst (sinsert k v l)).
Proof.
  intros k v l. induction l as [|[k' v'] r IH]; [reflexivity|].
  cbn [map gg fst snd sinsert].
  destruct (k <? k'); [reflexivity|]. destruct (k =? k'); [reflexivity|].
  destruct (sinsert k v r) as [r1 b1]. destruct (sinsert k (g v) (map gg r)) as [r2 b2].
  cbn [fst map gg snd] in *. f_equal. exact IH.
Qed.

Lemma absm_sinsert : forall k v m, k <> 0 ->
  absm (fst (sinsert k v m)) = fst (sinsert k (g v) (absm m)).
Proof. intros. unfold absm. rewrite drop0_sinsert by auto. symmetry. apply sinsert_map_gg. Qed.

Lemma ssorted_drop0 : forall (m : smap V), ssorted m -> ssorted (drop0 m).
Proof. intros [|[[|p] v] r] S; cbn [drop0]; auto. destruct S; auto. Qed.

Lemma in_drop0 : forall e (m : smap V), In e m -> fst e <> 0 -> In e (drop0 m).
Proof.
  intros e [|[[|p] v] r] H Hz; cbn [drop0]; auto.
  destruct H as [E|H]; auto. subst. cbn in Hz. contradiction.
Qed.

Lemma in_drop0_in : forall e (m : smap V), In e (drop0 m) -> In e m.
Proof. intros e [|[[|p] v] r] H; cbn [drop0] in H; auto. right; auto. Qed.

(* ---- last ---- *)
Lemma max_keys_drop0 : forall (m : smap V),
  fold_right N.max 0 (keys (drop0 m)) = fold_right N.max 0 (keys m).
Proof.
  intros [|[[|p] v] r]; cbn [drop0]; auto. cbn [keys map fst fold_right]. unfold keys. lia.
Qed.

Lemma last_abs : forall m c, ssorted m -> slast m = spec_last {| s_msgs := absm m; s_ctl := c |}.
Proof.
  intros m c S. rewrite slast_max by auto. unfold spec_last. cbn [s_msgs].
  fold (keys (absm m)). unfold absm. rewrite keys_map_gg. symmetry. apply max_keys_drop0.
Qed.

(* ---- nearest ---- *)
Definition inwin (lo hi k : N) : bool := (lo <=? k) && (k <=? hi).

Lemma hd_filter_sorted : forall (m : smap V) s last, ssorted m -> In s (keys m) -> s <= last ->
  hd 0 (filter (inwin s last) (keys m)) = s.
Proof.
  induction m as [|[k v] r IH]; intros s last S H Hl; [destruct H|].
  destruct S as [L S]. cbn [keys map fst filter] in *. fold (keys r) in *.
  destruct H as [E|H].
  - subst. unfold inwin at 1. destruct (N.leb_spec s s); [|lia]. destruct (N.leb_spec s last); [|lia].
    reflexivity.
  - assert (k < s).
    { unfold lb in L. rewrite Forall_forall in L. unfold keys in H. apply in_map_iff in H.
      destruct H as [e [E1 E2]]. specialize (L e E2). lia. }
    unfold inwin at 1. destruct (N.leb_spec s k); [lia|]. cbn [andb]. apply IH; auto.
Qed.

Lemma nearest_loop_spec : forall fuel (m : smap V) s last, ssorted m -> last < W32 - 1 ->
  (N.to_nat (last + 1 - s) < fuel)%nat ->
  nearest_loop fuel m s last = Some (hd 0 (filter (inwin s last) (keys m))).
Proof.
  induction fuel as [|f IH]; intros m s last S Hl Hf; [lia|].
  cbn [nearest_loop]. destruct (N.ltb_spec last s).
  - rewrite filter_none; [reflexivity|]. intros k _. unfold inwin.
    destruct (N.leb_spec s k); destruct (N.leb_spec k last); auto; lia.
  - destruct (sfind s m) eqn:E.
    + rewrite hd_filter_sorted; auto. eapply sfind_in_keys; eauto.
    + assert (W32 = 4294967296) by reflexivity.
      rewrite N.mod_small by lia. rewrite IH; auto; [|lia].
      f_equal. f_equal. apply filter_ext_in. intros k Hk.
      assert (k <> s). { intros ->. eapply sfind_none_notin; eauto. }
      unfold inwin. destruct (N.leb_spec (s + 1) k); destruct (N.leb_spec s k); auto; lia.
Qed.

Lemma filter_win_drop0 : forall (m : smap V) lo hi, 1 <= lo ->
  filter (inwin lo hi) (keys (drop0 m)) = filter (inwin lo hi) (keys m).
Proof.
  intros [|[[|p] v] r] lo hi H; cbn [drop0]; auto.
  cbn [keys map fst filter]. unfold inwin at 2. destruct (N.leb_spec lo 0); [lia|]. reflexivity.
Qed.

Lemma nearest_abs : forall m c req last, ssorted m -> 1 <= req -> last < W32 - 1 ->
  nearest m req last = Some (spec_nearest {| s_msgs := absm m; s_ctl := c |} req last).
Proof.
  intros m c req last S Hr Hl. unfold nearest, spec_nearest. cbn [s_msgs].
  fold (keys (absm m)). unfold absm. rewrite keys_map_gg. fold (inwin req last).
  destruct (N.eqb_spec last 0).
  - subst. rewrite filter_none; [reflexivity|]. intros k _. unfold inwin.
    destruct (N.leb_spec req k); destruct (N.leb_spec k 0); auto; lia.
  - rewrite nearest_loop_spec by (auto; lia). rewrite filter_win_drop0; auto.
Qed.

(* ---- range ---- *)
Definition cutn (abort seen : N) (l : list (N * list byte)) : list (N * list byte) :=
  if abort =? 0 then l else firstn (N.to_nat (abort - seen)) l.

Lemma range_loop_spec : forall (sub : smap V) fin abort seen, ssorted sub ->
  Forall (fun e => 0 < fst e /\ fetch (snd e) = FBytes (g (snd e))) sub ->
  (abort = 0 \/ seen < abort) ->
  range_loop fetch sub fin abort seen =
  Some (cutn abort seen (map gg (filter (fun e => fst e <=? fin) sub))).
Proof.
  induction sub as [|[k v] r IH]; intros fin abort seen S F A.
  - cbn. unfold cutn. destruct (abort =? 0); [reflexivity|]. rewrite firstn_nil. reflexivity.
  - destruct S as [L S]. inversion F as [|? ? [Hk Hf] F']; subst. cbn [fst snd] in *.
    cbn [range_loop filter fst].
    destruct (N.eqb_spec k 0); [lia|]. cbn [orb].
    destruct (N.ltb_spec fin k).
    + destruct (N.leb_spec k fin); [lia|].
      rewrite filter_none.
      * cbn [map]. unfold cutn. destruct (abort =? 0); [reflexivity|]. rewrite firstn_nil. reflexivity.
      * intros e He. unfold lb in L. rewrite Forall_forall in L. specialize (L e He).
        destruct (N.leb_spec (fst e) fin); auto; lia.
    + destruct (N.leb_spec k fin); [|lia]. rewrite Hf. cbn [map gg fst snd].
      destruct (N.eqb_spec (seen + 1) abort).
      * unfold cutn. destruct (N.eqb_spec abort 0); [lia|].
        replace (N.to_nat (abort - seen)) with 1%nat by lia. reflexivity.
      * rewrite IH; auto; [|lia]. f_equal. unfold cutn.
        destruct (N.eqb_spec abort 0); [reflexivity|].
        replace (N.to_nat (abort - seen)) with (Datatypes.S (N.to_nat (abort - (seen + 1)))) by lia.
        reflexivity.
Qed.

Lemma sfrom_filter : forall (m : smap V) from k0 v0 rest, ssorted m ->
  filter (fun e => from <=? fst e) m = (k0, v0) :: rest -> sfrom k0 m = (k0, v0) :: rest.
Proof.
  induction m as [|[k v] r IH]; intros from k0 v0 rest S H; [discriminate|].
  destruct S as [L S]. cbn [filter fst] in H. cbn [sfrom].
  destruct (N.leb_spec from k).
  - rewrite filter_all in H.
    + inversion H; subst. rewrite N.eqb_refl. reflexivity.
    + intros e He. unfold lb in L. rewrite Forall_forall in L. specialize (L e He).
      destruct (N.leb_spec from (fst e)); auto; lia.
  - assert (In (k0, v0) (filter (fun e => from <=? fst e) r)) by (rewrite H; left; reflexivity).
    apply filter_In in H1. destruct H1 as [_ H1]. cbn [fst] in H1. apply N.leb_le in H1.
    destruct (N.eqb_spec k0 k); [lia|]. eapply IH; eauto.
Qed.

Lemma range_abs : forall m c from to abort, ssorted m -> 1 <= from -> slast m < W32 - 1 ->
  (forall e, In e (drop0 m) -> fetch (snd e) = FBytes (g (snd e))) ->
  let vis := spec_visited {| s_msgs := absm m; s_ctl := c |} from to abort in
  range_get fetch m from to abort =
  RRDone (N.of_nat (length vis)) (map (fun kb => (fst kb, snd kb, false)) vis ++ [completion]).
Proof.
  intros m c from to abort S Hf Hl Hfetch vis.
  assert (Hlast : spec_last {| s_msgs := absm m; s_ctl := c |} = slast m) by (symmetry; apply last_abs; auto).
  unfold range_get.
  rewrite (nearest_abs m c) by auto. unfold spec_nearest. cbn [s_msgs].
  fold (keys (absm m)). unfold absm. rewrite keys_map_gg. fold (inwin from (slast m)).
  rewrite filter_win_drop0 by auto.
  set (fin := if to =? 0 then slast m else to).
  set (suf := filter (fun e => from <=? fst e) m).
  (* keys within [from, last] are exactly the keys >= from *)
  assert (Hkeys : filter (inwin from (slast m)) (keys m) = keys suf).
  { unfold keys, suf. rewrite filter_map_fst. f_equal. apply filter_ext_in. intros e He.
    unfold inwin. destruct (N.leb_spec (fst e) (slast m)); [rewrite andb_true_r; reflexivity|].
    exfalso. rewrite slast_max in H by auto.
    pose proof (keys_le_max (keys m) (fst e)). unfold keys in H0 at 1.
    specialize (H0 (in_map fst m e He)). lia. }
  rewrite Hkeys.
  (* the specification's in-range records *)
  assert (Hinr : filter (fun kb => (from <=? fst kb) && (fst kb <=? fin)) (absm m)
                 = map gg (filter (fun e => fst e <=? fin) suf)).
  { unfold absm, suf. rewrite filter_map_fst. f_equal. cbn [gg fst]. rewrite filter_filter.
    destruct m as [|[[|p] v] r]; cbn [drop0]; auto.
    cbn [filter fst]. destruct (N.leb_spec from 0); [lia|]. reflexivity. }
  assert (Hvis : vis = cutn abort 0 (map gg (filter (fun e => fst e <=? fin) suf))).
  { unfold vis, spec_visited. rewrite Hlast. cbn [s_msgs]. fold fin. rewrite Hinr.
    unfold cutn. rewrite N.sub_0_r. reflexivity. }
  destruct suf as [|[k0 v0] rest] eqn:Esuf.
  - (* nothing at or above from *)
    cbn [keys map hd]. cbn [N.eqb orb].
    rewrite Hvis. cbn [filter map]. unfold cutn.
    destruct (abort =? 0); [|rewrite firstn_nil]; reflexivity.
  - cbn [keys map fst hd].
    assert (Hk0 : from <= k0).
    { assert (In (k0, v0) suf) by (rewrite Esuf; left; reflexivity).
      unfold suf in H. apply filter_In in H. destruct H as [_ H]. apply N.leb_le in H. exact H. }
    destruct (N.eqb_spec k0 0); [lia|]. cbn [orb].
    destruct (N.ltb_spec fin from).
    + rewrite Hvis. rewrite filter_none.
      * cbn [map]. unfold cutn. destruct (abort =? 0); [|rewrite firstn_nil]; reflexivity.
      * intros e He. rewrite <- Esuf in He. unfold suf in He. apply filter_In in He.
        destruct He as [_ He]. apply N.leb_le in He. destruct (N.leb_spec (fst e) fin); auto; lia.
    + rewrite (sfrom_filter m from k0 v0 rest S Esuf).
      rewrite range_loop_spec.
      * rewrite <- Hvis. reflexivity.
      * (* a filtered sublist of a sorted list is sorted *)
        rewrite <- Esuf. unfold suf. clear - S.
        induction m as [|[k v] r IH]; [exact I|]. destruct S as [L S]. cbn [filter fst].
        destruct (from <=? k); [|auto]. split; [|auto].
        unfold lb in *. rewrite Forall_forall in *. intros e He. apply filter_In in He. apply L, He.
      * rewrite <- Esuf. rewrite Forall_forall. intros e He. unfold suf in He.
        apply filter_In in He. destruct He as [He1 He2]. apply N.leb_le in He2.
        split; [lia|]. apply Hfetch. apply in_drop0; auto. lia.
      * lia.
Qed.

End Abs.
