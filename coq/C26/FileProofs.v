(* FilePersister model against the store contract: refinement by induction over the operations. *)
From Coq Require Import PeanoNat NArith List Bool Lia.
From F8 Require Import C26.SMap C26.SMapProofs C26.PersistSpec C26.PersistProofs C26.Spec_C26
  C26.MemPersist C26.MemProofs C26.FilePersist C26.FileLemmas.
Import ListNotations.
Local Open Scope N_scope.

(* what the index file holds, depending on what occupies its first record *)
Definition slot_ok (mode : slot0) (recs : list (N * prec)) : Prop :=
  match mode with
  | SVirgin => recs = []
  | SCtl => exists c rs, recs = (0, c) :: rs
  | _ => True
  end.

Definition disk_inv (mode : slot0) (st : fstate) : Prop :=
  match mode with
  | SLost => True
  | _ => exists recs, d_idx (f_disk st) = encs recs /\ f_index st = fold_left ins recs [] /\
                      Forall rec_ok recs /\ slot_ok mode recs
  end.

(* [n]: number of operations performed so far (bounds the size of the data file) *)
Record finv (st : fstate) (sp : spec) (mode : slot0) (n : N) : Prop := {
  fi_sorted : ssorted (f_index st);
  fi_msgs : s_msgs sp = absm (rd (d_dat (f_disk st))) (f_index st);
  fi_ctl : s_ctl sp = sfind 0 (f_index st);
  fi_bound : forall k p, sfind k (f_index st) = Some p -> k < LIM;
  fi_inb : forall e, In e (drop0 (f_index st)) ->
             fst (snd e) + snd (snd e) <= len (d_dat (f_disk st)) /\ snd (snd e) <= MAX_MSG_LENGTH;
  fi_datlen : len (d_dat (f_disk st)) <= MAX_MSG_LENGTH * n;
  fi_disk : disk_inv mode st
}.

Lemma absm_ext : forall (g1 g2 : prec -> list byte) (m : smap prec),
  (forall e, In e (drop0 m) -> g1 (snd e) = g2 (snd e)) -> absm g1 m = absm g2 m.
Proof.
  intros g1 g2 m H. unfold absm. apply map_ext_in. intros e He. unfold gg. rewrite (H e He). reflexivity.
Qed.

Lemma fstate_eta : forall st, st = {| f_index := f_index st; f_disk := f_disk st |}.
Proof. intros []; reflexivity. Qed.

Lemma file_step_refines : forall st sp mode n o,
  finv st sp mode n -> op_wf o = true -> op_zero_free o = true -> n < LIM ->
  (mode = SLost -> o <> OReopen) ->
  exists st', file_step st o = Some (st', snd (spec_step sp o)) /\
              finv st' (fst (spec_step sp o)) (slot_step mode o) (n + 1).
Proof.
  intros st sp mode n o [S M C B IB DL DI] Hwf Hz Hn Hre.
  assert (LIM = 2147483648) as HL by reflexivity. assert (W32 = 4294967296) as HW by reflexivity.
  assert (MAX_MSG_LENGTH = 8192) as HM by reflexivity.
  unfold op_wf in Hwf. apply andb_true_iff in Hwf. destruct Hwf as [Hb Hlen].
  (* operations that change nothing *)
  assert (Same : forall x, snd (spec_step sp o) = x -> fst (spec_step sp o) = sp ->
                 slot_step mode o = mode ->
                 file_step st o = Some (st, x) ->
                 exists st', file_step st o = Some (st', snd (spec_step sp o)) /\
                             finv st' (fst (spec_step sp o)) (slot_step mode o) (n + 1)).
  { intros x E1 E2 E3 E4. exists st. rewrite E1, E2, E3. split; [exact E4|].
    split; auto. lia. }
  destruct o as [seq b|seq|s t| | |req last|from to abort| ].
  - (* put *)
    cbn [file_step spec_step file_sys].
    destruct (N.eqb_spec seq 0).
    + subst. eapply Same; cbn [spec_step N.eqb fst snd]; auto.
      destruct mode; reflexivity.
    + rewrite M. rewrite sfind_absm by auto.
      destruct (sfind seq (f_index st)) eqn:E; cbn [option_map].
      * (* occupied *)
        exists st. cbn [fst snd]. split; auto.
        assert (slot_step mode (OPut seq b) = mode).
        { destruct mode; cbn [slot_step]; auto. exfalso.
          (* virgin: the index is empty, nothing can be occupied *)
          destruct DI as [recs [_ [Hix [_ Hs]]]]. cbn in Hs. subst recs. cbn in Hix.
          rewrite Hix in E. discriminate. }
        rewrite H. split; auto. lia.
      * (* accepted: the record is not longer than MaxMsgLen *)
        assert (Hlen' := Hlen). apply N.leb_le in Hlen'.
        destruct (N.ltb_spec MAX_MSG_LENGTH (len b)) as [Hx|Hx]; [lia|]. clear Hx.
        set (dat := d_dat (f_disk st)) in *.
        set (p := (len dat, len b)).
        pose proof (sinsert_none seq p (f_index st) E) as Hs.
        pose proof (fun j => sfind_sinsert_none j seq p (f_index st) E) as Hfi.
        pose proof (ssorted_sinsert seq p (f_index st) S) as Hso.
        pose proof (fun e => in_sinsert e seq p (f_index st)) as Hin.
        pose proof (absm_sinsert (rd (dat ++ b)) seq p (f_index st) n0) as Ha.
        pose proof (drop0_sinsert seq p (f_index st) n0) as Hd0.
        unfold ins in *.
        destruct (sinsert seq p (f_index st)) as [ix bb] eqn:Ei.
        try rewrite Ei in Ha. try rewrite Ei in Hd0. cbn [fst snd] in *. subst bb.
        rewrite exec_put. fold dat. try rewrite Ei.
        eexists. split; [reflexivity|]. cbn [fst snd].
        cbn in Hb. apply N.ltb_lt in Hb. apply N.leb_le in Hlen.
        assert (Hold : forall e, In e (drop0 (f_index st)) -> rd (dat ++ b) (snd e) = rd dat (snd e)).
        { intros e He. apply rd_app. apply IB; auto. }
        split; cbn [f_index f_disk d_dat d_idx s_msgs s_ctl].
        -- exact Hso.
        -- rewrite Ha. unfold p at 1. rewrite rd_new. f_equal. f_equal.
           apply absm_ext. intros e He. symmetry. apply Hold. exact He.
        -- rewrite (Hfi 0). destruct (N.eqb_spec 0 seq); [congruence|]. exact C.
        -- intros k q. rewrite Hfi. destruct (N.eqb_spec k seq); [intros; subst; auto|apply B].
        -- intros e He. unfold len. rewrite app_length, Nat2N.inj_add. fold (len dat) (len b).
           assert (In e ix) by (apply in_drop0_in; auto).
           destruct (Hin e H) as [E1|E1].
           ++ subst e. unfold p. cbn [fst snd]. lia.
           ++ assert (fst e <> 0).
              { intros Z. rewrite Hd0 in He. apply in_sinsert in He. destruct He as [He|He].
                - subst e. cbn in Z. contradiction.
                - pose proof (drop0_keys_pos (f_index st) S) as P. rewrite Forall_forall in P.
                  specialize (P (fst e) (in_map fst _ _ He)). lia. }
              specialize (IB e (in_drop0 e _ E1 H0)). lia.
        -- unfold len. rewrite app_length, Nat2N.inj_add. fold (len dat) (len b). lia.
        -- (* the index file *)
           assert (rec_ok (seq, p)) by (unfold rec_ok, p; cbn [fst snd]; lia).
           assert (Hss : (seq =? 0) || (MAX_MSG_LENGTH <? len b) = false).
           { apply orb_false_iff. split; [apply N.eqb_neq; auto|apply N.ltb_ge; lia]. }
           destruct mode; cbn [slot_step]; try rewrite Hss; cbn [disk_inv] in *; auto;
             destruct DI as [recs [H1 [H2 [H3 H4]]]]; exists (recs ++ [(seq, p)]);
             (split; [rewrite encs_app, H1; unfold encs; cbn [map concat fst snd]; rewrite app_nil_r; reflexivity|]);
             (split; [rewrite fold_left_app, <- H2; cbn [fold_left]; unfold ins; cbn [fst snd]; rewrite Ei; reflexivity|]);
             (split; [apply Forall_app; split; auto|]); cbn [slot_ok] in *; auto.
           destruct H4 as [c [rs H4]]. subst recs. exists c, (rs ++ [(seq, p)]). reflexivity.
  - (* get *)
    eapply Same; cbn [spec_step fst snd file_step]; auto; [destruct mode; reflexivity|].
    destruct (N.eqb_spec seq 0); [reflexivity|].
      rewrite M. rewrite sfind_absm by auto.
      destruct (sfind seq (f_index st)) as [p|] eqn:E; cbn [option_map]; [|reflexivity].
      assert (In (seq, p) (drop0 (f_index st))).
      { apply in_drop0; auto. clear - E. induction (f_index st) as [|[k v] r IH]; [discriminate|].
        cbn [sfind] in E. destruct (N.eqb_spec seq k); [left; congruence|right; auto]. }
      specialize (IB _ H). cbn [fst snd] in IB.
      rewrite fetch_ok by tauto. reflexivity.
  - (* control put *)
    cbn [file_step spec_step file_sys]. rewrite exec_ctl.
    cbn in Hb. apply andb_true_iff in Hb. destruct Hb as [Hb1 Hb2]. apply N.ltb_lt in Hb1, Hb2.
    eexists. split; [reflexivity|]. cbn [fst snd].
    set (ix := match sfind 0 (f_index st) with
               | Some _ => sassign 0 (s, t) (f_index st)
               | None => fst (sinsert 0 (s, t) (f_index st)) end).
    assert (Hsort : ssorted ix).
    { unfold ix. destruct (sfind 0 (f_index st)); [apply ssorted_sassign|apply ssorted_sinsert]; auto. }
    assert (Hfind : forall j, sfind j ix = if j =? 0 then Some (s, t) else sfind j (f_index st)).
    { intros j. unfold ix. destruct (sfind 0 (f_index st)) eqn:E.
      - rewrite sfind_sassign, E. reflexivity.
      - rewrite sfind_sinsert_none by auto. reflexivity. }
    assert (Hdrop : drop0 ix = drop0 (f_index st)).
    { unfold ix. destruct (sfind 0 (f_index st)) eqn:E;
        [apply drop0_sassign0|apply drop0_sinsert0]; auto. }
    split; cbn [f_index f_disk d_dat d_idx s_msgs s_ctl].
    + exact Hsort.
    + rewrite M. unfold absm. rewrite Hdrop. reflexivity.
    + rewrite (Hfind 0). reflexivity.
    + intros k q. rewrite Hfind. destruct (N.eqb_spec k 0); [intros; lia|apply B].
    + rewrite Hdrop. exact IB.
    + lia.
    + assert (rec_ok (0, (s, t))) by (unfold rec_ok; cbn [fst snd]; lia).
      destruct mode; cbn [slot_step disk_inv] in *; auto.
      * (* first record of the index file *)
        destruct DI as [recs [H1 [H2 [H3 H4]]]]. cbn in H4. subst recs. cbn in H1, H2.
        exists [(0, (s, t))]. rewrite H1. unfold ix. rewrite H2. cbn [sfind].
        repeat split; auto. cbn [slot_ok]. eauto.
      * (* the control record is replaced in place *)
        destruct DI as [recs [H1 [H2 [H3 H4]]]]. cbn in H4. destruct H4 as [c [rs H4]]. subst recs.
        exists ((0, (s, t)) :: rs). inversion H3; subst.
        rewrite H1, !encs_cons. cbn [fst snd].
        split; [apply write_at_start; rewrite !enc_iprec_length; reflexivity|].
        split; [|split; [constructor; auto|cbn [slot_ok]; eauto]].
        unfold ix. rewrite H2. cbn [fold_left]. unfold ins at 2 4. cbn [fst snd sinsert].
        assert (E0 : sfind 0 (fold_left ins rs [(0, c)]) = Some c).
        { apply fold_ins_keep; [cbn; split; [constructor|exact I]|reflexivity]. }
        rewrite E0.
        rewrite <- (fold_ins_sassign0 rs [(0, c)] (s, t) c); [reflexivity|cbn; split; [constructor|exact I]|reflexivity].
  - (* control get *)
    eapply Same; cbn [spec_step fst snd file_step]; auto; [destruct mode; reflexivity|].
    rewrite C. reflexivity.
  - (* last *)
    eapply Same; cbn [spec_step fst snd file_step]; auto; [destruct mode; reflexivity|].
    rewrite (spec_eta sp), M. rewrite <- last_abs by auto. reflexivity.
  - (* nearest *)
    cbn in Hb, Hz. apply andb_true_iff in Hb. destruct Hb as [Hb1 Hb2].
    apply N.ltb_lt in Hb1, Hb2. apply N.leb_le in Hz.
    eapply Same; cbn [spec_step fst snd file_step]; auto; [destruct mode; reflexivity|].
    rewrite (nearest_abs (rd (d_dat (f_disk st))) (f_index st) (s_ctl sp)) by (auto; lia).
    rewrite <- M, <- spec_eta. reflexivity.
  - (* range *)
    cbn in Hz. apply N.leb_le in Hz.
    eapply Same; cbn [spec_step fst snd file_step]; auto; [destruct mode; reflexivity|].
    rewrite (range_abs (rd (d_dat (f_disk st))) (file_fetch (d_dat (f_disk st))) (f_index st) (s_ctl sp)); auto.
    + rewrite <- M, <- spec_eta. reflexivity.
    + apply bound_slast; auto.
    + intros e He. apply fetch_ok; apply IB; auto.
  - (* reopen *)
    eapply Same; cbn [spec_step fst snd file_step]; auto; [destruct mode; reflexivity|].
    destruct mode; try (exfalso; apply Hre; reflexivity);
      destruct DI as [recs [H1 [H2 [H3 H4]]]]; rewrite H1, replay_encs by auto;
      rewrite <- H2, <- fstate_eta; reflexivity.
Qed.

Lemma file_run_refines : forall ops st sp mode n,
  finv st sp mode n -> forallb op_wf ops = true -> zero_free ops = true ->
  n + N.of_nat (length ops) < LIM -> reopen_safe_from mode ops = true ->
  file_run st ops = Some (snd (spec_run sp ops)).
Proof.
  induction ops as [|o r IH]; intros st sp mode n I Hw Hz Hn Hr; [reflexivity|].
  cbn [forallb] in Hw. unfold zero_free in Hz. cbn [forallb] in Hz.
  apply andb_true_iff in Hw, Hz. destruct Hw as [Hw1 Hw2]. destruct Hz as [Hz1 Hz2].
  cbn [length] in Hn. rewrite Nat2N.inj_succ in Hn.
  assert (Hre : mode = SLost -> o <> OReopen).
  { intros -> ->. cbn in Hr. discriminate. }
  assert (Hr' : reopen_safe_from (slot_step mode o) r = true).
  { cbn [reopen_safe_from] in Hr. destruct mode; auto. destruct o; auto. discriminate. }
  destruct (file_step_refines st sp mode n o I Hw1 Hz1 ltac:(lia) Hre) as [st' [E I']].
  cbn [file_run spec_run]. rewrite E.
  destruct (spec_step sp o) as [sp1 x] eqn:Es. cbn [fst snd] in *.
  specialize (IH st' sp1 _ (n + 1) I' Hw2 Hz2 ltac:(lia) Hr'). rewrite IH.
  destruct (spec_run sp1 r) as [sp2 xs]. reflexivity.
Qed.

Lemma finv_empty : finv file_empty spec_empty SVirgin 0.
Proof.
  split; cbn; auto; try (intros; discriminate); try tauto; try lia.
  exists []. repeat split; auto.
Qed.

Lemma c26_file_refines_lemma : forall ops,
  ops_wf ops = true -> zero_free ops = true -> reopen_safe ops = true ->
  file_outputs ops = Some (spec_outputs ops).
Proof.
  intros ops Hw Hz Hr. unfold ops_wf in Hw. apply andb_true_iff in Hw. destruct Hw as [Hw1 Hw2].
  apply N.ltb_lt in Hw2.
  apply (file_run_refines ops file_empty spec_empty SVirgin 0 finv_empty); auto.
Qed.

(* without reopen operations the hypothesis reopen_safe is vacuous *)
Definition no_reopen (ops : list op) : bool :=
  forallb (fun o => match o with OReopen => false | _ => true end) ops.

Lemma no_reopen_safe : forall ops m, no_reopen ops = true -> reopen_safe_from m ops = true.
Proof.
  induction ops as [|o r IH]; intros m H; [reflexivity|].
  unfold no_reopen in H. cbn [forallb] in H. apply andb_true_iff in H. destruct H as [H1 H2].
  cbn [reopen_safe_from]. destruct m; try (apply IH; exact H2). destruct o; try (apply IH; exact H2). discriminate.
Qed.

Lemma c26_file_noreopen_lemma : forall ops,
  ops_wf ops = true -> zero_free ops = true -> no_reopen ops = true ->
  file_outputs ops = Some (spec_outputs ops).
Proof. intros. apply c26_file_refines_lemma; auto. apply no_reopen_safe; auto. Qed.

(* ---- records of any length: a put longer than MaxMsgLen is a refused put (a3cf082) ---- *)
Lemma file_step_clip : forall st o, file_step st (clip_op o) = file_step st o.
Proof.
  intros st o. destruct o as [seq b| | | | | | | ]; try reflexivity. cbn [clip_op].
  destruct (N.ltb_spec MAX_MSG_LENGTH (len b)) as [H|H]; [|reflexivity].
  cbn [file_step file_sys N.eqb]. destruct (seq =? 0); [reflexivity|].
  destruct (sfind seq (f_index st)); [reflexivity|].
  destruct (N.ltb_spec MAX_MSG_LENGTH (len b)); [reflexivity|lia].
Qed.

Lemma file_run_clip : forall ops st, file_run st (clip ops) = file_run st ops.
Proof.
  induction ops as [|o r IH]; intros st; [reflexivity|]. cbn [clip map file_run].
  rewrite file_step_clip. destruct (file_step st o) as [[st' x]|]; [|reflexivity].
  fold (clip r). rewrite IH. reflexivity.
Qed.

Lemma slot_step_clip : forall m o, slot_step m (clip_op o) = slot_step m o.
Proof.
  intros m o. destruct o as [seq b| | | | | | | ]; try reflexivity. cbn [clip_op].
  destruct (N.ltb_spec MAX_MSG_LENGTH (len b)) as [H|H]; [|reflexivity].
  destruct m; cbn [slot_step N.eqb orb]; try reflexivity.
  destruct (N.ltb_spec MAX_MSG_LENGTH (len b)); [|lia]. rewrite orb_true_r. reflexivity.
Qed.

Lemma reopen_safe_clip : forall ops m, reopen_safe_from m (clip ops) = reopen_safe_from m ops.
Proof.
  induction ops as [|o r IH]; intros m; [reflexivity|]. cbn [clip map reopen_safe_from]. fold (clip r).
  rewrite slot_step_clip, IH.
  destruct m; try reflexivity. destruct o as [seq b| | | | | | | ]; try reflexivity.
  cbn [clip_op]. destruct (MAX_MSG_LENGTH <? len b); reflexivity.
Qed.

Lemma c26_file_refines_anylen_lemma : forall ops,
  forallb op_bounded ops = true -> N.of_nat (length ops) < LIM ->
  zero_free ops = true -> reopen_safe ops = true ->
  file_outputs ops = Some (spec_outputs (clip ops)).
Proof.
  intros ops Hb Hn Hz Hr. unfold file_outputs. rewrite <- file_run_clip.
  apply c26_file_refines_lemma.
  - unfold ops_wf. apply andb_true_iff. split.
    + unfold clip. rewrite forallb_forall in *. intros o Ho. apply in_map_iff in Ho.
      destruct Ho as [o' [E Ho']]. subst o. specialize (Hb o' Ho').
      unfold op_wf. destruct o' as [seq b| | | | | | | ]; cbn [clip_op]; try (rewrite Hb; reflexivity).
      destruct (N.ltb_spec MAX_MSG_LENGTH (len b)).
      * reflexivity.
      * rewrite Hb. cbn [andb]. apply N.leb_le. exact H.
    + unfold clip. rewrite map_length. apply N.ltb_lt. exact Hn.
  - unfold zero_free, clip in *. rewrite forallb_forall in *. intros o Ho. apply in_map_iff in Ho.
    destruct Ho as [o' [E Ho']]. subst o. specialize (Hz o' Ho').
    destruct o' as [seq b| | | | | | | ]; cbn [clip_op]; auto. destruct (MAX_MSG_LENGTH <? len b); reflexivity.
  - unfold reopen_safe. rewrite reopen_safe_clip. exact Hr.
Qed.
