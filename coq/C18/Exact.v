(* C18: the hypothesis "the decoder is exact on the stored strings" (definitions only): the tokens of the
   stored string are 8, 9, 35, the decoded header fields, the decoded body fields, 10 -- nothing dropped,
   nothing reordered (the codec's own subject: C03/C04); and the stored message is not a SequenceReset.  Evaluated at run time by the driver. *)
From Coq Require Import NArith ZArith List Bool.
From F8 Require Import Sess.Bytes Sess.Msg Sess.Persist Sess.Session Sess.SessLemmas C18.Spec_C18.
Import ListNotations.
Local Open Scope N_scope.

Definition exact_ok (sc : schema) (decode : bytes -> decode_result) (kv : N * bytes) : bool :=
  match decode (snd kv) with
  | DecOk m =>
    match tokens (snd kv) with
    | (t8, v8) :: (t9, _) :: (t35, ty) :: rest =>
      beq t8 (dec 8) && beq v8 (sc_begin sc) && beq t9 (dec 9) && beq t35 (dec T_MsgType) && beq ty (m_type m) &&
      match rev rest with
      | (t10, _) :: rrest => beq t10 (dec 10) && toks_eq (rev rrest) (map ftok (m_hdr m) ++ map ftok (m_body m))
      | [] => false
      end &&
      negb (has_field T_PossDupFlag (m_body m)) && negb (has_field T_OrigSendingTime (m_body m)) &&
      negb (beq (m_type m) mt_sequence_reset)
    | _ => false
    end
  | DecExc _ _ => false
  end.
