(* C18: the property theorems (assembled from ReplayProofs, PlanProofs, FaithProofs). *)
From Coq Require Import NArith ZArith List Bool Lia.
From F8 Require Import Sess.Bytes Sess.Msg Sess.Persist Sess.Session Sess.SimpleCodec Sess.Wire Sess.SessLemmas.
From F8 Require Import C18.Spec_C18 C18.Replay C18.ReplayProofs C18.PlanProofs C18.FaithProofs C18.Witness.
Import ListNotations.
Local Open Scope N_scope.

(* the standing hypotheses: an in-sequence ResendRequest m with a valid range reaches a session that is
   not already replaying, whose socket is open, with always_seqnum_assign off and a persister attached
   whose store is well-formed (ascending keys) and holds only records the replay can decode *)
Definition ready (sc : schema) (decode : bytes -> decode_result) (now : Z) (s : sess) (seqnum : N) (m : msg) : Prop :=
  (exists r, enforce sc now seqnum m s = (inl r, s, [])) /\
  (s_state s =? st_resend_request_received) = false /\
  s_closed s = false /\ s_batch s = [].

Definition ready_store (decode : bytes -> decode_result) (s : sess) : Prop :=
  pr_asa (s_par s) = false /\ p_attached (s_per s) = true /\
  store_wf (p_store (s_per s)) = true /\
  forallb (resendable decode) (p_store (s_per s)) = true /\
  N.of_nat (length (p_store (s_per s))) <= 100000.

Section T.
Variable sc : schema.
Variable decode : bytes -> decode_result.
Variable now : Z.

Notation st s := (p_store (s_per s)).
Notation the_plan s m := (plan (p_store (s_per s)) (s_next_send s) (req_begin m) (req_end m)).

Theorem replay_plan : forall s seqnum m,
  nosoh (sc_begin sc) = true -> is_admin sc mt_sequence_reset = true ->
  ready sc decode now s seqnum m -> ready_store decode s ->
  range_bad (req_begin m) (req_end m) = false ->
  exists s',
    handle_resend_request sc decode now seqnum m s = (inl true, s', out sc now decode s (fst (the_plan s m))) /\
    s_next_send s' = snd (the_plan s m) /\ s_state s' = st_continuous /\ st s' = st s.
Proof.
  intros s seqnum m W ADM ((r & ENF) & ST & CL & BA) (ASA & ATT & WF & DEC & LEN) RB.
  eapply resend_plan; eauto. repeat split; assumption.
Qed.

Lemma forallb_record_resendable : forall l, forallb (record_ok decode) l = true -> forallb (resendable decode) l = true.
Proof.
  intros l. apply forallb_impl. intros [k raw] H. unfold record_ok in H. unfold resendable. cbn [fst snd] in *.
  destruct (decode raw) as [m|]; [|discriminate].
  repeat (apply andb_true_iff in H; destruct H as [H ?]).
  destruct (get_field T_MsgSeqNum (m_hdr m)) eqn:G; [|discriminate].
  unfold has_field. rewrite G. rewrite H. reflexivity.
Qed.

(* complete, ordered, faithful *)
Theorem resent_partial : forall s seqnum m,
  schema_ok sc = true ->
  ready sc decode now s seqnum m -> ready_store decode s ->
  forallb (record_ok decode) (st s) = true ->
  range_bad (req_begin m) (req_end m) = false ->
  exists s' items,
    handle_resend_request sc decode now seqnum m s = (inl true, s', out sc now decode s items) /\
    (* complete: exactly the stored records with Begin <= number <= End (or the last stored one) *)
    (forall k raw, In (k, raw) (resent items) <->
                   In (k, raw) (st s) /\ req_begin m <= k <= finish_of (st s) (req_end m)) /\
    (* ordered: ascending numbers *)
    sorted_from (req_begin m - 1) (resent items) = true /\
    (* faithful: each one goes out as the stored message + PossDupFlag=Y + OrigSendingTime *)
    Forall (fun kr => faithful_wire sc decode now (fst kr) (snd kr) (wire sc decode now s (PMsg (fst kr) (snd kr))))
           (resent items).
Proof.
  intros s seqnum m SOK RD RS RO RB.
  destruct (sok_parts sc SOK) as (W & S34 & S43 & S52 & S122 & S49 & S56 & ADM & B36 & B123).
  destruct (replay_plan s seqnum m W ADM RD RS RB) as (s' & E & _).
  exists s', (fst (the_plan s m)). split; [exact E|].
  destruct RS as (ASA & ATT & WF & DEC & LEN).
  assert (B0 : 0 < req_begin m).
  { unfold range_bad in RB. apply orb_false_iff in RB. destruct RB as [_ RB]. apply N.eqb_neq in RB. lia. }
  rewrite resent_plan. split; [|split].
  - intros k raw. rewrite after_in. split; intros (A & B); (split; [exact A|lia]).
  - pose proof (after_sorted (st s) 0 (req_begin m - 1) (finish_of (st s) (req_end m)) WF) as S.
    replace (N.max 0 (req_begin m - 1)) with (req_begin m - 1) in S by lia. exact S.
  - apply Forall_forall. intros [k raw] I. cbn [fst snd].
    apply wire_resend_faithful; [exact SOK|exact ASA|].
    apply after_in in I. destruct I as [I _]. rewrite forallb_forall in RO. apply RO. exact I.
Qed.

(* EVERY gap fill sent from inside the replay (scenarios #2/#3, since /repo 930506b) is exact, for all stores
   and ranges: the oracle's parser reads MsgSeqNum = a, NewSeqNo = k with a the first number of a gap
   (Begin, or the number after a stored record), k the number of the next stored record, and nothing stored
   in [a, k).  The plan = these items in order, then the final gap fill. *)
Theorem gapfill_exact : forall s seqnum m,
  schema_ok sc = true -> nosoh (s_snd s) = true -> nosoh (s_tgt s) = true ->
  ready sc decode now s seqnum m -> ready_store decode s ->
  range_bad (req_begin m) (req_end m) = false ->
  exists s' loop_items final,
    handle_resend_request sc decode now seqnum m s =
      (inl true, s', out sc now decode s (loop_items ++ [final])) /\
    forall a k, In (PGap a k) loop_items ->
      parse_out (wire sc decode now s (PGap a k)) = IGap a k /\
      req_begin m <= a /\ a < k /\
      (exists raw, In (k, raw) (st s) /\ k <= finish_of (st s) (req_end m)) /\
      (forall k' raw', In (k', raw') (st s) -> ~ (a <= k' < k)) /\
      (a = req_begin m \/ exists raw', In (a - 1, raw') (st s)).
Proof.
  intros s seqnum m SOK N1 N2 RD RS RB.
  destruct (sok_parts sc SOK) as (W & S34 & S43 & S52 & S122 & S49 & S56 & ADM & B36 & B123).
  destruct (replay_plan s seqnum m W ADM RD RS RB) as (s' & E & _).
  destruct RS as (ASA & ATT & WF & DEC & LEN).
  assert (B0 : 0 < req_begin m).
  { unfold range_bad in RB. apply orb_false_iff in RB. destruct RB as [_ RB]. apply N.eqb_neq in RB. lia. }
  set (b := req_begin m) in *. set (fin := finish_of (st s) (req_end m)) in *.
  set (recs := after (b - 1) fin (st s)).
  assert (SR : sorted_from (b - 1) recs = true).
  { pose proof (after_sorted (st s) 0 (b - 1) fin WF) as S. replace (N.max 0 (b - 1)) with (b - 1) in S by lia. exact S. }
  unfold plan in E. fold fin in E. fold recs in E.
  pose proof (loop_gaps_exact recs b 0) as LG.
  destruct (plan_loop b 0 recs) as [items last]. destruct (plan_final (s_next_send s) b last) as [g nseq]. cbn [fst] in *.
  exists s', items, g. split; [exact E|].
  intros a k I. destruct (LG a k B0 SR I) as (A1 & A2 & (raw & A3) & A4 & A5).
  change (from_of b 0) with b in *.
  assert (INR : forall k0 raw0, In (k0, raw0) recs <-> In (k0, raw0) (st s) /\ b <= k0 <= fin).
  { intros. unfold recs. rewrite after_in. split; intros (P & Q); (split; [exact P|lia]). }
  split.
  { rewrite (wire_gap_parse sc decode now SOK s) by assumption. unfold gap_seq.
    replace (a =? 0) with false by (symmetry; apply N.eqb_neq; lia). reflexivity. }
  split; [exact A1|]. split; [exact A2|]. split.
  { exists raw. apply INR in A3. destruct A3 as (P & Q & R). split; [exact P|exact R]. }
  split.
  { intros k' raw' J Q. apply INR in A3. destruct A3 as (P3 & Q3 & R3).
    apply (A4 k' raw'); [apply INR; split; [exact J|lia]|exact Q]. }
  destruct A5 as [A5|(raw' & A5)]; [left; exact A5|right; exists raw'; apply INR in A5; tauto].
Qed.

(* F22 as it was before 930506b, on Session.retrans_record_orig: the gap fill in front of a record carries the
   CURRENT next_send as MsgSeqNum whatever the gap is -- for every state, not the first number of the gap *)
Theorem gapfill_seq_orig_refuted : forall s b k raw,
  schema_ok sc = true -> nosoh (s_snd s) = true -> nosoh (s_tgt s) = true ->
  s_closed s = false -> s_batch s = [] -> pr_asa (s_par s) = false -> p_attached (s_per s) = true ->
  resendable decode (k, raw) = true -> b < k ->
  exists s' w evs,
    retrans_record_orig sc decode now b 0 k raw s = (inl true, s', EOut w :: evs) /\
    parse_out w = IGap (s_next_send s) k.
Proof.
  intros s b k raw SOK N1 N2 CL BA ASA ATT RK L.
  destruct (sok_parts sc SOK) as (W & S34 & S43 & S52 & S122 & S49 & S56 & ADM & B36 & B123).
  destruct (retrans_record_orig_plan sc now decode W ADM s b 0 k raw ltac:(repeat split; assumption) RK) as (s' & E & _).
  unfold gap_before_orig in E. cbn [N.eqb negb] in E. replace (b <? k) with true in E by (symmetry; apply N.ltb_lt; exact L).
  unfold out in E. cbn [app map] in E.
  eexists. eexists. eexists. split; [exact E|].
  rewrite (wire_gap_parse sc decode now SOK s) by assumption.
  unfold gap_seq. destruct (s_next_send s =? 0) eqn:Z; [apply N.eqb_eq in Z; rewrite Z|]; reflexivity.
Qed.

(* afterwards next_send is the NewSeqNo of the last gap fill announced *)
Theorem continue_after : forall s seqnum m,
  schema_ok sc = true -> nosoh (s_snd s) = true -> nosoh (s_tgt s) = true ->
  ready sc decode now s seqnum m -> ready_store decode s ->
  range_bad (req_begin m) (req_end m) = false ->
  exists s' evs w a,
    handle_resend_request sc decode now seqnum m s = (inl true, s', (evs ++ [EOut w])%list) /\
    parse_out w = IGap a (s_next_send s') /\ s_state s' = st_continuous /\ st s' = st s.
Proof.
  intros s seqnum m SOK N1 N2 RD RS RB.
  destruct (sok_parts sc SOK) as (W & S34 & S43 & S52 & S122 & S49 & S56 & ADM & B36 & B123).
  destruct (replay_plan s seqnum m W ADM RD RS RB) as (s' & E & NS & STC & STO).
  destruct (plan_ends (st s) (s_next_send s) (req_begin m) (req_end m)) as (items & x & P).
  rewrite P in E. rewrite out_app in E. unfold out at 2 in E. cbn [map] in E.
  eexists. eexists. eexists. eexists. split; [exact E|].
  rewrite (wire_gap_parse sc decode now SOK s) by assumption. rewrite NS. auto.
Qed.

(* without a persister: one gap fill, MsgSeqNum = Begin, NewSeqNo = max (Begin+1) next_send *)
Theorem nopersister : forall s seqnum m,
  schema_ok sc = true -> nosoh (s_snd s) = true -> nosoh (s_tgt s) = true ->
  ready sc decode now s seqnum m -> p_attached (s_per s) = false ->
  range_bad (req_begin m) (req_end m) = false ->
  exists s' w,
    handle_resend_request sc decode now seqnum m s = (inl true, s', [EOut w]) /\
    parse_out w = IGap (req_begin m) (N.max (req_begin m + 1) (s_next_send s)) /\
    s_next_send s' = N.max (req_begin m + 1) (s_next_send s) /\ s_state s' = s_state s.
Proof.
  intros s seqnum m SOK N1 N2 ((r & ENF) & ST & CL & BA) ATT RB.
  destruct (sok_parts sc SOK) as (W & S34 & S43 & S52 & S122 & S49 & S56 & ADM & B36 & B123).
  destruct (resend_nopersister sc now decode W s seqnum m r ENF ST RB CL BA ATT) as (s' & E & NS & STS).
  assert (B0 : 0 < req_begin m).
  { unfold range_bad in RB. apply orb_false_iff in RB. destruct RB as [_ RB]. apply N.eqb_neq in RB. lia. }
  unfold plan_nopersister in *. cbn [fst snd] in *. unfold out in E. cbn [map] in E.
  assert (MX : (if s_next_send s <=? req_begin m then req_begin m + 1 else s_next_send s) =
               N.max (req_begin m + 1) (s_next_send s)).
  { destruct (s_next_send s <=? req_begin m) eqn:Q; [apply N.leb_le in Q|apply N.leb_gt in Q]; lia. }
  rewrite MX in *.
  eexists. eexists. split; [exact E|]. split; [|split; assumption].
  rewrite (wire_gap_parse sc decode now SOK s) by assumption. unfold gap_seq.
  replace (req_begin m =? 0) with false by (symmetry; apply N.eqb_neq; lia). reflexivity.
Qed.

(* invalid ranges: exactly one Reject, a new message *)
Theorem reject_invalid : forall s seqnum m,
  nosoh (sc_begin sc) = true ->
  ready sc decode now s seqnum m ->
  range_bad (req_begin m) (req_end m) = true ->
  exists s',
    handle_resend_request sc decode now seqnum m s =
      (inl true, s', [EOut (encode sc (fst (stamp sc now s (reject_msg sc seqnum m))))]) /\
    m_type (reject_msg sc seqnum m) = mt_reject /\
    s_next_send s' = s_next_send s + 1 /\ s_state s' = s_state s.
Proof.
  intros s seqnum m W ((r & ENF) & ST & CL & BA) RB.
  destruct (resend_reject sc now decode W s seqnum m r ENF ST RB CL BA) as (s' & E & NS & STS).
  exists s'. split; [exact E|]. split; [apply reject_msg_props|]. split; assumption.
Qed.

(* ---- every established sub-state ------------------------------------------------------------------------------ *)
(* enforce lets the request through and leaves (s1, e1) -- s1 may differ from s: when the request's own number
   is ahead, enforce has sent our ResendRequest and moved to resend_request_sent.  Whatever state s1 is, other
   than resend_request_received, the answer is e1 followed by the full plan and ends with a gap fill: a valid
   request is never dropped (test_request_sent, resend_request_sent, logoff_sent, ... included). *)
Theorem replay_plan_any_state : forall s seqnum m r s1 e1,
  schema_ok sc = true -> nosoh (s_snd s1) = true -> nosoh (s_tgt s1) = true ->
  enforce sc now seqnum m s = (inl r, s1, e1) ->
  (s_state s1 =? st_resend_request_received) = false ->
  s_closed s1 = false -> s_batch s1 = [] -> ready_store decode s1 ->
  range_bad (req_begin m) (req_end m) = false ->
  exists s' evs w a,
    handle_resend_request sc decode now seqnum m s = (inl true, s', (e1 ++ evs ++ [EOut w])%list) /\
    (evs ++ [EOut w])%list = out sc now decode s1 (fst (the_plan s1 m)) /\
    parse_out w = IGap a (s_next_send s') /\
    s_next_send s' = snd (the_plan s1 m) /\ s_state s' = st_continuous /\ st s' = st s1.
Proof.
  intros s seqnum m r s1 e1 SOK N1 N2 ENF ST CL BA (ASA & ATT & WF & DEC & LEN) RB.
  destruct (sok_parts sc SOK) as (W & S34 & S43 & S52 & S122 & S49 & S56 & ADM & B36 & B123).
  destruct (resend_plan_any sc now decode W ADM s seqnum m r s1 e1 ENF ST RB ltac:(repeat split; assumption) WF DEC LEN)
    as (s' & E & NS & STC & STO).
  destruct (plan_ends (st s1) (s_next_send s1) (req_begin m) (req_end m)) as (items & x & P).
  exists s', (out sc now decode s1 items), (wire sc decode now s1 (PGap x (snd (the_plan s1 m)))), (gap_seq s1 x).
  split; [rewrite E, P, out_app; reflexivity|]. split; [rewrite P, out_app; reflexivity|].
  split; [rewrite (wire_gap_parse sc decode now SOK s1) by assumption; rewrite NS; reflexivity|]. auto.
Qed.

(* the one exception: a replay is already running *)
Theorem unanswered_only_while_replaying : forall s seqnum m r s1 e1,
  enforce sc now seqnum m s = (inl r, s1, e1) ->
  (s_state s1 =? st_resend_request_received) = true ->
  handle_resend_request sc decode now seqnum m s = (inl true, s1, e1).
Proof.
  intros s seqnum m r s1 e1 ENF ST. rewrite (handle_after_enforce sc now decode seqnum m s r s1 e1 ENF).
  rewrite (body_busy sc now decode s1 seqnum m ST). rewrite app_nil_r. reflexivity.
Qed.

(* the request's own MsgSeqNum is above the expected one (state continuous): our ResendRequest for the gap,
   then the replay planned with next_send + 1 *)
Theorem replay_plan_ahead : forall s seqnum m,
  nosoh (sc_begin sc) = true -> is_admin sc mt_sequence_reset = true -> is_admin sc mt_resend_request = true ->
  s_state s = st_continuous ->
  compid_check m s = (inl tt, s, []) ->
  beq (m_type m) mt_sequence_reset = false ->
  s_next_recv s < seqnum ->
  s_closed s = false -> s_batch s = [] -> ready_store decode s ->
  range_bad (req_begin m) (req_end m) = false ->
  exists s' s1,
    s_state s1 = st_resend_request_sent /\ s_next_send s1 = s_next_send s + 1 /\
    handle_resend_request sc decode now seqnum m s =
      (inl true, s',
       (EOut (encode sc (fst (stamp sc now s (generate_resend_request sc (s_next_recv s) 0)))) ::
        out sc now decode s1 (fst (plan (st s) (s_next_send s + 1) (req_begin m) (req_end m))))) /\
    s_next_send s' = snd (plan (st s) (s_next_send s + 1) (req_begin m) (req_end m)) /\
    s_state s' = st_continuous /\ st s' = st s.
Proof.
  intros s seqnum m W ADM ADM2 ST CC NT LT CL BA (ASA & ATT & WF & DEC & LEN) RB.
  apply (resend_plan_ahead sc now decode W ADM); try assumption. repeat split; assumption.
Qed.

End T.
