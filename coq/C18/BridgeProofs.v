(* C18: from the model's bytes to the oracle's `faithful` -- and the end-to-end theorem: under the
   stated hypotheses the model's answer to a ResendRequest satisfies Spec_C18.answer_ok. *)
From Coq Require Import NArith ZArith List Bool Lia.
From F8 Require Import Sess.Bytes Sess.Msg Sess.Persist Sess.Session Sess.SessLemmas.
From F8 Require Import C18.Spec_C18 C18.Replay C18.ReplayProofs C18.PlanProofs C18.FaithProofs C18.Exact C18.OracleProofs.
Import ListNotations.
Local Open Scope N_scope.

Lemma toks_eq_eq : forall a b, toks_eq a b = true -> a = b.
Proof.
  induction a as [|[t v] a IH]; destruct b as [|[t' v'] b]; cbn [toks_eq]; intro H; try discriminate; [reflexivity|].
  apply andb_true_iff in H. destruct H as [H H3]. apply andb_true_iff in H. destruct H as [H1 H2].
  apply beq_eq in H1. apply beq_eq in H2. subst. f_equal. apply IH. exact H3.
Qed.
Lemma toks_eq_refl : forall a, toks_eq a a = true.
Proof. induction a as [|[t v] a IH]; [reflexivity|]. cbn [toks_eq]. rewrite !beq_refl, IH. reflexivity. Qed.

(* ---- dropping volatile tags, on fields ------------------------------------------------------------------------ *)
Definition dropf (V : list N) (l : list field) : list field :=
  filter (fun f => negb (existsb (N.eqb (f_tag f)) V)) l.

Lemma tag_in_ftok : forall V f, tag_in V (ftok f) = existsb (N.eqb (f_tag f)) V.
Proof.
  intros V f. unfold tag_in, ftok, tagb. cbn [fst]. induction V as [|g V IH]; [reflexivity|].
  cbn [existsb]. rewrite beq_dec, IH. reflexivity.
Qed.

Lemma drop_tags_ftok : forall V l, drop_tags V (map ftok l) = map ftok (dropf V l).
Proof.
  intros V l. unfold drop_tags, dropf. induction l as [|f l IH]; [reflexivity|].
  cbn [map filter]. rewrite tag_in_ftok. destruct (existsb (N.eqb (f_tag f)) V); cbn [negb map]; rewrite IH; reflexivity.
Qed.

Lemma drop_tags_app : forall V a b, drop_tags V (a ++ b) = (drop_tags V a ++ drop_tags V b)%list.
Proof. intros. unfold drop_tags. apply filter_app. Qed.

Lemma dropf_insert : forall V f l, existsb (N.eqb (f_tag f)) V = true -> dropf V (insert_field f l) = dropf V l.
Proof.
  intros V f l H. unfold dropf. induction l as [|g l IH]; cbn [insert_field filter].
  - rewrite H. reflexivity.
  - destruct (f_pos g <=? f_pos f); cbn [filter]; [rewrite IH; reflexivity|rewrite H; reflexivity].
Qed.
Lemma dropf_remove : forall V t l, existsb (N.eqb t) V = true -> dropf V (remove_field t l) = dropf V l.
Proof.
  intros V t l H. unfold dropf. induction l as [|g l IH]; cbn [remove_field filter]; [reflexivity|].
  destruct (f_tag g =? t) eqn:E.
  - apply N.eqb_eq in E. rewrite E, H. reflexivity.
  - cbn [filter]. rewrite IH. reflexivity.
Qed.
Lemma dropf_add : forall V p t v l, existsb (N.eqb t) V = true -> dropf V (add_field p t v l) = dropf V l.
Proof.
  intros. unfold add_field. destruct (get_pos t l).
  - rewrite dropf_insert by assumption. apply dropf_remove. assumption.
  - apply dropf_insert. assumption.
Qed.
Lemma dropf_hdr_add : forall sc V t v m, existsb (N.eqb t) V = true -> dropf V (m_hdr (add_hdr' sc t v m)) = dropf V (m_hdr m).
Proof.
  intros. unfold add_hdr', add_hdr. destruct (assoc t (sc_hdr sc)); [|reflexivity]. cbn [m_hdr]. apply dropf_add. assumption.
Qed.

Lemma has_field_cons_false : forall t f l, has_field t (f :: l) = false -> (f_tag f =? t) = false /\ has_field t l = false.
Proof.
  intros t f l H. unfold has_field in *. cbn [get_field] in H. destruct (f_tag f =? t); [discriminate|]. split; [reflexivity|exact H].
Qed.

Lemma dropf_volatile : forall l, has_field T_PossDupFlag l = false -> has_field T_OrigSendingTime l = false ->
  dropf volatile_resent l = dropf volatile_stored l.
Proof.
  induction l as [|f l IH]; intros H1 H2; [reflexivity|].
  apply has_field_cons_false in H1. destruct H1 as [A1 B1]. apply has_field_cons_false in H2. destruct H2 as [A2 B2].
  unfold dropf in *. cbn [filter]. rewrite (IH B1 B2).
  replace (existsb (N.eqb (f_tag f)) volatile_resent) with (existsb (N.eqb (f_tag f)) volatile_stored); [reflexivity|].
  unfold volatile_resent, volatile_stored. cbn [existsb]. rewrite A1, A2. rewrite !orb_false_r. reflexivity.
Qed.

Section B.
Variable sc : schema.
Variable decode : bytes -> decode_result.
Variable now : Z.
Hypothesis SOK : schema_ok sc = true.

Theorem wire_faithful_oracle : forall s k raw,
  pr_asa (s_par s) = false -> record_ok decode (k, raw) = true -> exact_ok sc decode (k, raw) = true ->
  faithful k (tokens raw) (tokens (wire sc decode now s (PMsg k raw))) = true.
Proof.
  intros s k raw A RO EX. destruct (sok_parts sc SOK) as (W & S34 & S43 & S52 & S122 & S49 & S56 & ADM & B36 & B123).
  unfold record_ok in RO. unfold exact_ok in EX. cbn [fst snd] in *. destruct (decode raw) as [m|] eqn:DE; [|discriminate].
  repeat (apply andb_true_iff in RO; destruct RO as [RO ?]).
  destruct (get_field T_MsgSeqNum (m_hdr m)) as [v34|] eqn:G34; [|discriminate].
  match goal with H : beq v34 _ = true |- _ => apply beq_eq in H; subst v34 end.
  match goal with H : negb (has_field T_PossDupFlag (m_hdr m)) = true |- _ => apply negb_true_iff in H; rename H into H43 end.
  match goal with H : negb (has_field T_OrigSendingTime (m_hdr m)) = true |- _ => apply negb_true_iff in H; rename H into H122 end.
  match goal with H : nodupb _ = true |- _ => apply nodupb_NoDup in H; rename H into ND end.
  match goal with H : has_field T_SendingTime _ = true |- _ => rename H into H52 end.
  unfold has_field in H52. destruct (get_field T_SendingTime (m_hdr m)) as [st|] eqn:G52; [|discriminate].
  assert (H34 : has_field T_MsgSeqNum (m_hdr m) = true) by (unfold has_field; rewrite G34; reflexivity).
  assert (Vst : nosoh st = true).
  { match goal with H : vals_ok (m_hdr m) = true |- _ => revert H end. clear - G52. unfold vals_ok.
    induction (m_hdr m) as [|f l IH]; cbn [get_field forallb] in *; [discriminate|].
    intro V. apply andb_true_iff in V. destruct V as [V1 V2].
    destruct (f_tag f =? T_SendingTime); [inversion G52; subst; exact V1|apply IH; assumption]. }
  unfold wire. rewrite DE. rewrite (stamp_resend_eq sc now s m st) by assumption.
  set (m4 := resent_msg sc now m st).
  assert (WF : wf_msg sc m4 = true).
  { unfold wf_msg. subst m4. unfold resent_msg. rewrite !add_hdr'_type, !add_hdr'_body.
    rewrite W. cbn [andb].
    match goal with H : nosoh (m_type m) = true |- _ => rewrite H end. cbn [andb].
    match goal with H : vals_ok (m_body m) = true |- _ => rewrite H end. rewrite andb_true_r.
    apply vals_ok_hdr_add; [apply nosoh_fmt_time|]. apply vals_ok_hdr_add; [exact Vst|].
    apply vals_ok_hdr_add; [reflexivity|assumption]. }
  rewrite tokens_encode by exact WF. unfold msg_toks.
  assert (TY4 : m_type m4 = m_type m) by (subst m4; unfold resent_msg; rewrite !add_hdr'_type; reflexivity).
  assert (BD4 : m_body m4 = m_body m) by (subst m4; unfold resent_msg; rewrite !add_hdr'_body; reflexivity).
  rewrite TY4, BD4.
  assert (ND1 : NoDup (tags (m_hdr (add_hdr' sc T_PossDupFlag s_Y m)))) by (apply nodup_hdr_add; exact ND).
  assert (ND2 : NoDup (tags (m_hdr (add_hdr' sc T_OrigSendingTime st (add_hdr' sc T_PossDupFlag s_Y m)))))
    by (apply nodup_hdr_add; exact ND1).
  assert (Q34 : get_field T_MsgSeqNum (m_hdr m4) = Some (dec k))
    by (subst m4; unfold resent_msg; rewrite !get_hdr_add_other by discriminate; exact G34).
  assert (Q43 : get_field T_PossDupFlag (m_hdr m4) = Some s_Y)
    by (subst m4; unfold resent_msg; rewrite !get_hdr_add_other by discriminate; apply get_hdr_add_same; assumption).
  assert (Q122 : get_field T_OrigSendingTime (m_hdr m4) = Some st)
    by (subst m4; unfold resent_msg; rewrite get_hdr_add_other by discriminate; apply get_hdr_add_same; assumption).
  assert (DR : dropf volatile_resent (m_hdr m4) = dropf volatile_stored (m_hdr m)).
  { subst m4. unfold resent_msg. rewrite !dropf_hdr_add by reflexivity. apply dropf_volatile; assumption. }
  (* the stored string *)
  destruct (tokens raw) as [|[t8 v8] [|[t9 v9] [|[t35 ty] rest]]] eqn:TR; try discriminate.
  repeat (apply andb_true_iff in EX; destruct EX as [EX ?]).
  repeat match goal with H : beq _ _ = true |- _ => apply beq_eq in H end. subst t8 v8 t9 t35 ty.
  match goal with H : negb (has_field T_PossDupFlag (m_body m)) = true |- _ => apply negb_true_iff in H; rename H into B43 end.
  match goal with H : negb (has_field T_OrigSendingTime (m_body m)) = true |- _ => apply negb_true_iff in H; rename H into B122 end.
  match goal with H : match rev rest with [] => false | _ => _ end = true |- _ => rename H into RV end.
  destruct (rev rest) as [|[t10 c] rrest] eqn:RR; [discriminate|].
  apply andb_true_iff in RV. destruct RV as [RV1 RV2]. apply beq_eq in RV1. subst t10. apply toks_eq_eq in RV2.
  assert (RE : rest = ((map ftok (m_hdr m) ++ map ftok (m_body m)) ++ [(dec 10, c)])%list).
  { rewrite <- RV2. rewrite <- (rev_involutive rest), RR. reflexivity. }
  subst rest.
  unfold faithful, tagb.
  (* MsgSeqNum on the wire *)
  cbn [app tok_get]. rewrite !beq_dec. cbn [N.eqb T_MsgSeqNum T_MsgType T_SendingTime T_OrigSendingTime Pos.eqb].
  rewrite tok_get_fields, Q34.
  (* SendingTime of the stored string *)
  rewrite <- app_assoc. rewrite tok_get_fields, G52.
  (* OrigSendingTime on the wire *)
  rewrite tok_get_fields, Q122.
  rewrite !beq_refl. cbn [andb].
  rewrite tok_get_fields, Q43. cbn [flag_set s_Y N.eqb Pos.eqb andb].
  (* the remaining fields *)
  change ((dec 8, sc_begin sc) :: (dec 9, dec (N.of_nat (length (payload m4)))) :: (dec T_MsgType, m_type m) ::
          (map ftok (m_hdr m4) ++ map ftok (m_body m) ++ [(dec 10, pad 3 (chk_of sc m4))]))%list
    with ([(dec 8, sc_begin sc); (dec 9, dec (N.of_nat (length (payload m4)))); (dec T_MsgType, m_type m)] ++
          map ftok (m_hdr m4) ++ map ftok (m_body m) ++ [(dec 10, pad 3 (chk_of sc m4))])%list.
  change ((dec 8, sc_begin sc) :: (dec 9, v9) :: (dec T_MsgType, m_type m) ::
          (map ftok (m_hdr m) ++ map ftok (m_body m) ++ [(dec 10, c)]))%list
    with ([(dec 8, sc_begin sc); (dec 9, v9); (dec T_MsgType, m_type m)] ++
          map ftok (m_hdr m) ++ map ftok (m_body m) ++ [(dec 10, c)])%list.
  rewrite !drop_tags_app. rewrite !drop_tags_ftok. rewrite DR.
  rewrite (dropf_volatile (m_body m) B43 B122).
  replace (drop_tags volatile_resent [(dec 8, sc_begin sc); (dec 9, dec (N.of_nat (length (payload m4)))); (dec T_MsgType, m_type m)])
    with [(dec 8, sc_begin sc); (dec T_MsgType, m_type m)] by reflexivity.
  replace (drop_tags volatile_stored [(dec 8, sc_begin sc); (dec 9, v9); (dec T_MsgType, m_type m)])
    with [(dec 8, sc_begin sc); (dec T_MsgType, m_type m)] by reflexivity.
  replace (drop_tags volatile_resent [(dec 10, pad 3 (chk_of sc m4))]) with (@nil (bytes * bytes)) by reflexivity.
  replace (drop_tags volatile_stored [(dec 10, c)]) with (@nil (bytes * bytes)) by reflexivity.
  apply toks_eq_refl.
Qed.
End B.

Section E2E.
Variable sc : schema.
Variable decode : bytes -> decode_result.
Variable now : Z.
Hypothesis SOK : schema_ok sc = true.

Lemma wire_resend_parse : forall s k raw,
  pr_asa (s_par s) = false -> record_ok decode (k, raw) = true -> exact_ok sc decode (k, raw) = true ->
  parse_out (wire sc decode now s (PMsg k raw)) = IMsg (tokens (wire sc decode now s (PMsg k raw))).
Proof.
  intros s k raw A RO EX. destruct (sok_parts sc SOK) as (W & S34 & S43 & S52 & S122 & S49 & S56 & ADM & B36 & B123).
  unfold record_ok in RO. unfold exact_ok in EX. cbn [fst snd] in *. destruct (decode raw) as [m|] eqn:DE; [|discriminate].
  repeat (apply andb_true_iff in RO; destruct RO as [RO ?]).
  destruct (get_field T_MsgSeqNum (m_hdr m)) as [v34|] eqn:G34; [|discriminate].
  match goal with H : negb (has_field T_PossDupFlag (m_hdr m)) = true |- _ => apply negb_true_iff in H; rename H into H43 end.
  match goal with H : has_field T_SendingTime _ = true |- _ => rename H into H52 end.
  unfold has_field in H52. destruct (get_field T_SendingTime (m_hdr m)) as [st|] eqn:G52; [|discriminate].
  assert (H34 : has_field T_MsgSeqNum (m_hdr m) = true) by (unfold has_field; rewrite G34; reflexivity).
  assert (Vst : nosoh st = true).
  { match goal with H : vals_ok (m_hdr m) = true |- _ => revert H end. clear - G52. unfold vals_ok.
    induction (m_hdr m) as [|f l IH]; cbn [get_field forallb] in *; [discriminate|].
    intro V. apply andb_true_iff in V. destruct V as [V1 V2].
    destruct (f_tag f =? T_SendingTime); [inversion G52; subst; exact V1|apply IH; assumption]. }
  assert (NT : beq (m_type m) mt_sequence_reset = false).
  { destruct (tokens raw) as [|[t8 v8] [|[t9 v9] [|[t35 ty] rest]]]; try discriminate.
    repeat (apply andb_true_iff in EX; destruct EX as [EX ?]).
    match goal with H : negb (beq (m_type m) mt_sequence_reset) = true |- _ => apply negb_true_iff in H; exact H end. }
  unfold wire. rewrite DE. rewrite (stamp_resend_eq sc now s m st) by assumption.
  set (m4 := resent_msg sc now m st).
  assert (WF : wf_msg sc m4 = true).
  { unfold wf_msg. subst m4. unfold resent_msg. rewrite !add_hdr'_type, !add_hdr'_body.
    rewrite W. cbn [andb].
    match goal with H : nosoh (m_type m) = true |- _ => rewrite H end. cbn [andb].
    match goal with H : vals_ok (m_body m) = true |- _ => rewrite H end. rewrite andb_true_r.
    apply vals_ok_hdr_add; [apply nosoh_fmt_time|]. apply vals_ok_hdr_add; [exact Vst|].
    apply vals_ok_hdr_add; [reflexivity|assumption]. }
  unfold parse_out, item_of_toks, tagb. rewrite tok_get_encode_type by exact WF.
  assert (TY4 : m_type m4 = m_type m) by (subst m4; unfold resent_msg; rewrite !add_hdr'_type; reflexivity).
  rewrite TY4. unfold mt_sequence_reset in NT. rewrite NT. reflexivity.
Qed.

Lemma plan_gap_seq : forall st n b e a k, store_wf st = true -> 0 < b -> In (PGap a k) (fst (plan st n b e)) -> a <> 0.
Proof.
  intros st n b e a k WF B0 I. unfold plan in I.
  set (recs := after (b - 1) (finish_of st e) st) in *.
  assert (SR : sorted_from (b - 1) recs = true).
  { pose proof (after_sorted st 0 (b - 1) (finish_of st e) WF) as S. replace (N.max 0 (b - 1)) with (b - 1) in S by lia. exact S. }
  pose proof (loop_gaps_exact recs b 0 a k B0 SR) as LG.
  destruct (plan_loop b 0 recs) as [items last]. cbn [fst] in LG.
  unfold plan_final in I. destruct (last =? 0); cbn [fst] in I; apply in_app_or in I; destruct I as [I|[I|[]]];
    try (destruct (LG I) as (A1 & _); unfold from_of in A1; cbn in A1; lia); inversion I; subst; lia.
Qed.

(* the end-to-end statement: the model's answer passes the oracle *)
Theorem answer_ok_partial : forall s seqnum m,
  nosoh (s_snd s) = true -> nosoh (s_tgt s) = true ->
  (exists r, enforce sc now seqnum m s = (inl r, s, [])) ->
  (s_state s =? st_resend_request_received) = false -> s_closed s = false -> s_batch s = [] ->
  pr_asa (s_par s) = false -> p_attached (s_per s) = true ->
  store_wf (p_store (s_per s)) = true -> N.of_nat (length (p_store (s_per s))) <= 100000 ->
  forallb (record_ok decode) (p_store (s_per s)) = true ->
  forallb (exact_ok sc decode) (p_store (s_per s)) = true ->
  keys_below (s_next_send s) (p_store (s_per s)) = true ->
  range_bad (req_begin m) (req_end m) = false ->
  nothing_stored_beyond (p_store (s_per s)) (s_next_send s) (req_end m) = true ->
  exists s' evs,
    handle_resend_request sc decode now seqnum m s = (inl true, s', evs) /\
    answer_ok (p_store (s_per s)) seqnum (s_next_send s) (req_begin m) (req_end m) (outs evs) (s_next_send s') = true.
Proof.
  intros s seqnum m N1 N2 (r & ENF) ST CL BA ASA ATT WF LEN RO EX KB RB NB.
  destruct (sok_parts sc SOK) as (W & S34 & S43 & S52 & S122 & S49 & S56 & ADM & B36 & B123).
  assert (DEC : forallb (resendable decode) (p_store (s_per s)) = true).
  { revert RO. apply forallb_impl. intros [k raw] H. unfold record_ok in H. unfold resendable. cbn [fst snd] in *.
    destruct (decode raw) as [m0|]; [|discriminate].
    repeat (apply andb_true_iff in H; destruct H as [H ?]).
    destruct (get_field T_MsgSeqNum (m_hdr m0)) eqn:G; [|discriminate].
    unfold has_field. rewrite G. rewrite H. reflexivity. }
  destruct (resend_plan sc now decode W ADM s seqnum m r ENF ST RB ltac:(repeat split; assumption) WF DEC LEN)
    as (s' & E & NS & _).
  exists s'. eexists. split; [exact E|].
  assert (B0 : 0 < req_begin m /\ (req_end m = 0 \/ req_begin m <= req_end m)).
  { unfold range_bad in RB. apply orb_false_iff in RB. destruct RB as [RB1 RB2]. apply N.eqb_neq in RB2.
    split; [lia|]. apply andb_false_iff in RB1. destruct RB1 as [RB1|RB1].
    - apply N.ltb_ge in RB1. right. exact RB1.
    - apply negb_false_iff in RB1. apply N.eqb_eq in RB1. left. exact RB1. }
  destruct B0 as [B0 B1].
  unfold answer_ok. change (range_invalid (req_begin m) (req_end m)) with (range_bad (req_begin m) (req_end m)). rewrite RB.
  rewrite NS. apply plan_replay_ok; try assumption.
  set (items := fst (plan (p_store (s_per s)) (s_next_send s) (req_begin m) (req_end m))).
  assert (SUB : forall k raw, In (PMsg k raw) items -> In (k, raw) (p_store (s_per s))).
  { intros k raw I. assert (J : In (k, raw) (resent items)).
    { unfold resent. apply in_flat_map. exists (PMsg k raw). split; [exact I|left; reflexivity]. }
    unfold items in J. rewrite resent_plan in J. apply after_in in J. tauto. }
  assert (GS : forall a k, In (PGap a k) items -> a <> 0).
  { intros a k I. eapply plan_gap_seq; eauto. }
  clearbody items. unfold out, outs.
  induction items as [|it items IH]; [constructor|].
  cbn [map flat_map app]. constructor.
  - destruct it as [a k|k raw]; cbn [abs1].
    + rewrite (wire_gap_parse sc decode now SOK s) by assumption. unfold gap_seq.
      pose proof (GS a k ltac:(left; reflexivity)) as G.
      replace (a =? 0) with false by (symmetry; apply N.eqb_neq; exact G). reflexivity.
    + assert (I : In (k, raw) (p_store (s_per s))) by (apply SUB; left; reflexivity).
      rewrite forallb_forall in RO, EX.
      exists (tokens (wire sc decode now s (PMsg k raw))). split.
      * apply wire_resend_parse; [exact ASA|apply RO; exact I|apply EX; exact I].
      * apply wire_faithful_oracle; [exact SOK|exact ASA|apply RO; exact I|apply EX; exact I].
  - apply IH; intros; [apply SUB|eapply GS]; right; eassumption.
Qed.
End E2E.
