(* C18: the answer to a ResendRequest as an explicit REPLAY PLAN.  Definitions only (the proof that
   the session model Sess.Session.handle_resend_request executes exactly this plan is in
   ReplayProofs.v).  The plan is what runtime/session.cpp handle_resend_request + retrans_callback
   (scenarios #1..#8) do when always_seqnum_assign is off, the socket is open and every stored
   message can be decoded: a list of gap fills and resent messages, and the next_send afterwards. *)
From Coq Require Import NArith ZArith List Bool.
From F8 Require Import Sess.Bytes Sess.Msg Sess.Persist Sess.Session Sess.SessLemmas.
Import ListNotations.
Local Open Scope N_scope.

Inductive pitem :=
| PGap (seq newseq : N)            (* SequenceReset-GapFill with MsgSeqNum seq and NewSeqNo newseq *)
| PMsg (seq : N) (raw : bytes).    (* the stored record (seq, raw) sent again *)

(* the records Persister::get iterates over: keys in (cur, finish] *)
Definition after (cur finish : N) (st : list (N * bytes)) : list (N * bytes) :=
  filter (fun kv => (cur <? fst kv) && (fst kv <=? finish)) st.

(* retrans_callback for the records (since /repo 930506b), b = BeginSeqNo, last = rctx._last: a gap in
   front of the record k is announced with the FIRST number of the gap as MsgSeqNum *)
Definition gap_before (b last k : N) : list pitem :=
  if negb (last =? 0)
  then (if last + 1 <? k then [PGap (last + 1) k] else [])   (* scenario #2 *)
  else (if b <? k then [PGap b k] else []).                  (* scenario #3 *)

(* the callback before 930506b (Session.retrans_record_orig, F22): MsgSeqNum = n, the current next_send *)
Definition gap_before_orig (n b last k : N) : list pitem :=
  if negb (last =? 0)
  then (if last + 1 <? k then [PGap n k] else [])
  else (if b <? k then [PGap n k] else []).

Fixpoint plan_loop (b last : N) (recs : list (N * bytes)) : list pitem * N :=
  match recs with
  | [] => ([], last)
  | (k, raw) :: r =>
    let '(items, last') := plan_loop b k r in
    ((gap_before b last k ++ PMsg k raw :: items)%list, last')
  end.

(* the final callback (no_more_records): scenarios #4/#5 (nothing was resent) and #1/#6 *)
Definition plan_final (n b last : N) : pitem * N :=
  if last =? 0 then
    let nseq := if n <=? b then b + 1 else n in (PGap b nseq, nseq)
  else
    let nseq := if n <=? last + 1 then last + 2 else n in (PGap (last + 1) nseq, nseq).

Definition finish_of (st : list (N * bytes)) (e : N) : N := if e =? 0 then store_last st else e.

(* with a persister attached *)
Definition plan (st : list (N * bytes)) (n b e : N) : list pitem * N :=
  let '(items, last) := plan_loop b 0 (after (b - 1) (finish_of st e) st) in
  let '(g, nseq) := plan_final n b last in
  ((items ++ [g])%list, nseq).

(* without a persister: scenarios #7/#8 *)
Definition plan_nopersister (n b : N) : list pitem * N :=
  let nseq := if n <=? b then b + 1 else n in ([PGap b nseq], nseq).

Definition resent (items : list pitem) : list (N * bytes) :=
  flat_map (fun it => match it with PMsg k raw => [(k, raw)] | PGap _ _ => [] end) items.
Definition gaps (items : list pitem) : list (N * N) :=
  flat_map (fun it => match it with PGap a b => [(a, b)] | PMsg _ _ => [] end) items.

Section Wire.
Variable sc : schema.
Variable decode : bytes -> decode_result.
Variable now : Z.

(* the header work of Session::send_process: the message that is encoded, and is_dup *)
Definition stamp (s : sess) (m : msg) : msg * bool :=
  let asa := pr_asa (s_par s) in
  let is_dup0 := has_field T_PossDupFlag (m_hdr m) in
  let m1 := if has_field T_SenderCompID (m_hdr m) then m else add_hdr' sc T_SenderCompID (s_snd s) m in
  let m2 := if has_field T_TargetCompID (m_hdr m1) then m1 else add_hdr' sc T_TargetCompID (s_tgt s) m1 in
  let seqv := dec (if m_custom m =? 0 then s_next_send s else m_custom m) in
  let '(m3, is_dup) :=
    if has_field T_MsgSeqNum (m_hdr m2) then
      let '(m3a, dup) :=
        if is_dup0 then ((if asa then del_hdr T_PossDupFlag m2 else m2), true)
        else if asa then (m2, false) else (add_hdr' sc T_PossDupFlag s_Y m2, true) in
      let sendtime := match get_field T_SendingTime (m_hdr m3a) with Some v => v | None => fmt_time now end in
      let m3b := add_hdr' sc T_OrigSendingTime sendtime m3a in
      ((if asa then add_hdr' sc T_MsgSeqNum seqv m3b else m3b), dup)
    else (add_hdr' sc T_MsgSeqNum seqv m2, is_dup0) in
  (add_hdr' sc T_SendingTime (fmt_time now) m3, is_dup).

(* the gap fill message as Session::send hands it to send_process *)
Definition gap_msg (seq newseq : N) : msg :=
  let g := generate_sequence_reset sc newseq true in
  if seq =? 0 then g else set_custom seq g.

(* the bytes on the wire for one plan item, sent by a session in state s *)
Definition wire (s : sess) (it : pitem) : bytes :=
  match it with
  | PGap a b => encode sc (fst (stamp s (gap_msg a b)))
  | PMsg _ raw =>
    match decode raw with
    | DecOk m => encode sc (fst (stamp s m))
    | DecExc _ _ => []
    end
  end.

(* a stored record that the replay can send again: it decodes, the decoded message carries its
   MsgSeqNum and is not part of a batch *)
Definition resendable (kv : N * bytes) : bool :=
  match decode (snd kv) with
  | DecOk m => has_field T_MsgSeqNum (m_hdr m) && m_eob m
  | DecExc _ _ => false
  end.

End Wire.

(* strictly ascending keys, all positive: the invariant of Persist.p_store *)
Fixpoint sorted_from (lo : N) (l : list (N * bytes)) : bool :=
  match l with
  | [] => true
  | (k, _) :: l' => (lo <? k) && sorted_from k l'
  end.
Definition store_wf (l : list (N * bytes)) : bool := sorted_from 0 l.

(* ---- boolean hypotheses of the faithfulness theorems ---------------------------------------------------- *)
Definition hdr_has (sc : schema) (t : N) : bool :=
  match assoc t (sc_hdr sc) with Some _ => true | None => false end.
Definition body_has (sc : schema) (ty : bytes) (t : N) : bool :=
  match find_def ty (sc_msgs sc) with
  | Some d => match assoc t (d_pos d) with Some _ => true | None => false end
  | None => false
  end.

(* the schema knows the fields the replay writes, and a SequenceReset is an admin message *)
Definition schema_ok (sc : schema) : bool :=
  nosoh (sc_begin sc) && hdr_has sc T_MsgSeqNum && hdr_has sc T_PossDupFlag && hdr_has sc T_SendingTime &&
  hdr_has sc T_OrigSendingTime && hdr_has sc T_SenderCompID && hdr_has sc T_TargetCompID &&
  is_admin sc mt_sequence_reset && body_has sc mt_sequence_reset T_NewSeqNo && body_has sc mt_sequence_reset T_GapFillFlag.

Fixpoint nodupb (l : list N) : bool :=
  match l with
  | [] => true
  | x :: l' => negb (existsb (N.eqb x) l') && nodupb l'
  end.

(* a stored record as send_process leaves it: it decodes to a message that carries its own number,
   CompIDs and SendingTime, no PossDupFlag / OrigSendingTime, no repeated header tag, no SOH inside a value *)
Definition record_ok (decode : bytes -> decode_result) (kv : N * bytes) : bool :=
  match decode (snd kv) with
  | DecOk m =>
    m_eob m &&
    match get_field T_MsgSeqNum (m_hdr m) with Some v => beq v (dec (fst kv)) | None => false end &&
    has_field T_SendingTime (m_hdr m) && has_field T_SenderCompID (m_hdr m) && has_field T_TargetCompID (m_hdr m) &&
    negb (has_field T_PossDupFlag (m_hdr m)) && negb (has_field T_OrigSendingTime (m_hdr m)) &&
    nodupb (tags (m_hdr m)) && nosoh (m_type m) && vals_ok (m_hdr m) && vals_ok (m_body m)
  | DecExc _ _ => false
  end.

(* ---- boolean hypotheses of the oracle-level theorem (the negation of nothing_stored_beyond is the classifier
   of the known finding) ---------- *)
(* End = 0, or no stored message has a number in (End, next_send) *)
Definition nothing_stored_beyond (st : list (N * bytes)) (n e : N) : bool :=
  (e =? 0) || forallb (fun kv => negb ((e <? fst kv) && (fst kv <? n))) st.
(* what is stored was sent: all numbers below next_send *)
Definition keys_below (n : N) (st : list (N * bytes)) : bool := forallb (fun kv => fst kv <? n) st.
