(* C18: properties of the replay plan (pure list reasoning). *)
From Coq Require Import NArith ZArith List Bool Lia.
From F8 Require Import Sess.Bytes Sess.Msg Sess.Persist Sess.Session Sess.SessLemmas C18.Replay C18.ReplayProofs.
Import ListNotations.
Local Open Scope N_scope.

Lemma resent_app : forall a b, resent (a ++ b) = (resent a ++ resent b)%list.
Proof. intros. unfold resent. apply flat_map_app. Qed.
Lemma gaps_app : forall a b, gaps (a ++ b) = (gaps a ++ gaps b)%list.
Proof. intros. unfold gaps. apply flat_map_app. Qed.

Lemma resent_gap_before : forall n b last k, resent (gap_before n b last k) = [].
Proof. intros. unfold gap_before. destruct (negb (last =? 0)); [destruct (last + 1 <? k)|destruct (b <? k)]; reflexivity. Qed.

(* completeness and order: what is resent is exactly the list of records handed to the loop *)
Lemma resent_plan_loop : forall recs n b last, resent (fst (plan_loop n b last recs)) = recs.
Proof.
  induction recs as [|[k raw] r IH]; intros n b last; [reflexivity|].
  cbn [plan_loop]. specialize (IH n b k). destruct (plan_loop n b k r) as [items last']. cbn [fst] in *.
  rewrite resent_app, resent_gap_before. cbn [app resent flat_map]. fold (resent items). rewrite IH. reflexivity.
Qed.

Theorem resent_plan : forall st n b e,
  resent (fst (plan st n b e)) = after (b - 1) (finish_of st e) st.
Proof.
  intros. unfold plan.
  pose proof (resent_plan_loop (after (b - 1) (finish_of st e) st) n b 0) as H.
  destruct (plan_loop n b 0 (after (b - 1) (finish_of st e) st)) as [items last]. cbn [fst] in H.
  destruct (plan_final n b last) as [g nseq] eqn:PF. cbn [fst].
  rewrite resent_app, H. unfold plan_final in PF. destruct (last =? 0); inversion PF; subst; cbn; apply app_nil_r.
Qed.

(* the records in (cur, finish] of a well-formed store: in the store, inside the range, ascending *)
Lemma after_in : forall st cur finish k raw, In (k, raw) (after cur finish st) <-> In (k, raw) st /\ cur < k <= finish.
Proof.
  intros. unfold after. rewrite filter_In. cbn [fst]. rewrite andb_true_iff, N.ltb_lt, N.leb_le. tauto.
Qed.

Lemma after_sorted : forall st lo cur finish, sorted_from lo st = true -> sorted_from (N.max lo cur) (after cur finish st) = true.
Proof.
  induction st as [|[a w] l IH]; intros lo cur finish S; [reflexivity|].
  cbn [sorted_from] in S. apply andb_true_iff in S. destruct S as [S1 S2]. apply N.ltb_lt in S1.
  unfold after. cbn [filter fst]. fold (after cur finish l).
  destruct ((cur <? a) && (a <=? finish)) eqn:C.
  - apply andb_true_iff in C. destruct C as [C1 C2]. apply N.ltb_lt in C1.
    cbn [sorted_from]. apply andb_true_iff. split; [apply N.ltb_lt; lia|].
    specialize (IH a cur finish S2). replace (N.max a cur) with a in IH by lia. exact IH.
  - specialize (IH a cur finish S2). eapply sorted_from_weaken; [exact IH|].
    destruct (cur <? a) eqn:Q; [apply N.ltb_lt in Q|apply N.ltb_ge in Q]; lia.
Qed.

(* every gap fill sent from inside the loop carries n (= next_send) as its MsgSeqNum, and announces
   the number of the record that follows it *)
Lemma loop_gaps : forall recs n b last a k,
  In (PGap a k) (fst (plan_loop n b last recs)) -> a = n /\ exists raw, In (k, raw) recs.
Proof.
  induction recs as [|[k0 raw0] r IH]; intros n b last a k I; [destruct I|].
  cbn [plan_loop] in I. specialize (IH n b k0 a k). destruct (plan_loop n b k0 r) as [items last']. cbn [fst] in *.
  apply in_app_or in I. destruct I as [I|I].
  - unfold gap_before in I. destruct (negb (last =? 0)); [destruct (last + 1 <? k0)|destruct (b <? k0)];
      try (destruct I as [I|[]]; inversion I; subst; split; [reflexivity|exists raw0; left; reflexivity]); destruct I.
  - destruct I as [I|I]; [discriminate|]. destruct (IH I) as (A & raw & J). split; [exact A|]. exists raw. right. exact J.
Qed.

(* the plan ends with a gap fill whose NewSeqNo is the next_send left behind *)
Theorem plan_ends : forall st n b e,
  exists items x, fst (plan st n b e) = (items ++ [PGap x (snd (plan st n b e))])%list.
Proof.
  intros. unfold plan. destruct (plan_loop n b 0 _) as [items last].
  unfold plan_final. destruct (last =? 0); cbn [fst snd]; eexists; eexists; reflexivity.
Qed.

(* scenario #3 in front: the first stored number in the range is above Begin *)
Theorem plan_starts_with_gap : forall st n b e k raw rest,
  after (b - 1) (finish_of st e) st = (k, raw) :: rest -> b < k ->
  exists items, fst (plan st n b e) = PGap n k :: PMsg k raw :: items.
Proof.
  intros st n b e k raw rest A L. unfold plan. rewrite A. cbn [plan_loop].
  destruct (plan_loop n b k rest) as [items last]. destruct (plan_final n b last) as [g nseq]. cbn [fst].
  unfold gap_before. cbn [N.eqb negb]. replace (b <? k) with true by (symmetry; apply N.ltb_lt; exact L).
  eexists. cbn [app]. reflexivity.
Qed.
