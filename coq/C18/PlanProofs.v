(* C18: properties of the replay plan (pure list reasoning). *)
From Coq Require Import NArith ZArith List Bool Lia.
From F8 Require Import Sess.Bytes Sess.Msg Sess.Persist Sess.Session Sess.SessLemmas C18.Replay C18.ReplayProofs.
Import ListNotations.
Local Open Scope N_scope.

Lemma resent_app : forall a b, resent (a ++ b) = (resent a ++ resent b)%list.
Proof. intros. unfold resent. apply flat_map_app. Qed.
Lemma gaps_app : forall a b, gaps (a ++ b) = (gaps a ++ gaps b)%list.
Proof. intros. unfold gaps. apply flat_map_app. Qed.

Lemma resent_gap_before : forall b last k, resent (gap_before b last k) = [].
Proof. intros. unfold gap_before. destruct (negb (last =? 0)); [destruct (last + 1 <? k)|destruct (b <? k)]; reflexivity. Qed.

(* completeness and order: what is resent is exactly the list of records handed to the loop *)
Lemma resent_plan_loop : forall recs b last, resent (fst (plan_loop b last recs)) = recs.
Proof.
  induction recs as [|[k raw] r IH]; intros b last; [reflexivity|].
  cbn [plan_loop]. specialize (IH b k). destruct (plan_loop b k r) as [items last']. cbn [fst] in *.
  rewrite resent_app, resent_gap_before. cbn [app resent flat_map]. fold (resent items). rewrite IH. reflexivity.
Qed.

Theorem resent_plan : forall st n b e,
  resent (fst (plan st n b e)) = after (b - 1) (finish_of st e) st.
Proof.
  intros. unfold plan.
  pose proof (resent_plan_loop (after (b - 1) (finish_of st e) st) b 0) as H.
  destruct (plan_loop b 0 (after (b - 1) (finish_of st e) st)) as [items last]. cbn [fst] in H.
  destruct (plan_final n b last) as [g nseq] eqn:PF. cbn [fst].
  rewrite resent_app, H. unfold plan_final in PF. destruct (last =? 0); inversion PF; subst; cbn; apply app_nil_r.
Qed.

(* the records in (cur, finish] of a well-formed store: in the store, inside the range, ascending *)
Lemma after_in : forall st cur finish k raw, In (k, raw) (after cur finish st) <-> In (k, raw) st /\ cur < k <= finish.
Proof.
  intros. unfold after. rewrite filter_In. cbn [fst]. rewrite andb_true_iff, N.ltb_lt, N.leb_le. tauto.
Qed.

Lemma after_sorted : forall st lo cur finish, sorted_from lo st = true -> sorted_from (N.max lo cur) (after cur finish st) = true.
Proof.
  induction st as [|[a w] l IH]; intros lo cur finish S; [reflexivity|].
  cbn [sorted_from] in S. apply andb_true_iff in S. destruct S as [S1 S2]. apply N.ltb_lt in S1.
  unfold after. cbn [filter fst]. fold (after cur finish l).
  destruct ((cur <? a) && (a <=? finish)) eqn:C.
  - apply andb_true_iff in C. destruct C as [C1 C2]. apply N.ltb_lt in C1.
    cbn [sorted_from]. apply andb_true_iff. split; [apply N.ltb_lt; lia|].
    specialize (IH a cur finish S2). replace (N.max a cur) with a in IH by lia. exact IH.
  - specialize (IH a cur finish S2). eapply sorted_from_weaken; [exact IH|].
    destruct (cur <? a) eqn:Q; [apply N.ltb_lt in Q|apply N.ltb_ge in Q]; lia.
Qed.

(* the first number the loop has not accounted for yet *)
Definition from_of (b last : N) : N := if last =? 0 then b else last + 1.

Lemma gap_before_from : forall b last k,
  gap_before b last k = if from_of b last <? k then [PGap (from_of b last) k] else [].
Proof. intros. unfold gap_before, from_of. destruct (last =? 0); reflexivity. Qed.

(* EVERY gap fill sent from inside the loop is exact, for all stores and ranges: its MsgSeqNum a is the first
   number of a gap (a is where the replay stands: Begin, or the number after a resent record), its
   NewSeqNo k is the number of the next record, and no record lies in [a, k) *)
Theorem loop_gaps_exact : forall recs b last a k,
  0 < from_of b last -> sorted_from (from_of b last - 1) recs = true ->
  In (PGap a k) (fst (plan_loop b last recs)) ->
  from_of b last <= a /\ a < k /\ (exists raw, In (k, raw) recs) /\
  (forall k' raw', In (k', raw') recs -> ~ (a <= k' < k)) /\
  (a = from_of b last \/ exists raw', In (a - 1, raw') recs).
Proof.
  induction recs as [|[k0 raw0] r IH]; intros b last a k F S I; [destruct I|].
  cbn [sorted_from] in S. apply andb_true_iff in S. destruct S as [S1 S2]. apply N.ltb_lt in S1.
  cbn [plan_loop] in I. specialize (IH b k0 a k).
  destruct (plan_loop b k0 r) as [items last']. cbn [fst] in *.
  assert (F' : from_of b k0 = k0 + 1).
  { unfold from_of. replace (k0 =? 0) with false by (symmetry; apply N.eqb_neq; lia). reflexivity. }
  rewrite F' in IH. replace (k0 + 1 - 1) with k0 in IH by lia.
  apply in_app_or in I. destruct I as [I|I].
  - rewrite gap_before_from in I. destruct (from_of b last <? k0) eqn:G; [|destruct I].
    apply N.ltb_lt in G. destruct I as [I|[]]. inversion I; subst a k.
    split; [lia|]. split; [exact G|]. split; [exists raw0; left; reflexivity|]. split; [|left; reflexivity].
    intros k' raw' J. destruct J as [J|J]; [inversion J; subst; lia|].
    pose proof (sorted_from_lt _ _ _ _ S2 J). lia.
  - destruct I as [I|I]; [discriminate|].
    destruct (IH ltac:(lia) S2 I) as (A1 & A2 & (raw & A3) & A4 & A5).
    split; [lia|]. split; [exact A2|]. split; [exists raw; right; exact A3|]. split.
    + intros k' raw' J. destruct J as [J|J]; [inversion J; subst; lia|]. eapply A4; eauto.
    + right. destruct A5 as [A5|(raw' & A5)]; [exists raw0; left; subst a; f_equal; lia|exists raw'; right; exact A5].
Qed.

(* the plan ends with a gap fill whose NewSeqNo is the next_send left behind *)
Theorem plan_ends : forall st n b e,
  exists items x, fst (plan st n b e) = (items ++ [PGap x (snd (plan st n b e))])%list.
Proof.
  intros. unfold plan. destruct (plan_loop b 0 _) as [items last].
  unfold plan_final. destruct (last =? 0); cbn [fst snd]; eexists; eexists; reflexivity.
Qed.

(* scenario #3 in front: the first stored number k in the range is above Begin: the answer starts with the
   gap fill Begin -> k *)
Theorem plan_starts_with_gap : forall st n b e k raw rest,
  after (b - 1) (finish_of st e) st = (k, raw) :: rest -> b < k ->
  exists items, fst (plan st n b e) = PGap b k :: PMsg k raw :: items.
Proof.
  intros st n b e k raw rest A L. unfold plan. rewrite A. cbn [plan_loop].
  destruct (plan_loop b k rest) as [items last]. destruct (plan_final n b last) as [g nseq]. cbn [fst].
  unfold gap_before. cbn [N.eqb negb]. replace (b <? k) with true by (symmetry; apply N.ltb_lt; exact L).
  eexists. cbn [app]. reflexivity.
Qed.
