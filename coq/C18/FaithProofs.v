(* C18: what the replayed bytes say -- the resent message is the stored one plus PossDupFlag and
   OrigSendingTime; the gap fill parses (with the ORACLE's parser) to its MsgSeqNum / NewSeqNo. *)
From Coq Require Import NArith ZArith List Bool Lia.
From F8 Require Import Sess.Bytes Sess.Msg Sess.Persist Sess.Session Sess.SessLemmas C18.Replay C18.ReplayProofs C18.Spec_C18.
Import ListNotations.
Local Open Scope N_scope.

Lemma nodupb_NoDup : forall l, nodupb l = true -> NoDup l.
Proof.
  induction l as [|x l IH]; intro H; [constructor|].
  cbn [nodupb] in H. apply andb_true_iff in H. destruct H as [H1 H2]. constructor; [|apply IH; exact H2].
  intro I. apply negb_true_iff in H1. assert (E : existsb (N.eqb x) l = true).
  { apply existsb_exists. exists x. split; [exact I|apply N.eqb_refl]. }
  congruence.
Qed.

Lemma nosoh_fmt_time : forall t, nosoh (fmt_time t) = true.
Proof.
  intro t. unfold fmt_time. destruct (civil_of_days _) as [[y m] d].
  rewrite !nosoh_app. rewrite !(clean_nosoh _ (pad_clean _ _)). reflexivity.
Qed.

Lemma get_hdr_add_same : forall sc t v m, hdr_has sc t = true -> NoDup (tags (m_hdr m)) ->
  get_field t (m_hdr (add_hdr' sc t v m)) = Some v.
Proof.
  intros sc t v m H ND. unfold hdr_has in H. unfold add_hdr', add_hdr. destruct (assoc t (sc_hdr sc)); [|discriminate].
  cbn [m_hdr]. apply get_add_same. exact ND.
Qed.
Lemma nodup_hdr_add : forall sc t v m, NoDup (tags (m_hdr m)) -> NoDup (tags (m_hdr (add_hdr' sc t v m))).
Proof.
  intros sc t v m ND. unfold add_hdr', add_hdr. destruct (assoc t (sc_hdr sc)); [|exact ND].
  cbn [m_hdr]. apply nodup_add. exact ND.
Qed.
Lemma vals_ok_hdr_add : forall sc t v m, nosoh v = true -> vals_ok (m_hdr m) = true -> vals_ok (m_hdr (add_hdr' sc t v m)) = true.
Proof.
  intros sc t v m Hv H. unfold add_hdr', add_hdr. destruct (assoc t (sc_hdr sc)); [|exact H].
  cbn [m_hdr]. apply vals_ok_add; assumption.
Qed.

Section F.
Variable sc : schema.
Variable decode : bytes -> decode_result.
Variable now : Z.
Hypothesis SOK : schema_ok sc = true.

Lemma sok_parts :
  nosoh (sc_begin sc) = true /\ hdr_has sc T_MsgSeqNum = true /\ hdr_has sc T_PossDupFlag = true /\
  hdr_has sc T_SendingTime = true /\ hdr_has sc T_OrigSendingTime = true /\ hdr_has sc T_SenderCompID = true /\
  hdr_has sc T_TargetCompID = true /\ is_admin sc mt_sequence_reset = true /\
  body_has sc mt_sequence_reset T_NewSeqNo = true /\ body_has sc mt_sequence_reset T_GapFillFlag = true.
Proof.
  pose proof SOK as K. unfold schema_ok in K. repeat (apply andb_true_iff in K; destruct K as [K ?]). repeat split; assumption.
Qed.

(* ---- the resent message ---------------------------------------------------------------------------------- *)
Definition resent_msg (m : msg) (st : bytes) : msg :=
  add_hdr' sc T_SendingTime (fmt_time now) (add_hdr' sc T_OrigSendingTime st (add_hdr' sc T_PossDupFlag s_Y m)).

Lemma stamp_resend_eq : forall s m st,
  pr_asa (s_par s) = false ->
  has_field T_SenderCompID (m_hdr m) = true -> has_field T_TargetCompID (m_hdr m) = true ->
  has_field T_MsgSeqNum (m_hdr m) = true -> has_field T_PossDupFlag (m_hdr m) = false ->
  get_field T_SendingTime (m_hdr m) = Some st ->
  fst (stamp sc now s m) = resent_msg m st.
Proof.
  intros s m st A H49 H56 H34 H43 H52. unfold stamp. rewrite H49, H56, H34, H43, A.
  lazy beta iota zeta. cbn [fst]. rewrite get_hdr_add_other by discriminate. rewrite H52. reflexivity.
Qed.

(* the tokens of a resent record: exactly the decoded stored message, with the header hdr4 *)
Definition faithful_wire (k : N) (raw w : bytes) : Prop :=
  exists m hdr4 len chk,
    decode raw = DecOk m /\
    tokens w = ([(dec 8, sc_begin sc); (dec 9, len); (dec T_MsgType, m_type m)] ++
                map ftok hdr4 ++ map ftok (m_body m) ++ [(dec 10, chk)])%list /\
    get_field T_MsgSeqNum hdr4 = Some (dec k) /\
    get_field T_PossDupFlag hdr4 = Some s_Y /\
    get_field T_OrigSendingTime hdr4 = get_field T_SendingTime (m_hdr m) /\
    get_field T_SendingTime hdr4 = Some (fmt_time now) /\
    (forall t, t <> T_PossDupFlag -> t <> T_OrigSendingTime -> t <> T_SendingTime ->
               get_field t hdr4 = get_field t (m_hdr m)).

Lemma wire_resend_faithful : forall s k raw,
  pr_asa (s_par s) = false -> record_ok decode (k, raw) = true ->
  faithful_wire k raw (wire sc decode now s (PMsg k raw)).
Proof.
  intros s k raw A RO. destruct sok_parts as (W & S34 & S43 & S52 & S122 & S49 & S56 & ADM & B36 & B123).
  unfold record_ok in RO. cbn [fst snd] in RO. destruct (decode raw) as [m|] eqn:DE; [|discriminate].
  repeat (apply andb_true_iff in RO; destruct RO as [RO ?]).
  destruct (get_field T_MsgSeqNum (m_hdr m)) as [v34|] eqn:G34; [|discriminate].
  match goal with H : beq v34 _ = true |- _ => apply beq_eq in H; subst v34 end.
  match goal with H : negb (has_field T_PossDupFlag _) = true |- _ => apply negb_true_iff in H; rename H into H43 end.
  match goal with H : negb (has_field T_OrigSendingTime _) = true |- _ => apply negb_true_iff in H; rename H into H122 end.
  match goal with H : nodupb _ = true |- _ => apply nodupb_NoDup in H; rename H into ND end.
  match goal with H : has_field T_SendingTime _ = true |- _ => rename H into H52 end.
  unfold has_field in H52. destruct (get_field T_SendingTime (m_hdr m)) as [st|] eqn:G52; [|discriminate].
  assert (H34 : has_field T_MsgSeqNum (m_hdr m) = true) by (unfold has_field; rewrite G34; reflexivity).
  assert (Vst : nosoh st = true).
  { match goal with H : vals_ok (m_hdr m) = true |- _ => revert H end. clear - G52. unfold vals_ok.
    induction (m_hdr m) as [|f l IH]; cbn [get_field forallb] in *; [discriminate|].
    intro V. apply andb_true_iff in V. destruct V as [V1 V2].
    destruct (f_tag f =? T_SendingTime); [inversion G52; subst; exact V1|apply IH; assumption]. }
  unfold wire. rewrite DE. rewrite (stamp_resend_eq s m st) by assumption.
  set (m4 := resent_msg m st).
  assert (WF : wf_msg sc m4 = true).
  { unfold wf_msg. subst m4. unfold resent_msg. rewrite !add_hdr'_type, !add_hdr'_body.
    rewrite W. cbn [andb].
    match goal with H : nosoh (m_type m) = true |- _ => rewrite H end. cbn [andb].
    match goal with H : vals_ok (m_body m) = true |- _ => rewrite H end. rewrite andb_true_r.
    apply vals_ok_hdr_add; [apply nosoh_fmt_time|]. apply vals_ok_hdr_add; [exact Vst|].
    apply vals_ok_hdr_add; [reflexivity|assumption]. }
  exists m, (m_hdr m4), (dec (N.of_nat (length (payload m4)))), (pad 3 (chk_of sc m4)).
  split; [exact DE|]. split.
  { rewrite tokens_encode by exact WF. unfold msg_toks. subst m4. unfold resent_msg at 2 4.
    rewrite !add_hdr'_type, !add_hdr'_body. reflexivity. }
  subst m4. unfold resent_msg.
  assert (ND1 : NoDup (tags (m_hdr (add_hdr' sc T_PossDupFlag s_Y m)))) by (apply nodup_hdr_add; exact ND).
  assert (ND2 : NoDup (tags (m_hdr (add_hdr' sc T_OrigSendingTime st (add_hdr' sc T_PossDupFlag s_Y m)))))
    by (apply nodup_hdr_add; exact ND1).
  repeat split.
  - rewrite !get_hdr_add_other by discriminate. exact G34.
  - rewrite !get_hdr_add_other by discriminate. apply get_hdr_add_same; assumption.
  - rewrite get_hdr_add_other by discriminate. rewrite get_hdr_add_same by assumption. symmetry. exact G52.
  - apply get_hdr_add_same; assumption.
  - intros t T1 T2 T3. rewrite !get_hdr_add_other by assumption. reflexivity.
Qed.

(* ---- the gap fill ---------------------------------------------------------------------------------------- *)
Definition gap_seq (s : sess) (a : N) : N := if a =? 0 then s_next_send s else a.

Lemma gap_msg_hdr : forall a ns, m_hdr (gap_msg sc a ns) = [].
Proof. intros. unfold gap_msg. destruct (a =? 0); [apply gsr_hdr|]. unfold set_custom. cbn [m_hdr]. apply gsr_hdr. Qed.
Lemma gap_msg_custom : forall a ns, m_custom (gap_msg sc a ns) = a.
Proof.
  intros. unfold gap_msg. destruct (a =? 0) eqn:E; [rewrite gsr_custom; apply N.eqb_eq in E; congruence|].
  reflexivity.
Qed.

Lemma gap_msg_body : forall a ns,
  get_field T_NewSeqNo (m_body (gap_msg sc a ns)) = Some (dec ns) /\
  get_field T_GapFillFlag (m_body (gap_msg sc a ns)) = Some s_Y /\
  vals_ok (m_body (gap_msg sc a ns)) = true.
Proof.
  intros a ns. destruct sok_parts as (W & S34 & S43 & S52 & S122 & S49 & S56 & ADM & B36 & B123).
  assert (E : m_body (gap_msg sc a ns) = m_body (generate_sequence_reset sc ns true)).
  { unfold gap_msg. destruct (a =? 0); reflexivity. }
  rewrite E. unfold generate_sequence_reset, add_body', add_body. cbn [new_msg m_type].
  unfold body_has in B36, B123. unfold mt_sequence_reset in *.
  destruct (find_def [52] (sc_msgs sc)) as [d|] eqn:FD; [|congruence].
  destruct (assoc T_NewSeqNo (d_pos d)) as [p36|]; [|congruence]. cbn [m_type]. rewrite FD.
  destruct (assoc T_GapFillFlag (d_pos d)) as [p123|]; [|congruence]. cbn [m_body].
  repeat split.
  - rewrite get_add_other by discriminate. apply get_add_same. constructor.
  - apply get_add_same. apply nodup_add. constructor.
  - apply vals_ok_add; [reflexivity|]. apply vals_ok_add; [apply clean_nosoh, dec_clean|reflexivity].
Qed.

Lemma stamp_gap_eq : forall s a ns,
  fst (stamp sc now s (gap_msg sc a ns)) =
  add_hdr' sc T_SendingTime (fmt_time now)
    (add_hdr' sc T_MsgSeqNum (dec (gap_seq s a))
       (add_hdr' sc T_TargetCompID (s_tgt s) (add_hdr' sc T_SenderCompID (s_snd s) (gap_msg sc a ns)))).
Proof.
  intros s a ns. unfold stamp. rewrite gap_msg_hdr. cbn [has_field get_field].
  rewrite has_hdr_add_other by discriminate. rewrite gap_msg_hdr. cbn [has_field get_field].
  rewrite !has_hdr_add_other by discriminate. rewrite gap_msg_hdr. cbn [has_field get_field fst].
  rewrite gap_msg_custom. reflexivity.
Qed.

Lemma wire_gap_parse : forall s a ns,
  nosoh (s_snd s) = true -> nosoh (s_tgt s) = true ->
  parse_out (wire sc decode now s (PGap a ns)) = IGap (gap_seq s a) ns.
Proof.
  intros s a ns N1 N2. destruct sok_parts as (W & S34 & S43 & S52 & S122 & S49 & S56 & ADM & B36 & B123).
  destruct (gap_msg_body a ns) as (G36 & G123 & GV).
  unfold wire. rewrite stamp_gap_eq.
  set (g := gap_msg sc a ns) in *.
  set (m4 := add_hdr' sc T_SendingTime _ _).
  assert (TY : m_type m4 = mt_sequence_reset).
  { subst m4. rewrite !add_hdr'_type. apply gap_msg_type. }
  assert (BD : m_body m4 = m_body g) by (subst m4; rewrite !add_hdr'_body; reflexivity).
  assert (WF : wf_msg sc m4 = true).
  { unfold wf_msg. rewrite W, TY, BD, GV. cbn [andb nosoh forallb mt_sequence_reset N.eqb negb SOH].
    rewrite andb_true_r. subst m4.
    apply vals_ok_hdr_add; [apply nosoh_fmt_time|]. apply vals_ok_hdr_add; [apply clean_nosoh, dec_clean|].
    apply vals_ok_hdr_add; [exact N2|]. apply vals_ok_hdr_add; [exact N1|]. subst g. rewrite gap_msg_hdr. reflexivity. }
  assert (ND : NoDup (tags (m_hdr (add_hdr' sc T_TargetCompID (s_tgt s) (add_hdr' sc T_SenderCompID (s_snd s) g))))).
  { apply nodup_hdr_add. apply nodup_hdr_add. subst g. rewrite gap_msg_hdr. constructor. }
  assert (H34 : get_field T_MsgSeqNum (m_hdr m4) = Some (dec (gap_seq s a))).
  { subst m4. rewrite get_hdr_add_other by discriminate. apply get_hdr_add_same; assumption. }
  assert (HN : forall t, t <> T_SendingTime -> t <> T_MsgSeqNum -> t <> T_TargetCompID -> t <> T_SenderCompID ->
               get_field t (m_hdr m4) = None).
  { intros t T1 T2 T3 T4. subst m4. rewrite !get_hdr_add_other by assumption. subst g. rewrite gap_msg_hdr. reflexivity. }
  unfold parse_out, item_of_toks, num_tok, tagb.
  rewrite tok_get_encode_type by exact WF. rewrite TY. cbn [beq mt_sequence_reset N.eqb andb].
  rewrite !tok_get_encode by (try exact WF; discriminate).
  rewrite H34. rewrite !HN by discriminate. rewrite BD, G36, G123.
  cbn [flag_set s_Y N.eqb]. rewrite !undec_dec. reflexivity.
Qed.

End F.
